import CoclsModel.Async
/-!
Invariant of the `async<T>` life-cycle model and its preservation by every step (helper lemmas for
`Props/C04.lean`).  The proof is organised around the primitive state transformers of the model
(`setCo`, `newFut`, `startCoro`, `subscribe`, `resolve`, `deliver`, `retire`); every operation is a composition of them.
-/
namespace Cocls.Async

@[simp] theorem upd_same {α} (m : Nat → α) (i : Nat) (v : α) : upd m i v i = v := by simp [upd]
theorem upd_apply {α} (m : Nat → α) (i j : Nat) (v : α) : upd m i v j = if j = i then v else m j := rfl
theorem upd_ne {α} (m : Nat → α) {i j : Nat} (v : α) (h : j ≠ i) : upd m i v j = m j := by simp [upd, h]

/-- the body has begun -/
def St.began : St → Bool
  | St.running | St.wantAwait _ _ | St.awaiting _ _ | St.resumable _ _ | St.yielded | St.done => true
  | _ => false
/-- the handle has left the `async` object -/
def St.started : St → Bool
  | St.absent | St.unstarted | St.dropped => false
  | _ => true
def St.freed : St → Bool
  | St.done | St.dropped => true
  | _ => false
def St.susp : St → Bool
  | St.awaiting _ _ => true
  | _ => false
def St.isAw (st : St) (f : Nat) : Bool := match st with | St.awaiting g _ => g == f | _ => false
def St.isRes (st : St) (f : Nat) : Bool := match st with | St.resumable g _ => g == f | _ => false
/-- the coroutine is about to await / awaits / was woken by `f` -/
def St.refs (st : St) (f : Nat) : Bool :=
  match st with
  | St.awaiting g _ | St.wantAwait g _ | St.resumable g _ => g == f
  | _ => false
/-- running code of the body (not suspended, not finished) -/
def St.active : St → Bool
  | St.running | St.wantAwait _ _ | St.resumable _ _ => true
  | _ => false

theorem St.isAw_refs {st : St} {f : Nat} (h : st.isAw f = true) : st.refs f = true := by
  cases st <;> simp_all [St.isAw, St.refs]
theorem St.isRes_refs {st : St} {f : Nat} (h : st.isRes f = true) : st.refs f = true := by
  cases st <;> simp_all [St.isRes, St.refs]
theorem St.isAw_of_norefs {st : St} {f : Nat} (h : st.refs f = false) : st.isAw f = false := by
  cases hh : st.isAw f
  · rfl
  · rw [St.isAw_refs hh] at h; cases h
theorem St.isRes_of_norefs {st : St} {f : Nat} (h : st.refs f = false) : st.isRes f = false := by
  cases hh : st.isRes f
  · rfl
  · rw [St.isRes_refs hh] at h; cases h

/-- the ghost counters of one coroutine are a function of its life-cycle state -/
structure CoOk (x : Coro) : Prop where
  body : x.bodyStarts = if x.st.began then 1 else 0
  frees : x.frameFrees = if x.st.freed then 1 else 0
  args : x.argDtors = x.frameFrees
  locals : x.localDtors = if x.st = St.done then 1 else 0
  allocs : x.allocs = if x.st = St.absent then 0 else 1
  starts : x.startsOk = if x.st.started then 1 else 0
  wake : x.wakes + (if x.st.susp then 1 else 0) = x.suspends
  outc : x.outcome.isSome = decide (x.st = St.done)
  deliv : x.deliveredTo = if x.st = St.done then x.bound.toList else []
  unb : x.st.started = false → x.bound = none
  notif : x.notifiedAtFree = if x.st = St.done then some true else none

structure Inv (s : State) : Prop where
  next_le : s.nExt ≤ s.nextFut
  co_ok : ∀ c, CoOk (s.co c)
  bound_lt : ∀ c f, (s.co c).bound = some f → f < s.nextFut ∧ (s.fut f).claimed = true
  bound_live : ∀ c f, (s.co c).bound = some f → (s.co c).st ≠ St.done →
      (s.fut f).ready = false ∧ (s.fut f).out = none ∧ (s.fut f).setBy = []
  bound_done : ∀ c f, (s.co c).bound = some f → (s.co c).st = St.done →
      (s.fut f).ready = true ∧ (s.fut f).out = (s.co c).outcome ∧ (s.fut f).setBy = [some c]
  bound_inj : ∀ c c' f, (s.co c).bound = some f → (s.co c').bound = some f → c = c'
  unbound_set : ∀ f, (∀ c, (s.co c).bound ≠ some f) →
      (s.fut f).setBy = [] ∨ ((s.fut f).setBy = [none] ∧ f < s.nExt ∧ (s.fut f).ready = true)
  ready_ok : ∀ f, (s.fut f).ready = true → (s.fut f).waiters = [] ∧ (s.fut f).claimed = true
  out_ready : ∀ f, (s.fut f).out ≠ none → (s.fut f).ready = true
  refs_lt : ∀ c f, (s.co c).st.refs f = true → f < s.nextFut
  waiters_count : ∀ c f, (s.fut f).waiters.count c = if (s.co c).st.isAw f then 1 else 0
  res_ready : ∀ c f, (s.co c).st.isRes f = true → (s.fut f).ready = true
  owner_only : ∀ c f, s.nExt ≤ f → (s.co c).st.refs f = true → (s.fut f).owner = some c

theorem coOk_default : CoOk {} := by
  constructor <;> simp [St.began, St.freed, St.started, St.susp]

/-- body code is (or can be) executing: begun, not suspended on a future, not finished -/
def St.mid : St → Bool
  | St.running | St.wantAwait _ _ | St.resumable _ _ | St.yielded => true
  | _ => false

macro "co_tac" : tactic => `(tactic| (constructor <;> simp_all [St.began, St.freed, St.started, St.susp, St.mid]))

theorem coOk_create (x : Coro) (p : List Act) (h : CoOk x) (hs : x.st = St.absent) :
    CoOk { x with st := St.unstarted, pc := p, allocs := x.allocs + 1 } := by
  obtain ⟨a1,a2,a3,a4,a5,a6,a7,a8,a9,a10,a11⟩ := h
  co_tac

theorem coOk_dropU (x : Coro) (h : CoOk x) (hs : x.st = St.unstarted) :
    CoOk { x with st := St.dropped, frameFrees := x.frameFrees + 1, argDtors := x.argDtors + 1 } := by
  obtain ⟨a1,a2,a3,a4,a5,a6,a7,a8,a9,a10,a11⟩ := h
  co_tac

theorem coOk_start (x : Coro) (b : Option Nat) (h : CoOk x) (hs : x.st = St.unstarted) :
    CoOk { x with st := St.scheduled, bound := b, startsOk := x.startsOk + 1 } := by
  obtain ⟨a1,a2,a3,a4,a5,a6,a7,a8,a9,a10,a11⟩ := h
  co_tac

theorem coOk_begin (x : Coro) (h : CoOk x) (hs : x.st = St.scheduled) :
    CoOk { x with st := St.running, bodyStarts := x.bodyStarts + 1 } := by
  obtain ⟨a1,a2,a3,a4,a5,a6,a7,a8,a9,a10,a11⟩ := h
  co_tac

/-- moving between non-suspended body states, touching only `st`, `pc`, `acc`, `saw` -/
theorem coOk_mid (x : Coro) (st : St) (p : List Act) (a : Nat) (w : List (Nat × Outcome)) (h : CoOk x)
    (hs : x.st.mid = true) (hs' : st.mid = true) :
    CoOk { x with st := st, pc := p, acc := a, saw := w } := by
  obtain ⟨a1,a2,a3,a4,a5,a6,a7,a8,a9,a10,a11⟩ := h
  cases hx : x.st <;> simp [hx, St.mid] at hs <;> cases st <;> simp [St.mid] at hs' <;> co_tac

theorem coOk_subscribe (x : Coro) (f : Nat) (ct : Bool) (h : CoOk x) (hs : x.st.mid = true) :
    CoOk { x with st := St.awaiting f ct, suspends := x.suspends + 1 } := by
  obtain ⟨a1,a2,a3,a4,a5,a6,a7,a8,a9,a10,a11⟩ := h
  cases hx : x.st <;> simp [hx, St.mid] at hs <;> co_tac

theorem coOk_wake (x : Coro) (f : Nat) (ct : Bool) (h : CoOk x) (hs : x.st = St.awaiting f ct) :
    CoOk { x with st := St.resumable f ct, wakes := x.wakes + 1 } := by
  obtain ⟨a1,a2,a3,a4,a5,a6,a7,a8,a9,a10,a11⟩ := h
  constructor <;> simp_all [St.began, St.freed, St.started, St.susp]

theorem coOk_retire (x : Coro) (o : Outcome) (h : CoOk x) (hs : x.st.mid = true) :
    CoOk { x with st := St.done, outcome := some o, localDtors := x.localDtors + 1,
                  deliveredTo := x.bound.toList ++ x.deliveredTo, notifiedAtFree := some true,
                  frameFrees := x.frameFrees + 1, argDtors := x.argDtors + 1 } := by
  obtain ⟨a1,a2,a3,a4,a5,a6,a7,a8,a9,a10,a11⟩ := h
  cases hx : x.st <;> simp [hx, St.mid] at hs <;> co_tac

theorem inv_init (prog : Nat → List Act) (n : Nat) (cx : Bool → Nat → Option Nat := fun _ _ => none) :
    Inv (init prog n cx) := by
  constructor <;> simp [init, coOk_default, St.refs, St.isAw, St.isRes]

/-- replacing the record of coroutine `c` by one with the same binding, neither the old nor the new state being
`done`, the same subscription, and new references only to futures it may await -/
theorem inv_setCo (s : State) (c : Nat) (x : Coro) (h : Inv s)
    (hok : CoOk x) (hb : x.bound = (s.co c).bound)
    (hd : x.st ≠ St.done) (hd0 : (s.co c).st ≠ St.done)
    (haw : ∀ f, x.st.isAw f = (s.co c).st.isAw f)
    (hrefs : ∀ f, x.st.refs f = true →
        (s.co c).st.refs f = true ∨ (f < s.nextFut ∧ (s.nExt ≤ f → (s.fut f).owner = some c)))
    (hres : ∀ f, x.st.isRes f = true → (s.fut f).ready = true) :
    Inv (setCo s c x) := by
  obtain ⟨h1,h2,h3,h4,h5,h6,h7,h8,h9,h10,h11,h12,h13⟩ := h
  have key : ∀ y, (upd s.co c x y).bound = (s.co y).bound := by
    intro y; by_cases hy : y = c
    · subst hy; simp [hb]
    · simp [upd_ne _ _ hy]
  refine ⟨?_,?_,?_,?_,?_,?_,?_,?_,?_,?_,?_,?_,?_⟩ <;> dsimp only [setCo]
  · exact h1
  · intro y; by_cases hy : y = c
    · subst hy; simpa using hok
    · simpa [upd_ne _ _ hy] using h2 y
  · intro y f hy; rw [key] at hy; exact h3 y f hy
  · intro y f hy hst; rw [key] at hy
    by_cases hyc : y = c
    · subst hyc; exact h4 y f hy hd0
    · rw [upd_ne _ _ hyc] at hst; exact h4 y f hy hst
  · intro y f hy hst; rw [key] at hy
    by_cases hyc : y = c
    · subst hyc; simp at hst; exact absurd hst hd
    · rw [upd_ne _ _ hyc] at hst ⊢; exact h5 y f hy hst
  · intro y y' f hy hy'; rw [key] at hy hy'; exact h6 y y' f hy hy'
  · intro f hf; apply h7 f; intro y; have := hf y; rw [key] at this; exact this
  · exact h8
  · exact h9
  · intro y f hy
    by_cases hyc : y = c
    · subst hyc; simp at hy
      rcases hrefs f hy with h' | h'
      · exact h10 y f h'
      · exact h'.1
    · rw [upd_ne _ _ hyc] at hy; exact h10 y f hy
  · intro y f
    by_cases hyc : y = c
    · subst hyc; simp [haw]; exact h11 y f
    · simp only [upd_ne _ _ hyc]; exact h11 y f
  · intro y f hy
    by_cases hyc : y = c
    · subst hyc; simp at hy; exact hres f hy
    · rw [upd_ne _ _ hyc] at hy; exact h12 y f hy
  · intro y f hf hy
    by_cases hyc : y = c
    · subst hyc; simp at hy
      rcases hrefs f hy with h' | h'
      · exact h13 y f hf h'
      · exact h'.2 hf
    · rw [upd_ne _ _ hyc] at hy; exact h13 y f hf hy


/-- a fresh future (claimed promise, not ready, nobody refers to it yet) -/
theorem inv_newFut (s : State) (o : Option Nat) (h : Inv s) (op : Bool := false) : Inv (newFut s o [] op) := by
  obtain ⟨h1,h2,h3,h4,h5,h6,h7,h8,h9,h10,h11,h12,h13⟩ := h
  have nb : ∀ y, (s.co y).bound ≠ some s.nextFut := by
    intro y hy; have := (h3 y _ hy).1; omega
  have nr : ∀ y, (s.co y).st.refs s.nextFut = false := by
    intro y; cases hr : (s.co y).st.refs s.nextFut
    · rfl
    · have := h10 y _ hr; omega
  refine ⟨?_,?_,?_,?_,?_,?_,?_,?_,?_,?_,?_,?_,?_⟩ <;> dsimp only [newFut, setFut]
  · omega
  · exact h2
  · intro y f hy
    have hne : f ≠ s.nextFut := by intro e; subst e; exact nb y hy
    simp only [upd_ne _ _ hne]
    have := h3 y f hy; exact ⟨by omega, this.2⟩
  · intro y f hy hst
    have hne : f ≠ s.nextFut := by intro e; subst e; exact nb y hy
    simp only [upd_ne _ _ hne]; exact h4 y f hy hst
  · intro y f hy hst
    have hne : f ≠ s.nextFut := by intro e; subst e; exact nb y hy
    simp only [upd_ne _ _ hne]; exact h5 y f hy hst
  · exact h6
  · intro f hf
    by_cases hne : f = s.nextFut
    · subst hne; simp
    · simp only [upd_ne _ _ hne]; exact h7 f hf
  · intro f
    by_cases hne : f = s.nextFut
    · subst hne; simp
    · simp only [upd_ne _ _ hne]; exact h8 f
  · intro f
    by_cases hne : f = s.nextFut
    · subst hne; simp
    · simp only [upd_ne _ _ hne]; exact h9 f
  · intro y f hy; have := h10 y f hy; omega
  · intro y f
    by_cases hne : f = s.nextFut
    · subst hne
      have : (s.co y).st.isAw s.nextFut = false := St.isAw_of_norefs (nr y)
      simp [this]
    · simp only [upd_ne _ _ hne]; exact h11 y f
  · intro y f hy
    have hne : f ≠ s.nextFut := by
      intro e; subst e
      rw [St.isRes_of_norefs (nr y)] at hy; cases hy
    simp only [upd_ne _ _ hne]; exact h12 y f hy
  · intro y f hf hy
    have hne : f ≠ s.nextFut := by
      intro e; subst e; simp [nr y] at hy
    simp only [upd_ne _ _ hne]; exact h13 y f hf hy

@[simp] theorem newFut_co (s : State) (o : Option Nat) (w : List Nat) (op : Bool) : (newFut s o w op).co = s.co := rfl
@[simp] theorem newFut_nextFut (s : State) (o : Option Nat) (w : List Nat) (op : Bool) :
    (newFut s o w op).nextFut = s.nextFut + 1 := rfl
@[simp] theorem newFut_nExt (s : State) (o : Option Nat) (w : List Nat) (op : Bool) : (newFut s o w op).nExt = s.nExt := rfl
theorem newFut_fut_new (s : State) (o : Option Nat) (w : List Nat) (op : Bool) :
    (newFut s o w op).fut s.nextFut = { claimed := true, owner := o, waiters := w, cb := op, isOp := op } := by
  simp [newFut, setFut]


theorem inv_startCoro_none (s : State) (c : Nat) (h : Inv s) (hc : (s.co c).st = St.unstarted) :
    Inv (startCoro s c none) := by
  have hb := (h.co_ok c).unb (by simp [hc, St.started])
  apply inv_setCo s c _ h
  · exact coOk_start _ none (h.co_ok c) hc
  · simp [hb]
  · simp
  · simp [hc]
  · intro f; simp [hc, St.isAw]
  · intro f; simp [St.refs]
  · intro f; simp [St.isRes]

/-- `start_promise`: the unstarted coroutine `c` is bound to the claimed, unresolved, so far unbound future `f` -/
theorem inv_bind (s : State) (c f : Nat) (h : Inv s) (hc : (s.co c).st = St.unstarted)
    (hf : f < s.nextFut) (hcl : (s.fut f).claimed = true) (hr : (s.fut f).ready = false)
    (ho : (s.fut f).out = none) (hs : (s.fut f).setBy = []) (hu : ∀ y, (s.co y).bound ≠ some f) :
    Inv (startCoro s c (some f)) := by
  have hb := (h.co_ok c).unb (by simp [hc, St.started])
  obtain ⟨h1,h2,h3,h4,h5,h6,h7,h8,h9,h10,h11,h12,h13⟩ := h
  refine ⟨?_,?_,?_,?_,?_,?_,?_,?_,?_,?_,?_,?_,?_⟩ <;> dsimp only [startCoro, setCo]
  · exact h1
  · intro y; by_cases hy : y = c
    · subst hy; simp only [upd_same]
      exact coOk_start _ _ (h2 y) hc
    · simpa [upd_ne _ _ hy] using h2 y
  · intro y g hy; by_cases hyc : y = c
    · subst hyc; simp at hy; subst hy; exact ⟨hf, hcl⟩
    · rw [upd_ne _ _ hyc] at hy; exact h3 y g hy
  · intro y g hy hst; by_cases hyc : y = c
    · subst hyc; simp at hy; subst hy; exact ⟨hr, ho, hs⟩
    · rw [upd_ne _ _ hyc] at hy hst; exact h4 y g hy hst
  · intro y g hy hst; by_cases hyc : y = c
    · subst hyc; simp at hst
    · rw [upd_ne _ _ hyc] at hy hst ⊢; exact h5 y g hy hst
  · intro y y' g hy hy'
    by_cases hyc : y = c <;> by_cases hyc' : y' = c
    · rw [hyc, hyc']
    · subst hyc; simp at hy; subst hy; rw [upd_ne _ _ hyc'] at hy'; exact absurd hy' (hu y')
    · subst hyc'; simp at hy'; subst hy'; rw [upd_ne _ _ hyc] at hy; exact absurd hy (hu y)
    · rw [upd_ne _ _ hyc] at hy; rw [upd_ne _ _ hyc'] at hy'; exact h6 y y' g hy hy'
  · intro g hg; apply h7 g; intro y
    by_cases hyc : y = c
    · subst hyc; simp [hb]
    · have := hg y; rw [upd_ne _ _ hyc] at this; exact this
  · exact h8
  · exact h9
  · intro y g hy; by_cases hyc : y = c
    · subst hyc; simp [St.refs] at hy
    · rw [upd_ne _ _ hyc] at hy; exact h10 y g hy
  · intro y g; by_cases hyc : y = c
    · subst hyc; have := h11 y g; simp [hc, St.isAw] at this ⊢; exact this
    · simp only [upd_ne _ _ hyc]; exact h11 y g
  · intro y g hy; by_cases hyc : y = c
    · subst hyc; simp [St.isRes] at hy
    · rw [upd_ne _ _ hyc] at hy; exact h12 y g hy
  · intro y g hg hy; by_cases hyc : y = c
    · subst hyc; simp [St.refs] at hy
    · rw [upd_ne _ _ hyc] at hy; exact h13 y g hg hy


theorem inv_subscribe (s : State) (c f : Nat) (ct : Bool) (h : Inv s)
    (hst : (s.co c).st = St.running ∨ (s.co c).st = St.wantAwait f ct)
    (hr : (s.fut f).ready = false) (hf : f < s.nextFut) (hown : s.nExt ≤ f → (s.fut f).owner = some c) :
    Inv (subscribe s c f ct) := by
  obtain ⟨h1,h2,h3,h4,h5,h6,h7,h8,h9,h10,h11,h12,h13⟩ := h
  have hnd : (s.co c).st ≠ St.done := by rcases hst with e | e <;> simp [e]
  have hnaw : ∀ g, (s.co c).st.isAw g = false := by intro g; rcases hst with e | e <;> simp [e, St.isAw]
  have kb : ∀ y, (upd s.co c { s.co c with st := St.awaiting f ct, suspends := (s.co c).suspends + 1 } y).bound
      = (s.co y).bound := by
    intro y; by_cases hy : y = c
    · subst hy; simp
    · simp [upd_ne _ _ hy]
  have kr : ∀ g, (upd s.fut f { s.fut f with waiters := c :: (s.fut f).waiters } g).ready = (s.fut g).ready := by
    intro g; by_cases hg : g = f
    · subst hg; simp
    · simp [upd_ne _ _ hg]
  have ko : ∀ g, (upd s.fut f { s.fut f with waiters := c :: (s.fut f).waiters } g).out = (s.fut g).out := by
    intro g; by_cases hg : g = f
    · subst hg; simp
    · simp [upd_ne _ _ hg]
  have ks : ∀ g, (upd s.fut f { s.fut f with waiters := c :: (s.fut f).waiters } g).setBy = (s.fut g).setBy := by
    intro g; by_cases hg : g = f
    · subst hg; simp
    · simp [upd_ne _ _ hg]
  have kc : ∀ g, (upd s.fut f { s.fut f with waiters := c :: (s.fut f).waiters } g).claimed = (s.fut g).claimed := by
    intro g; by_cases hg : g = f
    · subst hg; simp
    · simp [upd_ne _ _ hg]
  have kw : ∀ g, (upd s.fut f { s.fut f with waiters := c :: (s.fut f).waiters } g).owner = (s.fut g).owner := by
    intro g; by_cases hg : g = f
    · subst hg; simp
    · simp [upd_ne _ _ hg]
  refine ⟨?_,?_,?_,?_,?_,?_,?_,?_,?_,?_,?_,?_,?_⟩ <;> dsimp only [subscribe, setCo, setFut]
  · exact h1
  · intro y; by_cases hy : y = c
    · subst hy; simp only [upd_same]
      exact coOk_subscribe _ f ct (h2 y) (by rcases hst with e | e <;> simp [e, St.mid])
    · simpa [upd_ne _ _ hy] using h2 y
  · intro y g hy; rw [kb] at hy; rw [kc]; exact h3 y g hy
  · intro y g hy hst'; rw [kb] at hy; rw [kr, ko, ks]
    by_cases hyc : y = c
    · subst hyc; exact h4 y g hy hnd
    · rw [upd_ne _ _ hyc] at hst'; exact h4 y g hy hst'
  · intro y g hy hst'; rw [kb] at hy; rw [kr, ko, ks]
    by_cases hyc : y = c
    · subst hyc; simp at hst'
    · rw [upd_ne _ _ hyc] at hst' ⊢; exact h5 y g hy hst'
  · intro y y' g hy hy'; rw [kb] at hy hy'; exact h6 y y' g hy hy'
  · intro g hg; rw [ks, kr]; apply h7 g; intro y; have := hg y; rw [kb] at this; exact this
  · intro g hg; rw [kr] at hg; rw [kc]
    have hne : g ≠ f := by intro e; subst e; rw [hr] at hg; cases hg
    simp only [upd_ne _ _ hne]; exact h8 g hg
  · intro g hg; rw [ko] at hg; rw [kr]; exact h9 g hg
  · intro y g hy; by_cases hyc : y = c
    · subst hyc; simp [St.refs] at hy; subst hy; exact hf
    · rw [upd_ne _ _ hyc] at hy; exact h10 y g hy
  · intro y g
    by_cases hg : g = f
    · subst hg; simp only [upd_same, List.count_cons]
      by_cases hyc : y = c
      · subst hyc; have := h11 y g; simp [hnaw g] at this; simp [St.isAw, this]
      · have := h11 y g; simp only [upd_ne _ _ hyc]
        have e : (c == y) = false := by simp; exact fun e => hyc e.symm
        simp [e]; exact this
    · simp only [upd_ne _ _ hg]
      by_cases hyc : y = c
      · subst hyc; have := h11 y g; simp [hnaw g] at this
        have e : (f == g) = false := by simp; exact fun e => hg e.symm
        simp [St.isAw, this, e]
      · simp only [upd_ne _ _ hyc]; exact h11 y g
  · intro y g hy; rw [kr]; by_cases hyc : y = c
    · subst hyc; simp [St.isRes] at hy
    · rw [upd_ne _ _ hyc] at hy; exact h12 y g hy
  · intro y g hg hy; rw [kw]; by_cases hyc : y = c
    · subst hyc; simp [St.refs] at hy; subst hy; exact hown hg
    · rw [upd_ne _ _ hyc] at hy; exact h13 y g hg hy


/-! ### resolution of a future: every subscribed coroutine is made resumable, exactly once -/

/-- what `resolve f` does to one coroutine record, given the invariant `waiters.count = [isAw]` -/
def wk (x : Coro) (f : Nat) : Coro := wakeOne x (if x.st.isAw f then 1 else 0)

theorem resolve_co (s : State) (f : Nat) (h : Inv s) : (resolve s f).co = fun x => wk (s.co x) f := by
  funext x; simp only [resolve, wk, h.waiters_count x f]

@[simp] theorem wk_bound (x : Coro) (f : Nat) : (wk x f).bound = x.bound := rfl
@[simp] theorem wk_outcome (x : Coro) (f : Nat) : (wk x f).outcome = x.outcome := rfl

theorem wk_of_not (x : Coro) (f : Nat) (h : x.st.isAw f = false) : wk x f = x := by
  cases x with
  | mk st pc bound acc allocs bodyStarts frameFrees argDtors localDtors startsOk suspends wakes outcome deliveredTo saw =>
    simp only [wk, wakeOne] at *
    cases st <;> simp_all [St.isAw]

theorem wk_of_aw (x : Coro) (f : Nat) (ct : Bool) (h : x.st = St.awaiting f ct) :
    wk x f = { x with st := St.resumable f ct, wakes := x.wakes + 1 } := by
  simp [wk, wakeOne, h, St.isAw]

theorem wk_cases (x : Coro) (f : Nat) :
    wk x f = x ∧ x.st.isAw f = false ∨ ∃ ct, x.st = St.awaiting f ct ∧ wk x f = { x with st := St.resumable f ct, wakes := x.wakes + 1 } := by
  cases hx : x.st.isAw f
  · left; exact ⟨wk_of_not x f hx, rfl⟩
  · right
    cases hs : x.st <;> simp [hs, St.isAw] at hx
    subst hx
    exact ⟨_, rfl, wk_of_aw x _ _ hs⟩

theorem coOk_wk (x : Coro) (f : Nat) (h : CoOk x) : CoOk (wk x f) := by
  rcases wk_cases x f with ⟨e, _⟩ | ⟨ct, hs, e⟩
  · rw [e]; exact h
  · rw [e]; exact coOk_wake x f ct h hs

theorem wk_done (x : Coro) (f : Nat) : (wk x f).st = St.done ↔ x.st = St.done := by
  rcases wk_cases x f with ⟨e, _⟩ | ⟨ct, hs, e⟩
  · rw [e]
  · rw [e]; simp [hs]

theorem wk_refs (x : Coro) (f g : Nat) : (wk x f).st.refs g = x.st.refs g := by
  rcases wk_cases x f with ⟨e, _⟩ | ⟨ct, hs, e⟩
  · rw [e]
  · rw [e]; simp [hs, St.refs]

theorem wk_isAw (x : Coro) (f g : Nat) : (wk x f).st.isAw g = (x.st.isAw g && !(g == f)) := by
  rcases wk_cases x f with ⟨e, hn⟩ | ⟨ct, hs, e⟩
  · rw [e]
    by_cases hg : g = f
    · subst hg; simp [hn]
    · simp [hg]
  · rw [e]; simp [hs, St.isAw]
    intro e; exact e.symm

theorem wk_isRes (x : Coro) (f g : Nat) (h : (wk x f).st.isRes g = true) : x.st.isRes g = true ∨ g = f := by
  rcases wk_cases x f with ⟨e, hn⟩ | ⟨ct, hs, e⟩
  · rw [e] at h; exact Or.inl h
  · rw [e] at h; simp [St.isRes] at h; exact Or.inr h.symm


/-- core of every resolution: `f` becomes ready with an empty chain, coroutine records change as described pointwise;
the clauses about bindings are supplied by the caller -/
theorem inv_of_resolved (s : State) (f : Nat) (Y : Fut) (co' : Nat → Coro) (h : Inv s)
    (hY1 : Y.ready = true) (hY2 : Y.waiters = []) (hY3 : Y.claimed = true) (hY4 : Y.owner = (s.fut f).owner)
    (c1 : ∀ x, CoOk (co' x))
    (c2 : ∀ x g, (co' x).st.refs g = true → (s.co x).st.refs g = true)
    (c3 : ∀ x g, (co' x).st.isAw g = ((s.co x).st.isAw g && !(g == f)))
    (c4 : ∀ x g, (co' x).st.isRes g = true → (s.co x).st.isRes g = true ∨ g = f)
    (b1 : ∀ c g, (co' c).bound = some g → g < s.nextFut ∧ (upd s.fut f Y g).claimed = true)
    (b2 : ∀ c g, (co' c).bound = some g → (co' c).st ≠ St.done →
      (upd s.fut f Y g).ready = false ∧ (upd s.fut f Y g).out = none ∧ (upd s.fut f Y g).setBy = [])
    (b3 : ∀ c g, (co' c).bound = some g → (co' c).st = St.done →
      (upd s.fut f Y g).ready = true ∧ (upd s.fut f Y g).out = (co' c).outcome ∧ (upd s.fut f Y g).setBy = [some c])
    (b4 : ∀ c c' g, (co' c).bound = some g → (co' c').bound = some g → c = c')
    (b5 : ∀ g, (∀ c, (co' c).bound ≠ some g) →
      (upd s.fut f Y g).setBy = [] ∨ ((upd s.fut f Y g).setBy = [none] ∧ g < s.nExt ∧ (upd s.fut f Y g).ready = true)) :
    Inv { s with co := co', fut := upd s.fut f Y } := by
  obtain ⟨h1,h2,h3,h4,h5,h6,h7,h8,h9,h10,h11,h12,h13⟩ := h
  refine ⟨h1, c1, b1, b2, b3, b4, b5, ?_, ?_, ?_, ?_, ?_, ?_⟩ <;> dsimp only
  · intro g hg; by_cases hgf : g = f
    · subst hgf; simp [hY2, hY3]
    · rw [upd_ne _ _ hgf] at hg ⊢; exact h8 g hg
  · intro g hg; by_cases hgf : g = f
    · subst hgf; simp [hY1]
    · rw [upd_ne _ _ hgf] at hg ⊢; exact h9 g hg
  · intro x g hx; exact h10 x g (c2 x g hx)
  · intro x g; rw [c3]; by_cases hgf : g = f
    · subst hgf; simp [hY2]
    · simp only [upd_ne _ _ hgf]; simp [hgf]; exact h11 x g
  · intro x g hx; by_cases hgf : g = f
    · subst hgf; simp [hY1]
    · rw [upd_ne _ _ hgf]
      rcases c4 x g hx with h' | h'
      · exact h12 x g h'
      · exact absurd h' hgf
  · intro x g hg hx; by_cases hgf : g = f
    · subst hgf; simp [hY4]; exact h13 x g hg (c2 x g hx)
    · rw [upd_ne _ _ hgf]; exact h13 x g hg (c2 x g hx)

/-- the driver resolves a so far unclaimed (hence unbound, unresolved) promise, with or without a value -/
theorem inv_resolve_driver (s : State) (f : Nat) (Y : Fut) (h : Inv s)
    (hcl : (s.fut f).claimed = false)
    (hY1 : Y.ready = true) (hY2 : Y.waiters = []) (hY3 : Y.claimed = true) (hY4 : Y.owner = (s.fut f).owner)
    (hsb : Y.setBy = [] ∨ (Y.setBy = [none] ∧ f < s.nExt)) :
    Inv { s with co := fun x => wk (s.co x) f, fut := upd s.fut f Y } := by
  have hsb' : Y.setBy = [] ∨ (Y.setBy = [none] ∧ f < s.nExt ∧ Y.ready = true) := by
    rcases hsb with e | e
    · exact Or.inl e
    · exact Or.inr ⟨e.1, e.2, hY1⟩
  have hub : ∀ c g, (s.co c).bound = some g → g ≠ f := by
    intro c g hb e; subst e; have := (h.bound_lt c g hb).2; rw [hcl] at this; cases this
  apply inv_of_resolved s f Y _ h hY1 hY2 hY3 hY4
  · intro x; exact coOk_wk _ f (h.co_ok x)
  · intro x g hx; rw [wk_refs] at hx; exact hx
  · intro x g; exact wk_isAw _ f g
  · intro x g hx; exact wk_isRes _ f g hx
  · intro c g hb; simp only [wk_bound] at hb; rw [upd_ne _ _ (hub c g hb)]; exact h.bound_lt c g hb
  · intro c g hb hst; simp only [wk_bound] at hb; rw [upd_ne _ _ (hub c g hb)]
    exact h.bound_live c g hb (by intro e; exact hst ((wk_done _ f).mpr e))
  · intro c g hb hst; simp only [wk_bound, wk_outcome] at hb ⊢; rw [upd_ne _ _ (hub c g hb)]
    exact h.bound_done c g hb ((wk_done _ f).mp hst)
  · intro c c' g hb hb'; simp only [wk_bound] at hb hb'; exact h.bound_inj c c' g hb hb'
  · intro g hg; by_cases hgf : g = f
    · subst hgf; simp only [upd_same]; exact hsb'
    · rw [upd_ne _ _ hgf]; apply h.unbound_set g; intro c; have := hg c; simp only [wk_bound] at this; exact this


theorem upd_upd {α} (m : Nat → α) (i : Nat) (v w : α) : upd (upd m i v) i w = upd m i w := by
  funext j; simp only [upd]; split <;> rfl

theorem St.mid_not_isAw {st : St} (h : st.mid = true) (f : Nat) : st.isAw f = false := by
  cases st <;> simp_all [St.mid, St.isAw]
theorem St.mid_not_done {st : St} (h : st.mid = true) : st ≠ St.done := by
  cases st <;> simp_all [St.mid]

/-- the future `f` after coroutine `c` delivered `o` into it and resolved it -/
def delivered (x : Fut) (c : Nat) (o : Outcome) : Fut :=
  { x with out := some o, setBy := some c :: x.setBy, ready := true, waiters := [], cb := false,
           cbCalls := x.cbCalls + (if x.cb then 1 else 0) }

/-- the record of a coroutine after `final_awaiter` -/
def retired (x : Coro) (o : Outcome) (to : List Nat) : Coro :=
  { x with st := St.done, outcome := some o, localDtors := x.localDtors + 1, deliveredTo := to ++ x.deliveredTo,
           notifiedAtFree := some true, frameFrees := x.frameFrees + 1, argDtors := x.argDtors + 1 }

theorem deliver_ready (s : State) (c f : Nat) (o : Outcome) : ((deliver s c f o).fut f).ready = true := by
  simp [deliver, resolve, setFut]

theorem finish_bound_eq (s : State) (c f : Nat) (o : Outcome) (h : Inv s) (hm : (s.co c).st.mid = true) :
    retire (deliver s c f o) c o [f] ((deliver s c f o).fut f).ready
      = { s with co := upd (fun x => wk (s.co x) f) c (retired (s.co c) o [f]),
                 fut := upd s.fut f (delivered (s.fut f) c o) } := by
  have e1 : (deliver s c f o).co = fun x => wk (s.co x) f := by
    funext x; simp only [deliver, resolve, setFut, upd_same, wk]
    rw [h.waiters_count x f]
  have e2 : wk (s.co c) f = s.co c := wk_of_not _ f (St.mid_not_isAw hm f)
  rw [deliver_ready]
  simp only [retire, setCo, e1, e2, retired]
  simp only [deliver, resolve, setFut, upd_same, upd_upd, delivered]


theorem inv_finish_bound (s : State) (c f : Nat) (o : Outcome) (h : Inv s)
    (hb : (s.co c).bound = some f) (hm : (s.co c).st.mid = true) :
    Inv (retire (deliver s c f o) c o [f] ((deliver s c f o).fut f).ready) := by
  rw [finish_bound_eq s c f o h hm]
  have hnd := St.mid_not_done hm
  have hlive := h.bound_live c f hb hnd
  have hlt := h.bound_lt c f hb
  have kb : ∀ y, (upd (fun x => wk (s.co x) f) c (retired (s.co c) o [f]) y).bound = (s.co y).bound := by
    intro y; by_cases hy : y = c
    · subst hy; simp [retired]
    · simp [upd_ne _ _ hy]
  have kne : ∀ y g, y ≠ c → (s.co y).bound = some g → g ≠ f := by
    intro y g hy hg e; subst e; exact hy (h.bound_inj y c g hg hb)
  apply inv_of_resolved s f _ _ h
  · simp [delivered]
  · simp [delivered]
  · simp [delivered, hlt.2]
  · simp [delivered]
  · intro x; by_cases hx : x = c
    · subst hx; simp only [upd_same]
      have := coOk_retire (s.co x) o (h.co_ok x) hm
      simpa [retired, hb] using this
    · simp only [upd_ne _ _ hx]; exact coOk_wk _ f (h.co_ok x)
  · intro x g hr; by_cases hx : x = c
    · subst hx; simp [retired, St.refs] at hr
    · simp only [upd_ne _ _ hx, wk_refs] at hr; exact hr
  · intro x g; by_cases hx : x = c
    · subst hx; rw [St.mid_not_isAw hm g]; simp [retired, St.isAw]
    · simp only [upd_ne _ _ hx]; exact wk_isAw _ f g
  · intro x g hr; by_cases hx : x = c
    · subst hx; simp [retired, St.isRes] at hr
    · simp only [upd_ne _ _ hx] at hr; exact wk_isRes _ f g hr
  · intro y g hy; rw [kb] at hy
    refine ⟨(h.bound_lt y g hy).1, ?_⟩
    by_cases hgf : g = f
    · subst hgf; simp [delivered, hlt.2]
    · rw [upd_ne _ _ hgf]; exact (h.bound_lt y g hy).2
  · intro y g hy hst; rw [kb] at hy
    by_cases hyc : y = c
    · subst hyc; simp [retired] at hst
    · rw [upd_ne _ _ hyc] at hst; rw [upd_ne _ _ (kne y g hyc hy)]
      exact h.bound_live y g hy (by intro e; exact hst ((wk_done _ f).mpr e))
  · intro y g hy hst; rw [kb] at hy
    by_cases hyc : y = c
    · subst hyc; rw [hb] at hy; cases hy
      simp [delivered, retired, hlive.2.2]
    · rw [upd_ne _ _ hyc] at hst ⊢; rw [upd_ne _ _ (kne y g hyc hy)]
      simp only [wk_outcome]
      exact h.bound_done y g hy ((wk_done _ f).mp hst)
  · intro y y' g hy hy'; rw [kb] at hy hy'; exact h.bound_inj y y' g hy hy'
  · intro g hg
    have hgf : g ≠ f := by intro e; subst e; have := hg c; rw [kb] at this; exact this hb
    rw [upd_ne _ _ hgf]; apply h.unbound_set g; intro y; have := hg y; rw [kb] at this; exact this

/-- `final_awaiter` of a detached coroutine -/
theorem inv_finish_none (s : State) (c : Nat) (o : Outcome) (h : Inv s)
    (hb : (s.co c).bound = none) (hm : (s.co c).st.mid = true) :
    Inv (retire s c o [] true) := by
  obtain ⟨h1,h2,h3,h4,h5,h6,h7,h8,h9,h10,h11,h12,h13⟩ := h
  have kb : ∀ y, (upd s.co c (retired (s.co c) o []) y).bound = (s.co y).bound := by
    intro y; by_cases hy : y = c
    · subst hy; simp [retired]
    · simp [upd_ne _ _ hy]
  show Inv { s with co := upd s.co c (retired (s.co c) o []) }
  refine ⟨?_,?_,?_,?_,?_,?_,?_,?_,?_,?_,?_,?_,?_⟩ <;> dsimp only
  · exact h1
  · intro y; by_cases hy : y = c
    · subst hy; simp only [upd_same]
      have := coOk_retire (s.co y) o (h2 y) hm
      simpa [retired, hb] using this
    · simpa [upd_ne _ _ hy] using h2 y
  · intro y g hy; rw [kb] at hy; exact h3 y g hy
  · intro y g hy hst; rw [kb] at hy
    by_cases hyc : y = c
    · subst hyc; rw [hb] at hy; cases hy
    · rw [upd_ne _ _ hyc] at hst; exact h4 y g hy hst
  · intro y g hy hst; rw [kb] at hy
    by_cases hyc : y = c
    · subst hyc; rw [hb] at hy; cases hy
    · rw [upd_ne _ _ hyc] at hst ⊢; exact h5 y g hy hst
  · intro y y' g hy hy'; rw [kb] at hy hy'; exact h6 y y' g hy hy'
  · intro g hg; apply h7 g; intro y; have := hg y; rw [kb] at this; exact this
  · exact h8
  · exact h9
  · intro y g hy; by_cases hyc : y = c
    · subst hyc; simp [retired, St.refs] at hy
    · rw [upd_ne _ _ hyc] at hy; exact h10 y g hy
  · intro y g; by_cases hyc : y = c
    · subst hyc; have := h11 y g; simp [St.mid_not_isAw hm g] at this; simp [retired, St.isAw, this]
    · simp only [upd_ne _ _ hyc]; exact h11 y g
  · intro y g hy; by_cases hyc : y = c
    · subst hyc; simp [retired, St.isRes] at hy
    · rw [upd_ne _ _ hyc] at hy; exact h12 y g hy
  · intro y g hg hy; by_cases hyc : y = c
    · subst hyc; simp [retired, St.refs] at hy
    · rw [upd_ne _ _ hyc] at hy; exact h13 y g hg hy

theorem inv_finish (s : State) (c : Nat) (o : Outcome) (h : Inv s) (hm : (s.co c).st.mid = true) :
    Inv (finish s c o) := by
  unfold finish
  cases hb : (s.co c).bound with
  | none => exact inv_finish_none s c o h hb hm
  | some f => exact inv_finish_bound s c f o h hb hm


/-! ### the operations -/

theorem inv_create (s : State) (c : Nat) (h : Inv s) (hc : (s.co c).st = St.absent) : Inv (create s c) := by
  apply inv_setCo s c _ h
  · exact coOk_create _ _ (h.co_ok c) hc
  · rfl
  · simp
  · simp [hc]
  · intro f; simp [hc, St.isAw]
  · intro f; simp [St.refs]
  · intro f; simp [St.isRes]

theorem inv_dropU (s : State) (c : Nat) (h : Inv s) (hc : (s.co c).st = St.unstarted) : Inv (dropU s c) := by
  apply inv_setCo s c _ h
  · exact coOk_dropU _ (h.co_ok c) hc
  · rfl
  · simp
  · simp [hc]
  · intro f; simp [hc, St.isAw]
  · intro f; simp [St.refs]
  · intro f; simp [St.isRes]

theorem inv_begin (s : State) (c : Nat) (h : Inv s) (hc : (s.co c).st = St.scheduled) :
    Inv (setCo s c { s.co c with st := St.running, bodyStarts := (s.co c).bodyStarts + 1 }) := by
  apply inv_setCo s c _ h
  · exact coOk_begin _ (h.co_ok c) hc
  · rfl
  · simp
  · simp [hc]
  · intro f; simp [hc, St.isAw]
  · intro f; simp [St.refs]
  · intro f; simp [St.isRes]

/-- a non-suspended body moves to `running`, changing only `pc`, `acc`, `saw` -/
theorem inv_toRunning (s : State) (c : Nat) (p : List Act) (a : Nat) (w : List (Nat × Outcome)) (h : Inv s)
    (hm : (s.co c).st.mid = true) :
    Inv (setCo s c { s.co c with st := St.running, pc := p, acc := a, saw := w }) := by
  apply inv_setCo s c _ h
  · exact coOk_mid _ _ p a w (h.co_ok c) hm (by simp [St.mid])
  · rfl
  · simp
  · exact St.mid_not_done hm
  · intro f; rw [St.mid_not_isAw hm f]; simp [St.isAw]
  · intro f; simp [St.refs]
  · intro f; simp [St.isRes]

theorem inv_setSt_yielded (s : State) (c : Nat) (h : Inv s) (hm : (s.co c).st.mid = true) :
    Inv (setSt s c St.yielded) := by
  apply inv_setCo s c _ h
  · exact coOk_mid _ _ _ _ _ (h.co_ok c) hm (by simp [St.mid])
  · rfl
  · simp
  · exact St.mid_not_done hm
  · intro f; rw [St.mid_not_isAw hm f]; simp [St.isAw]
  · intro f; simp [St.refs]
  · intro f; simp [St.isRes]

theorem inv_setSt_want (s : State) (c f : Nat) (ct : Bool) (h : Inv s) (hm : (s.co c).st.mid = true)
    (hf : f < s.nextFut) (hown : s.nExt ≤ f → (s.fut f).owner = some c) :
    Inv (setSt s c (St.wantAwait f ct)) := by
  apply inv_setCo s c _ h
  · exact coOk_mid _ _ _ _ _ (h.co_ok c) hm (by simp [St.mid])
  · rfl
  · simp
  · exact St.mid_not_done hm
  · intro g; rw [St.mid_not_isAw hm g]; simp [St.isAw]
  · intro g hg; simp [St.refs] at hg; subst hg; exact Or.inr ⟨hf, hown⟩
  · intro g; simp [St.isRes]

theorem inv_consume (s : State) (c f : Nat) (ct : Bool) (h : Inv s) (hm : (s.co c).st.mid = true) :
    Inv (consume s c f ct) := by
  unfold consume
  split
  · exact inv_toRunning s c _ _ _ h hm
  · split
    · exact inv_toRunning s c _ _ _ h hm
    · exact inv_finish s c _ h hm

theorem resolve_setFut_eq (s : State) (f : Nat) (X : Fut) (h : Inv s) (hw : X.waiters = (s.fut f).waiters) :
    resolve (setFut s f X) f
      = { s with co := fun x => wk (s.co x) f,
                 fut := upd s.fut f { X with ready := true, waiters := [], cb := false,
                                             cbCalls := X.cbCalls + (if X.cb then 1 else 0) } } := by
  simp only [resolve, setFut, upd_same, upd_upd, hw, wk, h.waiters_count]

theorem inv_setF (s : State) (k : Nat) (o : Outcome) (h : Inv s) : Inv (setF s k o).1 := by
  unfold setF
  split
  · split
    · exact h
    · rename_i hk hc
      dsimp only
      rw [resolve_setFut_eq s k { s.fut k with claimed := true, out := some o, setBy := none :: (s.fut k).setBy } h rfl]
      have hc' : (s.fut k).claimed = false := by simpa using hc
      have hub : ∀ c, (s.co c).bound ≠ some k := by
        intro c hb; have := (h.bound_lt c k hb).2; rw [hc'] at this; cases this
      apply inv_resolve_driver s k _ h hc' <;> try simp
      rcases h.unbound_set k hub with e | e
      · exact ⟨e, hk⟩
      · have := (h.ready_ok k e.2.2).2; rw [hc'] at this; cases this
  · exact h

theorem inv_dropP (s : State) (k : Nat) (h : Inv s) : Inv (dropP s k).1 := by
  unfold dropP
  split
  · split
    · exact h
    · rename_i hk hc
      dsimp only
      rw [resolve_setFut_eq s k { s.fut k with claimed := true } h rfl]
      have hc' : (s.fut k).claimed = false := by simpa using hc
      have hub : ∀ c, (s.co c).bound ≠ some k := by
        intro c hb; have := (h.bound_lt c k hb).2; rw [hc'] at this; cases this
      apply inv_resolve_driver s k _ h hc' <;> try simp
      rcases h.unbound_set k hub with e | e
      · exact Or.inl e
      · have := (h.ready_ok k e.2.2).2; rw [hc'] at this; cases this
  · exact h


/-- facts about an unclaimed promise: its future is unbound, unresolved and untouched -/
theorem unclaimed_facts (s : State) (k : Nat) (h : Inv s) (hc : (s.fut k).claimed = false) :
    (∀ c, (s.co c).bound ≠ some k) ∧ (s.fut k).ready = false ∧ (s.fut k).out = none ∧ (s.fut k).setBy = [] := by
  have hub : ∀ c, (s.co c).bound ≠ some k := by
    intro c hb; have := (h.bound_lt c k hb).2; rw [hc] at this; cases this
  have hr : (s.fut k).ready = false := by
    cases hr : (s.fut k).ready
    · rfl
    · have := (h.ready_ok k hr).2; rw [hc] at this; cases this
  refine ⟨hub, hr, ?_, ?_⟩
  · cases ho : (s.fut k).out
    · rfl
    · have := h.out_ready k (by rw [ho]; simp); rw [hr] at this; cases this
  · rcases h.unbound_set k hub with e | e
    · exact e
    · rw [hr] at e; cases e.2.2

theorem inv_claim (s : State) (k : Nat) (h : Inv s) :
    Inv (setFut s k { s.fut k with claimed := true }) := by
  obtain ⟨h1,h2,h3,h4,h5,h6,h7,h8,h9,h10,h11,h12,h13⟩ := h
  have kr : ∀ g, (upd s.fut k { s.fut k with claimed := true } g).ready = (s.fut g).ready := by
    intro g; by_cases hg : g = k
    · subst hg; simp
    · simp [upd_ne _ _ hg]
  have ko : ∀ g, (upd s.fut k { s.fut k with claimed := true } g).out = (s.fut g).out := by
    intro g; by_cases hg : g = k
    · subst hg; simp
    · simp [upd_ne _ _ hg]
  have ks : ∀ g, (upd s.fut k { s.fut k with claimed := true } g).setBy = (s.fut g).setBy := by
    intro g; by_cases hg : g = k
    · subst hg; simp
    · simp [upd_ne _ _ hg]
  have kw : ∀ g, (upd s.fut k { s.fut k with claimed := true } g).waiters = (s.fut g).waiters := by
    intro g; by_cases hg : g = k
    · subst hg; simp
    · simp [upd_ne _ _ hg]
  have kown : ∀ g, (upd s.fut k { s.fut k with claimed := true } g).owner = (s.fut g).owner := by
    intro g; by_cases hg : g = k
    · subst hg; simp
    · simp [upd_ne _ _ hg]
  have kc : ∀ g, (s.fut g).claimed = true → (upd s.fut k { s.fut k with claimed := true } g).claimed = true := by
    intro g hgc; by_cases hg : g = k
    · subst hg; simp
    · simp [upd_ne _ _ hg, hgc]
  refine ⟨?_,?_,?_,?_,?_,?_,?_,?_,?_,?_,?_,?_,?_⟩ <;> dsimp only [setFut]
  · exact h1
  · exact h2
  · intro y g hy; exact ⟨(h3 y g hy).1, kc g (h3 y g hy).2⟩
  · intro y g hy hst; rw [kr, ko, ks]; exact h4 y g hy hst
  · intro y g hy hst; rw [kr, ko, ks]; exact h5 y g hy hst
  · exact h6
  · intro g hg; rw [ks, kr]; exact h7 g hg
  · intro g hg; rw [kr] at hg; rw [kw]; exact ⟨(h8 g hg).1, kc g (h8 g hg).2⟩
  · intro g hg; rw [ko] at hg; rw [kr]; exact h9 g hg
  · exact h10
  · intro y g; rw [kw]; exact h11 y g
  · intro y g hy; rw [kr]; exact h12 y g hy
  · intro y g hg hy; rw [kown]; exact h13 y g hg hy

theorem inv_start (s : State) (c : Nat) (h : Inv s) (hc : (s.co c).st = St.unstarted) (op : Bool := false) :
    Inv (startCoro (newFut s none [] op) c (some s.nextFut)) := by
  have h' := inv_newFut s none h op
  have hub : ∀ y, (s.co y).bound ≠ some s.nextFut := by
    intro y hy; have := (h.bound_lt y _ hy).1; omega
  apply inv_bind _ c s.nextFut h' (by simpa using hc) (by simp) <;>
    simp [newFut_fut_new, hub]

theorem inv_startP (s : State) (c k : Nat) (h : Inv s) : Inv (step s (Op.startP c k)).1 := by
  simp only [step]
  split
  · rename_i hg
    split
    · -- refused: `_future` is overwritten with null, which it already was
      have hb := (h.co_ok c).unb (by simp [hg.1, St.started])
      apply inv_setCo s c _ h
      · have := h.co_ok c
        obtain ⟨a1,a2,a3,a4,a5,a6,a7,a8,a9,a10,a11⟩ := this
        constructor <;> simp_all
      · simp [hb]
      · simp [hg.1]
      · simp [hg.1]
      · intro f; rfl
      · intro f hf; exact Or.inl hf
      · intro f hf; simp [hg.1, St.isRes] at hf
    · rename_i hcl
      have hcl' : (s.fut k).claimed = false := by simpa using hcl
      obtain ⟨hub, hr, ho, hs⟩ := unclaimed_facts s k h hcl'
      have h' := inv_claim s k h
      have hk : k < s.nextFut := Nat.lt_of_lt_of_le hg.2 h.next_le
      apply inv_bind _ c k h' hg.1 hk <;> simp [setFut, hr, ho, hs, hub]
  · exact h


theorem create_co_ne (s : State) {c j : Nat} (h : c ≠ j) : (create s j).co c = s.co c := by
  simp [create, setCo, upd_ne _ _ h]
theorem create_st (s : State) (j : Nat) : ((create s j).co j).st = St.unstarted := by simp [create, setCo]
theorem startCoro_co_ne (s : State) {c j : Nat} (b : Option Nat) (h : c ≠ j) : (startCoro s j b).co c = s.co c := by
  simp [startCoro, setCo, upd_ne _ _ h]
@[simp] theorem create_nextFut (s : State) (j : Nat) : (create s j).nextFut = s.nextFut := rfl
@[simp] theorem create_nExt (s : State) (j : Nat) : (create s j).nExt = s.nExt := rfl
@[simp] theorem create_fut (s : State) (j : Nat) : (create s j).fut = s.fut := rfl
@[simp] theorem startCoro_nextFut (s : State) (j : Nat) (b : Option Nat) : (startCoro s j b).nextFut = s.nextFut := rfl
@[simp] theorem startCoro_nExt (s : State) (j : Nat) (b : Option Nat) : (startCoro s j b).nExt = s.nExt := rfl
@[simp] theorem startCoro_fut (s : State) (j : Nat) (b : Option Nat) : (startCoro s j b).fut = s.fut := rfl

theorem newFut_create_fut (s : State) (j : Nat) (o : Option Nat) (w : List Nat) :
    (newFut (create s j) o w).fut s.nextFut = { claimed := true, owner := o, waiters := w } :=
  newFut_fut_new (create s j) o w false

theorem inv_spawnBound (s : State) (c j : Nat) (h : Inv s) (hj : (s.co j).st = St.absent) :
    Inv (spawnBound s c j) := by
  have h1 := inv_create s j h hj
  have h2 := inv_newFut (create s j) (some c) h1
  have hub : ∀ y, ((create s j).co y).bound ≠ some s.nextFut := by
    intro y hy; have := (h1.bound_lt y _ hy).1; simp at this
  unfold spawnBound
  apply inv_bind _ j s.nextFut h2 (by simpa using create_st s j) (by simp) <;>
    simp [newFut_create_fut, hub]

theorem spawnBound_co_ne (s : State) {c j : Nat} (x : Nat) (h : x ≠ j) : (spawnBound s c j).co x = s.co x := by
  simp [spawnBound, startCoro_co_ne _ _ h, create_co_ne _ h]

theorem spawnBound_fut (s : State) (c j : Nat) :
    (spawnBound s c j).fut s.nextFut = { claimed := true, owner := some c, waiters := [] } := by
  simp [spawnBound, newFut_create_fut]

theorem coOk_pc (x : Coro) (p : List Act) (h : CoOk x) : CoOk { x with pc := p } := by
  obtain ⟨a1,a2,a3,a4,a5,a6,a7,a8,a9,a10,a11⟩ := h
  constructor <;> simp_all

theorem inv_setPc (s : State) (c : Nat) (p : List Act) (h : Inv s) (hr : (s.co c).st = St.running) :
    Inv (setCo s c { s.co c with pc := p }) := by
  apply inv_setCo s c _ h
  · exact coOk_pc _ p (h.co_ok c)
  · rfl
  · simp [hr]
  · simp [hr]
  · intro f; rfl
  · intro f hf; exact Or.inl hf
  · intro f hf; simp [hr, St.isRes] at hf

theorem inv_execAct (s : State) (c : Nat) (a : Act) (h : Inv s) (hr : (s.co c).st = St.running) :
    Inv (execAct s c a) := by
  have hm : (s.co c).st.mid = true := by simp [hr, St.mid]
  cases a with
  | compute => exact h
  | awaitFut k ct =>
    simp only [execAct]
    split
    · rename_i hk
      exact inv_setSt_want s c k ct h hm (Nat.lt_of_lt_of_le hk h.next_le) (by intro h'; omega)
    · exact h
  | awaitChild j direct ct =>
    simp only [execAct]
    split
    · rename_i hg
      have hcj : c ≠ j := fun e => hg.2 e.symm
      have h' := inv_spawnBound s c j h hg.1
      have hst : ((spawnBound s c j).co c).st = St.running := by rw [spawnBound_co_ne s c hcj]; exact hr
      split
      · apply inv_subscribe _ c s.nextFut ct h' (Or.inl hst)
        · simp [spawnBound_fut]
        · simp [spawnBound]
        · intro _; simp [spawnBound_fut]
      · apply inv_setSt_want _ c s.nextFut ct h' (by simp [hst, St.mid])
        · simp [spawnBound]
        · intro _; simp [spawnBound_fut]
    · exact h
  | detachChild j awaited =>
    simp only [execAct]
    split
    · rename_i hg
      have hcj : c ≠ j := fun e => hg.2 e.symm
      have h' := inv_startCoro_none _ j (inv_create s j h hg.1) (create_st s j)
      split
      · apply inv_setSt_yielded _ c h'
        rw [startCoro_co_ne _ _ hcj, create_co_ne _ hcj]; exact hm
      · exact h'
    · exact h
  | dropChild j =>
    simp only [execAct]
    split
    · rename_i hg
      exact inv_dropU _ j (inv_create s j h hg.1) (create_st s j)
    · exact h
  | throw e => exact inv_finish s c _ h hm
  | ret v => exact inv_finish s c _ h hm

theorem inv_stepCo (s : State) (c : Nat) (h : Inv s) : Inv (stepCo s c).1 := by
  unfold stepCo
  split
  · rename_i hs; exact inv_begin s c h hs
  · rename_i hs
    have : Inv (setCo s c { s.co c with st := St.running, pc := (s.co c).pc, acc := (s.co c).acc, saw := (s.co c).saw }) :=
      inv_toRunning s c _ _ _ h (by simp [hs, St.mid])
    exact this
  · rename_i f ct hs; exact inv_consume s c f ct h (by simp [hs, St.mid])
  · rename_i f ct hs
    split
    · exact inv_consume s c f ct h (by simp [hs, St.mid])
    · rename_i hr
      apply inv_subscribe s c f ct h (Or.inr hs) (by simpa using hr)
      · exact h.refs_lt c f (by simp [hs, St.refs])
      · intro hf; exact h.owner_only c f hf (by simp [hs, St.refs])
  · rename_i hs
    split
    · exact inv_finish s c _ h (by simp [hs, St.mid])
    · rename_i a rest hp
      apply inv_execAct _ c a (inv_setPc s c rest h hs)
      simp [setCo, hs]
  · exact h

theorem inv_step (s : State) (op : Op) (h : Inv s) : Inv (step s op).1 := by
  cases op with
  | create c => simp only [step]; split
                · rename_i hc; exact inv_create s c h hc
                · exact h
  | dropU c => simp only [step]; split
               · rename_i hc; exact inv_dropU s c h hc
               · exact h
  | detach c => simp only [step]; split
                · rename_i hc; exact inv_startCoro_none s c h hc
                · exact h
  | start c o => simp only [step]; split
                 · rename_i hc; exact inv_start s c h hc o
                 · exact h
  | startP c k => exact inv_startP s c k h
  | setF k o => exact inv_setF s k o h
  | dropP k => exact inv_dropP s k h
  | step c => exact inv_stepCo s c h

theorem inv_run (s : State) (ops : List Op) (h : Inv s) : Inv (run s ops) := by
  induction ops generalizing s with
  | nil => exact h
  | cons op ops ih => exact ih _ (inv_step s op h)


/-! ### final states are absorbing (a destroyed frame is never revived, on any schedule) -/

/-- final states are absorbing, and what a finished coroutine produced and whom it was bound to never changes afterwards -/
def Frozen (x y : Coro) : Prop :=
  (x.st = St.dropped → y.st = St.dropped)
  ∧ (x.st = St.done → y.st = St.done ∧ y.outcome = x.outcome ∧ y.bound = x.bound)

def Le (s t : State) : Prop := ∀ c, Frozen (s.co c) (t.co c)

theorem Frozen.same (x : Coro) : Frozen x x := ⟨id, fun h => ⟨h, rfl, rfl⟩⟩
theorem Le.refl (s : State) : Le s s := fun _ => Frozen.same _
theorem Le.trans {s t u : State} (a : Le s t) (b : Le t u) : Le s u :=
  fun c => ⟨fun h => (b c).1 ((a c).1 h), fun h => by
    obtain ⟨h1, h2, h3⟩ := (a c).2 h
    obtain ⟨k1, k2, k3⟩ := (b c).2 h1
    exact ⟨k1, k2.trans h2, k3.trans h3⟩⟩

theorem le_setCo (s : State) (c : Nat) (x : Coro) (h1 : (s.co c).st ≠ St.dropped) (h2 : (s.co c).st ≠ St.done) :
    Le s (setCo s c x) := by
  intro y; by_cases hy : y = c
  · subst hy; exact ⟨fun h => absurd h h1, fun h => absurd h h2⟩
  · simp only [setCo, upd_ne _ _ hy]; exact Frozen.same _

theorem le_setFut (s : State) (f : Nat) (x : Fut) : Le s (setFut s f x) := fun _ => Frozen.same _
theorem le_newFut (s : State) (o : Option Nat) (w : List Nat) : Le s (newFut s o w) := fun _ => Frozen.same _

theorem le_resolve (s : State) (f : Nat) : Le s (resolve s f) := by
  intro c; constructor <;> intro h <;> simp [resolve, wakeOne, h]

theorem le_mid (s : State) (c : Nat) (x : Coro) (hm : (s.co c).st.mid = true) : Le s (setCo s c x) :=
  le_setCo s c x (by intro e; simp [e, St.mid] at hm) (by intro e; simp [e, St.mid] at hm)

theorem le_create (s : State) (c : Nat) (h : (s.co c).st = St.absent) : Le s (create s c) :=
  le_setCo s c _ (by simp [h]) (by simp [h])
theorem le_dropU (s : State) (c : Nat) (h : (s.co c).st = St.unstarted) : Le s (dropU s c) :=
  le_setCo s c _ (by simp [h]) (by simp [h])
theorem le_startCoro (s : State) (c : Nat) (b : Option Nat) (h : (s.co c).st = St.unstarted) : Le s (startCoro s c b) :=
  le_setCo s c _ (by simp [h]) (by simp [h])

theorem wakeOne_st_mid (x : Coro) (n : Nat) (hm : x.st.mid = true) : (wakeOne x n).st = x.st := by
  cases hs : x.st <;> simp [hs, St.mid] at hm <;> simp [wakeOne, hs]

theorem le_deliver (s : State) (c f : Nat) (o : Outcome) : Le s (deliver s c f o) :=
  Le.trans (le_setFut s f { s.fut f with out := some o, setBy := some c :: (s.fut f).setBy }) (le_resolve _ f)

theorem deliver_st_mid (s : State) (c f : Nat) (o : Outcome) (hm : (s.co c).st.mid = true) :
    ((deliver s c f o).co c).st = (s.co c).st := by
  simp only [deliver, resolve, setFut]; exact wakeOne_st_mid _ _ hm

theorem le_finish (s : State) (c : Nat) (o : Outcome) (hm : (s.co c).st.mid = true) : Le s (finish s c o) := by
  unfold finish
  split
  · exact le_mid s c _ hm
  · rename_i f hb
    exact Le.trans (le_deliver s c f o) (le_mid _ c _ (by rw [deliver_st_mid s c f o hm]; exact hm))

theorem le_consume (s : State) (c f : Nat) (ct : Bool) (hm : (s.co c).st.mid = true) : Le s (consume s c f ct) := by
  unfold consume
  split
  · exact le_mid s c _ hm
  · split
    · exact le_mid s c _ hm
    · exact le_finish s c _ hm

theorem le_subscribe (s : State) (c f : Nat) (ct : Bool) (hm : (s.co c).st.mid = true) : Le s (subscribe s c f ct) :=
  Le.trans (le_setFut s f _) (le_mid _ c _ hm)

theorem le_spawnBound (s : State) (c j : Nat) (hj : (s.co j).st = St.absent) : Le s (spawnBound s c j) :=
  Le.trans (Le.trans (le_create s j hj) (le_newFut _ _ _)) (le_startCoro _ j _ (by simpa using create_st s j))

theorem le_execAct (s : State) (c : Nat) (a : Act) (hr : (s.co c).st = St.running) : Le s (execAct s c a) := by
  have hm : (s.co c).st.mid = true := by simp [hr, St.mid]
  cases a with
  | compute => exact Le.refl s
  | awaitFut k ct =>
    simp only [execAct]; split
    · exact le_mid s c _ hm
    · exact Le.refl s
  | awaitChild j direct ct =>
    simp only [execAct]; split
    · rename_i hg
      have hcj : c ≠ j := fun e => hg.2 e.symm
      have hm' : ((spawnBound s c j).co c).st.mid = true := by rw [spawnBound_co_ne s c hcj]; exact hm
      split
      · exact Le.trans (le_spawnBound s c j hg.1) (le_subscribe _ c _ ct hm')
      · exact Le.trans (le_spawnBound s c j hg.1) (le_mid _ c _ hm')
    · exact Le.refl s
  | detachChild j awaited =>
    simp only [execAct]; split
    · rename_i hg
      have hcj : c ≠ j := fun e => hg.2 e.symm
      have l1 := Le.trans (le_create s j hg.1) (le_startCoro _ j none (create_st s j))
      split
      · refine Le.trans l1 (le_mid _ c _ ?_)
        rw [startCoro_co_ne _ _ hcj, create_co_ne _ hcj]; exact hm
      · exact l1
    · exact Le.refl s
  | dropChild j =>
    simp only [execAct]; split
    · rename_i hg; exact Le.trans (le_create s j hg.1) (le_dropU _ j (create_st s j))
    · exact Le.refl s
  | throw e => exact le_finish s c _ hm
  | ret v => exact le_finish s c _ hm

theorem le_stepCo (s : State) (c : Nat) : Le s (stepCo s c).1 := by
  unfold stepCo
  split
  · rename_i hs; exact le_setCo s c _ (by simp [hs]) (by simp [hs])
  · rename_i hs; exact le_mid s c _ (by simp [hs, St.mid])
  · rename_i f ct hs; exact le_consume s c f ct (by simp [hs, St.mid])
  · rename_i f ct hs
    split
    · exact le_consume s c f ct (by simp [hs, St.mid])
    · exact le_subscribe s c f ct (by simp [hs, St.mid])
  · rename_i hs
    split
    · exact le_finish s c _ (by simp [hs, St.mid])
    · rename_i a rest hp
      refine Le.trans (le_mid s c _ (by simp [hs, St.mid])) (le_execAct _ c a ?_)
      simp [setCo, hs]
  · exact Le.refl s

theorem le_step (s : State) (op : Op) : Le s (step s op).1 := by
  cases op with
  | create c => simp only [step]; split
                · rename_i hc; exact le_create s c hc
                · exact Le.refl s
  | dropU c => simp only [step]; split
               · rename_i hc; exact le_dropU s c hc
               · exact Le.refl s
  | detach c => simp only [step]; split
                · rename_i hc; exact le_startCoro s c none hc
                · exact Le.refl s
  | start c => simp only [step]; split
               · rename_i hc; exact Le.trans (le_newFut s none []) (le_startCoro _ c _ hc)
               · exact Le.refl s
  | startP c k =>
    simp only [step]; split
    · rename_i hg
      split
      · exact le_setCo s c _ (by simp [hg.1]) (by simp [hg.1])
      · exact Le.trans (le_setFut s k _) (le_startCoro _ c _ hg.1)
    · exact Le.refl s
  | setF k o =>
    simp only [step, setF]; split
    · split
      · exact Le.refl s
      · exact Le.trans (le_setFut s k _) (le_resolve _ k)
    · exact Le.refl s
  | dropP k =>
    simp only [step, dropP]; split
    · split
      · exact Le.refl s
      · exact Le.trans (le_setFut s k _) (le_resolve _ k)
    · exact Le.refl s
  | step c => exact le_stepCo s c

theorem le_run (s : State) (ops : List Op) : Le s (run s ops) := by
  induction ops generalizing s with
  | nil => exact Le.refl s
  | cons op ops ih => exact Le.trans (le_step s op) (ih _)

/-! ### bindings are permanent; every future created for a coroutine keeps that coroutine bound to it -/

/-- bindings are permanent, the future counter only grows by explicit `newFut` -/
def BLe (s t : State) : Prop :=
  (∀ c f, (s.co c).bound = some f → (t.co c).bound = some f) ∧ t.nextFut = s.nextFut ∧ t.nExt = s.nExt

theorem BLe.refl (s : State) : BLe s s := ⟨fun _ _ h => h, rfl, rfl⟩
theorem BLe.trans {s t u : State} (a : BLe s t) (b : BLe t u) : BLe s u :=
  ⟨fun c f h => b.1 c f (a.1 c f h), by rw [b.2.1, a.2.1], by rw [b.2.2, a.2.2]⟩

theorem ble_setCo_same (s : State) (c : Nat) (x : Coro) (h : x.bound = (s.co c).bound) : BLe s (setCo s c x) := by
  refine ⟨?_, rfl, rfl⟩
  intro y f hy; by_cases hyc : y = c
  · subst hyc; simp [setCo, h, hy]
  · simp [setCo, upd_ne _ _ hyc, hy]

theorem ble_setCo_none (s : State) (c : Nat) (x : Coro) (h : (s.co c).bound = none) : BLe s (setCo s c x) := by
  refine ⟨?_, rfl, rfl⟩
  intro y f hy; by_cases hyc : y = c
  · subst hyc; rw [h] at hy; cases hy
  · simp [setCo, upd_ne _ _ hyc, hy]

theorem ble_setFut (s : State) (f : Nat) (x : Fut) : BLe s (setFut s f x) := ⟨fun _ _ h => h, rfl, rfl⟩

theorem ble_resolve (s : State) (f : Nat) : BLe s (resolve s f) :=
  ⟨fun c g h => by simpa [resolve, wakeOne] using h, rfl, rfl⟩

theorem ble_create (s : State) (c : Nat) : BLe s (create s c) := ble_setCo_same s c _ rfl
theorem ble_dropU (s : State) (c : Nat) : BLe s (dropU s c) := ble_setCo_same s c _ rfl
theorem ble_startCoro (s : State) (c : Nat) (b : Option Nat) (h : (s.co c).bound = none) : BLe s (startCoro s c b) :=
  ble_setCo_none s c _ h
theorem ble_setSt (s : State) (c : Nat) (st : St) : BLe s (setSt s c st) := ble_setCo_same s c _ rfl

theorem ble_deliver (s : State) (c f : Nat) (o : Outcome) : BLe s (deliver s c f o) :=
  BLe.trans (ble_setFut s f { s.fut f with out := some o, setBy := some c :: (s.fut f).setBy }) (ble_resolve _ f)

theorem ble_finish (s : State) (c : Nat) (o : Outcome) : BLe s (finish s c o) := by
  unfold finish
  split
  · exact ble_setCo_same s c _ rfl
  · rename_i f hb
    exact BLe.trans (ble_deliver s c f o) (ble_setCo_same _ c _ rfl)

theorem ble_consume (s : State) (c f : Nat) (ct : Bool) : BLe s (consume s c f ct) := by
  unfold consume
  split
  · exact ble_setCo_same s c _ rfl
  · split
    · exact ble_setCo_same s c _ rfl
    · exact ble_finish s c _

theorem ble_subscribe (s : State) (c f : Nat) (ct : Bool) : BLe s (subscribe s c f ct) :=
  BLe.trans (ble_setFut s f _) (ble_setCo_same _ c _ rfl)

/-- every future created for a coroutine (`start()`, `co_await child`) has the coroutine it was created for bound to it -/
def AllBound (s : State) : Prop := ∀ f, s.nExt ≤ f → f < s.nextFut → ∃ j, (s.co j).bound = some f

theorem ab_of_ble {s t : State} (h : AllBound s) (b : BLe s t) : AllBound t := by
  intro f h1 h2
  rw [b.2.2] at h1; rw [b.2.1] at h2
  obtain ⟨j, hj⟩ := h f h1 h2
  exact ⟨j, b.1 j f hj⟩

/-- fresh future immediately bound to the unstarted coroutine `j` -/
theorem ab_newFut_start (s : State) (j : Nat) (o : Option Nat) (h : AllBound s) (hb : (s.co j).bound = none) :
    AllBound (startCoro (newFut s o []) j (some s.nextFut)) := by
  intro f h1 h2
  simp at h1 h2
  by_cases hf : f = s.nextFut
  · subst hf; exact ⟨j, by simp [startCoro, setCo]⟩
  · obtain ⟨y, hy⟩ := h f h1 (by omega)
    refine ⟨y, ?_⟩
    have hyj : y ≠ j := by intro e; subst e; rw [hb] at hy; cases hy
    simp [startCoro, setCo, upd_ne _ _ hyj, hy]

theorem ab_spawnBound (s : State) (c j : Nat) (hi : Inv s) (h : AllBound s) (hj : (s.co j).st = St.absent) :
    AllBound (spawnBound s c j) := by
  have hb : (s.co j).bound = none := (hi.co_ok j).unb (by simp [hj, St.started])
  have h1 : AllBound (create s j) := ab_of_ble h (ble_create s j)
  have := ab_newFut_start (create s j) j (some c) h1 (by simpa [create, setCo] using hb)
  exact this

theorem ab_execAct (s : State) (c : Nat) (a : Act) (hi : Inv s) (h : AllBound s) : AllBound (execAct s c a) := by
  cases a with
  | compute => exact h
  | awaitFut k ct =>
    simp only [execAct]; split
    · exact ab_of_ble h (ble_setSt s c _)
    · exact h
  | awaitChild j direct ct =>
    simp only [execAct]; split
    · rename_i hg
      have h' := ab_spawnBound s c j hi h hg.1
      split
      · exact ab_of_ble h' (ble_subscribe _ c _ ct)
      · exact ab_of_ble h' (ble_setSt _ c _)
    · exact h
  | detachChild j awaited =>
    simp only [execAct]; split
    · rename_i hg
      have hb : (s.co j).bound = none := (hi.co_ok j).unb (by simp [hg.1, St.started])
      have l1 : BLe s (startCoro (create s j) j none) :=
        BLe.trans (ble_create s j) (ble_startCoro _ j none (by simpa [create, setCo] using hb))
      split
      · exact ab_of_ble h (BLe.trans l1 (ble_setSt _ c _))
      · exact ab_of_ble h l1
    · exact h
  | dropChild j =>
    simp only [execAct]; split
    · exact ab_of_ble h (BLe.trans (ble_create s j) (ble_dropU _ j))
    · exact h
  | throw e => exact ab_of_ble h (ble_finish s c _)
  | ret v => exact ab_of_ble h (ble_finish s c _)

theorem ab_stepCo (s : State) (c : Nat) (hi : Inv s) (h : AllBound s) : AllBound (stepCo s c).1 := by
  unfold stepCo
  split
  · exact ab_of_ble h (ble_setCo_same s c _ rfl)
  · exact ab_of_ble h (ble_setSt s c _)
  · rename_i f ct hs; exact ab_of_ble h (ble_consume s c f ct)
  · rename_i f ct hs
    split
    · exact ab_of_ble h (ble_consume s c f ct)
    · exact ab_of_ble h (ble_subscribe s c f ct)
  · rename_i hs
    split
    · exact ab_of_ble h (ble_finish s c _)
    · rename_i a rest hp
      exact ab_execAct _ c a (inv_setPc s c rest hi hs) (ab_of_ble h (ble_setCo_same s c _ rfl))
  · exact h

theorem ab_step (s : State) (op : Op) (hi : Inv s) (h : AllBound s) : AllBound (step s op).1 := by
  cases op with
  | create c => simp only [step]; split
                · exact ab_of_ble h (ble_create s c)
                · exact h
  | dropU c => simp only [step]; split
               · exact ab_of_ble h (ble_dropU s c)
               · exact h
  | detach c => simp only [step]; split
                · rename_i hc
                  exact ab_of_ble h (ble_startCoro s c none ((hi.co_ok c).unb (by simp [hc, St.started])))
                · exact h
  | start c => simp only [step]; split
               · rename_i hc
                 exact ab_newFut_start s c none h ((hi.co_ok c).unb (by simp [hc, St.started]))
               · exact h
  | startP c k =>
    simp only [step]; split
    · rename_i hg
      have hb : (s.co c).bound = none := (hi.co_ok c).unb (by simp [hg.1, St.started])
      split
      · exact ab_of_ble h (ble_setCo_none s c _ hb)
      · exact ab_of_ble h (BLe.trans (ble_setFut s k _) (ble_startCoro _ c _ hb))
    · exact h
  | setF k o =>
    simp only [step, setF]; split
    · split
      · exact h
      · exact ab_of_ble h (BLe.trans (ble_setFut s k _) (ble_resolve _ k))
    · exact h
  | dropP k =>
    simp only [step, dropP]; split
    · split
      · exact h
      · exact ab_of_ble h (BLe.trans (ble_setFut s k _) (ble_resolve _ k))
    · exact h
  | step c => exact ab_stepCo s c hi h

theorem ab_init (prog : Nat → List Act) (n : Nat) (cx : Bool → Nat → Option Nat := fun _ _ => none) :
    AllBound (init prog n cx) := by
  intro f h1 h2; simp [init] at h1 h2; omega

theorem ab_run (s : State) (ops : List Op) (hi : Inv s) (h : AllBound s) : AllBound (run s ops) := by
  induction ops generalizing s with
  | nil => exact h
  | cons op ops ih => exact ih _ (inv_step s op hi) (ab_step s op hi h)

/-- a binding, once made, is never changed -/
def BK (s t : State) : Prop := ∀ c f, (s.co c).bound = some f → (t.co c).bound = some f

theorem BK.refl (s : State) : BK s s := fun _ _ h => h
theorem BK.trans {s t u : State} (a : BK s t) (b : BK t u) : BK s u := fun c f h => b c f (a c f h)
theorem bk_of_ble {s t : State} (b : BLe s t) : BK s t := b.1
theorem bk_newFut (s : State) (o : Option Nat) (w : List Nat) : BK s (newFut s o w) := fun _ _ h => h

theorem bk_spawnBound (s : State) (c j : Nat) (hi : Inv s) (hj : (s.co j).st = St.absent) : BK s (spawnBound s c j) := by
  have hb : (s.co j).bound = none := (hi.co_ok j).unb (by simp [hj, St.started])
  refine BK.trans (bk_of_ble (ble_create s j)) (BK.trans (bk_newFut _ (some c) []) (bk_of_ble (ble_startCoro _ j _ ?_)))
  simpa [create, setCo] using hb

theorem bk_execAct (s : State) (c : Nat) (a : Act) (hi : Inv s) : BK s (execAct s c a) := by
  cases a with
  | compute => exact BK.refl s
  | awaitFut k ct =>
    simp only [execAct]; split
    · exact bk_of_ble (ble_setSt s c _)
    · exact BK.refl s
  | awaitChild j direct ct =>
    simp only [execAct]; split
    · rename_i hg
      have h' := bk_spawnBound s c j hi hg.1
      split
      · exact BK.trans h' (bk_of_ble (ble_subscribe _ c _ ct))
      · exact BK.trans h' (bk_of_ble (ble_setSt _ c _))
    · exact BK.refl s
  | detachChild j awaited =>
    simp only [execAct]; split
    · rename_i hg
      have hb : (s.co j).bound = none := (hi.co_ok j).unb (by simp [hg.1, St.started])
      have l1 : BLe s (startCoro (create s j) j none) :=
        BLe.trans (ble_create s j) (ble_startCoro _ j none (by simpa [create, setCo] using hb))
      split
      · exact bk_of_ble (BLe.trans l1 (ble_setSt _ c _))
      · exact bk_of_ble l1
    · exact BK.refl s
  | dropChild j =>
    simp only [execAct]; split
    · exact bk_of_ble (BLe.trans (ble_create s j) (ble_dropU _ j))
    · exact BK.refl s
  | throw e => exact bk_of_ble (ble_finish s c _)
  | ret v => exact bk_of_ble (ble_finish s c _)

theorem bk_stepCo (s : State) (c : Nat) (hi : Inv s) : BK s (stepCo s c).1 := by
  unfold stepCo
  split
  · exact bk_of_ble (ble_setCo_same s c _ rfl)
  · exact bk_of_ble (ble_setSt s c _)
  · rename_i f ct hs; exact bk_of_ble (ble_consume s c f ct)
  · rename_i f ct hs
    split
    · exact bk_of_ble (ble_consume s c f ct)
    · exact bk_of_ble (ble_subscribe s c f ct)
  · rename_i hs
    split
    · exact bk_of_ble (ble_finish s c _)
    · rename_i a rest hp
      exact BK.trans (bk_of_ble (ble_setCo_same s c { s.co c with pc := rest } rfl)) (bk_execAct _ c a (inv_setPc s c rest hi hs))
  · exact BK.refl s

theorem bk_step (s : State) (op : Op) (hi : Inv s) : BK s (step s op).1 := by
  cases op with
  | create c => simp only [step]; split
                · exact bk_of_ble (ble_create s c)
                · exact BK.refl s
  | dropU c => simp only [step]; split
               · exact bk_of_ble (ble_dropU s c)
               · exact BK.refl s
  | detach c => simp only [step]; split
                · rename_i hc
                  exact bk_of_ble (ble_startCoro s c none ((hi.co_ok c).unb (by simp [hc, St.started])))
                · exact BK.refl s
  | start c => simp only [step]; split
               · rename_i hc
                 exact BK.trans (bk_newFut s none [])
                   (bk_of_ble (ble_startCoro _ c _ ((hi.co_ok c).unb (by simp [hc, St.started]))))
               · exact BK.refl s
  | startP c k =>
    simp only [step]; split
    · rename_i hg
      have hb : (s.co c).bound = none := (hi.co_ok c).unb (by simp [hg.1, St.started])
      split
      · exact bk_of_ble (ble_setCo_none s c _ hb)
      · exact bk_of_ble (BLe.trans (ble_setFut s k _) (ble_startCoro _ c _ hb))
    · exact BK.refl s
  | setF k o =>
    simp only [step, setF]; split
    · split
      · exact BK.refl s
      · exact bk_of_ble (BLe.trans (ble_setFut s k _) (ble_resolve _ k))
    · exact BK.refl s
  | dropP k =>
    simp only [step, dropP]; split
    · split
      · exact BK.refl s
      · exact bk_of_ble (BLe.trans (ble_setFut s k _) (ble_resolve _ k))
    · exact BK.refl s
  | step c => exact bk_stepCo s c hi

theorem bk_run (s : State) (ops : List Op) (hi : Inv s) : BK s (run s ops) := by
  induction ops generalizing s with
  | nil => exact BK.refl s
  | cons op ops ih => exact BK.trans (bk_step s op hi) (ih _ (inv_step s op hi))

/-! ### completion callbacks of operation objects: called exactly once, by the resolution -/

/-- the completion callback of an operation's result future is called exactly once, by the resolution -/
def FutCb (x : Fut) : Prop :=
  x.cbCalls = (if x.isOp && x.ready then 1 else 0) ∧ x.cb = (x.isOp && !x.ready)

def CbInv (s : State) : Prop := ∀ f, FutCb (s.fut f)

theorem cb_init (prog : Nat → List Act) (n : Nat) (cx : Bool → Nat → Option Nat := fun _ _ => none) :
    CbInv (init prog n cx) := by
  intro f; simp [init, FutCb]

theorem cb_setCo (s : State) (c : Nat) (x : Coro) (h : CbInv s) : CbInv (setCo s c x) := h

theorem cb_setFut (s : State) (f : Nat) (X : Fut) (h : CbInv s) (hx : FutCb X) : CbInv (setFut s f X) := by
  intro g; simp only [setFut, upd_apply]; split
  · exact hx
  · exact h g

theorem cb_newFut (s : State) (o : Option Nat) (w : List Nat) (op : Bool) (h : CbInv s) : CbInv (newFut s o w op) := by
  intro g; simp only [newFut, setFut, upd_apply]; split
  · simp [FutCb]
  · exact h g

theorem cb_resolve (s : State) (f : Nat) (h : CbInv s) : CbInv (resolve s f) := by
  intro g; simp only [resolve, upd_apply]; split
  · obtain ⟨h1, h2⟩ := h f
    simp only [FutCb] at *
    cases hr : (s.fut f).ready <;> cases ho : (s.fut f).isOp <;> simp_all
  · exact h g

theorem cb_create (s : State) (c : Nat) (h : CbInv s) : CbInv (create s c) := h
theorem cb_dropU (s : State) (c : Nat) (h : CbInv s) : CbInv (dropU s c) := h
theorem cb_startCoro (s : State) (c : Nat) (b : Option Nat) (h : CbInv s) : CbInv (startCoro s c b) := h
theorem cb_setSt (s : State) (c : Nat) (st : St) (h : CbInv s) : CbInv (setSt s c st) := h

theorem cb_deliver (s : State) (c f : Nat) (o : Outcome) (h : CbInv s) : CbInv (deliver s c f o) := by
  apply cb_resolve
  apply cb_setFut _ _ _ h
  have := h f; simpa [FutCb] using this

theorem cb_finish (s : State) (c : Nat) (o : Outcome) (h : CbInv s) : CbInv (finish s c o) := by
  unfold finish
  split
  · exact h
  · exact cb_deliver s c _ o h

theorem cb_consume (s : State) (c f : Nat) (ct : Bool) (h : CbInv s) : CbInv (consume s c f ct) := by
  unfold consume
  split
  · exact h
  · split
    · exact h
    · exact cb_finish s c _ h

theorem cb_subscribe (s : State) (c f : Nat) (ct : Bool) (h : CbInv s) : CbInv (subscribe s c f ct) := by
  unfold subscribe
  apply cb_setCo
  apply cb_setFut _ _ _ h
  have := h f; simpa [FutCb] using this

theorem cb_spawnBound (s : State) (c j : Nat) (h : CbInv s) : CbInv (spawnBound s c j) :=
  cb_startCoro _ _ _ (cb_newFut _ _ _ _ (cb_create s j h))

theorem cb_execAct (s : State) (c : Nat) (a : Act) (h : CbInv s) : CbInv (execAct s c a) := by
  cases a with
  | compute => exact h
  | awaitFut k ct => simp only [execAct]; split <;> exact h
  | awaitChild j direct ct =>
    simp only [execAct]; split
    · split
      · exact cb_subscribe _ c _ ct (cb_spawnBound s c j h)
      · exact cb_setSt _ c _ (cb_spawnBound s c j h)
    · exact h
  | detachChild j awaited => simp only [execAct]; split <;> (try split) <;> exact h
  | dropChild j => simp only [execAct]; split <;> exact h
  | throw e => exact cb_finish s c _ h
  | ret v => exact cb_finish s c _ h

theorem cb_stepCo (s : State) (c : Nat) (h : CbInv s) : CbInv (stepCo s c).1 := by
  unfold stepCo
  split
  · exact h
  · exact h
  · exact cb_consume s c _ _ h
  · split
    · exact cb_consume s c _ _ h
    · exact cb_subscribe s c _ _ h
  · split
    · exact cb_finish s c _ h
    · exact cb_execAct _ c _ (cb_setCo s c _ h)
  · exact h

theorem cb_step (s : State) (op : Op) (h : CbInv s) : CbInv (step s op).1 := by
  cases op with
  | create c => simp only [step]; split <;> exact h
  | dropU c => simp only [step]; split <;> exact h
  | detach c => simp only [step]; split <;> exact h
  | start c o => simp only [step]; split
                 · exact cb_startCoro _ c _ (cb_newFut s none [] o h)
                 · exact h
  | startP c k =>
    simp only [step]; split
    · split
      · exact h
      · apply cb_startCoro
        apply cb_setFut _ _ _ h
        have := h k; simpa [FutCb] using this
    · exact h
  | setF k o =>
    simp only [step, setF]; split
    · split
      · exact h
      · apply cb_resolve
        apply cb_setFut _ _ _ h
        have := h k; simpa [FutCb] using this
    · exact h
  | dropP k =>
    simp only [step, dropP]; split
    · split
      · exact h
      · apply cb_resolve
        apply cb_setFut _ _ _ h
        have := h k; simpa [FutCb] using this
    · exact h
  | step c => exact cb_stepCo s c h

theorem cb_run (s : State) (ops : List Op) (h : CbInv s) : CbInv (run s ops) := by
  induction ops generalizing s with
  | nil => exact h
  | cons op ops ih => exact ih _ (cb_step s op h)

end Cocls.Async
