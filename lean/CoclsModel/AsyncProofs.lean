import CoclsModel.Async
/-!
Invariant of the `async<T>` life-cycle model and its preservation by every step (helper lemmas for
`Props/C04.lean`).  The proof is organised around the primitive state transformers of the model
(`setCo`, `newFut`, `startCoro`, `subscribe`, `resolve`, `deliver`, `retire`); every operation is a composition of them.
-/
namespace Cocls.Async

@[simp] theorem upd_same {α} (m : Nat → α) (i : Nat) (v : α) : upd m i v i = v := by simp [upd]
theorem upd_apply {α} (m : Nat → α) (i j : Nat) (v : α) : upd m i v j = if j = i then v else m j := rfl
theorem upd_ne {α} (m : Nat → α) {i j : Nat} (v : α) (h : j ≠ i) : upd m i v j = m j := by simp [upd, h]

/-- the body has begun -/
def St.began : St → Bool
  | St.running | St.wantAwait _ _ | St.awaiting _ _ | St.resumable _ _ | St.yielded | St.done => true
  | _ => false
/-- the handle has left the `async` object -/
def St.started : St → Bool
  | St.absent | St.unstarted | St.dropped => false
  | _ => true
def St.freed : St → Bool
  | St.done | St.dropped => true
  | _ => false
def St.susp : St → Bool
  | St.awaiting _ _ => true
  | _ => false
def St.isAw (st : St) (f : Nat) : Bool := match st with | St.awaiting g _ => g == f | _ => false
def St.isRes (st : St) (f : Nat) : Bool := match st with | St.resumable g _ => g == f | _ => false
/-- the coroutine is about to await / awaits / was woken by `f` -/
def St.refs (st : St) (f : Nat) : Bool :=
  match st with
  | St.awaiting g _ | St.wantAwait g _ | St.resumable g _ => g == f
  | _ => false
/-- running code of the body (not suspended, not finished) -/
def St.active : St → Bool
  | St.running | St.wantAwait _ _ | St.resumable _ _ => true
  | _ => false

theorem St.isAw_refs {st : St} {f : Nat} (h : st.isAw f = true) : st.refs f = true := by
  cases st <;> simp_all [St.isAw, St.refs]
theorem St.isRes_refs {st : St} {f : Nat} (h : st.isRes f = true) : st.refs f = true := by
  cases st <;> simp_all [St.isRes, St.refs]
theorem St.isAw_of_norefs {st : St} {f : Nat} (h : st.refs f = false) : st.isAw f = false := by
  cases hh : st.isAw f
  · rfl
  · rw [St.isAw_refs hh] at h; cases h
theorem St.isRes_of_norefs {st : St} {f : Nat} (h : st.refs f = false) : st.isRes f = false := by
  cases hh : st.isRes f
  · rfl
  · rw [St.isRes_refs hh] at h; cases h

/-- the ghost counters of one coroutine are a function of its life-cycle state -/
structure CoOk (x : Coro) : Prop where
  body : x.bodyStarts = if x.st.began then 1 else 0
  frees : x.frameFrees = if x.st.freed then 1 else 0
  args : x.argDtors = x.frameFrees
  locals : x.localDtors = if x.st = St.done then 1 else 0
  allocs : x.allocs = if x.st = St.absent then 0 else 1
  starts : x.startsOk = if x.st.started then 1 else 0
  wake : x.wakes + (if x.st.susp then 1 else 0) = x.suspends
  outc : x.outcome.isSome = decide (x.st = St.done)
  deliv : x.deliveredTo = if x.st = St.done then x.bound.toList else []
  unb : x.st.started = false → x.bound = none

structure Inv (s : State) : Prop where
  next_le : s.nExt ≤ s.nextFut
  co_ok : ∀ c, CoOk (s.co c)
  bound_lt : ∀ c f, (s.co c).bound = some f → f < s.nextFut ∧ (s.fut f).claimed = true
  bound_live : ∀ c f, (s.co c).bound = some f → (s.co c).st ≠ St.done →
      (s.fut f).ready = false ∧ (s.fut f).out = none ∧ (s.fut f).setBy = []
  bound_done : ∀ c f, (s.co c).bound = some f → (s.co c).st = St.done →
      (s.fut f).ready = true ∧ (s.fut f).out = (s.co c).outcome ∧ (s.fut f).setBy = [some c]
  bound_inj : ∀ c c' f, (s.co c).bound = some f → (s.co c').bound = some f → c = c'
  unbound_set : ∀ f, (∀ c, (s.co c).bound ≠ some f) → (s.fut f).setBy = [] ∨ ((s.fut f).setBy = [none] ∧ f < s.nExt)
  ready_ok : ∀ f, (s.fut f).ready = true → (s.fut f).waiters = [] ∧ (s.fut f).claimed = true
  out_ready : ∀ f, (s.fut f).out ≠ none → (s.fut f).ready = true
  refs_lt : ∀ c f, (s.co c).st.refs f = true → f < s.nextFut
  waiters_count : ∀ c f, (s.fut f).waiters.count c = if (s.co c).st.isAw f then 1 else 0
  res_ready : ∀ c f, (s.co c).st.isRes f = true → (s.fut f).ready = true
  owner_only : ∀ c f, s.nExt ≤ f → (s.co c).st.refs f = true → (s.fut f).owner = some c

theorem coOk_default : CoOk {} := by
  constructor <;> simp [St.began, St.freed, St.started, St.susp]

theorem inv_init (prog : Nat → List Act) (n : Nat) : Inv (init prog n) := by
  constructor <;> simp [init, coOk_default, St.refs, St.isAw, St.isRes]

macro "co_tac" : tactic => `(tactic| (constructor <;> simp_all [St.began, St.freed, St.started, St.susp]))

/-- replacing the record of coroutine `c` by one with the same binding, neither the old nor the new state being
`done`, the same subscription, and new references only to futures it may await -/
theorem inv_setCo (s : State) (c : Nat) (x : Coro) (h : Inv s)
    (hok : CoOk x) (hb : x.bound = (s.co c).bound)
    (hd : x.st ≠ St.done) (hd0 : (s.co c).st ≠ St.done)
    (haw : ∀ f, x.st.isAw f = (s.co c).st.isAw f)
    (hrefs : ∀ f, x.st.refs f = true →
        (s.co c).st.refs f = true ∨ (f < s.nextFut ∧ (s.nExt ≤ f → (s.fut f).owner = some c)))
    (hres : ∀ f, x.st.isRes f = true → (s.fut f).ready = true) :
    Inv (setCo s c x) := by
  obtain ⟨h1,h2,h3,h4,h5,h6,h7,h8,h9,h10,h11,h12,h13⟩ := h
  have key : ∀ y, (upd s.co c x y).bound = (s.co y).bound := by
    intro y; by_cases hy : y = c
    · subst hy; simp [hb]
    · simp [upd_ne _ _ hy]
  refine ⟨?_,?_,?_,?_,?_,?_,?_,?_,?_,?_,?_,?_,?_⟩ <;> dsimp only [setCo]
  · exact h1
  · intro y; by_cases hy : y = c
    · subst hy; simpa using hok
    · simpa [upd_ne _ _ hy] using h2 y
  · intro y f hy; rw [key] at hy; exact h3 y f hy
  · intro y f hy hst; rw [key] at hy
    by_cases hyc : y = c
    · subst hyc; exact h4 y f hy hd0
    · rw [upd_ne _ _ hyc] at hst; exact h4 y f hy hst
  · intro y f hy hst; rw [key] at hy
    by_cases hyc : y = c
    · subst hyc; simp at hst; exact absurd hst hd
    · rw [upd_ne _ _ hyc] at hst ⊢; exact h5 y f hy hst
  · intro y y' f hy hy'; rw [key] at hy hy'; exact h6 y y' f hy hy'
  · intro f hf; apply h7 f; intro y; have := hf y; rw [key] at this; exact this
  · exact h8
  · exact h9
  · intro y f hy
    by_cases hyc : y = c
    · subst hyc; simp at hy
      rcases hrefs f hy with h' | h'
      · exact h10 y f h'
      · exact h'.1
    · rw [upd_ne _ _ hyc] at hy; exact h10 y f hy
  · intro y f
    by_cases hyc : y = c
    · subst hyc; simp [haw]; exact h11 y f
    · simp only [upd_ne _ _ hyc]; exact h11 y f
  · intro y f hy
    by_cases hyc : y = c
    · subst hyc; simp at hy; exact hres f hy
    · rw [upd_ne _ _ hyc] at hy; exact h12 y f hy
  · intro y f hf hy
    by_cases hyc : y = c
    · subst hyc; simp at hy
      rcases hrefs f hy with h' | h'
      · exact h13 y f hf h'
      · exact h'.2 hf
    · rw [upd_ne _ _ hyc] at hy; exact h13 y f hf hy


/-- a fresh future (claimed promise, not ready, nobody refers to it yet) -/
theorem inv_newFut (s : State) (o : Option Nat) (h : Inv s) : Inv (newFut s o []) := by
  obtain ⟨h1,h2,h3,h4,h5,h6,h7,h8,h9,h10,h11,h12,h13⟩ := h
  have nb : ∀ y, (s.co y).bound ≠ some s.nextFut := by
    intro y hy; have := (h3 y _ hy).1; omega
  have nr : ∀ y, (s.co y).st.refs s.nextFut = false := by
    intro y; cases hr : (s.co y).st.refs s.nextFut
    · rfl
    · have := h10 y _ hr; omega
  refine ⟨?_,?_,?_,?_,?_,?_,?_,?_,?_,?_,?_,?_,?_⟩ <;> dsimp only [newFut, setFut]
  · omega
  · exact h2
  · intro y f hy
    have hne : f ≠ s.nextFut := by intro e; subst e; exact nb y hy
    simp only [upd_ne _ _ hne]
    have := h3 y f hy; exact ⟨by omega, this.2⟩
  · intro y f hy hst
    have hne : f ≠ s.nextFut := by intro e; subst e; exact nb y hy
    simp only [upd_ne _ _ hne]; exact h4 y f hy hst
  · intro y f hy hst
    have hne : f ≠ s.nextFut := by intro e; subst e; exact nb y hy
    simp only [upd_ne _ _ hne]; exact h5 y f hy hst
  · exact h6
  · intro f hf
    by_cases hne : f = s.nextFut
    · subst hne; simp
    · simp only [upd_ne _ _ hne]; exact h7 f hf
  · intro f
    by_cases hne : f = s.nextFut
    · subst hne; simp
    · simp only [upd_ne _ _ hne]; exact h8 f
  · intro f
    by_cases hne : f = s.nextFut
    · subst hne; simp
    · simp only [upd_ne _ _ hne]; exact h9 f
  · intro y f hy; have := h10 y f hy; omega
  · intro y f
    by_cases hne : f = s.nextFut
    · subst hne
      have : (s.co y).st.isAw s.nextFut = false := St.isAw_of_norefs (nr y)
      simp [this]
    · simp only [upd_ne _ _ hne]; exact h11 y f
  · intro y f hy
    have hne : f ≠ s.nextFut := by
      intro e; subst e
      rw [St.isRes_of_norefs (nr y)] at hy; cases hy
    simp only [upd_ne _ _ hne]; exact h12 y f hy
  · intro y f hf hy
    have hne : f ≠ s.nextFut := by
      intro e; subst e; simp [nr y] at hy
    simp only [upd_ne _ _ hne]; exact h13 y f hf hy

@[simp] theorem newFut_co (s : State) (o : Option Nat) (w : List Nat) : (newFut s o w).co = s.co := rfl
@[simp] theorem newFut_nextFut (s : State) (o : Option Nat) (w : List Nat) : (newFut s o w).nextFut = s.nextFut + 1 := rfl
@[simp] theorem newFut_nExt (s : State) (o : Option Nat) (w : List Nat) : (newFut s o w).nExt = s.nExt := rfl
theorem newFut_fut_new (s : State) (o : Option Nat) (w : List Nat) :
    (newFut s o w).fut s.nextFut = { claimed := true, owner := o, waiters := w } := by simp [newFut, setFut]


theorem inv_startCoro_none (s : State) (c : Nat) (h : Inv s) (hc : (s.co c).st = St.unstarted) :
    Inv (startCoro s c none) := by
  have hb := (h.co_ok c).unb (by simp [hc, St.started])
  apply inv_setCo s c _ h
  · obtain ⟨a1,a2,a3,a4,a5,a6,a7,a8,a9,a10⟩ := h.co_ok c
    co_tac
  · simp [hb]
  · simp
  · simp [hc]
  · intro f; simp [hc, St.isAw]
  · intro f; simp [St.refs]
  · intro f; simp [St.isRes]

/-- `start_promise`: the unstarted coroutine `c` is bound to the claimed, unresolved, so far unbound future `f` -/
theorem inv_bind (s : State) (c f : Nat) (h : Inv s) (hc : (s.co c).st = St.unstarted)
    (hf : f < s.nextFut) (hcl : (s.fut f).claimed = true) (hr : (s.fut f).ready = false)
    (ho : (s.fut f).out = none) (hs : (s.fut f).setBy = []) (hu : ∀ y, (s.co y).bound ≠ some f) :
    Inv (startCoro s c (some f)) := by
  have hb := (h.co_ok c).unb (by simp [hc, St.started])
  obtain ⟨h1,h2,h3,h4,h5,h6,h7,h8,h9,h10,h11,h12,h13⟩ := h
  refine ⟨?_,?_,?_,?_,?_,?_,?_,?_,?_,?_,?_,?_,?_⟩ <;> dsimp only [startCoro, setCo]
  · exact h1
  · intro y; by_cases hy : y = c
    · subst hy; simp only [upd_same]
      obtain ⟨a1,a2,a3,a4,a5,a6,a7,a8,a9,a10⟩ := h2 y
      co_tac
    · simpa [upd_ne _ _ hy] using h2 y
  · intro y g hy; by_cases hyc : y = c
    · subst hyc; simp at hy; subst hy; exact ⟨hf, hcl⟩
    · rw [upd_ne _ _ hyc] at hy; exact h3 y g hy
  · intro y g hy hst; by_cases hyc : y = c
    · subst hyc; simp at hy; subst hy; exact ⟨hr, ho, hs⟩
    · rw [upd_ne _ _ hyc] at hy hst; exact h4 y g hy hst
  · intro y g hy hst; by_cases hyc : y = c
    · subst hyc; simp at hst
    · rw [upd_ne _ _ hyc] at hy hst ⊢; exact h5 y g hy hst
  · intro y y' g hy hy'
    by_cases hyc : y = c <;> by_cases hyc' : y' = c
    · rw [hyc, hyc']
    · subst hyc; simp at hy; subst hy; rw [upd_ne _ _ hyc'] at hy'; exact absurd hy' (hu y')
    · subst hyc'; simp at hy'; subst hy'; rw [upd_ne _ _ hyc] at hy; exact absurd hy (hu y)
    · rw [upd_ne _ _ hyc] at hy; rw [upd_ne _ _ hyc'] at hy'; exact h6 y y' g hy hy'
  · intro g hg; apply h7 g; intro y
    by_cases hyc : y = c
    · subst hyc; simp [hb]
    · have := hg y; rw [upd_ne _ _ hyc] at this; exact this
  · exact h8
  · exact h9
  · intro y g hy; by_cases hyc : y = c
    · subst hyc; simp [St.refs] at hy
    · rw [upd_ne _ _ hyc] at hy; exact h10 y g hy
  · intro y g; by_cases hyc : y = c
    · subst hyc; have := h11 y g; simp [hc, St.isAw] at this ⊢; exact this
    · simp only [upd_ne _ _ hyc]; exact h11 y g
  · intro y g hy; by_cases hyc : y = c
    · subst hyc; simp [St.isRes] at hy
    · rw [upd_ne _ _ hyc] at hy; exact h12 y g hy
  · intro y g hg hy; by_cases hyc : y = c
    · subst hyc; simp [St.refs] at hy
    · rw [upd_ne _ _ hyc] at hy; exact h13 y g hg hy

end Cocls.Async
