/-
Model of `cocls::scheduler` (scheduler.h), one step per lock region.

* `_scheduled` is modelled as what it is: a vector in *array order* (`heap : List Entry`), entries cancelled by the
  linear search of `remove()` stay in place as dead entries (`alive = false`, the emptied promise) until they surface.
* The two std algorithms the code relies on (`std::push_heap`, `std::pop_heap`) are a *parameter* `H : Heap` of every
  step.  The theorems hold for every `H` that meets the standard's contract (`HeapSpec` in `SchedulerProofs.lean`:
  result is a permutation and a heap w.r.t. `compare_item`), hence for every tie-break among equal deadlines.
  The driver instantiates `H := stdHeap`, a transcription of libstdc++'s `__push_heap` / `__adjust_heap`, so that the
  model predicts the real header's choices exactly (also among equal deadlines and duplicate identifiers).
* Worker threads (`worker_coro`) appear as `poll w now` (the lock region of one loop iteration: stop check, clock read,
  `get_expired_lk(now)`, then `lk.unlock()` in front of the resolution or `wait_until`) and `wake w`; `schedule`
  implements the `notify_all` rule.  Any number of workers.  The promise a worker takes out is resolved with `_mx`
  RELEASED (fix db0b685): an awaiter that is a callback runs inside `x()` on the worker's thread and its calls of
  `schedule()` / `cancel()` / `remove()` are ordinary operations following the `poll` in the operation list; the lock
  discipline itself is the lock program `workerIter` below (`workerIterAsIs`: the pinned code, which kept `_mx`).
* Ghost: `log` (one record per completed sleep, never consulted by the steps).

Time points and identifiers are natural numbers; `time_point::max()` is `none`.
-/
namespace Cocls.Sched

structure Entry where
  serial : Nat        -- ghost: number of the schedule() call that created the entry
  tp : Nat
  id : Nat
  alive : Bool        -- `_p` still holds the promise
  deriving DecidableEq, Repr, Inhabited

/-- how a sleep ended -/
inductive Fate where
  | expired (now : Nat)     -- handed out by get_expired(now) / resolved by the worker at clock `now`
  | cancelled (exc : Nat)   -- cancel(id, e); 0 = await_canceled_exception (the default)
  | removed                 -- remove(id): the promise went back to the caller
  | dropped                 -- scheduler destroyed while pending: promise destructor => await_canceled_exception
  deriving DecidableEq, Repr, Inhabited

structure Done where
  serial : Nat
  tp : Nat
  id : Nat
  fate : Fate
  stamp : Nat         -- value of `nextSerial` at completion: entries with serial < stamp existed at that moment
  deriving DecidableEq, Repr, Inhabited

def Done.isExpired (d : Done) : Bool :=
  match d.fate with
  | Fate.expired _ => true
  | _ => false

/-- the std heap algorithms as used by the scheduler -/
structure Heap where
  /-- `std::push_heap(begin, end, compare_item)` on a vector whose last element was just `push_back`ed -/
  push : List Entry → List Entry
  /-- `pop_item()`: `std::pop_heap(begin, end, compare_item)` followed by `pop_back()` -/
  popItem : List Entry → List Entry

structure State where
  heap : List Entry := []
  nextSerial : Nat := 0
  alive : Bool := true                    -- the scheduler object exists
  waits : List (Nat × Option Nat) := []   -- workers parked in `_cond.wait_until(lk, d)`: (worker, d)
  log : List Done := []                   -- ghost
  deriving Repr

inductive Op where
  | schedule (tp id : Nat)      -- schedule(id, promise, tp) / sleep_until(tp, id)
  | getExpired (now : Nat)      -- manual mode: get_expired(now); the caller resolves the promise it gets
  | remove (id : Nat)
  | cancel (id exc : Nat)
  | destroy
  | poll (w now : Nat)          -- one iteration of worker `w`: lock; get_expired_lk(now); resolve | wait_until
  | wake (w : Nat)              -- worker `w`'s wait ends (deadline, notification or spurious)
  deriving Repr, DecidableEq

inductive Res where
  | scheduled (serial : Nat) (ntf : Bool)
  | expired (e : Entry)
  | next (t : Option Nat)
  | removed (e : Option Entry)
  | flag (b : Bool)
  | unit
  | bad
  | crash                       -- undefined behaviour (as-is variant only)
  deriving Repr, DecidableEq

def init : State := {}

def mkDone (e : Entry) (f : Fate) (stamp : Nat) : Done :=
  { serial := e.serial, tp := e.tp, id := e.id, fate := f, stamp := stamp }

/-- `schedule()`: notify when the heap was empty or the new entry is earlier than the current top -/
def stepSchedule (H : Heap) (s : State) (tp id : Nat) : State × Res :=
  let ntf := match s.heap with
    | [] => true
    | x :: _ => decide (x.tp > tp)
  let e : Entry := { serial := s.nextSerial, tp := tp, id := id, alive := true }
  ({ s with heap := H.push (s.heap ++ [e]), nextSerial := s.nextSerial + 1,
            waits := if ntf then [] else s.waits }, Res.scheduled s.nextSerial ntf)

/-- The loop shared by `get_expired_lk` and `remove`: `while (!empty && c(top)) { p = move(top._p); pop_item();
if (p) return p; }` — pops while the top satisfies `c`, stops at the first live one.  The fuel is the vector's
length (every `pop_item` removes one element). -/
def popLoop (H : Heap) (c : Entry → Bool) : Nat → List Entry → List Entry × Option Entry
  | 0, h => (h, none)
  | _ + 1, [] => ([], none)
  | n + 1, x :: xs =>
      if c x then
        if x.alive then (H.popItem (x :: xs), some x) else popLoop H c n (H.popItem (x :: xs))
      else (x :: xs, none)

/-- loop condition of `get_expired_lk(now)`: `_scheduled[0]._tp <= now || !_scheduled[0]._p` -/
def dueOrDead (now : Nat) (x : Entry) : Bool := decide (x.tp ≤ now) || !x.alive

def getExpiredLk (H : Heap) (heap : List Entry) (now : Nat) : List Entry × Option Entry :=
  popLoop H (dueOrDead now) heap.length heap

def topTime (h : List Entry) : Option Nat :=
  match h with
  | [] => none
  | x :: _ => some x.tp

def stepGetExpired (H : Heap) (s : State) (now : Nat) : State × Res :=
  match getExpiredLk H s.heap now with
  | (h, some e) => ({ s with heap := h, log := s.log ++ [mkDone e (Fate.expired now) s.nextSerial] }, Res.expired e)
  | (h, none) => ({ s with heap := h }, Res.next (topTime h))

/-- loop condition of the first loop of `remove(id)`: `_scheduled[0]._ident == id` (the repaired loop also tests
`!_scheduled.empty()`, which is `popLoop`'s `[]` case) -/
def hasId (id : Nat) (x : Entry) : Bool := decide (x.id = id)

/-- the linear search of `remove(id)` (repaired): first *live* entry with that ident, in array order; its promise
is moved out, the entry stays where it is -/
def takeFirst (id : Nat) : List Entry → List Entry × Option Entry
  | [] => ([], none)
  | x :: xs =>
      if x.id = id ∧ x.alive = true then ({ x with alive := false } :: xs, some x)
      else ((x :: (takeFirst id xs).1), (takeFirst id xs).2)

def removeLk (H : Heap) (heap : List Entry) (id : Nat) : List Entry × Option Entry :=
  match popLoop H (hasId id) heap.length heap with
  | (h, some e) => (h, some e)
  | (h, none) => takeFirst id h

def stepRemove (H : Heap) (s : State) (id : Nat) : State × Res :=
  match removeLk H s.heap id with
  | (h, some e) => ({ s with heap := h, log := s.log ++ [mkDone e Fate.removed s.nextSerial] }, Res.removed (some e))
  | (h, none) => ({ s with heap := h }, Res.removed none)

def stepCancel (H : Heap) (s : State) (id exc : Nat) : State × Res :=
  match removeLk H s.heap id with
  | (h, some e) => ({ s with heap := h, log := s.log ++ [mkDone e (Fate.cancelled exc) s.nextSerial] }, Res.flag true)
  | (h, none) => ({ s with heap := h }, Res.flag false)

/-- `~scheduler()` in manual mode: the vector is destroyed, every promise still held is dropped -/
def stepDestroy (s : State) : State × Res :=
  ({ s with heap := [], alive := false, waits := [],
            log := s.log ++ (s.heap.filter (·.alive)).map (fun e => mkDone e Fate.dropped s.nextSerial) }, Res.unit)

/-- one iteration of `worker_coro` run by worker `w` at clock reading `now` -/
def stepPoll (H : Heap) (s : State) (w now : Nat) : State × Res :=
  let ws := s.waits.filter (fun p => p.1 ≠ w)
  match getExpiredLk H s.heap now with
  | (h, some e) => ({ s with heap := h, waits := ws, log := s.log ++ [mkDone e (Fate.expired now) s.nextSerial] },
                    Res.expired e)
  | (h, none) => ({ s with heap := h, waits := ws ++ [(w, topTime h)] }, Res.next (topTime h))

def stepWake (s : State) (w : Nat) : State × Res :=
  ({ s with waits := s.waits.filter (fun p => p.1 ≠ w) }, Res.unit)

def step (H : Heap) (s : State) (op : Op) : State × Res :=
  if s.alive then
    match op with
    | Op.schedule tp id => stepSchedule H s tp id
    | Op.getExpired now => stepGetExpired H s now
    | Op.remove id => stepRemove H s id
    | Op.cancel id exc => stepCancel H s id exc
    | Op.destroy => stepDestroy s
    | Op.poll w now => stepPoll H s w now
    | Op.wake w => stepWake s w
  else (s, Res.bad)

def run (H : Heap) (s : State) (ops : List Op) : State := ops.foldl (fun s op => (step H s op).1) s

/-! ## libstdc++'s heap algorithms (bits/stl_heap.h), `comp(a, b) = a._tp > b._tp` -/

def getE (l : List Entry) (i : Nat) : Entry := l.getD i default

/-- `__push_heap(first, hole, topIndex = 0, value, comp)`; the fuel is an upper bound of the number of moves -/
def siftUp (v : Entry) : Nat → List Entry → Nat → List Entry
  | 0, l, hole => l.set hole v
  | f + 1, l, hole =>
      if hole = 0 then l.set hole v
      else if (getE l ((hole - 1) / 2)).tp > v.tp then siftUp v f (l.set hole (getE l ((hole - 1) / 2))) ((hole - 1) / 2)
      else l.set hole v

/-- the first loop of `__adjust_heap(first, hole, len, value, comp)`: move the preferred child up until the hole has
no two children; returns the vector and the final hole -/
def siftDown (len : Nat) : Nat → List Entry → Nat → List Entry × Nat
  | 0, l, hole => (l, hole)
  | f + 1, l, hole =>
      if hole < (len - 1) / 2 then
        let r := 2 * (hole + 1)
        let c := if (getE l r).tp > (getE l (r - 1)).tp then r - 1 else r
        siftDown len f (l.set hole (getE l c)) c
      else (l, hole)

/-- `__adjust_heap(first, 0, len, value, comp)` on a vector of length `len` -/
def adjustHeap (l : List Entry) (v : Entry) : List Entry :=
  let len := l.length
  let (l1, hole) := siftDown len len l 0
  if len % 2 = 0 ∧ hole = (len - 2) / 2 ∧ 2 ≤ len then
    siftUp v len (l1.set hole (getE l1 (2 * (hole + 1) - 1))) (2 * (hole + 1) - 1)
  else siftUp v len l1 hole

def stdPush (l : List Entry) : List Entry :=
  match l.getLast? with
  | none => l
  | some v => siftUp v l.length l (l.length - 1)

/-- `pop_heap` (`if (last - first > 1) __pop_heap(first, last-1, last-1)`) + `pop_back` -/
def stdPopItem (l : List Entry) : List Entry :=
  match l.getLast? with
  | none => []
  | some v => if l.length ≤ 1 then [] else adjustHeap l.dropLast v

def stdHeap : Heap := { push := stdPush, popItem := stdPopItem }

/-! ## the unrepaired code (pinned commit), kept for the witnesses in `Props/C12.lean` -/

/-- `while (_scheduled[0]._ident == id)`: no emptiness test, reading `_scheduled[0]` of an empty vector is UB -/
def removeLoopAsIs (H : Heap) (id : Nat) : Nat → List Entry → Option (List Entry × Option Entry)
  | 0, _ => none
  | _ + 1, [] => none                       -- out-of-bounds read (heap-buffer-overflow under ASan)
  | n + 1, x :: xs =>
      if x.id = id then
        if x.alive then some (H.popItem (x :: xs), some x) else removeLoopAsIs H id n (H.popItem (x :: xs))
      else some (x :: xs, none)

/-- the linear search as it was: first entry with that ident, emptied or not -/
def takeFirstAsIs (id : Nat) : List Entry → List Entry × Option Entry
  | [] => ([], none)
  | x :: xs =>
      if x.id = id then ({ x with alive := false } :: xs, if x.alive then some x else none)
      else ((x :: (takeFirstAsIs id xs).1), (takeFirstAsIs id xs).2)

def removeLkAsIs (H : Heap) (heap : List Entry) (id : Nat) : Option (List Entry × Option Entry) :=
  match heap with
  | [] => some ([], none)                   -- `if (_scheduled.empty()) return {};`
  | _ =>
    match removeLoopAsIs H id (heap.length + 1) heap with
    | none => none
    | some (h, some e) => some (h, some e)
    | some (h, none) => some (takeFirstAsIs id h)

def stepAsIs (H : Heap) (s : State) (op : Op) : State × Res :=
  if s.alive then
    match op with
    | Op.cancel id exc =>
        (match removeLkAsIs H s.heap id with
         | none => (s, Res.crash)
         | some (h, some e) =>
             ({ s with heap := h, log := s.log ++ [mkDone e (Fate.cancelled exc) s.nextSerial] }, Res.flag true)
         | some (h, none) => ({ s with heap := h }, Res.flag false))
    | Op.remove id =>
        (match removeLkAsIs H s.heap id with
         | none => (s, Res.crash)
         | some (h, some e) =>
             ({ s with heap := h, log := s.log ++ [mkDone e Fate.removed s.nextSerial] }, Res.removed (some e))
         | some (h, none) => ({ s with heap := h }, Res.removed none))
    | _ => step H s op
  else (s, Res.bad)

def runAsIs (H : Heap) (s : State) (ops : List Op) : State := ops.foldl (fun s op => (stepAsIs H s op).1) s

/-! ## `interval()`'s stop callback as a client program over the scheduler mutex

The callback runs on the thread that calls `request_stop()`.  `_mx` is a plain (non-recursive) `std::mutex`:
locking it while owning it never returns. -/

inductive MOp where
  | lock
  | unlock
  | removeLk (id : Nat)      -- body of `remove(id)` between its lock and unlock
  | resolve (exc : Nat)      -- `p(e)` on the promise `remove` returned, if any
  | pollLk (w now : Nat)     -- `worker_coro` under `_mx`: stop check passed, `now()`, `get_expired_lk(now)` (= `Op.poll w now`)
  | resolveExpired (cb : List Op)
      -- `x()` / `pool->resume(x())` on the promise `get_expired_lk` handed out, if any.  The awaiter runs inside this
      -- call, in this thread: a coroutine is only made ready (`cb = []`); a callback awaiter (`make_promise` callback,
      -- `future_conv`, ...) may call the scheduler again: `cb` = the public calls it makes (each one starts with
      -- `std::lock_guard _(_mx)`)
  deriving Repr, DecidableEq

structure MState where
  s : State
  owner : Bool := false          -- `_mx` is held by the thread running the program
  got : Option Entry := none     -- promise returned by remove
  result : Option Bool := none   -- value returned by cancel
  deriving Repr

/-- `cancel(id)` = `remove(id)` (lock … unlock) then resolve -/
def cancelProg (id : Nat) : List MOp := [MOp.lock, MOp.removeLk id, MOp.unlock, MOp.resolve 0]

/-- stop callback after the repair: `this->cancel(&tag)` -/
def stopCallback (tag : Nat) : List MOp := cancelProg tag

/-- stop callback as it was: `std::lock_guard _(_mx); this->cancel(&tag);` -/
def stopCallbackAsIs (tag : Nat) : List MOp := [MOp.lock] ++ cancelProg tag ++ [MOp.unlock]

/-- runs the program on one thread; `none` = the thread blocks forever (self-deadlock) -/
def runProg (H : Heap) : List MOp → MState → Option MState
  | [], m => some m
  | MOp.lock :: rest, m => if m.owner then none else runProg H rest { m with owner := true }
  | MOp.unlock :: rest, m => runProg H rest { m with owner := false }
  | MOp.removeLk id :: rest, m =>
      match removeLk H m.s.heap id with
      | (h, r) => runProg H rest { m with s := { m.s with heap := h }, got := r }
  | MOp.resolve exc :: rest, m =>
      match m.got with
      | some e => runProg H rest { m with s := { m.s with log := m.s.log ++ [mkDone e (Fate.cancelled exc) m.s.nextSerial] },
                                          got := none, result := some true }
      | none => runProg H rest { m with result := some false }
  | MOp.pollLk w now :: rest, m =>
      match step H m.s (Op.poll w now) with
      | (s1, Res.expired e) => runProg H rest { m with s := s1, got := some e }
      | (s1, _) => runProg H rest { m with s := s1, got := none }
  | MOp.resolveExpired cb :: rest, m =>
      match m.got with
      | none => runProg H rest m
      | some _ =>
          -- the first public call of the awaiter locks `_mx`: never returns when this thread already owns it
          if m.owner && !cb.isEmpty then none
          else runProg H rest { m with s := run H m.s cb, got := none }

/-! ## the worker's loop body as a lock program

`worker_coro` after fix db0b685: `lk.lock(); if (stop_requested) break; now = now(); p = get_expired_lk(now);` then, for
a promise, `lk.unlock(); x(); lk.lock();` and, for a time point, `_cond.wait_until(lk, x)` — which also is "release,
(block), re-acquire" — then the loop condition and `lk.unlock()` at the top of the next round.  The lock regions are
`[lock, pollLk, unlock]` and the trivial `[lock, unlock]`; the resolution lies between them, outside of any region. -/
def workerIter (w now : Nat) (cb : List Op) : List MOp :=
  [MOp.lock, MOp.pollLk w now, MOp.unlock, MOp.resolveExpired cb, MOp.lock, MOp.unlock]

/-- the loop body as it was before /repo commit db0b685 ("fix: scheduler worker resolved expired promises while holding
its mutex"): `x()` is called inside the lock region -/
def workerIterAsIs (w now : Nat) (cb : List Op) : List MOp :=
  [MOp.lock, MOp.pollLk w now, MOp.resolveExpired cb, MOp.unlock]

/-- what one worker iteration does to the scheduler as a sequence of operations: the `poll` region and, when a promise
was handed out, the public calls `cb` its awaiter makes while it is being resolved -/
def afterIter (H : Heap) (s : State) (w now : Nat) (cb : List Op) : State :=
  match step H s (Op.poll w now) with
  | (s1, Res.expired _) => run H s1 cb
  | (s1, _) => s1

/-! ## a worker iteration split by an unlock/lock pair (kept for a witness)

`worker_coro` holds `_mx` from its stop check through `get_expired_lk` until `wait_until` releases it atomically (or,
when a promise was handed out, until the `lk.unlock()` in front of the resolution): that is one lock region
(`stepPoll`).  A variant that drops the mutex between computing the time point `x` and
`_cond.wait_until(lk, x)` (e.g. "do not call `pool->any_enqueued()` under `_mx`") is two regions: -/

/-- first half: `get_expired_lk(now)` … `lk.unlock()`; the worker remembers the time point it got -/
def stepPollGapA (H : Heap) (s : State) (w now : Nat) : State × Res :=
  let ws := s.waits.filter (fun p => p.1 ≠ w)
  match getExpiredLk H s.heap now with
  | (h, some e) => ({ s with heap := h, waits := ws, log := s.log ++ [mkDone e (Fate.expired now) s.nextSerial] },
                    Res.expired e)
  | (h, none) => ({ s with heap := h, waits := ws }, Res.next (topTime h))

/-- second half: `lk.lock(); _cond.wait_until(lk, x)` with the remembered `x` -/
def stepPollGapB (s : State) (w : Nat) (x : Option Nat) : State := { s with waits := s.waits ++ [(w, x)] }

end Cocls.Sched

/-! ## the stop handshake between `~scheduler()` / `start()` and `worker_coro`

`request_stop()` sets the stop state and runs the worker's stop callback (`_cond.notify_all()`), at the granularity at
which it can go wrong: the worker checks `stop_requested()` while holding `_mx` and only later parks itself in
`wait_until` (which releases `_mx`). -/
namespace Cocls.Sched.Stop

inductive WPc where
  | idle      -- not holding `_mx` (loop top / `co_await pause()`)
  | locked    -- holds `_mx`, `if (state.stop_requested()) break;` passed
  | waiting   -- parked in `_cond.wait_until(lk, x)` (`_mx` released)
  | gap       -- (variant with a split iteration only) `_mx` dropped between the stop check and `wait_until`
  | resolving -- `_mx` released by `lk.unlock()`, inside `x()`: resolving the promise `get_expired_lk` handed out (fix db0b685)
  | exited    -- left the loop: the worker coroutine finishes, `_glob_state->_fut` resolves
  deriving DecidableEq, Repr

inductive SPc where
  | start | flagged | holding | notified | done
  deriving DecidableEq, Repr

structure St where
  w : WPc := WPc.idle
  sp : SPc := SPc.start
  flag : Bool := false
  deriving DecidableEq, Repr

inductive Act where
  | wLock          -- worker: `lk.lock(); if (state.stop_requested()) break;`
  | wPollResolve   -- worker: `get_expired_lk` gave a promise: `lk.unlock()`, then `x()` runs without the mutex
  | wRelock        -- worker: `x()` returned: `lk.lock();`, loop condition `!state.stop_requested()`, `lk.unlock()`
  | wPollWait      -- worker: `get_expired_lk` gave a time point: `_cond.wait_until(lk, x)`
  | wTimeout       -- worker: the deadline of its wait passes (never, when the vector is empty: `time_point::max()`)
  | sFlag          -- stopper: `request_stop()` sets the stop state …
  | sLock          -- … and runs the stop callback: (repaired) `std::lock_guard _(_mx);`
  | sNotify        -- `_cond.notify_all();`
  | sUnlock        -- (repaired) end of the callback
  | wPollRelease   -- (split iteration only) worker: time point computed, `lk.unlock()`
  | wRelockWait    -- (split iteration only) worker: `lk.lock(); _cond.wait_until(lk, x)`
  deriving DecidableEq, Repr

def wakeIfWaiting (w : WPc) : WPc := if w = WPc.waiting then WPc.idle else w

/-- the steps of the thread that calls `request_stop()` -/
def Act.isStopper : Act → Bool
  | Act.sFlag | Act.sLock | Act.sNotify | Act.sUnlock => true
  | _ => false

def workerStep (s : St) (a : Act) : Option St :=
  match a with
  | Act.wLock =>
      if s.w = WPc.idle ∧ s.sp ≠ SPc.holding ∧ s.sp ≠ SPc.notified then
        some { s with w := if s.flag then WPc.exited else WPc.locked }
      else none
  | Act.wPollResolve => if s.w = WPc.locked then some { s with w := WPc.resolving } else none
  | Act.wRelock =>
      -- the stop request may have arrived while the promise was being resolved without the mutex: the loop condition
      -- sees it; otherwise the worker is back at the loop top (`idle`) and its next `wLock` checks again
      if s.w = WPc.resolving ∧ s.sp ≠ SPc.holding ∧ s.sp ≠ SPc.notified then
        some { s with w := if s.flag then WPc.exited else WPc.idle }
      else none
  | Act.wPollWait => if s.w = WPc.locked then some { s with w := WPc.waiting } else none
  | Act.wTimeout => if s.w = WPc.waiting then some { s with w := WPc.idle } else none
  | _ => none

/-- the repaired stop callback takes `_mx` around the notification -/
def step (s : St) (a : Act) : Option St :=
  match a with
  | Act.sFlag => if s.sp = SPc.start then some { s with sp := SPc.flagged, flag := true } else none
  | Act.sLock => if s.sp = SPc.flagged ∧ s.w ≠ WPc.locked then some { s with sp := SPc.holding } else none
  | Act.sNotify => if s.sp = SPc.holding then some { s with sp := SPc.notified, w := wakeIfWaiting s.w } else none
  | Act.sUnlock => if s.sp = SPc.notified then some { s with sp := SPc.done } else none
  | _ => workerStep s a

/-- the callback as it was: `_cond.notify_all()` without the mutex -/
def stepAsIs (s : St) (a : Act) : Option St :=
  match a with
  | Act.sFlag => if s.sp = SPc.start then some { s with sp := SPc.flagged, flag := true } else none
  | Act.sNotify => if s.sp = SPc.flagged then some { s with sp := SPc.done, w := wakeIfWaiting s.w } else none
  | Act.sLock => none
  | Act.sUnlock => none
  | _ => workerStep s a

/-- the repaired callback, but a worker iteration that releases `_mx` between its stop check and its `wait_until` -/
def stepGap (s : St) (a : Act) : Option St :=
  match a with
  | Act.wPollRelease => if s.w = WPc.locked then some { s with w := WPc.gap } else none
  | Act.wRelockWait =>
      if s.w = WPc.gap ∧ s.sp ≠ SPc.holding ∧ s.sp ≠ SPc.notified then some { s with w := WPc.waiting } else none
  | _ => step s a

/-- a schedule: actions that are not enabled are skipped -/
def run (f : St → Act → Option St) (s : St) (acts : List Act) : St :=
  acts.foldl (fun s a => (f s a).getD s) s

/-- the stop request is out and complete, the worker is parked and nothing but its own deadline can wake it -/
def Lost (s : St) : Prop := s.sp = SPc.done ∧ s.w = WPc.waiting

end Cocls.Sched.Stop
