import CoclsModel.Alloc
/-!
Invariant of the allocation-event model (`Alloc.lean`) and its preservation by every function of the model, hence by
every program (`inv_run`, induction over the operation list; every recursive function by induction over its fuel /
list argument — no bound on program length, number of coroutines, waiters, handles or enqueues).

`Inv H N F s`: every token of the output is well-shaped (`shapeOk`); frame events only if `H` (a heap-frame creation
happened), at most `N` frame allocations; handle-array (`growth`) events only once some suspend point held more than
`inlineCount` handles (ghost `peak`), and a growing suspend point holds at least `inlineCount` handles; ready-queue
events only on a fresh thread or after `slots` enqueues; plus the structural facts that make this inductive
(heap arrays exist only beyond `inlineCount`, the deque offsets are the ghost counters modulo `slots`).
-/
namespace Cocls.Alloc

theorem gf_pos : 1 ≤ growthFactor := by decide
theorem slots_eq : slots = 64 := rfl

def Tok.isFrame : Tok → Prop
  | .alloc .frame _ _ => True
  | .free .frame _ => True
  | _ => False

/-- the token is about the handle array of a suspend point (whoever grew it) -/
def Tok.isGrowth : Tok → Prop
  | .alloc .growth _ _ => True
  | .free .growth _ => True
  | .alloc .rgrowth _ _ => True
  | .free .rgrowth _ => True
  | _ => False

/-- the token is about a handle array grown by a *resolution* collecting the coroutines it released (second listed finding) -/
def Tok.isRGrowth : Tok → Prop
  | .alloc .rgrowth _ _ => True
  | .free .rgrowth _ => True
  | _ => False

def Tok.isRq : Tok → Prop
  | .alloc .rq _ _ => True
  | .free .rq _ => True
  | _ => False

/-- what the statement allows an output token to be -/
def Tok.shapeOk : Tok → Prop
  | .act _ _ => True
  | .cb _ => True
  | .alloc .frame n _ => n = 1
  | .alloc .growth n held => inlineCount ≤ held ∧ n = held * growthFactor
  | .alloc .rgrowth n held => inlineCount ≤ held ∧ n = held * growthFactor
  | .alloc .rq _ _ => True
  | .alloc .other _ _ => False
  | .free .frame n => n = 1
  | .free .growth _ => True
  | .free .rgrowth _ => True
  | .free .rq _ => True
  | .free .other _ => False
  | .thrown _ _ => True

/-- the token is an exception object the library allocated for a `throw` addressed to user code (the reader of a future
that holds no value) -/
def Tok.isThrown : Tok → Prop
  | .thrown _ _ => True
  | _ => False

/-- the token is the allocation of a coroutine frame -/
def Tok.isFrameAlloc : Tok → Bool
  | .alloc .frame _ _ => true
  | _ => false

def nFrameAlloc (l : List Tok) : Nat := l.countP Tok.isFrameAlloc

theorem nFrameAlloc_cons (t : Tok) (l : List Tok) : nFrameAlloc (t :: l) = nFrameAlloc l + (if t.isFrameAlloc then 1 else 0) := by
  simp [nFrameAlloc, List.countP_cons]

theorem nFrameAlloc_append (a b : List Tok) : nFrameAlloc (a ++ b) = nFrameAlloc a + nFrameAlloc b := by
  simp [nFrameAlloc, List.countP_append]

theorem nFrameAlloc_zero {l : List Tok} (h : ∀ t ∈ l, t.isFrameAlloc = false) : nFrameAlloc l = 0 := by
  simp only [nFrameAlloc, List.countP_eq_zero]
  intro t ht; simp [h t ht]

structure Inv (H : Prop) (N : Nat) (F : Bool) (s : State) : Prop where
  freshC : s.fresh = F
  frameCnt : nFrameAlloc s.out ≤ N
  shape : ∀ t ∈ s.out, t.shapeOk
  frameTok : ∀ t ∈ s.out, t.isFrame → H
  coHeap : ∀ j, (s.cos j).heap = true → H
  genHeap : ∀ g, (s.gens g).heap = true → H
  growthTok : ∀ t ∈ s.out, t.isGrowth → inlineCount < s.peak ∧ (t.isRGrowth → inlineCount < s.rpeak)
  spExt : ∀ k cap, (s.sps k).ext = some cap → inlineCount ≤ cap ∧ inlineCount < s.peak ∧ ((s.sps k).res = true → inlineCount < s.rpeak)
  tmpExt : ∀ cap, s.tmp.ext = some cap → inlineCount ≤ cap ∧ inlineCount < s.peak ∧ (s.tmp.res = true → inlineCount < s.rpeak)
  pendExt : ∀ cap, s.pend = some cap → inlineCount < s.peak ∧ (s.pendR = true → inlineCount < s.rpeak)
  rpeakLe : s.rpeak ≤ s.peak
  rqF : s.rq.fO = s.pushes % slots
  rqS : s.rq.sO = s.pops % slots
  rqLen : s.pops + s.rq.items.length = s.pushes
  rqTok : ∀ t ∈ s.out, t.isRq → s.fresh = true ∨ slots ≤ s.pushes
  rqBuilt : s.fresh = false → s.rq.built = true

theorem inv_init (H : Prop) (N : Nat) (fresh : Bool) : Inv H N fresh (init fresh) := by
  refine ⟨?_, ?_, ?_, ?_, ?_, ?_, ?_, ?_, ?_, ?_, ?_, ?_, ?_, ?_, ?_, ?_⟩ <;> simp [init, nFrameAlloc]

theorem Inv.mono {H H' : Prop} {N N' : Nat} {F : Bool} {s : State} (h : Inv H N F s) (hh : H → H') (hn : N ≤ N') : Inv H' N' F s :=
  { h with frameCnt := Nat.le_trans h.frameCnt hn, frameTok := fun t ht hf => hh (h.frameTok t ht hf), coHeap := fun j hj => hh (h.coHeap j hj),
           genHeap := fun g hg => hh (h.genHeap g hg) }

/-- a token that is neither an allocation nor a release -/
def Tok.plain : Tok → Prop
  | .act _ _ => True
  | .cb _ => True
  | _ => False

theorem mem_app {P : Tok → Prop} {new out : List Tok} (hn : ∀ t ∈ new, P t) (ho : ∀ t ∈ out, P t) :
    ∀ t ∈ new ++ out, P t := by
  intro t ht
  rcases List.mem_append.mp ht with h | h
  · exact hn t h
  · exact ho t h

theorem mem_cons' {P : Tok → Prop} {a : Tok} {out : List Tok} (hn : P a) (ho : ∀ t ∈ out, P t) :
    ∀ t ∈ a :: out, P t := by
  intro t ht
  rcases List.mem_cons.mp ht with h | h
  · exact h ▸ hn
  · exact ho t h

theorem cnt_cons {N : Nat} {t : Tok} {l : List Tok} (ht : t.isFrameAlloc = false) (h : nFrameAlloc l ≤ N) :
    nFrameAlloc (t :: l) ≤ N := by
  rw [nFrameAlloc_cons, ht]; simpa using h

theorem cnt_app {N : Nat} {a l : List Tok} (ha : ∀ t ∈ a, t.isFrameAlloc = false) (h : nFrameAlloc l ≤ N) :
    nFrameAlloc (a ++ l) ≤ N := by
  rw [nFrameAlloc_append, nFrameAlloc_zero ha]; simpa using h

theorem inv_emit {H : Prop} {N : Nat} {F : Bool} {s : State} {t : Tok} (ht : t.plain) (h : Inv H N F s) : Inv H N F (emit s t) := by
  refine { h with frameCnt := cnt_cons ?_ h.frameCnt, shape := mem_cons' ?_ h.shape, frameTok := mem_cons' ?_ h.frameTok,
                  growthTok := mem_cons' ?_ h.growthTok, rqTok := mem_cons' ?_ h.rqTok }
  all_goals (cases t <;> simp [Tok.plain] at ht <;> simp [Tok.shapeOk, Tok.isFrame, Tok.isGrowth, Tok.isRq, Tok.isFrameAlloc])

theorem inv_throwTo {H : Prop} {N : Nat} {F : Bool} {s : State} (who : Option Nat) (i : Nat) (h : Inv H N F s) :
    Inv H N F (throwTo s who i) := by
  unfold throwTo
  split
  · refine { h with frameCnt := cnt_cons ?_ h.frameCnt, shape := mem_cons' ?_ h.shape, frameTok := mem_cons' ?_ h.frameTok,
                    growthTok := mem_cons' ?_ h.growthTok, rqTok := mem_cons' ?_ h.rqTok }
    all_goals simp [Tok.shapeOk, Tok.isFrame, Tok.isGrowth, Tok.isRq, Tok.isFrameAlloc]
  · exact h

theorem inv_setFut {H : Prop} {N : Nat} {F : Bool} {s : State} (i : Nat) (f : Fut) (h : Inv H N F s) : Inv H N F (setFut s i f) := { h with }
theorem inv_setMx {H : Prop} {N : Nat} {F : Bool} {s : State} (m : Nat) (x : Mx) (h : Inv H N F s) : Inv H N F (setMx s m x) := { h with }
theorem inv_setMoved {H : Prop} {N : Nat} {F : Bool} {s : State} (b : Bool) (h : Inv H N F s) : Inv H N F (setMoved s b) := { h with }

theorem inv_setCo {H : Prop} {N : Nat} {F : Bool} {s : State} (j : Nat) (c : Co) (hc : c.heap = true → H) (h : Inv H N F s) :
    Inv H N F (setCo s j c) := by
  refine { h with coHeap := ?_ }
  intro k
  simp only [setCo, upd]
  split
  · exact hc
  · exact h.coHeap k

theorem inv_setSt {H : Prop} {N : Nat} {F : Bool} {s : State} (j : Nat) (st : CoSt) (h : Inv H N F s) : Inv H N F (setSt s j st) :=
  inv_setCo (s := s) j _ (h.coHeap j) h
theorem inv_setScript {H : Prop} {N : Nat} {F : Bool} {s : State} (j : Nat) (sc : List Act) (h : Inv H N F s) : Inv H N F (setScript s j sc) :=
  inv_setCo (s := s) j _ (h.coHeap j) h
theorem inv_setOwns {H : Prop} {N : Nat} {F : Bool} {s : State} (j m : Nat) (b : Bool) (h : Inv H N F s) : Inv H N F (setOwns s j m b) :=
  inv_setCo (s := s) j _ (h.coHeap j) h

theorem inv_setGen {H : Prop} {N : Nat} {F : Bool} {s : State} (g : Nat) (x : Gen) (hx : x.heap = true → H) (h : Inv H N F s) :
    Inv H N F (setGen s g x) := by
  refine { h with genHeap := ?_ }
  intro k
  simp only [setGen, upd]
  split
  · exact hx
  · exact h.genHeap k

theorem genStep_heap (g : Gen) : (genStep g).1.heap = g.heap := by
  unfold genStep; split
  · rfl
  · split <;> rfl

theorem genAll_heap (g : Gen) : (genAll g).heap = g.heap := by
  unfold genAll; split <;> rfl

theorem inv_clearTmp {H : Prop} {N : Nat} {F : Bool} {s : State} (h : Inv H N F s) : Inv H N F (clearTmp s) := by
  refine { h with tmpExt := ?_ }
  intro cap hc
  simp [clearTmp] at hc

theorem inv_allocFrame {H : Prop} {N : Nat} {F : Bool} {s : State} (heap : Bool) (hh : heap = true → H) (h : Inv H N F s) :
    Inv H (N + heap.toNat) F (allocFrame s heap) := by
  unfold allocFrame
  split
  · rename_i hp
    subst hp
    have h1 : Inv H (N + 1) F s := h.mono id (Nat.le_succ N)
    have hc : nFrameAlloc (Tok.alloc .frame 1 0 :: s.out) ≤ N + 1 := by
      rw [nFrameAlloc_cons]; have := h.frameCnt; simp [Tok.isFrameAlloc]; omega
    refine { h1 with
      frameCnt := hc
      shape := mem_cons' ?_ h.shape
      frameTok := mem_cons' ?_ h.frameTok
      growthTok := mem_cons' ?_ h.growthTok
      rqTok := mem_cons' ?_ h.rqTok }
    all_goals simp [Tok.shapeOk, Tok.isFrame, Tok.isGrowth, Tok.isRq]
    exact hh rfl
  · rename_i hp
    simp only [Bool.not_eq_true] at hp
    subst hp
    exact h

theorem inv_freeFrame {H : Prop} {N : Nat} {F : Bool} {s : State} (heap : Bool) (hh : heap = true → H) (h : Inv H N F s) :
    Inv H N F (freeFrame s heap) := by
  unfold freeFrame
  split
  · rename_i hp
    refine { h with frameCnt := cnt_cons ?_ h.frameCnt, shape := mem_cons' ?_ h.shape, frameTok := mem_cons' ?_ h.frameTok,
                    growthTok := mem_cons' ?_ h.growthTok, rqTok := mem_cons' ?_ h.rqTok }
    all_goals simp [Tok.shapeOk, Tok.isFrame, Tok.isGrowth, Tok.isRq, Tok.isFrameAlloc]
    exact hh hp
  · exact h


/-! ### suspend points -/

/-- what the invariant knows about a suspend point value -/
def SpOk (peak rpeak : Nat) (sp : Sp) : Prop :=
  ∀ cap, sp.ext = some cap → inlineCount ≤ cap ∧ inlineCount < peak ∧ (sp.res = true → inlineCount < rpeak)

theorem addToks_ok {peak rpeak rpeak' : Nat} {sp : Sp} {r : Bool} (hsp : SpOk peak rpeak sp) (hrp : rpeak ≤ rpeak')
    (hr : r = true → sp.count + 1 ≤ rpeak') :
    ∀ t ∈ sp.addToks r, t.shapeOk ∧ ¬ t.isFrame ∧ ¬ t.isRq ∧
      (t.isGrowth → inlineCount < max peak (sp.count + 1) ∧ (t.isRGrowth → inlineCount < rpeak')) := by
  intro t ht
  unfold Sp.addToks at ht
  split at ht
  · rename_i cap hc
    split at ht
    · rename_i hcnt
      have := hsp cap hc
      simp only [List.mem_cons, List.not_mem_nil, or_false] at ht
      rcases ht with rfl | rfl
      · cases hres : sp.res
        · simp [Tok.shapeOk, Tok.isFrame, Tok.isRq, Tok.isGrowth, Tok.isRGrowth, catOf]; omega
        · have := this.2.2 hres
          simp [Tok.shapeOk, Tok.isFrame, Tok.isRq, Tok.isGrowth, Tok.isRGrowth, catOf]; omega
      · cases r
        · simp [Tok.shapeOk, Tok.isFrame, Tok.isRq, Tok.isGrowth, Tok.isRGrowth, catOf]; omega
        · have := hr rfl
          simp [Tok.shapeOk, Tok.isFrame, Tok.isRq, Tok.isGrowth, Tok.isRGrowth, catOf]; omega
    · simp at ht
  · split at ht
    · simp at ht
    · simp only [List.mem_cons, List.not_mem_nil, or_false] at ht
      subst ht
      cases r
      · simp [Tok.shapeOk, Tok.isFrame, Tok.isRq, Tok.isGrowth, Tok.isRGrowth, catOf]; omega
      · have := hr rfl
        simp [Tok.shapeOk, Tok.isFrame, Tok.isRq, Tok.isGrowth, Tok.isRGrowth, catOf]; omega

theorem add_ok {peak rpeak rpeak' : Nat} {sp : Sp} (h : Nat) (r : Bool) (hsp : SpOk peak rpeak sp) (hrp : rpeak ≤ rpeak')
    (hr : r = true → sp.count + 1 ≤ rpeak') : SpOk (max peak (sp.count + 1)) rpeak' (sp.add h r) := by
  intro cap hc
  have gp := gf_pos
  simp only [Sp.add, Sp.addExt] at hc
  simp only [Sp.add, Sp.addRes]
  split at hc
  · rename_i c0 hc0
    have := hsp c0 hc0
    try simp only [hc0]
    split at hc
    · rename_i hcnt
      simp only [Option.some.injEq] at hc
      subst hc
      have : sp.count ≤ sp.count * growthFactor := Nat.le_mul_of_pos_right _ gp
      have h2 : c0 ≤ c0 * growthFactor := Nat.le_mul_of_pos_right _ gp
      simp only [hcnt, if_true]
      refine ⟨by omega, by omega, fun hrt => ?_⟩
      have := hr hrt
      omega
    · rename_i hcnt
      simp only [Option.some.injEq] at hc
      simp only [hcnt, if_false]
      refine ⟨by omega, by omega, fun hrt => ?_⟩
      have := this.2.2 hrt
      omega
  · rename_i hnone
    try simp only [hnone]
    split at hc
    · simp at hc
    · rename_i hcnt
      simp only [Option.some.injEq] at hc
      subst hc
      have : sp.count ≤ sp.count * growthFactor := Nat.le_mul_of_pos_right _ gp
      simp only [hcnt, if_false]
      refine ⟨by omega, by omega, fun hrt => ?_⟩
      have := hr hrt
      omega

theorem notFrame_cnt {t : Tok} (h : ¬ t.isFrame) : t.isFrameAlloc = false := by
  cases t with
  | alloc c n hd => cases c <;> simp_all [Tok.isFrame, Tok.isFrameAlloc]
  | _ => rfl

theorem SpOk.mono {p p' q q' : Nat} {sp : Sp} (h : SpOk p q sp) (hp : p ≤ p') (hq : q ≤ q') : SpOk p' q' sp := by
  intro cap hc
  have := h cap hc
  refine ⟨this.1, by omega, fun hr => ?_⟩
  have := this.2.2 hr
  omega

/-- the invariant after the ghost `peak` went up and tokens of a suspend-point `add` were emitted -/
theorem inv_add_core {H : Prop} {N : Nat} {F : Bool} {s s' : State} {sp : Sp} {r : Bool} (h : Inv H N F s) (hsp : SpOk s.peak s.rpeak sp)
    (hout : s'.out = sp.addToks r ++ s.out) (hpeak : s'.peak = max s.peak (sp.count + 1))
    (hrpeak : s'.rpeak = if r then max s.rpeak (sp.count + 1) else s.rpeak)
    (hcos : s'.cos = s.cos) (hgens : s'.gens = s.gens) (hpend : s'.pend = s.pend) (hpendR : s'.pendR = s.pendR) (hrq : s'.rq = s.rq)
    (hpushes : s'.pushes = s.pushes) (hpops : s'.pops = s.pops) (hfresh : s'.fresh = s.fresh)
    (hsps : ∀ k, SpOk s'.peak s'.rpeak (s'.sps k)) (htmp : SpOk s'.peak s'.rpeak s'.tmp) : Inv H N F s' := by
  have hrp : s.rpeak ≤ s'.rpeak := by rw [hrpeak]; split <;> omega
  have hr : r = true → sp.count + 1 ≤ s'.rpeak := by intro hr; rw [hrpeak, hr]; simp; omega
  have hk := addToks_ok hsp hrp hr
  refine ⟨?_, ?_, ?_, ?_, ?_, ?_, ?_, ?_, ?_, ?_, ?_, ?_, ?_, ?_, ?_, ?_⟩
  · rw [hfresh]; exact h.freshC
  · rw [hout]; exact cnt_app (fun t ht => notFrame_cnt (hk t ht).2.1) h.frameCnt
  · rw [hout]; exact mem_app (fun t ht => (hk t ht).1) h.shape
  · rw [hout]; exact mem_app (fun t ht hf => absurd hf (hk t ht).2.1) h.frameTok
  · rw [hcos]; exact h.coHeap
  · rw [hgens]; exact h.genHeap
  · rw [hout, hpeak]
    refine mem_app (fun t ht => (hk t ht).2.2.2) (fun t ht hg => ?_)
    have := h.growthTok t ht hg
    exact ⟨by omega, fun hrg => by have := this.2 hrg; omega⟩
  · exact fun k => hsps k
  · exact htmp
  · rw [hpend, hpendR, hpeak]; intro cap hc; have := h.pendExt cap hc
    exact ⟨by omega, fun hrt => by have := this.2 hrt; omega⟩
  · have := h.rpeakLe
    rw [hpeak, hrpeak]; split <;> omega
  · rw [hrq, hpushes]; exact h.rqF
  · rw [hrq, hpops]; exact h.rqS
  · rw [hrq, hpushes, hpops]; exact h.rqLen
  · rw [hout, hfresh, hpushes]; exact mem_app (fun t ht hr => absurd hr (hk t ht).2.2.1) h.rqTok
  · rw [hfresh, hrq]; exact h.rqBuilt

theorem inv_addTmp {H : Prop} {N : Nat} {F : Bool} {s : State} (x : Nat) (h : Inv H N F s) : Inv H N F (addTmp s x) := by
  apply inv_add_core (r := false) h (sp := s.tmp) h.tmpExt <;> try rfl
  · intro k
    exact SpOk.mono (h.spExt k) (Nat.le_max_left _ _) (Nat.le_refl _)
  · exact add_ok x false h.tmpExt (Nat.le_refl _) (by simp)

theorem inv_addTmpR {H : Prop} {N : Nat} {F : Bool} {s : State} (x : Nat) (h : Inv H N F s) : Inv H N F (addTmpR s x) := by
  apply inv_add_core (r := true) h (sp := s.tmp) h.tmpExt <;> try rfl
  · intro k
    exact SpOk.mono (h.spExt k) (Nat.le_max_left _ _) (Nat.le_max_left _ _)
  · exact add_ok x true h.tmpExt (Nat.le_max_left _ _) (fun _ => Nat.le_max_right _ _)

theorem inv_addSp {H : Prop} {N : Nat} {F : Bool} {s : State} (k x : Nat) (h : Inv H N F s) : Inv H N F (addSp s k x) := by
  apply inv_add_core (r := false) h (sp := s.sps k) (h.spExt k) <;> try rfl
  · intro k'
    simp only [addSp, upd]
    split
    · exact add_ok x false (h.spExt k) (Nat.le_refl _) (by simp)
    · exact SpOk.mono (h.spExt k') (Nat.le_max_left _ _) (Nat.le_refl _)
  · exact SpOk.mono h.tmpExt (Nat.le_max_left _ _) (Nat.le_refl _)

theorem inv_freeExt {H : Prop} {N : Nat} {F : Bool} {s : State} (r : Bool) (e : Option Nat)
    (he : ∀ cap, e = some cap → inlineCount < s.peak ∧ (r = true → inlineCount < s.rpeak))
    (h : Inv H N F s) : Inv H N F (freeExt s r e) := by
  cases e with
  | none => exact h
  | some cap =>
    have := he cap rfl
    simp only [freeExt]
    refine { h with frameCnt := cnt_cons ?_ h.frameCnt, shape := mem_cons' ?_ h.shape, frameTok := mem_cons' ?_ h.frameTok,
                    growthTok := mem_cons' ?_ h.growthTok, rqTok := mem_cons' ?_ h.rqTok }
    all_goals (cases r <;> simp [Tok.shapeOk, Tok.isFrame, Tok.isGrowth, Tok.isRGrowth, Tok.isRq, Tok.isFrameAlloc, catOf])
    · exact this.1
    · exact ⟨this.1, this.2 rfl⟩

theorem inv_freeTmp {H : Prop} {N : Nat} {F : Bool} {s : State} (h : Inv H N F s) : Inv H N F (freeTmp s) :=
  inv_clearTmp (inv_freeExt _ _ (fun cap hc => (h.tmpExt cap hc).2) h)

theorem inv_stashTmp {H : Prop} {N : Nat} {F : Bool} {s : State} (h : Inv H N F s) : Inv H N F (stashTmp s) := by
  refine { h with tmpExt := ?_, pendExt := ?_ }
  · intro cap hc; simp [stashTmp] at hc
  · intro cap hc; exact (h.tmpExt cap hc).2

theorem inv_freePend {H : Prop} {N : Nat} {F : Bool} {s : State} (h : Inv H N F s) : Inv H N F (freePend s) := by
  have h1 := inv_freeExt s.pendR s.pend (fun cap hc => h.pendExt cap hc) h
  refine { h1 with pendExt := ?_ }
  intro cap hc; simp [freePend] at hc

theorem inv_loadSp {H : Prop} {N : Nat} {F : Bool} {s : State} (k : Nat) (h : Inv H N F s) : Inv H N F (loadSp s k) := by
  refine { h with tmpExt := h.spExt k, spExt := ?_ }
  intro k' cap
  simp only [loadSp, upd]
  split
  · intro hc; simp at hc
  · exact h.spExt k' cap

theorem inv_popSp {H : Prop} {N : Nat} {F : Bool} {s : State} (k : Nat) (h : Inv H N F s) : Inv H N F (popSp s k) := by
  refine { h with spExt := ?_ }
  intro k' cap
  simp only [popSp, upd]
  split
  · rename_i hk; subst hk; exact h.spExt k' cap
  · exact h.spExt k' cap

theorem inv_killSp {H : Prop} {N : Nat} {F : Bool} {s : State} (k : Nat) (h : Inv H N F s) : Inv H N F (killSp s k) := by
  have h1 := inv_freeExt (s.sps k).res (s.sps k).ext (fun cap hc => (h.spExt k cap hc).2) h
  refine { h1 with spExt := ?_ }
  intro k' cap
  simp only [killSp, upd]
  split
  · intro hc; simp at hc
  · cases (s.sps k).ext <;> simp only [freeExt] <;> exact h.spExt k' cap


/-! ### the ready queue -/

theorem reserveToks_rq (q : Rq) : ∀ t ∈ q.reserveToks, t.shapeOk ∧ ¬ t.isFrame ∧ ¬ t.isGrowth := by
  intro t ht
  unfold Rq.reserveToks at ht
  split at ht
  · simp only [List.mem_cons, List.not_mem_nil, or_false] at ht
    rcases ht with rfl | rfl <;> simp [Tok.shapeOk, Tok.isFrame, Tok.isGrowth]
  · simp at ht

theorem pushToks_rq (q : Rq) : ∀ t ∈ q.pushToks, t.shapeOk ∧ ¬ t.isFrame ∧ ¬ t.isGrowth ∧ q.fO + 1 = slots := by
  intro t ht
  unfold Rq.pushToks at ht
  split at ht
  · rename_i hn
    simp only [Rq.needNode, decide_eq_true_eq] at hn
    simp only [List.mem_cons] at ht
    rcases ht with rfl | ht
    · simp [Tok.shapeOk, Tok.isFrame, Tok.isGrowth, hn]
    · have := reserveToks_rq q t ht
      exact ⟨this.1, this.2.1, this.2.2, hn⟩
  · simp at ht

theorem push_fO (q : Rq) (x : Nat) : (q.push x).fO = if q.fO + 1 = slots then 0 else q.fO + 1 := by
  unfold Rq.push Rq.needNode
  by_cases hq : q.fO + 1 = slots <;> simp [hq]

theorem push_sO (q : Rq) (x : Nat) : (q.push x).sO = q.sO := by
  unfold Rq.push Rq.reserve
  split
  · split
    · split <;> rfl
    · rfl
  · rfl

theorem push_items (q : Rq) (x : Nat) : (q.push x).items = q.items ++ [x] := by
  unfold Rq.push
  split <;> rfl

theorem push_built (q : Rq) (x : Nat) : (q.push x).built = q.built := by
  unfold Rq.push Rq.reserve
  split
  · split
    · split <;> rfl
    · rfl
  · rfl

theorem inv_rqPush {H : Prop} {N : Nat} {F : Bool} {s : State} (x : Nat) (h : Inv H N F s) : Inv H N F (rqPush s x) := by
  have hk := pushToks_rq s.rq
  have hF := h.rqF
  have hL := h.rqLen
  refine { h with frameCnt := ?_, shape := ?_, frameTok := ?_, growthTok := ?_, rqF := ?_, rqS := ?_, rqLen := ?_, rqTok := ?_, rqBuilt := ?_ }
  · exact cnt_app (fun t ht => notFrame_cnt (hk t ht).2.1) h.frameCnt
  · exact mem_app (fun t ht => (hk t ht).1) h.shape
  · exact mem_app (fun t ht hf => absurd hf (hk t ht).2.1) h.frameTok
  · exact mem_app (fun t ht hf => absurd hf (hk t ht).2.2.1) h.growthTok
  · show (s.rq.push x).fO = (s.pushes + 1) % slots
    rw [push_fO, hF, slots_eq]
    split <;> omega
  · show (s.rq.push x).sO = s.pops % slots
    rw [push_sO]; exact h.rqS
  · show s.pops + (s.rq.push x).items.length = s.pushes + 1
    rw [push_items, List.length_append, List.length_singleton]; omega
  · refine mem_app (fun t ht _ => ?_) (fun t ht hr => ?_)
    · have := (hk t ht).2.2.2
      right
      show slots ≤ s.pushes + 1
      rw [hF, slots_eq] at this
      rw [slots_eq]; omega
    · rcases h.rqTok t ht hr with h1 | h1
      · exact Or.inl h1
      · right; show slots ≤ s.pushes + 1; omega
  · intro hf
    show (s.rq.push x).built = true
    rw [push_built]; exact h.rqBuilt hf

theorem inv_rqPop {H : Prop} {N : Nat} {F : Bool} {s : State} (hne : s.rq.items ≠ []) (h : Inv H N F s) : Inv H N F (rqPop s) := by
  have hS := h.rqS
  have hL := h.rqLen
  have hlen : 0 < s.rq.items.length := List.length_pos_iff.mpr hne
  have htoks : ∀ t ∈ s.rq.popToks, t.shapeOk ∧ ¬ t.isFrame ∧ ¬ t.isGrowth ∧ s.rq.sO + 1 = slots := by
    intro t ht
    unfold Rq.popToks at ht
    split at ht
    · rename_i hn
      simp only [List.mem_cons, List.not_mem_nil, or_false] at ht
      subst ht
      simp [Tok.shapeOk, Tok.isFrame, Tok.isGrowth, hn]
    · simp at ht
  refine { h with frameCnt := ?_, shape := ?_, frameTok := ?_, growthTok := ?_, rqF := ?_, rqS := ?_, rqLen := ?_, rqTok := ?_, rqBuilt := ?_ }
  · exact cnt_app (fun t ht => notFrame_cnt (htoks t ht).2.1) h.frameCnt
  · exact mem_app (fun t ht => (htoks t ht).1) h.shape
  · exact mem_app (fun t ht hf => absurd hf (htoks t ht).2.1) h.frameTok
  · exact mem_app (fun t ht hf => absurd hf (htoks t ht).2.2.1) h.growthTok
  · show s.rq.pop.fO = s.pushes % slots
    have : s.rq.pop.fO = s.rq.fO := by unfold Rq.pop; split <;> rfl
    rw [this]; exact h.rqF
  · show s.rq.pop.sO = (s.pops + 1) % slots
    have : s.rq.pop.sO = if s.rq.sO + 1 = slots then 0 else s.rq.sO + 1 := by
      unfold Rq.pop; split <;> simp_all
    rw [this, hS, slots_eq]
    split <;> omega
  · show s.pops + 1 + s.rq.pop.items.length = s.pushes
    have : s.rq.pop.items = s.rq.items.tail := by unfold Rq.pop; split <;> rfl
    rw [this, List.length_tail]; omega
  · refine mem_app (fun t ht _ => ?_) h.rqTok
    have := (htoks t ht).2.2.2
    right
    show slots ≤ s.pushes
    rw [hS] at this
    simp only [slots_eq] at this ⊢
    omega
  · intro hf
    show s.rq.pop.built = true
    have : s.rq.pop.built = s.rq.built := by unfold Rq.pop; split <;> rfl
    rw [this]; exact h.rqBuilt hf

theorem inv_rqTouch {H : Prop} {N : Nat} {F : Bool} {s : State} (h : Inv H N F s) : Inv H N F (rqTouch s) := by
  unfold rqTouch
  split
  · exact h
  · rename_i hb
    have hfr : s.fresh = true := by
      cases hf : s.fresh
      · exact absurd (h.rqBuilt hf) hb
      · rfl
    refine { h with frameCnt := ?_, shape := ?_, frameTok := ?_, growthTok := ?_, rqTok := ?_, rqBuilt := ?_ }
    · exact cnt_app (by simp [Tok.isFrameAlloc]) h.frameCnt
    · exact mem_app (by simp [Tok.shapeOk]) h.shape
    · exact mem_app (by simp [Tok.isFrame]) h.frameTok
    · exact mem_app (by simp [Tok.isGrowth]) h.growthTok
    · exact mem_app (fun _ _ _ => Or.inl hfr) h.rqTok
    · intro _; rfl

theorem inv_rqExit {H : Prop} {N : Nat} {F : Bool} {s : State} (h : Inv H N F s) : Inv H N F (rqExit s) := by
  unfold rqExit
  split
  · rename_i hfr
    unfold rqDestroy
    split
    · refine { h with frameCnt := ?_, shape := ?_, frameTok := ?_, growthTok := ?_, rqTok := ?_, rqBuilt := ?_ }
      · refine cnt_cons (by simp [Tok.isFrameAlloc]) (cnt_app ?_ h.frameCnt)
        intro t ht; rw [List.eq_of_mem_replicate ht]; simp [Tok.isFrameAlloc]
      · refine mem_cons' (by simp [Tok.shapeOk]) (mem_app ?_ h.shape)
        intro t ht; rw [List.eq_of_mem_replicate ht]; simp [Tok.shapeOk]
      · refine mem_cons' (by simp [Tok.isFrame]) (mem_app ?_ h.frameTok)
        intro t ht; rw [List.eq_of_mem_replicate ht]; simp [Tok.isFrame]
      · refine mem_cons' (by simp [Tok.isGrowth]) (mem_app ?_ h.growthTok)
        intro t ht; rw [List.eq_of_mem_replicate ht]; simp [Tok.isGrowth]
      · exact mem_cons' (fun _ => Or.inl hfr) (mem_app (fun _ _ _ => Or.inl hfr) h.rqTok)
      · intro hf
        have : s.fresh = false := hf
        rw [hfr] at this; cases this
    · exact h
  · exact h


/-! ### composite functions -/

theorem inv_pushAll {H : Prop} {N : Nat} {F : Bool} (l : List Nat) : ∀ {s : State}, Inv H N F s → Inv H N F (pushAll s l) := by
  induction l with
  | nil => intro s h; exact h
  | cons x xs ih => intro s h; exact ih (inv_rqPush x h)

theorem inv_dropActive {H : Prop} {N : Nat} {F : Bool} {s : State} (h : Inv H N F s) : Inv H N F (dropActive s) :=
  inv_freeTmp (inv_pushAll _ h)

theorem inv_walk {H : Prop} {N : Nat} {F : Bool} (i : Nat) (ws : List Waiter) : ∀ {s : State}, Inv H N F s → Inv H N F (walk s i ws) := by
  induction ws with
  | nil => intro s h; exact h
  | cons w ws ih =>
    intro s h
    cases w with
    | coro j => exact ih (inv_addTmpR j h)
    | cb => exact ih (inv_emit (by simp [Tok.plain]) h)
    | sync => exact ih h

theorem inv_settle {H : Prop} {N : Nat} {F : Bool} {s : State} (i : Nat) (o : Outcome) (h : Inv H N F s) : Inv H N F (settle s i o) :=
  inv_walk i _ (inv_setFut i _ (inv_clearTmp h))

theorem inv_resolve {H : Prop} {N : Nat} {F : Bool} {s : State} (i : Nat) (k : Kind) (h : Inv H N F s) : Inv H N F (resolve s i k) := by
  unfold resolve
  split
  · exact inv_clearTmp h
  · exact inv_settle i _ h

theorem inv_subscribe {H : Prop} {N : Nat} {F : Bool} {s : State} (i : Nat) (w : Waiter) (h : Inv H N F s) : Inv H N F (subscribe s i w) :=
  inv_setFut i _ h

theorem inv_clearOwn {H : Prop} {N : Nat} {F : Bool} {s : State} (m : Nat) (who : Option Nat) (h : Inv H N F s) : Inv H N F (clearOwn s m who) := by
  cases who with
  | none => exact h
  | some j => exact inv_setOwns j m false h

theorem inv_handOver {H : Prop} {N : Nat} {F : Bool} {s : State} (m : Nat) (who : Option Nat) (h : Inv H N F s) : Inv H N F (handOver s m who) := by
  unfold handOver
  split
  · exact inv_clearOwn m who (inv_setMx m _ (inv_clearTmp h))
  · exact inv_addTmp _ (inv_setOwns _ m true (inv_clearOwn m who (inv_setMx m _ (inv_clearTmp h))))

theorem inv_coGenStep {H : Prop} {N : Nat} {F : Bool} {s : State} (j g : Nat) (a : Act) (h : Inv H N F s) : Inv H N F (coGenStep s j g a) := by
  unfold coGenStep
  split
  · refine inv_setGen g _ ?_ (inv_emit (by simp [Tok.plain]) h)
    rw [genStep_heap]; exact h.genHeap g
  · exact inv_emit (by simp [Tok.plain]) h

theorem inv_awaitTmp {H : Prop} {N : Nat} {F : Bool} {s : State} (j : Nat) (h : Inv H N F s) : Inv H N F (awaitTmp s j).1 := by
  unfold awaitTmp
  split
  · exact inv_freeTmp h
  · exact inv_freeTmp (inv_rqPush j (inv_pushAll _ h))

theorem rqPush_items_ne (s : State) (x : Nat) : (rqPush s x).rq.items ≠ [] := by
  show (s.rq.push x).items ≠ []
  rw [push_items]; simp

theorem inv_actStep {H : Prop} {N : Nat} {F : Bool} {s : State} (j : Nat) (a : Act) (h : Inv H N F s) : Inv H N F (actStep s j a).1 := by
  have he : ∀ l, Inv H N F (emit s (.act j l)) := fun l => inv_emit (by simp [Tok.plain]) h
  cases a with
  | await i =>
    simp only [actStep]
    split
    · exact inv_subscribe i _ (inv_setScript j _ (he _))
    · split
      · exact inv_throwTo _ _ (he _)
      · exact he _
  | resumed i => exact inv_throwTo _ _ h
  | res i k =>
    simp only [actStep]
    split
    · exact inv_dropActive (inv_resolve i k (he _))
    · exact he _
  | resAw i k =>
    simp only [actStep]
    split
    · exact inv_awaitTmp j (inv_resolve i k (he _))
    · exact he _
  | lock m =>
    simp only [actStep]
    split
    · exact he _
    · split
      · exact inv_setOwns j m true (inv_setMx m _ (he _))
      · exact inv_setMx m _ (he _)
  | unlock m =>
    simp only [actStep]
    split
    · exact inv_dropActive (inv_handOver m _ (he _))
    · exact he _
  | unlockAw m =>
    simp only [actStep]
    split
    · exact inv_awaitTmp j (inv_handOver m _ (he _))
    · exact he _
  | park => exact inv_setSt j _ (he _)
  | pause =>
    simp only [actStep]
    split
    · exact inv_rqPop (rqPush_items_ne _ _) (inv_rqPush j (he _))
    · exact inv_rqPush j (he _)
  | gstep g => exact inv_coGenStep j g _ h
  | gstepAw g => exact inv_coGenStep j g _ h

theorem inv_relOwned {H : Prop} {N : Nat} {F : Bool} {s : State} (j m : Nat) (h : Inv H N F s) : Inv H N F (relOwned s j m) := by
  unfold relOwned
  split
  · exact inv_dropActive (inv_handOver m _ h)
  · exact h

theorem inv_finishPre {H : Prop} {N : Nat} {F : Bool} {s : State} (j : Nat) (h : Inv H N F s) : Inv H N F (finishPre s j) :=
  inv_relOwned j 0 (inv_relOwned j 1 (inv_setSt j _ (inv_emit (by simp [Tok.plain]) h)))

theorem inv_transferTmp {H : Prop} {N : Nat} {F : Bool} {s : State} (h : Inv H N F s) : Inv H N F (transferTmp s).1 := by
  unfold transferTmp
  split
  · exact inv_freeTmp h
  · exact inv_freeTmp (inv_pushAll _ h)

theorem inv_finish {H : Prop} {N : Nat} {F : Bool} {s : State} (j : Nat) (h : Inv H N F s) : Inv H N F (finish s j).1 := by
  unfold finish
  split
  · exact inv_freeFrame _ (h.coHeap j) (inv_finishPre j h)
  · exact inv_transferTmp (inv_freeFrame _ (h.coHeap j) (inv_settle _ _ (inv_finishPre j h)))

theorem inv_runCo {H : Prop} {N : Nat} {F : Bool} (fuel : Nat) : ∀ {s : State} (j : Nat), Inv H N F s → Inv H N F (runCo fuel s j) := by
  induction fuel with
  | zero => intro s j h; exact h
  | succ n ih =>
    intro s j h
    unfold runCo
    split
    · have hf := inv_finish j h
      split
      · rename_i s' k heq
        rw [heq] at hf
        exact ih k hf
      · rename_i s' heq
        rw [heq] at hf
        exact hf
    · rename_i a rest _
      have hf := inv_actStep j a (inv_setScript j rest h)
      split
      · rename_i s' k heq
        rw [heq] at hf
        exact ih k hf
      · rename_i s' heq
        rw [heq] at hf
        exact hf

theorem inv_flushQ {H : Prop} {N : Nat} {F : Bool} (fuel : Nat) : ∀ {s : State}, Inv H N F s → Inv H N F (flushQ fuel s) := by
  induction fuel with
  | zero => intro s h; exact h
  | succ n ih =>
    intro s h
    unfold flushQ
    split
    · exact h
    · rename_i x xs heq
      exact ih (inv_runCo n x (inv_rqPop (by rw [heq]; simp) h))

theorem inv_resumeAll {H : Prop} {N : Nat} {F : Bool} (fuel : Nat) (l : List Nat) : ∀ {s : State}, Inv H N F s → Inv H N F (resumeAll fuel s l) := by
  induction l with
  | nil => intro s h; exact h
  | cons x xs ih => intro s h; exact ih (inv_runCo fuel x h)

theorem inv_dropNormal {H : Prop} {N : Nat} {F : Bool} {s : State} (fuel : Nat) (h : Inv H N F s) : Inv H N F (dropNormal fuel s) := by
  unfold dropNormal
  split
  · exact inv_freeTmp h
  · exact inv_freePend (inv_flushQ fuel (inv_resumeAll fuel _ (inv_rqTouch (inv_stashTmp h))))

theorem inv_resumeNormal {H : Prop} {N : Nat} {F : Bool} {s : State} (fuel x : Nat) (h : Inv H N F s) : Inv H N F (resumeNormal fuel s x) :=
  inv_flushQ fuel (inv_runCo fuel x (inv_rqTouch h))

theorem inv_markActive {H : Prop} {N : Nat} {F : Bool} (l : List Nat) : ∀ {s : State}, Inv H N F s → Inv H N F (markActive s l) := by
  induction l with
  | nil => intro s h; exact h
  | cons x xs ih => intro s h; exact ih (inv_setSt x _ h)

theorem inv_opCo {H : Prop} {N : Nat} {F : Bool} {s : State} (fuel j : Nat) (heap : Bool) (bind : Option Nat) (sc : List Act)
    (hh : heap = true → H) (h : Inv H N F s) : Inv H (N + heap.toNat) F (opCo fuel s j heap bind sc) := by
  unfold opCo
  split
  · exact inv_dropNormal fuel (inv_addTmp j (inv_clearTmp (inv_setCo j _ hh (inv_allocFrame heap hh h))))
  · split
    · exact inv_freeFrame heap hh (inv_setCo j _ hh (inv_allocFrame heap hh h))
    · exact inv_dropNormal fuel (inv_addTmp j (inv_clearTmp (inv_setFut _ _ (inv_setCo j _ hh (inv_allocFrame heap hh h)))))

theorem inv_drainMx {H : Prop} {N : Nat} {F : Bool} (fuel : Nat) {s : State} (m : Nat) (h : Inv H N F s) : Inv H N F (drainMx fuel s m) := by
  unfold drainMx
  split
  · exact inv_dropNormal fuel (inv_handOver m none (inv_setMoved true h))
  · exact h

theorem inv_drainFut {H : Prop} {N : Nat} {F : Bool} (fuel : Nat) {s : State} (i : Nat) (h : Inv H N F s) : Inv H N F (drainFut fuel s i) := by
  unfold drainFut
  split
  · exact inv_dropNormal fuel (inv_resolve i .d (inv_setMoved true h))
  · exact h

theorem inv_callBound {H : Prop} {N : Nat} {F : Bool} (fuel : Nat) {s : State} (i : Nat) (h : Inv H N F s) :
    Inv H N F (callBound fuel s i) := by
  unfold callBound
  split
  · exact h
  · exact inv_dropNormal fuel (inv_settle i _ (inv_setFut i _ h))
  · exact inv_dropNormal fuel (inv_clearTmp h)

theorem inv_killBound {H : Prop} {N : Nat} {F : Bool} (fuel : Nat) {s : State} (i : Nat) (h : Inv H N F s) :
    Inv H N F (killBound fuel s i) := by
  unfold killBound
  split
  · exact h
  · exact inv_dropNormal fuel (inv_settle i _ (inv_setFut i _ h))
  · exact inv_setFut i _ h

theorem inv_drainBnd {H : Prop} {N : Nat} {F : Bool} (fuel : Nat) {s : State} (i : Nat) (h : Inv H N F s) :
    Inv H N F (drainBnd fuel s i) := by
  unfold drainBnd
  split
  · exact inv_killBound fuel i (inv_setMoved true h)
  · exact h

theorem inv_drainCo {H : Prop} {N : Nat} {F : Bool} (fuel : Nat) {s : State} (j : Nat) (h : Inv H N F s) : Inv H N F (drainCo fuel s j) := by
  unfold drainCo
  split
  · exact inv_resumeNormal fuel j (inv_setSt j _ (inv_setMoved true h))
  · exact h

theorem inv_flushSp {H : Prop} {N : Nat} {F : Bool} (fuel : Nat) {s : State} (k : Nat) (h : Inv H N F s) : Inv H N F (flushSp fuel s k) :=
  inv_dropNormal fuel (inv_markActive _ (inv_loadSp k h))

theorem inv_drainSp {H : Prop} {N : Nat} {F : Bool} (fuel : Nat) {s : State} (k : Nat) (h : Inv H N F s) : Inv H N F (drainSp fuel s k) := by
  unfold drainSp
  split
  · exact h
  · exact inv_flushSp fuel k (inv_setMoved true h)

theorem inv_foldl {H : Prop} {N : Nat} {F : Bool} (f : State → Nat → State) (hf : ∀ {s : State} (x : Nat), Inv H N F s → Inv H N F (f s x))
    (l : List Nat) : ∀ {s : State}, Inv H N F s → Inv H N F (l.foldl f s) := by
  induction l with
  | nil => intro s h; exact h
  | cons x xs ih => intro s h; exact ih (hf x h)

theorem inv_drainRound {H : Prop} {N : Nat} {F : Bool} (fuel : Nat) {s : State} (h : Inv H N F s) : Inv H N F (drainRound fuel s) :=
  inv_foldl _ (inv_drainSp fuel) _
    (inv_foldl _ (inv_drainCo fuel) _
      (inv_foldl _ (inv_drainBnd fuel) _
        (inv_foldl _ (inv_drainFut fuel) _
          (inv_foldl _ (inv_drainMx fuel) _ (inv_setMoved false h)))))

theorem inv_drain {H : Prop} {N : Nat} {F : Bool} (r fuel : Nat) : ∀ {s : State}, Inv H N F s → Inv H N F (drain r fuel s) := by
  induction r with
  | zero => intro s h; exact h
  | succ n ih =>
    intro s h
    unfold drain
    split
    · exact ih (inv_drainRound fuel h)
    · exact inv_drainRound fuel h

theorem inv_addAllSp {H : Prop} {N : Nat} {F : Bool} (k : Nat) (l : List Nat) :
    ∀ {s : State}, Inv H N F s → Inv H N F (addAllSp s k l) := by
  induction l with
  | nil => intro s h; exact h
  | cons x xs ih => intro s h; exact ih (inv_addSp k x h)

theorem inv_mergeTmpInto {H : Prop} {N : Nat} {F : Bool} {s : State} (k : Nat) (h : Inv H N F s) :
    Inv H N F (mergeTmpInto s k) :=
  inv_freeTmp (inv_addAllSp k _ h)

theorem inv_killGen {H : Prop} {N : Nat} {F : Bool} {s : State} (g : Nat) (h : Inv H N F s) : Inv H N F (killGen s g) := by
  unfold killGen
  split
  · exact inv_freeFrame _ (h.genHeap g) (inv_setGen g _ (h.genHeap g) h)
  · exact h

theorem inv_opFin {H : Prop} {N : Nat} {F : Bool} (fuel : Nat) {s : State} (h : Inv H N F s) : Inv H N F (opFin fuel s) :=
  inv_rqExit (inv_killSp 0 (inv_killSp 1 (inv_foldl _ inv_killGen _ (inv_drain fuel fuel h))))

/-- the operation creates a coroutine / generator whose frame comes from the heap -/
def Op.isHeapCreate : Op → Prop
  | .co _ heap _ _ => heap = true
  | .gen _ heap _ => heap = true
  | _ => False

/-- 1 for an operation that creates a heap-frame coroutine / generator -/
def Op.heapCount : Op → Nat
  | .co _ heap _ _ => heap.toNat
  | .gen _ heap _ => heap.toNat
  | _ => 0

theorem inv_step {H : Prop} {N : Nat} {F : Bool} (fuel : Nat) {s : State} (op : Op) (h : Inv H N F s) :
    Inv (H ∨ op.isHeapCreate) (N + op.heapCount) F (step fuel s op) := by
  have h' : Inv (H ∨ op.isHeapCreate) N F s := h.mono Or.inl (Nat.le_refl _)
  have up : ∀ {s' : State}, Inv (H ∨ op.isHeapCreate) N F s' → Inv (H ∨ op.isHeapCreate) (N + op.heapCount) F s' :=
    fun x => x.mono id (Nat.le_add_right _ _)
  cases op with
  | fut i => simp only [step]; split; exact up h'; exact up (inv_setFut _ _ h')
  | res i k => simp only [step]; split; exact up (inv_dropNormal fuel (inv_resolve i k h')); exact up h'
  | resX i => simp only [step]; split; exact up (inv_dropNormal fuel (inv_resolve i .d h')); exact up h'
  | cb i => simp only [step]; split; exact up (inv_subscribe _ _ h'); exact up h'
  | bs i => simp only [step]; split; exact up (inv_subscribe _ _ h'); exact up h'
  | bw i => simp only [step]; split; exact up (inv_throwTo _ _ h'); exact up h'
  | del i => simp only [step]; split; exact up (inv_setFut _ _ h'); exact up h'
  | co j heap b sc =>
    simp only [step]
    split
    · exact inv_opCo fuel j heap b sc (fun hh => Or.inr hh) h'
    · exact up h'
  | tl m => simp only [step]; split; exact up (inv_setMx _ _ h'); exact up h'
  | ul m => simp only [step]; split; exact up (inv_dropNormal fuel (inv_handOver m none h')); exact up h'
  | sa k j => simp only [step]; split; exact up (inv_addSp k j (inv_setSt j _ h')); exact up h'
  | sp k =>
    simp only [step]
    split
    · exact up h'
    · exact up (inv_resumeNormal fuel _ (inv_setSt _ _ (inv_popSp k h')))
  | sf k => exact up (inv_flushSp fuel k h')
  | sm k k2 => simp only [step]; split; exact up h'; exact up (inv_mergeTmpInto k (inv_loadSp k2 h'))
  | rm k i kd => simp only [step]; split; exact up (inv_mergeTmpInto k (inv_resolve i kd h')); exact up h'
  | bd i sz => simp only [step]; split; exact up (inv_setFut _ _ h'); exact up h'
  | bi i => exact up (inv_callBound fuel i h')
  | bx i => exact up (inv_killBound fuel i h')
  | gen g heap n =>
    simp only [step]
    split
    · exact up h'
    · exact inv_setGen g _ (fun hh => Or.inr hh) (inv_allocFrame heap (fun hh => Or.inr hh) h')
  | gs g v =>
    simp only [step]
    split
    · have ht : Inv (H ∨ (Op.gs g v).isHeapCreate) N F (genTouch s g) := by
        unfold genTouch; split
        · exact h'
        · exact inv_rqTouch h'
      refine up (inv_setGen g _ ?_ ht)
      rw [genStep_heap]
      exact h'.genHeap g
    · exact up h'
  | gr g =>
    simp only [step]
    split
    · have ht : Inv (H ∨ (Op.gr g).isHeapCreate) N F (genTouch s g) := by
        unfold genTouch; split
        · exact h'
        · exact inv_rqTouch h'
      refine up (inv_setGen g _ ?_ ht)
      rw [genAll_heap]
      exact h'.genHeap g
    · exact up h'
  | gd g => exact up (inv_killGen g h')
  | fin => exact up (inv_opFin fuel h')

/-- the program contains an operation that creates a heap-frame coroutine / generator -/
def hasHeapCreate (prog : List Op) : Prop := ∃ op ∈ prog, op.isHeapCreate

/-- number of operations of the program that create a heap-frame coroutine / generator -/
def nHeapCreate : List Op → Nat
  | [] => 0
  | op :: ops => op.heapCount + nHeapCreate ops

theorem inv_foldl_step (fuel : Nat) (prog : List Op) : ∀ {H : Prop} {N : Nat} {F : Bool} {s : State}, Inv H N F s →
    Inv (H ∨ hasHeapCreate prog) (N + nHeapCreate prog) F (prog.foldl (step fuel) s) := by
  induction prog with
  | nil => intro H N F s h; exact h.mono Or.inl (Nat.le_refl _)
  | cons op ops ih =>
    intro H N F s h
    have := ih (inv_step fuel op h)
    refine this.mono ?_ ?_
    · rintro ((hH | hop) | ⟨o, ho, hc⟩)
      · exact Or.inl hH
      · exact Or.inr ⟨op, List.mem_cons_self, hop⟩
      · exact Or.inr ⟨o, List.mem_cons_of_mem _ ho, hc⟩
    · simp only [nHeapCreate]; omega

theorem inv_run (fuel : Nat) (fresh : Bool) (prog : List Op) :
    Inv (hasHeapCreate prog) (nHeapCreate prog) fresh (run fuel fresh prog) :=
  (inv_foldl_step fuel prog (inv_init False 0 fresh)).mono (fun h => h.elim False.elim id) (by omega)

/-! ### the allocation log (the events among the output tokens, oldest first) -/

theorem mem_allocLog {s : State} {t : Tok} : t ∈ allocLog s ↔ t ∈ s.out ∧ isEv t = true := by
  simp [allocLog, List.mem_filter]

theorem nFrameAlloc_filter (l : List Tok) : nFrameAlloc (l.filter isEv) = nFrameAlloc l := by
  induction l with
  | nil => rfl
  | cons t ts ih =>
    rw [List.filter_cons]
    cases t with
    | alloc c n h => simp only [isEv, if_true, nFrameAlloc_cons, ih]
    | free c n => simp only [isEv, if_true, nFrameAlloc_cons, ih]
    | act j l => simpa [isEv, nFrameAlloc_cons, Tok.isFrameAlloc] using ih
    | cb i => simpa [isEv, nFrameAlloc_cons, Tok.isFrameAlloc] using ih
    | thrown w i => simp only [isEv, if_true, nFrameAlloc_cons, ih]

end Cocls.Alloc
