import CoclsModel.SignalClock
import CoclsModel.ChainClockProofs
/-!
Race freedom of the signal protocol as a whole on the happens-before machine of `SignalClock.lean`: the ownership invariant `Inv`,
its preservation by every step of the collector and of every emitter under every choice, `signal_race_free`,
`signal_waiter_sees_value`, `signal_value_needs_no_order` (the value races under NO order table), the necessity witnesses
(`signal_race_free_iff`), the bridge `base_run` to the sequentially consistent base system and `base_refines_pub` to `Signal.Pub`.

Structure (as `ChainClockProofs.lean`): every primitive only makes clocks and the chain's release-sequence clock grow and touches
at most one node, with the clock of the stepping thread — relation `Mono`, closed under composition; one frame lemma
(`inv_frame`) turns a `Mono` step plus a handful of facts about the new base state into the invariant; the publishing CAS, the
exchange and the hand-over contribute one clock inequality each (`casOk_pub`, `xchg_acq`, `hand_le`).
-/

namespace Cocls.SignalClock
open Cocls
open Cocls.Clock (VC relVc acqVc tickIf)
open Cocls.ChainClock (FT rdRace wrRace le_acqVc le_acqVc_msg le_tickIf le_relVc le_join_left le_join_right upd_mono
  norace_of_le norace_of_own)

/-! ### FastTrack facts -/

theorem le_read {f : FT} {c : VC} (t : Nat) (h : f.le c) : (f.read t c).le c := by
  refine ⟨h.1, fun e he => ?_⟩
  simp only [FT.read, List.mem_cons] at he
  rcases he with he | he
  · subst he; exact Nat.le_refl _
  · exact h.2 e he

theorem le_write (f : FT) (c : VC) (t : Nat) : (f.write t c).le c := by
  refine ⟨Nat.le_refl _, fun e he => ?_⟩
  simp [FT.write] at he

/-- every epoch of node `y` is below `v` -/
def NodeLe (s : St) (y : Nat) (v : VC) : Prop := (s.nxt y).le v ∧ (s.hnd y).le v
/-- `_cur_val`, the value and `_value_storage` have been accessed by thread 0 only, within its clock -/
def ColOk (s : St) : Prop := s.cur.own 0 (s.clk 0 0) ∧ s.val.own 0 (s.clk 0 0) ∧ s.stor.own 0 (s.clk 0 0)

theorem NodeLe.mono {s : St} {y : Nat} {v w : VC} (h : NodeLe s y v) (hw : ∀ i, v i ≤ w i) : NodeLe s y w :=
  ⟨ChainClock.FT.le_mono h.1 hw, ChainClock.FT.le_mono h.2 hw⟩

/-! ### what a primitive of thread `t` touching (at most) node `y` does -/

structure Mono (t y : Nat) (s s' : St) : Prop where
  base : s'.base = s.base
  raced : s'.raced = s.raced
  clk : ∀ u i, s.clk u i ≤ s'.clk u i
  rs : ∀ i, s.chainRs i ≤ s'.chainRs i
  other : ∀ x, x ≠ y → s'.nxt x = s.nxt x ∧ s'.hnd x = s.hnd x
  node : NodeLe s y (s.clk t) → NodeLe s' y (s'.clk t)
  col : ColOk s → ColOk s'
  realC : 1 ≤ s.cur.wr.2 → 1 ≤ s'.cur.wr.2
  realV : 1 ≤ s.val.wr.2 → 1 ≤ s'.val.wr.2

theorem Mono.refl (t y : Nat) (s : St) : Mono t y s s :=
  ⟨rfl, rfl, fun _ _ => Nat.le_refl _, fun _ => Nat.le_refl _, fun _ _ => ⟨rfl, rfl⟩, id, id, id, id⟩

theorem Mono.trans {t y : Nat} {s s' s'' : St} (a : Mono t y s s') (b : Mono t y s' s'') : Mono t y s s'' :=
  ⟨b.base.trans a.base, b.raced.trans a.raced, fun u i => Nat.le_trans (a.clk u i) (b.clk u i),
    fun i => Nat.le_trans (a.rs i) (b.rs i),
    fun x hx => ⟨(b.other x hx).1.trans (a.other x hx).1, (b.other x hx).2.trans (a.other x hx).2⟩,
    fun h => b.node (a.node h), fun h => b.col (a.col h), fun h => b.realC (a.realC h), fun h => b.realV (a.realV h)⟩

theorem colOk_mono {s s' : St} (h : ColOk s) (hc : s'.cur = s.cur) (hv : s'.val = s.val) (hs : s'.stor = s.stor)
    (hk : s.clk 0 0 ≤ s'.clk 0 0) : ColOk s' := by
  unfold ColOk; rw [hc, hv, hs]
  exact ⟨ChainClock.FT.own_mono h.1 hk, ChainClock.FT.own_mono h.2.1 hk, ChainClock.FT.own_mono h.2.2 hk⟩

/-- a primitive that only makes clocks grow -/
theorem mono_of_clk {t y : Nat} {s s' : St} (hb : s'.base = s.base) (hr : s'.raced = s.raced) (hc : s'.cur = s.cur)
    (hv : s'.val = s.val) (hs : s'.stor = s.stor) (hn : s'.nxt = s.nxt) (hh : s'.hnd = s.hnd)
    (hk : ∀ u i, s.clk u i ≤ s'.clk u i) (hrs : ∀ i, s.chainRs i ≤ s'.chainRs i) : Mono t y s s' :=
  ⟨hb, hr, hk, hrs, fun _ _ => by rw [hn, hh]; exact ⟨rfl, rfl⟩,
    fun h => by unfold NodeLe at *; rw [hn, hh]; exact ⟨ChainClock.FT.le_mono h.1 (hk t), ChainClock.FT.le_mono h.2 (hk t)⟩,
    fun h => colOk_mono h hc hv hs (hk 0 0), by rw [hc]; exact id, by rw [hv]; exact id⟩

theorem mono_casOk (o : SignalOrders) (s : St) (t y : Nat) : Mono t y s (hbCasOk o s t) :=
  mono_of_clk rfl rfl rfl rfl rfl rfl rfl
    (upd_mono _ _ _ (fun i => Nat.le_trans (le_acqVc _ _ _ i) (le_tickIf _ _ _ i))) (fun i => le_join_right _ _ i)

theorem mono_casFail (o : SignalOrders) (s : St) (t y : Nat) : Mono t y s (hbCasFail o s t) :=
  mono_of_clk rfl rfl rfl rfl rfl rfl rfl (upd_mono _ _ _ (fun i => le_acqVc _ _ _ i)) (fun _ => Nat.le_refl _)

theorem mono_xchg (o : SignalOrders) (s : St) (t y : Nat) : Mono t y s (hbXchg o s t) :=
  mono_of_clk rfl rfl rfl rfl rfl rfl rfl
    (upd_mono _ _ _ (fun i => Nat.le_trans (le_acqVc _ _ _ i) (le_tickIf _ _ _ i))) (fun i => le_join_right _ _ i)

theorem le_tick (c : VC) (t i : Nat) : c i ≤ VC.tick c t i := by
  simp only [Clock.VC.tick, Clock.upd_apply]; split
  · subst_vars; omega
  · omega

theorem hand_clk (s : St) (t y u i : Nat) : s.clk u i ≤ (hbHand s t y).clk u i := by
  simp only [hbHand, Clock.upd_apply2]
  split
  · subst_vars; exact le_tick _ _ _
  · split
    · subst_vars; exact le_join_left _ _ _
    · exact Nat.le_refl _

theorem mono_hand (s : St) (t y : Nat) : Mono t y s (hbHand s t y) :=
  mono_of_clk rfl rfl rfl rfl rfl rfl rfl (hand_clk s t y) (fun _ => Nat.le_refl _)

/-- the three clock inequalities the protocol lives on -/
theorem casOk_pub (o : SignalOrders) (ho : o.casSucc.isRel = true) (s : St) (t i : Nat) :
    s.clk t i ≤ (hbCasOk o s t).chainRs i :=
  Nat.le_trans (Nat.le_trans (le_acqVc _ _ _ i) (le_relVc _ ho _ i)) (le_join_left _ _ i)

theorem xchg_acq (o : SignalOrders) (ho : o.xchg.isAcq = true) (s : St) (t i : Nat) :
    s.chainRs i ≤ (hbXchg o s t).clk t i := by
  simp only [hbXchg, Clock.upd_same]
  exact Nat.le_trans (le_acqVc_msg _ ho _ _ i) (le_tickIf _ _ _ i)

theorem hand_le (s : St) (t y : Nat) (i : Nat) : s.clk t i ≤ (hbHand s t y).clk y i := by
  simp only [hbHand]
  by_cases hty : y = t
  · subst hty; rw [Clock.upd_same]; exact le_tick _ _ _
  · rw [Clock.upd_other _ _ hty, Clock.upd_same]
    exact le_join_right _ _ i

/-! node accesses -/

theorem mono_nxtRead (s : St) (t y : Nat) (h : NodeLe s y (s.clk t)) : Mono t y s (hbNxtRead s t y) := by
  refine ⟨rfl, ?_, fun _ _ => Nat.le_refl _, fun _ => Nat.le_refl _, fun x hx => ⟨?_, rfl⟩, fun h' => ⟨?_, h'.2⟩,
    id, id, id⟩
  · simp [hbNxtRead, (norace_of_le h.1).2]
  · simp [hbNxtRead, Clock.upd_other _ _ hx]
  · simp only [hbNxtRead, Clock.upd_same]; exact le_read t h'.1

theorem mono_nxtWrite (s : St) (t y : Nat) (h : NodeLe s y (s.clk t)) : Mono t y s (hbNxtWrite s t y) := by
  refine ⟨rfl, ?_, fun _ _ => Nat.le_refl _, fun _ => Nat.le_refl _, fun x hx => ⟨?_, rfl⟩, fun h' => ⟨?_, h'.2⟩,
    id, id, id⟩
  · simp [hbNxtWrite, (norace_of_le h.1).1]
  · simp [hbNxtWrite, Clock.upd_other _ _ hx]
  · simp only [hbNxtWrite, Clock.upd_same]; exact le_write _ _ t

theorem mono_hndRead (s : St) (t y : Nat) (h : NodeLe s y (s.clk t)) : Mono t y s (hbHndRead s t y) := by
  refine ⟨rfl, ?_, fun _ _ => Nat.le_refl _, fun _ => Nat.le_refl _, fun x hx => ⟨rfl, ?_⟩, fun h' => ⟨h'.1, ?_⟩,
    id, id, id⟩
  · simp [hbHndRead, (norace_of_le h.2).2]
  · simp [hbHndRead, Clock.upd_other _ _ hx]
  · simp only [hbHndRead, Clock.upd_same]; exact le_read t h'.2

theorem mono_hndWrite (s : St) (t y : Nat) (h : NodeLe s y (s.clk t)) : Mono t y s (hbHndWrite s t y) := by
  refine ⟨rfl, ?_, fun _ _ => Nat.le_refl _, fun _ => Nat.le_refl _, fun x hx => ⟨rfl, ?_⟩, fun h' => ⟨h'.1, ?_⟩,
    id, id, id⟩
  · simp [hbHndWrite, (norace_of_le h.2).1]
  · simp [hbHndWrite, Clock.upd_other _ _ hx]
  · simp only [hbHndWrite, Clock.upd_same]; exact le_write _ _ t

/-! accesses of the collector's thread to `_cur_val`, the value, `_value_storage` -/

theorem mono_curRead (s : St) (y : Nat) (h : ColOk s) : Mono 0 y s (hbCurRead s 0) := by
  refine ⟨rfl, ?_, fun _ _ => Nat.le_refl _, fun _ => Nat.le_refl _, fun _ _ => ⟨rfl, rfl⟩, id,
    fun h' => ⟨ChainClock.FT.own_read h'.1 (Nat.le_refl _), h'.2.1, h'.2.2⟩, id, id⟩
  simp [hbCurRead, (norace_of_own h.1).2]

theorem mono_valRead (s : St) (y : Nat) (h : ColOk s) : Mono 0 y s (hbValRead s 0) := by
  refine ⟨rfl, ?_, fun _ _ => Nat.le_refl _, fun _ => Nat.le_refl _, fun _ _ => ⟨rfl, rfl⟩, id,
    fun h' => ⟨h'.1, ChainClock.FT.own_read h'.2.1 (Nat.le_refl _), h'.2.2⟩, id, id⟩
  simp [hbValRead, (norace_of_own h.2.1).2]

theorem mono_curWrite (s : St) (y : Nat) (h : ColOk s) (hp : 1 ≤ s.clk 0 0) : Mono 0 y s (hbCurWrite s 0) := by
  refine ⟨rfl, ?_, fun _ _ => Nat.le_refl _, fun _ => Nat.le_refl _, fun _ _ => ⟨rfl, rfl⟩, id,
    fun h' => ⟨ChainClock.FT.own_write s.cur (x := 0) (c := s.clk 0) (Nat.le_refl _), h'.2.1, h'.2.2⟩, fun _ => hp, id⟩
  simp [hbCurWrite, (norace_of_own h.1).1]

theorem mono_valWrite (s : St) (y : Nat) (h : ColOk s) (hp : 1 ≤ s.clk 0 0) : Mono 0 y s (hbValWrite s 0) := by
  refine ⟨rfl, ?_, fun _ _ => Nat.le_refl _, fun _ => Nat.le_refl _, fun _ _ => ⟨rfl, rfl⟩, id,
    fun h' => ⟨h'.1, ChainClock.FT.own_write s.val (x := 0) (c := s.clk 0) (Nat.le_refl _), h'.2.2⟩, id, fun _ => hp⟩
  simp [hbValWrite, (norace_of_own h.2.1).1]

theorem mono_storWrite (s : St) (y : Nat) (h : ColOk s) : Mono 0 y s (hbStorWrite s 0) := by
  refine ⟨rfl, ?_, fun _ _ => Nat.le_refl _, fun _ => Nat.le_refl _, fun _ _ => ⟨rfl, rfl⟩, id,
    fun h' => ⟨h'.1, h'.2.1, ChainClock.FT.own_write s.stor (x := 0) (c := s.clk 0) (Nat.le_refl _)⟩, id, id⟩
  simp [hbStorWrite, (norace_of_own h.2.2).1]

/-! ### composite pieces -/

theorem mono_nodeInit (s : St) (t y : Nat) (h : NodeLe s y (s.clk t)) : Mono t y s (hbNodeInit s t y) :=
  (mono_nxtWrite s t y h).trans (mono_hndWrite _ t y ((mono_nxtWrite s t y h).node h))

theorem mono_walkNode (s : St) (t y : Nat) (h : NodeLe s y (s.clk t)) : Mono t y s (hbWalkNode s t y) := by
  have m1 := mono_nxtRead s t y h
  have m2 := mono_nxtWrite _ t y (m1.node h)
  have m3 := mono_hndRead _ t y (m2.node (m1.node h))
  exact (m1.trans m2).trans m3

theorem mono_resume (s : St) (y : Nat) (h : ColOk s) : Mono 0 y s (hbResume s 0) := by
  unfold hbResume
  split
  · exact (mono_curRead s y h).trans (mono_valRead _ y ((mono_curRead s y h).col h))
  · exact Mono.refl 0 y s

theorem mono_try (o : SignalOrders) (s : St) (t y ch : Nat) (h : NodeLe s y (s.clk t)) : Mono t y s (hbTry o s t y ch) := by
  have m1 := mono_nxtRead s t y h
  unfold hbTry
  split
  · exact m1.trans (mono_casOk o _ t y)
  · have m2 := mono_casFail o (hbNxtRead s t y) t y
    exact (m1.trans m2).trans (mono_nxtWrite _ t y (m2.node (m1.node h)))

/-- a successful try publishes the node: everything its owner did to it is below the chain's release-sequence clock -/
theorem try_pub (o : SignalOrders) (ho : o.casSucc.isRel = true) (s : St) (t y : Nat) (h : NodeLe s y (s.clk t)) :
    NodeLe (hbTry o s t y 0) y (hbTry o s t y 0).chainRs := by
  have h1 : NodeLe (hbCasOk o (hbNxtRead s t y) t) y ((hbNxtRead s t y).clk t) := (mono_nxtRead s t y h).node h
  simp only [hbTry, if_pos]
  exact h1.mono (casOk_pub o ho _ t)

/-! ### the invariant -/

/-- Ownership of every plain location.  `_cur_val`, the value and `_value_storage` belong to thread 0 (`col`; a real write once a call is
under way: `real`).  A node is owned by its emitter's own thread while the emitter is not subscribed (`nodeP`), by the chain while it is
in the chain — every epoch below the release-sequence clock an acquiring exchange obtains (`nodeC`) —, by thread 0 while the walker / the
suspend point / a listener running inside the call holds it (`nodeH`).  `cnt`: chain and held nodes are duplicate free, disjoint, and
exactly those emitters are `sub` (so the three owners exclude one another). -/
structure Inv (s : St) : Prop where
  nr : s.raced = false
  col : ColOk s
  pos : 1 ≤ s.clk 0 0
  nodeC : ∀ x ∈ s.base.chain, NodeLe s x s.chainRs
  nodeH : ∀ x ∈ held s.base.cpc, NodeLe s x (s.clk 0)
  nodeP : ∀ x, (s.base.epc x = EPc.idle ∨ s.base.epc x = EPc.cas) → NodeLe s x (s.clk x)
  cnt : ∀ x, s.base.chain.count x + (held s.base.cpc).count x ≤ if s.base.epc x = EPc.sub then 1 else 0
  real : s.base.cpc ≠ CPc.idle → 1 ≤ s.cur.wr.2 ∧ (s.base.alive = true → 1 ≤ s.val.wr.2)

theorem inv_init : Inv init := by
  refine ⟨rfl, ?_, ?_, ?_, ?_, ?_, ?_, ?_⟩ <;>
    simp [init, Base.init, ColOk, NodeLe, ChainClock.FT.own, ChainClock.FT.le, ChainClock.FT.init, held, Clock.VC.init, Clock.upd_apply]

theorem Mono.keep {t y : Nat} {s s' : St} (m : Mono t y s s') {x : Nat} (hx : x ≠ y) {v v' : VC} (h : NodeLe s x v)
    (hv : ∀ i, v i ≤ v' i) : NodeLe s' x v' := by
  unfold NodeLe at *
  rw [(m.other x hx).1, (m.other x hx).2]
  exact ⟨ChainClock.FT.le_mono h.1 hv, ChainClock.FT.le_mono h.2 hv⟩

/-- the frame lemma -/
theorem inv_frame {t y : Nat} {s s' : St} (h : Inv s) (m : Mono t y s s') (b' : Base)
    (hcnt : ∀ x, b'.chain.count x + (held b'.cpc).count x ≤ if b'.epc x = EPc.sub then 1 else 0)
    (hC : ∀ x ∈ b'.chain, (x ≠ y ∧ x ∈ s.base.chain) ∨ NodeLe s' x s'.chainRs)
    (hH : ∀ x ∈ held b'.cpc, (x ≠ y ∧ x ∈ held s.base.cpc) ∨ NodeLe s' x (s'.clk 0))
    (hP : ∀ x, (b'.epc x = EPc.idle ∨ b'.epc x = EPc.cas) →
      (x ≠ y ∧ (s.base.epc x = EPc.idle ∨ s.base.epc x = EPc.cas)) ∨ NodeLe s' x (s'.clk x))
    (hreal : b'.cpc ≠ CPc.idle → (s.base.cpc ≠ CPc.idle ∧ (b'.alive = true → s.base.alive = true)) ∨
      (1 ≤ s'.cur.wr.2 ∧ (b'.alive = true → 1 ≤ s'.val.wr.2))) :
    Inv (setBase s' b') := by
  refine ⟨m.raced.trans h.nr, m.col h.col, Nat.le_trans h.pos (m.clk 0 0), ?_, ?_, ?_, hcnt, ?_⟩
  · intro x hx
    rcases hC x hx with ⟨h1, h2⟩ | h1
    · exact m.keep h1 (h.nodeC x h2) m.rs
    · exact h1
  · intro x hx
    rcases hH x hx with ⟨h1, h2⟩ | h1
    · exact m.keep h1 (h.nodeH x h2) (m.clk 0)
    · exact h1
  · intro x hx
    rcases hP x hx with ⟨h1, h2⟩ | h1
    · exact m.keep h1 (h.nodeP x h2) (m.clk x)
    · exact h1
  · intro hne
    rcases hreal hne with ⟨h1, h2⟩ | h1
    · exact ⟨m.realC (h.real h1).1, fun ha => m.realV ((h.real h1).2 (h2 ha))⟩
    · exact h1

/-! ### the shapes of base transitions -/

theorem not_mem_of_priv {s : St} (h : Inv s) {x : Nat} (hp : s.base.epc x = EPc.idle ∨ s.base.epc x = EPc.cas) :
    x ∉ s.base.chain ∧ x ∉ held s.base.cpc := by
  have hx := h.cnt x
  have hns : ¬ s.base.epc x = EPc.sub := by rcases hp with hp | hp <;> simp [hp]
  rw [if_neg hns] at hx
  exact ⟨List.count_eq_zero.mp (by omega), List.count_eq_zero.mp (by omega)⟩

/-- an emitter on its own thread publishes its node -/
theorem inv_own_push {s s' : St} {x : Nat} (h : Inv s) (m : Mono x x s s') (b' : Base)
    (hpriv : s.base.epc x = EPc.idle ∨ s.base.epc x = EPc.cas)
    (hchain : b'.chain = x :: s.base.chain) (hepc : b'.epc = Clock.upd s.base.epc x EPc.sub)
    (hcpc : b'.cpc = s.base.cpc) (hal : b'.alive = s.base.alive)
    (hpub : NodeLe s' x s'.chainRs) : Inv (setBase s' b') := by
  obtain ⟨hx1, hx2⟩ := not_mem_of_priv h hpriv
  apply inv_frame h m b'
  · intro z
    have hz := h.cnt z
    rw [hchain, hepc, hcpc, List.count_cons, Clock.upd_apply]
    by_cases hzx : z = x
    · subst hzx
      rw [List.count_eq_zero.mpr hx1, List.count_eq_zero.mpr hx2]; simp
    · have hb : (x == z) = false := by simp [Ne.symm hzx]
      simp only [hb, if_neg hzx]; simpa using hz
  · intro z hz
    rw [hchain] at hz
    by_cases hzx : z = x
    · subst hzx; exact Or.inr hpub
    · exact Or.inl ⟨hzx, by simpa [hzx] using hz⟩
  · intro z hz
    rw [hcpc] at hz
    by_cases hzx : z = x
    · subst hzx; exact absurd hz hx2
    · exact Or.inl ⟨hzx, hz⟩
  · intro z hz
    rw [hepc, Clock.upd_apply] at hz
    by_cases hzx : z = x
    · subst hzx; simp at hz
    · exact Or.inl ⟨hzx, by simpa [hzx] using hz⟩
  · intro hne; rw [hcpc] at hne; exact Or.inl ⟨hne, by rw [hal]; exact id⟩

/-- an emitter on its own thread changes its pc without subscribing (failed try, state gone) -/
theorem inv_own_stay {s s' : St} {x : Nat} (h : Inv s) (m : Mono x x s s') (b' : Base) (p : EPc)
    (hpriv : s.base.epc x = EPc.idle ∨ s.base.epc x = EPc.cas) (_hp : p ≠ EPc.sub)
    (hchain : b'.chain = s.base.chain) (hepc : b'.epc = Clock.upd s.base.epc x p)
    (hcpc : b'.cpc = s.base.cpc) (hal : b'.alive = s.base.alive) : Inv (setBase s' b') := by
  obtain ⟨hx1, hx2⟩ := not_mem_of_priv h hpriv
  apply inv_frame h m b'
  · intro z
    have hz := h.cnt z
    rw [hchain, hepc, hcpc, Clock.upd_apply]
    by_cases hzx : z = x
    · subst hzx
      rw [List.count_eq_zero.mpr hx1, List.count_eq_zero.mpr hx2]; simp
    · simpa [hzx] using hz
  · intro z hz
    rw [hchain] at hz
    by_cases hzx : z = x
    · subst hzx; exact absurd hz hx1
    · exact Or.inl ⟨hzx, hz⟩
  · intro z hz
    rw [hcpc] at hz
    by_cases hzx : z = x
    · subst hzx; exact absurd hz hx2
    · exact Or.inl ⟨hzx, hz⟩
  · intro z hz
    rw [hepc, Clock.upd_apply] at hz
    by_cases hzx : z = x
    · subst hzx; exact Or.inr (m.node (h.nodeP z hpriv))
    · exact Or.inl ⟨hzx, by simpa [hzx] using hz⟩
  · intro hne; rw [hcpc] at hne; exact Or.inl ⟨hne, by rw [hal]; exact id⟩

/-- facts about a node `y` the collector's thread holds, `p'` being the collector's next pc with `y` taken out -/
theorem held_facts {s : St} (h : Inv s) {y : Nat} {p' : CPc}
    (hheld : ∀ z, (held s.base.cpc).count z = (held p').count z + if z = y then 1 else 0) :
    y ∈ held s.base.cpc ∧ y ∉ s.base.chain ∧ y ∉ held p' ∧ s.base.epc y = EPc.sub ∧ ∀ z ∈ held p', z ∈ held s.base.cpc := by
  have hy := h.cnt y
  have h1 := hheld y
  simp only [if_true] at h1
  have hsub : s.base.epc y = EPc.sub := by
    cases hq : s.base.epc y <;> simp [hq] at hy <;> first | omega | rfl
  rw [if_pos hsub] at hy
  refine ⟨List.count_pos_iff.mp (by omega), List.count_eq_zero.mp (by omega), List.count_eq_zero.mp (by omega), hsub, ?_⟩
  intro z hz
  have := hheld z
  have hz' := List.count_pos_iff.mpr hz
  exact List.count_pos_iff.mp (by omega)

/-- a listener running on the collector's thread re-subscribes: `y` goes from the held nodes into the chain -/
theorem inv_held_push {s s' : St} {y : Nat} (h : Inv s) (m : Mono 0 y s s') (b' : Base) (p' : CPc)
    (hne : s.base.cpc ≠ CPc.idle)
    (hheld : ∀ z, (held s.base.cpc).count z = (held p').count z + if z = y then 1 else 0)
    (hchain : b'.chain = y :: s.base.chain) (hepc : b'.epc = Clock.upd s.base.epc y EPc.sub)
    (hcpc : b'.cpc = p') (hal : b'.alive = s.base.alive)
    (hpub : NodeLe s' y s'.chainRs) : Inv (setBase s' b') := by
  obtain ⟨hy1, hy2, hy3, hy4, hy5⟩ := held_facts h hheld
  apply inv_frame h m b'
  · intro z
    have hz := h.cnt z
    rw [hchain, hepc, hcpc, List.count_cons, Clock.upd_apply]
    rw [hheld z] at hz
    by_cases hzy : z = y
    · subst hzy
      simp only [if_true, BEq.rfl] at hz ⊢
      rw [hy4] at hz; simp only [if_true] at hz; omega
    · have hb : (y == z) = false := by simp [Ne.symm hzy]
      simp only [hb, if_neg hzy] at hz ⊢; simpa using hz
  · intro z hz
    rw [hchain] at hz
    by_cases hzy : z = y
    · subst hzy; exact Or.inr hpub
    · exact Or.inl ⟨hzy, by simpa [hzy] using hz⟩
  · intro z hz
    rw [hcpc] at hz
    by_cases hzy : z = y
    · subst hzy; exact absurd hz hy3
    · exact Or.inl ⟨hzy, hy5 z hz⟩
  · intro z hz
    rw [hepc, Clock.upd_apply] at hz
    by_cases hzy : z = y
    · subst hzy; simp at hz
    · exact Or.inl ⟨hzy, by simpa [hzy] using hz⟩
  · intro _; exact Or.inl ⟨hne, by rw [hal]; exact id⟩

/-- the collector's thread goes on holding `y` (handle moved into the suspend point, failed try) -/
theorem inv_held_keep {s s' : St} {y : Nat} (h : Inv s) (m : Mono 0 y s s') (b' : Base) (p' : CPc)
    (hne : s.base.cpc ≠ CPc.idle) (hy : y ∈ held s.base.cpc)
    (hheld : ∀ z, (held s.base.cpc).count z = (held p').count z)
    (hchain : b'.chain = s.base.chain) (hepc : b'.epc = s.base.epc)
    (hcpc : b'.cpc = p') (hal : b'.alive = s.base.alive) : Inv (setBase s' b') := by
  apply inv_frame h m b'
  · intro z
    have hz := h.cnt z
    rw [hchain, hepc, hcpc, ← hheld z]; exact hz
  · intro z hz
    rw [hchain] at hz
    by_cases hzy : z = y
    · subst hzy
      have := h.cnt z
      have h1 := List.count_pos_iff.mpr hz
      have h2 := List.count_pos_iff.mpr hy
      split at this <;> omega
    · exact Or.inl ⟨hzy, hz⟩
  · intro z hz
    rw [hcpc] at hz
    by_cases hzy : z = y
    · subst hzy; exact Or.inr (m.node (h.nodeH z hy))
    · refine Or.inl ⟨hzy, List.count_pos_iff.mp ?_⟩
      rw [hheld z]; exact List.count_pos_iff.mpr hz
  · intro z hz
    rw [hepc] at hz
    by_cases hzy : z = y
    · subst hzy
      exact absurd hy (not_mem_of_priv h hz).2
    · exact Or.inl ⟨hzy, hz⟩
  · intro _; exact Or.inl ⟨hne, by rw [hal]; exact id⟩

/-- the collector's thread lets go of `y`: the listener ends (`p = done`) or leaves for its own thread (`p = idle`, after a hand-over) -/
theorem inv_held_drop {s s' : St} {y : Nat} (h : Inv s) (m : Mono 0 y s s') (b' : Base) (p' : CPc) (p : EPc)
    (hne : s.base.cpc ≠ CPc.idle) (_hp : p ≠ EPc.sub)
    (hheld : ∀ z, (held s.base.cpc).count z = (held p').count z + if z = y then 1 else 0)
    (hchain : b'.chain = s.base.chain) (hepc : b'.epc = Clock.upd s.base.epc y p)
    (hcpc : b'.cpc = p') (hal : b'.alive = s.base.alive)
    (hown : p = EPc.idle ∨ p = EPc.cas → NodeLe s' y (s'.clk y)) : Inv (setBase s' b') := by
  obtain ⟨hy1, hy2, hy3, hy4, hy5⟩ := held_facts h hheld
  apply inv_frame h m b'
  · intro z
    have hz := h.cnt z
    rw [hchain, hepc, hcpc, Clock.upd_apply]
    rw [hheld z] at hz
    by_cases hzy : z = y
    · subst hzy
      rw [List.count_eq_zero.mpr hy2, List.count_eq_zero.mpr hy3]; simp
    · simp only [if_neg hzy] at hz ⊢; simpa using hz
  · intro z hz
    rw [hchain] at hz
    by_cases hzy : z = y
    · subst hzy; exact absurd hz hy2
    · exact Or.inl ⟨hzy, hz⟩
  · intro z hz
    rw [hcpc] at hz
    by_cases hzy : z = y
    · subst hzy; exact absurd hz hy3
    · exact Or.inl ⟨hzy, hy5 z hz⟩
  · intro z hz
    rw [hepc, Clock.upd_apply] at hz
    by_cases hzy : z = y
    · subst hzy; simp only [if_true] at hz; exact Or.inr (hown hz)
    · exact Or.inl ⟨hzy, by simpa [hzy] using hz⟩
  · intro _; exact Or.inl ⟨hne, by rw [hal]; exact id⟩

/-- a step of the collector's thread that touches no node (the call's prologue and exchange, the end of the call / of `~state`) -/
theorem inv_nonode {s s' : St} (h : Inv s) (m : ∀ y, Mono 0 y s s') (b' : Base)
    (hcnt : ∀ x, b'.chain.count x + (held b'.cpc).count x ≤ if b'.epc x = EPc.sub then 1 else 0)
    (hC : ∀ x ∈ b'.chain, x ∈ s.base.chain)
    (hH : ∀ x ∈ held b'.cpc, x ∈ held s.base.cpc ∨ (x ∈ s.base.chain ∧ ∀ i, s.chainRs i ≤ s'.clk 0 i))
    (hP : ∀ x, (b'.epc x = EPc.idle ∨ b'.epc x = EPc.cas) → (s.base.epc x = EPc.idle ∨ s.base.epc x = EPc.cas))
    (hreal : b'.cpc ≠ CPc.idle → (s.base.cpc ≠ CPc.idle ∧ (b'.alive = true → s.base.alive = true)) ∨
      (1 ≤ s'.cur.wr.2 ∧ (b'.alive = true → 1 ≤ s'.val.wr.2))) :
    Inv (setBase s' b') := by
  have hne : ∀ z : Nat, z ≠ z + 1 := fun z => by omega
  apply inv_frame h (m 0) b' hcnt
  · intro z hz; exact Or.inr ((m (z + 1)).keep (hne z) (h.nodeC z (hC z hz)) (m 0).rs)
  · intro z hz
    rcases hH z hz with h1 | ⟨h1, h2⟩
    · exact Or.inr ((m (z + 1)).keep (hne z) (h.nodeH z h1) ((m 0).clk 0))
    · exact Or.inr ((m (z + 1)).keep (hne z) (h.nodeC z h1) h2)
  · intro z hz; exact Or.inr ((m (z + 1)).keep (hne z) (h.nodeP z (hP z hz)) ((m 0).clk z))
  · exact hreal

/-! ### the steps -/

theorem inv_emitter (o : SignalOrders) (ho : o.casSucc.isRel = true) {s : St} (h : Inv s) (x ch : Nat) :
    Inv (setBase (hEmitter o s x ch) (bEmitter s.base x ch)) := by
  unfold hEmitter bEmitter
  cases hq : s.base.epc x <;> simp only []
  · -- idle
    have hpriv : s.base.epc x = EPc.idle ∨ s.base.epc x = EPc.cas := Or.inl hq
    by_cases hal : s.base.alive = true
    · simp only [hal, if_true]
      have hn := h.nodeP x hpriv
      have m1 := mono_nodeInit s x x hn
      have m2 := mono_try o _ x x ch (m1.node hn)
      by_cases hch : ch = 0
      · subst hch
        simp only [if_true]
        exact inv_own_push h (m1.trans m2) _ hpriv rfl rfl rfl rfl (try_pub o ho _ x x (m1.node hn))
      · simp only [if_neg hch]
        exact inv_own_stay h (m1.trans m2) _ EPc.cas hpriv (by simp) rfl rfl rfl rfl
    · simp only [hal]
      exact inv_own_stay h (Mono.refl x x s) _ EPc.done hpriv (by simp) rfl rfl rfl rfl
  · -- cas
    have hpriv : s.base.epc x = EPc.idle ∨ s.base.epc x = EPc.cas := Or.inr hq
    have hn := h.nodeP x hpriv
    have m2 := mono_try o s x x ch hn
    by_cases hch : ch = 0
    · subst hch
      simp only [if_true]
      exact inv_own_push h m2 _ hpriv rfl rfl rfl rfl (try_pub o ho s x x hn)
    · simp only [if_neg hch]
      have : s.base.epc = Clock.upd s.base.epc x EPc.cas := by
        funext z; rw [Clock.upd_apply]; split
        · subst_vars; exact hq
        · rfl
      exact inv_own_stay h m2 _ EPc.cas hpriv (by simp) rfl this rfl rfl
  · exact h
  · exact h

theorem count_cons' (y z : Nat) (l : List Nat) : (y :: l).count z = l.count z + if z = y then 1 else 0 := by
  rw [List.count_cons]
  by_cases h : z = y
  · subst h; simp
  · have : (y == z) = false := by simp [Ne.symm h]
    simp [this, h]

theorem inv_collector (o : SignalOrders) (hr : o.casSucc.isRel = true) (ha : o.xchg.isAcq = true) (c : Cfg) {s : St} (h : Inv s)
    (ch : Nat) : Inv (setBase (hCollector o c s ch) (bCollector c s.base ch)) := by
  unfold hCollector bCollector
  cases hq : s.base.cpc with
  | idle =>
    simp only []
    have hcnt : ∀ (b' : Base), b'.chain = [] → b'.cpc = CPc.walk s.base.chain [] → b'.epc = s.base.epc →
        ∀ x, b'.chain.count x + (held b'.cpc).count x ≤ if b'.epc x = EPc.sub then 1 else 0 := by
      intro b' h1 h2 h3 x
      have hx := h.cnt x
      rw [hq] at hx
      rw [h1, h2, h3]
      simpa [held] using hx
    have hH : ∀ (s' : St), (∀ i, s.chainRs i ≤ s'.clk 0 i) → ∀ x ∈ held (CPc.walk s.base.chain []),
        x ∈ held s.base.cpc ∨ (x ∈ s.base.chain ∧ ∀ i, s.chainRs i ≤ s'.clk 0 i) := by
      intro s' hs x hx
      exact Or.inr ⟨by simpa [held] using hx, hs⟩
    by_cases h0 : ch = 0
    · subst h0
      simp only [if_true, Nat.zero_le]
      have m1 := fun y => mono_storWrite s y h.col
      have m2 := fun y => mono_valWrite (hbStorWrite s 0) y ((m1 y).col h.col) h.pos
      have m3 := fun y => mono_curWrite (hbValWrite (hbStorWrite s 0) 0) y ((m2 y).col ((m1 y).col h.col)) h.pos
      have m4 := fun y => mono_xchg o (hbCurWrite (hbValWrite (hbStorWrite s 0) 0) 0) 0 y
      refine inv_nonode h (fun y => (((m1 y).trans (m2 y)).trans (m3 y)).trans (m4 y)) _ (hcnt _ rfl rfl rfl) ?_
        (hH _ (xchg_acq o ha _ 0)) (fun _ hx => hx) (fun _ => Or.inr ⟨h.pos, fun _ => h.pos⟩)
      intro x hx; cases hx
    · by_cases h1 : ch = 1
      · subst h1
        simp only [if_true, Nat.le_refl, if_neg h0]
        have m2 := fun y => mono_valWrite s y h.col h.pos
        have m3 := fun y => mono_curWrite (hbValWrite s 0) y ((m2 y).col h.col) h.pos
        have m4 := fun y => mono_xchg o (hbCurWrite (hbValWrite s 0) 0) 0 y
        refine inv_nonode h (fun y => ((m2 y).trans (m3 y)).trans (m4 y)) _ (hcnt _ rfl rfl rfl) ?_
          (hH _ (xchg_acq o ha _ 0)) (fun _ hx => hx) (fun _ => Or.inr ⟨h.pos, fun _ => h.pos⟩)
        intro x hx; cases hx
      · have h2 : ¬ ch ≤ 1 := by omega
        simp only [if_neg h0, if_neg h1, if_neg h2]
        by_cases hl : s.base.locked = 0
        · simp only [hl, if_true]
          have m3 := fun y => mono_curWrite s y h.col h.pos
          have m4 := fun y => mono_xchg o (hbCurWrite s 0) 0 y
          refine inv_nonode h (fun y => (m3 y).trans (m4 y)) _ (hcnt _ rfl rfl rfl) ?_
            (hH _ (xchg_acq o ha _ 0)) (fun _ hx => hx) (fun _ => Or.inr ⟨h.pos, fun hx => by cases hx⟩)
          intro x hx; cases hx
        · simp only [if_neg hl]; exact h
  | dead => exact h
  | cas y l ret =>
    simp only []
    have hne : s.base.cpc ≠ CPc.idle := by rw [hq]; simp
    have hy : y ∈ held s.base.cpc := by rw [hq]; simp [held]
    have hn := h.nodeH y hy
    have m := mono_try o s 0 y ch hn
    by_cases h0 : ch = 0
    · subst h0
      simp only [if_true]
      refine inv_held_push h m _ (CPc.walk l ret) hne ?_ rfl rfl rfl rfl (try_pub o hr s 0 y hn)
      intro z; rw [hq]; simp only [held]; exact count_cons' y z _
    · simp only [if_neg h0]
      exact inv_held_keep h m _ (CPc.cas y l ret) hne hy (fun z => by rw [hq]) rfl rfl hq rfl
  | walk l ret =>
    have hne : s.base.cpc ≠ CPc.idle := by rw [hq]; simp
    cases l with
    | cons y l =>
      simp only []
      have hy : y ∈ held s.base.cpc := by rw [hq]; simp [held]
      have hn := h.nodeH y hy
      have hheld : ∀ z, (held s.base.cpc).count z = (held (CPc.walk l ret)).count z + if z = y then 1 else 0 := by
        intro z; rw [hq]; simp only [held, List.cons_append]; exact count_cons' y z _
      have m1 := mono_walkNode s 0 y hn
      by_cases hcb : c.cb y = true
      · simp only [hcb, if_true]
        by_cases hal : s.base.alive = true
        · simp only [hal, if_true]
          have m2 := mono_resume (hbWalkNode s 0 y) y (m1.col h.col)
          have hn2 := (m1.trans m2).node hn
          by_cases h0 : ch = 0
          · subst h0
            simp only [if_true, Nat.zero_le]
            exact inv_held_push h ((m1.trans m2).trans (mono_try o _ 0 y 0 hn2)) _ (CPc.walk l ret) hne hheld rfl rfl rfl rfl
              (try_pub o hr _ 0 y hn2)
          · by_cases h1 : ch = 1
            · subst h1
              simp only [if_true, Nat.le_refl, if_neg h0]
              refine inv_held_keep h ((m1.trans m2).trans (mono_try o _ 0 y 1 hn2)) _ (CPc.cas y l ret) hne hy ?_ rfl rfl rfl rfl
              intro z; rw [hq]; simp [held]
            · have h2 : ¬ ch ≤ 1 := by omega
              simp only [if_neg h0, if_neg h1, if_neg h2]
              exact inv_held_drop h ((m1.trans m2).trans (mono_nodeInit _ 0 y hn2)) _ (CPc.walk l ret) EPc.done hne (by simp) hheld
                rfl rfl rfl rfl (by simp)
        · simp only [hal]
          exact inv_held_drop h (m1.trans (mono_nodeInit _ 0 y (m1.node hn))) _ (CPc.walk l ret) EPc.done hne (by simp) hheld
            rfl rfl rfl rfl (by simp)
      · simp only [hcb]
        refine inv_held_keep h m1 _ (CPc.walk l (ret ++ [y])) hne hy ?_ rfl rfl rfl rfl
        intro z; rw [hq]; simp only [held, List.cons_append, List.count_append, count_cons', List.count_nil]; omega
    | nil =>
      cases ret with
      | nil =>
        simp only []
        have hcnt : ∀ p : CPc, held p = [] →
            ∀ x, (setCpc s.base p).chain.count x + (held (setCpc s.base p).cpc).count x ≤ if (setCpc s.base p).epc x = EPc.sub then 1 else 0 := by
          intro p hp x
          have hx := h.cnt x
          rw [hq] at hx
          show s.base.chain.count x + (held p).count x ≤ if s.base.epc x = EPc.sub then 1 else 0
          rw [hp]
          exact hx
        have hH : ∀ (p : CPc) (s' : St), held p = [] → ∀ x ∈ held (setCpc s.base p).cpc,
            x ∈ held s.base.cpc ∨ (x ∈ s.base.chain ∧ ∀ i, s.chainRs i ≤ s'.clk 0 i) := by
          intro p s' hp x hx
          simp only [setCpc, hp] at hx; cases hx
        by_cases hal : s.base.alive = true
        · simp only [hal, if_true]
          exact inv_nonode h (fun y => Mono.refl 0 y s) _ (hcnt _ rfl) (fun _ hx => hx) (hH _ _ rfl) (fun _ hx => hx)
            (fun _ => Or.inl ⟨hne, fun hx => hx⟩)
        · simp only [hal]
          exact inv_nonode h (fun y => mono_storWrite s y h.col) _ (hcnt _ rfl) (fun _ hx => hx) (hH _ _ rfl) (fun _ hx => hx)
            (fun _ => Or.inl ⟨hne, fun hx => hx⟩)
      | cons y ret =>
        simp only []
        have hy : y ∈ held s.base.cpc := by rw [hq]; simp [held]
        have hn := h.nodeH y hy
        have hheld : ∀ z, (held s.base.cpc).count z = (held (CPc.walk [] ret)).count z + if z = y then 1 else 0 := by
          intro z; rw [hq]; simp only [held, List.nil_append]; exact count_cons' y z _
        by_cases hal : s.base.alive = true
        · simp only [hal, if_true]
          have m2 := mono_resume s y h.col
          have hn2 := m2.node hn
          by_cases h0 : ch = 0
          · subst h0
            simp only [if_true, Nat.zero_le]
            have m3 := mono_hndWrite _ 0 y hn2
            exact inv_held_push h ((m2.trans m3).trans (mono_try o _ 0 y 0 (m3.node hn2))) _ (CPc.walk [] ret) hne hheld rfl rfl rfl rfl
              (try_pub o hr _ 0 y (m3.node hn2))
          · by_cases h1 : ch = 1
            · subst h1
              simp only [if_true, Nat.le_refl, if_neg h0]
              have m3 := mono_hndWrite _ 0 y hn2
              refine inv_held_keep h ((m2.trans m3).trans (mono_try o _ 0 y 1 (m3.node hn2))) _ (CPc.cas y [] ret) hne hy ?_ rfl rfl rfl rfl
              intro z; rw [hq]; simp [held]
            · have h2 : ¬ ch ≤ 1 := by omega
              by_cases h3 : ch = 2
              · subst h3
                simp only [if_neg h0, if_neg h1, if_neg h2, if_true]
                refine inv_held_drop h (m2.trans (mono_hand _ 0 y)) _ (CPc.walk [] ret) EPc.idle hne (by simp) hheld rfl rfl rfl rfl ?_
                intro _
                have hx : NodeLe (hbHand (hbResume s 0) 0 y) y ((hbResume s 0).clk 0) := hn2
                exact hx.mono (hand_le _ 0 y)
              · simp only [if_neg h0, if_neg h1, if_neg h2, if_neg h3]
                exact inv_held_drop h (m2.trans (mono_nodeInit _ 0 y hn2)) _ (CPc.walk [] ret) EPc.done hne (by simp) hheld
                  rfl rfl rfl rfl (by simp)
        · simp only [hal]
          by_cases h3 : ch = 2
          · subst h3
            simp only [if_true]
            refine inv_held_drop h (mono_hand s 0 y) _ (CPc.walk [] ret) EPc.idle hne (by simp) hheld rfl rfl rfl rfl ?_
            intro _
            have hx : NodeLe (hbHand s 0 y) y (s.clk 0) := hn
            exact hx.mono (hand_le _ 0 y)
          · simp only [if_neg h3]
            exact inv_held_drop h (mono_nodeInit s 0 y hn) _ (CPc.walk [] ret) EPc.done hne (by simp) hheld
              rfl rfl rfl rfl (by simp)

theorem inv_step (o : SignalOrders) (hs : o.sufficient = true) (c : Cfg) {s : St} (h : Inv s) (e : Nat × Nat) :
    Inv (step o c s e) := by
  simp only [SignalOrders.sufficient, Bool.and_eq_true] at hs
  unfold step hstep bstep
  split
  · exact inv_collector o hs.1 hs.2 c h e.2
  · exact inv_emitter o hs.1 h e.1 e.2

theorem inv_run (o : SignalOrders) (hs : o.sufficient = true) (c : Cfg) (sched : List (Nat × Nat)) : Inv (run o c sched) := by
  unfold run
  suffices ∀ s, Inv s → Inv (sched.foldl (step o c) s) from this _ inv_init
  induction sched with
  | nil => intro s h; exact h
  | cons e es ih => intro s h; exact ih _ (inv_step o hs c h e)

/-! ### the theorems -/

/-- MAIN THEOREM.  With a releasing subscribe CAS and an acquiring `resume_chain` exchange no plain access of the signal protocol races:
`_cur_val`, `_value_storage`, the emitted value, every awaiter node's `_next` and handle / resume function — for every assignment of
flavours (coroutine / callback) to any number of emitters, any number of collector calls of either kind followed (or not) by the
destruction of the state, late subscribers, failed CAS tries, listeners that re-await at once, leave for another thread and come back, or
end, under every schedule. -/
theorem signal_race_free (o : SignalOrders) (hs : o.sufficient = true) :
    ∀ (c : Cfg) (sched : List (Nat × Nat)), (run o c sched).raced = false :=
  fun c sched => (inv_run o hs c sched).nr

/-- Whoever reads `_cur_val` / the value is thread 0 and has the collector's write in its clock: while a call is under way (the walk, the
flush, a retried subscribe of a resumed listener) and the state is alive, the last write of `_cur_val` and of the value is a real
epoch (`≥ 1`) of thread 0 within thread 0's clock, and every read epoch recorded since is thread 0's. -/
theorem signal_waiter_sees_value (o : SignalOrders) (hs : o.sufficient = true) (c : Cfg) (sched : List (Nat × Nat))
    (hp : (run o c sched).base.cpc ≠ CPc.idle) (hal : (run o c sched).base.alive = true) :
    ((run o c sched).cur.wr.1 = 0 ∧ 1 ≤ (run o c sched).cur.wr.2 ∧ (run o c sched).cur.wr.2 ≤ (run o c sched).clk 0 0)
    ∧ ((run o c sched).val.wr.1 = 0 ∧ 1 ≤ (run o c sched).val.wr.2 ∧ (run o c sched).val.wr.2 ≤ (run o c sched).clk 0 0)
    ∧ (∀ e ∈ (run o c sched).cur.rd ++ (run o c sched).val.rd, e.2 = 0 ∨ (e.1 = 0 ∧ e.2 ≤ (run o c sched).clk 0 0)) := by
  have h := inv_run o hs c sched
  obtain ⟨r1, r2⟩ := h.real hp
  have r2 := r2 hal
  obtain ⟨⟨c1, c2⟩, ⟨v1, v2⟩, _⟩ := h.col
  refine ⟨?_, ?_, ?_⟩
  · rcases c1 with c1 | c1
    · omega
    · exact ⟨c1.1, r1, c1.2⟩
  · rcases v1 with v1 | v1
    · omega
    · exact ⟨v1.1, r2, v1.2⟩
  · intro e he
    rcases List.mem_append.mp he with he | he
    · exact c2 e he
    · exact v2 e he

/-- the three locations of the state are only ever accessed by thread 0 (any reachable state) -/
theorem signal_value_thread0 (o : SignalOrders) (hs : o.sufficient = true) (c : Cfg) (sched : List (Nat × Nat)) :
    (run o c sched).cur.own 0 ((run o c sched).clk 0 0) ∧ (run o c sched).val.own 0 ((run o c sched).clk 0 0)
      ∧ (run o c sched).stor.own 0 ((run o c sched).clk 0 0) :=
  (inv_run o hs c sched).col

/-- the walker (and a listener running inside the call) has every earlier access to a node it holds in its clock; a node in the chain
has all of them below the release-sequence clock of the chain head; an emitter that is not subscribed has them in its own clock -/
theorem signal_node_handed_over (o : SignalOrders) (hs : o.sufficient = true) (c : Cfg) (sched : List (Nat × Nat)) :
    (∀ y ∈ held (run o c sched).base.cpc, NodeLe (run o c sched) y ((run o c sched).clk 0))
    ∧ (∀ y ∈ (run o c sched).base.chain, NodeLe (run o c sched) y (run o c sched).chainRs)
    ∧ (∀ x, ((run o c sched).base.epc x = EPc.idle ∨ (run o c sched).base.epc x = EPc.cas) →
        NodeLe (run o c sched) x ((run o c sched).clk x)) :=
  ⟨(inv_run o hs c sched).nodeH, (inv_run o hs c sched).nodeC, (inv_run o hs c sched).nodeP⟩

/-- base-level facts that need no order: a node is in the chain or held by the collector's thread at most once, and exactly the
subscribed emitters are -/
theorem signal_chain_wellformed (o : SignalOrders) (hs : o.sufficient = true) (c : Cfg) (sched : List (Nat × Nat)) (x : Nat) :
    (run o c sched).base.chain.count x + (held (run o c sched).base.cpc).count x
      ≤ if (run o c sched).base.epc x = EPc.sub then 1 else 0 :=
  (inv_run o hs c sched).cnt x

/-! ### bridge: erasing the clocks -/

theorem step_base (o : SignalOrders) (c : Cfg) (s : St) (e : Nat × Nat) : (step o c s e).base = bstep c s.base e := rfl

/-- BRIDGE.  Erasing the instrumentation (clocks, release-sequence clock, FastTrack metadata, `raced`) from a run gives the run of the
sequentially consistent base system `brun` on the same schedule: the happens-before state never influences the control flow. -/
theorem base_run (o : SignalOrders) (c : Cfg) (sched : List (Nat × Nat)) : (run o c sched).base = brun c sched := by
  unfold run brun
  suffices ∀ s : St, (sched.foldl (step o c) s).base = sched.foldl (bstep c) s.base from this init
  induction sched with
  | nil => intro s; rfl
  | cons e es ih => intro s; simp only [List.foldl_cons]; rw [ih, step_base]

/-- shape of the base steps on the chain: untouched, one node pushed, or detached as a whole -/
theorem bstep_chain (c : Cfg) (b : Base) (e : Nat × Nat) :
    (bstep c b e).chain = b.chain ∨ (∃ x, (bstep c b e).chain = x :: b.chain) ∨ (bstep c b e).chain = [] := by
  unfold bstep bCollector bEmitter
  repeat' split
  all_goals simp [push, setCpc, setEpc, noteRead]

/-- the chain component of a run of the base system is the chain of a run of `Signal.Pub` (the publication micro-model of `Signal.lean`)
over `cas` / `release` events only — the repaired code's events, no `post` -/
theorem base_refines_pub (c : Cfg) (sched : List (Nat × Nat)) :
    ∃ ops : List Signal.Pub.Op, (Signal.Pub.run ops).chain = (brun c sched).chain ∧ (∀ l, Signal.Pub.Op.post l ∉ ops) := by
  unfold brun Signal.Pub.run
  suffices ∀ (b : Base) (P : Signal.Pub.State), P.chain = b.chain →
      ∃ ops : List Signal.Pub.Op, (ops.foldl Signal.Pub.step P).chain = (sched.foldl (bstep c) b).chain ∧ (∀ l, Signal.Pub.Op.post l ∉ ops) from
    this Base.init {} rfl
  induction sched with
  | nil => intro b P h; exact ⟨[], h, fun _ => by simp⟩
  | cons e es ih =>
    intro b P h
    rcases bstep_chain c b e with h1 | ⟨x, h1⟩ | h1
    · obtain ⟨ops, h2, h3⟩ := ih (bstep c b e) P (by rw [h1]; exact h)
      exact ⟨ops, h2, h3⟩
    · obtain ⟨ops, h2, h3⟩ := ih (bstep c b e) (Signal.Pub.step P (Signal.Pub.Op.cas x)) (by simp [Signal.Pub.step, h, h1])
      exact ⟨Signal.Pub.Op.cas x :: ops, h2, fun l => by simp [h3 l]⟩
    · obtain ⟨ops, h2, h3⟩ := ih (bstep c b e) (Signal.Pub.step P Signal.Pub.Op.release) (by simp [Signal.Pub.step, h1])
      exact ⟨Signal.Pub.Op.release :: ops, h2, fun l => by simp [h3 l]⟩

/-! ### necessity -/

/-- the orders written in `awaiter.h` when this file was written (the obligation on the CURRENT source is `c03_signal_orders_current`
over the extracted table, which does not mention this constant) -/
def srcOrders : SignalOrders := { casSucc := Order.release, casFail := Order.relaxed, xchg := Order.acquire }

theorem srcOrders_sufficient : srcOrders.sufficient = true := by decide

/-- emitters 2 and 4 are `connect`ed callbacks, every other one a coroutine -/
def cfgMix : Cfg := ⟨fun x => x = 2 || x = 4⟩

/-- emitter 1 subscribes on its own thread; the collector emits and walks node 1 -/
def schedOne : List (Nat × Nat) := [(1, 0), (0, 0), (0, 0)]

/-- release → relaxed on the subscribe CAS: the walker's read of `_next` races with the emitter's initialisation of its node -/
theorem signal_needs_release_cas : (run { srcOrders with casSucc := Order.relaxed } cfgMix schedOne).raced = true := by decide
/-- acquire → relaxed on the `resume_chain` exchange: same race -/
theorem signal_needs_acquire_xchg : (run { srcOrders with xchg := Order.relaxed } cfgMix schedOne).raced = true := by decide
/-- … and under the source's orders the same schedule does not race; the CAS failure order is free -/
theorem signal_one_ok : (run srcOrders cfgMix schedOne).raced = false
    ∧ (run { srcOrders with casFail := Order.acquire } cfgMix schedOne).raced = false := by decide

/-- every order table that is not sufficient has a racing execution -/
theorem signal_orders_necessary (o : SignalOrders) (h : o.sufficient = false) :
    ∃ (c : Cfg) (sched : List (Nat × Nat)), (run o c sched).raced = true := by
  refine ⟨cfgMix, schedOne, ?_⟩
  obtain ⟨a, b, x⟩ := o
  cases a <;> cases x <;> first | (simp [SignalOrders.sufficient, Order.isRel, Order.isAcq] at h; done) | (cases b <;> rfl)

/-- `sufficient` is exactly what race freedom of the signal protocol needs -/
theorem signal_race_free_iff (o : SignalOrders) :
    (∀ (c : Cfg) (sched : List (Nat × Nat)), (run o c sched).raced = false) ↔ o.sufficient = true := by
  constructor
  · intro h
    cases hs : o.sufficient with
    | true => rfl
    | false => obtain ⟨c, sched, hx⟩ := signal_orders_necessary o hs; rw [h c sched] at hx; cases hx
  · exact signal_race_free o

/-! ### non-vacuity -/

/-- Emitters 1, 3 (coroutines), 2 (callback) subscribe from their own threads, 2 after a failed try.  Call 1 (by value): callback 2 reads and
re-subscribes inside the walk; the LATE callback 4 subscribes from its thread while the walk is under way; coroutines 3 and 1 are
flushed: 3 reads, fails a try, retries, re-subscribes on thread 0; 1 reads and leaves for its own thread (hand-over), from where it
subscribes again.  Call 2 (lvalue): 1 and 3 go to the suspend point, callback 4 reads and stays, callback 2 reads and answers false; 1
re-awaits at once, 3 ends.  Then `~state`: coroutine 1 gets the cancellation, callback 4 deletes itself. -/
def schedMany : List (Nat × Nat) :=
  [(1, 0), (2, 1), (3, 0), (2, 0),            -- chain = [2, 3, 1]
   (0, 0),                                    -- call 1 by value: writes, exchange
   (0, 0),                                    -- walk 2 (callback): reads, re-subscribes
   (4, 0),                                    -- late subscriber
   (0, 0), (0, 0),                            -- walk 3, 1: handles into the suspend point
   (0, 1), (0, 0),                            -- flush 3: reads, CAS fails, retry succeeds
   (0, 2),                                    -- flush 1: reads, leaves the collector's thread
   (0, 0),                                    -- call returns
   (1, 0),                                    -- 1 subscribes again from its own thread
   (0, 1),                                    -- call 2 with an lvalue
   (0, 0), (0, 0), (0, 0), (0, 2),            -- walk 1, 3, 4 (reads, stays), 2 (reads, answers false)
   (0, 0), (0, 3),                            -- flush 1 (re-awaits), 3 (ends)
   (0, 0),                                    -- call returns
   (0, 2),                                    -- ~state
   (0, 0), (0, 0), (0, 0), (0, 0)]            -- walk 1, 4; flush 1; members destroyed

example : (run srcOrders cfgMix schedMany).raced = false
    ∧ (run srcOrders cfgMix schedMany).base.cpc = CPc.dead
    ∧ (run srcOrders cfgMix schedMany).base.emitted = 2
    ∧ (run srcOrders cfgMix schedMany).base.reads = [(3, 2), (1, 2), (2, 2), (4, 2), (1, 1), (3, 1), (2, 1)]
    ∧ [1, 2, 3, 4].map (run srcOrders cfgMix schedMany).base.epc = [EPc.done, EPc.done, EPc.done, EPc.done]
    ∧ (run srcOrders cfgMix schedMany).val.rd.length = 4 ∧ (run srcOrders cfgMix schedMany).val.wr.1 = 0
    ∧ ((run srcOrders cfgMix schedMany).nxt 1).wr.1 = 0 := by decide

/-- the same run with the subscribe CAS relaxed, and with the exchange relaxed, races -/
example : (run { srcOrders with casSucc := Order.relaxed } cfgMix schedMany).raced = true
    ∧ (run { srcOrders with xchg := Order.relaxed } cfgMix schedMany).raced = true := by decide

/-! ### the value needs NO memory order at all

`racedV` is set by an unordered access to `_cur_val`, the value or `_value_storage` only.  It stays `false` for EVERY order table — all
three sites relaxed included: these locations are accessed by the collector's thread alone, so program order is all there is to it. -/

structure CInv (s : St) : Prop where
  nv : s.racedV = false
  col : ColOk s

theorem cinv_of {s s' : St} (h : CInv s) (hr : s'.racedV = s.racedV) (hc : s'.cur = s.cur) (hv : s'.val = s.val)
    (hs : s'.stor = s.stor) (hk : s.clk 0 0 ≤ s'.clk 0 0) : CInv s' :=
  ⟨hr.trans h.nv, colOk_mono h.col hc hv hs hk⟩

theorem cinv_casOk (o : SignalOrders) (t : Nat) {s : St} (h : CInv s) : CInv (hbCasOk o s t) :=
  cinv_of h rfl rfl rfl rfl ((mono_casOk o s t 0).clk 0 0)
theorem cinv_casFail (o : SignalOrders) (t : Nat) {s : St} (h : CInv s) : CInv (hbCasFail o s t) :=
  cinv_of h rfl rfl rfl rfl ((mono_casFail o s t 0).clk 0 0)
theorem cinv_xchg (o : SignalOrders) (t : Nat) {s : St} (h : CInv s) : CInv (hbXchg o s t) :=
  cinv_of h rfl rfl rfl rfl ((mono_xchg o s t 0).clk 0 0)
theorem cinv_hand (t y : Nat) {s : St} (h : CInv s) : CInv (hbHand s t y) :=
  cinv_of h rfl rfl rfl rfl (hand_clk s t y 0 0)
theorem cinv_nxtRead (t y : Nat) {s : St} (h : CInv s) : CInv (hbNxtRead s t y) := cinv_of h rfl rfl rfl rfl (Nat.le_refl _)
theorem cinv_nxtWrite (t y : Nat) {s : St} (h : CInv s) : CInv (hbNxtWrite s t y) := cinv_of h rfl rfl rfl rfl (Nat.le_refl _)
theorem cinv_hndRead (t y : Nat) {s : St} (h : CInv s) : CInv (hbHndRead s t y) := cinv_of h rfl rfl rfl rfl (Nat.le_refl _)
theorem cinv_hndWrite (t y : Nat) {s : St} (h : CInv s) : CInv (hbHndWrite s t y) := cinv_of h rfl rfl rfl rfl (Nat.le_refl _)

theorem cinv_curRead {s : St} (h : CInv s) : CInv (hbCurRead s 0) :=
  ⟨by simp [hbCurRead, h.nv, (norace_of_own h.col.1).2], ((mono_curRead s 0 h.col).col h.col)⟩
theorem cinv_valRead {s : St} (h : CInv s) : CInv (hbValRead s 0) :=
  ⟨by simp [hbValRead, h.nv, (norace_of_own h.col.2.1).2], ((mono_valRead s 0 h.col).col h.col)⟩
theorem cinv_storWrite {s : St} (h : CInv s) : CInv (hbStorWrite s 0) :=
  ⟨by simp [hbStorWrite, h.nv, (norace_of_own h.col.2.2).1], ((mono_storWrite s 0 h.col).col h.col)⟩
theorem cinv_curWrite {s : St} (h : CInv s) : CInv (hbCurWrite s 0) :=
  ⟨by simp [hbCurWrite, h.nv, (norace_of_own h.col.1).1],
    ⟨ChainClock.FT.own_write s.cur (x := 0) (c := s.clk 0) (Nat.le_refl _), h.col.2.1, h.col.2.2⟩⟩
theorem cinv_valWrite {s : St} (h : CInv s) : CInv (hbValWrite s 0) :=
  ⟨by simp [hbValWrite, h.nv, (norace_of_own h.col.2.1).1],
    ⟨h.col.1, ChainClock.FT.own_write s.val (x := 0) (c := s.clk 0) (Nat.le_refl _), h.col.2.2⟩⟩

theorem cinv_try (o : SignalOrders) (t y ch : Nat) {s : St} (h : CInv s) : CInv (hbTry o s t y ch) := by
  unfold hbTry
  split
  · exact cinv_casOk o t (cinv_nxtRead t y h)
  · exact cinv_nxtWrite t y (cinv_casFail o t (cinv_nxtRead t y h))
theorem cinv_nodeInit (t y : Nat) {s : St} (h : CInv s) : CInv (hbNodeInit s t y) := cinv_hndWrite t y (cinv_nxtWrite t y h)
theorem cinv_walkNode (t y : Nat) {s : St} (h : CInv s) : CInv (hbWalkNode s t y) :=
  cinv_hndRead t y (cinv_nxtWrite t y (cinv_nxtRead t y h))
theorem cinv_resume {s : St} (h : CInv s) : CInv (hbResume s 0) := by
  unfold hbResume
  split
  · exact cinv_valRead (cinv_curRead h)
  · exact h

macro "cinv_close" : tactic => `(tactic|
  repeat (first
    | assumption
    | apply cinv_try | apply cinv_nodeInit | apply cinv_walkNode | apply cinv_resume | apply cinv_xchg | apply cinv_hand
    | apply cinv_curWrite | apply cinv_valWrite | apply cinv_storWrite | apply cinv_hndWrite))

theorem cinv_step (o : SignalOrders) (c : Cfg) {s : St} (h : CInv s) (e : Nat × Nat) : CInv (step o c s e) := by
  have hb : ∀ (s' : St) (b : Base), CInv s' → CInv (setBase s' b) := fun _ _ h' => ⟨h'.nv, h'.col⟩
  unfold step
  apply hb
  unfold hstep
  split
  · unfold hCollector
    repeat' split
    all_goals cinv_close
  · unfold hEmitter
    repeat' split
    all_goals cinv_close

/-- `_cur_val`, `_value_storage` and the emitted value never race — whatever memory orders the subscribe CAS and the `resume_chain`
exchange have (NO hypothesis on `o`): the chain's orders are needed for the nodes only. -/
theorem signal_value_needs_no_order (o : SignalOrders) (c : Cfg) (sched : List (Nat × Nat)) : (run o c sched).racedV = false := by
  unfold run
  suffices ∀ s, CInv s → CInv (sched.foldl (step o c) s) from
    (this _ ⟨rfl, by simp [init, ColOk, ChainClock.FT.own, ChainClock.FT.init]⟩).nv
  induction sched with
  | nil => intro s h; exact h
  | cons e es ih => intro s h; exact ih _ (cinv_step o c h e)

/-- … in particular in the racing witnesses above the race is on a node, not on the value -/
example : (run { srcOrders with casSucc := Order.relaxed, xchg := Order.relaxed } cfgMix schedMany).raced = true
    ∧ (run { srcOrders with casSucc := Order.relaxed, xchg := Order.relaxed } cfgMix schedMany).racedV = false := by decide

end Cocls.SignalClock
