/-
Model of `cocls::generator_aggregator` (generator_aggregator.h) over `n` scripted source generators.

* A source is a script `Nat → Option Act` (finite: ends at the first `none`; infinite: never `none`).  Every act
  ends in a suspension of the source coroutine: `yield v` (suspends at `co_yield`, resumes its caller = the
  `GenCallback`, which pushes itself into the completion queue), `await` (suspends on an asynchronous operation
  that completes later, from any thread: `Op.resolve k`), `throw e` / end of script (suspends at the final
  suspend point, again resuming the `GenCallback`).
* The aggregator coroutine is a small-step machine (`Ag`), one `Op.agg` step per queue lock region, so that the
  completions of asynchronous sources (`Op.resolve`) interleave with it at the granularity of the real code:
  the start-up loop charging source after source, the re-charge of the source whose value was returned last
  (with the argument of the access), `co_await queue.pop()` (parks when the queue is empty, is woken by the next
  push), the `done()` / `value()` examination of the popped source, `co_yield`, the final rethrow of the stored
  exception, and the controller destructor draining the outstanding sources before the frames are destroyed.
* Arguments (`generator<T,Arg>`): a generator carries its argument BY REFERENCE (`promise_type::_arg` is a pointer to the
  caller's object) and hands it out whenever the body asks (`co_yield v` on resumption, `co_yield nullptr` at any time).
  `cell k` is the storage source `k`'s pointer refers to — the `GenCallback`'s own copy `_arg` (since /repo 2ec61ae);
  `aggArg` is the aggregator's block-local `arg` (alive from the resumption of the aggregator to the end of the block
  that charges with it), which is what the pointer referred to before that commit (`lateReadAsIs`).  A source script
  can fetch its argument again after an asynchronous wait (`Act.awaitRead`); what it reads is logged in `late`.
* The controller destructor waits for the outstanding sources with `force_sync()` (since /repo 2010fed), which blocks
  in every context; the destroying context (plain code / a running coroutine, `dcoro`) is recorded only for the as-is
  variant `aggStepAsIs`, where the blocking `wait()` ran into the library's "blocking wait in a coroutine" assertion.
* Ghost fields (`started`, `out`, `calls`, `got`, `late`, `thrown`, `dcur`, `dcoro`, `drained`, `badDestroy`) are never read
  by the control flow; `cell` and `aggArg` are data only (read by `lateRead`, into the ghost log).
-/
namespace Cocls.Agg

inductive Act where
  | yield (v : Nat)
  | await
  | throw (e : Nat)
  | awaitRead          -- like `await`; once the wait is over the body fetches its argument again (`co_yield nullptr`)
  deriving DecidableEq, Repr, Inhabited

/-- what a source left behind when it last resumed its `GenCallback` -/
inductive SRes where
  | none
  | val (v : Nat)      -- suspended at `co_yield v`
  | done               -- returned (`_done = true`)
  | exc (e : Nat)      -- threw (`_exp` set, `_done` false: `value()` rethrows)
  deriving DecidableEq, Repr, Inhabited

/-- where a source is from the aggregator's point of view -/
inductive SSt where
  | fresh      -- not charged yet
  | inflight   -- charged, suspended on an asynchronous operation: will push later
  | queued     -- pushed its callback into the completion queue
  | cur        -- popped; its value is the one the consumer holds; not re-charged yet
  | fin        -- popped, found ended or throwing: counted down, never charged again
  | dropped    -- popped by the controller destructor
  deriving DecidableEq, Repr, Inhabited

inductive Ag where
  | init                          -- at initial_suspend
  | charging (i : Nat) (a : Nat)  -- start-up loop, about to charge source `i` (argument of the first access)
  | recharge (k : Nat) (a : Nat)  -- resumed from `co_yield`, about to charge `k` with the access's argument
  | loop                          -- at `while (cnt)`
  | parkedPop                     -- suspended in `co_await queue.pop()`
  | woken                         -- resumed by a push, the item is at the head of the queue
  | parkedYield (k : Nat)         -- suspended at `co_yield` with the value of source `k`
  | done                          -- at final_suspend, no exception
  | failed (e : Nat)              -- at final_suspend after `rethrow_exception(exp)`
  | draining                      -- frame being destroyed: head of the controller destructor loop
  | drainWait                     -- blocked in `_queue.pop().force_sync()`
  | destroyed
  | aborted                       -- the process died in a library assertion (only reachable with `aggStepAsIs`)
  deriving DecidableEq, Repr, Inhabited

structure Cfg where
  n : Nat
  script : Nat → Nat → Option Act

structure State where
  pc : Nat → Nat := fun _ => 0             -- acts executed by each source
  st : Nat → SSt := fun _ => SSt.fresh
  res : Nat → SRes := fun _ => SRes.none
  q : List Nat := []                       -- completion queue (source indices), oldest first
  ag : Ag := Ag.init
  count : Nat := 0                         -- `cnt._count` (0 before the controller is constructed)
  exp : Option Nat := none                 -- `exp`
  cell : Nat → Option Nat := fun _ => none  -- `GenCallback::_arg` of each source: the object the source's argument pointer refers to
  aggArg : Option Nat := none              -- the aggregator's local `arg`; `none` = not alive (before / after its block)
  -- ghost
  started : Bool := false                  -- the coroutine body has been entered (first access made)
  out : List (Nat × Nat) := []             -- (source, value) handed to the consumer, in order
  calls : List Nat := []                   -- arguments of the accesses that resumed the aggregator, in order
  got : Nat → List Nat := fun _ => []      -- arguments received by each source, in order
  late : Nat → List (Nat × Option Nat) := fun _ => []
                                           -- per source: every fetch of the argument after an await, as (number of arguments
                                           -- received so far, what the reference gave: `none` = a destroyed object)
  thrown : List (Nat × Nat) := []          -- (source, code) caught by the aggregator, in order
  dcur : Option Nat := none                -- the source whose value the consumer held when it destroyed the aggregate
  dcoro : Bool := false                    -- the aggregate was destroyed by a running coroutine (active coroutine queue)
  drained : Nat := 0                       -- pops performed by the controller destructor
  badDestroy : List Nat := []              -- sources whose frame was destroyed while in flight

inductive Op where
  | next (a : Nat)     -- the consumer accesses the aggregate (any style) with argument `a`
  | agg                -- one atomic step of the running aggregator / its destructor
  | resolve (k : Nat)  -- the asynchronous operation source `k` awaits completes
  | destroy (coro : Bool)  -- the consumer destroys the aggregate; `coro`: from inside a running coroutine
  deriving DecidableEq, Repr

def upd {α : Type} (f : Nat → α) (k : Nat) (x : α) : Nat → α := fun j => if j = k then x else f j

@[simp] theorem upd_same {α : Type} (f : Nat → α) (k : Nat) (x : α) : upd f k x k = x := by simp [upd]
@[simp] theorem upd_other {α : Type} (f : Nat → α) (k j : Nat) (x : α) (h : j ≠ k) : upd f k x j = f j := by
  simp [upd, h]

def init : State := {}

/-- the aggregator is running or parked on behalf of an access the consumer is waiting for -/
def waiting (s : State) : Bool :=
  match s.ag with
  | Ag.charging _ _ | Ag.recharge _ _ | Ag.loop | Ag.parkedPop | Ag.woken => true
  | _ => false

/-- the `GenCallback` of source `k` pushes itself (queue lock region); a parked popper is woken -/
def push (s : State) (k : Nat) : State :=
  { s with st := upd s.st k SSt.queued, q := s.q ++ [k],
           ag := match s.ag with
                 | Ag.parkedPop => Ag.woken
                 | Ag.drainWait => Ag.draining
                 | a => a }

/-- source `k` is resumed and runs one act, up to its next suspension -/
def srcRun (c : Cfg) (s : State) (k : Nat) : State :=
  match c.script k (s.pc k) with
  | some (Act.yield v) => push { s with pc := upd s.pc k (s.pc k + 1), res := upd s.res k (SRes.val v) } k
  | some Act.await => { s with pc := upd s.pc k (s.pc k + 1), st := upd s.st k SSt.inflight }
  | some Act.awaitRead => { s with pc := upd s.pc k (s.pc k + 1), st := upd s.st k SSt.inflight }
  | some (Act.throw e) => push { s with pc := upd s.pc k (s.pc k + 1), res := upd s.res k (SRes.exc e) } k
  | none => push { s with res := upd s.res k SRes.done } k

/-- `gcb->charge(arg)`: the source receives the argument and is resumed.  The source runs *synchronously inside
this step*, up to its next suspension: `generator::next_awt::subscribe` does `next_async(awt).resume()` on the source's
handle directly — it does not go through the thread's `coro_queue` — so this is what the code does both when the
consumer is plain code and when the aggregate is accessed from inside a running coroutine (active `coro_queue`).
The `GenCallback` first stores its own copy of the argument (`_arg.emplace(arg)`, replacing the copy of the previous
charge — the source is parked in `co_yield` then and holds no reference) and gives the source a reference to that
copy; the source reads it on resumption (`got`) and may read it again until its next `co_yield` (`lateRead`). -/
def charge (c : Cfg) (s : State) (k a : Nat) : State :=
  srcRun c { s with got := upd s.got k (s.got k ++ [a]), cell := upd s.cell k (some a) } k

/-- leaving the `while (cnt)` loop: rethrow the stored exception or return -/
def finish (s : State) : State :=
  match s.exp with
  | none => { s with ag := Ag.done }
  | some e => { s with ag := Ag.failed e }

/-- the popped callback is examined: `g.done()`, else `co_yield g.value()` (which rethrows a source's exception) -/
def popHandle (s : State) : State :=
  match s.q with
  | [] => s
  | k :: r =>
    match s.res k with
    | SRes.done => { s with q := r, st := upd s.st k SSt.fin, count := s.count - 1, ag := Ag.loop }
    | SRes.exc e => { s with q := r, st := upd s.st k SSt.fin, count := s.count - 1, exp := some e,
                             thrown := s.thrown ++ [(k, e)], ag := Ag.loop }
    | SRes.val v => { s with q := r, st := upd s.st k SSt.cur, out := s.out ++ [(k, v)], ag := Ag.parkedYield k }
    | SRes.none => s   -- unreachable: a queued source has left a result (`Inv2.queued_res`)

def inflightList (s : State) : Nat → List Nat
  | 0 => []
  | n + 1 => inflightList s n ++ (if s.st n = SSt.inflight then [n] else [])

/-- one atomic step of the aggregator coroutine or of its destruction -/
def aggStep (c : Cfg) (s : State) : State :=
  match s.ag with
  | Ag.charging i a =>
      if i < c.n then { charge c s i a with ag := Ag.charging (i + 1) a } else { s with ag := Ag.loop, aggArg := none }
  | Ag.recharge k a => { charge c s k a with ag := Ag.loop, aggArg := none }
  | Ag.loop =>
      if s.count = 0 then finish s
      else match s.q with
        | [] => { s with ag := Ag.parkedPop }
        | _ :: _ => popHandle s
  | Ag.woken => popHandle s
  | Ag.draining =>
      if 1 < s.count then
        match s.q with
        | [] => { s with ag := Ag.drainWait }
        | k :: r => { s with q := r, st := upd s.st k SSt.dropped, count := s.count - 1, drained := s.drained + 1 }
      else { s with ag := Ag.destroyed, badDestroy := inflightList s c.n }
  | _ => s

def stepNext (c : Cfg) (s : State) (a : Nat) : State :=
  match s.ag with
  | Ag.init => { s with ag := Ag.charging 0 a, count := c.n, started := true, calls := [a], aggArg := some a }
  | Ag.parkedYield k => { s with ag := Ag.recharge k a, calls := s.calls ++ [a], aggArg := some a }
  | _ => s

/-- did the act source `k` is suspended in ask for the argument to be fetched again after the wait -/
def rereads (c : Cfg) (s : State) (k : Nat) : Bool :=
  match c.script k (s.pc k - 1) with
  | some Act.awaitRead => true
  | _ => false

/-- the wait of source `k` is over; if its script says so the body fetches its argument again (`co_yield nullptr`
gives `*_arg`): it reads the object its argument pointer refers to, the `GenCallback`'s copy -/
def lateRead (c : Cfg) (s : State) (k : Nat) : State :=
  if rereads c s k then { s with late := upd s.late k (s.late k ++ [((s.got k).length, s.cell k)]) } else s

def stepResolve (c : Cfg) (s : State) (k : Nat) : State :=
  if s.st k = SSt.inflight then srcRun c (lateRead c s k) k else s

def stepDestroy (s : State) (coro : Bool) : State :=
  match s.ag with
  | Ag.parkedYield k => { s with ag := Ag.draining, dcur := some k, dcoro := coro }
  | Ag.init | Ag.done | Ag.failed _ => { s with ag := Ag.draining, dcoro := coro }
  | _ => s

def step (c : Cfg) (s : State) (op : Op) : State :=
  match op with
  | Op.next a => stepNext c s a
  | Op.agg => aggStep c s
  | Op.resolve k => stepResolve c s k
  | Op.destroy coro => stepDestroy s coro

def run (c : Cfg) (s : State) (ops : List Op) : State := ops.foldl (step c) s

/-! ## the code as it was before the repairs (kept for the witness theorems in `Props/C14.lean`) -/

/-- AS-IS before /repo commit 2ec61ae ("generator_aggregator handed its sources a reference to its own short-lived copy
of the argument"): `gcb->charge(arg)` passed the aggregator's block-local `arg` on by reference, so a source fetching
its argument after a wait read THAT object: destroyed at the end of the charging block (`none`), or already holding
the argument of a later access that belongs to another source. -/
def lateReadAsIs (c : Cfg) (s : State) (k : Nat) : State :=
  if rereads c s k then { s with late := upd s.late k (s.late k ++ [((s.got k).length, s.aggArg)]) } else s

def stepResolveAsIs (c : Cfg) (s : State) (k : Nat) : State :=
  if s.st k = SSt.inflight then srcRun c (lateReadAsIs c s k) k else s

/-- AS-IS before /repo commit 2010fed ("destroying a parked generator_aggregator from a coroutine aborted instead of
waiting for in-flight sources"): the controller destructor drained with `_queue.pop().wait()`; when the pop has to
block (empty queue) and the destroying thread runs a coroutine, `wait()` fails its assertion
`!coro_queue::is_active()` and the process aborts instead of waiting. -/
def aggStepAsIs (c : Cfg) (s : State) : State :=
  match s.ag with
  | Ag.draining =>
      if 1 < s.count ∧ s.q = [] ∧ s.dcoro = true then { s with ag := Ag.aborted } else aggStep c s
  | _ => aggStep c s

def stepAsIs (c : Cfg) (s : State) (op : Op) : State :=
  match op with
  | Op.agg => aggStepAsIs c s
  | Op.resolve k => stepResolveAsIs c s k
  | op => step c s op

def runAsIs (c : Cfg) (s : State) (ops : List Op) : State := ops.foldl (stepAsIs c) s

/-- is the aggregator able to take an `agg` step -/
def running (s : State) : Bool :=
  match s.ag with
  | Ag.charging _ _ | Ag.recharge _ _ | Ag.loop | Ag.woken | Ag.draining => true
  | _ => false

/-- run the aggregator until it parks (used by the driver; `fuel` bounds the number of steps) -/
def settle (c : Cfg) (s : State) : Nat → State
  | 0 => s
  | fuel + 1 => if running s then settle c (aggStep c s) fuel else s

end Cocls.Agg
