import CoclsModel.Signal
/-! Invariants of the `signal` model and their preservation (helper lemmas for `Props/C15.lean`). -/
namespace Cocls.Signal
theorem nodup_reverse' {l : List Nat} (h : l.Nodup) : l.reverse.Nodup := by
  unfold List.Nodup at *
  rw [List.pairwise_reverse]
  exact h.imp (fun h => Ne.symm h)

theorem nodup_filter' {l : List Nat} (p : Nat → Bool) (h : l.Nodup) : (l.filter p).Nodup :=
  List.Nodup.sublist List.filter_sublist h

theorem mem_cbsOf {s : State} {l : Nat} : l ∈ cbsOf s ↔ l ∈ s.chain ∧ s.isCb l = true := by
  simp [cbsOf, List.mem_filter]

theorem mem_corosOf {s : State} {l : Nat} : l ∈ corosOf s ↔ l ∈ s.chain ∧ s.isCb l = false := by
  simp [corosOf, List.mem_filter]

/-- specification of a connected callback `c` in state `s` -/
def CbSpec (s : State) (c : Nat) : Prop :=
  (c ∈ s.chain → s.handles ≠ 0 ∧ s.emitted.length - s.subAt c ≤ s.budget c
      ∧ s.left c = s.budget c - (s.emitted.length - s.subAt c)
      ∧ s.got c = (s.emitted.drop (s.subAt c)).map Out.val) ∧
  (c ∉ s.chain → s.got c = ((s.emitted.drop (s.subAt c)).take (s.budget c + 1)).map Out.val ++ [Out.free]
      ∧ (s.handles = 0 ∨ s.budget c + 1 ≤ s.emitted.length - s.subAt c))

structure Inv (s : State) : Prop where
  chain_nodup : s.chain.Nodup
  rel_nodup : s.rel.Nodup
  gated_nodup : s.gated.Nodup
  chain_lt : ∀ l, l ∈ s.chain → l < s.next
  rel_lt : ∀ l, l ∈ s.rel → l < s.next
  gated_lt : ∀ l, l ∈ s.gated → l < s.next
  disj_cr : ∀ l, l ∈ s.chain → l ∉ s.rel
  disj_cg : ∀ l, l ∈ s.chain → l ∉ s.gated
  disj_rg : ∀ l, l ∈ s.rel → l ∉ s.gated
  rel_coro : ∀ l, l ∈ s.rel → s.isCb l = false
  gated_coro : ∀ l, l ∈ s.gated → s.isCb l = false
  gated_impure : ∀ l, l ∈ s.gated → s.pure l = false
  pure_coro : ∀ l, s.pure l = true → s.isCb l = false
  dead_chain : s.handles = 0 → s.chain = []
  dead_cur : s.handles = 0 → s.cur = none
  sub_le : ∀ l, l < s.next → s.subAt l ≤ s.emitted.length
  once : ∀ l, l < s.next → s.isCb l = false →
    (s.got l).length + (if l ∈ s.rel then 1 else 0) = (s.expect l).length
  cb : ∀ c, c < s.next → s.isCb c = true → s.conn c = true → CbSpec s c
  cb0 : ∀ c, c < s.next → s.isCb c = true → s.conn c = false → s.got c = [Out.free]
  chain_conn : ∀ l, l ∈ s.chain → s.conn l = true
  rel_conn : ∀ l, l ∈ s.rel → s.conn l = true

theorem inv_init : Inv init := by
  constructor <;> simp [init]



/-- close a clause that the step did not touch -/
macro "inv_old" h:ident : tactic => `(tactic| first
  | exact Inv.chain_nodup $h | exact Inv.rel_nodup $h | exact Inv.gated_nodup $h | exact Inv.chain_lt $h
  | exact Inv.rel_lt $h | exact Inv.gated_lt $h | exact Inv.disj_cr $h | exact Inv.disj_cg $h | exact Inv.disj_rg $h
  | exact Inv.rel_coro $h | exact Inv.gated_coro $h | exact Inv.gated_impure $h | exact Inv.pure_coro $h
  | exact Inv.dead_chain $h | exact Inv.dead_cur $h | exact Inv.sub_le $h | exact Inv.once $h
  | exact Inv.cb $h | exact Inv.cb0 $h | exact Inv.chain_conn $h | exact Inv.rel_conn $h)

theorem inv_cancelNow {s : State} (h : Inv s) {l : Nat} (hr : l ∉ s.rel) (hk : s.isCb l = false) :
    Inv (cancelNow s l) := by
  unfold cancelNow
  constructor <;> (try dsimp only) <;> (try inv_old h)
  case once =>
    intro l' hl' hk'
    have := h.once l' hl' hk'
    by_cases e : l' = l
    · subst e; simp [hr] at this ⊢; omega
    · simp [upd_other _ _ e]; exact this
  case cb =>
    intro c hc' hk' hcn'
    have e : c ≠ l := by intro e; subst e; simp [hk] at hk'
    have := h.cb c hc' hk' hcn'
    simpa [CbSpec, upd_other _ _ e] using this
  case cb0 =>
    intro c hc' hk' hcn'
    have e : c ≠ l := by intro e; subst e; simp [hk] at hk'
    rw [upd_other _ _ e]; exact h.cb0 c hc' hk' hcn'

theorem inv_reawait {s : State} (h : Inv s) {l : Nat} (hl : l < s.next) (hc : l ∉ s.chain) (hr : l ∉ s.rel)
    (hg : l ∉ s.gated) (hk : s.isCb l = false) (hcn : s.conn l = true) : Inv (reawait s l) := by
  unfold reawait
  by_cases h0 : s.handles = 0
  · rw [if_pos h0]
    exact inv_cancelNow h hr hk
  · rw [if_neg h0]
    constructor <;> (try dsimp only) <;> (try inv_old h)
    case chain_nodup => exact List.nodup_cons.mpr ⟨hc, h.chain_nodup⟩
    case chain_lt =>
      intro l' hl'; rcases List.mem_cons.mp hl' with e | e
      · subst e; exact hl
      · exact h.chain_lt _ e
    case disj_cr =>
      intro l' hl'; rcases List.mem_cons.mp hl' with e | e
      · subst e; exact hr
      · exact h.disj_cr _ e
    case disj_cg =>
      intro l' hl'; rcases List.mem_cons.mp hl' with e | e
      · subst e; exact hg
      · exact h.disj_cg _ e
    case dead_chain => intro hh; exact absurd hh h0
    case cb =>
      intro c hc' hk' hcn'
      have e : c ≠ l := by intro e; subst e; simp [hk] at hk'
      have := h.cb c hc' hk' hcn'
      simpa [CbSpec, e] using this
    case chain_conn =>
      intro l' hl'; rcases List.mem_cons.mp hl' with e | e
      · subst e; exact hcn
      · exact h.chain_conn _ e

theorem inv_await {s : State} (h : Inv s) {l : Nat} (hl : l < s.next) (hc : l ∉ s.chain) (hr : l ∉ s.rel)
    (hg : l ∉ s.gated) (hk : s.isCb l = false) : Inv (await s l) := by
  unfold await
  by_cases hcn : s.conn l = true
  · rw [if_pos hcn]; exact inv_reawait h hl hc hr hg hk hcn
  · rw [if_neg hcn]; exact inv_cancelNow h hr hk

theorem inv_fresh_coro {s : State} (h : Inv s) (sc : List Act) (n : Nat) (pr : Bool) (cn : Bool) :
    Inv (fresh s false sc n pr cn) := by
  unfold fresh
  constructor <;> (try dsimp only) <;> (try inv_old h)
  case chain_lt => intro l hl; have := h.chain_lt l hl; omega
  case rel_lt => intro l hl; have := h.rel_lt l hl; omega
  case gated_lt => intro l hl; have := h.gated_lt l hl; omega
  case rel_coro =>
    intro l hl
    have := h.rel_lt l hl
    rw [upd_other _ _ (by omega)]; exact h.rel_coro l hl
  case gated_coro =>
    intro l hl
    have := h.gated_lt l hl
    rw [upd_other _ _ (by omega)]; exact h.gated_coro l hl
  case gated_impure =>
    intro l hl
    have := h.gated_lt l hl
    rw [upd_other _ _ (by omega)]; exact h.gated_impure l hl
  case pure_coro =>
    intro l hp
    by_cases e : l = s.next
    · subst e; simp
    · rw [upd_other _ _ e] at hp ⊢; exact h.pure_coro l hp
  case sub_le =>
    intro l hl
    by_cases e : l = s.next
    · subst e; simp
    · rw [upd_other _ _ e]; exact h.sub_le l (by omega)
  case once =>
    intro l hl hk
    by_cases e : l = s.next
    · subst e
      have : s.next ∉ s.rel := fun hh => by have := h.rel_lt _ hh; omega
      simp [this]
    · rw [upd_other _ _ e] at hk
      rw [upd_other _ _ e, upd_other _ _ e]
      exact h.once l (by omega) hk
  case cb =>
    intro c hc hk hcn
    have e : c ≠ s.next := by intro e; subst e; simp at hk
    rw [upd_other _ _ e] at hk hcn
    have := h.cb c (by omega) hk hcn
    simpa [CbSpec, upd_other _ _ e] using this
  case cb0 =>
    intro c hc hk hcn
    have e : c ≠ s.next := by intro e; subst e; simp at hk
    rw [upd_other _ _ e] at hk hcn
    rw [upd_other _ _ e]; exact h.cb0 c (by omega) hk hcn
  case chain_conn =>
    intro l hl
    have := h.chain_lt l hl
    rw [upd_other _ _ (by omega)]; exact h.chain_conn l hl
  case rel_conn =>
    intro l hl
    have := h.rel_lt l hl
    rw [upd_other _ _ (by omega)]; exact h.rel_conn l hl

theorem fresh_next_notin {s : State} (h : Inv s) :
    s.next ∉ s.chain ∧ s.next ∉ s.rel ∧ s.next ∉ s.gated :=
  ⟨fun hh => by have := h.chain_lt _ hh; omega, fun hh => by have := h.rel_lt _ hh; omega,
   fun hh => by have := h.gated_lt _ hh; omega⟩

theorem inv_listen {s : State} (h : Inv s) (sc : List Act) : Inv (stepListen s sc).1 := by
  unfold stepListen
  obtain ⟨h1, h2, h3⟩ := fresh_next_notin h
  exact inv_reawait (inv_fresh_coro h sc 0 true true) (by simp [fresh]) (by simpa [fresh] using h1)
    (by simpa [fresh] using h2) (by simpa [fresh] using h3) (by simp [fresh]) (by simp [fresh])

theorem inv_listen0 {s : State} (h : Inv s) (sc : List Act) : Inv (stepListen0 s sc).1 := by
  unfold stepListen0
  obtain ⟨_, h2, _⟩ := fresh_next_notin h
  exact inv_cancelNow (inv_fresh_coro h sc 0 false false) (by simpa [fresh] using h2) (by simp [fresh])

theorem inv_connect {s : State} (h : Inv s) (n : Nat) : Inv (stepConnect s n).1 := by
  unfold stepConnect
  by_cases h0 : s.handles = 0
  · rw [if_pos h0]; exact h
  · rw [if_neg h0]
    obtain ⟨h1, h2, h3⟩ := fresh_next_notin h
    unfold fresh
    constructor <;> (try dsimp only) <;> (try inv_old h)
    case chain_nodup => exact List.nodup_cons.mpr ⟨h1, h.chain_nodup⟩
    case chain_lt =>
      intro l hl; rcases List.mem_cons.mp hl with e | e
      · omega
      · have := h.chain_lt l e; omega
    case rel_lt => intro l hl; have := h.rel_lt l hl; omega
    case gated_lt => intro l hl; have := h.gated_lt l hl; omega
    case disj_cr =>
      intro l hl; rcases List.mem_cons.mp hl with e | e
      · subst e; exact h2
      · exact h.disj_cr l e
    case disj_cg =>
      intro l hl; rcases List.mem_cons.mp hl with e | e
      · subst e; exact h3
      · exact h.disj_cg l e
    case rel_coro =>
      intro l hl
      have := h.rel_lt l hl
      rw [upd_other _ _ (by omega)]; exact h.rel_coro l hl
    case gated_coro =>
      intro l hl
      have := h.gated_lt l hl
      rw [upd_other _ _ (by omega)]; exact h.gated_coro l hl
    case gated_impure =>
      intro l hl
      have := h.gated_lt l hl
      rw [upd_other _ _ (by omega)]; exact h.gated_impure l hl
    case pure_coro =>
      intro l hp
      by_cases e : l = s.next
      · subst e; simp at hp
      · rw [upd_other _ _ e] at hp ⊢; exact h.pure_coro l hp
    case dead_chain => intro hh; exact absurd hh h0
    case sub_le =>
      intro l hl
      by_cases e : l = s.next
      · subst e; simp
      · rw [upd_other _ _ e]; exact h.sub_le l (by omega)
    case once =>
      intro l hl hk
      by_cases e : l = s.next
      · subst e; simp at hk
      · rw [upd_other _ _ e] at hk
        rw [upd_other _ _ e, upd_other _ _ e]
        exact h.once l (by omega) hk
    case cb =>
      intro c hc hk hcn
      by_cases e : c = s.next
      · subst e
        simp [CbSpec, h0]
      · rw [upd_other _ _ e] at hk hcn
        have := h.cb c (by omega) hk hcn
        simpa [CbSpec, upd_other _ _ e, e] using this
    case cb0 =>
      intro c hc hk hcn
      by_cases e : c = s.next
      · subst e; simp at hcn
      · rw [upd_other _ _ e] at hk hcn
        rw [upd_other _ _ e]; exact h.cb0 c (by omega) hk hcn
    case chain_conn =>
      intro l hl; rcases List.mem_cons.mp hl with e | e
      · subst e; simp
      · have := h.chain_lt l e
        rw [upd_other _ _ (by omega)]; exact h.chain_conn l e
    case rel_conn =>
      intro l hl
      have := h.rel_lt l hl
      rw [upd_other _ _ (by omega)]; exact h.rel_conn l hl

theorem inv_connect0 {s : State} (h : Inv s) (n : Nat) : Inv (stepConnect0 s n).1 := by
  unfold stepConnect0 fresh
  constructor <;> (try dsimp only) <;> (try inv_old h)
  case chain_lt => intro l hl; have := h.chain_lt l hl; omega
  case rel_lt => intro l hl; have := h.rel_lt l hl; omega
  case gated_lt => intro l hl; have := h.gated_lt l hl; omega
  case rel_coro =>
    intro l hl
    have := h.rel_lt l hl
    rw [upd_other _ _ (by omega)]; exact h.rel_coro l hl
  case gated_coro =>
    intro l hl
    have := h.gated_lt l hl
    rw [upd_other _ _ (by omega)]; exact h.gated_coro l hl
  case gated_impure =>
    intro l hl
    have := h.gated_lt l hl
    rw [upd_other _ _ (by omega)]; exact h.gated_impure l hl
  case pure_coro =>
    intro l hp
    by_cases e : l = s.next
    · subst e; simp at hp
    · rw [upd_other _ _ e] at hp ⊢; exact h.pure_coro l hp
  case sub_le =>
    intro l hl
    by_cases e : l = s.next
    · subst e; simp
    · rw [upd_other _ _ e]; exact h.sub_le l (by omega)
  case once =>
    intro l hl hk
    by_cases e : l = s.next
    · subst e; simp at hk
    · rw [upd_other _ _ e] at hk
      rw [upd_other _ _ e, upd_other _ _ e, upd_other _ _ e]
      exact h.once l (by omega) hk
  case cb =>
    intro c hc hk hcn
    have e : c ≠ s.next := by intro e; subst e; simp at hcn
    rw [upd_other _ _ e] at hk hcn
    have := h.cb c (by omega) hk hcn
    simpa [CbSpec, upd_other _ _ e] using this
  case cb0 =>
    intro c hc hk hcn
    by_cases e : c = s.next
    · subst e; simp
    · rw [upd_other _ _ e] at hk hcn
      rw [upd_other _ _ e, upd_other _ _ e]; exact h.cb0 c (by omega) hk hcn
  case chain_conn =>
    intro l hl
    have := h.chain_lt l hl
    rw [upd_other _ _ (by omega)]; exact h.chain_conn l hl
  case rel_conn =>
    intro l hl
    have := h.rel_lt l hl
    rw [upd_other _ _ (by omega)]; exact h.rel_conn l hl

theorem inv_add {s : State} (h : Inv s) : Inv (stepAdd s).1 := by
  unfold stepAdd
  by_cases h0 : s.handles = 0
  · rw [if_pos h0]; exact h
  · rw [if_neg h0]
    constructor <;> (try dsimp only) <;> (try inv_old h)
    case dead_chain => intro hh; omega
    case dead_cur => intro hh; omega
    case cb =>
      intro c hc hk hcn
      have := h.cb c hc hk hcn
      unfold CbSpec at this ⊢
      dsimp only
      refine ⟨fun hm => ?_, fun hm => ?_⟩
      · have := this.1 hm; exact ⟨by omega, this.2⟩
      · have := this.2 hm; exact ⟨this.1, this.2.resolve_left h0 |> Or.inr⟩

theorem inv_script {s : State} (h : Inv s) (f : Nat → List Act) : Inv { s with script := f } := by
  constructor <;> (try dsimp only) <;> (try inv_old h)

theorem inv_afterValue {s : State} (h : Inv s) {l : Nat} (hl : l < s.next) (hc : l ∉ s.chain) (hr : l ∉ s.rel)
    (hg : l ∉ s.gated) (hk : s.isCb l = false) : Inv (afterValue s l) := by
  unfold afterValue
  split
  · exact inv_await h hl hc hr hg hk
  · exact inv_await (inv_script h _) hl hc hr hg hk
  · -- gate
    constructor <;> (try dsimp only) <;> (try inv_old h)
    case gated_nodup => exact List.nodup_cons.mpr ⟨hg, h.gated_nodup⟩
    case gated_lt =>
      intro l' hl'; rcases List.mem_cons.mp hl' with e | e
      · subst e; exact hl
      · exact h.gated_lt _ e
    case disj_cg =>
      intro l' hl' hm; rcases List.mem_cons.mp hm with e | e
      · subst e; exact hc hl'
      · exact h.disj_cg _ hl' e
    case disj_rg =>
      intro l' hl' hm; rcases List.mem_cons.mp hm with e | e
      · subst e; exact hr hl'
      · exact h.disj_rg _ hl' e
    case gated_coro =>
      intro l' hl'; rcases List.mem_cons.mp hl' with e | e
      · subst e; exact hk
      · exact h.gated_coro _ e
    case gated_impure =>
      intro l' hl'
      by_cases e : l' = l
      · subst e; simp
      · rw [upd_other _ _ e]; rcases List.mem_cons.mp hl' with e' | e'
        · exact absurd e' e
        · exact h.gated_impure _ e'
    case pure_coro =>
      intro l' hp
      by_cases e : l' = l
      · subst e; exact hk
      · rw [upd_other _ _ e] at hp; exact h.pure_coro l' hp
  · -- exit
    constructor <;> (try dsimp only) <;> (try inv_old h)
    case gated_impure =>
      intro l' hl'
      by_cases e : l' = l
      · subst e; simp
      · rw [upd_other _ _ e]; exact h.gated_impure _ hl'
    case pure_coro =>
      intro l' hp
      by_cases e : l' = l
      · subst e; exact hk
      · rw [upd_other _ _ e] at hp; exact h.pure_coro l' hp

/-- the listener has left the suspend point and observed `o` -/
theorem inv_resumed {s : State} (h : Inv s) {l : Nat} (hl : l ∈ s.rel) (o : Out) :
    Inv { s with rel := s.rel.erase l, got := upd s.got l (s.got l ++ [o]) } := by
  have hme : ∀ l', l' ∈ s.rel.erase l ↔ l' ≠ l ∧ l' ∈ s.rel := fun l' => List.Nodup.mem_erase_iff h.rel_nodup
  constructor <;> (try dsimp only) <;> (try inv_old h)
  case rel_nodup => exact h.rel_nodup.erase l
  case rel_lt => intro l' hl'; exact h.rel_lt _ ((hme l').mp hl').2
  case disj_cr => intro l' hl' hm; exact h.disj_cr _ hl' ((hme l').mp hm).2
  case disj_rg => intro l' hl'; exact h.disj_rg _ ((hme l').mp hl').2
  case rel_coro => intro l' hl'; exact h.rel_coro _ ((hme l').mp hl').2
  case once =>
    intro l' hl' hk'
    have := h.once l' hl' hk'
    by_cases e : l' = l
    · subst e
      have hn : l' ∉ s.rel.erase l' := fun hh => ((hme l').mp hh).1 rfl
      simp [hl] at this
      simp [hn]; omega
    · have hi : l' ∈ s.rel.erase l ↔ l' ∈ s.rel := by simp [hme, e]
      rw [upd_other _ _ e]; simp only [hi]; exact this
  case cb =>
    intro c hc hk' hcn'
    have e : c ≠ l := by intro e; subst e; have := h.rel_coro _ hl; simp [this] at hk'
    have := h.cb c hc hk' hcn'
    simpa [CbSpec, upd_other _ _ e] using this
  case cb0 =>
    intro c hc hk' hcn'
    have e : c ≠ l := by intro e; subst e; have := h.rel_coro _ hl; simp [this] at hk'
    rw [upd_other _ _ e]; exact h.cb0 c hc hk' hcn'
  case rel_conn => intro l' hl'; exact h.rel_conn _ ((hme l').mp hl').2

theorem inv_resume {s : State} (h : Inv s) (l : Nat) : Inv (stepResume s l).1 := by
  unfold stepResume
  by_cases hl : l ∈ s.rel
  · rw [if_pos hl]
    have hme : ∀ l', l' ∈ s.rel.erase l ↔ l' ≠ l ∧ l' ∈ s.rel := fun l' => List.Nodup.mem_erase_iff h.rel_nodup
    split
    · exact inv_afterValue (inv_resumed h hl _) (h.rel_lt _ hl) (fun hc => h.disj_cr _ hc hl)
        (fun hh => ((hme l).mp hh).1 rfl) (h.disj_rg _ hl) (h.rel_coro _ hl)
    · exact inv_afterValue (inv_resumed h hl _) (h.rel_lt _ hl) (fun hc => h.disj_cr _ hc hl)
        (fun hh => ((hme l).mp hh).1 rfl) (h.disj_rg _ hl) (h.rel_coro _ hl)
    · exact inv_resumed h hl _
  · rw [if_neg hl]; exact h

theorem inv_wake {s : State} (h : Inv s) (l : Nat) : Inv (stepWake s l).1 := by
  unfold stepWake
  by_cases hl : l ∈ s.gated
  · rw [if_pos hl]
    have hme : ∀ l', l' ∈ s.gated.erase l ↔ l' ≠ l ∧ l' ∈ s.gated := fun l' => List.Nodup.mem_erase_iff h.gated_nodup
    have h1 : Inv { s with gated := s.gated.erase l } := by
      constructor <;> (try dsimp only) <;> (try inv_old h)
      case gated_nodup => exact h.gated_nodup.erase l
      case gated_lt => intro l' hl'; exact h.gated_lt _ ((hme l').mp hl').2
      case disj_cg => intro l' hl' hm; exact h.disj_cg _ hl' ((hme l').mp hm).2
      case disj_rg => intro l' hl' hm; exact h.disj_rg _ hl' ((hme l').mp hm).2
      case gated_coro => intro l' hl'; exact h.gated_coro _ ((hme l').mp hl').2
      case gated_impure => intro l' hl'; exact h.gated_impure _ ((hme l').mp hl').2
    exact inv_await h1 (h.gated_lt _ hl) (fun hc => h.disj_cg _ hc hl) (fun hr => h.disj_rg _ hr hl)
      (fun hh => ((hme l).mp hh).1 rfl) (h.gated_coro _ hl)
  · rw [if_neg hl]; exact h

theorem inv_assign {s : State} (h : Inv s) (l : Nat) (b : Bool) : Inv (stepAssign s l b).1 := by
  unfold stepAssign
  by_cases hl : l ∈ s.gated
  · rw [if_pos hl]
    have hk := h.gated_coro _ hl
    constructor <;> (try dsimp only) <;> (try inv_old h)
    case cb =>
      intro c hc hk' hcn'
      have e : c ≠ l := by intro e; subst e; simp [hk] at hk'
      rw [upd_other _ _ e] at hcn'
      exact h.cb c hc hk' hcn'
    case cb0 =>
      intro c hc hk' hcn'
      have e : c ≠ l := by intro e; subst e; simp [hk] at hk'
      rw [upd_other _ _ e] at hcn'
      exact h.cb0 c hc hk' hcn'
    case chain_conn =>
      intro l' hl'
      have e : l' ≠ l := by intro e; subst e; exact h.disj_cg _ hl' hl
      rw [upd_other _ _ e]; exact h.chain_conn _ hl'
    case rel_conn =>
      intro l' hl'
      have e : l' ≠ l := by intro e; subst e; exact h.disj_rg _ hl' hl
      rw [upd_other _ _ e]; exact h.rel_conn _ hl'
  · rw [if_neg hl]; exact h

theorem nodup_rel_coros {s : State} (h : Inv s) : (s.rel ++ corosOf s).Nodup := by
  refine List.nodup_append.mpr ⟨h.rel_nodup, nodup_filter' _ h.chain_nodup, ?_⟩
  intro a ha b hb e
  subst e
  exact h.disj_cr _ (mem_corosOf.mp hb).1 ha

theorem mem_rel_coros {s : State} {l : Nat} : l ∈ s.rel ++ corosOf s ↔ l ∈ s.rel ∨ (l ∈ s.chain ∧ s.isCb l = false) := by
  rw [List.mem_append, mem_corosOf]

/-- the counting clause after the whole chain has been released (collector call or destructor) -/
theorem once_release {s : State} (h : Inv s) (o : Out) (l : Nat) (hl : l < s.next) (hk : s.isCb l = false) :
    (s.got l).length + (if l ∈ s.rel ++ corosOf s then 1 else 0)
      = (if l ∈ s.chain then s.expect l ++ [o] else s.expect l).length := by
  have := h.once l hl hk
  by_cases hc : l ∈ s.chain
  · have hr := h.disj_cr _ hc
    have hm : l ∈ s.rel ++ corosOf s := mem_rel_coros.mpr (Or.inr ⟨hc, hk⟩)
    simp only [hr, if_false] at this
    simp only [hm, hc, if_true, List.length_append, List.length_cons, List.length_nil]
    omega
  · have hm : l ∈ s.rel ++ corosOf s ↔ l ∈ s.rel := by
      rw [mem_rel_coros]; constructor
      · rintro (h1 | h1)
        · exact h1
        · exact absurd h1.1 hc
      · exact Or.inl
    simp only [hm, hc, if_false]
    exact this

theorem inv_drop {s : State} (h : Inv s) : Inv (stepDrop s).1 := by
  unfold stepDrop
  by_cases h0 : s.handles = 0
  · rw [if_pos h0]; exact h
  · rw [if_neg h0]
    by_cases h1 : s.handles = 1
    · rw [if_pos h1]
      constructor <;> (try dsimp only) <;> (try inv_old h)
      case chain_nodup => exact List.nodup_nil
      case rel_nodup => exact nodup_rel_coros h
      case chain_lt => intro l hl; cases hl
      case rel_lt =>
        intro l hl; rcases mem_rel_coros.mp hl with e | e
        · exact h.rel_lt _ e
        · exact h.chain_lt _ e.1
      case disj_cr => intro l hl; cases hl
      case disj_cg => intro l hl; cases hl
      case disj_rg =>
        intro l hl; rcases mem_rel_coros.mp hl with e | e
        · exact h.disj_rg _ e
        · exact h.disj_cg _ e.1
      case rel_coro =>
        intro l hl; rcases mem_rel_coros.mp hl with e | e
        · exact h.rel_coro _ e
        · exact e.2
      case dead_chain => intro _; rfl
      case dead_cur => intro _; rfl
      case once =>
        intro l hl hk
        have hn : l ∉ cbsOf s := fun hh => by have := (mem_cbsOf.mp hh).2; simp [hk] at this
        simp only [hn, if_false]
        exact once_release h _ l hl hk
      case cb0 =>
        intro c hc hk hcn
        have hcb : c ∉ cbsOf s := fun hh => by
          have := h.chain_conn c (mem_cbsOf.mp hh).1; rw [hcn] at this; cases this
        simp only [hcb, if_false]
        exact h.cb0 c hc hk hcn
      case chain_conn => intro l hl; cases hl
      case rel_conn =>
        intro l hl; rcases mem_rel_coros.mp hl with e | e
        · exact h.rel_conn _ e
        · exact h.chain_conn _ e.1
      case cb =>
        intro c hc hk hcn
        have old := h.cb c hc hk hcn
        unfold CbSpec at old ⊢
        dsimp only
        refine ⟨fun hm => (by cases hm), fun _ => ⟨?_, Or.inl rfl⟩⟩
        by_cases hm : c ∈ s.chain
        · obtain ⟨_, hle, _, hg⟩ := old.1 hm
          have hcb : c ∈ cbsOf s := mem_cbsOf.mpr ⟨hm, hk⟩
          simp only [hcb, if_true, hg]
          rw [List.take_of_length_le (by simp; omega)]
        · have hcb : c ∉ cbsOf s := fun hh => hm (mem_cbsOf.mp hh).1
          simp only [hcb, if_false]
          exact (old.2 hm).1
    · rw [if_neg h1]
      constructor <;> (try dsimp only) <;> (try inv_old h)
      case dead_chain => intro hh; omega
      case dead_cur => intro hh; omega
      case cb =>
        intro c hc hk hcn
        have := h.cb c hc hk hcn
        unfold CbSpec at this ⊢
        dsimp only
        refine ⟨fun hm => ?_, fun hm => ?_⟩
        · have := this.1 hm; exact ⟨by omega, this.2⟩
        · have := this.2 hm; exact ⟨this.1, this.2.resolve_left h0 |> Or.inr⟩

theorem mem_stay {s : State} {c : Nat} :
    c ∈ ((cbsOf s).filter (fun c => decide (0 < s.left c))).reverse ↔ c ∈ s.chain ∧ s.isCb c = true ∧ 0 < s.left c := by
  simp [mem_cbsOf, and_assoc]

theorem deref_emit (s : State) (byRef : Bool) (v : Nat) :
    deref { s with cur := some (if byRef then Ptr.ext v else Ptr.owned),
                   stored := if byRef then s.stored else some v } = some v := by
  cases byRef <;> simp [deref]

theorem inv_emit {s : State} (h : Inv s) (byRef : Bool) (v : Nat) : Inv (stepEmit s byRef v).1 := by
  unfold stepEmit
  by_cases h0 : s.handles = 0
  · rw [if_pos h0]; exact h
  · rw [if_neg h0]
    constructor <;> (try dsimp only) <;> (try inv_old h)
    case chain_nodup => exact nodup_reverse' (nodup_filter' _ (nodup_filter' _ h.chain_nodup))
    case rel_nodup => exact nodup_rel_coros h
    case chain_lt => intro l hl; exact h.chain_lt _ (mem_stay.mp hl).1
    case rel_lt =>
      intro l hl; rcases mem_rel_coros.mp hl with e | e
      · exact h.rel_lt _ e
      · exact h.chain_lt _ e.1
    case disj_cr =>
      intro l hl hm
      obtain ⟨hc, hk, _⟩ := mem_stay.mp hl
      rcases mem_rel_coros.mp hm with e | e
      · exact h.disj_cr _ hc e
      · rw [hk] at e; exact absurd e.2 (by simp)
    case disj_cg => intro l hl; exact h.disj_cg _ (mem_stay.mp hl).1
    case disj_rg =>
      intro l hl; rcases mem_rel_coros.mp hl with e | e
      · exact h.disj_rg _ e
      · exact h.disj_cg _ e.1
    case rel_coro =>
      intro l hl; rcases mem_rel_coros.mp hl with e | e
      · exact h.rel_coro _ e
      · exact e.2
    case dead_chain => intro hh; exact absurd hh h0
    case dead_cur => intro hh; exact absurd hh h0
    case sub_le => intro l hl; have := h.sub_le l hl; simp; omega
    case once =>
      intro l hl hk
      have hn : l ∉ cbsOf s := fun hh => by have := (mem_cbsOf.mp hh).2; simp [hk] at this
      simp only [hn, if_false]
      exact once_release h _ l hl hk
    case cb =>
      intro c hc hk hcn
      have old := h.cb c hc hk hcn
      have hsub := h.sub_le c hc
      unfold CbSpec at old ⊢
      dsimp only
      rw [mem_stay]
      have hdrop : List.drop (s.subAt c) (s.emitted ++ [v]) = List.drop (s.subAt c) s.emitted ++ [v] :=
        List.drop_append_of_le_length hsub
      by_cases hm : c ∈ s.chain
      · obtain ⟨_, hle, hleft, hg⟩ := old.1 hm
        have hcb : c ∈ cbsOf s := mem_cbsOf.mpr ⟨hm, hk⟩
        simp only [hcb, if_true, hg, hdrop, cbOuts, List.length_append, List.length_cons, List.length_nil]
        by_cases hpos : 0 < s.left c
        · refine ⟨fun _ => ⟨h0, by omega, by omega, ?_⟩, fun hn => absurd ⟨hm, hk, hpos⟩ hn⟩
          simp [hpos]
        · refine ⟨fun hh => absurd hh.2.2 hpos, fun _ => ⟨?_, Or.inr (by omega)⟩⟩
          have hlen : (List.drop (s.subAt c) s.emitted ++ [v]).length ≤ s.budget c + 1 := by
            simp; omega
          rw [List.take_of_length_le hlen]
          simp [hpos]
      · have hcb : c ∉ cbsOf s := fun hh => hm (mem_cbsOf.mp hh).1
        obtain ⟨hg, hfull⟩ := old.2 hm
        have hfull' := hfull.resolve_left h0
        simp only [hcb, if_false, hdrop, List.length_append, List.length_cons, List.length_nil]
        refine ⟨fun hh => absurd hh.1 hm, fun _ => ⟨?_, Or.inr (by omega)⟩⟩
        rw [List.take_append_of_le_length (by simp; omega)]
        exact hg
    case cb0 =>
      intro c hc hk hcn
      have hcb : c ∉ cbsOf s := fun hh => by
        have := h.chain_conn c (mem_cbsOf.mp hh).1; rw [hcn] at this; cases this
      simp only [hcb, if_false]
      exact h.cb0 c hc hk hcn
    case chain_conn => intro l hl; exact h.chain_conn _ (mem_stay.mp hl).1
    case rel_conn =>
      intro l hl; rcases mem_rel_coros.mp hl with e | e
      · exact h.rel_conn _ e
      · exact h.chain_conn _ e.1

/-- a failed by-value collector call touches `_value_storage` only: every clause of the invariant is about other fields -/
theorem inv_emitFail {s : State} (h : Inv s) : Inv (stepEmitFail s).1 := by
  unfold stepEmitFail
  by_cases h0 : s.handles = 0
  · rw [if_pos h0]; exact h
  · rw [if_neg h0]
    constructor <;> (try dsimp only) <;> (try inv_old h)

theorem inv_step {s : State} (h : Inv s) (op : Op) : Inv (step s op).1 := by
  cases op with
  | listen sc => exact inv_listen h sc
  | listen0 sc => exact inv_listen0 h sc
  | connect n => exact inv_connect h n
  | connectL n => exact inv_connect h n
  | connect0 n => exact inv_connect0 h n
  | assign l b => exact inv_assign h l b
  | emit r v => exact inv_emit h r v
  | emitFail => exact inv_emitFail h
  | resume l => exact inv_resume h l
  | wake l => exact inv_wake h l
  | addHandle => exact inv_add h
  | dropHandle => exact inv_drop h

theorem inv_run (s : State) (ops : List Op) (h : Inv s) : Inv (run s ops) := by
  induction ops generalizing s with
  | nil => exact h
  | cons op ops ih => exact ih _ (inv_step h op)

/-! ### Invariants that need the `Flushed` contract -/

/-- `exact`: a coroutine listener has observed exactly what was emitted / cancelled while it was waiting (in order,
each once), except for the one outcome it is about to read; `form`: for a listener that has only ever re-awaited
this is everything emitted since it subscribed -/
structure FEx (s : State) : Prop where
  exact : ∀ l, l < s.next → s.isCb l = false →
    s.expect l = s.got l ++ (if l ∈ s.rel then [readNow s] else [])
  form : ∀ l, l < s.next → s.pure l = true →
    s.expect l = (s.emitted.drop (s.subAt l)).map Out.val ++ (if s.handles = 0 then [Out.canceled] else [])

/-- a listener that has only ever re-awaited is waiting or released as long as the signal is connected -/
def Present (s : State) (l : Nat) : Prop := s.pure l = true → s.handles ≠ 0 → l ∈ s.chain ∨ l ∈ s.rel

structure FInv (s : State) : Prop where
  ex : FEx s
  present : ∀ l, l < s.next → Present s l

theorem finv_init : FInv init := by
  refine ⟨⟨?_, ?_⟩, ?_⟩ <;> simp [init]

theorem fex_cancelNow {s : State} (h : FEx s) {l : Nat} (hr : l ∉ s.rel) (hp : s.pure l = false) :
    FEx (cancelNow s l) := by
  unfold cancelNow
  refine ⟨?_, ?_⟩ <;> dsimp only
  · intro l' hl' hk'
    have := h.exact l' hl' hk'
    by_cases e : l' = l
    · subst e; simp only [hr, if_false, List.append_nil, upd_same] at this ⊢; rw [this]
    · simp only [upd_other _ _ e]; exact this
  · intro l' hl' hp'
    have e : l' ≠ l := by intro e; subst e; rw [hp] at hp'; cases hp'
    simp only [upd_other _ _ e]; exact h.form l' hl' hp'

theorem fex_reawait {s : State} (h : FEx s) {l : Nat} (hr : l ∉ s.rel) (hp : s.handles = 0 → s.pure l = false) :
    FEx (reawait s l) := by
  unfold reawait
  by_cases h0 : s.handles = 0
  · rw [if_pos h0]; exact fex_cancelNow h hr (hp h0)
  · rw [if_neg h0]
    exact ⟨h.exact, h.form⟩

theorem reawait_next (s : State) (l : Nat) : (reawait s l).next = s.next := by
  unfold reawait; split <;> rfl

theorem await_next (s : State) (l : Nat) : (await s l).next = s.next := by
  unfold await; split
  · exact reawait_next s l
  · rfl

theorem present_cancelNow {s : State} {l l' : Nat} (h : Present s l') : Present (cancelNow s l) l' := h

theorem present_reawait_self (s : State) (l : Nat) : Present (reawait s l) l := by
  unfold reawait Present
  by_cases h0 : s.handles = 0
  · rw [if_pos h0]; intro _ hh; exact absurd h0 hh
  · rw [if_neg h0]; intro _ _; exact Or.inl (List.mem_cons_self)

theorem present_reawait_other {s : State} {l l' : Nat} (h : Present s l') : Present (reawait s l) l' := by
  unfold reawait Present at *
  by_cases h0 : s.handles = 0
  · rw [if_pos h0]; exact h
  · rw [if_neg h0]; intro a b; rcases h a b with e | e
    · exact Or.inl (List.mem_cons_of_mem _ e)
    · exact Or.inr e

theorem finv_listen {s : State} (hi : Inv s) (h : FInv s) (sc : List Act) : FInv (stepListen s sc).1 := by
  have hnr : s.next ∉ s.rel := (fresh_next_notin hi).2.1
  unfold stepListen reawait fresh
  by_cases h0 : s.handles = 0
  · rw [if_pos h0]
    refine ⟨⟨?_, ?_⟩, ?_⟩ <;> dsimp only
    · intro l hl hk
      by_cases e : l = s.next
      · subst e; simp [hnr]
      · rw [upd_other _ _ e] at hk
        simp only [upd_other _ _ e]
        exact h.ex.exact l (by omega) hk
    · intro l hl hp
      by_cases e : l = s.next
      · subst e; simp [h0]
      · rw [upd_other _ _ e] at hp
        simp only [upd_other _ _ e]
        exact h.ex.form l (by omega) hp
    · intro l hl hp hh; exact absurd h0 hh
  · rw [if_neg h0]
    refine ⟨⟨?_, ?_⟩, ?_⟩ <;> dsimp only
    · intro l hl hk
      by_cases e : l = s.next
      · subst e; simp [hnr]
      · rw [upd_other _ _ e] at hk
        simp only [upd_other _ _ e]
        exact h.ex.exact l (by omega) hk
    · intro l hl hp
      by_cases e : l = s.next
      · subst e; simp [h0]
      · rw [upd_other _ _ e] at hp
        simp only [upd_other _ _ e]
        exact h.ex.form l (by omega) hp
    · intro l hl
      unfold Present; dsimp only
      by_cases e : l = s.next
      · subst e; intro _ _; exact Or.inl List.mem_cons_self
      · rw [upd_other _ _ e]
        intro a b
        rcases h.present l (by omega) a b with e' | e'
        · exact Or.inl (List.mem_cons_of_mem _ e')
        · exact Or.inr e'

/-- a new listener that is not `pure` (callback, or a coroutine on an unconnected emitter), before it does anything -/
theorem finv_fresh_impure {s : State} (hi : Inv s) (h : FInv s) (cb : Bool) (sc : List Act) (n : Nat) (cn : Bool) :
    FInv (fresh s cb sc n false cn) := by
  have hnr : s.next ∉ s.rel := (fresh_next_notin hi).2.1
  unfold fresh
  refine ⟨⟨?_, ?_⟩, ?_⟩ <;> dsimp only
  · intro l hl hk
    by_cases e : l = s.next
    · subst e; simp [hnr]
    · rw [upd_other _ _ e] at hk
      simp only [upd_other _ _ e]
      exact h.ex.exact l (by omega) hk
  · intro l hl hp
    by_cases e : l = s.next
    · subst e; simp at hp
    · rw [upd_other _ _ e] at hp
      simp only [upd_other _ _ e]
      exact h.ex.form l (by omega) hp
  · intro l hl
    unfold Present; dsimp only
    by_cases e : l = s.next
    · subst e; simp
    · rw [upd_other _ _ e]; exact h.present l (by omega)

theorem finv_listen0 {s : State} (hi : Inv s) (h : FInv s) (sc : List Act) : FInv (stepListen0 s sc).1 := by
  unfold stepListen0
  have hf := finv_fresh_impure hi h false sc 0 false
  have hnr : s.next ∉ (fresh s false sc 0 false false).rel := by simpa [fresh] using (fresh_next_notin hi).2.1
  exact ⟨fex_cancelNow hf.ex hnr (by simp [fresh]), fun l hl => present_cancelNow (hf.present l hl)⟩

theorem finv_connect0 {s : State} (hi : Inv s) (h : FInv s) (n : Nat) : FInv (stepConnect0 s n).1 := by
  unfold stepConnect0
  have hf := finv_fresh_impure hi h true [] n false
  refine ⟨⟨?_, hf.ex.form⟩, hf.present⟩
  intro l hl hk
  have e : l ≠ s.next := by intro e; subst e; simp [fresh] at hk
  have := hf.ex.exact l hl hk
  dsimp only
  rw [upd_other _ _ e]; exact this

theorem finv_assign {s : State} (h : FInv s) (l : Nat) (b : Bool) : FInv (stepAssign s l b).1 := by
  unfold stepAssign
  split
  · exact ⟨⟨h.ex.exact, h.ex.form⟩, h.present⟩
  · exact h

theorem finv_connect {s : State} (h : FInv s) (n : Nat) : FInv (stepConnect s n).1 := by
  unfold stepConnect
  by_cases h0 : s.handles = 0
  · rw [if_pos h0]; exact h
  · rw [if_neg h0]
    unfold fresh
    refine ⟨⟨?_, ?_⟩, ?_⟩ <;> dsimp only
    · intro l hl hk
      by_cases e : l = s.next
      · subst e; simp at hk
      · rw [upd_other _ _ e] at hk
        simp only [upd_other _ _ e]
        exact h.ex.exact l (by omega) hk
    · intro l hl hp
      by_cases e : l = s.next
      · subst e; simp at hp
      · rw [upd_other _ _ e] at hp
        simp only [upd_other _ _ e]
        exact h.ex.form l (by omega) hp
    · intro l hl
      unfold Present; dsimp only
      by_cases e : l = s.next
      · subst e; simp
      · rw [upd_other _ _ e]
        intro a b
        rcases h.present l (by omega) a b with e' | e'
        · exact Or.inl (List.mem_cons_of_mem _ e')
        · exact Or.inr e'

theorem readNow_handles {s : State} {k : Nat} (h0 : s.handles ≠ 0) (hk : k ≠ 0) :
    readNow { s with handles := k } = readNow s := by
  simp [readNow, deref, h0, hk]

theorem finv_handles {s : State} (h : FInv s) {k : Nat} (h0 : s.handles ≠ 0) (hk : k ≠ 0) :
    FInv { s with handles := k } := by
  refine ⟨⟨?_, ?_⟩, ?_⟩ <;> dsimp only
  · intro l hl hc
    rw [readNow_handles h0 hk]; exact h.ex.exact l hl hc
  · intro l hl hp
    have := h.ex.form l hl hp
    simp only [h0, hk, if_false] at this ⊢; exact this
  · intro l hl hp _; exact h.present l hl hp h0

theorem finv_add {s : State} (h : FInv s) : FInv (stepAdd s).1 := by
  unfold stepAdd
  by_cases h0 : s.handles = 0
  · rw [if_pos h0]; exact h
  · rw [if_neg h0]; exact finv_handles h h0 (by omega)

theorem finv_wake {s : State} (hi : Inv s) (h : FInv s) (l : Nat) : FInv (stepWake s l).1 := by
  unfold stepWake
  by_cases hl : l ∈ s.gated
  · rw [if_pos hl]
    have hp := hi.gated_impure _ hl
    have hr : l ∉ s.rel := fun hr => hi.disj_rg _ hr hl
    have h1 : FEx { s with gated := s.gated.erase l } := ⟨h.ex.exact, h.ex.form⟩
    unfold await
    split
    · refine ⟨fex_reawait h1 hr (fun _ => hp), ?_⟩
      intro l' hl'
      rw [reawait_next] at hl'
      exact present_reawait_other (s := { s with gated := s.gated.erase l }) (h.present l' hl')
    · exact ⟨fex_cancelNow h1 hr hp, fun l' hl' => present_cancelNow (s := { s with gated := s.gated.erase l }) (h.present l' hl')⟩
  · rw [if_neg hl]; exact h

theorem fex_resumed {s : State} (hi : Inv s) (h : FEx s) {l : Nat} (hl : l ∈ s.rel) {o : Out} (ho : readNow s = o) :
    FEx { s with rel := s.rel.erase l, got := upd s.got l (s.got l ++ [o]) } := by
  have hme : ∀ l', l' ∈ s.rel.erase l ↔ l' ≠ l ∧ l' ∈ s.rel := fun l' => List.Nodup.mem_erase_iff hi.rel_nodup
  have hrn : readNow { s with rel := s.rel.erase l, got := upd s.got l (s.got l ++ [o]) } = readNow s := rfl
  refine ⟨?_, h.form⟩
  intro l' hl' hk'
  have := h.exact l' hl' hk'
  rw [hrn]
  dsimp only at hl' hk' ⊢
  by_cases e : l' = l
  · subst e
    have hn : l' ∉ s.rel.erase l' := fun hh => ((hme l').mp hh).1 rfl
    simp only [hl, if_true] at this
    simp only [hn, if_false, upd_same, List.append_nil, this, ho]
  · have hi' : l' ∈ s.rel.erase l ↔ l' ∈ s.rel := by simp [hme, e]
    simp only [upd_other _ _ e, hi']; exact this

theorem present_resumed_other {s : State} (hi : Inv s) {l l' : Nat} (e : l' ≠ l) (f : Nat → List Out)
    (h : Present s l') : Present { s with rel := s.rel.erase l, got := f } l' := by
  have hme : ∀ l', l' ∈ s.rel.erase l ↔ l' ≠ l ∧ l' ∈ s.rel := fun l' => List.Nodup.mem_erase_iff hi.rel_nodup
  intro a b
  rcases h a b with e' | e'
  · exact Or.inl e'
  · exact Or.inr ((hme l').mpr ⟨e, e'⟩)

theorem finv_afterValue {s : State} (h : FEx s) {l : Nat} (hr : l ∉ s.rel) (h0 : s.handles ≠ 0) (hcn : s.conn l = true)
    (hp : ∀ l', l' < s.next → l' ≠ l → Present s l') : FInv (afterValue s l) := by
  unfold afterValue
  split
  · have ha : await s l = reawait s l := by unfold await; rw [if_pos hcn]
    rw [ha]
    refine ⟨fex_reawait h hr (fun e => absurd e h0), ?_⟩
    intro l' hl'
    have hl'' : l' < s.next := by unfold reawait at hl'; split at hl' <;> exact hl'
    by_cases e : l' = l
    · subst e; exact present_reawait_self _ _
    · exact present_reawait_other (hp l' hl'' e)
  · rename_i rest _
    have h' : FEx { s with script := upd s.script l rest } := ⟨h.exact, h.form⟩
    have ha : await { s with script := upd s.script l rest } l = reawait { s with script := upd s.script l rest } l := by
      unfold await; rw [if_pos hcn]
    rw [ha]
    refine ⟨fex_reawait h' hr (fun e => absurd e h0), ?_⟩
    intro l' hl'
    have hl'' : l' < s.next := by unfold reawait at hl'; split at hl' <;> exact hl'
    by_cases e : l' = l
    · subst e; exact present_reawait_self _ _
    · exact present_reawait_other (s := { s with script := upd s.script l rest }) (hp l' hl'' e)
  · refine ⟨⟨h.exact, ?_⟩, ?_⟩ <;> dsimp only
    · intro l' hl' hp'
      have e : l' ≠ l := by intro e; subst e; simp at hp'
      rw [upd_other _ _ e] at hp'; exact h.form l' hl' hp'
    · intro l' hl'
      unfold Present; dsimp only
      by_cases e : l' = l
      · subst e; simp
      · rw [upd_other _ _ e]; exact hp l' hl' e
  · refine ⟨⟨h.exact, ?_⟩, ?_⟩ <;> dsimp only
    · intro l' hl' hp'
      have e : l' ≠ l := by intro e; subst e; simp at hp'
      rw [upd_other _ _ e] at hp'; exact h.form l' hl' hp'
    · intro l' hl'
      unfold Present; dsimp only
      by_cases e : l' = l
      · subst e; simp
      · rw [upd_other _ _ e]; exact hp l' hl' e

theorem finv_resume {s : State} (hi : Inv s) (h : FInv s) (l : Nat) : FInv (stepResume s l).1 := by
  unfold stepResume
  by_cases hl : l ∈ s.rel
  · rw [if_pos hl]
    have hme : ∀ l', l' ∈ s.rel.erase l ↔ l' ≠ l ∧ l' ∈ s.rel := fun l' => List.Nodup.mem_erase_iff hi.rel_nodup
    split
    next v hv =>
      have h0 : s.handles ≠ 0 := by
        intro h0; simp [readNow, h0] at hv
      refine finv_afterValue (fex_resumed hi h.ex hl hv) (fun hh => ((hme l).mp hh).1 rfl) h0 (hi.rel_conn _ hl) ?_
      intro l' hl' e
      exact present_resumed_other hi e _ (h.present l' hl')
    next hv =>
      have h0 : s.handles ≠ 0 := by
        intro h0; simp [readNow, h0] at hv
      refine finv_afterValue (fex_resumed hi h.ex hl hv) (fun hh => ((hme l).mp hh).1 rfl) h0 (hi.rel_conn _ hl) ?_
      intro l' hl' e
      exact present_resumed_other hi e _ (h.present l' hl')
    next hnv _ =>
      refine ⟨fex_resumed hi h.ex hl rfl, ?_⟩
      intro l' hl'
      by_cases e : l' = l
      · subst e
        intro hp h0
        -- a purely re-awaiting listener of a connected signal is owed values only, and the last thing it is owed is what it reads now
        have hex := h.ex.exact l' (hi.rel_lt _ hl) (hi.pure_coro _ hp)
        have hform := h.ex.form l' (hi.rel_lt _ hl) hp
        rw [if_pos hl] at hex
        rw [if_neg h0, List.append_nil] at hform
        have hm : readNow s ∈ (s.emitted.drop (s.subAt l')).map Out.val := by
          rw [← hform, hex]; simp
        obtain ⟨v, _, hv⟩ := List.mem_map.mp hm
        exact absurd hv.symm (hnv v)
      · exact present_resumed_other hi e _ (h.present l' hl')
  · rw [if_neg hl]; exact h

/-- `exact` after the whole chain has been released with outcome `o`, when nothing was left unflushed -/
theorem exact_release {s : State} (h : FEx s) (hrel : s.rel = []) (o : Out) (l : Nat) (hl : l < s.next)
    (hk : s.isCb l = false) :
    (if l ∈ s.chain then s.expect l ++ [o] else s.expect l)
      = s.got l ++ (if l ∈ s.rel ++ corosOf s then [o] else []) := by
  have := h.exact l hl hk
  simp only [hrel, List.not_mem_nil, if_false, List.append_nil] at this
  have hm : l ∈ s.rel ++ corosOf s ↔ l ∈ s.chain := by
    rw [mem_rel_coros, hrel]; simp [hk]
  simp only [hm]
  split <;> simp [this]

theorem finv_emit {s : State} (hi : Inv s) (h : FInv s) (hrel : s.rel = []) (byRef : Bool) (v : Nat) :
    FInv (stepEmit s byRef v).1 := by
  unfold stepEmit
  by_cases h0 : s.handles = 0
  · rw [if_pos h0]; exact h
  · rw [if_neg h0]
    refine ⟨⟨?_, ?_⟩, ?_⟩ <;> dsimp only
    · intro l hl hk
      have hn : l ∉ cbsOf s := fun hh => by have := (mem_cbsOf.mp hh).2; simp [hk] at this
      simp only [hn, if_false]
      have := exact_release h.ex hrel (Out.val v) l hl hk
      rw [this]
      congr 1
      split
      · simp only [readNow, h0, if_false]
        have := deref_emit s byRef v
        simp only [deref] at this ⊢
        rw [this]
      · rfl
    · intro l hl hp
      have old := h.ex.form l hl hp
      have hc : l ∈ s.chain := by
        rcases h.present l hl hp h0 with e | e
        · exact e
        · rw [hrel] at e; cases e
      simp only [h0, if_false, List.append_nil] at old ⊢
      simp only [hc, if_true, old]
      rw [List.drop_append_of_le_length (hi.sub_le l hl)]
      simp
    · intro l hl hp _
      have hc : l ∈ s.chain := by
        rcases h.present l hl hp h0 with e | e
        · exact e
        · rw [hrel] at e; cases e
      exact Or.inr (mem_rel_coros.mpr (Or.inr ⟨hc, hi.pure_coro l hp⟩))

theorem finv_drop {s : State} (h : FInv s) (hrel : s.handles = 1 → s.rel = []) :
    FInv (stepDrop s).1 := by
  unfold stepDrop
  by_cases h0 : s.handles = 0
  · rw [if_pos h0]; exact h
  · rw [if_neg h0]
    by_cases h1 : s.handles = 1
    · rw [if_pos h1]
      have hrel := hrel h1
      refine ⟨⟨?_, ?_⟩, ?_⟩ <;> dsimp only
      · intro l hl hk
        have hn : l ∉ cbsOf s := fun hh => by have := (mem_cbsOf.mp hh).2; simp [hk] at this
        simp only [hn, if_false]
        have := exact_release h.ex hrel Out.canceled l hl hk
        rw [this]
        congr 1
      · intro l hl hp
        have old := h.ex.form l hl hp
        have hc : l ∈ s.chain := by
          rcases h.present l hl hp h0 with e | e
          · exact e
          · rw [hrel] at e; cases e
        simp only [h0, if_false, List.append_nil] at old
        simp only [hc, if_true, old]
      · intro l hl hp hh; exact absurd rfl hh
    · rw [if_neg h1]; exact finv_handles h h0 (by omega)

/-- a failed by-value collector call with nothing unflushed: nobody is about to read, nothing else changed -/
theorem finv_emitFail {s : State} (h : FInv s) (hrel : s.rel = []) : FInv (stepEmitFail s).1 := by
  unfold stepEmitFail
  by_cases h0 : s.handles = 0
  · rw [if_pos h0]; exact h
  · rw [if_neg h0]
    refine ⟨⟨?_, h.ex.form⟩, h.present⟩
    intro l hl hk
    have := h.ex.exact l hl hk
    simp only [hrel, List.not_mem_nil, if_false] at this ⊢
    exact this

theorem finv_step {s : State} (hi : Inv s) (h : FInv s) (op : Op) (hf : needsFlush s op = true → s.rel = []) :
    FInv (step s op).1 := by
  cases op with
  | listen sc => exact finv_listen hi h sc
  | listen0 sc => exact finv_listen0 hi h sc
  | connect n => exact finv_connect h n
  | connectL n => exact finv_connect h n
  | connect0 n => exact finv_connect0 hi h n
  | assign l b => exact finv_assign h l b
  | emit r v => exact finv_emit hi h (hf rfl) r v
  | emitFail => exact finv_emitFail h (hf rfl)
  | resume l => exact finv_resume hi h l
  | wake l => exact finv_wake hi h l
  | addHandle => exact finv_add h
  | dropHandle => exact finv_drop h (fun h1 => hf (by simp [needsFlush, h1]))

theorem finv_run (s : State) (ops : List Op) (hi : Inv s) (h : FInv s) (hf : Flushed s ops) : FInv (run s ops) := by
  induction ops generalizing s with
  | nil => exact h
  | cons op ops ih => exact ih _ (inv_step hi op) (finv_step hi h op hf.1) hf.2

instance decFlushed : (s : State) → (ops : List Op) → Decidable (Flushed s ops)
  | _, [] => isTrue trivial
  | s, op :: ops =>
    have := decFlushed (step s op).1 ops
    (inferInstance : Decidable ((needsFlush s op = true → s.rel = []) ∧ Flushed (step s op).1 ops))

/-! ### `expect` never contains a destroyed value (every history) -/

/-- nothing a coroutine listener is owed is a destroyed value: `expect` only ever receives values and cancellations -/
def ExpLive (s : State) : Prop := ∀ l, Out.dead ∉ s.expect l

theorem explive_init : ExpLive init := by intro l; simp [init]

theorem explive_of_eq {s t : State} (h : ExpLive s) (e : t.expect = s.expect) : ExpLive t := by
  intro l; rw [e]; exact h l

theorem explive_cancelNow {s : State} (h : ExpLive s) (l : Nat) : ExpLive (cancelNow s l) := by
  intro l'
  have := h l'
  by_cases e : l' = l
  · subst e; simp [cancelNow, this]
  · simp [cancelNow, upd_other _ _ e, this]

theorem explive_reawait {s : State} (h : ExpLive s) (l : Nat) : ExpLive (reawait s l) := by
  unfold reawait
  split
  · exact explive_cancelNow h l
  · exact h

theorem explive_await {s : State} (h : ExpLive s) (l : Nat) : ExpLive (await s l) := by
  unfold await
  split
  · exact explive_reawait h l
  · exact explive_cancelNow h l

theorem explive_fresh {s : State} (h : ExpLive s) (cb : Bool) (sc : List Act) (n : Nat) (pr cn : Bool) :
    ExpLive (fresh s cb sc n pr cn) := by
  intro l'
  have := h l'
  by_cases e : l' = s.next
  · subst e; simp [fresh]
  · simp [fresh, upd_other _ _ e, this]

theorem explive_afterValue {s : State} (h : ExpLive s) (l : Nat) : ExpLive (afterValue s l) := by
  unfold afterValue
  split
  · exact explive_await h l
  · apply explive_await; exact explive_of_eq h rfl
  · exact h
  · exact h

theorem explive_step {s : State} (h : ExpLive s) (op : Op) : ExpLive (step s op).1 := by
  cases op with
  | listen sc => exact explive_reawait (explive_fresh h _ _ _ _ _) _
  | listen0 sc => exact explive_cancelNow (explive_fresh h _ _ _ _ _) _
  | connect n =>
      simp only [step, stepConnect]; split
      · exact h
      · exact explive_of_eq (explive_fresh h true [] n false true) rfl
  | connectL n =>
      simp only [step, stepConnect]; split
      · exact h
      · exact explive_of_eq (explive_fresh h true [] n false true) rfl
  | connect0 n => exact explive_of_eq (explive_fresh h true [] n false false) rfl
  | assign l b =>
      simp only [step, stepAssign]; split
      · exact explive_of_eq h rfl
      · exact h
  | emit r v =>
      simp only [step, stepEmit]; split
      · exact h
      · intro l; have := h l; dsimp only; split <;> simp [this]
  | emitFail =>
      simp only [step, stepEmitFail]; split
      · exact h
      · exact explive_of_eq h rfl
  | resume l =>
      simp only [step, stepResume]; split
      · split
        · dsimp only; apply explive_afterValue; exact explive_of_eq h rfl
        · dsimp only; apply explive_afterValue; exact explive_of_eq h rfl
        · exact explive_of_eq h rfl
      · exact h
  | wake l =>
      simp only [step, stepWake]; split
      · dsimp only; apply explive_await; exact explive_of_eq h rfl
      · exact h
  | addHandle =>
      simp only [step, stepAdd]; split
      · exact h
      · exact explive_of_eq h rfl
  | dropHandle =>
      simp only [step, stepDrop]; split
      · exact h
      · split
        · intro l; have := h l; dsimp only; split <;> simp [this]
        · exact explive_of_eq h rfl

theorem explive_run (s : State) (ops : List Op) (h : ExpLive s) : ExpLive (run s ops) := by
  induction ops generalizing s with
  | nil => exact h
  | cons op ops ih => exact ih _ (explive_step h op)

/-! ### The closed forms of `stepEmit` / `stepDrop` are the loops of the code -/



/-- closed form of the walk over `ys` started in `t` -/
def walked (v : Nat) (t : State) (ys : List Nat) : State :=
  { t with chain := ((ys.filter (fun l => t.isCb l)).filter (fun c => 0 < t.left c)).reverse ++ t.chain,
           rel := t.rel ++ ys.filter (fun l => !t.isCb l),
           left := fun c => if c ∈ ys.filter (fun l => t.isCb l) then t.left c - 1 else t.left c,
           got := fun c => if c ∈ ys.filter (fun l => t.isCb l) then t.got c ++ cbOuts t c v else t.got c }

theorem walk_closed (v : Nat) (ys : List Nat) (t : State) (hn : ys.Nodup) :
    ys.foldl (walkOne v) t = walked v t ys := by
  induction ys generalizing t with
  | nil => simp [walked]
  | cons y ys ih =>
    obtain ⟨hy, hn'⟩ := List.nodup_cons.mp hn
    rw [List.foldl_cons, ih _ hn']
    unfold walkOne
    by_cases hk : t.isCb y = true
    · by_cases hp : 0 < t.left y
      · simp only [hk, hp, if_true, walked]
        have hf : ∀ c, c ∈ ys → upd t.left y (t.left y - 1) c = t.left c := fun c hc =>
          upd_other _ _ (fun e => hy (e ▸ hc))
        have hfil : List.filter (fun c => decide (0 < upd t.left y (t.left y - 1) c)) (List.filter (fun l => t.isCb l) ys)
            = List.filter (fun c => decide (0 < t.left c)) (List.filter (fun l => t.isCb l) ys) := by
          apply List.filter_congr
          intro c hc
          rw [hf c (List.mem_filter.mp hc).1]
        congr 1
        · simp [hk, hp, hfil]
        · simp [hk]
        · funext c
          by_cases e : c = y
          · subst e
            have : c ∉ List.filter (fun l => t.isCb l) ys := fun hh => hy (List.mem_filter.mp hh).1
            simp [hk, this]
          · simp [hk, e, upd_other _ _ e]
        · funext c
          by_cases e : c = y
          · subst e
            have : c ∉ List.filter (fun l => t.isCb l) ys := fun hh => hy (List.mem_filter.mp hh).1
            simp [hk, this, cbOuts, hp]
          · simp [hk, e, upd_other _ _ e, cbOuts]
      · simp only [hk, hp, if_true, if_false, walked]
        have hf : ∀ c, c ∈ ys → upd t.left y (t.left y - 1) c = t.left c := fun c hc =>
          upd_other _ _ (fun e => hy (e ▸ hc))
        have hfil : List.filter (fun c => decide (0 < upd t.left y (t.left y - 1) c)) (List.filter (fun l => t.isCb l) ys)
            = List.filter (fun c => decide (0 < t.left c)) (List.filter (fun l => t.isCb l) ys) := by
          apply List.filter_congr
          intro c hc
          rw [hf c (List.mem_filter.mp hc).1]
        congr 1
        · simp [hk, hp, hfil]
        · simp [hk]
        · funext c
          by_cases e : c = y
          · subst e
            have : c ∉ List.filter (fun l => t.isCb l) ys := fun hh => hy (List.mem_filter.mp hh).1
            simp [hk, this]
          · simp [hk, e, upd_other _ _ e]
        · funext c
          by_cases e : c = y
          · subst e
            have : c ∉ List.filter (fun l => t.isCb l) ys := fun hh => hy (List.mem_filter.mp hh).1
            simp [hk, this, cbOuts, hp]
          · simp [hk, e, upd_other _ _ e, cbOuts]
    · have hk' : t.isCb y = false := by simpa using hk
      simp only [hk', walked]
      congr 1
      · simp [hk']
      · simp [hk']
      · funext c; simp [hk']
      · funext c; simp [hk', cbOuts]


/-- the closed form used by `stepEmit` is the loop (for a duplicate-free chain, which `Inv` guarantees) -/
theorem stepEmit_eq_loop (s : State) (hn : s.chain.Nodup) (byRef : Bool) (v : Nat) :
    stepEmitLoop s byRef v = stepEmit s byRef v := by
  unfold stepEmitLoop stepEmit
  by_cases h0 : s.handles = 0
  · simp [h0]
  · simp only [h0, if_false]
    rw [walk_closed v s.chain _ hn]
    simp [walked, cbsOf, corosOf, cbOuts]




def walkedDead (t : State) (ys : List Nat) : State :=
  { t with rel := t.rel ++ ys.filter (fun l => !t.isCb l),
           got := fun c => if c ∈ ys.filter (fun l => t.isCb l) then t.got c ++ [Out.free] else t.got c }

theorem walkDead_closed (ys : List Nat) (t : State) (hn : ys.Nodup) :
    ys.foldl walkDead t = walkedDead t ys := by
  induction ys generalizing t with
  | nil => simp [walkedDead]
  | cons y ys ih =>
    obtain ⟨hy, hn'⟩ := List.nodup_cons.mp hn
    rw [List.foldl_cons, ih _ hn']
    unfold walkDead
    by_cases hk : t.isCb y = true
    · simp only [hk, if_true, walkedDead]
      congr 1
      · simp [hk]
      · funext c
        by_cases e : c = y
        · subst e
          have : c ∉ List.filter (fun l => t.isCb l) ys := fun hh => hy (List.mem_filter.mp hh).1
          simp [hk, this]
        · simp [hk, e, upd_other _ _ e]
    · have hk' : t.isCb y = false := by simpa using hk
      simp only [hk', walkedDead]
      congr 1
      · simp [hk']
      · funext c; simp [hk']


theorem stepDrop_eq_loop (s : State) (hn : s.chain.Nodup) : stepDropLoop s = stepDrop s := by
  unfold stepDropLoop stepDrop
  by_cases h0 : s.handles = 0
  · simp [h0]
  · by_cases h1 : s.handles = 1
    · simp only [h1, if_true]
      rw [walkDead_closed s.chain _ hn]
      simp [walkedDead, cbsOf, corosOf]
    · simp [h0, h1]

end Cocls.Signal

namespace Cocls.Signal.Pub

theorem foldl_uaf (ops : List Op) (s : State) (h : ∀ l, Op.post l ∉ ops) (hs : s.uaf = false) :
    (ops.foldl step s).uaf = false := by
  induction ops generalizing s with
  | nil => exact hs
  | cons op ops ih =>
    have h' : ∀ l, Op.post l ∉ ops := fun l hm => h l (List.mem_cons_of_mem _ hm)
    cases op with
    | cas l => exact ih _ h' hs
    | post l => exact absurd List.mem_cons_self (h l)
    | release => exact ih _ h' hs

end Cocls.Signal.Pub
