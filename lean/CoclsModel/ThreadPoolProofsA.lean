import CoclsModel.ThreadPoolInv
/-! Preservation of the thread-pool invariant: the worker loop. -/
namespace Cocls.Pool

set_option maxHeartbeats 4000000

theorem inv_wLoop {c : Cfg} {s : State} {t : Nat} (h : Inv c s) (hpc : s.pc t = Pc.wLoop) :
    Inv c (stepWLoop c s t).1 := by
  have hnd : s.detached t = false := by
    have := h.z_det t; grind [Pc.isLoop]
  have hnw : t ∉ s.waitq := by
    have := h.s_wq_pc t; grind
  have hwk : s.woken t = false := by
    have := h.s_woken t; grind
  have hmx : s.mx = some t := (h.m_own t).2 (Or.inl hpc)
  have hmu : ∀ u, s.mx = some u → u = t := by intro u hu; rw [hmx] at hu; injection hu with e; exact e.symm
  unfold stepWLoop
  split
  · inv_step h
  · split
    · rename_i j rest hq
      have hj : j ∈ s.q := by simp [hq]
      inv_step h
    · inv_step h

theorem inv_wCvEnter {c : Cfg} {s : State} {t : Nat} (h : Inv c s) (hpc : s.pc t = Pc.wCvEnter) :
    Inv c (stepWCvEnter s t).1 := by
  have hnw : t ∉ s.waitq := by
    have := h.s_wq_pc t; grind
  have hwk : s.woken t = false := by
    have := h.s_woken t; grind
  have hq := (h.m_enter t hpc).1
  have hx := (h.m_enter t hpc).2
  have hmx : s.mx = some t := (h.m_own t).2 (Or.inr hpc)
  have hmu : ∀ u, s.mx = some u → u = t := by intro u hu; rw [hmx] at hu; injection hu with e; exact e.symm
  have hta : t ∉ s.awake := by
    intro hm; have := (h.a_mem hx t).1 hm; grind
  unfold stepWCvEnter
  inv_step h

theorem inv_wRelock {c : Cfg} {s : State} {t : Nat} (h : Inv c s) (hpc : s.pc t = Pc.wRelock)
    (hmx : s.mx = none) : Inv c (stepWRelock s t).1 := by
  have hno : ∀ u, s.pc u ≠ Pc.wLoop ∧ s.pc u ≠ Pc.wCvEnter := by
    intro u; have := (h.m_own u).2; grind
  unfold stepWRelock
  inv_step h

theorem inv_wCvCheck {c : Cfg} {s : State} {t : Nat} (h : Inv c s) (hpc : s.pc t = Pc.wCvCheck) :
    Inv c (stepWCvCheck s t).1 := by
  unfold stepWCvCheck
  split
  · have hnw : t ∉ s.waitq := by
      have := h.s_wq_pc t; grind
    inv_step h
  · unfold setPc
    inv_step h

theorem inv_wCvBlocked {c : Cfg} {s : State} {t : Nat} (h : Inv c s) (hpc : s.pc t = Pc.wCvBlocked)
    (hw : s.woken t = true) : Inv c (stepWCvBlocked s t).1 := by
  have hnw : t ∉ s.waitq := by
    have := h.s_wq_pc t; grind
  unfold stepWCvBlocked
  inv_step h

theorem inv_wRun {c : Cfg} {s : State} {t j : Nat} (h : Inv c s) (hpc : s.pc t = Pc.wRun j) :
    Inv c (stepWRun s t j).1 := by
  have hl : s.loc j = Loc.held t := (h.l_held t j).1 hpc
  have htw : t < c.nw := h.t_worker t (by rw [hpc]; rfl)
  have hdf : s.defer t = [] := by
    have := h.b_defpc t; grind [Pc.bodyPhase]
  unfold stepWRun
  inv_step h
  case r_on =>
    intro j' hr
    by_cases hjj : j' = j
    · exact ⟨t, htw, by simp [hjj]⟩
    · simp only [hjj, ↓reduceIte] at hr ⊢
      exact h.r_on j' hr

theorem inv_fin {c : Cfg} {s : State} {t : Nat} (h : Inv c s)
    (hpc : s.pc t = Pc.wExit ∨ (s.pc t = Pc.idle ∧ s.ret t = Ret.script ∧ s.todo t = []) ∨
           (s.pc t = Pc.wAfterJob ∧ s.cur t = false) ∨ s.pc t = Pc.bExitPc) :
    Inv c (stepFin s t).1 := by
  have hex : t < c.nw → s.exit = true := by
    intro htw
    have h1 := h.n_noexit
    have h2 := h.t_script t
    have h3 := h.z_cur t htw
    have h4 := h.bb_pc t
    cases hx : s.exit with
    | true => rfl
    | false => have := h1 hx t; grind [Pc.isB]
  have hdq : s.dq t = [] := by
    have := h.l_dqpc t; grind [Pc.inStop]
  have htm : s.tmp t = [] := by
    have := h.s_tmp_pc t; grind
  have hdf : s.defer t = [] := by
    have := h.b_defpc t; have := h.t_ret t; grind [Pc.bodyPhase]
  unfold stepFin setPc
  inv_step h

theorem inv_bodyEnd {c : Cfg} {s : State} {t : Nat} (h : Inv c s) (hpc : s.pc t = Pc.idle)
    (hret : s.ret t = Ret.body) : Inv c (stepBodyEnd s t).1 := by
  have htw : t < c.nw := h.t_ret t (by rw [hret]; decide)
  unfold stepBodyEnd
  split
  · unfold setPc
    inv_step h
  · rename_i j hj
    have hran : 0 < s.ran j := h.r_job t j hj
    split
    · rename_i hc
      simp only [Bool.and_eq_true, beq_iff_eq] at hc
      obtain ⟨hf, hp⟩ := hc
      split
      · inv_step h
      · inv_step h
    · rename_i hc
      simp only [Bool.and_eq_true, beq_iff_eq, not_and] at hc
      unfold setPc
      inv_step h

theorem inv_wFlush {c : Cfg} {s : State} {t : Nat} (h : Inv c s) (hpc : s.pc t = Pc.wFlush) :
    Inv c (stepWFlush c s t).1 := by
  have htw : t < c.nw := h.t_worker t (by rw [hpc]; rfl)
  have hout := h.wf_out
  unfold stepWFlush
  split
  · rename_i j rest hd
    have hj : j ∈ s.defer t := by simp [hd]
    have hdo : s.deferOn j = some t := (h.b_defer t j).1 hj
    have hk : dropKind c (s.kind j) = DropAct.resume := h.b_defkind j (by simp [hdo])
    have hnd : (j :: rest).Nodup := hd ▸ h.b_defnd t
    have hjr : j ∉ rest := (List.nodup_cons.1 hnd).1
    inv_step h
  · simp only [hout, ↓reduceIte]
    split
    · inv_step h
    · inv_step h

theorem inv_wAfterJob {c : Cfg} {s : State} {t : Nat} (h : Inv c s) (hpc : s.pc t = Pc.wAfterJob)
    (hcur : s.cur t = true) : Inv c (stepWAfterJob c s t).1 := by
  have hout := h.wf_out
  have hnd : s.detached t = false := by
    have := h.z_det t; grind
  have hdf : s.defer t = [] := by
    have := h.b_defpc t; grind [Pc.bodyPhase]
  unfold stepWAfterJob
  simp only [hcur, hout, ↓reduceIte, Bool.not_true, Bool.false_and, Bool.false_eq_true]
  inv_step h

end Cocls.Pool
