import CoclsModel.SharedFutureInv
/-! Preservation of the shared_future invariant, part 2: the constructing creator, subscribe CAS, blocking wait, reads. -/
namespace Cocls.SharedFuture
variable {c : Cfg} {s : State} {t : Nat}

theorem nCharge_filter (is : List CI) : nCharge (is.filter (fun i => !i.isCharge)) = 0 := by
  induction is with
  | nil => rfl
  | cons a l ih =>
      rw [List.filter_cons]
      cases ha : a.isCharge
      · simp only [Bool.not_false, if_true]
        cases a <;> first | exact ih | (simp [CI.isCharge] at ha)
      · simp only [Bool.not_true, Bool.false_eq_true, if_false]
        exact ih

theorem mem_filter_noCharge (x : CI) (is : List CI) (hx : x.isCharge = false) :
    x ∈ is.filter (fun i => !i.isCharge) ↔ x ∈ is := by
  simp [List.mem_filter, hx]

/-- facts about the constructing creator -/
theorem ctor_facts (h : Inv c s) (i : CI) (is : List CI) (hpc : s.pc t = Pc.cRun (i :: is)) :
    t = 0 ∧ t < c.n ∧ s.freed = 0 ∧ 1 ≤ s.refs ∧ actsOf (s.pc t) = [] := by
  have hpk := h.pcok t
  rw [hpc] at hpk
  have ha := (h.aCtor t _ hpc).1
  have := alive_of_held h (t := t) (by omega)
  exact ⟨hpk.1, hpk.2, this.2, this.1, by simp [hpc, actsOf]⟩

theorem inv_c_xchgInit (h : Inv c s) (is : List CI) (hpc : s.pc t = Pc.cRun (CI.xchgInit :: is)) :
    Inv c (setPc (touch s) t (Pc.cRun is)) := by
  obtain ⟨h0, hn, hf, hr, ha⟩ := ctor_facts h _ _ hpc
  have hw : wacts c (setPc (touch s) t (Pc.cRun is)) = wacts c s :=
    wacts_setPc c s _ t _ rfl ha (by simp [actsOf])
  have hc := h.aCtor t _ hpc
  simp only [nCharge, List.mem_cons] at hc
  simp only [setPc, touch] at hw ⊢
  inv_auto h

theorem inv_c_xchgTmp (h : Inv c s) (is : List CI) (hpc : s.pc t = Pc.cRun (CI.xchgTmp :: is)) :
    Inv c (setPc s t (Pc.cRun is)) := by
  obtain ⟨h0, hn, hf, hr, ha⟩ := ctor_facts h _ _ hpc
  have hw : wacts c (setPc s t (Pc.cRun is)) = wacts c s :=
    wacts_setPc c s _ t _ rfl ha (by simp [actsOf])
  have hc := h.aCtor t _ hpc
  simp only [nCharge, List.mem_cons] at hc
  simp only [setPc] at hw ⊢
  inv_auto h

theorem inv_c_loadTmp (h : Inv c s) (is : List CI) (hpc : s.pc t = Pc.cRun (CI.loadTmp :: is)) :
    Inv c { setPc s t (Pc.cRun is) with published := true } := by
  obtain ⟨h0, hn, hf, hr, ha⟩ := ctor_facts h _ _ hpc
  have hw : wacts c { setPc s t (Pc.cRun is) with published := true } = wacts c s :=
    wacts_setPc c s _ t _ rfl ha (by simp [actsOf])
  have hc := h.aCtor t _ hpc
  simp only [nCharge, List.mem_cons, true_or, forall_const] at hc
  simp only [setPc] at hw ⊢
  inv_auto h

theorem inv_c_loadPending_ready (h : Inv c s) (is : List CI) (hpc : s.pc t = Pc.cRun (CI.loadPending :: is))
    (hs : s.slot = Slot.ready) : Inv c (setPc (touch s) t (Pc.cRun (is.filter (fun i => !i.isCharge)))) := by
  obtain ⟨h0, hn, hf, hr, ha⟩ := ctor_facts h _ _ hpc
  have hw : wacts c (setPc (touch s) t (Pc.cRun (is.filter (fun i => !i.isCharge)))) = wacts c s :=
    wacts_setPc c s _ t _ rfl ha (by simp [actsOf])
  have hc := h.aCtor t _ hpc
  simp only [nCharge, List.mem_cons] at hc
  have hd := nCharge_filter is
  have hm := mem_filter_noCharge CI.loadTmp is rfl
  have hpp := h.pubPc
  have hm' : CI.loadTmp ∈ CI.loadPending :: is ↔ CI.loadTmp ∈ is := by simp
  simp only [setPc, touch] at hw ⊢
  inv_auto h

theorem inv_c_loadPending_pending (h : Inv c s) (is : List CI) (hpc : s.pc t = Pc.cRun (CI.loadPending :: is)) :
    Inv c (setPc (touch s) t (Pc.cRun is)) := by
  obtain ⟨h0, hn, hf, hr, ha⟩ := ctor_facts h _ _ hpc
  have hw : wacts c (setPc (touch s) t (Pc.cRun is)) = wacts c s :=
    wacts_setPc c s _ t _ rfl ha (by simp [actsOf])
  have hc := h.aCtor t _ hpc
  simp only [nCharge, List.mem_cons] at hc
  simp only [setPc, touch] at hw ⊢
  inv_auto h

theorem inv_c_charge_ready (h : Inv c s) (e : Seen) (is : List CI) (hpc : s.pc t = Pc.cRun (CI.charge e :: is))
    (hs : s.slot = Slot.ready) : Inv c (setPc (touch s) t (Pc.cRun is)) := by
  obtain ⟨h0, hn, hf, hr, ha⟩ := ctor_facts h _ _ hpc
  have hw : wacts c (setPc (touch s) t (Pc.cRun is)) = wacts c s :=
    wacts_setPc c s _ t _ rfl ha (by simp [actsOf])
  have hc := h.aCtor t _ hpc
  simp only [nCharge, List.mem_cons] at hc
  simp only [setPc, touch] at hw ⊢
  inv_auto h

theorem inv_c_charge_retry (h : Inv c s) (e e' : Seen) (is : List CI) (hpc : s.pc t = Pc.cRun (CI.charge e :: is)) :
    Inv c (setPc (touch s) t (Pc.cRun (CI.charge e' :: is))) := by
  obtain ⟨h0, hn, hf, hr, ha⟩ := ctor_facts h _ _ hpc
  have hw : wacts c (setPc (touch s) t (Pc.cRun (CI.charge e' :: is))) = wacts c s :=
    wacts_setPc c s _ t _ rfl ha (by simp [actsOf])
  have hc := h.aCtor t _ hpc
  simp only [nCharge, List.mem_cons] at hc
  have hn' : nCharge (CI.charge e' :: is) = 1 + nCharge is := rfl
  have hm' : CI.loadTmp ∈ CI.charge e' :: is ↔ CI.loadTmp ∈ is := by simp
  simp only [setPc, touch] at hw ⊢
  inv_auto h

/-- while the object is under construction nobody has subscribed: the chain is empty when the tracer is wired -/
theorem chain_nil_of_ctor (h : Inv c s) (e : Seen) (is : List CI) (hpc : s.pc t = Pc.cRun (CI.charge e :: is)) (l : List Node)
    (hs : s.slot = Slot.chain l) : l = [] := by
  have hc := h.aCtor t _ hpc
  simp only [nCharge] at hc
  have htr : s.tracerRef = false := hc.2.2.2.1 (by omega)
  have h1 := h.tracerCnt
  have h2 := h.ctor0 hc.2.1
  apply List.eq_nil_iff_forall_not_mem.2
  intro x hx
  cases x with
  | tracer =>
      have : 0 < l.count Node.tracer := List.count_pos_iff.2 hx
      simp [hs, chainOf, htr] at h1
      omega
  | aw y =>
      have : 0 < l.count (Node.aw y) := List.count_pos_iff.2 hx
      have h3 := h.wake y
      have h4 := h.subAw y
      have : s.subscribed y = false := by
        cases hq : s.subscribed y
        · rfl
        · have := h4 hq; simp [h2 y] at this
      simp [hs, chainOf, this] at h3
      omega

theorem inv_c_charge_ok (h : Inv c s) (e : Seen) (is : List CI) (hpc : s.pc t = Pc.cRun (CI.charge e :: is)) (l : List Node)
    (hs : s.slot = Slot.chain l) :
    Inv c { setPc (addRef s Holder.tracer) t (Pc.cRun is) with slot := Slot.chain (Node.tracer :: l), tracerRef := true } := by
  obtain ⟨h0, hn, hf, hr, ha⟩ := ctor_facts h _ _ hpc
  have hl := chain_nil_of_ctor h e is hpc l hs
  subst hl
  have hw : wacts c { setPc (addRef s Holder.tracer) t (Pc.cRun is) with slot := Slot.chain [Node.tracer], tracerRef := true } = wacts c s :=
    wacts_setPc c s _ t _ rfl ha (by simp [actsOf])
  have hc := h.aCtor t _ hpc
  simp only [nCharge, List.mem_cons] at hc
  have hch : chainOf s.slot = [] := by rw [hs]; rfl
  have hch' : chainOf (Slot.chain [Node.tracer]) = [Node.tracer] := rfl
  simp only [setPc, addRef, touch] at hw ⊢
  inv_auto h

/-! ### end of the construction: one copy per handle thread -/

theorem count_thread_map (i : Nat) (L : List Nat) : (L.map Holder.thread).count (Holder.thread i) = L.count i := by
  induction L with
  | nil => rfl
  | cons a L ih => simp [List.count_cons, ih]

theorem count_ctx_map (i : Nat) (L : List Nat) : (L.map Holder.thread).count (Holder.ctx i) = 0 := by
  induction L with
  | nil => rfl
  | cons a L ih => simp [List.count_cons, ih]

theorem count_tracer_map (L : List Nat) : (L.map Holder.thread).count Holder.tracer = 0 := by
  induction L with
  | nil => rfl
  | cons a L ih => simp [List.count_cons, ih]

theorem count_range (i n : Nat) : (List.range n).count i = if i < n then 1 else 0 := by
  induction n with
  | zero => simp
  | succ n ih =>
      rw [List.range_succ, List.count_append, ih]
      by_cases h1 : i < n
      · have : ¬ n = i := by omega
        simp [h1, this]; omega
      · by_cases h2 : i = n
        · subst h2; simp
        · have : ¬ n = i := by omega
          have : ¬ i < n + 1 := by omega
          simp [*]

theorem count_filter_ite (p : Nat → Bool) (l : List Nat) (i : Nat) :
    (l.filter p).count i = if p i then l.count i else 0 := by
  by_cases h : p i = true
  · simp [h, List.count_filter h]
  · simp only [h]
    apply List.count_eq_zero.2
    intro hm
    exact h (List.mem_filter.1 hm).2

theorem count_handleTids (c : Cfg) (i : Nat) :
    (handleTids c).count i = if i < c.n ∧ kindOf c i = Kind.handle then 1 else 0 := by
  unfold handleTids
  rw [count_filter_ite, count_range]
  by_cases h1 : kindOf c i = Kind.handle <;> by_cases h2 : i < c.n <;> simp [h1, h2]

theorem inv_distribute (h : Inv c s) (hpc : s.pc t = Pc.cRun []) :
    Inv c (setPc (distribute c s) t (Pc.hRun (c.prog t))) := by
  have hpk := h.pcok t
  rw [hpc] at hpk
  have hc := h.aCtor t _ hpc
  simp only [nCharge] at hc
  obtain ⟨hr, hf⟩ := alive_of_held h (t := t) (by omega)
  have hw : wacts c (setPc (distribute c s) t (Pc.hRun (c.prog t))) = wacts c s :=
    wacts_setPc c s _ t _ (by unfold distribute; split <;> rfl) (by simp [hpc, actsOf]) (by simp [actsOf])
  have h1 := count_thread_map
  have h2 := count_ctx_map
  have h3 := count_tracer_map
  have h4 := count_handleTids c
  have hk := kind_handle_iff c
  have hk0 := kind_creator_iff c
  unfold distribute at hw ⊢
  cases hg : s.given
  · simp only [Bool.false_eq_true, if_false, setPc, giveHandles, touch] at hw ⊢
    inv_auto h
  · simp only [if_true, setPc] at hw ⊢
    inv_auto h

/-- mode ip: `init_if_needed()`, the copies for the handle threads, then `get_promise()`'s exchange -/
theorem inv_c_giveInit (h : Inv c s) (is : List CI) (hpc : s.pc t = Pc.cRun (CI.giveInit :: is)) :
    Inv c (setPc (if s.given then touch s else giveHandles c s) t (Pc.cRun is)) := by
  obtain ⟨h0, hn, hf, hr, ha⟩ := ctor_facts h _ _ hpc
  have hw : wacts c (setPc (if s.given then touch s else giveHandles c s) t (Pc.cRun is)) = wacts c s :=
    wacts_setPc c s _ t _ (by split <;> rfl) ha (by simp [actsOf])
  have hc := h.aCtor t _ hpc
  simp only [nCharge, List.mem_cons] at hc
  have h1 := count_thread_map
  have h2 := count_ctx_map
  have h3 := count_tracer_map
  have h4 := count_handleTids c
  have hk := kind_handle_iff c
  have hk0 := kind_creator_iff c
  have hm' : CI.loadTmp ∈ CI.giveInit :: is ↔ CI.loadTmp ∈ is := by simp
  cases hg : s.given
  · simp only [Bool.false_eq_true, if_false, setPc, giveHandles, touch] at hw ⊢
    inv_auto h
  · simp only [if_true, setPc, touch] at hw ⊢
    inv_auto h

/-! ### subscribe CAS, blocking wait, reading the result -/

theorem cas_facts (h : Inv c s) (k : WK) (e : Seen) (p : List Act) (hpc : s.pc t = Pc.hCas k e p) :
    s.freed = 0 ∧ 1 ≤ s.refs ∧ actsOf (s.pc t) = [] ∧ kindOf c t ≠ Kind.res ∧ t < c.n := by
  have hpk := h.pcok t
  rw [hpc] at hpk
  have ha := (h.aCas t _ _ _ hpc).2.2.2.2
  have := alive_of_held h (t := t) (by omega)
  exact ⟨this.2, this.1, by simp [hpc, actsOf], hpk.1, hpk.2⟩

theorem inv_cas_ready (h : Inv c s) (k : WK) (e : Seen) (p : List Act) (hpc : s.pc t = Pc.hCas k e p) (hs : s.slot = Slot.ready) :
    Inv c (setPc (touch s) t (Pc.hRead k p)) := by
  obtain ⟨hf, hr, ha, hk1, hk2⟩ := cas_facts h k e p hpc
  have hw : wacts c (setPc (touch s) t (Pc.hRead k p)) = wacts c s :=
    wacts_setPc c s _ t _ rfl ha (by simp [actsOf])
  have hc := h.aCas t _ _ _ hpc
  have hi : inflight (Pc.hRead k p) = 1 := by simp [inflight, hc.1]
  have hi' : inflight (s.pc t) = 1 := by simp [hpc, inflight]
  simp only [setPc, touch] at hw ⊢
  inv_auto h

theorem inv_cas_retry (h : Inv c s) (k : WK) (e e' : Seen) (p : List Act) (hpc : s.pc t = Pc.hCas k e p) :
    Inv c (setPc (touch s) t (Pc.hCas k e' p)) := by
  obtain ⟨hf, hr, ha, hk1, hk2⟩ := cas_facts h k e p hpc
  have hw : wacts c (setPc (touch s) t (Pc.hCas k e' p)) = wacts c s :=
    wacts_setPc c s _ t _ rfl ha (by simp [actsOf])
  have hc := h.aCas t _ _ _ hpc
  have hi' : inflight (s.pc t) = 1 := by simp [hpc, inflight]
  simp only [setPc, touch] at hw ⊢
  inv_auto h

theorem getLast_cons_of_mem (x y : Node) (l : List Node) (h : y ∈ l) : (x :: l).getLast? = l.getLast? := by
  cases l with
  | nil => cases h
  | cons a l => rfl

theorem inv_cas_ok (h : Inv c s) (k : WK) (e : Seen) (p : List Act) (hpc : s.pc t = Pc.hCas k e p) (l : List Node)
    (hs : s.slot = Slot.chain l) :
    Inv c { setPc (touch s) t (if k = WK.sync then Pc.hWait p else Pc.hRun p) with
            slot := Slot.chain (Node.aw t :: l), subscribed := upd s.subscribed t true } := by
  obtain ⟨hf, hr, ha, hk1, hk2⟩ := cas_facts h k e p hpc
  have hw : wacts c { setPc (touch s) t (if k = WK.sync then Pc.hWait p else Pc.hRun p) with
            slot := Slot.chain (Node.aw t :: l), subscribed := upd s.subscribed t true } = wacts c s :=
    wacts_setPc c s _ t _ rfl ha (by split <;> simp [actsOf])
  have hc := h.aCas t _ _ _ hpc
  have hi' : inflight (s.pc t) = 1 := by simp [hpc, inflight]
  have hch : chainOf s.slot = l := by rw [hs]; rfl
  have hch' : chainOf (Slot.chain (Node.aw t :: l)) = Node.aw t :: l := rfl
  have hgl := getLast_cons_of_mem (Node.aw t) Node.tracer l
  have hne : s.slot ≠ Slot.ready := by rw [hs]; simp
  have hne' : Slot.chain (Node.aw t :: l) ≠ Slot.ready := by simp
  have hcon := h.aProg t
  rw [hpc] at hcon
  simp only [postCtor] at hcon
  cases k
  · simp only [setPc, touch] at hw ⊢
    simp at hw ⊢
    inv_auto h
  · simp only [setPc, touch] at hw ⊢
    simp at hw ⊢
    inv_auto h
  · simp only [setPc, touch] at hw ⊢
    simp at hw ⊢
    inv_auto h
  · exact absurd rfl hc.1

theorem inv_wait_block (h : Inv c s) (p : List Act) (hpc : s.pc t = Pc.hWait p) : Inv c (setPc s t (Pc.hBlocked p)) := by
  have hw : wacts c (setPc s t (Pc.hBlocked p)) = wacts c s :=
    wacts_setPc c s _ t _ rfl (by simp [hpc, actsOf]) (by simp [actsOf])
  have hpk := h.pcok t
  rw [hpc] at hpk
  simp only [pcOK] at hpk
  have hc := h.aWait t p (Or.inl hpc)
  have hi' : inflight (s.pc t) = 1 := by simp [hpc, inflight]
  simp only [setPc] at hw ⊢
  inv_auto h

theorem inv_wait_pass (h : Inv c s) (p : List Act) (hpc : s.pc t = Pc.hWait p ∨ s.pc t = Pc.hBlocked p) (hfl : s.flag t = true) :
    Inv c (setPc s t (Pc.hRead WK.sync p)) := by
  have hw : wacts c (setPc s t (Pc.hRead WK.sync p)) = wacts c s :=
    wacts_setPc c s _ t _ rfl (by rcases hpc with h1 | h1 <;> simp [h1, actsOf]) (by simp [actsOf])
  have hpk := h.pcok t
  have hpk' : kindOf c t ≠ Kind.res ∧ t < c.n := by
    rcases hpc with h1 | h1 <;> (rw [h1] at hpk; exact hpk)
  have hc := h.aWait t p hpc
  have hi' : inflight (s.pc t) = 1 := by rcases hpc with h1 | h1 <;> simp [h1, inflight]
  have hrd : s.slot = Slot.ready := h.wokenReady t ((h.flagIff t).1 hfl).2
  have hcon : s.constructed = true := h.aProg t (by rcases hpc with h1 | h1 <;> simp [h1, postCtor])
  simp only [setPc] at hw ⊢
  inv_auto h

theorem inv_read_load (h : Inv c s) (k : WK) (p : List Act) (hpc : s.pc t = Pc.hRead k p) :
    Inv c (setPc (touch s) t (Pc.hRead2 k s.slot.seen p)) := by
  have hpk := h.pcok t
  rw [hpc] at hpk
  simp only [pcOK] at hpk
  have hc := h.aRead t _ _ hpc
  obtain ⟨hr, hf⟩ := alive_of_held h (t := t) (by omega)
  have hsn : s.slot.seen = Seen.ready := by rw [hc.2.2]; rfl
  rw [hsn]
  have hw : wacts c (setPc (touch s) t (Pc.hRead2 k Seen.ready p)) = wacts c s :=
    wacts_setPc c s _ t _ rfl (by simp [hpc, actsOf]) (by simp [actsOf])
  have hi : inflight (Pc.hRead2 k Seen.ready p) = inflight (s.pc t) := by simp [hpc, inflight]
  have hcon := h.aProg t
  rw [hpc] at hcon
  simp only [postCtor] at hcon
  simp only [setPc, touch] at hw ⊢
  inv_auto h

theorem obsStep_fst_owns (x : Nat) (k : WK) (sn : Seen) (hk : ownsCtx k = true) (hf : s.freed = 0) :
    (obsStep s t x k sn).1 =
      { s with
        observed := upd s.observed x (s.observed x + 1)
        ctx := upd s.ctx x false
        refs := s.refs - 1
        holders := s.holders.erase (Holder.ctx x)
        freed := if s.refs = 1 then 1 else 0 } := by
  unfold obsStep
  rw [if_pos hk]
  simp only [touch_eq hf]
  exact dropRef_fst (s := { s with observed := upd s.observed x (s.observed x + 1), ctx := upd s.ctx x false }) (Holder.ctx x) hf

theorem obsStep_fst_sync (x : Nat) (sn : Seen) (hf : s.freed = 0) :
    (obsStep s t x WK.sync sn).1 = { s with observed := upd s.observed x (s.observed x + 1) } := by
  simp [obsStep, ownsCtx, touch_eq hf]

theorem obsStep_fst_peek (x : Nat) (sn : Seen) (hf : s.freed = 0) : (obsStep s t x WK.peek sn).1 = s := by
  simp [obsStep, ownsCtx, touch_eq hf]

theorem inv_obs_self (h : Inv c s) (k : WK) (sn sn' : Seen) (p : List Act)
    (hpc : s.pc t = Pc.hRead k p ∨ s.pc t = Pc.hRead2 k sn' p) :
    Inv c (setPc (obsStep s t t k sn).1 t (Pc.hRun p)) := by
  have hpk := h.pcok t
  have hpk' : kindOf c t ≠ Kind.res ∧ t < c.n := by
    rcases hpc with h1 | h1 <;> (rw [h1] at hpk; exact hpk)
  have hc : (k = WK.peek ∨ (s.akind t = k ∧ s.awaited t = true)) ∧ 1 ≤ s.held t ∧ s.slot = Slot.ready := by
    rcases hpc with h1 | h1
    · exact h.aRead t _ _ h1
    · have := h.aRead2 t _ _ _ h1; exact ⟨this.1, this.2.1, this.2.2.1⟩
  obtain ⟨hr, hf⟩ := alive_of_held h (t := t) (by omega)
  have ha : actsOf (s.pc t) = [] := by rcases hpc with h1 | h1 <;> simp [h1, actsOf]
  have hi : inflight (s.pc t) = if k = WK.peek then 0 else 1 := by rcases hpc with h1 | h1 <;> simp [h1, inflight]
  have hcon : s.constructed = true := h.aProg t (by rcases hpc with h1 | h1 <;> simp [h1, postCtor])
  have hob := h.obsv t
  have hcx := h.ctxIff t
  have hown : ownsCtx k = true → s.ctx t = true ∧ Holder.ctx t ∈ s.holders := by
    intro hk
    have hkp : k ≠ WK.peek := by intro e; subst e; simp [ownsCtx] at hk
    simp only [hkp, false_or, if_false] at hc hi
    rw [hi, hc.1.2] at hob
    simp only [if_true] at hob
    have hcx' : s.ctx t = true := hcx.2 ⟨hc.1.2, by rw [hc.1.1]; exact hk, by omega⟩
    refine ⟨hcx', ?_⟩
    apply List.count_pos_iff.1; have := h.hCtx t; simp [hcx'] at this; omega
  cases k
  · obtain ⟨hcx', hm⟩ := hown rfl
    rw [obsStep_fst_owns t _ sn rfl hf]
    have hw : wacts c (setPc { s with
        observed := upd s.observed t (s.observed t + 1)
        ctx := upd s.ctx t false
        refs := s.refs - 1
        holders := s.holders.erase (Holder.ctx t)
        freed := if s.refs = 1 then 1 else 0 } t (Pc.hRun p)) = wacts c s :=
      wacts_setPc c s _ t (Pc.hRun p) rfl ha (by simp [actsOf])
    simp only [setPc] at hw ⊢
    simp at hc hi
    inv_auto h
  · rw [obsStep_fst_sync t sn hf]
    have hw : wacts c (setPc { s with observed := upd s.observed t (s.observed t + 1) } t (Pc.hRun p)) = wacts c s :=
      wacts_setPc c s _ t (Pc.hRun p) rfl ha (by simp [actsOf])
    simp only [setPc] at hw ⊢
    simp at hc hi
    inv_auto h
  · obtain ⟨hcx', hm⟩ := hown rfl
    rw [obsStep_fst_owns t _ sn rfl hf]
    have hw : wacts c (setPc { s with
        observed := upd s.observed t (s.observed t + 1)
        ctx := upd s.ctx t false
        refs := s.refs - 1
        holders := s.holders.erase (Holder.ctx t)
        freed := if s.refs = 1 then 1 else 0 } t (Pc.hRun p)) = wacts c s :=
      wacts_setPc c s _ t (Pc.hRun p) rfl ha (by simp [actsOf])
    simp only [setPc] at hw ⊢
    simp at hc hi
    inv_auto h
  · rw [obsStep_fst_peek t sn hf]
    have hw : wacts c (setPc s t (Pc.hRun p)) = wacts c s :=
      wacts_setPc c s _ t (Pc.hRun p) rfl ha (by simp [actsOf])
    simp only [setPc] at hw ⊢
    simp at hi
    inv_auto h

end Cocls.SharedFuture
