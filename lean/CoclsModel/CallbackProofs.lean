import CoclsModel.Callback
/-!
Invariant of the micro-step model of the callback adapters (`Callback.lean`) and its preservation by every agent step,
for every configuration (adapter, outcome kinds, any number of racing invocations / destructor agents, factory- or
self-resolution) and every schedule.  Helper lemmas for `Props/C18.lean`.
-/
set_option linter.unusedSimpArgs false
namespace Cocls.Callback

section
/-! ## projections of `setPc` -/
@[simp] theorem setPc_pc (s : State) (t : Nat) (p : Pc) : (setPc s t p).pc = upd s.pc t p := rfl
@[simp] theorem setPc_owner (s : State) (t : Nat) (p : Pc) : (setPc s t p).owner = s.owner := rfl
@[simp] theorem setPc_slot (s : State) (t : Nat) (p : Pc) : (setPc s t p).slot = s.slot := rfl
@[simp] theorem setPc_payload (s : State) (t : Nat) (p : Pc) : (setPc s t p).payload = s.payload := rfl
@[simp] theorem setPc_published (s : State) (t : Nat) (p : Pc) : (setPc s t p).published = s.published := rfl
@[simp] theorem setPc_nxt (s : State) (t : Nat) (p : Pc) : (setPc s t p).nxt = s.nxt := rfl
@[simp] theorem setPc_tmpLive (s : State) (t : Nat) (p : Pc) : (setPc s t p).tmpLive = s.tmpLive := rfl
@[simp] theorem setPc_built (s : State) (t : Nat) (p : Pc) : (setPc s t p).built = s.built := rfl
@[simp] theorem setPc_builtLive (s : State) (t : Nat) (p : Pc) : (setPc s t p).builtLive = s.builtLive := rfl
@[simp] theorem setPc_outer (s : State) (t : Nat) (p : Pc) : (setPc s t p).outer = s.outer := rfl
@[simp] theorem setPc_tok (s : State) (t : Nat) (p : Pc) : (setPc s t p).tok = s.tok := rfl
@[simp] theorem setPc_calls (s : State) (t : Nat) (p : Pc) : (setPc s t p).calls = s.calls := rfl
@[simp] theorem setPc_saw (s : State) (t : Nat) (p : Pc) : (setPc s t p).saw = s.saw := rfl
@[simp] theorem setPc_convIn (s : State) (t : Nat) (p : Pc) : (setPc s t p).convIn = s.convIn := rfl
@[simp] theorem setPc_outerSets (s : State) (t : Nat) (p : Pc) : (setPc s t p).outerSets = s.outerSets := rfl
@[simp] theorem setPc_allocs (s : State) (t : Nat) (p : Pc) : (setPc s t p).allocs = s.allocs := rfl
@[simp] theorem setPc_frees (s : State) (t : Nat) (p : Pc) : (setPc s t p).frees = s.frees := rfl
@[simp] theorem setPc_wins (s : State) (t : Nat) (p : Pc) : (setPc s t p).wins = s.wins := rfl
@[simp] theorem setPc_winner (s : State) (t : Nat) (p : Pc) : (setPc s t p).winner = s.winner := rfl

theorem upd_apply {α} (f : Nat → α) (i j : Nat) (v : α) : upd f i v j = if j = i then v else f j := rfl

/-! ## vocabulary of the invariant -/

/-- the agent holds the completion token -/
def holds : Pc → Bool
  | Pc.gStart => true
  | Pc.gCas => true
  | Pc.comp _ _ => true
  | _ => false

def isResolve : Pc → Bool
  | Pc.rResolve _ => true
  | _ => false

def Who.outside : Who → Bool
  | Who.reg => false
  | _ => true

/-- the agent's operation on the promise's owner is behind it -/
def passed : Pc → Bool
  | Pc.rFinLost => true
  | Pc.rResolve _ => true
  | Pc.rRet _ => true
  | Pc.dFin => true
  | Pc.comp _ w => w.outside
  | _ => false

/-- program counters of the other agents while the promise does not exist yet -/
def waiting : Pc → Bool
  | Pc.rArrive => true
  | Pc.rBlocked => true
  | Pc.dArrive => true
  | Pc.dBlocked => true
  | Pc.done => true
  | _ => false

/-- agent `t` invokes the promise -/
def isRes (c : Cfg) (t : Nat) : Bool := if t = 0 then c.selfRes.isSome else (c.rk t).isSome
/-- agent `t` destroys the promise -/
def isDt (c : Cfg) (t : Nat) : Bool := decide (t ≠ 0) && (c.rk t).isNone

/-- who may run a completion in which capacity -/
def whoOK (c : Cfg) (t : Nat) : Who → Prop
  | Who.reg => t = 0
  | Who.res => isRes c t = true
  | Who.dt => isDt c t = true

/-- program counters agent `t` can be at, given its role -/
def pcOK (c : Cfg) (t : Nat) : Pc → Prop
  | Pc.gStart => t = 0
  | Pc.gCas => t = 0
  | Pc.gParked => t = 0
  | Pc.rArrive => t ≠ 0 ∧ isRes c t = true
  | Pc.rBlocked => t ≠ 0 ∧ isRes c t = true
  | Pc.rFinLost => isRes c t = true
  | Pc.rResolve dt => if dt = true then isDt c t = true else isRes c t = true
  | Pc.rRet dt => if dt = true then isDt c t = true else isRes c t = true
  | Pc.dArrive => isDt c t = true
  | Pc.dBlocked => isDt c t = true
  | Pc.dFin => isDt c t = true
  | Pc.comp _ w => whoOK c t w
  | Pc.done => True

/-- the payload the winner delivers -/
def winPayload (c : Cfg) : Win → Outcome
  | Win.factory => (match c.pre with | some k => k.payload | none => Outcome.none)
  | Win.agent t => payloadOf c t

def outerOf (c : Cfg) (p : Outcome) : Option OuterRes :=
  if c.adapter = Adapter.conv then some (convRes c p) else none

/-- well-formed configurations: the registrar exists; `make_promise` has no factory that could resolve beforehand -/
structure Cfg.WF (c : Cfg) : Prop where
  pos : 0 < c.n
  mkp : c.adapter = Adapter.mkProm → c.pre = none

structure Inv (c : Cfg) (s : State) : Prop where
  range : ∀ t, c.n ≤ t → s.pc t = Pc.done
  kindpc : ∀ t, pcOK c t (s.pc t)
  tok_slot : s.tok = Tok.slot ↔ s.slot = Slot.node
  tok_agent : ∀ t, s.tok = Tok.agent t ↔ holds (s.pc t) = true
  calls_eq : s.calls = if s.tok = Tok.used then 1 else 0
  allocs_eq : s.allocs = if s.pc 0 = Pc.gStart then 0 else if c.adapter.allocates = true then 1 else 0
  frees_eq : s.frees = if s.tok = Tok.used ∧ c.adapter.allocates = true then 1 else 0
  pub : s.published = true ↔ s.pc 0 ≠ Pc.gStart
  unpub : s.pc 0 = Pc.gStart → (∀ t, t ≠ 0 → waiting (s.pc t) = true)
      ∧ s.slot = (if c.pre.isSome = true then Slot.ready else Slot.null) ∧ s.owner = c.pre.isNone
  own_t : s.owner = true → s.wins = 0 ∧ s.winner = none
  own_f : s.owner = false → s.wins = 1 ∧ ∃ w, s.winner = some w
  claimed : ∀ t, passed (s.pc t) = true ∨ (t < c.n ∧ s.pc t = Pc.done ∧ (t ≠ 0 ∨ c.selfRes.isSome = true)) → s.owner = false
  active : ∀ t, isResolve (s.pc t) = true → s.winner = some (Win.agent t)
  pending_phase : s.slot ≠ Slot.ready → s.payload = Outcome.none ∧
      ∀ w, s.winner = some w → ∃ t, w = Win.agent t ∧ isResolve (s.pc t) = true
  ready_phase : s.slot = Slot.ready → ∃ w, s.winner = some w ∧ (∀ t, w = Win.agent t → isResolve (s.pc t) = false)
      ∧ s.payload = winPayload c w
  comp_ready : ∀ t k w, s.pc t = Pc.comp k w → s.slot = Slot.ready
  done_state : s.tok = Tok.used → s.slot = Slot.ready ∧ s.saw = sawOf c s.payload ∧ s.convIn = convInOf c s.payload
      ∧ s.outer = outerOf c s.payload ∧ s.outerSets = (if c.adapter = Adapter.conv then 1 else 0)
  fresh_state : s.tok ≠ Tok.used → s.saw = [] ∧ s.convIn = [] ∧ s.outer = none ∧ s.outerSets = 0
  pre_ready : c.pre.isSome = true → s.slot = Slot.ready
  nxt_null : s.nxt = Slot.null
  built_iff : s.built = true ↔ s.pc 0 ≠ Pc.gStart
  tmp_iff : s.tmpLive = false ↔ (deferred c = true ∧ s.pc 0 ≠ Pc.gStart)
  built_val : c.argsByRef = false → s.builtLive = true
  built_ctx : deferred c = false → s.builtLive = true
  pre_winner : c.pre.isSome = true → s.winner = some Win.factory

theorem inv_init (c : Cfg) (hwf : c.WF) : Inv c (init c) := by
  have hpos := hwf.pos
  refine ⟨?_, ?_, ?_, ?_, ?_, ?_, ?_, ?_, ?_, ?_, ?_, ?_, ?_, ?_, ?_, ?_, ?_, ?_, ?_, ?_, ?_, ?_, ?_, ?_, ?_⟩ <;> simp only [init, initWith]
  · intro t ht; simp; omega
  · intro t
    by_cases h : t < c.n
    · simp only [h, if_true, initPc]
      by_cases h0 : t = 0
      · simp [h0, pcOK]
      · simp only [h0, if_false]
        cases hk : c.rk t <;> simp [pcOK, isRes, isDt, h0, hk]
    · simp [h, pcOK]
  · cases c.pre <;> simp
  · intro t
    by_cases h : t < c.n
    · by_cases h0 : t = 0
      · subst h0; simp [hpos, initPc, holds]
      · simp only [h, if_true, initPc, h0, if_false]
        cases c.rk t <;> simp [holds, h0] <;> omega
    · simp [h, holds] <;> omega
  · simp
  · simp [hpos, initPc]
  · simp
  · simp [hpos, initPc]
  · intro _
    constructor
    · intro t h0
      by_cases h : t < c.n
      · simp only [h, if_true, initPc, h0, if_false]
        cases c.rk t <;> simp [waiting]
      · simp [h, waiting]
    · simp
  · cases c.pre <;> simp
  · cases c.pre <;> simp
  · intro t
    by_cases h : t < c.n
    · by_cases h0 : t = 0
      · subst h0; simp [hpos, initPc, passed]
      · simp only [h, if_true, initPc, h0, if_false]
        cases c.rk t <;> simp [passed]
    · simp [h, passed] <;> omega
  · intro t
    by_cases h : t < c.n
    · by_cases h0 : t = 0
      · subst h0; simp [hpos, initPc, isResolve]
      · simp only [h, if_true, initPc, h0, if_false]
        cases c.rk t <;> simp [isResolve]
    · simp [h, isResolve]
  · cases c.pre <;> simp
  · cases hp : c.pre <;> simp [winPayload, hp]
  · intro t k w
    by_cases h : t < c.n
    · by_cases h0 : t = 0
      · subst h0; simp [hpos, initPc]
      · simp only [h, if_true, initPc, h0, if_false]
        cases c.rk t <;> simp
    · simp [h]
  · simp
  · simp
  · intro h; simp [h]
  · simp [hpos, initPc]
  · simp [hpos, initPc]
  · simp
  · simp
  · intro h; simp [h]

end

section
theorem slot_cases (s : State) : s.slot = Slot.null ∨ s.slot = Slot.node ∨ s.slot = Slot.ready := by
  cases s.slot <;> simp

macro "inv_tac" h:ident : tactic => `(tactic| (
  obtain ⟨h1, h2, h3, h4, h5, h6, h7, h8, h9, h10, h11, h12, h13, h14, h15, h16, h17, h18, h19, h20, h21, h22, h23, h24, h25⟩ := $h
  refine ⟨?_, ?_, ?_, ?_, ?_, ?_, ?_, ?_, ?_, ?_, ?_, ?_, ?_, ?_, ?_, ?_, ?_, ?_, ?_, ?_, ?_, ?_, ?_, ?_, ?_⟩ <;> simp only [setPc_tmpLive, setPc_built, setPc_builtLive, setPc_nxt, setPc_pc, setPc_owner, setPc_slot, setPc_payload, setPc_published, setPc_outer, setPc_tok, setPc_calls, setPc_saw, setPc_convIn, setPc_outerSets, setPc_allocs, setPc_frees, setPc_wins, setPc_winner, upd_apply]
  all_goals grind [slot_cases, pcOK, whoOK, Who.outside, passed, isResolve, holds, waiting, winPayload]))

variable (c : Cfg) (s : State) (t : Nat)

theorem inv_block_r (h : Inv c s) (hpc : s.pc t = Pc.rArrive) : Inv c (setPc s t Pc.rBlocked) := by
  inv_tac h

theorem inv_block_d (h : Inv c s) (hpc : s.pc t = Pc.dArrive) : Inv c (setPc s t Pc.dBlocked) := by
  inv_tac h

theorem inv_rFinLost (h : Inv c s) (hpc : s.pc t = Pc.rFinLost) : Inv c (setPc s t Pc.done) := by
  inv_tac h

theorem inv_dFin (h : Inv c s) (hpc : s.pc t = Pc.dFin) : Inv c (setPc s t Pc.done) := by
  inv_tac h

theorem inv_ret (h : Inv c s) (dt : Bool) (hpc : s.pc t = Pc.rRet dt) : Inv c (setPc s t Pc.done) := by
  inv_tac h

theorem inv_comp_load (h : Inv c s) (k : Nat) (w : Who) (hpc : s.pc t = Pc.comp (k + 1) w) :
    Inv c (setPc s t (Pc.comp k w)) := by
  inv_tac h

end

section
variable (c : Cfg) (s : State) (t : Nat)

/-- by-value arguments: the frame that owns the copies was allocated in this segment and nothing was released yet -/
theorem argStorageLive_val (h : Inv c s) (hpc : s.pc 0 = Pc.gStart) (hv : c.argsByRef = false) :
    argStorageLive c s = true := by
  have htok : s.tok = Tok.agent 0 := (h.tok_agent 0).2 (by simp [hpc, holds])
  have hf : s.frees = 0 := by rw [h.frees_eq]; simp [htok]
  unfold argStorageLive
  split <;> simp [hv, hf]

/-- a helper that starts inside the call uses live arguments whichever way the frame refers to them -/
theorem argStorageLive_ctx (hd : deferred c = false) (hv : c.argsByRef = true) : argStorageLive c s = true := by
  unfold argStorageLive
  split <;> simp [hv, hd]

theorem argStorageLive_facts (h : Inv c s) (hpc : s.pc 0 = Pc.gStart) :
    (c.argsByRef = false → argStorageLive c s = true) ∧ (deferred c = false → argStorageLive c s = true) := by
  refine ⟨argStorageLive_val c s h hpc, fun hd => ?_⟩
  cases hv : c.argsByRef with
  | false => exact argStorageLive_val c s h hpc hv
  | true => exact argStorageLive_ctx c s hd hv

theorem inv_start_ready (h : Inv c s) (hpc : s.pc 0 = Pc.gStart) (hs : s.slot = Slot.ready) (k : Nat) :
    Inv c (setPc (prep c s) 0 (Pc.comp k Who.reg)) := by
  obtain ⟨hA, hB⟩ := argStorageLive_facts c s h hpc
  unfold prep
  generalize argStorageLive c s = asl at hA hB ⊢
  inv_tac h

theorem inv_start_cas (h : Inv c s) (hpc : s.pc 0 = Pc.gStart) :
    Inv c (setPc (prep c s) 0 Pc.gCas) := by
  obtain ⟨hA, hB⟩ := argStorageLive_facts c s h hpc
  unfold prep
  generalize argStorageLive c s = asl at hA hB ⊢
  inv_tac h

theorem inv_start_mk (hwf : c.WF) (h : Inv c s) (hpc : s.pc 0 = Pc.gStart) (ha : c.adapter = Adapter.mkProm) :
    Inv c (setPc { prep c s with slot := Slot.node, tok := Tok.slot } 0 Pc.gParked) := by
  have hp := hwf.mkp ha
  obtain ⟨hA, hB⟩ := argStorageLive_facts c s h hpc
  unfold prep
  generalize argStorageLive c s = asl at hA hB ⊢
  inv_tac h

theorem inv_cas_ok (h : Inv c s) (hpc : s.pc 0 = Pc.gCas) (hs : s.slot = s.nxt) :
    Inv c { setPc s 0 Pc.gParked with slot := Slot.node, tok := Tok.slot } := by
  inv_tac h

theorem inv_cas_refused (h : Inv c s) (hpc : s.pc 0 = Pc.gCas) (hs : s.slot = Slot.ready) (k : Nat) :
    Inv c { setPc s 0 (Pc.comp k Who.reg) with nxt := Slot.null } := by
  inv_tac h

/-- the retry branch of the CAS loop is dead: the only other value the slot could hold is the adapter's own node -/
theorem inv_cas_retry (h : Inv c s) (hpc : s.pc 0 = Pc.gCas) (hs1 : s.slot ≠ s.nxt) (hs2 : s.slot ≠ Slot.ready) :
    Inv c { setPc s 0 Pc.gCas with nxt := s.slot } := by
  inv_tac h

end

section
variable (c : Cfg) (s : State) (t : Nat)

theorem inv_claim_win (h : Inv c s) (hpub : s.published = true)
    (hpc : s.pc t = Pc.rArrive ∨ s.pc t = Pc.rBlocked ∨ s.pc t = Pc.gParked) (hr : isRes c t = true) (ho : s.owner = true) :
    Inv c { setPc s t (Pc.rResolve false) with owner := false, wins := s.wins + 1, winner := some (Win.agent t) } := by
  inv_tac h

theorem inv_claim_lose (h : Inv c s) (hpub : s.published = true)
    (hpc : s.pc t = Pc.rArrive ∨ s.pc t = Pc.rBlocked ∨ s.pc t = Pc.gParked) (hr : isRes c t = true) (ho : s.owner = false) :
    Inv c (setPc s t Pc.rFinLost) := by
  inv_tac h

theorem inv_dtor_win (h : Inv c s) (hpub : s.published = true)
    (hpc : s.pc t = Pc.dArrive ∨ s.pc t = Pc.dBlocked) (ho : s.owner = true) :
    Inv c { setPc s t (Pc.rResolve true) with owner := false, wins := s.wins + 1, winner := some (Win.agent t) } := by
  inv_tac h

theorem inv_dtor_lose (h : Inv c s) (hpub : s.published = true)
    (hpc : s.pc t = Pc.dArrive ∨ s.pc t = Pc.dBlocked) (ho : s.owner = false) :
    Inv c (setPc s t Pc.dFin) := by
  inv_tac h

theorem inv_reg_done (h : Inv c s) (hpc : s.pc 0 = Pc.gParked) (hn : c.selfRes = none) :
    Inv c (setPc s 0 Pc.done) := by
  inv_tac h

end

section
variable (c : Cfg) (s : State) (t : Nat)

theorem payloadOf_dt (h : isDt c t = true) : payloadOf c t = Outcome.none := by
  simp only [isDt, Bool.and_eq_true, decide_eq_true_eq] at h
  unfold payloadOf
  rw [if_neg h.1]
  cases hk : c.rk t <;> simp_all

theorem inv_resolve_node (h : Inv c s) (dt : Bool) (hpc : s.pc t = Pc.rResolve dt) (hs : s.slot = Slot.node) (k : Nat) :
    Inv c { setPc s t (Pc.comp k (if dt = true then Who.dt else Who.res)) with
              payload := (if dt = true then s.payload else payloadOf c t), slot := Slot.ready, tok := Tok.agent t,
              nxt := Slot.null } := by
  have hd := payloadOf_dt c t
  cases dt <;> simp only [Bool.false_eq_true, if_false, if_true] <;> inv_tac h

theorem inv_resolve_other (h : Inv c s) (dt : Bool) (hpc : s.pc t = Pc.rResolve dt) (hs : s.slot ≠ Slot.node) :
    Inv c { setPc s t (Pc.rRet dt) with
              payload := (if dt = true then s.payload else payloadOf c t), slot := Slot.ready } := by
  have hd := payloadOf_dt c t
  cases dt <;> simp only [Bool.false_eq_true, if_false, if_true] <;> inv_tac h

theorem inv_complete (h : Inv c s) (w : Who) (hpc : s.pc t = Pc.comp 0 w) :
    Inv c (setPc (complete c s).1 t (afterPc w)) := by
  have htok : s.tok = Tok.agent t := (h.tok_agent t).2 (by simp [hpc, holds])
  obtain ⟨f1, f2, f3, f4⟩ := h.fresh_state (by simp [htok])
  have hout : outerOf c s.payload = if c.adapter = Adapter.conv then some (convRes c s.payload) else none := rfl
  unfold complete
  simp only [f1, f2, f3, f4, List.nil_append, Nat.zero_add]
  cases w <;> simp only [afterPc] <;> inv_tac h

end

section
variable (c : Cfg) (s : State) (t : Nat)

theorem inv_claimStep (h : Inv c s) (hpub : s.published = true)
    (hpc : s.pc t = Pc.rArrive ∨ s.pc t = Pc.rBlocked ∨ s.pc t = Pc.gParked) (hr : isRes c t = true) :
    Inv c (claimStep s t).1 := by
  unfold claimStep
  by_cases ho : s.owner = true
  · rw [if_pos ho]; exact inv_claim_win c s t h hpub hpc hr ho
  · rw [if_neg ho]; exact inv_claim_lose c s t h hpub hpc hr (by simpa using ho)

theorem inv_dtorStep (h : Inv c s) (hpub : s.published = true)
    (hpc : s.pc t = Pc.dArrive ∨ s.pc t = Pc.dBlocked) : Inv c (dtorStep s t).1 := by
  unfold dtorStep
  by_cases ho : s.owner = true
  · rw [if_pos ho]; exact inv_dtor_win c s t h hpub hpc ho
  · rw [if_neg ho]; exact inv_dtor_lose c s t h hpub hpc (by simpa using ho)

theorem inv_contReg (h : Inv c s) (hpc : s.pc 0 = Pc.gParked) : Inv c (contReg c s).1 := by
  have hpub : s.published = true := h.pub.2 (by simp [hpc])
  unfold contReg
  cases hs : c.selfRes with
  | none => exact inv_reg_done c s h hpc hs
  | some k => exact inv_claimStep c s 0 h hpub (Or.inr (Or.inr hpc)) (by simp [isRes, hs])

theorem inv_retStep (h : Inv c s) (dt : Bool) (hpc : s.pc t = Pc.rRet dt) : Inv c (retStep s t dt).1 :=
  inv_ret c s t h dt hpc

theorem inv_casStep (h : Inv c s) (hpc : s.pc 0 = Pc.gCas) : Inv c (casStep c s).1 := by
  unfold casStep
  by_cases hs : s.slot = s.nxt
  · rw [if_pos hs]; exact inv_cas_ok c s h hpc hs
  · rw [if_neg hs]
    by_cases hr : s.slot = Slot.ready
    · rw [if_pos hr]; exact inv_cas_refused c s h hpc hr _
    · rw [if_neg hr]; exact inv_cas_retry c s h hpc hs hr

theorem inv_resolveStep (h : Inv c s) (dt : Bool) (hpc : s.pc t = Pc.rResolve dt) : Inv c (resolveStep c s t dt).1 := by
  unfold resolveStep
  cases hs : s.slot with
  | node => exact inv_resolve_node c s t h dt hpc hs _
  | null => exact inv_resolve_other c s t h dt hpc (by simp [hs])
  | ready => exact inv_resolve_other c s t h dt hpc (by simp [hs])

theorem inv_compStep (h : Inv c s) (k : Nat) (w : Who) (hpc : s.pc t = Pc.comp k w) : Inv c (compStep c s t k w).1 := by
  unfold compStep
  cases k with
  | succ k => exact inv_comp_load c s t h k w hpc
  | zero =>
    have h1 := inv_complete c s t h w hpc
    have hw : pcOK c t (s.pc t) := h.kindpc t
    cases w with
    | reg =>
      have ht : t = 0 := by simpa [hpc, pcOK, whoOK] using hw
      subst ht
      exact inv_contReg c _ h1 (by simp [afterPc])
    | res => exact inv_retStep c _ t h1 false (by simp [afterPc])
    | dt => exact inv_retStep c _ t h1 true (by simp [afterPc])

theorem inv_startStep (hwf : c.WF) (h : Inv c s) (hpc : s.pc 0 = Pc.gStart) : Inv c (startStep c s).1 := by
  unfold startStep
  cases ha : c.adapter with
  | cbAwait =>
    cases hs : s.slot with
    | ready =>
      simp only
      by_cases hth : c.startThrew = true
      · rw [if_pos hth]
        exact inv_compStep c _ 0 (inv_start_ready c s h hpc hs 0) 0 Who.reg (by simp)
      · rw [if_neg hth]; exact inv_start_ready c s h hpc hs _
    | null => exact inv_start_cas c s h hpc
    | node => exact inv_start_cas c s h hpc
  | callAwt =>
    cases hs : s.slot with
    | ready => exact inv_start_ready c s h hpc hs _
    | null => exact inv_start_cas c s h hpc
    | node => exact inv_start_cas c s h hpc
  | mkProm =>
    exact inv_contReg c _ (inv_start_mk c s hwf h hpc ha) (by simp)
  | discard => exact inv_casStep c _ (inv_start_cas c s h hpc) (by simp)
  | conv => exact inv_casStep c _ (inv_start_cas c s h hpc) (by simp)
  | callFn => exact inv_casStep c _ (inv_start_cas c s h hpc) (by simp)
  | mkCb => exact inv_casStep c _ (inv_start_cas c s h hpc) (by simp)

theorem dtorReady_pub (h : dtorReady c s = true) : s.published = true := by
  unfold dtorReady at h
  simp only [Bool.and_eq_true] at h
  exact h.1

theorem inv_astep (hwf : c.WF) (h : Inv c s) (he : enabled c s t = true) : Inv c (astep c s t).1 := by
  have hk : pcOK c t (s.pc t) := h.kindpc t
  unfold astep
  unfold enabled at he
  cases hpc : s.pc t with
  | done => simpa using h
  | gStart =>
    have ht : t = 0 := by simpa [hpc, pcOK] using hk
    subst ht; exact inv_startStep c s hwf h hpc
  | gCas =>
    have ht : t = 0 := by simpa [hpc, pcOK] using hk
    subst ht; exact inv_casStep c s h hpc
  | gParked =>
    have ht : t = 0 := by simpa [hpc, pcOK] using hk
    subst ht; exact inv_contReg c s h hpc
  | rArrive =>
    simp only
    by_cases hp : s.published = true
    · rw [if_pos hp]
      exact inv_claimStep c s t h hp (Or.inl hpc) (by simp only [hpc, pcOK] at hk; exact hk.2)
    · rw [if_neg hp]; exact inv_block_r c s t h hpc
  | rBlocked =>
    rw [hpc] at he
    exact inv_claimStep c s t h he (Or.inr (Or.inl hpc)) (by simp only [hpc, pcOK] at hk; exact hk.2)
  | rFinLost => exact inv_rFinLost c s t h hpc
  | rResolve dt => exact inv_resolveStep c s t h dt hpc
  | rRet dt => exact inv_retStep c s t h dt hpc
  | dArrive =>
    simp only
    by_cases hp : dtorReady c s = true
    · rw [if_pos hp]; exact inv_dtorStep c s t h (dtorReady_pub c s hp) (Or.inl hpc)
    · rw [if_neg hp]; exact inv_block_d c s t h hpc
  | dBlocked =>
    rw [hpc] at he
    exact inv_dtorStep c s t h (dtorReady_pub c s he) (Or.inr hpc)
  | dFin => exact inv_dFin c s t h hpc
  | comp k w => exact inv_compStep c s t h k w hpc

theorem inv_run (hwf : c.WF) (sched : List Nat) : ∀ s, Inv c s → Inv c (run c s sched) := by
  induction sched with
  | nil => intro s h; exact h
  | cons t r ih =>
    intro s h
    simp only [run, List.foldl_cons]
    by_cases he : enabled c s t = true
    · rw [if_pos he]; exact ih _ (inv_astep c s t hwf h he)
    · rw [if_neg he]; exact ih _ h

/-- every reachable state satisfies the invariant -/
theorem inv_reachable (hwf : c.WF) (sched : List Nat) : Inv c (run c (init c) sched) :=
  inv_run c hwf sched _ (inv_init c hwf)

end

/-- `P` holds for every operation of a sequence and the final state `runOps` computed for it (lists of equal length) -/
inductive Pointwise (P : OpRun → State → Prop) : List OpRun → List State → Prop where
  | nil : Pointwise P [] []
  | cons {o s os ss} : P o s → Pointwise P os ss → Pointwise P (o :: os) (s :: ss)

end Cocls.Callback
