import CoclsModel.Exec
/-!
Invariant of the executor model (`CoclsModel/Exec.lean`) and its preservation by every act, hence by every
act list (`inv_run`).  `Inv` holds between acts; `Mid` is what holds in the middle of a step, after the running
coroutine suspended/finished and before `settle` hands control to the next one.
-/
namespace Cocls.Exec
set_option linter.unusedSimpArgs false

@[simp] theorem upd_same {α : Type} (f : Nat → α) (i : Nat) (v : α) : upd f i v i = v := by simp [upd]
theorem upd_apply {α : Type} (f : Nat → α) (i j : Nat) (v : α) : upd f i v j = if j = i then v else f j := rfl

def Hit (st : Nat → St) (cs : List Nat) (i : Nat) : Prop := wakeable (st i) = true ∧ i ∈ cs
instance (st : Nat → St) (cs : List Nat) (i : Nat) : Decidable (Hit st cs i) := by unfold Hit; infer_instance

theorem collect_spec (cs : List Nat) : ∀ (st : Nat → St) (i : Nat),
    ((collect st cs).1 i = if Hit st cs i then St.ready else st i) ∧
    ((collect st cs).2.count i = if Hit st cs i then 1 else 0) := by
  induction cs with
  | nil => intro st i; simp [collect, Hit]
  | cons c cs ih =>
    intro st i
    unfold collect
    by_cases hw : wakeable (st c) = true
    · simp only [hw, if_true]
      have h := ih (upd st c St.ready) i
      by_cases hic : i = c
      · subst hic
        have : ¬ Hit (upd st i St.ready) cs i := by simp [Hit, wakeable]
        have h2 : Hit st (i :: cs) i := ⟨hw, by simp⟩
        simp [this, h2] at h ⊢
        exact h
      · have e : upd st c St.ready i = st i := by simp [upd_apply, hic]
        have hh : Hit (upd st c St.ready) cs i ↔ Hit st (c :: cs) i := by
          simp [Hit, e, hic]
        have hc : (c == i) = false := by simp; exact fun h => hic h.symm
        simp only [hh, e] at h
        simp [List.count_cons, hc]
        exact h
    · have hw' : wakeable (st c) = false := by simpa using hw
      simp only [hw']
      have h := ih st i
      have hh : Hit st cs i ↔ Hit st (c :: cs) i := by
        simp only [Hit, List.mem_cons]
        constructor
        · rintro ⟨a, b⟩; exact ⟨a, Or.inr b⟩
        · rintro ⟨a, b | b⟩
          · subst b; simp [hw'] at a
          · exact ⟨a, b⟩
      simp only [hh] at h
      simpa using h

theorem handles_count (st : Nat → St) (cs : List Nat) (rev : Bool) (i : Nat) :
    (handles st cs rev).count i = if Hit st cs i then 1 else 0 := by
  unfold handles
  exact (collect_spec cs st i).2

/-- the handles come out in the order of the targets -/
theorem collect_sublist (cs : List Nat) : ∀ st : Nat → St, List.Sublist (collect st cs).2 cs := by
  induction cs with
  | nil => intro st; simp [collect]
  | cons c cs ih =>
    intro st
    unfold collect
    by_cases hw : wakeable (st c) = true
    · simp only [hw, if_true]
      exact List.Sublist.cons_cons c (ih _)
    · simp only [hw]
      exact List.Sublist.cons c (ih _)

@[simp] theorem jobIds_nil : jobIds [] = [] := rfl
@[simp] theorem jobIds_snoc (js : List (List Nat × Bool)) (hs : List Nat) (k : Bool) :
    jobIds (js ++ [(hs, k)]) = jobIds js ++ hs := by simp [jobIds, List.flatMap_append]
@[simp] theorem jobIds_cons (js : List (List Nat × Bool)) (hs : List Nat) (k : Bool) :
    jobIds ((hs, k) :: js) = hs ++ jobIds js := by simp [jobIds, List.flatMap_cons]

def PrevOK : List Bool → Prop
  | [] => True
  | p :: bs => p = !bs.isEmpty ∧ PrevOK bs

/-- the part of the invariant that also holds in the middle of a step -/
structure Core (s : State) : Prop where
  /-- FIFO: taken-so-far ++ queue = appended-so-far -/
  fifo : s.enq = s.deq ++ s.ready
  /-- the handle of a coroutine exists iff its status is `ready`, and then exactly once: in the ready queue, in
  the `suspend_now` loop of ordinary code, or in a job handed to another thread -/
  handle_once : ∀ i, s.ready.count i + (loopIds s.base).count i + (jobIds s.jobs).count i
      = if s.st i = St.ready then 1 else 0
  /-- a coroutine is blocked in a nested `start()` iff its status is `stacked`, and then exactly once -/
  stacked_once : ∀ i, s.calls.count i = if s.st i = St.stacked then 1 else 0
  /-- whoever is registered as the awaiter of `d` is suspended on `d` (hence on nothing else) -/
  waiter_ok : ∀ d p, s.waiter d = some p → s.st p = St.waiting d
  /-- made ready = resumed + pending, per coroutine -/
  once : ∀ i, s.made.count i = s.runs.count i + s.ready.count i + (loopIds s.base).count i
      + (jobIds s.jobs).count i
  /-- `instance != nullptr` iff a block is open or an activation is pending -/
  active_iff : s.active = true ↔ (s.blocks ≠ [] ∨ s.base ≠ none)
  /-- every saved `prev` says whether an enclosing block exists -/
  blocks_prev : PrevOK s.blocks
  loop_prev : ∀ l p, s.base = some (Base.loop l p) → p = !s.blocks.isEmpty
  callmain_block : s.base = some Base.callMain → s.blocks ≠ []
  calls_base : s.base = none → s.calls = []
  /-- outside every block and every activation the ready queue is empty -/
  idle : s.blocks = [] → s.base = none → s.ready = []

/-- invariant between two acts -/
structure Inv (s : State) : Prop extends Core s where
  /-- exactly the executing coroutine is `running` -/
  running_iff : ∀ i, s.st i = St.running ↔ s.cur = some i
  /-- ordinary code executes iff no activation is pending below it -/
  cur_base : s.cur = none ↔ s.base = none

/-- in the middle of a step: the running coroutine has suspended/finished, `settle` has not yet chosen the
next one -/
structure Mid (s : State) : Prop extends Core s where
  no_running : ∀ i, s.st i ≠ St.running
  has_base : s.base ≠ none

theorem inv_settle (s : State) (h : Mid s) : Inv (settle s) := by
  unfold settle
  split
  next p ps hc =>
    refine ⟨⟨?_, ?_, ?_, ?_, ?_, ?_, ?_, ?_, ?_, ?_, ?_⟩, ?_, ?_⟩ <;> dsimp only
    · exact h.fifo
    · intro i; have := h.handle_once i; have := h.stacked_once i; simp only [hc, List.count_cons] at *; grind [upd_apply]
    · intro i; have := h.stacked_once i; have := h.stacked_once p; simp only [hc, List.count_cons] at *; grind [upd_apply]
    · intro d q hw; have := h.waiter_ok d q hw; have := h.stacked_once p; simp only [hc, List.count_cons] at *; grind [upd_apply]
    · exact h.once
    · exact h.active_iff
    · exact h.blocks_prev
    · exact h.loop_prev
    · exact h.callmain_block
    · intro hb; exact absurd hb h.has_base
    · exact h.idle
    · intro i; have := h.no_running i; grind [upd_apply]
    · have := h.has_base; grind
  next hc =>
    split
    next hb => exact absurd hb h.has_base
    next hb =>
      have hbl := h.callmain_block hb
      refine ⟨⟨?_, ?_, ?_, ?_, ?_, ?_, ?_, ?_, ?_, ?_, ?_⟩, ?_, ?_⟩ <;> dsimp only
      · exact h.fifo
      · intro i; have := h.handle_once i; simp only [hb, loopIds] at *; grind
      · exact h.stacked_once
      · exact h.waiter_ok
      · intro i; have := h.once i; simp only [hb, loopIds] at *; grind
      · have := h.active_iff; grind
      · exact h.blocks_prev
      · intro l p hh; cases hh
      · intro hh; cases hh
      · intro _; exact hc
      · intro h1; exact absurd h1 hbl
      · intro i; have := h.no_running i; grind
      · simp
    next hd rest prev hb =>
      refine ⟨⟨?_, ?_, ?_, ?_, ?_, ?_, ?_, ?_, ?_, ?_, ?_⟩, ?_, ?_⟩ <;> dsimp only
      · exact h.fifo
      · intro i; have := h.handle_once i; have := h.handle_once hd; simp only [hb, loopIds, List.count_cons] at *; grind [upd_apply]
      · intro i; have := h.stacked_once i; have := h.handle_once hd; simp only [hb, loopIds, List.count_cons] at *; grind [upd_apply]
      · intro d q hw; have := h.waiter_ok d q hw; have := h.handle_once hd; simp only [hb, loopIds, List.count_cons] at *; grind [upd_apply]
      · intro i; have := h.once i; simp only [hb, loopIds, List.count_cons, List.count_append, List.count_singleton] at *; grind
      · have := h.active_iff; grind
      · exact h.blocks_prev
      · intro l p hh; have := h.loop_prev (hd :: rest) prev hb; grind
      · intro hh; cases hh
      · intro hh; cases hh
      · intro _ hh; cases hh
      · intro i; have := h.no_running i; grind [upd_apply]
      · simp
    next prev hb =>
      split
      next x q hr =>
        refine ⟨⟨?_, ?_, ?_, ?_, ?_, ?_, ?_, ?_, ?_, ?_, ?_⟩, ?_, ?_⟩ <;> dsimp only
        · rw [h.fifo, hr]; simp
        · intro i; have := h.handle_once i; have := h.handle_once x; simp only [hb, hr, loopIds, List.count_cons] at *; grind [upd_apply]
        · intro i; have := h.stacked_once i; have := h.handle_once x; simp only [hb, hr, loopIds, List.count_cons] at *; grind [upd_apply]
        · intro d p hw; have := h.waiter_ok d p hw; have := h.handle_once x; simp only [hb, hr, loopIds, List.count_cons] at *; grind [upd_apply]
        · intro i; have := h.once i; simp only [hb, hr, loopIds, List.count_cons, List.count_append, List.count_singleton] at *; grind
        · exact h.active_iff
        · exact h.blocks_prev
        · exact h.loop_prev
        · exact h.callmain_block
        · exact h.calls_base
        · intro _ hh; exact absurd hh h.has_base
        · intro i; have := h.no_running i; grind [upd_apply]
        · have := h.has_base; grind
      next hr =>
        have hp := h.loop_prev [] prev hb
        refine ⟨⟨?_, ?_, ?_, ?_, ?_, ?_, ?_, ?_, ?_, ?_, ?_⟩, ?_, ?_⟩ <;> dsimp only
        · exact h.fifo
        · intro i; have := h.handle_once i; simp only [hb, hr, loopIds] at *; grind
        · exact h.stacked_once
        · exact h.waiter_ok
        · intro i; have := h.once i; simp only [hb, hr, loopIds] at *; grind
        · subst hp; cases s.blocks <;> simp
        · exact h.blocks_prev
        · intro l p hh; cases hh
        · intro hh; cases hh
        · intro _; exact hc
        · intro _ _; exact hr
        · intro i; have := h.no_running i; grind
        · simp

theorem inv_init : Inv init := by
  refine ⟨⟨?_, ?_, ?_, ?_, ?_, ?_, ?_, ?_, ?_, ?_, ?_⟩, ?_, ?_⟩ <;> simp [init, loopIds, PrevOK]

/-- facts about the running coroutine -/
theorem cur_facts {s : State} (h : Inv s) {c : Nat} (hc : s.cur = some c) :
    s.st c = St.running ∧ s.base ≠ none ∧ s.active = true := by
  have h1 := (h.running_iff c).2 hc
  have h2 : s.base ≠ none := by
    intro hb; have := h.cur_base.2 hb; simp [hc] at this
  exact ⟨h1, h2, h.active_iff.2 (Or.inr h2)⟩

theorem inv_enqueue (s : State) (cs : List Nat) (rev : Bool) (h : Inv s) (ha : s.active = true) :
    Inv (enqueue s cs rev) := by
  unfold enqueue
  have hst := fun i => (collect_spec cs s.st i).1
  have hcnt := handles_count s.st cs rev
  generalize (collect s.st cs).1 = st' at hst
  generalize handles s.st cs rev = hs at hcnt
  refine ⟨⟨?_, ?_, ?_, ?_, ?_, ?_, ?_, ?_, ?_, ?_, ?_⟩, ?_, ?_⟩ <;> dsimp only
  · rw [h.fifo, List.append_assoc]
  · intro i
    have := h.handle_once i; have := hst i; have := hcnt i
    simp only [List.count_append]
    unfold Hit at *
    grind [wakeable]
  · intro i
    have := h.stacked_once i; have := hst i
    unfold Hit at *
    grind [wakeable]
  · intro d p hw
    have := h.waiter_ok d p hw; have := hst p
    unfold Hit at *
    grind [wakeable]
  · intro i
    have := h.once i; have := hcnt i
    simp only [List.count_append]
    omega
  · exact h.active_iff
  · exact h.blocks_prev
  · exact h.loop_prev
  · exact h.callmain_block
  · exact h.calls_base
  · intro hb hn
    have := h.active_iff
    grind
  · intro i
    have := h.running_iff i; have := hst i
    unfold Hit at *
    grind [wakeable]
  · exact h.cur_base


/-- the running coroutine `c` suspends on something that is not the ready queue (`v`: parked / done):
the state handed to `settle` -/
theorem mid_suspend (s : State) (c : Nat) (v : St) (h : Inv s) (hc : s.cur = some c)
    (hv1 : v ≠ St.ready) (hv2 : v ≠ St.stacked) (hv3 : v ≠ St.running) :
    Mid { s with st := upd s.st c v } := by
  obtain ⟨hr, hb, ha⟩ := cur_facts h hc
  refine ⟨⟨?_, ?_, ?_, ?_, ?_, ?_, ?_, ?_, ?_, ?_, ?_⟩, ?_, ?_⟩ <;> dsimp only
  · exact h.fifo
  · intro i; have := h.handle_once i; grind [upd_apply]
  · intro i; have := h.stacked_once i; grind [upd_apply]
  · intro d p hw; have := h.waiter_ok d p hw; grind [upd_apply]
  · exact h.once
  · exact h.active_iff
  · exact h.blocks_prev
  · exact h.loop_prev
  · exact h.callmain_block
  · exact h.calls_base
  · exact h.idle
  · intro i; have := h.running_iff i; grind [upd_apply]
  · exact hb

theorem inv_coPark (s : State) (c : Nat) (h : Inv s) (hc : s.cur = some c) : Inv (coPark s c) :=
  inv_settle _ (mid_suspend s c St.parked h hc (by simp) (by simp) (by simp))

theorem inv_coParkNext (s : State) (c : Nat) (h : Inv s) (hc : s.cur = some c) : Inv (coParkNext s c) := by
  obtain ⟨hr, hb, ha⟩ := cur_facts h hc
  unfold coParkNext
  split
  next x q hq =>
    have hx := h.handle_once x
    refine ⟨⟨?_, ?_, ?_, ?_, ?_, ?_, ?_, ?_, ?_, ?_, ?_⟩, ?_, ?_⟩ <;> dsimp only
    · rw [h.fifo, hq]; simp
    · intro i; have := h.handle_once i; simp only [hq, List.count_cons] at *; grind [upd_apply]
    · intro i; have := h.stacked_once i; simp only [hq, List.count_cons] at *; grind [upd_apply]
    · intro d p hw; have := h.waiter_ok d p hw; simp only [hq, List.count_cons] at *; grind [upd_apply]
    · intro i; have := h.once i; simp only [hq, List.count_cons, List.count_append] at *; grind
    · exact h.active_iff
    · exact h.blocks_prev
    · exact h.loop_prev
    · exact h.callmain_block
    · exact h.calls_base
    · intro _ hh; exact absurd hh hb
    · intro i; have := h.running_iff i; simp only [hq, List.count_cons] at *; grind [upd_apply]
    · have := h.cur_base; grind
  next hq => exact inv_settle _ (mid_suspend s c St.parked h hc (by simp) (by simp) (by simp))

theorem inv_coPause (s : State) (c : Nat) (h : Inv s) (hc : s.cur = some c) : Inv (coPause s c) := by
  obtain ⟨hr, hb, ha⟩ := cur_facts h hc
  unfold coPause
  split
  next hq =>
    refine ⟨⟨?_, ?_, ?_, ?_, ?_, ?_, ?_, ?_, ?_, ?_, ?_⟩, ?_, ?_⟩ <;> dsimp only
    · rw [h.fifo, hq]; simp
    · exact h.handle_once
    · exact h.stacked_once
    · exact h.waiter_ok
    · intro i; have := h.once i; simp only [List.count_append] at *; grind
    · exact h.active_iff
    · exact h.blocks_prev
    · exact h.loop_prev
    · exact h.callmain_block
    · exact h.calls_base
    · exact h.idle
    · exact h.running_iff
    · exact h.cur_base
  next x q hq =>
    have hx := h.handle_once x
    have hcc := h.handle_once c
    refine ⟨⟨?_, ?_, ?_, ?_, ?_, ?_, ?_, ?_, ?_, ?_, ?_⟩, ?_, ?_⟩ <;> dsimp only
    · rw [h.fifo, hq]; simp
    · intro i; have := h.handle_once i; simp only [hq, List.count_cons, List.count_append, List.count_nil] at *; grind [upd_apply]
    · intro i; have := h.stacked_once i; simp only [hq, List.count_cons] at *; grind [upd_apply]
    · intro d p hw; have := h.waiter_ok d p hw; simp only [hq, List.count_cons] at *; grind [upd_apply]
    · intro i; have := h.once i; simp only [hq, List.count_cons, List.count_append, List.count_nil] at *; grind
    · exact h.active_iff
    · exact h.blocks_prev
    · exact h.loop_prev
    · exact h.callmain_block
    · exact h.calls_base
    · intro _ hh; exact absurd hh hb
    · intro i; have := h.running_iff i; simp only [hq, List.count_cons] at *; grind [upd_apply]
    · have := h.cur_base; grind

theorem inv_coStart (s : State) (c d : Nat) (fut : Bool) (h : Inv s) (hc : s.cur = some c) :
    Inv (coStart s c d fut) := by
  obtain ⟨hr, hb, ha⟩ := cur_facts h hc
  unfold coStart
  split
  next hd =>
    refine ⟨⟨?_, ?_, ?_, ?_, ?_, ?_, ?_, ?_, ?_, ?_, ?_⟩, ?_, ?_⟩ <;> dsimp only
    · exact h.fifo
    · intro i; have := h.handle_once i; grind [upd_apply]
    · intro i; have := h.stacked_once i; simp only [List.count_cons] at *; grind [upd_apply]
    · intro e p hw; have := h.waiter_ok e p hw; grind [upd_apply]
    · intro i; have := h.once i; simp only [List.count_append] at *; grind
    · exact h.active_iff
    · exact h.blocks_prev
    · exact h.loop_prev
    · exact h.callmain_block
    · intro hh; exact absurd hh hb
    · exact h.idle
    · intro i; have := h.running_iff i; grind [upd_apply]
    · have := h.cur_base; grind
  next => exact h

theorem resumable_iff (s : State) (d : Nat) : resumable s d = true ↔ (s.st d = St.fresh ∨ s.st d = St.yielded) := by
  simp [resumable]

theorem inv_coGnext (s : State) (c d : Nat) (h : Inv s) (hc : s.cur = some c) : Inv (coGnext s c d) := by
  obtain ⟨hr, hb, ha⟩ := cur_facts h hc
  unfold coGnext
  split
  next hd =>
    have hd' := (resumable_iff s d).1 hd
    refine ⟨⟨?_, ?_, ?_, ?_, ?_, ?_, ?_, ?_, ?_, ?_, ?_⟩, ?_, ?_⟩ <;> dsimp only
    · exact h.fifo
    · intro i; have := h.handle_once i; grind [upd_apply]
    · intro i; have := h.stacked_once i; simp only [List.count_cons] at *; grind [upd_apply]
    · intro e p hw; have := h.waiter_ok e p hw; grind [upd_apply]
    · intro i; have := h.once i; simp only [List.count_append] at *; grind
    · exact h.active_iff
    · exact h.blocks_prev
    · exact h.loop_prev
    · exact h.callmain_block
    · intro hh; exact absurd hh hb
    · exact h.idle
    · intro i; have := h.running_iff i; grind [upd_apply]
    · have := h.cur_base; grind
  next => exact h

theorem inv_coGyield (s : State) (c : Nat) (h : Inv s) (hc : s.cur = some c) : Inv (coGyield s c) := by
  unfold coGyield
  split
  · exact inv_settle _ (mid_suspend s c St.yielded h hc (by simp) (by simp) (by simp))
  · exact h

theorem inv_coCall (s : State) (c d : Nat) (h : Inv s) (hc : s.cur = some c) : Inv (coCall s c d) := by
  obtain ⟨hr, hb, ha⟩ := cur_facts h hc
  unfold coCall
  split
  next hd =>
    refine ⟨⟨?_, ?_, ?_, ?_, ?_, ?_, ?_, ?_, ?_, ?_, ?_⟩, ?_, ?_⟩ <;> dsimp only
    · exact h.fifo
    · intro i; have := h.handle_once i; grind [upd_apply]
    · intro i; have := h.stacked_once i; grind [upd_apply]
    · intro e p hw
      by_cases he : e = d
      · subst he; simp only [upd_same] at hw; cases hw; grind [upd_apply]
      · have hw' : s.waiter e = some p := by simpa [upd_apply, he] using hw
        have := h.waiter_ok e p hw'; grind [upd_apply]
    · intro i; have := h.once i; simp only [List.count_append] at *; grind
    · exact h.active_iff
    · exact h.blocks_prev
    · exact h.loop_prev
    · exact h.callmain_block
    · exact h.calls_base
    · exact h.idle
    · intro i; have := h.running_iff i; grind [upd_apply]
    · have := h.cur_base; grind
  next => exact h

theorem mid_coJoin (s : State) (c d : Nat) (h : Inv s) (hc : s.cur = some c) :
    Mid { s with st := upd s.st c (St.waiting d), waiter := upd s.waiter d (some c) } := by
  obtain ⟨hr, hb, ha⟩ := cur_facts h hc
  refine ⟨⟨?_, ?_, ?_, ?_, ?_, ?_, ?_, ?_, ?_, ?_, ?_⟩, ?_, ?_⟩ <;> dsimp only
  · exact h.fifo
  · intro i; have := h.handle_once i; grind [upd_apply]
  · intro i; have := h.stacked_once i; grind [upd_apply]
  · intro e p hw
    by_cases he : e = d
    · subst he; simp only [upd_same] at hw; cases hw; grind [upd_apply]
    · have hw' : s.waiter e = some p := by simpa [upd_apply, he] using hw
      have := h.waiter_ok e p hw'; grind [upd_apply]
  · exact h.once
  · exact h.active_iff
  · exact h.blocks_prev
  · exact h.loop_prev
  · exact h.callmain_block
  · exact h.calls_base
  · exact h.idle
  · intro i; have := h.running_iff i; grind [upd_apply]
  · exact hb

theorem inv_coJoin (s : State) (c d : Nat) (h : Inv s) (hc : s.cur = some c) : Inv (coJoin s c d) := by
  unfold coJoin
  split
  next hd => exact inv_settle _ (mid_coJoin s c d h hc)
  next => exact h

theorem inv_coFin (s : State) (c : Nat) (h : Inv s) (hc : s.cur = some c) : Inv (coFin s c) := by
  obtain ⟨hr, hb, ha⟩ := cur_facts h hc
  unfold coFin
  split
  next p hp =>
    have hpw := h.waiter_ok c p hp
    refine ⟨⟨?_, ?_, ?_, ?_, ?_, ?_, ?_, ?_, ?_, ?_, ?_⟩, ?_, ?_⟩ <;> dsimp only
    · exact h.fifo
    · intro i; have := h.handle_once i; grind [upd_apply]
    · intro i; have := h.stacked_once i; grind [upd_apply]
    · intro e q hw
      by_cases he : e = c
      · subst he; simp [upd_same] at hw
      · have hw' : s.waiter e = some q := by simpa [upd_apply, he] using hw
        have := h.waiter_ok e q hw'; grind [upd_apply]
    · intro i; have := h.once i; simp only [List.count_append] at *; grind
    · exact h.active_iff
    · exact h.blocks_prev
    · exact h.loop_prev
    · exact h.callmain_block
    · exact h.calls_base
    · exact h.idle
    · intro i; have := h.running_iff i; grind [upd_apply]
    · have := h.cur_base; grind
  next hp => exact inv_settle _ (mid_suspend s c St.done h hc (by simp) (by simp) (by simp))

theorem inv_postJob (s : State) (cs : List Nat) (rev : Bool) (h : Inv s) : Inv (postJob s cs rev) := by
  unfold postJob
  split
  next => exact h
  next hne =>
    have hst := fun i => (collect_spec cs s.st i).1
    have hcnt := handles_count s.st cs rev
    generalize (collect s.st cs).1 = st' at hst
    generalize handles s.st cs rev = hs at hcnt
    refine ⟨⟨?_, ?_, ?_, ?_, ?_, ?_, ?_, ?_, ?_, ?_, ?_⟩, ?_, ?_⟩ <;> dsimp only
    · exact h.fifo
    · intro i
      have := h.handle_once i; have := hst i; have := hcnt i
      simp only [jobIds_snoc, List.count_append]
      unfold Hit at *
      grind [wakeable]
    · intro i
      have := h.stacked_once i; have := hst i
      unfold Hit at *
      grind [wakeable]
    · intro d p hw
      have := h.waiter_ok d p hw; have := hst p
      unfold Hit at *
      grind [wakeable]
    · intro i
      have := h.once i; have := hcnt i
      simp only [jobIds_snoc, List.count_append]
      omega
    · exact h.active_iff
    · exact h.blocks_prev
    · exact h.loop_prev
    · exact h.callmain_block
    · exact h.calls_base
    · exact h.idle
    · intro i
      have := h.running_iff i; have := hst i
      unfold Hit at *
      grind [wakeable]
    · exact h.cur_base

theorem inv_wakePar (s : State) (d : Nat) (h : Inv s) : Inv (wakePar s d) := by
  unfold wakePar
  split
  next hd =>
    refine ⟨⟨?_, ?_, ?_, ?_, ?_, ?_, ?_, ?_, ?_, ?_, ?_⟩, ?_, ?_⟩ <;> dsimp only
    · exact h.fifo
    · intro i; have := h.handle_once i
      simp only [jobIds_snoc, List.count_append, List.count_singleton] at *; grind [upd_apply]
    · intro i; have := h.stacked_once i; grind [upd_apply]
    · intro e p hw; have := h.waiter_ok e p hw; grind [upd_apply]
    · intro i; have := h.once i
      simp only [jobIds_snoc, List.count_append, List.count_singleton] at *; grind
    · exact h.active_iff
    · exact h.blocks_prev
    · exact h.loop_prev
    · exact h.callmain_block
    · exact h.calls_base
    · exact h.idle
    · intro i; have := h.running_iff i; grind [upd_apply]
    · exact h.cur_base
  next => exact h

theorem inv_coParkPar (s : State) (c : Nat) (h : Inv s) (hc : s.cur = some c) : Inv (coParkPar s c) :=
  inv_settle _ (mid_suspend s c St.pparked h hc (by simp) (by simp) (by simp))

theorem mid_coHop (s : State) (c : Nat) (h : Inv s) (hc : s.cur = some c) :
    Mid { s with st := upd s.st c St.ready, jobs := s.jobs ++ [([c], true)], made := s.made ++ [c] } := by
  obtain ⟨hr, hb, ha⟩ := cur_facts h hc
  refine ⟨⟨?_, ?_, ?_, ?_, ?_, ?_, ?_, ?_, ?_, ?_, ?_⟩, ?_, ?_⟩ <;> dsimp only
  · exact h.fifo
  · intro i; have := h.handle_once i
    simp only [jobIds_snoc, List.count_append, List.count_singleton] at *; grind [upd_apply]
  · intro i; have := h.stacked_once i; grind [upd_apply]
  · intro d p hw; have := h.waiter_ok d p hw; grind [upd_apply]
  · intro i; have := h.once i
    simp only [jobIds_snoc, List.count_append, List.count_singleton] at *; grind
  · exact h.active_iff
  · exact h.blocks_prev
  · exact h.loop_prev
  · exact h.callmain_block
  · exact h.calls_base
  · exact h.idle
  · intro i; have := h.running_iff i; grind [upd_apply]
  · exact hb

theorem inv_coHop (s : State) (c : Nat) (h : Inv s) (hc : s.cur = some c) : Inv (coHop s c) :=
  inv_settle _ (mid_coHop s c h hc)

theorem inv_coHopCur (s : State) (c : Nat) (h : Inv s) (hc : s.cur = some c) : Inv (coHopCur s c) := by
  unfold coHopCur
  split
  · exact inv_coHop s c h hc
  · exact h

theorem getLast_split {α} (hs : List α) (out : α) (h : hs.getLast? = some out) : hs = hs.dropLast ++ [out] := by
  obtain ⟨ys, rfl⟩ := List.getLast?_eq_some_iff.1 h
  simp

theorem inv_coAwaitSp (s : State) (c : Nat) (cs : List Nat) (rev : Bool) (h : Inv s) (hc : s.cur = some c) :
    Inv (coAwaitSp s c cs rev) := by
  obtain ⟨hr, hb, ha⟩ := cur_facts h hc
  unfold coAwaitSp
  have hst := fun i => (collect_spec cs s.st i).1
  have hcnt := handles_count s.st cs rev
  generalize (collect s.st cs).1 = st' at hst
  generalize handles s.st cs rev = hs at hcnt
  split
  next => exact h
  next out ho =>
    have hsplit := getLast_split hs out ho
    generalize hs.dropLast = rest at hsplit
    subst hsplit
    have hco : ¬ Hit s.st cs c := by simp [Hit, hr, wakeable]
    have hout := hcnt out
    simp only [List.count_append, List.count_singleton, beq_self_eq_true, if_true] at hout
    have hHo : Hit s.st cs out := by
      by_cases hh : Hit s.st cs out
      · exact hh
      · simp [hh] at hout
    have hoc : out ≠ c := by intro e; subst e; exact hco hHo
    refine ⟨⟨?_, ?_, ?_, ?_, ?_, ?_, ?_, ?_, ?_, ?_, ?_⟩, ?_, ?_⟩ <;> dsimp only
    · rw [h.fifo]; simp
    · intro i
      have := h.handle_once i; have := hst i; have := hcnt i
      simp only [List.count_append, List.count_singleton, List.count_cons, List.count_nil] at *
      unfold Hit at *
      grind [wakeable, upd_apply]
    · intro i
      have := h.stacked_once i; have := hst i
      unfold Hit at *
      grind [wakeable, upd_apply]
    · intro d p hw
      have := h.waiter_ok d p hw; have := hst p
      unfold Hit at *
      grind [wakeable, upd_apply]
    · intro i
      have := h.once i; have := hcnt i
      simp only [List.count_append, List.count_singleton, List.count_cons, List.count_nil] at *
      grind
    · exact h.active_iff
    · exact h.blocks_prev
    · exact h.loop_prev
    · exact h.callmain_block
    · exact h.calls_base
    · intro _ hh; exact absurd hh hb
    · intro i
      have := h.running_iff i; have := hst i
      unfold Hit at *
      grind [wakeable, upd_apply]
    · have := h.cur_base; grind

/-- `co_await` of a suspend point that holds the awaiting coroutine's own handle -/
theorem inv_coAwaitSelf (s : State) (c : Nat) (pre post : List Nat) (h : Inv s) (hc : s.cur = some c) :
    Inv (coAwaitSelf s c pre post) := by
  obtain ⟨hr, hb, ha⟩ := cur_facts h hc
  unfold coAwaitSelf
  have hst1 := fun i => (collect_spec pre s.st i).1
  have hcnt1 := fun i => (collect_spec pre s.st i).2
  have hst2 := fun i => (collect_spec post (collect s.st pre).1 i).1
  have hcnt2 := fun i => (collect_spec post (collect s.st pre).1 i).2
  generalize (collect (collect s.st pre).1 post).1 = st2 at hst2
  generalize (collect (collect s.st pre).1 post).2 = h2 at hcnt2
  generalize (collect s.st pre).1 = st1 at hst1 hst2 hcnt2
  generalize (collect s.st pre).2 = h1 at hcnt1
  have hc1 : ¬ Hit s.st pre c := by simp [Hit, hr, wakeable]
  have hst1c : st1 c = St.running := by have := hst1 c; simp [hc1] at this; rw [this, hr]
  have hc2 : ¬ Hit st1 post c := by simp [Hit, hst1c, wakeable]
  split
  next hnone =>
    have hnil : h2 = [] := by simpa using hnone
    subst hnil
    have hno : ∀ i, ¬ Hit st1 post i := by
      intro i hh
      have := hcnt2 i
      simp [hh] at this
    refine ⟨⟨?_, ?_, ?_, ?_, ?_, ?_, ?_, ?_, ?_, ?_, ?_⟩, ?_, ?_⟩ <;> dsimp only
    · rw [h.fifo]; simp
    · intro i
      have := h.handle_once i; have := hst1 i; have := hcnt1 i; have := hst2 i; have := hno i
      simp only [List.count_append] at *
      unfold Hit at *
      grind [wakeable]
    · intro i
      have := h.stacked_once i; have := hst1 i; have := hst2 i; have := hno i
      unfold Hit at *
      grind [wakeable]
    · intro d p hw
      have := h.waiter_ok d p hw; have := hst1 p; have := hst2 p; have := hno p
      unfold Hit at *
      grind [wakeable]
    · intro i
      have := h.once i; have := hcnt1 i
      simp only [List.count_append, List.count_singleton, List.count_cons, List.count_nil] at *
      grind
    · exact h.active_iff
    · exact h.blocks_prev
    · exact h.loop_prev
    · exact h.callmain_block
    · exact h.calls_base
    · intro _ hh; exact absurd hh hb
    · intro i
      have := h.running_iff i; have := hst1 i; have := hst2 i; have := hno i
      unfold Hit at *
      grind [wakeable]
    · exact h.cur_base
  next out ho =>
    have hsplit := getLast_split h2 out ho
    generalize h2.dropLast = rest at hsplit
    subst hsplit
    have hout := hcnt2 out
    simp only [List.count_append, List.count_singleton, beq_self_eq_true, if_true] at hout
    have hHo : Hit st1 post out := by
      by_cases hh : Hit st1 post out
      · exact hh
      · simp [hh] at hout
    have hoc : out ≠ c := by intro e; subst e; exact hc2 hHo
    refine ⟨⟨?_, ?_, ?_, ?_, ?_, ?_, ?_, ?_, ?_, ?_, ?_⟩, ?_, ?_⟩ <;> dsimp only
    · rw [h.fifo]; simp
    · intro i
      have := h.handle_once i; have := hst1 i; have := hcnt1 i; have := hst2 i; have := hcnt2 i
      simp only [List.count_append, List.count_singleton, List.count_cons, List.count_nil] at *
      unfold Hit at *
      grind [wakeable, upd_apply]
    · intro i
      have := h.stacked_once i; have := hst1 i; have := hst2 i
      have := hst1 out; have := hst2 out
      clear ho hout hcnt2 hcnt1
      unfold Hit at *
      simp only [upd_apply]
      grind [wakeable]
    · intro d p hw
      have := h.waiter_ok d p hw; have := hst1 p; have := hst2 p
      unfold Hit at *
      grind [wakeable, upd_apply]
    · intro i
      have := h.once i; have := hcnt1 i; have := hcnt2 i
      simp only [List.count_append, List.count_singleton, List.count_cons, List.count_nil] at *
      grind
    · exact h.active_iff
    · exact h.blocks_prev
    · exact h.loop_prev
    · exact h.callmain_block
    · exact h.calls_base
    · intro _ hh; exact absurd hh hb
    · intro i
      have := h.running_iff i; have := hst1 i; have := hst2 i
      have := hst1 out; have := hst2 out
      clear ho hout hcnt2 hcnt1
      unfold Hit at *
      simp only [upd_apply]
      grind [wakeable]
    · have := h.cur_base; grind

/-- facts about ordinary code being in control -/
theorem main_facts {s : State} (h : Inv s) (hc : s.cur = none) :
    s.base = none ∧ s.calls = [] ∧ (∀ i, s.st i ≠ St.running) ∧ (s.active = true ↔ s.blocks ≠ []) := by
  have hb := h.cur_base.1 hc
  refine ⟨hb, h.calls_base hb, ?_, ?_⟩
  · intro i hi; have := (h.running_iff i).1 hi; simp [hc] at this
  · have := h.active_iff; simp [hb] at this; simpa using this

theorem mid_mainWake (s : State) (cs : List Nat) (rev : Bool) (h : Inv s) (hc : s.cur = none)
    (ha : ¬ s.active = true) :
    Mid { s with st := (collect s.st cs).1, active := true,
                 base := some (Base.loop (handles s.st cs rev) s.active),
                 made := s.made ++ handles s.st cs rev } := by
  obtain ⟨hb, hcl, hnr, hab⟩ := main_facts h hc
  have hbl : s.blocks = [] := by
    by_cases hh : s.blocks = []
    · exact hh
    · exact absurd (hab.2 hh) ha
  have hrd := h.idle hbl hb
  have haf : s.active = false := by simpa using ha
  have hst := fun i => (collect_spec cs s.st i).1
  have hcnt := handles_count s.st cs rev
  generalize (collect s.st cs).1 = st' at hst
  generalize handles s.st cs rev = hs at hcnt
  refine ⟨⟨?_, ?_, ?_, ?_, ?_, ?_, ?_, ?_, ?_, ?_, ?_⟩, ?_, ?_⟩ <;> dsimp only
  · exact h.fifo
  · intro i
    have := h.handle_once i; have := hst i; have := hcnt i
    simp only [hrd, hb, loopIds, List.count_nil] at *
    unfold Hit at *
    grind [wakeable]
  · intro i
    have := h.stacked_once i; have := hst i
    unfold Hit at *
    grind [wakeable]
  · intro d p hw
    have := h.waiter_ok d p hw; have := hst p
    unfold Hit at *
    grind [wakeable]
  · intro i
    have := h.once i; have := hcnt i
    simp only [hrd, hb, loopIds, List.count_nil, List.count_append] at *
    omega
  · simp
  · exact h.blocks_prev
  · intro l p hh; cases hh; simp [haf, hbl]
  · intro hh; cases hh
  · intro hh; cases hh
  · intro _ hh; cases hh
  · intro i
    have := hnr i; have := hst i
    unfold Hit at *
    grind [wakeable]
  · simp

theorem inv_mainWake (s : State) (cs : List Nat) (rev : Bool) (h : Inv s) (hc : s.cur = none) :
    Inv (mainWake s cs rev) := by
  unfold mainWake
  split
  next ha => exact inv_enqueue s cs rev h ha
  next ha =>
    split
    next => exact h
    next hne => exact inv_settle _ (mid_mainWake s cs rev h hc ha)

theorem inv_mainStart (s : State) (d : Nat) (h : Inv s) (hc : s.cur = none) : Inv (mainStart s d) := by
  obtain ⟨hb, hcl, hnr, hab⟩ := main_facts h hc
  unfold mainStart
  split
  next hd =>
    split
    next ha =>
      refine ⟨⟨?_, ?_, ?_, ?_, ?_, ?_, ?_, ?_, ?_, ?_, ?_⟩, ?_, ?_⟩ <;> dsimp only
      · exact h.fifo
      · intro i; have := h.handle_once i; simp only [hb, loopIds] at *; grind [upd_apply]
      · intro i; have := h.stacked_once i; grind [upd_apply]
      · intro e p hw; have := h.waiter_ok e p hw; grind [upd_apply]
      · intro i; have := h.once i; simp only [hb, loopIds, List.count_append] at *; grind
      · simp [ha]
      · exact h.blocks_prev
      · intro l p hh; cases hh
      · intro _; exact hab.1 ha
      · intro hh; cases hh
      · intro _ hh; cases hh
      · intro i; have := hnr i; grind [upd_apply]
      · simp
    next ha =>
      have hbl : s.blocks = [] := by
        by_cases hh : s.blocks = []
        · exact hh
        · exact absurd (hab.2 hh) ha
      have haf : s.active = false := by simpa using ha
      refine ⟨⟨?_, ?_, ?_, ?_, ?_, ?_, ?_, ?_, ?_, ?_, ?_⟩, ?_, ?_⟩ <;> dsimp only
      · exact h.fifo
      · intro i; have := h.handle_once i; simp only [hb, loopIds] at *; grind [upd_apply]
      · intro i; have := h.stacked_once i; grind [upd_apply]
      · intro e p hw; have := h.waiter_ok e p hw; grind [upd_apply]
      · intro i; have := h.once i; simp only [hb, loopIds, List.count_append] at *; grind
      · simp
      · exact h.blocks_prev
      · intro l p hh; cases hh; simp [haf, hbl]
      · intro hh; cases hh
      · intro hh; cases hh
      · intro _ hh; cases hh
      · intro i; have := hnr i; grind [upd_apply]
      · simp
  next => exact h

theorem inv_mainGnext (s : State) (d : Nat) (h : Inv s) (hc : s.cur = none) : Inv (mainGnext s d) := by
  obtain ⟨hb, hcl, hnr, hab⟩ := main_facts h hc
  unfold mainGnext
  split
  next hd =>
    have hd' := (resumable_iff s d).1 hd
    split
    next ha =>
      refine ⟨⟨?_, ?_, ?_, ?_, ?_, ?_, ?_, ?_, ?_, ?_, ?_⟩, ?_, ?_⟩ <;> dsimp only
      · exact h.fifo
      · intro i; have := h.handle_once i; simp only [hb, loopIds] at *; grind [upd_apply]
      · intro i; have := h.stacked_once i; grind [upd_apply]
      · intro e p hw; have := h.waiter_ok e p hw; grind [upd_apply]
      · intro i; have := h.once i; simp only [hb, loopIds, List.count_append] at *; grind
      · simp [ha]
      · exact h.blocks_prev
      · intro l p hh; cases hh
      · intro _; exact hab.1 ha
      · intro hh; cases hh
      · intro _ hh; cases hh
      · intro i; have := hnr i; grind [upd_apply]
      · simp
    next ha =>
      have hbl : s.blocks = [] := by
        by_cases hh : s.blocks = []
        · exact hh
        · exact absurd (hab.2 hh) ha
      have haf : s.active = false := by simpa using ha
      refine ⟨⟨?_, ?_, ?_, ?_, ?_, ?_, ?_, ?_, ?_, ?_, ?_⟩, ?_, ?_⟩ <;> dsimp only
      · exact h.fifo
      · intro i; have := h.handle_once i; simp only [hb, loopIds] at *; grind [upd_apply]
      · intro i; have := h.stacked_once i; grind [upd_apply]
      · intro e p hw; have := h.waiter_ok e p hw; grind [upd_apply]
      · intro i; have := h.once i; simp only [hb, loopIds, List.count_append] at *; grind
      · simp
      · exact h.blocks_prev
      · intro l p hh; cases hh; simp [haf, hbl]
      · intro hh; cases hh
      · intro hh; cases hh
      · intro _ hh; cases hh
      · intro i; have := hnr i; grind [upd_apply]
      · simp
  next => exact h

theorem inv_mainEnter (s : State) (h : Inv s) (hc : s.cur = none) : Inv (mainEnter s) := by
  obtain ⟨hb, hcl, hnr, hab⟩ := main_facts h hc
  unfold mainEnter
  refine ⟨⟨?_, ?_, ?_, ?_, ?_, ?_, ?_, ?_, ?_, ?_, ?_⟩, ?_, ?_⟩ <;> dsimp only
  · exact h.fifo
  · exact h.handle_once
  · exact h.stacked_once
  · exact h.waiter_ok
  · exact h.once
  · simp
  · refine ⟨?_, h.blocks_prev⟩
    cases hbl : s.blocks with
    | nil =>
      have : ¬ s.active = true := fun ha => (hab.1 ha) hbl
      simpa using this
    | cons b bs =>
      have := hab.2 (by simp [hbl])
      simpa using this
  · intro l p hh; rw [hb] at hh; cases hh
  · intro hh; rw [hb] at hh; cases hh
  · exact h.calls_base
  · intro hh; cases hh
  · exact h.running_iff
  · exact h.cur_base

theorem mid_mainLeave (s : State) (p : Bool) (bs : List Bool) (h : Inv s) (hc : s.cur = none)
    (hbl : s.blocks = p :: bs) : Mid { s with blocks := bs, base := some (Base.loop [] p) } := by
  obtain ⟨hb, hcl, hnr, hab⟩ := main_facts h hc
  have hp := h.blocks_prev
  rw [hbl] at hp
  refine ⟨⟨?_, ?_, ?_, ?_, ?_, ?_, ?_, ?_, ?_, ?_, ?_⟩, ?_, ?_⟩ <;> dsimp only
  · exact h.fifo
  · intro i; have := h.handle_once i; simp only [hb, loopIds] at *; exact this
  · exact h.stacked_once
  · exact h.waiter_ok
  · intro i; have := h.once i; simp only [hb, loopIds] at *; exact this
  · have := hab.2 (by simp [hbl]); simp [this]
  · exact hp.2
  · intro l q hh; cases hh; exact hp.1
  · intro hh; cases hh
  · intro hh; cases hh
  · intro _ hh; cases hh
  · exact hnr
  · simp

theorem inv_mainLeave (s : State) (h : Inv s) (hc : s.cur = none) : Inv (mainLeave s) := by
  unfold mainLeave
  split
  next p bs hbl => exact inv_settle _ (mid_mainLeave s p bs h hc hbl)
  next => exact h

theorem mid_mainJob (s : State) (hs : List Nat) (k : Bool) (js : List (List Nat × Bool)) (h : Inv s)
    (hc : s.cur = none) (hidle : s.active = false ∧ s.blocks = []) (hj : s.jobs = (hs, k) :: js) :
    Mid { s with jobs := js, active := true, base := some (Base.loop hs s.active), worker := k } := by
  obtain ⟨hb, hcl, hnr, hab⟩ := main_facts h hc
  obtain ⟨haf, hbl⟩ := hidle
  have hrd := h.idle hbl hb
  refine ⟨⟨?_, ?_, ?_, ?_, ?_, ?_, ?_, ?_, ?_, ?_, ?_⟩, ?_, ?_⟩ <;> dsimp only
  · exact h.fifo
  · intro i; have := h.handle_once i
    simp only [hj, hb, hrd, loopIds, jobIds_cons, List.count_append, List.count_nil] at *; omega
  · exact h.stacked_once
  · exact h.waiter_ok
  · intro i; have := h.once i
    simp only [hj, hb, hrd, loopIds, jobIds_cons, List.count_append, List.count_nil] at *; omega
  · simp
  · exact h.blocks_prev
  · intro l p hh; cases hh; simp [haf, hbl]
  · intro hh; cases hh
  · intro hh; cases hh
  · intro _ hh; cases hh
  · exact hnr
  · simp

theorem inv_mainJob (s : State) (h : Inv s) (hc : s.cur = none) : Inv (mainJob s) := by
  unfold mainJob
  split
  next hidle =>
    split
    next hs k js hj => exact inv_settle _ (mid_mainJob s hs k js h hc hidle hj)
    next => exact h
  next => exact h

theorem inv_step (s : State) (a : Act) (h : Inv s) : Inv (step s a) := by
  unfold step
  split
  next c hc =>
    obtain ⟨hr, hb, ha⟩ := cur_facts h hc
    cases a with
    | wake cs m rev =>
      cases m with
      | discard => exact inv_enqueue s cs rev h ha
      | await => exact inv_coAwaitSp s c cs rev h hc
      | par => exact inv_postJob s cs rev h
    | parkPar => exact inv_coParkPar s c h hc
    | wakePar d => exact inv_wakePar s d h
    | hop => exact inv_coHop s c h hc
    | hopCur => exact inv_coHopCur s c h hc
    | job => exact h
    | fwait => exact h
    | park => exact inv_coPark s c h hc
    | parkNext => exact inv_coParkNext s c h hc
    | pause => exact inv_coPause s c h hc
    | start d fut => exact inv_coStart s c d fut h hc
    | gnext d => exact inv_coGnext s c d h hc
    | gyield => exact inv_coGyield s c h hc
    | awaitSelf pre post => exact inv_coAwaitSelf s c pre post h hc
    | call d => exact inv_coCall s c d h hc
    | join d => exact inv_coJoin s c d h hc
    | fin => exact inv_coFin s c h hc
    | enter => exact h
    | leave => exact h
  next hc =>
    cases a with
    | wake cs m rev =>
      cases m with
      | discard => exact inv_mainWake s cs rev h hc
      | await => exact inv_mainWake s cs rev h hc
      | par => exact inv_postJob s cs rev h
    | wakePar d => exact inv_wakePar s d h
    | job => exact inv_mainJob s h hc
    | parkPar => exact h
    | hop => exact h
    | hopCur => exact h
    | fwait => exact h
    | start d fut => exact inv_mainStart s d h hc
    | gnext d => exact inv_mainGnext s d h hc
    | gyield => exact h
    | enter => exact inv_mainEnter s h hc
    | leave => exact inv_mainLeave s h hc
    | park => exact h
    | parkNext => exact h
    | pause => exact h
    | awaitSelf pre post => exact h
    | call d => exact h
    | join d => exact h
    | fin => exact h

theorem inv_run (acts : List Act) : ∀ (s : State), Inv s → Inv (run s acts) := by
  induction acts with
  | nil => intro s h; exact h
  | cons a as ih => intro s h; exact ih (step s a) (inv_step s a h)

/-- `enq` and `deq` only grow at the end -/
def Grows (s t : State) : Prop := s.enq <+: t.enq ∧ s.deq <+: t.deq

theorem grows_refl (s : State) : Grows s s := ⟨List.prefix_refl _, List.prefix_refl _⟩
theorem grows_trans {a b c : State} (h1 : Grows a b) (h2 : Grows b c) : Grows a c :=
  ⟨h1.1.trans h2.1, h1.2.trans h2.2⟩

theorem grows_settle (s : State) : Grows s (settle s) := by
  unfold settle Grows
  split
  · simp
  · split
    · simp
    · simp
    · simp
    · split <;> simp

theorem grows_settle_of (s m : State) (he : m.enq = s.enq) (hd : m.deq = s.deq) : Grows s (settle m) := by
  have := grows_settle m
  unfold Grows at *
  rw [he, hd] at this
  exact this

theorem grows_step (s : State) (a : Act) : Grows s (step s a) := by
  unfold step
  split
  next c hc =>
    cases a with
    | wake cs m rev =>
      cases m with
      | discard => simp [coStep, enqueue, Grows]
      | await =>
        simp only [coStep, coAwaitSp]
        split
        · exact grows_refl s
        · simp [Grows, List.append_assoc]
      | par => simp only [coStep, postJob]; split <;> simp [Grows]
    | parkPar => simp only [coStep, coParkPar]; exact grows_settle_of s _ rfl rfl
    | wakePar d => simp only [coStep, wakePar]; split <;> simp [Grows]
    | hop => simp only [coStep, coHop]; exact grows_settle_of s _ rfl rfl
    | hopCur =>
      simp only [coStep, coHopCur, coHop]
      split
      · exact grows_settle_of s _ rfl rfl
      · exact grows_refl s
    | job => exact grows_refl s
    | fwait => exact grows_refl s
    | park => simp only [coStep, coPark]; exact grows_settle_of s _ rfl rfl
    | parkNext =>
      simp only [coStep, coParkNext]
      split
      · simp [Grows]
      · exact grows_settle_of s _ rfl rfl
    | pause =>
      simp only [coStep, coPause]
      split <;> simp [Grows]
    | start d fut => simp only [coStep, coStart]; split <;> simp [Grows]
    | gnext d => simp only [coStep, coGnext]; split <;> simp [Grows]
    | gyield =>
      simp only [coStep, coGyield]
      split
      · exact grows_settle_of s _ rfl rfl
      · exact grows_refl s
    | awaitSelf pre post =>
      simp only [coStep, coAwaitSelf]
      split <;> simp [Grows, List.append_assoc]
    | call d => simp only [coStep, coCall]; split <;> simp [Grows]
    | join d =>
      simp only [coStep, coJoin]
      split
      · exact grows_settle_of s _ rfl rfl
      · exact grows_refl s
    | fin =>
      simp only [coStep, coFin]
      split
      · simp [Grows]
      · exact grows_settle_of s _ rfl rfl
    | enter => exact grows_refl s
    | leave => exact grows_refl s
  next hc =>
    cases a with
    | wake cs m rev =>
      cases m with
      | par => simp only [mainStep, postJob]; split <;> simp [Grows]
      | discard =>
        simp only [mainStep, mainWake]
        split
        · simp [enqueue, Grows]
        · split
          · exact grows_refl s
          · exact grows_settle_of s _ rfl rfl
      | await =>
        simp only [mainStep, mainWake]
        split
        · simp [enqueue, Grows]
        · split
          · exact grows_refl s
          · exact grows_settle_of s _ rfl rfl
    | wakePar d => simp only [mainStep, wakePar]; split <;> simp [Grows]
    | job =>
      simp only [mainStep, mainJob]
      split
      · split
        · exact grows_settle_of s _ rfl rfl
        · exact grows_refl s
      · exact grows_refl s
    | parkPar => exact grows_refl s
    | hop => exact grows_refl s
    | hopCur => exact grows_refl s
    | fwait => exact grows_refl s
    | start d fut =>
      simp only [mainStep, mainStart]
      split
      · split <;> simp [Grows]
      · exact grows_refl s
    | gnext d =>
      simp only [mainStep, mainGnext]
      split
      · split <;> simp [Grows]
      · exact grows_refl s
    | gyield => exact grows_refl s
    | enter => simp [mainStep, mainEnter, Grows]
    | leave =>
      simp only [mainStep, mainLeave]
      split
      · exact grows_settle_of s _ rfl rfl
      · exact grows_refl s
    | park => exact grows_refl s
    | parkNext => exact grows_refl s
    | pause => exact grows_refl s
    | awaitSelf pre post => exact grows_refl s
    | call d => exact grows_refl s
    | join d => exact grows_refl s
    | fin => exact grows_refl s

theorem grows_run (acts : List Act) : ∀ s : State, Grows s (run s acts) := by
  induction acts with
  | nil => intro s; exact grows_refl s
  | cons a as ih => intro s; exact grows_trans (grows_step s a) (ih (step s a))

/-- whoever `settle` hands control to was blocked in a nested `start()` or was ready -/
theorem settle_cur (s : State) (h : Mid s) (x : Nat) (hx : (settle s).cur = some x) :
    s.st x = St.stacked ∨ s.st x = St.ready := by
  unfold settle at hx
  split at hx
  next p ps hc =>
    simp at hx; subst hx
    have := h.stacked_once p; simp [hc] at this
    left; grind
  next hc =>
    split at hx
    · simp at hx
    · simp at hx
    next hd rest prev hb =>
      simp at hx; subst hx
      have := h.handle_once hd; simp [hb, loopIds] at this
      right; grind
    next prev hb =>
      split at hx
      next y q hr =>
        simp at hx; subst hx
        have := h.handle_once y; simp [hr] at this
        right; grind
      · simp at hx

/-- sharper form: a ready coroutine chosen by `settle` had its handle in the ready queue or in the loop -/
theorem settle_cur' (s : State) (h : Mid s) (x : Nat) (hx : (settle s).cur = some x) :
    s.st x = St.stacked ∨ 0 < s.ready.count x + (loopIds s.base).count x := by
  unfold settle at hx
  split at hx
  next p ps hc =>
    simp at hx; subst hx
    have := h.stacked_once p; simp [hc] at this
    left; grind
  next hc =>
    split at hx
    · simp at hx
    · simp at hx
    next hd rest prev hb =>
      simp at hx; subst hx
      right; simp [hb, loopIds]; omega
    next prev hb =>
      split at hx
      next y q hr =>
        simp at hx; subst hx
        right; simp [hr]; omega
      · simp at hx

theorem collect_running (st : Nat → St) (cs : List Nat) (i : Nat) :
    (collect st cs).1 i = St.running ↔ st i = St.running := by
  have := (collect_spec cs st i).1
  unfold Hit at this
  grind [wakeable]

theorem last_of_suffix {α} (X r D : List α) (c : α) (hr : r ≠ []) (h : X ++ [c] = D ++ r) : c ∈ r := by
  obtain ⟨r', l, rfl⟩ : ∃ r' l, r = r' ++ [l] :=
    ⟨r.dropLast, r.getLast hr, (List.dropLast_concat_getLast hr).symm⟩
  rw [← List.append_assoc] at h
  have := List.append_inj_right' h rfl
  simp at this
  subst this
  simp

theorem settle_from_upd (m s : State) (c : Nat) (v : St) (hm : Mid m) (hst : m.st = upd s.st c v)
    (hv1 : v ≠ St.stacked) (hv2 : v ≠ St.ready) (x : Nat) (hx : (settle m).cur = some x) :
    s.st x = St.stacked ∨ s.st x = St.ready := by
  have := settle_cur m hm x hx
  rw [hst] at this
  grind [upd_apply]

/-! ## Lists of any length: helper lemmas for the width-independent statements of `Props/C05.lean` -/

/-- all of `cs` are wakeable and pairwise different: every one of them contributes its handle, in order -/
theorem collect_all (cs : List Nat) : ∀ st : Nat → St, cs.Nodup → (∀ i ∈ cs, wakeable (st i) = true) →
    (collect st cs).2 = cs := by
  induction cs with
  | nil => intro st _ _; rfl
  | cons c cs ih =>
    intro st hn hw
    have hc : wakeable (st c) = true := hw c (List.mem_cons_self ..)
    have hn' := List.nodup_cons.1 hn
    simp only [collect, hc, if_true]
    congr 1
    apply ih _ hn'.2
    intro i hi
    have : i ≠ c := fun e => hn'.1 (e ▸ hi)
    simp [upd, this, hw i (List.mem_cons_of_mem _ hi)]


/-- a coroutine running directly under the flush loop finishes, and so does everybody who waits in the ready queue `q` (of any
length): they are taken from the queue one after the other, in order, and the thread leaves coroutine mode -/
theorem drain_fins (q : List Nat) : ∀ (s : State) (c : Nat), s.cur = some c → s.calls = [] →
    s.base = some (Base.loop [] false) → s.ready = q → (∀ i, s.waiter i = none) →
    (run s (List.replicate (q.length + 1) Act.fin)).cur = none
    ∧ (run s (List.replicate (q.length + 1) Act.fin)).ready = []
    ∧ (run s (List.replicate (q.length + 1) Act.fin)).deq = s.deq ++ q
    ∧ (run s (List.replicate (q.length + 1) Act.fin)).runs = s.runs ++ q
    ∧ (run s (List.replicate (q.length + 1) Act.fin)).active = false
    ∧ (run s (List.replicate (q.length + 1) Act.fin)).blocks = s.blocks := by
  induction q with
  | nil =>
    intro s c hc hcl hb hr hw
    simp [run, step, hc, coStep, coFin, hw c, settle, hcl, hb, hr]
  | cons x q ih =>
    intro s c hc hcl hb hr hw
    have hrun : run s (List.replicate ((x :: q).length + 1) Act.fin)
        = run (step s Act.fin) (List.replicate (q.length + 1) Act.fin) := by
      simp [run, List.replicate_succ]
    have hs : step s Act.fin =
        { s with st := upd (upd s.st c St.done) x St.running, ready := q, deq := s.deq ++ [x], cur := some x,
                 runs := s.runs ++ [x] } := by
      simp [step, hc, coStep, coFin, hw c, settle, hcl, hb, hr]
    rw [hrun, hs]
    have := ih { s with st := upd (upd s.st c St.done) x St.running, ready := q, deq := s.deq ++ [x], cur := some x,
                        runs := s.runs ++ [x] } x rfl hcl hb rfl hw
    simpa using this


end Cocls.Exec
