import CoclsModel.Mutex
/-
Pointer-level micro-step model of `cocls::mutex` (mutex.h after the `fix:` of `subscribe`) — the layer below `Mutex.lean`.

`Mutex.lean` keeps the request stack `_requests` as a `List Elem` and the owner-private FIFO `_queue` as a `List Nat`.  The
code manipulates both through raw `awaiter::_next` links.  Here the links are links:

`requests : Ptr`        — the atomic `_requests` (`null` = free, `door` = the doorman `&awaiter::instance`, `node a k`)
`next : Node → Ptr`     — the plain field `_next` of request node `(a, k)` (awaiter of agent `a` at address key `k`)
`doorNext : Ptr`        — `awaiter::instance._next` (touched only if a walk runs into the doorman: never, see `Repr`)
`queue : Ptr`           — the plain member `_queue`
`pend a`                — the local variables `(req, stop)` of agent `a`'s `build_queue` between its `exchange` and its
                          loop: the exchange is a scheduling point of the harness, the loop is the plain prefix of the
                          caller's *next* segment, so other threads run while the detached chain is reachable only from
                          this local variable.

Everything else (ownership objects, flags, rounds, the executor glue `cur`/`rq`/`tmain`, the ghost accounting) is the same as in
`Mutex.State`; `agentStep`/`threadStep` mirror `Mutex.agentStep`/`Mutex.threadStep` branch by branch and differ only where
the code touches `_requests`, `_queue` or a `_next` field.  `MutexPtrProofs.lean` proves that this machine refines `Mutex.lean`
(`Repr`, `agentStep_sim`, `threadStep_sim`) and that no step touches a request node that is not alive.

Ghost (never consulted by control flow): `live` (a request node is alive from the segment that sets it up until its
owner, granted the lock, continues: the `crit`/`critS` step), `acc` (the plain node-field accesses of the last step:
agent, node, field, read/write), `viol` (some access touched a node that was not alive, or dereferenced null / the doorman),
`asrt` (an `assert` of mutex.h would have failed).
-/
namespace Cocls.MutexPtr
open Cocls.Mutex (Elem Seen Flavour Rel Round AKind Cfg Pc TMain Ev Outcome upd)

/-- a request node: the awaiter of agent `a` at address key `k` (`Mutex.keyOf`) -/
abbrev Node := Nat × Nat

/-- `null | door | node a k` — the values of `_requests`, `_queue` and `_next`; the very type `Mutex.Seen` the list-level
    model uses for what a CAS observed -/
abbrev Ptr := Seen

def updN {α} (f : Node → α) (n : Node) (v : α) : Node → α := fun m => if m = n then v else f m

@[simp] theorem updN_same {α} (f : Node → α) (n : Node) (v : α) : updN f n v n = v := by simp [updN]
theorem updN_apply {α} (f : Node → α) (n m : Node) (v : α) : updN f n v m = if m = n then v else f m := rfl

inductive Field where
  | next   -- `awaiter::_next`
  | body   -- `_resume_fn` / `_handle_addr` (written when the awaiter is set up, read by `resume()`)
  deriving DecidableEq, Repr, Inhabited

structure Access where
  agent : Nat
  node : Ptr
  field : Field
  write : Bool
  deriving DecidableEq, Repr, Inhabited

structure State where
  requests : Ptr := Seen.null
  next : Node → Ptr := fun _ => Seen.null
  doorNext : Ptr := Seen.null
  queue : Ptr := Seen.null
  pend : Nat → Option (Ptr × Ptr) := fun _ => none
  -- as in `Mutex.State`
  flag : Nat → Bool := fun _ => false
  flagNo : Nat → Nat := fun _ => 0
  flagTh : Nat → Nat := fun _ => 0
  flagIx : Nat → Nat := fun _ => 0
  held : Nat → Bool := fun _ => false
  aux : Nat → Bool := fun _ => false
  pc : Nat → Pc
  round : Nat → Nat := fun _ => 0
  incs : Nat := 0
  cur : Nat → Option Nat := fun _ => none
  rq : Nat → List Nat := fun _ => []
  tmain : Nat → TMain
  -- ghost, as in `Mutex.State`
  grants : Nat → Nat := fun _ => 0
  stamp : Nat → Nat := fun _ => 0
  clock : Nat := 0
  grantLog : List Nat := []
  fails : Nat → Nat := fun _ => 0
  grantReqs : List (Nat × Nat) := []
  failReqs : List (Nat × Nat) := []
  bad : Bool := false
  -- ghost of the pointer layer
  live : Node → Bool := fun _ => false
  acc : List Access := []
  viol : Bool := false
  asrt : Bool := false

def init (c : Cfg) : State :=
  { pc := fun i => if i < c.n then Pc.top else Pc.done,
    tmain := fun i => if i < c.n then (if c.kind i = AKind.sync then TMain.syncBody else TMain.coroStart)
                      else TMain.finished }

def setPc (s : State) (a : Nat) (p : Pc) : State := { s with pc := upd s.pc a p }

def curRound (c : Cfg) (s : State) (a : Nat) : Option Round := (c.rounds a)[s.round a]?
def flOf (c : Cfg) (s : State) (a : Nat) : Option Flavour := (curRound c s a).map (·.fl)
def relOf (c : Cfg) (s : State) (a : Nat) : Option Rel := (curRound c s a).map (·.rel)
def keyOf (c : Cfg) (s : State) (a : Nat) : Nat :=
  match flOf c s a with
  | some Flavour.co => 0
  | some Flavour.cb => 0
  | _ => s.round a + 1
def objOf (c : Cfg) (s : State) (a : Nat) : Nat :=
  match curRound c s a with
  | some r => if r.shared then c.n else a
  | none => a

/-! ## ghost: node accesses -/

def isLive (s : State) : Ptr → Bool
  | Seen.node a k => s.live (a, k)
  | _ => false

/-- agent `a` reads (`w = false`) / writes field `f` of the node `p` points to -/
def touch (s : State) (a : Nat) (p : Ptr) (f : Field) (w : Bool) : State :=
  { s with acc := s.acc ++ [⟨a, p, f, w⟩], viol := s.viol || !isLive s p }

/-- the awaiter of a request is set up in the segment that ends with its first publishing CAS (`set_handle` /
    `sync_awaiter()` / `set_resume_fn`) -/
def create (s : State) (a : Nat) (n : Node) : State :=
  if s.live n then s
  else touch { s with live := updN s.live n true } a (Seen.node n.1 n.2) Field.body true

/-! ## `build_queue`: the loop -/

/-- `while (req && req != stop) { auto x = req; req = req->_next; x->_next = _queue; _queue = x; }` run by agent `a`;
    the fuel only bounds the structural recursion (`walk_chain`: any fuel above the length of the chain gives the same result) -/
def walk (a : Nat) (stop : Ptr) : Nat → State → Ptr → State
  | 0, s, _ => s
  | fuel + 1, s, req =>
    if req = Seen.null ∨ req = stop then s
    else match req with
      | Seen.null => s
      | Seen.node x k =>
          walk a stop fuel
            { touch (touch s a req Field.next false) a req Field.next true with
                next := updN s.next (x, k) s.queue, queue := req }
            (s.next (x, k))
      | Seen.door =>
          -- the walk runs into the doorman (only in the as-is variant)
          walk a stop fuel
            { touch (touch s a req Field.next false) a req Field.next true with doorNext := s.queue, queue := req }
            s.doorNext

/-- the part of `build_queue` after the exchange: the assertion on `_queue`, then the loop -/
def flush (wf : Nat) (s : State) (a : Nat) : State :=
  match s.pend a with
  | none => s
  | some (req, stop) =>
      walk a stop wf { s with pend := upd s.pend a none, asrt := s.asrt || decide (s.queue ≠ Seen.null) } req

/-- `unlock`: `first = _queue; _queue = _queue->_next; first->_next = nullptr;` — and `fn(first)` reads the node to resume it -/
def popHead (s : State) (a b k : Nat) : State :=
  { s with queue := s.next (b, k), next := updN s.next (b, k) Seen.null,
           grants := upd s.grants b (s.grants b + 1), grantReqs := s.grantReqs ++ [(b, s.round b)],
           acc := s.acc ++ [⟨a, Seen.node b k, Field.next, false⟩, ⟨a, Seen.node b k, Field.next, true⟩,
                            ⟨a, Seen.node b k, Field.body, false⟩],
           viol := s.viol || !isLive s (Seen.node b k) }

/-- `fn(first)`: the new owner `b` is resumed / its callback runs / its flag is stored (`Mutex.handOver`, control part) -/
def grantTo (c : Cfg) (s : State) (t a b : Nat) : State × List Ev × Outcome :=
  match flOf c s b with
  | some Flavour.co =>
      match c.kind a with
      | AKind.sync =>
          ({ setPc (setPc s b Pc.crit) a Pc.relDone with cur := upd s.cur t (some b) }, [], Outcome.continue_)
      | AKind.coro =>
          match relOf c s a with
          | some Rel.a =>
              ({ setPc (setPc s b Pc.crit) a Pc.relDone with rq := upd s.rq t (s.rq t ++ [a]), cur := upd s.cur t (some b) },
               [], Outcome.suspended)
          | _ =>
              ({ setPc (setPc s b Pc.crit) a Pc.relDone with rq := upd s.rq t (s.rq t ++ [b]) }, [], Outcome.continue_)
  | some Flavour.cb =>
      ({ setPc s a Pc.relDone with flag := upd s.flag b true, held := upd s.held (objOf c s b) true,
                                   bad := s.bad || s.held (objOf c s b) }, [], Outcome.continue_)
  | _ =>
      ({ setPc s a Pc.relDone with flag := upd s.flag b true }, [Ev.store t a (s.flagTh b) (s.flagIx b)], Outcome.op)

/-- the hand-over part of `unlock` -/
def handOver (c : Cfg) (s : State) (t a : Nat) : State × List Ev × Outcome :=
  match s.queue with
  | Seen.null => ({ setPc s a Pc.relDone with viol := true }, [], Outcome.continue_)     -- unreachable: null dereference
  | Seen.door =>                                                                          -- unreachable: the doorman is resumed
      ({ setPc s a Pc.relDone with queue := s.doorNext, doorNext := Seen.null, viol := true }, [], Outcome.continue_)
  | Seen.node b k => grantTo c (popHead s a b k) t a b

/-- `unlock` after its entry assertion: `if (!_queue) { CAS doorman→nullptr … }`, else the hand-over -/
def unlockGo (c : Cfg) (s : State) (t a : Nat) : State × List Ev × Outcome :=
  match s.queue with
  | Seen.null =>
      if s.requests = Seen.door then
        ({ setPc s a Pc.relDone with requests := Seen.null }, [Ev.cas t a true Seen.door Seen.null], Outcome.op)
      else
        (setPc s a Pc.relBuild, [Ev.cas t a false s.requests Seen.null], Outcome.op)
  | _ => handOver c s t a

/-- start of `unlock`, entered through the round's ownership object (`release()`, deleter); `assert(_requests != nullptr)` -/
def unlockStart (c : Cfg) (s : State) (t a : Nat) : State × List Ev × Outcome :=
  if s.held (objOf c s a) = false then
    (setPc s a Pc.relDone, [], Outcome.continue_)
  else
    unlockGo c { s with held := upd s.held (objOf c s a) false, asrt := s.asrt || decide (s.requests = Seen.null) } t a

/-- `subscribe`, plain part of one iteration: (first iteration: the awaiter is set up;) `aw->_next = prev` -/
def subWrite (c : Cfg) (s : State) (a : Nat) (prev : Seen) : State :=
  { touch (create s a (a, keyOf c s a)) a (Seen.node a (keyOf c s a)) Field.next true with
      next := updN s.next (a, keyOf c s a) prev }

/-- `subscribe`: the publishing CAS with expected value `prev`; the decision is made on the value it observed -/
def subCas (c : Cfg) (s : State) (t a : Nat) (prev : Seen) : State × List Ev × Outcome :=
  if s.requests = prev then
    ({ setPc s a (if prev = Seen.null then Pc.build
                  else match flOf c s a with
                    | some Flavour.co => Pc.parked
                    | _ => Pc.waitFlag) with
        requests := Seen.node a (keyOf c s a), stamp := upd s.stamp a s.clock, clock := s.clock + 1,
        cur := if prev ≠ Seen.null ∧ flOf c s a = some Flavour.co then upd s.cur t none else s.cur },
     [Ev.cas t a true s.requests (Seen.node a (keyOf c s a))], Outcome.op)
  else (setPc s a (Pc.sub s.requests), [Ev.cas t a false s.requests (Seen.node a (keyOf c s a))], Outcome.op)

/-- `subscribe`: `aw->_next = prev; CAS(prev, aw)` -/
def stepSub (c : Cfg) (s : State) (t a : Nat) (prev : Seen) : State × List Ev × Outcome :=
  subCas c (subWrite c s a prev) t a prev

/-- the granted requester continues: its awaiter is gone -/
def retire (c : Cfg) (s : State) (a : Nat) : Node → Bool := updN s.live (a, keyOf c s a) false

/-- one activity of agent `a` on thread `t` after the pending loop of its `build_queue` (if any) has run; mirrors
    `Mutex.agentStep` branch by branch -/
def stepCore (c : Cfg) (s : State) (t a : Nat) : State × List Ev × Outcome :=
  match s.pc a with
  | Pc.done => (s, [], Outcome.finished)
  | Pc.parked => (s, [], Outcome.suspended)
  | Pc.top =>
      match curRound c s a with
      | none => (setPc s a Pc.done, [Ev.doneA a], Outcome.finished)
      | some r =>
        -- `ready()`: CAS nullptr → doorman
        if s.requests = Seen.null then
          ({ setPc s a Pc.crit with requests := Seen.door, grants := upd s.grants a (s.grants a + 1),
                                    grantReqs := s.grantReqs ++ [(a, s.round a)] },
           [Ev.cas t a true Seen.null Seen.door], Outcome.op)
        else
          (setPc s a (match r.fl with
              | Flavour.try_ => Pc.tryFail
              | Flavour.lock => Pc.subInit
              | Flavour.cb => Pc.subInit
              | Flavour.co => Pc.sub Seen.null), [Ev.cas t a false s.requests Seen.door], Outcome.op)
  | Pc.tryFail =>
      ({ setPc s a Pc.top with round := upd s.round a (s.round a + 1), fails := upd s.fails a (s.fails a + 1),
                               failReqs := s.failReqs ++ [(a, s.round a)] },
       [Ev.tryFail a (s.round a)], Outcome.continue_)
  | Pc.subInit =>
      match flOf c s a with
      | some Flavour.cb => ({ setPc s a (Pc.sub Seen.null) with flag := upd s.flag a false }, [], Outcome.continue_)
      | _ =>
        ({ setPc s a (Pc.sub Seen.null) with flag := upd s.flag a false, flagTh := upd s.flagTh a t,
                                             flagIx := upd s.flagIx a (s.flagNo t),
                                             flagNo := upd s.flagNo t (s.flagNo t + 1) },
         [], Outcome.continue_)
  | Pc.sub prev => stepSub c s t a prev
  | Pc.build =>
      -- `build_queue(self)`: the exchange; the loop runs at the start of the agent's next activity (`flush`)
      ({ setPc s a Pc.crit with requests := Seen.door,
                                 pend := upd s.pend a (some (s.requests, Seen.node a (keyOf c s a))),
                                 grants := upd s.grants a (s.grants a + 1),
                                 grantReqs := s.grantReqs ++ [(a, s.round a)] },
       [Ev.xchg t a s.requests Seen.door], Outcome.op)
  | Pc.waitFlag =>
      if flOf c s a = some Flavour.cb then
        if s.flag a then (setPc s a Pc.critS, [Ev.cbPass t a], Outcome.op)
        else (setPc s a Pc.blocked, [Ev.cbBlock t a], Outcome.blockedT)
      else
        if s.flag a then (setPc s a Pc.crit, [Ev.waitPass t a (s.flagTh a) (s.flagIx a)], Outcome.op)
        else (setPc s a Pc.blocked, [Ev.waitBlock t a (s.flagTh a) (s.flagIx a)], Outcome.blockedT)
  | Pc.blocked =>
      if flOf c s a = some Flavour.cb then (setPc s a Pc.critS, [Ev.cbPass t a], Outcome.op)
      else (setPc s a Pc.crit, [Ev.waitPass t a (s.flagTh a) (s.flagIx a)], Outcome.op)
  | Pc.crit =>
      ({ setPc s a Pc.afterCs with incs := s.incs + 1, grantLog := s.grantLog ++ [a], live := retire c s a,
                                   held := upd s.held (objOf c s a) true, bad := s.bad || s.held (objOf c s a) },
       [Ev.cs a (s.round a) (s.incs > 0), Ev.csOp t a], Outcome.op)
  | Pc.critS =>
      ({ setPc s a Pc.afterCs with incs := s.incs + 1, grantLog := s.grantLog ++ [a], live := retire c s a },
       [Ev.cs a (s.round a) (s.incs > 0), Ev.csOp t a], Outcome.op)
  | Pc.afterCs =>
      match relOf c s a with
      | some Rel.g => ({ setPc { s with incs := s.incs - 1 } a Pc.asg with aux := upd s.aux a true },
                       [Ev.auxCas t a true], Outcome.op)
      | _ => unlockStart c { s with incs := s.incs - 1 } t a
  | Pc.asg => unlockStart c s t a
  | Pc.relBuild =>
      -- `build_queue(doorman)`: the exchange
      ({ setPc s a Pc.relHand with requests := Seen.door, pend := upd s.pend a (some (s.requests, Seen.door)) },
       [Ev.xchg t a s.requests Seen.door], Outcome.op)
  | Pc.relHand => handOver c s t a
  | Pc.relDone =>
      match relOf c s a with
      | some Rel.g =>
          ({ setPc s a Pc.top with round := upd s.round a (s.round a + 1), aux := upd s.aux a false },
           [Ev.auxCas t a false], Outcome.op)
      | _ => ({ setPc s a Pc.top with round := upd s.round a (s.round a + 1) }, [], Outcome.continue_)

/-- one activity of agent `a` on thread `t`: the plain code of `a` up to and including its next synchronising operation
    (or a control transfer).  The segment starts with the loop of a `build_queue` whose exchange ended `a`'s previous
    segment; `wf`: fuel of that loop.  The ghost `acc` is reset: it collects the node accesses of this activity. -/
def agentStep (c : Cfg) (wf : Nat) (s : State) (t a : Nat) : State × List Ev × Outcome :=
  stepCore c (flush wf { s with acc := [] } a) t a

/-- is the thread able to run? (`Mutex.enabled`) -/
def enabled (s : State) (t : Nat) : Bool :=
  match s.tmain t with
  | TMain.finished => false
  | _ =>
    match s.cur t with
    | some b => if s.pc b = Pc.blocked then s.flag b else true
    | none =>
      match s.rq t with
      | _ :: _ => true
      | [] => if s.pc t = Pc.blocked ∧ s.tmain t = TMain.syncBody then s.flag t else true

/-- what OS thread `t` does between two scheduling points (`Mutex.threadStep` over the pointer-level `agentStep`) -/
def threadStep (c : Cfg) (wf : Nat) : Nat → State → Nat → State × List Ev
  | 0, s, _ => (s, [])
  | fuel + 1, s, t =>
    match s.cur t with
    | some b =>
        let (s1, e1, o) := agentStep c wf s t b
        match o with
        | Outcome.op => (s1, e1)
        | Outcome.blockedT => (s1, e1)
        | Outcome.finished | Outcome.suspended =>
            let s2 := if s1.cur t = some b then { s1 with cur := upd s1.cur t none } else s1
            let (s3, e3) := threadStep c wf fuel s2 t
            (s3, e1 ++ e3)
        | Outcome.continue_ =>
            let (s3, e3) := threadStep c wf fuel s1 t
            (s3, e1 ++ e3)
    | none =>
      match s.rq t with
      | b :: rest =>
          threadStep c wf fuel { s with rq := upd s.rq t rest, cur := upd s.cur t (some b) } t
      | [] =>
        match s.tmain t with
        | TMain.finished => (s, [])
        | TMain.coroStart =>
            threadStep c wf fuel { s with tmain := upd s.tmain t TMain.coroFlush, cur := upd s.cur t (some t) } t
        | TMain.coroFlush => ({ s with tmain := upd s.tmain t TMain.finished }, [Ev.fin t])
        | TMain.syncBody =>
            let (s1, e1, o) := agentStep c wf s t t
            match o with
            | Outcome.op => (s1, e1)
            | Outcome.blockedT => (s1, e1)
            | Outcome.finished => ({ s1 with tmain := upd s1.tmain t TMain.finished }, e1 ++ [Ev.fin t])
            | Outcome.suspended =>
                let (s3, e3) := threadStep c wf fuel s1 t
                (s3, e1 ++ e3)
            | Outcome.continue_ =>
                let (s3, e3) := threadStep c wf fuel s1 t
                (s3, e1 ++ e3)

/-! ## the abstraction: what the pointer state denotes at list level -/

/-- the list-level state with the given stack and queue and the control part of `s` -/
def absWith (s : State) (req : List Elem) (q : List Nat) : Mutex.State :=
  { req := req, queue := q, flag := s.flag, flagNo := s.flagNo, flagTh := s.flagTh, flagIx := s.flagIx, held := s.held,
    aux := s.aux, pc := s.pc, round := s.round, incs := s.incs, cur := s.cur, rq := s.rq, tmain := s.tmain,
    grants := s.grants, stamp := s.stamp, clock := s.clock, grantLog := s.grantLog, fails := s.fails,
    grantReqs := s.grantReqs, failReqs := s.failReqs, bad := s.bad }

/-- follow `_next` from `p` (at most `fuel` nodes): the nodes visited and the first non-node pointer reached -/
def follow (next : Node → Ptr) : Nat → Ptr → List Node × Ptr
  | 0, p => ([], p)
  | fuel + 1, Seen.node a k =>
      let r := follow next fuel (next (a, k))
      ((a, k) :: r.1, r.2)
  | _ + 1, p => ([], p)

/-- follow `_next` from `p` up to (excluding) `stop` -/
def followTo (next : Node → Ptr) (stop : Ptr) : Nat → Ptr → List Node
  | 0, _ => []
  | fuel + 1, p =>
    if p = stop then []
    else match p with
      | Seen.node a k => (a, k) :: followTo next stop fuel (next (a, k))
      | _ => []

/-- `_requests` as the list-level stack: the chain of nodes, then `[door]` if it ends in the doorman -/
def absReq (fuel : Nat) (s : State) : List Elem :=
  let r := follow s.next fuel s.requests
  r.1.map (fun n => Elem.node n.1 n.2) ++ (if r.2 = Seen.door then [Elem.door] else [])

/-- the chain a pending `build_queue` loop still has to move (detached from `_requests`, not yet in `_queue`) -/
def absDet (fuel : Nat) (s : State) (n : Nat) : List Node :=
  ((List.range n).filterMap (fun a => s.pend a)).flatMap (fun p => followTo s.next p.2 fuel p.1)

/-- `_queue` as the list-level FIFO: a pending loop moves the detached chain, reversed, in front of `_queue` -/
def absQueue (fuel : Nat) (s : State) (n : Nat) : List Nat :=
  ((absDet fuel s n).reverse ++ (follow s.next fuel s.queue).1).map (·.1)

/-- **the abstraction function** (fuel `c.n + 1`: no chain is longer than the number of contenders) -/
def abs (c : Cfg) (s : State) : Mutex.State := absWith s (absReq (c.n + 1) s) (absQueue (c.n + 1) s c.n)

/-! ## run functions -/

/-- run a sequence of agent activities `(thread, agent)` -/
def arun (c : Cfg) (wf : Nat) (s : State) (l : List (Nat × Nat)) : State :=
  l.foldl (fun s p => (agentStep c wf s p.1 p.2).1) s

/-- run a schedule of OS threads -/
def trun (c : Cfg) (wf fuel : Nat) (s : State) (ts : List Nat) : State :=
  ts.foldl (fun s t => (threadStep c wf fuel s t).1) s

/-! ## as-is variant: the pinned commit's `subscribe` (before a810fc1)

`aw->subscribe(_requests)` (a CAS loop whose expected value is `aw->_next` itself), then `if (aw->_next == nullptr)
build_queue(aw) …`: the awaiter is read again *after* the CAS that published it.  `recheck t = some (a, n)`: OS thread `t`
has published node `n` of agent `a` and still has to run that re-read. -/

structure AsIs where
  s : State
  recheck : Nat → Option (Nat × Node) := fun _ => none

def agentStepAsIs (c : Cfg) (wf : Nat) (x : AsIs) (t a : Nat) : AsIs :=
  match x.recheck t with
  | some (b, n) =>
      if b = a then
        -- `if (aw->_next == nullptr)`: the re-read after the publishing CAS
        let s := touch { x.s with acc := [] } a (Seen.node n.1 n.2) Field.next false
        { s := if s.next n = Seen.null then setPc s a Pc.build else s, recheck := upd x.recheck t none }
      else { x with s := (agentStep c wf x.s t a).1 }
  | none =>
    match x.s.pc a with
    | Pc.sub _ =>
        let n : Node := (a, keyOf c x.s a)
        -- `compare_exchange_weak(_next, this)`: the expected value is the node's own `_next` (initially nullptr)
        let s0 := create { x.s with acc := [] } a n
        let s0 := if x.s.live n then s0 else { s0 with next := updN s0.next n Seen.null }   -- a new awaiter: `_next = nullptr`
        let s := touch s0 a (Seen.node n.1 n.2) Field.next false
        if s.requests = s.next n then
          { s := { setPc s a (match flOf c s a with
                               | some Flavour.co => Pc.parked
                               | _ => Pc.waitFlag) with
                     requests := Seen.node n.1 n.2, stamp := upd s.stamp a s.clock, clock := s.clock + 1,
                     cur := if flOf c s a = some Flavour.co then upd s.cur t none else s.cur },
            recheck := upd x.recheck t (some (a, n)) }
        else
          { x with s := setPc { touch s a (Seen.node n.1 n.2) Field.next true with next := updN s.next n s.requests }
                          a (Pc.sub s.requests) }
    | _ => { x with s := (agentStep c wf x.s t a).1 }

def arunAsIs (c : Cfg) (wf : Nat) (x : AsIs) (l : List (Nat × Nat)) : AsIs :=
  l.foldl (fun x p => agentStepAsIs c wf x p.1 p.2) x

end Cocls.MutexPtr
