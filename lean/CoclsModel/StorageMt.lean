import CoclsModel.Storage
/-
Interleaving model of `reusable_storage_mtsafe` (coro_storage.h): any number of threads allocate and release
frames on ONE storage object.  A step of a thread is one *hooked* operation of the real code together with the
plain code up to the next one — exactly the step of the harness (harness/h_storage.cpp, `sched` cases):

  `_busy.exchange(true)`   begin of `alloc`          (`Act.alloc`)
  `operator delete(_ptr)`  growth, first half        (pc `needDel`      → `needNew`)
  `operator new(n)`        growth, second half / private block; the frame exists when it returns
  `_busy.store(false)` / `operator delete(ptr)`      `dealloc`, decided by the trailer  (`Act.free`)

Between `needDel` and `needNew` the field `_ptr` still holds the address of the block just released
(`dangling`, ghost).  The repaired `dealloc` never reads `_ptr`; the pinned code did (`ptr == me->_ptr`) — that
variant is `AsIs` below, with an address-level heap in which a freed address can be handed out again.
-/
namespace Cocls.Storage.Mt

open Cocls.Storage

inductive Pc where
  | idle
  | needDel (fid sz : Nat)          -- won `_busy`, must grow: about to `operator delete(_ptr)`
  | needNew (fid sz : Nat)          -- won `_busy`, about to `_ptr = operator new(sz + 8)`
  | needPriv (fid sz : Nat)         -- lost `_busy`, about to `operator new(sz + 8)` for a private block
  | needUnbusy (fid : Nat)          -- the growth's `operator new` threw: about to `_busy.store(false)` and rethrow
  deriving DecidableEq, Repr, Inhabited

structure State where
  heap : Heap := {}
  frames : List Frame := []
  nextFrame : Nat := 0
  ptr : Option Nat := none
  cap : Nat := 0
  busy : Bool := false
  pc : Nat → Pc := fun _ => Pc.idle
  -- ghost
  dangling : Bool := false     -- `_ptr` names a block that was just deleted (between the two halves of a growth)
  died : List Nat := []

inductive Act where
  | alloc (sz : Nat)
  | free (id : Nat)
  | go
  | fail                            -- like `go`, but the pending `operator new` throws `std::bad_alloc`
  deriving DecidableEq, Repr

inductive Res where
  | failed (id : Nat)               -- `bad_alloc` left `alloc`: the frame never exists
  | paused (what : String)
  | done (id : Nat) (blk : Blk)
  | freed (id : Nat)
  | skip
  deriving DecidableEq, Repr

def setPc (s : State) (t : Nat) (p : Pc) : State :=
  { s with pc := fun u => if u = t then p else s.pc u }

@[simp] theorem pc_setPc (s : State) (t u : Nat) (p : Pc) :
    (setPc s t p).pc u = if u = t then p else s.pc u := rfl

def init : State := {}

/-- `alloc(sz)` up to and including `_busy.exchange(true)`, and on if no further hooked operation follows -/
def stepBegin (s : State) (t sz : Nat) : State × Res :=
  if s.busy then
    (setPc { s with nextFrame := s.nextFrame + 1 } t (Pc.needPriv s.nextFrame sz), Res.paused "new")
  else if sz + 8 > s.cap then
    match s.ptr with
    | some _ => (setPc { s with busy := true, nextFrame := s.nextFrame + 1 } t (Pc.needDel s.nextFrame sz), Res.paused "del")
    | none => (setPc { s with busy := true, nextFrame := s.nextFrame + 1 } t (Pc.needNew s.nextFrame sz), Res.paused "new")
  else
    ({ s with busy := true, nextFrame := s.nextFrame + 1,
              frames := s.frames ++ [⟨s.nextFrame, (match s.ptr with | some b => Blk.heap b | none => Blk.null), sz, false⟩] },
     Res.done s.nextFrame (match s.ptr with | some b => Blk.heap b | none => Blk.null))

def stepGo (s : State) (t : Nat) : State × Res :=
  match s.pc t with
  | Pc.idle => (s, Res.skip)
  | Pc.needDel fid sz =>
      (setPc { s with heap := s.heap.delOpt s.ptr, dangling := true } t (Pc.needNew fid sz), Res.paused "new")
  | Pc.needNew fid sz =>
      (setPc { s with heap := s.heap.new (sz + 8), ptr := some s.heap.next, cap := sz + 8, dangling := false,
                      frames := s.frames ++ [⟨fid, Blk.heap s.heap.next, sz, false⟩] } t Pc.idle,
       Res.done fid (Blk.heap s.heap.next))
  | Pc.needPriv fid sz =>
      (setPc { s with heap := s.heap.new (sz + 8),
                      frames := s.frames ++ [⟨fid, Blk.heap s.heap.next, sz, true⟩] } t Pc.idle,
       Res.done fid (Blk.heap s.heap.next))
  | Pc.needUnbusy fid => (setPc { s with busy := false } t Pc.idle, Res.failed fid)

/-- the pending `operator new` throws.  Private block: nothing had happened.  Growth of the shared block (repaired
code): the old block is gone, `_ptr = nullptr; _capacity = 0;`; `_busy` is cleared by the next hooked operation
(`needUnbusy`), then the exception leaves. -/
def stepGoFail (s : State) (t : Nat) : State × Res :=
  match s.pc t with
  | Pc.needNew fid _ =>
      (setPc { s with ptr := none, cap := 0, dangling := false } t (Pc.needUnbusy fid), Res.paused "store")
  | Pc.needPriv fid _ => (setPc s t Pc.idle, Res.failed fid)
  | _ => stepGo s t

/-- the repaired `dealloc`: the trailer behind the frame decides -/
def stepFree (s : State) (id : Nat) : State × Res :=
  match s.frames.find? (fun f => f.id == id) with
  | none => (s, Res.skip)
  | some f =>
      if f.priv then
        ({ s with frames := s.frames.erase f, died := s.died ++ [id],
                  heap := (match f.blk with | Blk.heap b => s.heap.del b | _ => s.heap) }, Res.freed id)
      else
        ({ s with frames := s.frames.erase f, died := s.died ++ [id], busy := false }, Res.freed id)

/-- one step of thread `t`; a thread that is inside an operation can only continue it -/
def step (s : State) (t : Nat) (a : Act) : State × Res :=
  match s.pc t with
  | Pc.idle =>
      match a with
      | Act.alloc sz => stepBegin s t sz
      | Act.free id => stepFree s id
      | Act.go => (s, Res.skip)
      | Act.fail => (s, Res.skip)
  | _ =>
      match a with
      | Act.fail => stepGoFail s t
      | _ => stepGo s t

def run (s : State) (sched : List (Nat × Act)) : State :=
  sched.foldl (fun s x => (step s x.1 x.2).1) s

/-! ### the pinned code: `dealloc` compares the frame's address with `me->_ptr` -/
namespace AsIs

/-- address-level heap with the behaviour every real allocator may show: the most recently freed block is
handed to the next request of the same size (one-entry LIFO cache; the harness's `operator new` does the same) -/
structure AFrame where
  id : Nat
  addr : Nat
  sz : Nat
  deriving DecidableEq, Repr

structure AState where
  nextAddr : Nat := 1
  live : List (Nat × Nat) := []          -- (address, size)
  cache : Option (Nat × Nat) := none     -- freed, reusable
  frames : List AFrame := []
  nextFrame : Nat := 0
  ptr : Nat := 0                         -- `_ptr`, 0 = nullptr; may be stale
  cap : Nat := 0
  busy : Bool := false
  pc : Nat → Pc := fun _ => Pc.idle
  leaked : List Nat := []                -- ghost: heap blocks whose frame was released without `operator delete`

def anew (s : AState) (n : Nat) : AState × Nat :=
  match s.cache with
  | some (a, m) =>
      if m = n then ({ s with cache := none, live := s.live ++ [(a, n)] }, a)
      else ({ s with nextAddr := s.nextAddr + 1, live := s.live ++ [(s.nextAddr, n)] }, s.nextAddr)
  | none => ({ s with nextAddr := s.nextAddr + 1, live := s.live ++ [(s.nextAddr, n)] }, s.nextAddr)

def adel (s : AState) (a : Nat) : AState :=
  match s.live.find? (fun p => p.1 == a) with
  | some p => { s with live := s.live.filter (fun q => q.1 != a), cache := some p }
  | none => s

def setPc (s : AState) (t : Nat) (p : Pc) : AState :=
  { s with pc := fun u => if u = t then p else s.pc u }

def stepBegin (s : AState) (t sz : Nat) : AState :=
  if s.busy then setPc { s with nextFrame := s.nextFrame + 1 } t (Pc.needPriv s.nextFrame sz)
  else if sz + 8 > s.cap then
    (if s.ptr = 0 then setPc { s with busy := true, nextFrame := s.nextFrame + 1 } t (Pc.needNew s.nextFrame sz)
     else setPc { s with busy := true, nextFrame := s.nextFrame + 1 } t (Pc.needDel s.nextFrame sz))
  else { s with busy := true, nextFrame := s.nextFrame + 1, frames := s.frames ++ [⟨s.nextFrame, s.ptr, sz⟩] }

def stepGo (s : AState) (t : Nat) : AState :=
  match s.pc t with
  | Pc.idle => s
  | Pc.needDel fid sz => setPc (adel s s.ptr) t (Pc.needNew fid sz)     -- `_ptr` keeps the stale address
  | Pc.needNew fid sz =>
      match anew s (sz + 8) with
      | (s1, a) => setPc { s1 with ptr := a, cap := sz + 8, frames := s.frames ++ [⟨fid, a, sz⟩] } t Pc.idle
  | Pc.needPriv fid sz =>
      match anew s (sz + 8) with
      | (s1, a) => setPc { s1 with frames := s.frames ++ [⟨fid, a, sz⟩] } t Pc.idle
  | Pc.needUnbusy _ => s

/-- `if (ptr == me->_ptr) me->_busy.store(false) else ::operator delete(ptr)` -/
def stepFree (s : AState) (id : Nat) : AState :=
  match s.frames.find? (fun f => f.id == id) with
  | none => s
  | some f =>
      if f.addr = s.ptr then
        { s with frames := s.frames.filter (fun g => g.id != id), busy := false }
      else adel { s with frames := s.frames.filter (fun g => g.id != id) } f.addr

def step (s : AState) (t : Nat) (a : Act) : AState :=
  match s.pc t with
  | Pc.idle =>
      match a with
      | Act.alloc sz => stepBegin s t sz
      | Act.free id => stepFree s id
      | Act.go => s
      | Act.fail => s
  | _ => stepGo s t

def run (s : AState) (sched : List (Nat × Act)) : AState :=
  sched.foldl (fun s x => step s x.1 x.2) s

end AsIs

end Cocls.Storage.Mt
