import CoclsModel.SuspendPoint
/-!
Invariants of the `suspend_point` model (`SuspendPoint.lean`) and their preservation by every operation
(helper lemmas for `Props/C06.lean`).
-/
namespace Cocls.SP

/-! ### association-list memory -/
@[simp] theorem Mem.get_nil (a : Nat) : Mem.get [] a = none := rfl

theorem Mem.get_del (m : Mem) (a b : Nat) : (Mem.del m a).get b = if b = a then none else m.get b := by
  induction m with
  | nil => simp [Mem.del, Mem.get]
  | cons kv m ih =>
      obtain ⟨k, v⟩ := kv
      by_cases hak : a = k
      · subst hak; simp only [Mem.del, if_true, ih, Mem.get]; split <;> simp_all
      · simp only [Mem.del, if_neg hak, Mem.get, ih]
        by_cases hbk : b = k
        · subst hbk; have : ¬ b = a := fun h => hak h.symm
          simp [this]
        · simp [hbk]

theorem Mem.get_set (m : Mem) (a : Nat) (v : List Ptr) (b : Nat) :
    (Mem.set m a v).get b = if b = a then some v else m.get b := by
  simp only [Mem.set, Mem.get, Mem.get_del]
  split <;> simp_all

/-! ### pool slots -/
theorem obj_setObj (s : State) (i : Nat) (o : Option Obj) (j : Nat) (hi : i < s.objs.length) :
    (setObj s i o).obj j = if j = i then o else s.obj j := by
  simp only [State.obj, setObj, List.getElem?_set]
  by_cases h : j = i
  · subst h; simp [hi]
  · have : ¬ i = j := fun e => h e.symm
    simp [h, this]

theorem obj_lt {s : State} {i : Nat} {o : Obj} (h : s.obj i = some o) : i < s.objs.length := by
  by_cases hi : i < s.objs.length
  · exact hi
  · simp [State.obj, List.getElem?_eq_none (Nat.le_of_not_lt hi)] at h

theorem obj_ge {s : State} {i : Nat} (h : s.objs.length ≤ i) : s.obj i = none := by
  simp [State.obj, List.getElem?_eq_none h]

@[simp] theorem setObj_mem (s : State) (i o) : (setObj s i o).mem = s.mem := rfl
@[simp] theorem setObj_live (s : State) (i o) : (setObj s i o).live = s.live := rfl
@[simp] theorem setObj_trace (s : State) (i o) : (setObj s i o).trace = s.trace := rfl
@[simp] theorem setObj_nextAddr (s : State) (i o) : (setObj s i o).nextAddr = s.nextAddr := rfl
@[simp] theorem setObj_queue (s : State) (i o) : (setObj s i o).queue = s.queue := rfl
@[simp] theorem setObj_active (s : State) (i o) : (setObj s i o).active = s.active := rfl
@[simp] theorem setObj_given (s : State) (i o) : (setObj s i o).given = s.given := rfl
@[simp] theorem setObj_popped (s : State) (i o) : (setObj s i o).popped = s.popped := rfl
@[simp] theorem setObj_len (s : State) (i o) : (setObj s i o).objs.length = s.objs.length := by simp [setObj]

/-! ### ghost projections of the trace -/
theorem filterMap_res_map (hs : List Ptr) : (hs.map Ev.res).filterMap Ev.res? = hs := by
  induction hs with
  | nil => rfl
  | cons h t ih => simp [Ev.res?, ih]

theorem filter_alloc_map (hs : List Ptr) : (hs.map Ev.res).filter Ev.isAlloc = [] := by
  induction hs with
  | nil => rfl
  | cons h t ih => simp [Ev.isAlloc, ih]

theorem filter_free_map (hs : List Ptr) : (hs.map Ev.res).filter Ev.isFree = [] := by
  induction hs with
  | nil => rfl
  | cons h t ih => simp [Ev.isFree, ih]

/-- heap bookkeeping -/
structure HeapOk (s : State) : Prop where
  live_iff : ∀ a, a ∈ s.live ↔ (s.mem.get a).isSome = true
  live_nodup : s.live.Nodup
  live_lt : ∀ a, a ∈ s.live → a < s.nextAddr
  balance : news s = deletes s + s.live.length
  no_badfree : Ev.badfree ∉ s.trace
  no_oob : Ev.oob ∉ s.trace

theorem HeapOk.lt_of_get {s : State} (H : HeapOk s) {a : Nat} {c : List Ptr} (h : s.mem.get a = some c) :
    a < s.nextAddr := H.live_lt a ((H.live_iff a).2 (by simp [h]))

theorem HeapOk.get_next {s : State} (H : HeapOk s) : s.mem.get s.nextAddr = none := by
  cases h : s.mem.get s.nextAddr with
  | none => rfl
  | some c => exact absurd (H.lt_of_get h) (Nat.lt_irrefl _)

theorem heapOk_alloc {s : State} (H : HeapOk s) (cap : Nat) : HeapOk (allocBlk s cap) := by
  have hn : s.nextAddr ∉ s.live := fun h => Nat.lt_irrefl _ (H.live_lt _ h)
  refine ⟨?_, ?_, ?_, ?_, ?_, ?_⟩ <;> simp only [allocBlk, news, deletes]
  · intro a
    simp only [List.mem_append, List.mem_singleton, Mem.get_set]
    by_cases h : a = s.nextAddr
    · simp [h]
    · simp [h, H.live_iff a]
  · rw [List.nodup_append]
    refine ⟨H.live_nodup, by simp, ?_⟩
    intro a ha b hb
    simp at hb; subst hb
    intro e; subst e; exact hn ha
  · intro a ha
    simp only [List.mem_append, List.mem_singleton] at ha
    rcases ha with ha | ha
    · exact Nat.lt_succ_of_lt (H.live_lt a ha)
    · omega
  · have := H.balance
    simp only [news, deletes] at this
    simp [List.filter_append, List.filter_cons, Ev.isAlloc, Ev.isFree]; omega
  · simp [H.no_badfree]
  · simp [H.no_oob]

theorem freeBlk_eq {s : State} {a : Nat} {c : List Ptr} (h : s.mem.get a = some c) :
    freeBlk s a = { s with mem := s.mem.del a, live := s.live.erase a, trace := s.trace ++ [Ev.free c.length] } := by
  simp [freeBlk, h]

theorem heapOk_free {s : State} (H : HeapOk s) {a : Nat} {c : List Ptr} (h : s.mem.get a = some c) :
    HeapOk (freeBlk s a) := by
  have ha : a ∈ s.live := (H.live_iff a).2 (by simp [h])
  rw [freeBlk_eq h]
  refine ⟨?_, ?_, ?_, ?_, ?_, ?_⟩ <;> simp only [news, deletes]
  · intro b
    rw [H.live_nodup.mem_erase_iff, Mem.get_del, H.live_iff b]
    by_cases e : b = a <;> simp [e]
  · exact H.live_nodup.erase a
  · intro b hb; exact H.live_lt b (List.mem_of_mem_erase hb)
  · have := H.balance
    simp only [news, deletes] at this
    have hl : 0 < s.live.length := List.length_pos_of_mem ha
    simp [List.filter_append, List.filter_cons, Ev.isAlloc, Ev.isFree, List.length_erase_of_mem ha]; omega
  · simp [H.no_badfree]
  · simp [H.no_oob]

theorem writeCell_eq {s : State} {a k : Nat} {c : List Ptr} (h : s.mem.get a = some c) (hk : k < c.length) (v : Ptr) :
    writeCell s a k v = { s with mem := s.mem.set a (c.set k v) } := by
  simp [writeCell, h, hk]

theorem copyInto_eq {s : State} {a : Nat} {c src : List Ptr} (h : s.mem.get a = some c) (hk : src.length ≤ c.length) :
    copyInto s a src = { s with mem := s.mem.set a (src ++ c.drop src.length) } := by
  simp [copyInto, h, hk]

/-- overwriting the cells of a live block keeps the bookkeeping -/
theorem heapOk_setCells {s : State} (H : HeapOk s) {a : Nat} {c : List Ptr} (h : s.mem.get a = some c) (c' : List Ptr) :
    HeapOk { s with mem := s.mem.set a c' } := by
  refine ⟨?_, H.live_nodup, H.live_lt, H.balance, H.no_badfree, H.no_oob⟩
  intro b
  simp only [Mem.get_set]
  by_cases e : b = a
  · subst e; simp [(H.live_iff b).2 (by simp [h])]
  · simp [e, H.live_iff b]

/-- changes that do not touch the heap fields and only add resumption events -/
theorem heapOk_of_eq {s s' : State} (H : HeapOk s) (hm : s'.mem = s.mem) (hl : s'.live = s.live)
    (hn : s'.nextAddr = s.nextAddr) (hs : List Ptr) (ht : s'.trace = s.trace ++ hs.map Ev.res) : HeapOk s' := by
  refine ⟨?_, ?_, ?_, ?_, ?_, ?_⟩
  · intro a; rw [hl, hm]; exact H.live_iff a
  · rw [hl]; exact H.live_nodup
  · intro a; rw [hl, hn]; exact H.live_lt a
  · have := H.balance
    simp only [news, deletes, ht, hl, List.filter_append, filter_alloc_map, filter_free_map, List.append_nil] at this ⊢
    exact this
  · rw [ht]; simp [H.no_badfree]
  · rw [ht]; simp [H.no_oob]

/-! ### ownership -/

structure ObjWf (s : State) (o : Obj) : Prop where
  inl_len : o.inl.length = 3
  inl_le : o.cf % 2 = 0 → o.cf / 2 ≤ 3
  ext_ok : o.cf % 2 = 1 → ∃ c, s.mem.get o.ext = some c ∧ c.length = o.cap ∧ o.cf / 2 ≤ o.cap ∧ 0 < o.cap

/-- ownership: every flagged object owns a live block, no two objects share one, every live block is owned -/
structure Own (s : State) : Prop where
  wf : ∀ i o, s.obj i = some o → ObjWf s o
  excl : ∀ i j oi oj, s.obj i = some oi → s.obj j = some oj → oi.cf % 2 = 1 → oj.cf % 2 = 1 →
      oi.ext = oj.ext → i = j
  owned : ∀ a c, s.mem.get a = some c → ∃ i o, s.obj i = some o ∧ o.cf % 2 = 1 ∧ o.ext = a

/-- one object changes from `o` to `o'`; memory changes only at the block(s) of that object -/
theorem own_step {s s' : State} {i : Nat} {o o' : Obj} (O : Own s) (hi : s.obj i = some o)
    (hobj : ∀ k, s'.obj k = if k = i then some o' else s.obj k)
    (hmem : ∀ a, (o.cf % 2 = 1 → a ≠ o.ext) → (o'.cf % 2 = 1 → a ≠ o'.ext) → s'.mem.get a = s.mem.get a)
    (hnew : ObjWf s' o')
    (hfresh : o'.cf % 2 = 1 → (o.cf % 2 = 1 ∧ o'.ext = o.ext) ∨ s.mem.get o'.ext = none)
    (hfreed : o.cf % 2 = 1 → (o'.cf % 2 = 1 ∧ o'.ext = o.ext) ∨ s'.mem.get o.ext = none) : Own s' := by
  -- a flagged object other than `i` keeps its block
  have keep : ∀ k ok, k ≠ i → s.obj k = some ok → ok.cf % 2 = 1 → s'.mem.get ok.ext = s.mem.get ok.ext := by
    intro k ok hk hok hf
    obtain ⟨c, hc, -⟩ := (O.wf k ok hok).ext_ok hf
    apply hmem
    · intro hof e; exact hk (O.excl k i ok o hok hi hf hof e)
    · intro hof' e
      rcases hfresh hof' with ⟨hof, e'⟩ | hn
      · exact hk (O.excl k i ok o hok hi hf hof (e.trans e'))
      · rw [← e, hc] at hn; cases hn
  refine ⟨?_, ?_, ?_⟩
  · intro k ok hk
    rw [hobj k] at hk
    by_cases e : k = i
    · simp only [e, if_true, Option.some.injEq] at hk; subst hk; exact hnew
    · simp only [e, if_false] at hk
      have w := O.wf k ok hk
      refine ⟨w.inl_len, w.inl_le, ?_⟩
      intro hf
      rw [keep k ok e hk hf]; exact w.ext_ok hf
  · intro k l ok ol hk hl hfk hfl e
    rw [hobj k] at hk; rw [hobj l] at hl
    -- helper: `i` (new) against an unchanged flagged object
    have clash : ∀ m om, m ≠ i → s.obj m = some om → om.cf % 2 = 1 → o'.cf % 2 = 1 → o'.ext = om.ext → False := by
      intro m om hm hom hfm hfo' e'
      obtain ⟨c, hc, -⟩ := (O.wf m om hom).ext_ok hfm
      rcases hfresh hfo' with ⟨hof, e''⟩ | hn
      · exact hm (O.excl m i om o hom hi hfm hof (e'.symm.trans e''))
      · rw [e', hc] at hn; cases hn
    by_cases ek : k = i <;> by_cases el : l = i
    · rw [ek, el]
    · simp only [ek, if_true, Option.some.injEq] at hk; subst hk
      simp only [el, if_false] at hl
      exact (clash l ol el hl hfl hfk e).elim
    · simp only [el, if_true, Option.some.injEq] at hl; subst hl
      simp only [ek, if_false] at hk
      exact (clash k ok ek hk hfk hfl e.symm).elim
    · simp only [ek, if_false] at hk; simp only [el, if_false] at hl
      exact O.excl k l ok ol hk hl hfk hfl e
  · intro a c hc
    by_cases h1 : o'.cf % 2 = 1 ∧ a = o'.ext
    · exact ⟨i, o', by rw [hobj i]; simp, h1.1, h1.2.symm⟩
    · by_cases h2 : o.cf % 2 = 1 ∧ a = o.ext
      · rcases hfreed h2.1 with ⟨hf', e'⟩ | hn
        · exact (h1 ⟨hf', h2.2.trans e'.symm⟩).elim
        · rw [← h2.2, hc] at hn; cases hn
      · have hg : s'.mem.get a = s.mem.get a := by
          apply hmem
          · intro hf e; exact h2 ⟨hf, e⟩
          · intro hf e; exact h1 ⟨hf, e⟩
        rw [hg] at hc
        obtain ⟨k, ok, hk, hfk, ek⟩ := O.owned a c hc
        have hki : k ≠ i := by
          intro e; subst e; rw [hi] at hk; cases hk; exact h2 ⟨hfk, ek.symm⟩
        exact ⟨k, ok, by rw [hobj k]; simp [hki, hk], hfk, ek⟩

/-! ### `add` -/

theorem take_set_succ {α} (l : List α) (k : Nat) (h : α) (hk : k < l.length) :
    (l.set k h).take (k + 1) = l.take k ++ [h] := by
  induction l generalizing k with
  | nil => simp at hk
  | cons x t ih =>
      cases k with
      | zero => simp
      | succ k => simp at hk; simp [ih k hk]

/-- what a sequence of `add`s on object `i` (initially `o`) does -/
structure AddSpec (s : State) (i : Nat) (o : Obj) (hs : List Ptr) (s' : State) : Prop where
  heap : HeapOk s'
  own : Own s'
  obj_i : ∃ o', s'.obj i = some o' ∧ o'.typed = o.typed ∧ o'.value = o.value ∧
      handlesOf s' o' = handlesOf s o ++ hs
  obj_other : ∀ j, j ≠ i → s'.obj j = s.obj j
  mem_other : ∀ j oj, j ≠ i → s.obj j = some oj → oj.cf % 2 = 1 → s'.mem.get oj.ext = s.mem.get oj.ext
  len : s'.objs.length = s.objs.length
  queue : s'.queue = s.queue
  active : s'.active = s.active
  given : s'.given = s.given
  popped : s'.popped = s.popped
  resumed : resumed s' = resumed s

theorem addInl_spec {s : State} {i : Nat} {o : Obj} (H : HeapOk s) (O : Own s) (hi : s.obj i = some o)
    (hf : ¬ o.cf % 2 = 1) (hc : o.cf / 2 < inlineCount) (h : Ptr) : AddSpec s i o [h] (addInl s i o h) := by
  have hil := obj_lt hi
  have w := O.wf i o hi
  have hf0 : o.cf % 2 = 0 := by omega
  simp only [inlineCount] at hc
  have hobj : ∀ k, (addInl s i o h).obj k = if k = i then some { o with inl := o.inl.set (o.cf / 2) h, cf := o.cf + 2 } else s.obj k :=
    fun k => obj_setObj s i _ k hil
  have hf' : ¬ (o.cf + 2) % 2 = 1 := by omega
  refine ⟨?_, ?_, ?_, ?_, ?_, ?_, rfl, rfl, rfl, rfl, rfl⟩
  · exact heapOk_of_eq H rfl rfl rfl [] (by simp [addInl])
  · refine own_step O hi hobj (fun a _ _ => rfl) ⟨?_, ?_, ?_⟩ ?_ ?_
    · simp [w.inl_len]
    · intro _; show (o.cf + 2) / 2 ≤ 3; omega
    · intro hh; exact absurd hh hf'
    · intro hh; exact absurd hh hf'
    · intro hh; exact absurd hh hf
  · refine ⟨{ o with inl := o.inl.set (o.cf / 2) h, cf := o.cf + 2 }, by rw [hobj i]; simp, rfl, rfl, ?_⟩
    simp only [handlesOf, hf, hf', if_false]
    have : (o.cf + 2) / 2 = o.cf / 2 + 1 := by omega
    rw [this, take_set_succ _ _ _ (by rw [w.inl_len]; exact hc)]
  · intro j hj; rw [hobj j]; simp [hj]
  · intro j oj _ _ _; rfl
  · simp [addInl]


theorem addExt_spec {s : State} {i : Nat} {o : Obj} (H : HeapOk s) (O : Own s) (hi : s.obj i = some o)
    (hf : o.cf % 2 = 1) (hc : ¬ o.cf / 2 = o.cap) (h : Ptr) : AddSpec s i o [h] (addExt s i o h) := by
  have hil := obj_lt hi
  have w := O.wf i o hi
  obtain ⟨c, hg, hlen, hle, hpos⟩ := w.ext_ok hf
  have hk : o.cf / 2 < c.length := by omega
  have hf' : (o.cf + 2) % 2 = 1 := by omega
  have hdiv : (o.cf + 2) / 2 = o.cf / 2 + 1 := by omega
  have hst : addExt s i o h = setObj { s with mem := s.mem.set o.ext (c.set (o.cf / 2) h) } i (some { o with cf := o.cf + 2 }) := by
    simp only [addExt, writeCell_eq hg hk]
  rw [hst]
  have hobj : ∀ k, (setObj { s with mem := s.mem.set o.ext (c.set (o.cf / 2) h) } i (some { o with cf := o.cf + 2 })).obj k
      = if k = i then some { o with cf := o.cf + 2 } else s.obj k :=
    fun k => obj_setObj _ i _ k hil
  refine ⟨?_, ?_, ?_, ?_, ?_, ?_, rfl, rfl, rfl, rfl, rfl⟩
  · exact heapOk_of_eq (heapOk_setCells H hg _) rfl rfl rfl [] (by simp)
  · refine own_step O hi hobj ?_ ⟨w.inl_len, ?_, ?_⟩ ?_ ?_
    · intro a ha _
      simp only [setObj_mem, Mem.get_set, if_neg (ha hf)]
    · intro hh; have hh' : (o.cf + 2) % 2 = 0 := hh; omega
    · intro _
      refine ⟨c.set (o.cf / 2) h, by simp [Mem.get_set], by simp [hlen], ?_, hpos⟩
      show (o.cf + 2) / 2 ≤ o.cap; omega
    · intro _; exact Or.inl ⟨hf, rfl⟩
    · intro _; exact Or.inl ⟨hf', rfl⟩
  · refine ⟨{ o with cf := o.cf + 2 }, by rw [hobj i]; simp, rfl, rfl, ?_⟩
    simp only [handlesOf, hf, hf', if_true, cellsOf, setObj_mem, Mem.get_set, hg, Option.getD_some, hdiv]
    exact take_set_succ _ _ _ hk
  · intro j hj; rw [hobj j]; simp [hj]
  · intro j oj hj hoj hfj
    have : oj.ext ≠ o.ext := fun e => hj (O.excl j i oj o hoj hi hfj hf e)
    simp only [setObj_mem, Mem.get_set, if_neg this]
  · simp


/-- `s'` differs from `s` only in the heap fields and by non-resumption events in the trace -/
structure HeapStep (s s' : State) : Prop where
  objs : s'.objs = s.objs
  queue : s'.queue = s.queue
  active : s'.active = s.active
  given : s'.given = s.given
  popped : s'.popped = s.popped
  resumed : resumed s' = resumed s

theorem HeapStep.refl (s : State) : HeapStep s s := ⟨rfl, rfl, rfl, rfl, rfl, rfl⟩
theorem HeapStep.trans {a b c : State} (h1 : HeapStep a b) (h2 : HeapStep b c) : HeapStep a c :=
  ⟨h2.objs.trans h1.objs, h2.queue.trans h1.queue, h2.active.trans h1.active, h2.given.trans h1.given,
   h2.popped.trans h1.popped, h2.resumed.trans h1.resumed⟩
theorem HeapStep.obj {s s' : State} (h : HeapStep s s') (k : Nat) : s'.obj k = s.obj k := by
  simp [State.obj, h.objs]

theorem heapStep_alloc (s : State) (cap : Nat) : HeapStep s (allocBlk s cap) :=
  ⟨rfl, rfl, rfl, rfl, rfl, by simp [resumed, allocBlk, List.filterMap_append, Ev.res?]⟩
theorem heapStep_free {s : State} {a : Nat} {c : List Ptr} (h : s.mem.get a = some c) : HeapStep s (freeBlk s a) := by
  rw [freeBlk_eq h]
  exact ⟨rfl, rfl, rfl, rfl, rfl, by simp [resumed, List.filterMap_append, Ev.res?]⟩
theorem heapStep_setCells (s : State) (m : Mem) : HeapStep s { s with mem := m } := ⟨rfl, rfl, rfl, rfl, rfl, rfl⟩

theorem addSpill_spec {s : State} {i : Nat} {o : Obj} (H : HeapOk s) (O : Own s) (hi : s.obj i = some o)
    (hf : ¬ o.cf % 2 = 1) (hc : ¬ o.cf / 2 < inlineCount) (h : Ptr) : AddSpec s i o [h] (addSpill s i o h) := by
  have hil := obj_lt hi
  have w := O.wf i o hi
  simp only [inlineCount] at hc
  have hk : o.cf / 2 = 3 := by have := w.inl_le (by omega); omega
  have hf' : (o.cf + 3) % 2 = 1 := by omega
  have hdiv : (o.cf + 3) / 2 = 4 := by omega
  have hnone := H.get_next
  obtain ⟨x0, x1, x2, hx⟩ : ∃ x0 x1 x2, o.inl = [x0, x1, x2] := by
    have := w.inl_len
    match hm : o.inl, this with
    | [a, b, c], _ => exact ⟨a, b, c, rfl⟩
  -- the heap primitives, one after the other
  have e1 : (allocBlk s (o.cf / 2 * 2)).mem.get s.nextAddr = some (List.replicate 6 junk) := by
    simp [allocBlk, Mem.get_set, hk]
  have e2 := copyInto_eq (src := o.inl) e1 (by simp [w.inl_len])
  have e3 : (copyInto (allocBlk s (o.cf / 2 * 2)) s.nextAddr o.inl).mem.get s.nextAddr
      = some [x0, x1, x2, junk, junk, junk] := by
    rw [e2]; simp [Mem.get_set, hx, List.replicate]
  have e4 := writeCell_eq e3 (k := o.cf / 2) (by simp [hk]) h
  have H1 := heapOk_alloc H (o.cf / 2 * 2)
  have H2 : HeapOk (copyInto (allocBlk s (o.cf / 2 * 2)) s.nextAddr o.inl) := by
    rw [e2]; exact heapOk_setCells H1 e1 _
  have H3 : HeapOk (writeCell (copyInto (allocBlk s (o.cf / 2 * 2)) s.nextAddr o.inl) s.nextAddr (o.cf / 2) h) := by
    rw [e4]; exact heapOk_setCells H2 e3 _
  have S3 : HeapStep s (writeCell (copyInto (allocBlk s (o.cf / 2 * 2)) s.nextAddr o.inl) s.nextAddr (o.cf / 2) h) := by
    have S2 : HeapStep (allocBlk s (o.cf / 2 * 2)) (copyInto (allocBlk s (o.cf / 2 * 2)) s.nextAddr o.inl) := by
      rw [e2]; exact heapStep_setCells _ _
    rw [e4]
    exact ((heapStep_alloc s (o.cf / 2 * 2)).trans S2).trans (heapStep_setCells _ _)
  have G3 : ∀ a, (writeCell (copyInto (allocBlk s (o.cf / 2 * 2)) s.nextAddr o.inl) s.nextAddr (o.cf / 2) h).mem.get a
      = if a = s.nextAddr then some [x0, x1, x2, h, junk, junk] else s.mem.get a := by
    intro a
    rw [e4]; simp only [Mem.get_set]
    split
    · simp [hk]
    · rw [e2]; simp only [Mem.get_set, allocBlk]; simp [*]
  generalize hW : writeCell (copyInto (allocBlk s (o.cf / 2 * 2)) s.nextAddr o.inl) s.nextAddr (o.cf / 2) h = W at H3 S3 G3
  have hst : addSpill s i o h = setObj W i
      (some { o with ext := s.nextAddr, cap := o.cf / 2 * 2, cf := o.cf + 3, inl := [junk, junk, junk] }) := by
    simp only [addSpill, hW]
  rw [hst]
  have hilW : i < W.objs.length := by rw [S3.objs]; exact hil
  have hobj : ∀ k, (setObj W i (some { o with ext := s.nextAddr, cap := o.cf / 2 * 2, cf := o.cf + 3, inl := [junk, junk, junk] })).obj k
      = if k = i then some { o with ext := s.nextAddr, cap := o.cf / 2 * 2, cf := o.cf + 3, inl := [junk, junk, junk] } else s.obj k := by
    intro k; rw [obj_setObj _ i _ k hilW, S3.obj]
  refine ⟨?_, ?_, ?_, ?_, ?_, ?_, S3.queue, S3.active, S3.given, S3.popped, ?_⟩
  · exact heapOk_of_eq H3 rfl rfl rfl [] (by simp)
  · refine own_step O hi hobj ?_ ⟨rfl, ?_, ?_⟩ ?_ ?_
    · intro a _ ha
      have : a ≠ s.nextAddr := ha hf'
      simp only [setObj_mem, G3, if_neg this]
    · intro hh; have hh' : (o.cf + 3) % 2 = 0 := hh; omega
    · intro _
      refine ⟨[x0, x1, x2, h, junk, junk], by simp [G3], by simp [hk], ?_, by simp [hk]⟩
      show (o.cf + 3) / 2 ≤ o.cf / 2 * 2; omega
    · intro _; exact Or.inr hnone
    · intro hh; exact absurd hh hf
  · refine ⟨{ o with ext := s.nextAddr, cap := o.cf / 2 * 2, cf := o.cf + 3, inl := [junk, junk, junk] },
      by rw [hobj i]; simp, rfl, rfl, ?_⟩
    simp only [handlesOf, hf, hf', if_true, if_false, cellsOf, setObj_mem, G3, Option.getD_some, hdiv, hk, hx]
    simp
  · intro j hj; rw [hobj j]; simp [hj]
  · intro j oj hj hoj hfj
    obtain ⟨c, hc, -⟩ := (O.wf j oj hoj).ext_ok hfj
    have : oj.ext ≠ s.nextAddr := Nat.ne_of_lt (H.lt_of_get hc)
    simp only [setObj_mem, G3, if_neg this]
  · simp [S3.objs]
  · exact S3.resumed


theorem addGrow_spec {s : State} {i : Nat} {o : Obj} (H : HeapOk s) (O : Own s) (hi : s.obj i = some o)
    (hf : o.cf % 2 = 1) (hc : o.cf / 2 = o.cap) (h : Ptr) : AddSpec s i o [h] (addGrow s i o h) := by
  have hil := obj_lt hi
  have w := O.wf i o hi
  obtain ⟨c, hg, hlen, hle, hpos⟩ := w.ext_ok hf
  have hk : c.length = o.cf / 2 := by omega
  have hkpos : 0 < o.cf / 2 := by omega
  have hf' : (o.cf + 2) % 2 = 1 := by omega
  have hdiv : (o.cf + 2) / 2 = o.cf / 2 + 1 := by omega
  have hnone := H.get_next
  have hne : o.ext ≠ s.nextAddr := Nat.ne_of_lt (H.lt_of_get hg)
  have hco : cellsOf s o.ext = c := by simp [cellsOf, hg]
  have htk : (c.take (o.cf / 2)).length = o.cf / 2 := by simp [hk]
  simp only [addGrow, hco]
  have e1 : (allocBlk s (o.cf / 2 * 2)).mem.get s.nextAddr = some (List.replicate (o.cf / 2 * 2) junk) := by
    simp [allocBlk, Mem.get_set]
  have e2 := copyInto_eq (src := c.take (o.cf / 2)) e1 (by simp; omega)
  have H1 := heapOk_alloc H (o.cf / 2 * 2)
  have S1 := heapStep_alloc s (o.cf / 2 * 2)
  generalize hA : allocBlk s (o.cf / 2 * 2) = A at e1 e2 H1 S1
  have gA : ∀ a, A.mem.get a = if a = s.nextAddr then some (List.replicate (o.cf / 2 * 2) junk) else s.mem.get a := by
    intro a; rw [← hA]; simp [allocBlk, Mem.get_set]
  have H2 : HeapOk (copyInto A s.nextAddr (c.take (o.cf / 2))) := by rw [e2]; exact heapOk_setCells H1 e1 _
  have S2 : HeapStep s (copyInto A s.nextAddr (c.take (o.cf / 2))) := by
    rw [e2]; exact S1.trans (heapStep_setCells _ _)
  have gC : ∀ a, (copyInto A s.nextAddr (c.take (o.cf / 2))).mem.get a
      = if a = s.nextAddr then some (c.take (o.cf / 2) ++ (List.replicate (o.cf / 2 * 2) junk).drop (o.cf / 2))
        else s.mem.get a := by
    intro a; rw [e2]; simp only [Mem.get_set, gA, htk]; split <;> rfl
  generalize hC : copyInto A s.nextAddr (c.take (o.cf / 2)) = C at H2 S2 gC
  have e3 : C.mem.get o.ext = some c := by rw [gC, if_neg hne, hg]
  have H3 := heapOk_free H2 e3
  have S3 := S2.trans (heapStep_free e3)
  have gF : ∀ a, (freeBlk C o.ext).mem.get a
      = if a = s.nextAddr then some (c.take (o.cf / 2) ++ (List.replicate (o.cf / 2 * 2) junk).drop (o.cf / 2))
        else if a = o.ext then none else s.mem.get a := by
    intro a; rw [freeBlk_eq e3]; simp only [Mem.get_del, gC]
    by_cases e : a = s.nextAddr
    · subst e; simp [Ne.symm hne]
    · simp [e]
  generalize hF : freeBlk C o.ext = F at H3 S3 gF
  have e4 : F.mem.get s.nextAddr
      = some (c.take (o.cf / 2) ++ (List.replicate (o.cf / 2 * 2) junk).drop (o.cf / 2)) := by rw [gF]; simp
  have e5 := writeCell_eq e4 (k := o.cf / 2) (by simp [hk]; omega) h
  have H4 : HeapOk (writeCell F s.nextAddr (o.cf / 2) h) := by rw [e5]; exact heapOk_setCells H3 e4 _
  have S4 : HeapStep s (writeCell F s.nextAddr (o.cf / 2) h) := by rw [e5]; exact S3.trans (heapStep_setCells _ _)
  have gW : ∀ a, (writeCell F s.nextAddr (o.cf / 2) h).mem.get a
      = if a = s.nextAddr then
          some ((c.take (o.cf / 2) ++ (List.replicate (o.cf / 2 * 2) junk).drop (o.cf / 2)).set (o.cf / 2) h)
        else if a = o.ext then none else s.mem.get a := by
    intro a; rw [e5]; simp only [Mem.get_set, gF]; split <;> simp [*]
  generalize hW : writeCell F s.nextAddr (o.cf / 2) h = W at H4 S4 gW
  have hilW : i < W.objs.length := by rw [S4.objs]; exact hil
  have hobj : ∀ k, (setObj W i (some { o with ext := s.nextAddr, cap := o.cf / 2 * 2, cf := o.cf + 2 })).obj k
      = if k = i then some { o with ext := s.nextAddr, cap := o.cf / 2 * 2, cf := o.cf + 2 } else s.obj k := by
    intro k; rw [obj_setObj _ i _ k hilW, S4.obj]
  refine ⟨?_, ?_, ?_, ?_, ?_, ?_, S4.queue, S4.active, S4.given, S4.popped, ?_⟩
  · exact heapOk_of_eq H4 rfl rfl rfl [] (by simp)
  · refine own_step O hi hobj ?_ ⟨w.inl_len, ?_, ?_⟩ ?_ ?_
    · intro a ha ha'
      have h1 : a ≠ s.nextAddr := ha' hf'
      have h2 : a ≠ o.ext := ha hf
      simp only [setObj_mem, gW, if_neg h1, if_neg h2]
    · intro hh; have hh' : (o.cf + 2) % 2 = 0 := hh; omega
    · intro _
      refine ⟨(c.take (o.cf / 2) ++ (List.replicate (o.cf / 2 * 2) junk).drop (o.cf / 2)).set (o.cf / 2) h,
        by simp only [setObj_mem, gW, if_true], ?_, ?_, ?_⟩
      · simp [hk]; show o.cf / 2 + (o.cf / 2 * 2 - o.cf / 2) = o.cf / 2 * 2; omega
      · show (o.cf + 2) / 2 ≤ o.cf / 2 * 2; omega
      · show 0 < o.cf / 2 * 2; omega
    · intro _; exact Or.inr hnone
    · intro _; right; simp only [setObj_mem, gW, if_neg hne, if_true]
  · refine ⟨{ o with ext := s.nextAddr, cap := o.cf / 2 * 2, cf := o.cf + 2 }, by rw [hobj i]; simp, rfl, rfl, ?_⟩
    simp only [handlesOf, hf, hf', if_true, cellsOf, setObj_mem, gW, Option.getD_some, hdiv, hg]
    rw [take_set_succ _ _ _ (by simp [hk]; omega)]
    congr 1
    rw [List.take_append_of_le_length (by simp [hk])]
    rw [List.take_take, Nat.min_self]
  · intro j hj; rw [hobj j]; simp [hj]
  · intro j oj hj hoj hfj
    obtain ⟨cj, hcj, -⟩ := (O.wf j oj hoj).ext_ok hfj
    have h1 : oj.ext ≠ s.nextAddr := Nat.ne_of_lt (H.lt_of_get hcj)
    have h2 : oj.ext ≠ o.ext := fun e => hj (O.excl j i oj o hoj hi hfj hf e)
    simp only [setObj_mem, gW, if_neg h1, if_neg h2]
  · simp [S4.objs]
  · exact S4.resumed


theorem addObj_spec {s : State} {i : Nat} {o : Obj} (H : HeapOk s) (O : Own s) (hi : s.obj i = some o) (h : Ptr) :
    AddSpec s i o [h] (addObj s i o h) := by
  unfold addObj
  split
  · split
    · exact addGrow_spec H O hi ‹_› ‹_› h
    · exact addExt_spec H O hi ‹_› ‹_› h
  · split
    · exact addInl_spec H O hi ‹_› ‹_› h
    · exact addSpill_spec H O hi ‹_› ‹_› h

theorem add_spec {s : State} {i : Nat} {o : Obj} (H : HeapOk s) (O : Own s) (hi : s.obj i = some o) (h : Ptr) :
    AddSpec s i o [h] (add s i h) := by
  simp only [add, hi]; exact addObj_spec H O hi h

theorem AddSpec.nil {s : State} {i : Nat} {o : Obj} (H : HeapOk s) (O : Own s) (hi : s.obj i = some o) :
    AddSpec s i o [] s :=
  ⟨H, O, ⟨o, hi, rfl, rfl, by simp⟩, fun _ _ => rfl, fun _ _ _ _ _ => rfl, rfl, rfl, rfl, rfl, rfl, rfl⟩

theorem AddSpec.trans {s s1 s2 : State} {i : Nat} {o : Obj} {hs hs' : List Ptr} (A : AddSpec s i o hs s1)
    (B : ∀ o1, s1.obj i = some o1 → AddSpec s1 i o1 hs' s2) : AddSpec s i o (hs ++ hs') s2 := by
  obtain ⟨o1, h1, ht, hv, hh⟩ := A.obj_i
  have B := B o1 h1
  obtain ⟨o2, h2, ht2, hv2, hh2⟩ := B.obj_i
  refine ⟨B.heap, B.own, ⟨o2, h2, ht2.trans ht, hv2.trans hv, by rw [hh2, hh, List.append_assoc]⟩, ?_, ?_,
    B.len.trans A.len, B.queue.trans A.queue, B.active.trans A.active, B.given.trans A.given,
    B.popped.trans A.popped, B.resumed.trans A.resumed⟩
  · intro j hj; rw [B.obj_other j hj, A.obj_other j hj]
  · intro j oj hj hoj hfj
    rw [B.mem_other j oj hj (by rw [A.obj_other j hj]; exact hoj) hfj, A.mem_other j oj hj hoj hfj]

theorem addAll_spec {s : State} {i : Nat} {o : Obj} (H : HeapOk s) (O : Own s) (hi : s.obj i = some o)
    (hs : List Ptr) : AddSpec s i o hs (addAll s i hs) := by
  induction hs generalizing s o with
  | nil => exact AddSpec.nil H O hi
  | cons h t ih =>
      have A := add_spec H O hi h
      have := A.trans (hs' := t) (s2 := addAll (add s i h) i t) (fun o1 h1 => ih A.heap A.own h1)
      simpa [addAll] using this

/-- handles of another object are not affected -/
theorem AddSpec.handles_other {s s' : State} {i : Nat} {o : Obj} {hs : List Ptr} (A : AddSpec s i o hs s')
    {j : Nat} (hj : j ≠ i) : handles s' j = handles s j := by
  simp only [handles, A.obj_other j hj]
  cases hoj : s.obj j with
  | none => rfl
  | some oj =>
      simp only [handlesOf, cellsOf]
      split
      · rw [A.mem_other j oj hj hoj ‹_›]
      · rfl

theorem AddSpec.handles_self {s s' : State} {i : Nat} {o : Obj} {hs : List Ptr} (A : AddSpec s i o hs s')
    (hi : s.obj i = some o) : handles s' i = handles s i ++ hs := by
  obtain ⟨o1, h1, -, -, hh⟩ := A.obj_i
  simp only [handles, h1, hi, hh]

/-! ### `clear_internal` -/

/-- nothing but the pool and the heap changed -/
structure Quiet (s s' : State) : Prop where
  len : s'.objs.length = s.objs.length
  queue : s'.queue = s.queue
  active : s'.active = s.active
  given : s'.given = s.given
  popped : s'.popped = s.popped
  resumed : resumed s' = resumed s

theorem Quiet.refl (s : State) : Quiet s s := ⟨rfl, rfl, rfl, rfl, rfl, rfl⟩
theorem Quiet.trans {a b c : State} (h1 : Quiet a b) (h2 : Quiet b c) : Quiet a c :=
  ⟨h2.len.trans h1.len, h2.queue.trans h1.queue, h2.active.trans h1.active, h2.given.trans h1.given,
   h2.popped.trans h1.popped, h2.resumed.trans h1.resumed⟩
theorem HeapStep.quiet {s s' : State} (h : HeapStep s s') : Quiet s s' :=
  ⟨by rw [h.objs], h.queue, h.active, h.given, h.popped, h.resumed⟩
theorem quiet_setObj (s : State) (i : Nat) (o : Option Obj) : Quiet s (setObj s i o) :=
  ⟨by simp, rfl, rfl, rfl, rfl, rfl⟩
theorem AddSpec.quiet {s s' : State} {i : Nat} {o : Obj} {hs : List Ptr} (A : AddSpec s i o hs s') : Quiet s s' :=
  ⟨A.len, A.queue, A.active, A.given, A.popped, A.resumed⟩

theorem handles_congr {s s' : State} {k : Nat} (ho : s'.obj k = s.obj k)
    (hm : ∀ ok, s.obj k = some ok → ok.cf % 2 = 1 → s'.mem.get ok.ext = s.mem.get ok.ext) :
    handles s' k = handles s k := by
  simp only [handles, ho]
  cases hok : s.obj k with
  | none => rfl
  | some ok =>
      simp only [handlesOf, cellsOf]
      split
      · rw [hm ok hok ‹_›]
      · rfl

/-- what `clear_internal()` does to object `j` -/
structure ClearSpec (s : State) (j : Nat) (oj : Obj) (s' : State) : Prop where
  heap : HeapOk s'
  own : Own s'
  obj : ∀ k, s'.obj k = if k = j then some { oj with cf := 0 } else s.obj k
  handles_self : handles s' j = []
  handles_other : ∀ k, k ≠ j → handles s' k = handles s k
  quiet : Quiet s s'
  mem_other : ∀ k ok, k ≠ j → s.obj k = some ok → ok.cf % 2 = 1 → s'.mem.get ok.ext = s.mem.get ok.ext

theorem clearInternal_spec {s : State} {j : Nat} {oj : Obj} (H : HeapOk s) (O : Own s) (hj : s.obj j = some oj) :
    ClearSpec s j oj (clearInternal s j oj) := by
  have hjl := obj_lt hj
  have w := O.wf j oj hj
  by_cases hf : oj.cf % 2 = 1
  · obtain ⟨c, hg, -⟩ := w.ext_ok hf
    have hst : clearInternal s j oj = setObj (freeBlk s oj.ext) j (some { oj with cf := 0 }) := by
      simp [clearInternal, hf]
    rw [hst]
    have S1 := heapStep_free hg
    have H1 := heapOk_free H hg
    have g1 : ∀ a, (freeBlk s oj.ext).mem.get a = if a = oj.ext then none else s.mem.get a := by
      intro a; rw [freeBlk_eq hg]; simp only [Mem.get_del]
    generalize freeBlk s oj.ext = F at S1 H1 g1
    have hjF : j < F.objs.length := by rw [S1.objs]; exact hjl
    have hobj : ∀ k, (setObj F j (some { oj with cf := 0 })).obj k = if k = j then some { oj with cf := 0 } else s.obj k := by
      intro k; rw [obj_setObj _ j _ k hjF, S1.obj]
    have hmo : ∀ k ok, k ≠ j → s.obj k = some ok → ok.cf % 2 = 1 →
        (setObj F j (some { oj with cf := 0 })).mem.get ok.ext = s.mem.get ok.ext := by
      intro k ok hk hok hfk
      have : ok.ext ≠ oj.ext := fun e => hk (O.excl k j ok oj hok hj hfk hf e)
      simp only [setObj_mem, g1, if_neg this]
    refine ⟨heapOk_of_eq H1 rfl rfl rfl [] (by simp), ?_, hobj, ?_, ?_, S1.quiet.trans (quiet_setObj _ _ _), hmo⟩
    · refine own_step O hj hobj ?_ ⟨w.inl_len, fun _ => by show 0 / 2 ≤ 3; omega, fun hh => by cases hh⟩
        (fun hh => by cases hh) ?_
      · intro a ha _; simp only [setObj_mem, g1, if_neg (ha hf)]
      · intro _; right; simp only [setObj_mem, g1, if_true]
    · simp [handles, hobj j, handlesOf]
    · intro k hk
      exact handles_congr (by rw [hobj k]; simp [hk]) (fun ok hok hfk => hmo k ok hk hok hfk)
  · have hst : clearInternal s j oj = setObj s j (some { oj with cf := 0 }) := by
      simp [clearInternal, hf]
    rw [hst]
    have hobj : ∀ k, (setObj s j (some { oj with cf := 0 })).obj k = if k = j then some { oj with cf := 0 } else s.obj k :=
      fun k => obj_setObj _ j _ k hjl
    refine ⟨heapOk_of_eq H rfl rfl rfl [] (by simp), ?_, hobj, ?_, ?_, quiet_setObj _ _ _, fun _ _ _ _ _ => rfl⟩
    · exact own_step O hj hobj (fun a _ _ => rfl) ⟨w.inl_len, fun _ => by show 0 / 2 ≤ 3; omega, fun hh => by cases hh⟩
        (fun hh => by cases hh) (fun hh => absurd hh hf)
    · simp [handles, hobj j, handlesOf]
    · intro k hk
      exact handles_congr (by rw [hobj k]; simp [hk]) (fun _ _ _ => rfl)

/-! ### the global invariant -/

theorem take_succ_getD {α} (l : List α) (n : Nat) (d : α) (hn : n < l.length) :
    l.take (n + 1) = l.take n ++ [l.getD n d] := by
  induction l generalizing n with
  | nil => simp at hn
  | cons x t ih =>
      cases n with
      | zero => simp
      | succ n => simp at hn; simp [ih n hn]

/-! ### all handles held by the pool -/
def heldAll (H : Nat → List Ptr) : Nat → List Ptr
  | 0 => []
  | n + 1 => heldAll H n ++ H n

def held (s : State) : List Ptr := heldAll (handles s) s.objs.length

theorem heldAll_congr {H H' : Nat → List Ptr} {n : Nat} (h : ∀ k, k < n → H' k = H k) : heldAll H' n = heldAll H n := by
  induction n with
  | zero => rfl
  | succ n ih => simp only [heldAll, ih (fun k hk => h k (Nat.lt_succ_of_lt hk)), h n (Nat.lt_succ_self n)]

theorem count_heldAll_change1 {H H' : Nat → List Ptr} {n i : Nat} (hi : i < n) (ho : ∀ k, k ≠ i → H' k = H k)
    (h : Ptr) : (heldAll H' n).count h + (H i).count h = (heldAll H n).count h + (H' i).count h := by
  induction n with
  | zero => omega
  | succ n ih =>
      simp only [heldAll, List.count_append]
      by_cases e : i = n
      · subst e
        rw [heldAll_congr (H := H) (H' := H') (fun k hk => ho k (Nat.ne_of_lt hk))]
        omega
      · have := ih (by omega)
        rw [ho n (fun e' => e e'.symm)]
        omega

theorem count_heldAll_change2 {H H' : Nat → List Ptr} {n i j : Nat} (hij : i ≠ j) (hi : i < n) (hj : j < n)
    (ho : ∀ k, k ≠ i → k ≠ j → H' k = H k) (h : Ptr) :
    (heldAll H' n).count h + (H i).count h + (H j).count h
      = (heldAll H n).count h + (H' i).count h + (H' j).count h := by
  have a := count_heldAll_change1 (H := H) (H' := fun k => if k = j then H j else H' k) hi
    (by intro k hk; by_cases e : k = j <;> simp [e, ho k hk]) h
  have b := count_heldAll_change1 (H := fun k => if k = j then H j else H' k) (H' := H') hj
    (by intro k hk; simp [hk]) h
  simp only [if_neg hij, if_true] at a b
  omega

theorem handles_none {s : State} {i : Nat} (h : s.obj i = none) : handles s i = [] := by simp [handles, h]

structure Inv (s : State) : Prop where
  heap : HeapOk s
  own : Own s
  idle : s.active = false → s.queue = []
  conserve : ∀ h, s.given.count h
      = (held s).count h + s.queue.count h + (resumed s).count h + s.popped.count h

theorem own_of_eq {s s' : State} (O : Own s) (ho : s'.objs = s.objs) (hm : s'.mem = s.mem) : Own s' := by
  have hobj : ∀ k, s'.obj k = s.obj k := fun k => by simp [State.obj, ho]
  refine ⟨?_, ?_, ?_⟩
  · intro i o hi; rw [hobj] at hi
    have w := O.wf i o hi
    exact ⟨w.inl_len, w.inl_le, by rw [hm]; exact w.ext_ok⟩
  · intro i j oi oj hi hj; rw [hobj] at hi hj; exact O.excl i j oi oj hi hj
  · intro a c hc; rw [hm] at hc
    obtain ⟨i, o, h1, h2, h3⟩ := O.owned a c hc
    exact ⟨i, o, by rw [hobj]; exact h1, h2, h3⟩

theorem handles_of_eq {s s' : State} (ho : s'.objs = s.objs) (hm : s'.mem = s.mem) (k : Nat) :
    handles s' k = handles s k := by
  simp [handles, State.obj, ho, handlesOf, cellsOf, hm]

theorem held_of_eq {s s' : State} (ho : s'.objs = s.objs) (hm : s'.mem = s.mem) : held s' = held s := by
  simp only [held, ho]; exact heldAll_congr (fun k _ => handles_of_eq ho hm k)

theorem inv_init (n : Nat) (a : Bool) : Inv (init n a) := by
  have hobj : ∀ k, (init n a).obj k = none := by
    intro k; simp only [State.obj, init, List.getElem?_replicate]; split <;> rfl
  refine ⟨⟨?_, ?_, ?_, ?_, ?_, ?_⟩, ⟨?_, ?_, ?_⟩, ?_, ?_⟩
  · intro x; simp [init]
  · simp [init]
  · intro x hx; simp [init] at hx
  · simp [init, news, deletes]
  · simp [init]
  · simp [init]
  · intro i o hi; rw [hobj] at hi; cases hi
  · intro i j oi oj hi; rw [hobj] at hi; cases hi
  · intro x c hc; simp [init] at hc
  · intro _; rfl
  · intro h
    have : held (init n a) = [] := by
      simp only [held]
      generalize (init n a).objs.length = m
      induction m with
      | zero => rfl
      | succ m ih => simp [heldAll, ih, handles_none (hobj m)]
    rw [this]; simp [init, resumed]

theorem held_change1 {s s' : State} {i : Nat} (hl : s'.objs.length = s.objs.length) (hi : i < s.objs.length)
    (ho : ∀ k, k ≠ i → handles s' k = handles s k) (h : Ptr) :
    (held s').count h + (handles s i).count h = (held s).count h + (handles s' i).count h := by
  simp only [held, hl]; exact count_heldAll_change1 hi ho h

theorem held_change2 {s s' : State} {i j : Nat} (hl : s'.objs.length = s.objs.length) (hij : i ≠ j)
    (hi : i < s.objs.length) (hj : j < s.objs.length)
    (ho : ∀ k, k ≠ i → k ≠ j → handles s' k = handles s k) (h : Ptr) :
    (held s').count h + (handles s i).count h + (handles s j).count h
      = (held s).count h + (handles s' i).count h + (handles s' j).count h := by
  simp only [held, hl]; exact count_heldAll_change2 hij hi hj ho h

/-- a new, unflagged object appears in a vacant slot -/
theorem own_insert {s s' : State} {i : Nat} {o' : Obj} (O : Own s) (hi : s.obj i = none)
    (hobj : ∀ k, s'.obj k = if k = i then some o' else s.obj k) (hm : s'.mem = s.mem)
    (hf : ¬ o'.cf % 2 = 1) (hlen : o'.inl.length = 3) (hle : o'.cf / 2 ≤ 3) : Own s' := by
  refine ⟨?_, ?_, ?_⟩
  · intro k ok hk; rw [hobj] at hk
    by_cases e : k = i
    · simp only [e, if_true, Option.some.injEq] at hk; subst hk
      exact ⟨hlen, fun _ => hle, fun hh => absurd hh hf⟩
    · simp only [e, if_false] at hk
      have w := O.wf k ok hk
      exact ⟨w.inl_len, w.inl_le, by rw [hm]; exact w.ext_ok⟩
  · intro k l ok ol hk hl hfk hfl e
    rw [hobj] at hk hl
    by_cases ek : k = i
    · simp only [ek, if_true, Option.some.injEq] at hk; subst hk; exact absurd hfk hf
    · by_cases el : l = i
      · simp only [el, if_true, Option.some.injEq] at hl; subst hl; exact absurd hfl hf
      · simp only [ek, if_false] at hk; simp only [el, if_false] at hl
        exact O.excl k l ok ol hk hl hfk hfl e
  · intro a c hc; rw [hm] at hc
    obtain ⟨k, ok, h1, h2, h3⟩ := O.owned a c hc
    have : k ≠ i := by intro e; subst e; rw [hi] at h1; cases h1
    exact ⟨k, ok, by rw [hobj]; simp [this, h1], h2, h3⟩

/-- an unflagged object disappears -/
theorem own_remove {s s' : State} {i : Nat} {o : Obj} (O : Own s) (hi : s.obj i = some o)
    (hobj : ∀ k, s'.obj k = if k = i then none else s.obj k) (hm : s'.mem = s.mem)
    (hf : ¬ o.cf % 2 = 1) : Own s' := by
  refine ⟨?_, ?_, ?_⟩
  · intro k ok hk; rw [hobj] at hk
    by_cases e : k = i
    · simp [e] at hk
    · simp only [e, if_false] at hk
      have w := O.wf k ok hk
      exact ⟨w.inl_len, w.inl_le, by rw [hm]; exact w.ext_ok⟩
  · intro k l ok ol hk hl hfk hfl e
    rw [hobj] at hk hl
    by_cases ek : k = i
    · simp [ek] at hk
    · by_cases el : l = i
      · simp [el] at hl
      · simp only [ek, if_false] at hk; simp only [el, if_false] at hl
        exact O.excl k l ok ol hk hl hfk hfl e
  · intro a c hc; rw [hm] at hc
    obtain ⟨k, ok, h1, h2, h3⟩ := O.owned a c hc
    have : k ≠ i := by intro e; subst e; rw [hi] at h1; cases h1; exact hf h2
    exact ⟨k, ok, by rw [hobj]; simp [this, h1], h2, h3⟩

theorem moveFrom_flag (oj : Obj) (t : Bool) (v : Option Nat) : (moveFrom oj t v).cf = oj.cf := by
  unfold moveFrom; split <;> rfl

/-- the move constructor: the block (if any) changes owner -/
theorem own_move {s : State} {i j : Nat} {oj : Obj} (O : Own s) (hi : s.obj i = none) (hil : i < s.objs.length)
    (hj : s.obj j = some oj) (t : Bool) (v : Option Nat) : Own (stepMove s i j t v oj) := by
  have hjl := obj_lt hj
  have hij : i ≠ j := by intro e; subst e; rw [hi] at hj; cases hj
  have hobj : ∀ k, (stepMove s i j t v oj).obj k
      = if k = j then some { oj with cf := 0 } else if k = i then some (moveFrom oj t v) else s.obj k := by
    intro k
    simp only [stepMove]
    rw [obj_setObj _ j _ k (by simpa using hjl), obj_setObj _ i _ k hil]
  have wj := O.wf j oj hj
  have hm : (stepMove s i j t v oj).mem = s.mem := rfl
  refine ⟨?_, ?_, ?_⟩
  · intro k ok hk; rw [hobj] at hk
    by_cases ekj : k = j
    · simp only [ekj, if_true, Option.some.injEq] at hk; subst hk
      exact ⟨wj.inl_len, fun _ => by show 0 / 2 ≤ 3; omega, fun hh => by cases hh⟩
    · by_cases eki : k = i
      · simp only [eki, if_true, if_false, Option.some.injEq, hij] at hk; subst hk
        unfold moveFrom
        split
        · exact ⟨rfl, fun hh => by simp_all, fun _ => by rw [hm]; exact wj.ext_ok ‹_›⟩
        · exact ⟨wj.inl_len, fun _ => wj.inl_le (by omega), fun hh => by simp_all⟩
      · simp only [ekj, eki, if_false] at hk
        have w := O.wf k ok hk
        exact ⟨w.inl_len, w.inl_le, by rw [hm]; exact w.ext_ok⟩
  · -- a flagged object in the new state is either an old flagged object other than j, or `i` carrying j's block
    have key : ∀ k ok, (stepMove s i j t v oj).obj k = some ok → ok.cf % 2 = 1 →
        (k ≠ j ∧ k ≠ i ∧ s.obj k = some ok) ∨ (k = i ∧ oj.cf % 2 = 1 ∧ ok.ext = oj.ext) := by
      intro k ok hk hfk; rw [hobj] at hk
      by_cases ekj : k = j
      · simp only [ekj, if_true, Option.some.injEq] at hk; subst hk; cases hfk
      · by_cases eki : k = i
        · simp only [eki, if_true, if_false, Option.some.injEq, hij] at hk; subst hk
          right
          rw [moveFrom_flag] at hfk
          exact ⟨eki, hfk, by simp [moveFrom, hfk]⟩
        · simp only [ekj, eki, if_false] at hk; exact Or.inl ⟨ekj, eki, hk⟩
    intro k l ok ol hk hl hfk hfl e
    rcases key k ok hk hfk with ⟨k1, k2, k3⟩ | ⟨k1, k2, k3⟩ <;> rcases key l ol hl hfl with ⟨l1, l2, l3⟩ | ⟨l1, l2, l3⟩
    · exact O.excl k l ok ol k3 l3 hfk hfl e
    · exact (k1 (O.excl k j ok oj k3 hj hfk l2 (e.trans l3))).elim
    · exact (l1 (O.excl l j ol oj l3 hj hfl k2 (e.symm.trans k3))).elim
    · rw [k1, l1]
  · intro a c hc; rw [hm] at hc
    obtain ⟨k, ok, h1, h2, h3⟩ := O.owned a c hc
    by_cases ekj : k = j
    · subst ekj; rw [hj] at h1; cases h1
      refine ⟨i, moveFrom oj t v, by rw [hobj]; simp [hij], by rw [moveFrom_flag]; exact h2, ?_⟩
      simp [moveFrom, h2, h3]
    · have eki : k ≠ i := by intro e; subst e; rw [hi] at h1; cases h1
      exact ⟨k, ok, by rw [hobj]; simp [ekj, eki, h1], h2, h3⟩

theorem vacant_iff {s : State} {i : Nat} : vacant s i = true ↔ i < s.objs.length ∧ s.obj i = none := by
  simp [vacant, Option.isNone_iff_eq_none]

macro "cnt" : tactic => `(tactic| simp only [List.count_append, List.count_cons, List.count_nil, beq_iff_eq,
  List.append_nil, List.nil_append] at *)

/-! ### constructors -/
theorem ctor_spec {s : State} (I : Inv s) {i : Nat} (hv : vacant s i = true) (o0 : Obj) (gs : List Ptr)
    (hf : ¬ o0.cf % 2 = 1) (hlen : o0.inl.length = 3) (hle : o0.cf / 2 ≤ 3) (hg : o0.inl.take (o0.cf / 2) = gs) :
    Inv (setObj { s with given := s.given ++ gs } i (some o0))
    ∧ handles (setObj { s with given := s.given ++ gs } i (some o0)) i = gs
    ∧ ∀ k, k ≠ i → handles (setObj { s with given := s.given ++ gs } i (some o0)) k = handles s k := by
  obtain ⟨hil, hin⟩ := vacant_iff.1 hv
  have hobj : ∀ k, (setObj { s with given := s.given ++ gs } i (some o0)).obj k = if k = i then some o0 else s.obj k :=
    fun k => obj_setObj _ i _ k hil
  have hi' : handles (setObj { s with given := s.given ++ gs } i (some o0)) i = gs := by
    simp [handles, hobj i, handlesOf, hf, hg]
  have ho' : ∀ k, k ≠ i → handles (setObj { s with given := s.given ++ gs } i (some o0)) k = handles s k := by
    intro k hk; exact handles_congr (by rw [hobj k]; simp [hk]) (fun _ _ _ => rfl)
  refine ⟨⟨heapOk_of_eq I.heap rfl rfl rfl [] (by simp), own_insert I.own hin hobj rfl hf hlen hle, I.idle, ?_⟩, hi', ho'⟩
  intro h
  have c := I.conserve h
  have k := held_change1 (s := s) (s' := setObj { s with given := s.given ++ gs } i (some o0)) (by simp) hil ho' h
  rw [hi', handles_none hin] at k
  simp only [setObj_given, setObj_queue, setObj_popped, List.count_append]
  have : resumed (setObj { s with given := s.given ++ gs } i (some o0)) = resumed s := rfl
  rw [this]; cnt; omega

/-! ### move construction -/
theorem move_spec {s : State} (I : Inv s) {i j : Nat} {oj : Obj} (hv : vacant s i = true) (hj : s.obj j = some oj)
    (t : Bool) (v : Option Nat) :
    Inv (stepMove s i j t v oj) ∧ handles (stepMove s i j t v oj) i = handles s j
    ∧ handles (stepMove s i j t v oj) j = []
    ∧ (∀ k, k ≠ i → k ≠ j → handles (stepMove s i j t v oj) k = handles s k)
    ∧ Quiet s (stepMove s i j t v oj) := by
  obtain ⟨hil, hin⟩ := vacant_iff.1 hv
  have hjl := obj_lt hj
  have hij : i ≠ j := by intro e; subst e; rw [hin] at hj; cases hj
  have hobj : ∀ k, (stepMove s i j t v oj).obj k
      = if k = j then some { oj with cf := 0 } else if k = i then some (moveFrom oj t v) else s.obj k := by
    intro k
    simp only [stepMove]
    rw [obj_setObj _ j _ k (by simpa using hjl), obj_setObj _ i _ k hil]
  have hQ : Quiet s (stepMove s i j t v oj) := ⟨by simp [stepMove], rfl, rfl, rfl, rfl, rfl⟩
  have h1 : handles (stepMove s i j t v oj) i = handles s j := by
    simp only [handles, hobj i, if_neg hij, if_true, hj]
    simp only [handlesOf, moveFrom_flag, cellsOf]
    unfold moveFrom
    split <;> rfl
  have h2 : handles (stepMove s i j t v oj) j = [] := by
    simp [handles, hobj j, handlesOf]
  have h3 : ∀ k, k ≠ i → k ≠ j → handles (stepMove s i j t v oj) k = handles s k := by
    intro k hki hkj; exact handles_congr (by rw [hobj k]; simp [hki, hkj]) (fun _ _ _ => rfl)
  refine ⟨⟨heapOk_of_eq I.heap rfl rfl rfl [] (by simp [stepMove]), own_move I.own hin hil hj t v, I.idle, ?_⟩, h1, h2, h3, hQ⟩
  intro h
  have c := I.conserve h
  have k := held_change2 hQ.len hij hil hjl h3 h
  rw [h1, h2, handles_none hin] at k
  rw [hQ.given, hQ.queue, hQ.popped, hQ.resumed]; cnt; omega

/-! ### merging -/
theorem merge_spec {s : State} (I : Inv s) {i j : Nat} {oi oj : Obj} (hi : s.obj i = some oi) (hj : s.obj j = some oj)
    (hij : i ≠ j) :
    Inv (stepMerge s i j oj) ∧ handles (stepMerge s i j oj) i = handles s i ++ handles s j
    ∧ handles (stepMerge s i j oj) j = []
    ∧ (∀ k, k ≠ i → k ≠ j → handles (stepMerge s i j oj) k = handles s k)
    ∧ Quiet s (stepMerge s i j oj)
    ∧ (∃ oi', (stepMerge s i j oj).obj i = some oi' ∧ oi'.typed = oi.typed ∧ oi'.value = oi.value)
    ∧ (stepMerge s i j oj).obj j = some { oj with cf := 0 }
    ∧ (∀ k, k ≠ i → k ≠ j → (stepMerge s i j oj).obj k = s.obj k) := by
  have A := addAll_spec I.heap I.own hi (handlesOf s oj)
  have hj1 : (addAll s i (handlesOf s oj)).obj j = some oj := by rw [A.obj_other j (Ne.symm hij)]; exact hj
  have C := clearInternal_spec A.heap A.own hj1
  have hil := obj_lt hi
  have hjl := obj_lt hj
  have hQ : Quiet s (stepMerge s i j oj) := A.quiet.trans C.quiet
  have h1 : handles (stepMerge s i j oj) i = handles s i ++ handles s j := by
    show handles (clearInternal _ j oj) i = _
    rw [C.handles_other i hij, A.handles_self hi]; simp [handles, hj]
  have h2 : handles (stepMerge s i j oj) j = [] := C.handles_self
  have h3 : ∀ k, k ≠ i → k ≠ j → handles (stepMerge s i j oj) k = handles s k := by
    intro k hki hkj
    show handles (clearInternal _ j oj) k = _
    rw [C.handles_other k hkj, A.handles_other hki]
  refine ⟨⟨C.heap, C.own, ?_, ?_⟩, h1, h2, h3, hQ, ?_, ?_, ?_⟩
  · intro ha; rw [hQ.queue]; exact I.idle (by rw [← hQ.active]; exact ha)
  · intro h
    have c := I.conserve h
    have k := held_change2 hQ.len hij hil hjl h3 h
    rw [h1, h2] at k
    rw [hQ.given, hQ.queue, hQ.popped, hQ.resumed]; cnt; omega
  · obtain ⟨o1, e1, e2, e3, -⟩ := A.obj_i
    exact ⟨o1, by show (clearInternal _ j oj).obj i = _; rw [C.obj i]; simp [hij, e1], e2, e3⟩
  · show (clearInternal _ j oj).obj j = _; rw [C.obj j]; simp
  · intro k hki hkj
    show (clearInternal _ j oj).obj k = _; rw [C.obj k]; simp [hkj, A.obj_other k hki]

@[simp] theorem resumed_resumeAll (s : State) (hs : List Ptr) : resumed (resumeAll s hs) = resumed s ++ hs := by
  simp only [resumed, resumeAll, List.filterMap_append, filterMap_res_map]
@[simp] theorem resumed_enqueue (s : State) (hs : List Ptr) : resumed (enqueue s hs) = resumed s := rfl
@[simp] theorem resumed_flushAll (s : State) : resumed (flushAll s) = resumed s ++ s.queue := by
  simp only [resumed, flushAll, List.filterMap_append, filterMap_res_map]
@[simp] theorem resumed_flushUntil (s : State) (me : Ptr) :
    resumed (flushUntil s me) = resumed s ++ s.queue.take (s.queue.idxOf me + 1) := by
  simp only [resumed, flushUntil, List.filterMap_append, filterMap_res_map]

/-! ### `sp << h` -/
theorem addH_spec {s : State} (I : Inv s) {i : Nat} {o : Obj} (hi : s.obj i = some o) (h : Ptr) :
    Inv (add { s with given := s.given ++ [h] } i h)
    ∧ handles (add { s with given := s.given ++ [h] } i h) i = handles s i ++ [h]
    ∧ (∀ k, k ≠ i → handles (add { s with given := s.given ++ [h] } i h) k = handles s k)
    ∧ (∃ o', (add { s with given := s.given ++ [h] } i h).obj i = some o' ∧ o'.typed = o.typed ∧ o'.value = o.value)
    ∧ (∀ k, k ≠ i → (add { s with given := s.given ++ [h] } i h).obj k = s.obj k) := by
  have H0 : HeapOk { s with given := s.given ++ [h] } := heapOk_of_eq I.heap rfl rfl rfl [] (by simp)
  have O0 : Own { s with given := s.given ++ [h] } := own_of_eq I.own rfl rfl
  have hi0 : ({ s with given := s.given ++ [h] } : State).obj i = some o := hi
  have A := add_spec H0 O0 hi0 h
  have h1 : handles (add { s with given := s.given ++ [h] } i h) i = handles s i ++ [h] := by
    rw [A.handles_self hi0]; rfl
  have h2 : ∀ k, k ≠ i → handles (add { s with given := s.given ++ [h] } i h) k = handles s k := by
    intro k hk; rw [A.handles_other hk]; rfl
  refine ⟨⟨A.heap, A.own, ?_, ?_⟩, h1, h2, ?_, A.obj_other⟩
  · intro ha; rw [A.queue]; exact I.idle (by rw [← A.active]; exact ha)
  · intro x
    have c := I.conserve x
    have k := held_change1 (s := s) A.len (obj_lt hi) h2 x
    rw [h1] at k
    rw [A.given, A.queue, A.popped, A.resumed]
    show List.count x (s.given ++ [h]) = _ + List.count x s.queue + List.count x (resumed s) + _
    cnt; omega
  · obtain ⟨o1, e1, e2, e3, -⟩ := A.obj_i; exact ⟨o1, e1, e2, e3⟩

/-! ### `pop()` -/
theorem handlesOf_pop {s : State} {o : Obj} (w : ObjWf s o) (hc : o.cf / 2 ≠ 0) :
    handlesOf s o = handlesOf s { o with cf := o.cf - 2 } ++ [popValue s o] := by
  have h2 : 2 ≤ o.cf := by omega
  have hp : (o.cf - 2) % 2 = o.cf % 2 := by omega
  have hd : o.cf / 2 = (o.cf - 2) / 2 + 1 := by omega
  have hd' : o.cf / 2 - 1 = (o.cf - 2) / 2 := by omega
  simp only [handlesOf, popValue, hp, hd']
  by_cases hf : o.cf % 2 = 1
  · obtain ⟨c, hg, hlen, hle, -⟩ := w.ext_ok hf
    simp only [hf, if_true, cellsOf, hg, Option.getD_some]
    rw [hd]; exact take_succ_getD _ _ _ (by omega)
  · simp only [hf, if_false]
    have := w.inl_le (by omega)
    rw [hd]; exact take_succ_getD _ _ _ (by rw [w.inl_len]; omega)

/-- decrementing the count of object `i` (the first statement of `pop()`) -/
theorem dec_spec {s : State} (H : HeapOk s) (O : Own s) {i : Nat} {o : Obj} (hi : s.obj i = some o) (hc : o.cf / 2 ≠ 0) :
    HeapOk (setObj s i (some { o with cf := o.cf - 2 })) ∧ Own (setObj s i (some { o with cf := o.cf - 2 }))
    ∧ handles s i = handles (setObj s i (some { o with cf := o.cf - 2 })) i ++ [popValue s o]
    ∧ (∀ k, k ≠ i → handles (setObj s i (some { o with cf := o.cf - 2 })) k = handles s k)
    ∧ (∀ k, (setObj s i (some { o with cf := o.cf - 2 })).obj k = if k = i then some { o with cf := o.cf - 2 } else s.obj k) := by
  have hil := obj_lt hi
  have w := O.wf i o hi
  have hobj : ∀ k, (setObj s i (some { o with cf := o.cf - 2 })).obj k = if k = i then some { o with cf := o.cf - 2 } else s.obj k :=
    fun k => obj_setObj _ i _ k hil
  have hp : (o.cf - 2) % 2 = o.cf % 2 := by omega
  refine ⟨heapOk_of_eq H rfl rfl rfl [] (by simp), ?_, ?_, ?_, hobj⟩
  · refine own_step O hi hobj (fun a _ _ => rfl) ⟨w.inl_len, ?_, ?_⟩ ?_ ?_
    · intro hh
      have hh' : (o.cf - 2) % 2 = 0 := hh
      have := w.inl_le (by omega)
      show (o.cf - 2) / 2 ≤ 3; omega
    · intro hh
      have hh' : (o.cf - 2) % 2 = 1 := hh
      obtain ⟨c, hg, hlen, hle, hpos⟩ := w.ext_ok (by omega)
      exact ⟨c, hg, hlen, by show (o.cf - 2) / 2 ≤ o.cap; omega, hpos⟩
    · intro hh; have hh' : (o.cf - 2) % 2 = 1 := hh; exact Or.inl ⟨by omega, rfl⟩
    · intro hh; exact Or.inl ⟨by show (o.cf - 2) % 2 = 1; omega, rfl⟩
  · simp only [handles, hi, hobj i, if_true]
    rw [handlesOf_pop w hc]; rfl
  · intro k hk; exact handles_congr (by rw [hobj k]; simp [hk]) (fun _ _ _ => rfl)

theorem pop_spec {s : State} (I : Inv s) {i : Nat} {o : Obj} (hi : s.obj i = some o) (hc : o.cf / 2 ≠ 0) :
    Inv { setObj s i (some { o with cf := o.cf - 2 }) with popped := s.popped ++ [popValue s o] }
    ∧ handles s i = handles { setObj s i (some { o with cf := o.cf - 2 }) with popped := s.popped ++ [popValue s o] } i
        ++ [popValue s o]
    ∧ (∀ k, k ≠ i → handles { setObj s i (some { o with cf := o.cf - 2 }) with popped := s.popped ++ [popValue s o] } k
        = handles s k) := by
  obtain ⟨H1, O1, h1, h2, -⟩ := dec_spec I.heap I.own hi hc
  have e : ∀ k, handles { setObj s i (some { o with cf := o.cf - 2 }) with popped := s.popped ++ [popValue s o] } k
      = handles (setObj s i (some { o with cf := o.cf - 2 })) k := fun k => handles_of_eq rfl rfl k
  have h2' : ∀ k, k ≠ i → handles { setObj s i (some { o with cf := o.cf - 2 }) with popped := s.popped ++ [popValue s o] } k
      = handles s k := fun k hk => by rw [e k, h2 k hk]
  refine ⟨⟨heapOk_of_eq H1 rfl rfl rfl [] (by simp), own_of_eq O1 rfl rfl, I.idle, ?_⟩, by rw [e i]; exact h1, h2'⟩
  intro x
  have c := I.conserve x
  have k := held_change1 (s := s) (s' := { setObj s i (some { o with cf := o.cf - 2 }) with popped := s.popped ++ [popValue s o] })
    (by simp) (obj_lt hi) h2' x
  rw [h1, e i] at k
  show List.count x s.given = _ + List.count x s.queue + List.count x (resumed s) + List.count x (s.popped ++ [popValue s o])
  cnt; omega

/-! ### consumers -/

/-- a state that differs from `s` only by resumptions, queue content and ghost lists -/
structure SameStore (s X : State) : Prop where
  objs : X.objs = s.objs
  mem : X.mem = s.mem
  live : X.live = s.live
  nextAddr : X.nextAddr = s.nextAddr

theorem SameStore.heap {s X : State} (S : SameStore s X) (H : HeapOk s) (R : List Ptr)
    (ht : X.trace = s.trace ++ R.map Ev.res) : HeapOk X := heapOk_of_eq H S.mem S.live S.nextAddr R ht
theorem SameStore.own {s X : State} (S : SameStore s X) (O : Own s) : Own X := own_of_eq O S.objs S.mem
theorem SameStore.obj {s X : State} (S : SameStore s X) (k : Nat) : X.obj k = s.obj k := by
  simp [State.obj, S.objs]
theorem SameStore.handles {s X : State} (S : SameStore s X) (k : Nat) : handles X k = handles s k :=
  handles_of_eq S.objs S.mem k

/-- the common part of `clear()`, the destructor and `suspend_now()`: the handles of object `i` went to the
queue (`Q`) or were resumed (`R`), then `clear_internal()` -/
theorem consume_spec {s X : State} (I : Inv s) {i : Nat} {o : Obj} (hi : s.obj i = some o) (S : SameStore s X)
    (Q R : List Ptr) (hq : X.queue = s.queue ++ Q) (ht : X.trace = s.trace ++ R.map Ev.res)
    (hg : X.given = s.given) (hp : X.popped = s.popped) (ha : X.active = s.active)
    (hQR : ∀ x, Q.count x + R.count x = (handles s i).count x) (hidle : s.active = false → Q = []) :
    Inv (clearInternal X i o) ∧ handles (clearInternal X i o) i = []
    ∧ (∀ k, k ≠ i → handles (clearInternal X i o) k = handles s k)
    ∧ (clearInternal X i o).queue = s.queue ++ Q ∧ resumed (clearInternal X i o) = resumed s ++ R
    ∧ (∀ k, (clearInternal X i o).obj k = if k = i then some { o with cf := 0 } else s.obj k)
    ∧ (clearInternal X i o).active = s.active ∧ (clearInternal X i o).objs.length = s.objs.length := by
  have hiX : X.obj i = some o := by rw [S.obj]; exact hi
  have C := clearInternal_spec (S.heap I.heap R ht) (S.own I.own) hiX
  have h2 : ∀ k, k ≠ i → handles (clearInternal X i o) k = handles s k := by
    intro k hk; rw [C.handles_other k hk, S.handles]
  have hres : resumed (clearInternal X i o) = resumed s ++ R := by
    rw [C.quiet.resumed]; simp only [resumed, ht, List.filterMap_append, filterMap_res_map]
  have hlen : (clearInternal X i o).objs.length = s.objs.length := by rw [C.quiet.len, S.objs]
  refine ⟨⟨C.heap, C.own, ?_, ?_⟩, C.handles_self, h2, by rw [C.quiet.queue, hq], hres, ?_,
    by rw [C.quiet.active, ha], hlen⟩
  · intro hact
    rw [C.quiet.active, ha] at hact
    rw [C.quiet.queue, hq, hidle hact, I.idle hact]; rfl
  · intro x
    have c := I.conserve x
    have k := held_change1 (s := s) hlen (obj_lt hi) h2 x
    rw [C.handles_self] at k
    have := hQR x
    rw [C.quiet.given, C.quiet.queue, C.quiet.popped, hres, hg, hq, hp]; cnt; omega
  · intro k; rw [C.obj k, S.obj]

theorem handles_of_count_zero {s : State} {i : Nat} {o : Obj} (hi : s.obj i = some o) (hc : o.cf / 2 = 0) :
    handles s i = [] := by
  simp [handles, hi, handlesOf, hc]

/-- `clear()` / `suspend_now()` -/
theorem suspendNow_spec {s : State} (I : Inv s) {i : Nat} {o : Obj} (hi : s.obj i = some o) :
    Inv (suspendNow s i o) ∧ handles (suspendNow s i o) i = []
    ∧ (∀ k, k ≠ i → handles (suspendNow s i o) k = handles s k)
    ∧ (suspendNow s i o).queue = s.queue ++ (if s.active then handles s i else [])
    ∧ resumed (suspendNow s i o) = resumed s ++ (if s.active then [] else handles s i)
    ∧ (∀ k, (suspendNow s i o).obj k = if k = i then some { o with cf := 0 } else s.obj k)
    ∧ (suspendNow s i o).active = s.active ∧ (suspendNow s i o).objs.length = s.objs.length := by
  have hh : handles s i = handlesOf s o := by simp [handles, hi]
  unfold suspendNow
  by_cases hc : o.cf / 2 = 0
  · have h0 := handles_of_count_zero hi hc
    have r := consume_spec I hi (X := s) ⟨rfl, rfl, rfl, rfl⟩ [] [] (by simp) (by simp) rfl rfl rfl (by simp [h0]) (fun _ => rfl)
    simp only [hc, if_true, h0, ite_self]
    exact r
  · simp only [hc, if_false]
    by_cases ha : s.active = true
    · have r := consume_spec I hi (X := enqueue s (handlesOf s o)) ⟨rfl, rfl, rfl, rfl⟩ (handles s i) []
        (by rw [hh]; rfl) (by simp [enqueue]) rfl rfl rfl (by simp) (fun h => by rw [ha] at h; cases h)
      simp only [ha, if_true]
      rw [ha] at r
      exact r
    · have ha' : s.active = false := by simpa using ha
      have r := consume_spec I hi (X := resumeAll s (handlesOf s o)) ⟨rfl, rfl, rfl, rfl⟩ [] (handles s i)
        (by simp [resumeAll]) (by rw [hh]; rfl) rfl rfl rfl (by simp) (fun _ => rfl)
      simp only [ha', Bool.false_eq_true, if_false]
      rw [ha'] at r
      exact r

/-- removing an empty, unflagged object -/
theorem remove_spec {s : State} (I : Inv s) {i : Nat} {o : Obj} (hi : s.obj i = some o) (hz : o.cf = 0) :
    Inv (setObj s i none) ∧ (∀ k, k ≠ i → handles (setObj s i none) k = handles s k)
    ∧ (∀ k, (setObj s i none).obj k = if k = i then none else s.obj k) := by
  have hil := obj_lt hi
  have hobj : ∀ k, (setObj s i none).obj k = if k = i then none else s.obj k := fun k => obj_setObj _ i _ k hil
  have h2 : ∀ k, k ≠ i → handles (setObj s i none) k = handles s k := by
    intro k hk; exact handles_congr (by rw [hobj k]; simp [hk]) (fun _ _ _ => rfl)
  refine ⟨⟨heapOk_of_eq I.heap rfl rfl rfl [] (by simp), own_remove I.own hi hobj rfl (by rw [hz]; decide), I.idle, ?_⟩, h2, hobj⟩
  intro x
  have c := I.conserve x
  have k := held_change1 (s := s) (s' := setObj s i none) (by simp) hil h2 x
  rw [handles_none (s := setObj s i none) (by rw [hobj i]; simp), handles_of_count_zero hi (by rw [hz])] at k
  show List.count x s.given = _ + List.count x s.queue + List.count x (resumed s) + List.count x s.popped
  cnt; omega

/-- the destructor -/
theorem dtor_spec {s : State} (I : Inv s) {i : Nat} {o : Obj} (hi : s.obj i = some o) :
    Inv (setObj (if o.cf = 0 then s else suspendNow s i o) i none)
    ∧ (setObj (if o.cf = 0 then s else suspendNow s i o) i none).obj i = none
    ∧ (∀ k, k ≠ i → handles (setObj (if o.cf = 0 then s else suspendNow s i o) i none) k = handles s k)
    ∧ (∀ k, k ≠ i → (setObj (if o.cf = 0 then s else suspendNow s i o) i none).obj k = s.obj k)
    ∧ (setObj (if o.cf = 0 then s else suspendNow s i o) i none).queue = s.queue ++ (if s.active then handles s i else [])
    ∧ resumed (setObj (if o.cf = 0 then s else suspendNow s i o) i none) = resumed s ++ (if s.active then [] else handles s i)
    ∧ (setObj (if o.cf = 0 then s else suspendNow s i o) i none).active = s.active
    ∧ (setObj (if o.cf = 0 then s else suspendNow s i o) i none).objs.length = s.objs.length := by
  by_cases hz : o.cf = 0
  · simp only [hz, if_true]
    obtain ⟨I', h2, hobj⟩ := remove_spec I hi hz
    have h0 := handles_of_count_zero hi (by rw [hz])
    refine ⟨I', by rw [hobj]; simp, h2, fun k hk => by rw [hobj]; simp [hk], by simp [h0], ?_, rfl, by simp⟩
    simp [h0]; rfl
  · simp only [hz, if_false]
    obtain ⟨I1, h1, h2, hq, hr, hobj, ha, hl⟩ := suspendNow_spec I hi
    have hi1 : (suspendNow s i o).obj i = some { o with cf := 0 } := by rw [hobj]; simp
    obtain ⟨I', h2', hobj'⟩ := remove_spec I1 hi1 rfl
    refine ⟨I', by rw [hobj']; simp, fun k hk => by rw [h2' k hk, h2 k hk], ?_, by simpa using hq, ?_, by simpa using ha, by simpa using hl⟩
    · intro k hk; rw [hobj']; simp [hk, hobj k]
    · rw [← hr]; rfl

theorem count_take_drop (l : List Ptr) (n : Nat) (x : Ptr) : (l.take n).count x + (l.drop n).count x = l.count x := by
  rw [← List.count_append, List.take_append_drop]

theorem inv_flushUntil {s : State} (I : Inv s) (me : Ptr) : Inv (flushUntil s me) := by
  refine ⟨heapOk_of_eq I.heap rfl rfl rfl _ rfl, own_of_eq I.own rfl rfl, ?_, ?_⟩
  · intro ha
    have : s.queue = [] := I.idle ha
    simp [flushUntil, this]
  · intro x
    have c := I.conserve x
    have k := count_take_drop s.queue (s.queue.idxOf me + 1) x
    rw [resumed_flushUntil, held_of_eq (s' := flushUntil s me) (s := s) rfl rfl]
    show List.count x s.given = _ + List.count x (s.queue.drop (s.queue.idxOf me + 1)) + _ + List.count x s.popped
    cnt; omega

theorem inv_flushAll {s : State} (I : Inv s) (b : Bool) : Inv { flushAll s with active := b } := by
  refine ⟨heapOk_of_eq I.heap rfl rfl rfl s.queue rfl, own_of_eq I.own rfl rfl, fun _ => rfl, ?_⟩
  intro x
  have c := I.conserve x
  have e : resumed { flushAll s with active := b } = resumed s ++ s.queue := resumed_flushAll s
  rw [e, held_of_eq (s' := { flushAll s with active := b }) (s := s) rfl rfl]
  show List.count x s.given = _ + List.count x [] + _ + List.count x s.popped
  cnt; omega

/-- `await_suspend` under an active queue, including the symmetric transfer to the popped handle -/
theorem awaitQueue_spec {s : State} (I : Inv s) (hact : s.active = true) {i : Nat} {o : Obj} (hi : s.obj i = some o)
    (hc : o.cf / 2 ≠ 0) (me : Ptr) :
    Inv (resumeAll (awaitQueue s i o me) [popValue s o])
    ∧ handles s i = handlesOf s { o with cf := o.cf - 2 } ++ [popValue s o]
    ∧ handles (resumeAll (awaitQueue s i o me) [popValue s o]) i = []
    ∧ (∀ k, k ≠ i → handles (resumeAll (awaitQueue s i o me) [popValue s o]) k = handles s k)
    ∧ (resumeAll (awaitQueue s i o me) [popValue s o]).queue
        = s.queue ++ (handlesOf s { o with cf := o.cf - 2 } ++ awaitExtra s o me)
    ∧ resumed (resumeAll (awaitQueue s i o me) [popValue s o]) = resumed s ++ [popValue s o]
    ∧ (∀ k, (resumeAll (awaitQueue s i o me) [popValue s o]).obj k
        = if k = i then some { o with cf := 0 } else s.obj k)
    ∧ (resumeAll (awaitQueue s i o me) [popValue s o]).active = true
    ∧ (resumeAll (awaitQueue s i o me) [popValue s o]).objs.length = s.objs.length
    ∧ (resumeAll (awaitQueue s i o me) [popValue s o]).given = s.given ++ awaitExtra s o me := by
  obtain ⟨H1, O1, h1, h2, hobj1⟩ := dec_spec I.heap I.own hi hc
  have hrest : handles (setObj s i (some { o with cf := o.cf - 2 })) i = handlesOf s { o with cf := o.cf - 2 } := by
    simp only [handles, hobj1 i, if_true]; rfl
  rw [hrest] at h1
  generalize hX : enqueue { setObj s i (some { o with cf := o.cf - 2 }) with given := s.given ++ awaitExtra s o me }
      (handlesOf s { o with cf := o.cf - 2 } ++ awaitExtra s o me) = X
  have S : SameStore (setObj s i (some { o with cf := o.cf - 2 })) X := by subst hX; exact ⟨rfl, rfl, rfl, rfl⟩
  have hXq : X.queue = s.queue ++ (handlesOf s { o with cf := o.cf - 2 } ++ awaitExtra s o me) := by subst hX; rfl
  have hXg : X.given = s.given ++ awaitExtra s o me := by subst hX; rfl
  have hXp : X.popped = s.popped := by subst hX; rfl
  have hXa : X.active = s.active := by subst hX; rfl
  have hXr : resumed X = resumed s := by subst hX; rfl
  have hiX : X.obj i = some { o with cf := o.cf - 2 } := by rw [S.obj, hobj1]; simp
  have C := clearInternal_spec (S.heap H1 [] (by subst hX; simp [enqueue])) (S.own O1) hiX
  have hst : awaitQueue s i o me = clearInternal X i { o with cf := o.cf - 2 } := by subst hX; rfl
  rw [hst]
  generalize hY : clearInternal X i { o with cf := o.cf - 2 } = Y at C
  have e : ∀ k, handles (resumeAll Y [popValue s o]) k = handles Y k := fun k => handles_of_eq rfl rfl k
  have g2 : ∀ k, k ≠ i → handles (resumeAll Y [popValue s o]) k = handles s k := by
    intro k hk; rw [e, C.handles_other k hk, S.handles, h2 k hk]
  have g1 : handles (resumeAll Y [popValue s o]) i = [] := by rw [e]; exact C.handles_self
  have hlen : (resumeAll Y [popValue s o]).objs.length = s.objs.length := by
    show Y.objs.length = _; rw [C.quiet.len, S.objs]; simp
  have hq : (resumeAll Y [popValue s o]).queue = s.queue ++ (handlesOf s { o with cf := o.cf - 2 } ++ awaitExtra s o me) := by
    show Y.queue = _; rw [C.quiet.queue, hXq]
  have hr : resumed (resumeAll Y [popValue s o]) = resumed s ++ [popValue s o] := by
    rw [resumed_resumeAll, C.quiet.resumed, hXr]
  have ha : (resumeAll Y [popValue s o]).active = true := by
    show Y.active = _; rw [C.quiet.active, hXa, hact]
  have hgv : (resumeAll Y [popValue s o]).given = s.given ++ awaitExtra s o me := by
    show Y.given = _; rw [C.quiet.given, hXg]
  refine ⟨⟨heapOk_of_eq C.heap rfl rfl rfl [popValue s o] rfl, own_of_eq C.own rfl rfl, ?_, ?_⟩, h1, g1, g2, hq, hr, ?_, ha, hlen, hgv⟩
  · intro hh; rw [ha] at hh; cases hh
  · intro x
    have c := I.conserve x
    have k := held_change1 (s := s) hlen (obj_lt hi) g2 x
    rw [g1, h1] at k
    rw [hq, hr]
    show List.count x Y.given = _ + _ + _ + List.count x Y.popped
    rw [C.quiet.given, C.quiet.popped, hXg, hXp]; cnt; omega
  · intro k
    show Y.obj k = _
    rw [C.obj k, S.obj, hobj1]
    by_cases ek : k = i <;> simp [ek]

theorem inv_active {s : State} (I : Inv s) : Inv { s with active := true } := by
  refine ⟨heapOk_of_eq I.heap rfl rfl rfl [] (by simp), own_of_eq I.own rfl rfl, ?_, ?_⟩
  · intro h; cases h
  · intro x
    rw [held_of_eq (s' := { s with active := true }) (s := s) rfl rfl]
    exact I.conserve x

theorem await_inv {s : State} (I : Inv s) {i : Nat} {o : Obj} (hi : s.obj i = some o) (me : Ptr) :
    Inv (awaitObj s i o me) := by
  unfold awaitObj
  by_cases hc : o.cf / 2 = 0
  · simp only [hc, if_true]; exact I
  · simp only [hc, if_false]
    by_cases ha : s.active = true
    · simp only [ha, if_true]
      split
      · exact (awaitQueue_spec I ha hi hc me).1
      · exact inv_flushUntil (awaitQueue_spec I ha hi hc me).1 me
    · have ha' : s.active = false := by simpa using ha
      simp only [ha', Bool.false_eq_true, if_false]
      have hi' : ({ s with active := true } : State).obj i = some o := hi
      have := (awaitQueue_spec (inv_active I) rfl hi' hc me).1
      exact inv_flushAll this false

theorem yield_inv {s : State} (I : Inv s) (ha : s.active = true) (me : Ptr) :
    Inv (flushUntil (enqueue { s with given := s.given ++ [me] } [me]) me) := by
  apply inv_flushUntil
  refine ⟨heapOk_of_eq I.heap rfl rfl rfl [] (by simp [enqueue]), own_of_eq I.own rfl rfl, ?_, ?_⟩
  · intro h; rw [show (enqueue { s with given := s.given ++ [me] } [me]).active = s.active from rfl, ha] at h; cases h
  · intro x
    have c := I.conserve x
    rw [held_of_eq (s' := enqueue { s with given := s.given ++ [me] } [me]) (s := s) rfl rfl]
    show List.count x (s.given ++ [me]) = _ + List.count x (s.queue ++ [me]) + List.count x (resumed s) + List.count x s.popped
    cnt; omega

theorem setVal_spec {s : State} (I : Inv s) (i : Nat) (v : Option Nat) :
    Inv (setVal s i v) ∧ (∀ k, handles (setVal s i v) k = handles s k) ∧ Quiet s (setVal s i v) := by
  unfold setVal
  cases hi : s.obj i with
  | none => exact ⟨I, fun _ => rfl, Quiet.refl s⟩
  | some o =>
      simp only
      have hil := obj_lt hi
      have w := I.own.wf i o hi
      have hobj : ∀ k, (setObj s i (some { o with value := v })).obj k = if k = i then some { o with value := v } else s.obj k :=
        fun k => obj_setObj _ i _ k hil
      have hh : ∀ k, handles (setObj s i (some { o with value := v })) k = handles s k := by
        intro k
        by_cases ek : k = i
        · subst ek; simp only [handles, hobj k, if_true, hi]; rfl
        · exact handles_congr (by rw [hobj k]; simp [ek]) (fun _ _ _ => rfl)
      refine ⟨⟨heapOk_of_eq I.heap rfl rfl rfl [] (by simp), ?_, I.idle, ?_⟩, hh, quiet_setObj _ _ _⟩
      · exact own_step I.own hi hobj (fun a _ _ => rfl) ⟨w.inl_len, w.inl_le, w.ext_ok⟩
          (fun hf => Or.inl ⟨hf, rfl⟩) (fun hf => Or.inl ⟨hf, rfl⟩)
      · intro x
        have : held (setObj s i (some { o with value := v })) = held s := by
          simp only [held, setObj_len]; exact heldAll_congr (fun k _ => hh k)
        rw [this]; exact I.conserve x

/-! ### every operation preserves the invariant -/

theorem state_given_nil (s : State) : ({ s with given := s.given ++ [] } : State) = s := by
  cases s; simp

/-- what `createAll` (a series of `ss << h`) does -/
theorem createAll_spec {s : State} (I : Inv s) {i : Nat} {o : Obj} (hi : s.obj i = some o) (hs : List Ptr) :
    Inv (createAll s i hs)
    ∧ handles (createAll s i hs) i = handles s i ++ hs
    ∧ (∀ k, k ≠ i → handles (createAll s i hs) k = handles s k)
    ∧ (∃ o', (createAll s i hs).obj i = some o' ∧ o'.typed = o.typed ∧ o'.value = o.value)
    ∧ (∀ k, k ≠ i → (createAll s i hs).obj k = s.obj k)
    ∧ (createAll s i hs).objs.length = s.objs.length
    ∧ (createAll s i hs).queue = s.queue ∧ resumed (createAll s i hs) = resumed s
    ∧ (createAll s i hs).popped = s.popped ∧ (createAll s i hs).given = s.given ++ hs
    ∧ (createAll s i hs).active = s.active := by
  induction hs generalizing s o with
  | nil => exact ⟨I, by simp [createAll], fun _ _ => rfl, ⟨o, hi, rfl, rfl⟩, fun _ _ => rfl, rfl, rfl, rfl, rfl, by simp [createAll], rfl⟩
  | cons h t ih =>
      have A := addH_spec I hi h
      have H0 : HeapOk { s with given := s.given ++ [h] } := heapOk_of_eq I.heap rfl rfl rfl [] (by simp)
      have O0 : Own { s with given := s.given ++ [h] } := own_of_eq I.own rfl rfl
      have Q := add_spec H0 O0 (s := { s with given := s.given ++ [h] }) hi h
      obtain ⟨I1, a1, a2, ⟨o1, b1, b2, b3⟩, a4⟩ := A
      obtain ⟨J, c1, c2, ⟨o2, d1, d2, d3⟩, c4, c5, c6, c7, c8, c9, c10⟩ := ih I1 b1
      have e : createAll s i (h :: t) = createAll (add { s with given := s.given ++ [h] } i h) i t := rfl
      rw [e]
      refine ⟨J, by rw [c1, a1, List.append_assoc]; rfl, fun k hk => by rw [c2 k hk, a2 k hk],
        ⟨o2, d1, d2.trans b2, d3.trans b3⟩, fun k hk => by rw [c4 k hk, a4 k hk], c5.trans Q.len, c6.trans Q.queue,
        c7.trans Q.resumed, c8.trans Q.popped, ?_, c10.trans Q.active⟩
      rw [c9, Q.given]; show s.given ++ [h] ++ t = _; simp

/-- `create_suspend_point` into a vacant slot -/
theorem create_spec {s : State} (I : Inv s) {i : Nat} (hv : vacant s i = true) (hs : List Ptr) (v : Option Nat) :
    Inv (createAll (setObj s i (some { typed := v.isSome, value := v })) i hs)
    ∧ handles (createAll (setObj s i (some { typed := v.isSome, value := v })) i hs) i = hs
    ∧ (∀ k, k ≠ i → handles (createAll (setObj s i (some { typed := v.isSome, value := v })) i hs) k = handles s k)
    ∧ (∃ o', (createAll (setObj s i (some { typed := v.isSome, value := v })) i hs).obj i = some o'
        ∧ o'.typed = v.isSome ∧ o'.value = v)
    ∧ (∀ k, k ≠ i → (createAll (setObj s i (some { typed := v.isSome, value := v })) i hs).obj k = s.obj k)
    ∧ (createAll (setObj s i (some { typed := v.isSome, value := v })) i hs).objs.length = s.objs.length
    ∧ (createAll (setObj s i (some { typed := v.isSome, value := v })) i hs).queue = s.queue
    ∧ resumed (createAll (setObj s i (some { typed := v.isSome, value := v })) i hs) = resumed s
    ∧ (createAll (setObj s i (some { typed := v.isSome, value := v })) i hs).popped = s.popped
    ∧ (createAll (setObj s i (some { typed := v.isSome, value := v })) i hs).given = s.given ++ hs := by
  obtain ⟨hil, hin⟩ := vacant_iff.1 hv
  have C := ctor_spec I hv { typed := v.isSome, value := v } [] (by simp) rfl (by simp) (by simp)
  rw [state_given_nil] at C
  have hi0 : (setObj s i (some { typed := v.isSome, value := v })).obj i = some { typed := v.isSome, value := v } := by
    rw [obj_setObj _ i _ i hil]; simp
  have ho0 : ∀ k, k ≠ i → (setObj s i (some { typed := v.isSome, value := v })).obj k = s.obj k := by
    intro k hk; rw [obj_setObj _ i _ k hil]; simp [hk]
  obtain ⟨J, c1, c2, ⟨o2, d1, d2, d3⟩, c4, c5, c6, c7, c8, c9, -⟩ := createAll_spec C.1 hi0 hs
  refine ⟨J, by rw [c1, C.2.1]; rfl, fun k hk => by rw [c2 k hk, C.2.2 k hk], ⟨o2, d1, d2, d3⟩,
    fun k hk => by rw [c4 k hk, ho0 k hk], by rw [c5]; simp, c6, c7, c8, c9⟩

/-! ### faults: allocation failure (`std::bad_alloc` out of `add`) and exceptions out of callables -/

theorem handlesOf_length {s : State} {o : Obj} (w : ObjWf s o) : (handlesOf s o).length = o.cf / 2 := by
  simp only [handlesOf]
  split
  · rename_i hf
    obtain ⟨c, hg, hlen, hle, -⟩ := w.ext_ok hf
    simp only [cellsOf, hg, Option.getD_some, List.length_take]; omega
  · rename_i hf
    have := w.inl_le (by omega)
    simp only [List.length_take, w.inl_len]; omega

/-- `_count_flag -= 2*m` on object `i`: the last `m` handles are dropped, the storage is kept -/
theorem undo_spec {s : State} (H : HeapOk s) (O : Own s) {i : Nat} {o : Obj} (hi : s.obj i = some o) (m : Nat)
    (hm : m ≤ o.cf / 2) :
    HeapOk (undoAdds s i m) ∧ Own (undoAdds s i m)
    ∧ handles (undoAdds s i m) i = (handles s i).take (o.cf / 2 - m)
    ∧ (∀ k, k ≠ i → handles (undoAdds s i m) k = handles s k)
    ∧ (∀ k, (undoAdds s i m).obj k = if k = i then some { o with cf := o.cf - 2 * m } else s.obj k)
    ∧ Quiet s (undoAdds s i m) := by
  have hil := obj_lt hi
  have w := O.wf i o hi
  have e : undoAdds s i m = setObj s i (some { o with cf := o.cf - 2 * m }) := by simp [undoAdds, hi]
  rw [e]
  have hobj : ∀ k, (setObj s i (some { o with cf := o.cf - 2 * m })).obj k
      = if k = i then some { o with cf := o.cf - 2 * m } else s.obj k := fun k => obj_setObj _ i _ k hil
  have hp : (o.cf - 2 * m) % 2 = o.cf % 2 := by omega
  have hd : (o.cf - 2 * m) / 2 = o.cf / 2 - m := by omega
  refine ⟨heapOk_of_eq H rfl rfl rfl [] (by simp), ?_, ?_, ?_, hobj, quiet_setObj _ _ _⟩
  · refine own_step O hi hobj (fun a _ _ => rfl) ⟨w.inl_len, ?_, ?_⟩ ?_ ?_
    · intro hh
      have hh' : (o.cf - 2 * m) % 2 = 0 := hh
      have := w.inl_le (by omega)
      show (o.cf - 2 * m) / 2 ≤ 3; omega
    · intro hh
      have hh' : (o.cf - 2 * m) % 2 = 1 := hh
      obtain ⟨c, hg, hlen, hle, hpos⟩ := w.ext_ok (by omega)
      exact ⟨c, hg, hlen, by show (o.cf - 2 * m) / 2 ≤ o.cap; omega, hpos⟩
    · intro hh; have hh' : (o.cf - 2 * m) % 2 = 1 := hh; exact Or.inl ⟨by omega, rfl⟩
    · intro hh; exact Or.inl ⟨by show (o.cf - 2 * m) % 2 = 1; omega, rfl⟩
  · simp only [handles, hi, hobj i, if_true]
    show handlesOf s { o with cf := o.cf - 2 * m } = _
    simp only [handlesOf, hp, hd]
    split
    · simp only [cellsOf, List.take_take]; congr 1; omega
    · simp only [List.take_take]; congr 1; omega
  · intro k hk; exact handles_congr (by rw [hobj k]; simp [hk]) (fun _ _ _ => rfl)

theorem add_none {s : State} {i : Nat} (h : s.obj i = none) (x : Ptr) : add s i x = s := by simp [add, h]

theorem addAll_none {s : State} {i : Nat} (h : s.obj i = none) (hs : List Ptr) : addAll s i hs = s := by
  induction hs with
  | nil => rfl
  | cons x t ih => simp only [addAll, List.foldl_cons, add_none h]; exact ih

theorem addAll_cons (s : State) (i : Nat) (x : Ptr) (t : List Ptr) : addAll s i (x :: t) = addAll (add s i x) i t := rfl

/-- the faulty loop either runs to its end (then it is the plain loop) or stops after a prefix -/
theorem addAllF_cases (i : Nat) (hs : List Ptr) : ∀ (s : State) (k m0 : Nat),
    addAllF s i hs k m0 = (addAll s i hs, none)
    ∨ ∃ pre suf, hs = pre ++ suf ∧ addAllF s i hs k m0 = (addAll s i pre, some (m0 + pre.length)) := by
  induction hs with
  | nil => intro s k m0; left; rfl
  | cons x t ih =>
      intro s k m0
      cases ho : s.obj i with
      | none => left; simp only [addAllF, ho, addAll_none ho]
      | some o =>
          simp only [addAllF, ho]
          by_cases hn : needsAlloc o = true
          · simp only [hn, if_true]
            by_cases hk : k = 0
            · right; exact ⟨[], x :: t, rfl, by simp [hk, addAll]⟩
            · simp only [hk, if_false]
              rcases ih (add s i x) (k - 1) (m0 + 1) with h | ⟨pre, suf, e, h⟩
              · left; rw [h, addAll_cons]
              · right; exact ⟨x :: pre, suf, by rw [e]; rfl, by rw [h, addAll_cons]; simp; omega⟩
          · simp only [hn]
            rcases ih (add s i x) k (m0 + 1) with h | ⟨pre, suf, e, h⟩
            · left; simpa [addAll_cons] using h
            · right; exact ⟨x :: pre, suf, by rw [e]; rfl, by simp [h, addAll_cons]; omega⟩

/-- `sp_i << std::move(sp_j)` under a fault plan: either no allocation failed — then it is the plain merge —, or
`std::bad_alloc` came out and every suspend point holds exactly what it held before (strong guarantee at the level of
the handles; the target may have moved to a bigger block on the way), nothing was resumed, queued, handed in or popped -/
theorem mergeF_spec {s : State} (I : Inv s) {i j : Nat} {oi oj : Obj} (hi : s.obj i = some oi) (_hj : s.obj j = some oj)
    (_hij : i ≠ j) (k : Nat) :
    stepMergeF s i j oj k = (stepMerge s i j oj, Res.unit)
    ∨ ((stepMergeF s i j oj k).2 = Res.threw ∧ Inv (stepMergeF s i j oj k).1
        ∧ (∀ x, handles (stepMergeF s i j oj k).1 x = handles s x)
        ∧ Quiet s (stepMergeF s i j oj k).1
        ∧ (∃ oi', (stepMergeF s i j oj k).1.obj i = some oi' ∧ oi'.typed = oi.typed ∧ oi'.value = oi.value)
        ∧ (∀ x, x ≠ i → (stepMergeF s i j oj k).1.obj x = s.obj x)) := by
  rcases addAllF_cases i (handlesOf s oj) s k 0 with h | ⟨pre, suf, e, h⟩
  · left; simp only [stepMergeF, h]; rfl
  · right
    simp only [stepMergeF, h]
    have A := addAll_spec I.heap I.own hi pre
    obtain ⟨o1, h1, ht, hv, hh⟩ := A.obj_i
    have w1 := A.own.wf i o1 h1
    have hlen : o1.cf / 2 = oi.cf / 2 + pre.length := by
      rw [← handlesOf_length w1, hh, List.length_append, handlesOf_length (I.own.wf i oi hi)]
    have U := undo_spec A.heap A.own h1 (0 + pre.length) (by omega)
    obtain ⟨UH, UO, Ui, Uo, Uobj, UQ⟩ := U
    generalize hS : undoAdds (addAll s i pre) i (0 + pre.length) = S at UH UO Ui Uo Uobj UQ
    have hQ : Quiet s S := A.quiet.trans UQ
    have hself : handles S i = handles s i := by
      rw [Ui, A.handles_self hi, hlen]
      have : oi.cf / 2 + pre.length - (0 + pre.length) = (handles s i).length := by
        simp only [handles, hi, handlesOf_length (I.own.wf i oi hi)]; omega
      rw [this, List.take_left']
      rfl
    have hall : ∀ x, handles S x = handles s x := by
      intro x
      by_cases ex : x = i
      · rw [ex]; exact hself
      · rw [Uo x ex, A.handles_other ex]
    refine ⟨trivial, ⟨UH, UO, ?_, ?_⟩, hall, hQ,
      ⟨{ o1 with cf := o1.cf - 2 * (0 + pre.length) }, by rw [Uobj i]; simp, ht, hv⟩, ?_⟩
    · intro ha; rw [hQ.queue]; exact I.idle (by rw [← hQ.active]; exact ha)
    · intro x
      have c := I.conserve x
      have hheld : held S = held s := by
        simp only [held, hQ.len]; exact heldAll_congr (fun y _ => hall y)
      rw [hheld, hQ.given, hQ.queue, hQ.popped, hQ.resumed]; exact c
    · intro x ex; rw [Uobj x]; simp [ex, A.obj_other x ex]

theorem freeBlk_given (t : State) (a : Nat) : (freeBlk t a).given = t.given ∧ (freeBlk t a).popped = t.popped := by
  unfold freeBlk; split <;> exact ⟨rfl, rfl⟩

theorem clearInternal_given (t : State) (i : Nat) (o : Obj) :
    (clearInternal t i o).given = t.given ∧ (clearInternal t i o).popped = t.popped := by
  unfold clearInternal
  split
  · exact freeBlk_given t o.ext
  · exact ⟨rfl, rfl⟩

theorem suspendNow_given (t : State) (i : Nat) (o : Obj) :
    (suspendNow t i o).given = t.given ∧ (suspendNow t i o).popped = t.popped := by
  unfold suspendNow
  rw [(clearInternal_given _ i o).1, (clearInternal_given _ i o).2]
  split
  · exact ⟨rfl, rfl⟩
  · split <;> exact ⟨rfl, rfl⟩

/-- `coro_queue::resume(h)` for every `h` of `hs` under an installed queue -/
theorem ready_spec {s : State} (I : Inv s) (ha : s.active = true) (hs : List Ptr) :
    Inv (ready s hs) ∧ (∀ k, (ready s hs).obj k = s.obj k) ∧ (∀ k, handles (ready s hs) k = handles s k) := by
  refine ⟨⟨heapOk_of_eq I.heap rfl rfl rfl [] (by simp [ready, enqueue]), own_of_eq I.own rfl rfl, ?_, ?_⟩,
    fun _ => rfl, fun k => handles_of_eq rfl rfl k⟩
  · intro h; rw [show (ready s hs).active = s.active from rfl, ha] at h; cases h
  · intro x
    have c := I.conserve x
    rw [held_of_eq (s' := ready s hs) (s := s) rfl rfl]
    show List.count x (s.given ++ hs) = _ + List.count x (s.queue ++ hs) + List.count x (resumed s) + List.count x s.popped
    cnt; omega

/-- what `install_queue_and_call(fn)` does, whether `fn` returns or throws: everything `fn` made ready, everything the
suspend point it cleared held and everything that was already queued has been resumed, each once; the queue is empty and
`instance` is what it was before the call -/
theorem call_spec {s : State} (I : Inv s) (hs : List Ptr) (j : Option Nat) :
    Inv (stepCall s hs j) ∧ (stepCall s hs j).active = s.active ∧ (stepCall s hs j).queue = []
    ∧ (stepCall s hs j).objs.length = s.objs.length
    ∧ (stepCall s hs j).given = s.given ++ hs
    ∧ (stepCall s hs j).popped = s.popped
    ∧ ((∀ jj, j = some jj → s.obj jj = none) →
        resumed (stepCall s hs j) = resumed s ++ s.queue ++ hs ∧ (∀ k, (stepCall s hs j).obj k = s.obj k)
        ∧ (∀ k, handles (stepCall s hs j) k = handles s k))
    ∧ (∀ jj o, j = some jj → s.obj jj = some o →
        resumed (stepCall s hs j) = resumed s ++ s.queue ++ hs ++ handles s jj
        ∧ (∀ k, (stepCall s hs j).obj k = if k = jj then some { o with cf := 0 } else s.obj k)
        ∧ handles (stepCall s hs j) jj = []
        ∧ (∀ k, k ≠ jj → handles (stepCall s hs j) k = handles s k)) := by
  have I1 := inv_active I
  obtain ⟨R, Robj, Rh⟩ := ready_spec I1 rfl hs
  have plain : callBody { s with active := true } hs j = ready { s with active := true } hs →
      Inv (stepCall s hs j) ∧ (stepCall s hs j).active = s.active ∧ (stepCall s hs j).queue = []
      ∧ (stepCall s hs j).objs.length = s.objs.length ∧ (stepCall s hs j).given = s.given ++ hs
      ∧ (stepCall s hs j).popped = s.popped
      ∧ resumed (stepCall s hs j) = resumed s ++ s.queue ++ hs ∧ (∀ k, (stepCall s hs j).obj k = s.obj k)
      ∧ (∀ k, handles (stepCall s hs j) k = handles s k) := by
    intro e
    have e' : stepCall s hs j = { flushAll (ready { s with active := true } hs) with active := s.active } := by
      simp only [stepCall, e]
    rw [e']
    refine ⟨inv_flushAll R s.active, rfl, rfl, rfl, rfl, rfl, ?_, fun _ => rfl, fun k => ?_⟩
    · have e2 : resumed { flushAll (ready { s with active := true } hs) with active := s.active }
          = resumed (ready { s with active := true } hs) ++ (ready { s with active := true } hs).queue :=
        resumed_flushAll _
      rw [e2]; show resumed s ++ (s.queue ++ hs) = _; simp
    · exact (handles_of_eq rfl rfl k).trans (Rh k)
  cases j with
  | none =>
      obtain ⟨a, b, c, d, e, f, g⟩ := plain rfl
      exact ⟨a, b, c, d, e, f, fun _ => g, fun jj o h => by cases h⟩
  | some jj =>
      cases ho : s.obj jj with
      | none =>
          have hb : callBody { s with active := true } hs (some jj) = ready { s with active := true } hs := by
            simp only [callBody]
            have : ({ s with active := true } : State).obj jj = none := ho
            rw [this]
          obtain ⟨a, b, c, d, e, f, g⟩ := plain hb
          exact ⟨a, b, c, d, e, f, fun _ => g, fun jj' o h h' => by cases h; rw [ho] at h'; cases h'⟩
      | some o =>
          have ho1 : (ready { s with active := true } hs).obj jj = some o := by rw [Robj]; exact ho
          have hb : callBody { s with active := true } hs (some jj)
              = suspendNow (ready { s with active := true } hs) jj o := by
            simp only [callBody]
            have : ({ s with active := true } : State).obj jj = some o := ho
            rw [this]
          obtain ⟨SI, Sself, Sother, Sq, Sr, Sobj, Sact, Slen⟩ := suspendNow_spec R ho1
          have hact : (ready { s with active := true } hs).active = true := rfl
          simp only [hact, if_true] at Sq Sr
          have Sgiven : (suspendNow (ready { s with active := true } hs) jj o).given = s.given ++ hs :=
            (suspendNow_given _ jj o).1
          have Spopped : (suspendNow (ready { s with active := true } hs) jj o).popped = s.popped :=
            (suspendNow_given _ jj o).2
          have e' : stepCall s hs (some jj)
              = { flushAll (suspendNow (ready { s with active := true } hs) jj o) with active := s.active } := by
            simp only [stepCall, hb]
          rw [e']
          generalize hY : suspendNow (ready { s with active := true } hs) jj o = Y at SI Sself Sother Sq Sr Sobj Sact Slen Sgiven Spopped
          have hres : resumed { flushAll Y with active := s.active } = resumed s ++ s.queue ++ hs ++ handles s jj := by
            have e2 : resumed { flushAll Y with active := s.active } = resumed Y ++ Y.queue := resumed_flushAll Y
            rw [e2, Sr, Sq, Rh jj]
            show resumed s ++ [] ++ (s.queue ++ hs ++ handles { s with active := true } jj) = _
            rw [handles_of_eq (s' := { s with active := true }) (s := s) rfl rfl]; simp
          have hobjs : ∀ k, ({ flushAll Y with active := s.active } : State).obj k
              = if k = jj then some { o with cf := 0 } else s.obj k := by
            intro k
            show Y.obj k = _
            rw [Sobj k, Robj k]; rfl
          have hh : ∀ k, handles ({ flushAll Y with active := s.active } : State) k = handles Y k :=
            fun k => handles_of_eq rfl rfl k
          refine ⟨inv_flushAll SI s.active, rfl, rfl, Slen, Sgiven, Spopped,
            (fun h => by have := h jj rfl; rw [ho] at this; cases this), ?_⟩
          intro jj' o' e1 e2
          cases e1
          rw [ho] at e2; cases e2
          refine ⟨hres, hobjs, by rw [hh, Sself], fun k hk => ?_⟩
          rw [hh, Sother k hk, Rh k]; exact handles_of_eq rfl rfl k

/-- every fault operation preserves the invariant and the pool size, and leaves type and value of every object alone -/
theorem stepF_spec {s : State} (I : Inv s) (f : FOp) :
    Inv (stepF s f).1 ∧ (stepF s f).1.objs.length = s.objs.length
    ∧ (∀ k o o', s.obj k = some o → (stepF s f).1.obj k = some o' → o'.typed = o.typed ∧ o'.value = o.value) := by
  have refl3 : Inv s ∧ s.objs.length = s.objs.length
      ∧ (∀ k o o', s.obj k = some o → s.obj k = some o' → o'.typed = o.typed ∧ o'.value = o.value) :=
    ⟨I, rfl, fun k o o' h h' => by rw [h] at h'; cases h'; exact ⟨rfl, rfl⟩⟩
  have call_case : ∀ hs j, Inv (stepCall s hs j) ∧ (stepCall s hs j).objs.length = s.objs.length
      ∧ (∀ k o o', s.obj k = some o → (stepCall s hs j).obj k = some o' → o'.typed = o.typed ∧ o'.value = o.value) := by
    intro hs j
    obtain ⟨CI, -, -, Clen, -, -, Cnone, Csome⟩ := call_spec I hs j
    refine ⟨CI, Clen, ?_⟩
    intro k o o' h h'
    cases j with
    | none =>
        rw [(Cnone (fun jj e => by cases e)).2.1 k, h] at h'; cases h'; exact ⟨rfl, rfl⟩
    | some jj =>
        cases hoj : s.obj jj with
        | none =>
            rw [(Cnone (fun jj' e => by cases e; exact hoj)).2.1 k, h] at h'; cases h'; exact ⟨rfl, rfl⟩
        | some ojj =>
            rw [(Csome jj ojj rfl hoj).2.1 k] at h'
            by_cases ek : k = jj
            · subst ek; rw [hoj] at h; cases h; simp only [if_true] at h'; cases h'; exact ⟨rfl, rfl⟩
            · simp only [ek, if_false] at h'; rw [h] at h'; cases h'; exact ⟨rfl, rfl⟩
  cases f with
  | addF i h =>
      simp only [stepF]
      cases hi : s.obj i with
      | none => exact refl3
      | some o =>
          simp only []
          split
          · exact refl3
          · obtain ⟨A1, -, -, ⟨o', e1, e2, e3⟩, A5⟩ := addH_spec I hi h
            refine ⟨A1, ?_, ?_⟩
            · have H0 : HeapOk { s with given := s.given ++ [h] } := heapOk_of_eq I.heap rfl rfl rfl [] (by simp)
              have O0 : Own { s with given := s.given ++ [h] } := own_of_eq I.own rfl rfl
              exact (add_spec H0 O0 (show ({ s with given := s.given ++ [h] } : State).obj i = some o from hi) h).len
            · intro k o0 o0' h0 h0'
              by_cases ek : k = i
              · subst ek; rw [hi] at h0; cases h0; rw [e1] at h0'; cases h0'; exact ⟨e2, e3⟩
              · rw [A5 k ek, h0] at h0'; cases h0'; exact ⟨rfl, rfl⟩
  | mergeF i j k =>
      simp only [stepF]
      cases hi : s.obj i with
      | none => exact refl3
      | some oi =>
          cases hj : s.obj j with
          | none => exact refl3
          | some oj =>
              simp only []
              split
              · exact refl3
              · rename_i hij
                rcases mergeF_spec I hi hj hij k with e | ⟨-, MI, -, MQ, ⟨oi', e1, e2, e3⟩, Mo⟩
                · rw [e]
                  obtain ⟨M1, -, -, -, M5, ⟨oi', e1, e2, e3⟩, ej, eo⟩ := merge_spec I hi hj hij
                  refine ⟨M1, M5.len, ?_⟩
                  intro x o o' h1 h2
                  by_cases exi : x = i
                  · subst exi; rw [hi] at h1; cases h1; rw [e1] at h2; cases h2; exact ⟨e2, e3⟩
                  · by_cases exj : x = j
                    · subst exj; rw [hj] at h1; cases h1; rw [ej] at h2; cases h2; exact ⟨rfl, rfl⟩
                    · rw [eo x exi exj, h1] at h2; cases h2; exact ⟨rfl, rfl⟩
                · refine ⟨MI, MQ.len, ?_⟩
                  intro x o o' h1 h2
                  by_cases exi : x = i
                  · subst exi; rw [hi] at h1; cases h1; rw [e1] at h2; cases h2; exact ⟨e2, e3⟩
                  · rw [Mo x exi, h1] at h2; cases h2; exact ⟨rfl, rfl⟩
  | call hs j throws =>
      simp only [stepF]
      split
      · exact refl3
      · exact call_case hs j
  | createX hs =>
      simp only [stepF]
      split
      · rename_i ha
        obtain ⟨R, Robj, -⟩ := ready_spec I ha hs
        exact ⟨R, rfl, fun k o o' h h' => by rw [Robj k, h] at h'; cases h'; exact ⟨rfl, rfl⟩⟩
      · exact call_case hs none
  | isActive => exact refl3

theorem inv_step {s : State} (I : Inv s) (op : Op) : Inv (step s op).1 := by
  cases op with
  | fault f => exact (stepF_spec I f).1
  | ctor i =>
      simp only [step]; split
      · have := (ctor_spec I ‹_› {} [] (by simp) rfl (by simp) (by simp)).1
        rw [state_given_nil] at this; exact this
      · exact I
  | ctorH i h =>
      simp only [step]; split
      · exact (ctor_spec I ‹_› { cf := 2, inl := [h, junk, junk] } [h] (by simp) rfl (by simp) (by simp)).1
      · exact I
  | ctorV i v =>
      simp only [step]; split
      · have := (ctor_spec I ‹_› { typed := true, value := some v } [] (by simp) rfl (by simp) (by simp)).1
        rw [state_given_nil] at this; exact this
      · exact I
  | ctorHV i h v =>
      simp only [step]; split
      · exact (ctor_spec I ‹_› { cf := 2, inl := [h, junk, junk], typed := true, value := some v } [h] (by simp) rfl
          (by simp) (by simp)).1
      · exact I
  | ctorSV i j v =>
      simp only [step]; split
      · split
        · exact (move_spec I ‹_› ‹_› true (some v)).1
        · exact I
      · exact I
  | mov i j =>
      simp only [step]; split
      · split
        · rename_i oj hj hv
          have M := (move_spec I hv hj oj.typed oj.value).1
          split
          · exact (setVal_spec M j none).1
          · exact M
        · exact I
      · exact I
  | movBase i j =>
      simp only [step]; split
      · split
        · exact (move_spec I ‹_› ‹_› false none).1
        · exact I
      · exact I
  | merge i j =>
      simp only [step]; split
      · split
        · exact I
        · exact (merge_spec I ‹_› ‹_› ‹_›).1
      · exact I
  | assign i j =>
      simp only [step]; split
      · split
        · exact I
        · split
          · exact I
          · split
            · exact (setVal_spec (setVal_spec (merge_spec I ‹_› ‹_› ‹_›).1 i _).1 j none).1
            · exact (merge_spec I ‹_› ‹_› ‹_›).1
      · exact I
  | addH i h =>
      simp only [step]; split
      · exact (addH_spec I ‹_› h).1
      · exact I
  | pop i =>
      simp only [step]; split
      · split
        · exact I
        · exact (pop_spec I ‹_› ‹_›).1
      · exact I
  | clear i =>
      simp only [step]; split
      · exact (suspendNow_spec I ‹_›).1
      · exact I
  | dtor i =>
      simp only [step]; split
      · exact (dtor_spec I ‹_›).1
      · exact I
  | await i me =>
      simp only [step]; split
      · exact await_inv I ‹_› me
      · exact I
  | yield me =>
      simp only [step]; split
      · exact yield_inv I ‹_› me
      · exact I
  | size i => simp only [step]; split <;> exact I
  | empty i => simp only [step]; split <;> exact I
  | value i =>
      simp only [step]; split
      · split <;> exact I
      · exact I
  | conv i =>
      simp only [step]; split
      · split <;> exact I
      · exact I
  | cconv i =>
      simp only [step]; split
      · split <;> exact I
      · exact I
  | ares i =>
      simp only [step]; split
      · split <;> exact I
      · exact I
  | create i hs v =>
      simp only [step]; split
      · exact (create_spec I ‹_› _ v).1
      · exact I
  | finish =>
      simp only [step]; split
      · have := inv_flushAll I s.active
        have e : ({ flushAll s with active := s.active } : State) = flushAll s := rfl
        rw [e] at this; exact this
      · exact I

theorem inv_run {s : State} (I : Inv s) (ops : List Op) : Inv (run s ops) := by
  induction ops generalizing s with
  | nil => exact I
  | cons op t ih => exact ih (inv_step I op)

theorem run_append (s : State) (a b : List Op) : run s (a ++ b) = run (run s a) b := by
  simp [run, List.foldl_append]

theorem step_len {s : State} (I : Inv s) (op : Op) : (step s op).1.objs.length = s.objs.length := by
  cases op with
  | fault f => exact (stepF_spec I f).2.1
  | ctor i => simp only [step]; split <;> simp
  | ctorH i h => simp only [step]; split <;> simp
  | ctorV i v => simp only [step]; split <;> simp
  | ctorHV i h v => simp only [step]; split <;> simp
  | ctorSV i j v => simp only [step]; split <;> (try split) <;> simp [stepMove]
  | mov i j =>
      simp only [step]; split
      · split
        · rename_i oj hj hv
          have M := move_spec I hv hj oj.typed oj.value
          split
          · exact ((setVal_spec M.1 j none).2.2.len).trans M.2.2.2.2.len
          · exact M.2.2.2.2.len
        · rfl
      · rfl
  | movBase i j => simp only [step]; split <;> (try split) <;> simp [stepMove]
  | merge i j =>
      simp only [step]; split
      · split
        · rfl
        · exact (merge_spec I ‹_› ‹_› ‹_›).2.2.2.2.1.len
      · rfl
  | assign i j =>
      simp only [step]; split
      · split
        · rfl
        · split
          · rfl
          · have M := merge_spec I ‹s.obj i = some _› ‹s.obj j = some _› ‹_›
            split
            · exact ((setVal_spec (setVal_spec M.1 i _).1 j none).2.2.len).trans
                (((setVal_spec M.1 i _).2.2.len).trans M.2.2.2.2.1.len)
            · exact M.2.2.2.2.1.len
      · rfl
  | addH i h =>
      simp only [step]; split
      · have H0 : HeapOk { s with given := s.given ++ [h] } := heapOk_of_eq I.heap rfl rfl rfl [] (by simp)
        have O0 : Own { s with given := s.given ++ [h] } := own_of_eq I.own rfl rfl
        exact (add_spec H0 O0 (s := { s with given := s.given ++ [h] }) ‹_› h).len
      · rfl
  | pop i => simp only [step]; split <;> (try split) <;> simp
  | clear i =>
      simp only [step]; split
      · exact (suspendNow_spec I ‹_›).2.2.2.2.2.2.2
      · rfl
  | dtor i =>
      simp only [step]; split
      · exact (dtor_spec I ‹_›).2.2.2.2.2.2.2
      · rfl
  | await i me =>
      simp only [step]; split
      · rename_i o ho
        unfold awaitObj
        by_cases hc : o.cf / 2 = 0
        · simp [hc]
        · by_cases ha : s.active = true
          · simp only [hc, ha, if_true, if_false]
            split <;> exact (awaitQueue_spec I ha ho hc me).2.2.2.2.2.2.2.2.1
          · have ha' : s.active = false := by simpa using ha
            simp only [hc, ha', if_false, Bool.false_eq_true]
            exact (awaitQueue_spec (inv_active I) rfl (s := { s with active := true }) ho hc me).2.2.2.2.2.2.2.2.1
      · rfl
  | yield me => simp only [step]; split <;> rfl
  | size i => simp only [step]; split <;> rfl
  | empty i => simp only [step]; split <;> rfl
  | value i => simp only [step]; split <;> (try split) <;> rfl
  | conv i => simp only [step]; split <;> (try split) <;> rfl
  | cconv i => simp only [step]; split <;> (try split) <;> rfl
  | ares i => simp only [step]; split <;> (try split) <;> rfl
  | finish => simp only [step]; split <;> rfl
  | create i hs v =>
      simp only [step]; split
      · exact (create_spec I ‹_› _ v).2.2.2.2.2.1
      · rfl

/-! ### end of life -/

theorem run_len {s : State} (I : Inv s) (ops : List Op) : (run s ops).objs.length = s.objs.length := by
  induction ops generalizing s with
  | nil => rfl
  | cons op t ih => exact (ih (inv_step I op)).trans (step_len I op)

theorem dtor_none {s : State} (I : Inv s) (i : Nat) :
    (step s (Op.dtor i)).1.obj i = none ∧ ∀ k, k ≠ i → (step s (Op.dtor i)).1.obj k = s.obj k := by
  simp only [step]
  split
  · have D := dtor_spec I ‹_›
    exact ⟨D.2.1, D.2.2.2.1⟩
  · exact ⟨‹_›, fun _ _ => rfl⟩

theorem run_dtors {s : State} (I : Inv s) (m : Nat) :
    Inv (run s ((List.range m).map Op.dtor))
    ∧ (∀ k, k < m → (run s ((List.range m).map Op.dtor)).obj k = none)
    ∧ (∀ k, m ≤ k → (run s ((List.range m).map Op.dtor)).obj k = s.obj k) := by
  induction m with
  | zero => exact ⟨I, fun k hk => by omega, fun _ _ => rfl⟩
  | succ m ih =>
      obtain ⟨I1, h1, h2⟩ := ih
      rw [List.range_succ, List.map_append, run_append]
      generalize run s ((List.range m).map Op.dtor) = t at I1 h1 h2
      have D := dtor_none I1 m
      have e : run t (List.map Op.dtor [m]) = (step t (Op.dtor m)).1 := rfl
      rw [e]
      refine ⟨inv_step I1 _, ?_, ?_⟩
      · intro k hk
        by_cases ek : k = m
        · rw [ek]; exact D.1
        · rw [D.2 k ek]; exact h1 k (by omega)
      · intro k hk
        rw [D.2 k (by omega)]; exact h2 k (by omega)

theorem held_nil_of_all_none {s : State} (h : ∀ k, s.obj k = none) : held s = [] := by
  simp only [held]
  generalize s.objs.length = m
  induction m with
  | zero => rfl
  | succ m ih => simp [heldAll, ih, handles_none (h m)]

/-- end of life: every object destroyed, the running coroutine finished -/
theorem end_state {s : State} (I : Inv s) :
    Inv (run s (endOps s.objs.length)) ∧ (∀ k, (run s (endOps s.objs.length)).obj k = none)
    ∧ (run s (endOps s.objs.length)).queue = [] := by
  unfold endOps
  rw [run_append]
  obtain ⟨I1, h1, h2⟩ := run_dtors I s.objs.length
  have hl := run_len I ((List.range s.objs.length).map Op.dtor)
  generalize run s ((List.range s.objs.length).map Op.dtor) = t at I1 h1 h2 hl
  have hnone : ∀ k, t.obj k = none := by
    intro k
    by_cases hk : k < s.objs.length
    · exact h1 k hk
    · exact obj_ge (by omega)
  have e : run t [Op.finish] = (step t Op.finish).1 := rfl
  rw [e]
  refine ⟨inv_step I1 _, ?_, ?_⟩
  · intro k; simp only [step]; split <;> exact hnone k
  · simp only [step]; split
    · rfl
    · exact I1.idle (by simpa using ‹¬ t.active = true›)

/-! ### no allocation while the count stays within the inline capacity -/
theorem addAll_inline {s : State} {i : Nat} {o : Obj} (hi : s.obj i = some o) (hf : o.cf % 2 = 0)
    (hs : List Ptr) (hc : o.cf / 2 + hs.length ≤ inlineCount) :
    (addAll s i hs).trace = s.trace ∧ (addAll s i hs).mem = s.mem ∧ (addAll s i hs).live = s.live
    ∧ ∃ o', (addAll s i hs).obj i = some o' ∧ o'.cf = o.cf + 2 * hs.length := by
  induction hs generalizing s o with
  | nil => exact ⟨rfl, rfl, rfl, o, hi, by simp⟩
  | cons h t ih =>
      simp only [List.length_cons] at hc
      have hlt : o.cf / 2 < inlineCount := by omega
      have hnf : ¬ o.cf % 2 = 1 := by omega
      have e : add s i h = addInl s i o h := by simp [add, hi, addObj, hnf, hlt]
      have hil := obj_lt hi
      have hi1 : (add s i h).obj i = some { o with inl := o.inl.set (o.cf / 2) h, cf := o.cf + 2 } := by
        rw [e]; simp only [addInl]; rw [obj_setObj _ i _ i hil]; simp
      have r := ih hi1 (by show (o.cf + 2) % 2 = 0; omega) (by show (o.cf + 2) / 2 + t.length ≤ inlineCount; omega)
      obtain ⟨r1, r2, r3, o', r4, r5⟩ := r
      have e1 : (add s i h).trace = s.trace := by rw [e]; rfl
      have e2 : (add s i h).mem = s.mem := by rw [e]; rfl
      have e3 : (add s i h).live = s.live := by rw [e]; rfl
      refine ⟨by simp only [addAll, List.foldl_cons] at r1 ⊢; rw [r1, e1],
              by simp only [addAll, List.foldl_cons] at r2 ⊢; rw [r2, e2],
              by simp only [addAll, List.foldl_cons] at r3 ⊢; rw [r3, e3], o', r4, ?_⟩
      rw [r5]; show o.cf + 2 + 2 * t.length = o.cf + 2 * (t.length + 1); omega

/-! ### the attached value -/

/-- objects present before and after keep their type and value -/
def ValFrame (s s' : State) : Prop :=
  ∀ k o o', s.obj k = some o → s'.obj k = some o' → o'.typed = o.typed ∧ o'.value = o.value

theorem ValFrame.refl (s : State) : ValFrame s s := by
  intro k o o' h h'; rw [h] at h'; cases h'; exact ⟨rfl, rfl⟩

theorem valFrame_of_obj {s s' : State} (h : ∀ k, s'.obj k = s.obj k) : ValFrame s s' := by
  intro k o o' h1 h2; rw [h k, h1] at h2; cases h2; exact ⟨rfl, rfl⟩

/-- one slot changes to an object with the same type and value (or the slot was empty / becomes empty) -/
theorem valFrame_of_slot {s s' : State} {i : Nat} (x : Option Obj)
    (hobj : ∀ k, s'.obj k = if k = i then x else s.obj k)
    (hx : ∀ o o', s.obj i = some o → x = some o' → o'.typed = o.typed ∧ o'.value = o.value) : ValFrame s s' := by
  intro k o o' h1 h2
  rw [hobj k] at h2
  by_cases e : k = i
  · subst e; simp only [if_true] at h2; exact hx o o' h1 h2
  · simp only [e, if_false] at h2; rw [h1] at h2; cases h2; exact ⟨rfl, rfl⟩

theorem obj_setVal {s : State} {i : Nat} {o : Obj} (hi : s.obj i = some o) (v : Option Nat) (k : Nat) :
    (setVal s i v).obj k = if k = i then some { o with value := v } else s.obj k := by
  simp only [setVal, hi]; exact obj_setObj _ i _ k (obj_lt hi)

/-- what an operation does to the type / value of the objects that exist before and after: nothing, except
the implicit member-wise move operations of `suspend_point<X>` (`mov` of a typed source, typed move-assignment) -/
theorem step_value_frame {s : State} (I : Inv s) (op : Op) :
    ValFrame s (step s op).1
    ∨ (∃ i j oj, op = Op.mov i j ∧ s.obj j = some oj ∧ oj.typed = true
        ∧ (∀ k, k ≠ j → ∀ o o', s.obj k = some o → (step s op).1.obj k = some o' → o'.typed = o.typed ∧ o'.value = o.value)
        ∧ ∃ oj', (step s op).1.obj j = some oj' ∧ oj'.typed = true ∧ oj'.value = none)
    ∨ (∃ i j oi oj, op = Op.assign i j ∧ i ≠ j ∧ s.obj i = some oi ∧ s.obj j = some oj ∧ oi.typed = true ∧ oj.typed = true
        ∧ (∀ k, k ≠ i → k ≠ j → ∀ o o', s.obj k = some o → (step s op).1.obj k = some o' →
            o'.typed = o.typed ∧ o'.value = o.value)
        ∧ (∃ oi', (step s op).1.obj i = some oi' ∧ oi'.typed = true ∧ oi'.value = oj.value)
        ∧ (∃ oj', (step s op).1.obj j = some oj' ∧ oj'.typed = true ∧ oj'.value = none)) := by
  have ctor_case : ∀ (s0 : State) (i : Nat) (o0 : Obj), s0.objs = s.objs → vacant s i = true →
      ValFrame s (setObj s0 i (some o0)) := by
    intro s0 i o0 h0 hv
    obtain ⟨hil, hin⟩ := vacant_iff.1 hv
    refine valFrame_of_slot (some o0) (fun k => ?_) (fun o o' h _ => by rw [hin] at h; cases h)
    rw [obj_setObj _ i _ k (by rw [h0]; exact hil)]; simp [State.obj, h0]
  have move_case : ∀ (i j : Nat) (oj : Obj) (t : Bool) (v : Option Nat), vacant s i = true → s.obj j = some oj →
      ValFrame s (stepMove s i j t v oj) := by
    intro i j oj t v hv hj
    obtain ⟨hil, hin⟩ := vacant_iff.1 hv
    have hjl := obj_lt hj
    intro k o o' h1 h2
    simp only [stepMove] at h2
    rw [obj_setObj _ j _ k (by simpa using hjl), obj_setObj _ i _ k hil] at h2
    by_cases ekj : k = j
    · subst ekj; simp only [if_true] at h2; rw [hj] at h1; cases h1; cases h2; exact ⟨rfl, rfl⟩
    · by_cases eki : k = i
      · subst eki; rw [hin] at h1; cases h1
      · simp only [ekj, eki, if_false] at h2; rw [h1] at h2; cases h2; exact ⟨rfl, rfl⟩
  have merge_case : ∀ (i j : Nat) (oi oj : Obj), s.obj i = some oi → s.obj j = some oj → i ≠ j →
      ValFrame s (stepMerge s i j oj) := by
    intro i j oi oj hi hj hij
    obtain ⟨-, -, -, -, -, ⟨oi', e1, e2, e3⟩, ej, eo⟩ := merge_spec I hi hj hij
    intro k o o' h1 h2
    by_cases eki : k = i
    · subst eki; rw [hi] at h1; cases h1; rw [e1] at h2; cases h2; exact ⟨e2, e3⟩
    · by_cases ekj : k = j
      · subst ekj; rw [hj] at h1; cases h1; rw [ej] at h2; cases h2; exact ⟨rfl, rfl⟩
      · rw [eo k eki ekj, h1] at h2; cases h2; exact ⟨rfl, rfl⟩
  cases op with
  | fault f => left; exact (stepF_spec I f).2.2
  | ctor i => left; simp only [step]; split; exact ctor_case s i _ rfl ‹_›; exact ValFrame.refl s
  | ctorH i h => left; simp only [step]; split; exact ctor_case _ i _ rfl ‹_›; exact ValFrame.refl s
  | ctorV i v => left; simp only [step]; split; exact ctor_case s i _ rfl ‹_›; exact ValFrame.refl s
  | ctorHV i h v => left; simp only [step]; split; exact ctor_case _ i _ rfl ‹_›; exact ValFrame.refl s
  | ctorSV i j v =>
      left; simp only [step]; split
      · split
        · exact move_case i j _ true (some v) ‹_› ‹_›
        · exact ValFrame.refl s
      · exact ValFrame.refl s
  | mov i j =>
      simp only [step]; split
      · rename_i oj hj
        split
        · rename_i hv
          have M := move_case i j oj oj.typed oj.value hv hj
          obtain ⟨hil, hin⟩ := vacant_iff.1 hv
          have hij : i ≠ j := by intro e; subst e; rw [hin] at hj; cases hj
          have hjM : (stepMove s i j oj.typed oj.value oj).obj j = some { oj with cf := 0 } := by
            simp only [stepMove]; rw [obj_setObj _ j _ j (by simpa using obj_lt hj)]; simp
          split
          · rename_i htj
            right; left
            refine ⟨i, j, oj, rfl, hj, htj, ?_, { oj with cf := 0, value := none }, ?_, htj, rfl⟩
            · intro k hk o o' h1 h2
              rw [obj_setVal hjM none k, if_neg hk] at h2
              exact M k o o' h1 h2
            · rw [obj_setVal hjM none j]; simp
          · left; exact M
        · left; exact ValFrame.refl s
      · left; exact ValFrame.refl s
  | movBase i j =>
      left; simp only [step]; split
      · split
        · exact move_case i j _ false none ‹_› ‹_›
        · exact ValFrame.refl s
      · exact ValFrame.refl s
  | merge i j =>
      left; simp only [step]; split
      · split
        · exact ValFrame.refl s
        · exact merge_case i j _ _ ‹_› ‹_› ‹_›
      · exact ValFrame.refl s
  | assign i j =>
      simp only [step]; split
      · rename_i oi oj hi hj
        split
        · left; exact ValFrame.refl s
        · rename_i hij
          split
          · left; exact ValFrame.refl s
          · rename_i hcomp
            split
            · rename_i hti
              have htj : oj.typed = true := by
                cases h : oj.typed with
                | true => rfl
                | false => simp [hti, h] at hcomp
              right; right
              have M := merge_case i j oi oj hi hj hij
              obtain ⟨IM, -, -, -, -, ⟨oi', e1, e2, e3⟩, ej, -⟩ := merge_spec I hi hj hij
              have hji : j ≠ i := Ne.symm hij
              have h1j : (setVal (stepMerge s i j oj) i oj.value).obj j = some { oj with cf := 0 } := by
                rw [obj_setVal e1 oj.value j, if_neg hji, ej]
              refine ⟨i, j, oi, oj, rfl, hij, hi, hj, hti, htj, ?_, ⟨{ oi' with value := oj.value }, ?_, ?_, rfl⟩,
                ⟨{ oj with cf := 0, value := none }, ?_, htj, rfl⟩⟩
              · intro k hki hkj o o' h1 h2
                rw [obj_setVal h1j none k, if_neg hkj, obj_setVal e1 oj.value k, if_neg hki] at h2
                exact M k o o' h1 h2
              · rw [obj_setVal h1j none i, if_neg hij, obj_setVal e1 oj.value i]; simp
              · show oi'.typed = true; rw [e2]; exact hti
              · rw [obj_setVal h1j none j]; simp
            · left; exact merge_case i j oi oj hi hj hij
      · left; exact ValFrame.refl s
  | addH i h =>
      left; simp only [step]; split
      · rename_i o hi
        obtain ⟨-, -, -, ⟨o', e1, e2, e3⟩, eo⟩ := addH_spec I hi h
        intro k o1 o1' h1 h2
        by_cases ek : k = i
        · subst ek; rw [hi] at h1; cases h1; rw [e1] at h2; cases h2; exact ⟨e2, e3⟩
        · rw [eo k ek, h1] at h2; cases h2; exact ⟨rfl, rfl⟩
      · exact ValFrame.refl s
  | pop i =>
      left; simp only [step]; split
      · rename_i o hi
        split
        · exact ValFrame.refl s
        · refine valFrame_of_slot (i := i) (some { o with cf := o.cf - 2 }) (fun k => ?_) ?_
          · exact obj_setObj s i _ k (obj_lt hi)
          · intro o1 o1' h1 h2; rw [hi] at h1; cases h1; cases h2; exact ⟨rfl, rfl⟩
      · exact ValFrame.refl s
  | clear i =>
      left; simp only [step]; split
      · rename_i o hi
        refine valFrame_of_slot (some { o with cf := 0 }) (suspendNow_spec I hi).2.2.2.2.2.1 ?_
        intro o1 o1' h1 h2; rw [hi] at h1; cases h1; cases h2; exact ⟨rfl, rfl⟩
      · exact ValFrame.refl s
  | dtor i =>
      left; simp only [step]; split
      · rename_i o hi
        have D := dtor_spec I hi
        refine valFrame_of_slot (i := i) none (fun k => ?_) (fun _ _ _ h => by cases h)
        by_cases ek : k = i
        · subst ek; simp [D.2.1]
        · simp [ek, D.2.2.2.1 k ek]
      · exact ValFrame.refl s
  | await i me =>
      left; simp only [step]; split
      · rename_i o hi
        unfold awaitObj
        by_cases hc : o.cf / 2 = 0
        · simp only [hc, if_true]; exact ValFrame.refl s
        · have hx : ∀ o1 o1', s.obj i = some o1 → some { o with cf := 0 } = some o1' →
              o1'.typed = o1.typed ∧ o1'.value = o1.value := by
            intro o1 o1' h1 h2; rw [hi] at h1; cases h1; cases h2; exact ⟨rfl, rfl⟩
          by_cases ha : s.active = true
          · simp only [hc, ha, if_true, if_false]
            split <;> exact valFrame_of_slot (some { o with cf := 0 }) (awaitQueue_spec I ha hi hc me).2.2.2.2.2.2.1 hx
          · have ha' : s.active = false := by simpa using ha
            simp only [hc, ha', if_false, Bool.false_eq_true]
            exact valFrame_of_slot (some { o with cf := 0 })
              (awaitQueue_spec (inv_active I) rfl (s := { s with active := true }) hi hc me).2.2.2.2.2.2.1 hx
      · exact ValFrame.refl s
  | yield me => left; simp only [step]; split <;> exact valFrame_of_obj (fun _ => rfl)
  | size i => left; simp only [step]; split <;> exact ValFrame.refl s
  | empty i => left; simp only [step]; split <;> exact ValFrame.refl s
  | value i => left; simp only [step]; split <;> (try split) <;> exact ValFrame.refl s
  | conv i => left; simp only [step]; split <;> (try split) <;> exact ValFrame.refl s
  | cconv i => left; simp only [step]; split <;> (try split) <;> exact ValFrame.refl s
  | ares i => left; simp only [step]; split <;> (try split) <;> exact ValFrame.refl s
  | finish => left; simp only [step]; split <;> exact valFrame_of_obj (fun _ => rfl)
  | create i hs v =>
      left; simp only [step]; split
      · rename_i hv
        obtain ⟨hil, hin⟩ := vacant_iff.1 hv
        have C := (create_spec I hv hs v).2.2.2.2.1
        intro k o o' h1 h2
        by_cases ek : k = i
        · subst ek; rw [hin] at h1; cases h1
        · rw [C k ek, h1] at h2; cases h2; exact ⟨rfl, rfl⟩
      · exact ValFrame.refl s

theorem idxOf_append_self (l : List Ptr) (x : Ptr) (h : x ∉ l) : (l ++ [x]).idxOf x = l.length := by
  induction l with
  | nil => simp
  | cons y t ih =>
      have hy : ¬ y = x := fun e => h (by simp [e])
      have ht : x ∉ t := fun e => h (by simp [e])
      simp only [List.cons_append, List.idxOf_cons, List.length_cons]
      have : (y == x) = false := by simpa using hy
      simp [this, ih ht]

theorem idxOf_append_right (q l : List Ptr) (x : Ptr) (h : x ∉ q) : (q ++ l).idxOf x = q.length + l.idxOf x := by
  induction q with
  | nil => simp
  | cons y t ih =>
      have hy : ¬ y = x := fun e => h (by simp [e])
      have ht : x ∉ t := fun e => h (by simp [e])
      have : (y == x) = false := by simpa using hy
      simp only [List.cons_append, List.idxOf_cons, List.length_cons, this, cond_false, ih ht]
      omega

theorem take_append_len (q l : List Ptr) (k : Nat) : (q ++ l).take (q.length + k) = q ++ l.take k := by
  induction q with
  | nil => simp
  | cons y t ih => simp only [List.cons_append, List.length_cons]; rw [show t.length + 1 + k = (t.length + k) + 1 by omega]; simp [ih]

theorem drop_append_len (q l : List Ptr) (k : Nat) : (q ++ l).drop (q.length + k) = l.drop k := by
  induction q with
  | nil => simp
  | cons y t ih => simp only [List.cons_append, List.length_cons]; rw [show t.length + 1 + k = (t.length + k) + 1 by omega]; simp [ih]

end Cocls.SP
