import CoclsModel.SuspendPoint
/-!
Invariants of the `suspend_point` model (`SuspendPoint.lean`) and their preservation by every operation
(helper lemmas for `Props/C06.lean`).
-/
namespace Cocls.SP

/-! ### association-list memory -/
@[simp] theorem Mem.get_nil (a : Nat) : Mem.get [] a = none := rfl

theorem Mem.get_del (m : Mem) (a b : Nat) : (Mem.del m a).get b = if b = a then none else m.get b := by
  induction m with
  | nil => simp [Mem.del, Mem.get]
  | cons kv m ih =>
      obtain ⟨k, v⟩ := kv
      by_cases hak : a = k
      · subst hak; simp only [Mem.del, if_true, ih, Mem.get]; split <;> simp_all
      · simp only [Mem.del, if_neg hak, Mem.get, ih]
        by_cases hbk : b = k
        · subst hbk; have : ¬ b = a := fun h => hak h.symm
          simp [this]
        · simp [hbk]

theorem Mem.get_set (m : Mem) (a : Nat) (v : List Ptr) (b : Nat) :
    (Mem.set m a v).get b = if b = a then some v else m.get b := by
  simp only [Mem.set, Mem.get, Mem.get_del]
  split <;> simp_all

/-! ### pool slots -/
theorem obj_setObj (s : State) (i : Nat) (o : Option Obj) (j : Nat) (hi : i < s.objs.length) :
    (setObj s i o).obj j = if j = i then o else s.obj j := by
  simp only [State.obj, setObj, List.getElem?_set]
  by_cases h : j = i
  · subst h; simp [hi]
  · have : ¬ i = j := fun e => h e.symm
    simp [h, this]

theorem obj_lt {s : State} {i : Nat} {o : Obj} (h : s.obj i = some o) : i < s.objs.length := by
  by_cases hi : i < s.objs.length
  · exact hi
  · simp [State.obj, List.getElem?_eq_none (Nat.le_of_not_lt hi)] at h

theorem obj_ge {s : State} {i : Nat} (h : s.objs.length ≤ i) : s.obj i = none := by
  simp [State.obj, List.getElem?_eq_none h]

@[simp] theorem setObj_mem (s : State) (i o) : (setObj s i o).mem = s.mem := rfl
@[simp] theorem setObj_live (s : State) (i o) : (setObj s i o).live = s.live := rfl
@[simp] theorem setObj_trace (s : State) (i o) : (setObj s i o).trace = s.trace := rfl
@[simp] theorem setObj_nextAddr (s : State) (i o) : (setObj s i o).nextAddr = s.nextAddr := rfl
@[simp] theorem setObj_queue (s : State) (i o) : (setObj s i o).queue = s.queue := rfl
@[simp] theorem setObj_active (s : State) (i o) : (setObj s i o).active = s.active := rfl
@[simp] theorem setObj_given (s : State) (i o) : (setObj s i o).given = s.given := rfl
@[simp] theorem setObj_popped (s : State) (i o) : (setObj s i o).popped = s.popped := rfl
@[simp] theorem setObj_len (s : State) (i o) : (setObj s i o).objs.length = s.objs.length := by simp [setObj]

/-! ### ghost projections of the trace -/
theorem filterMap_res_map (hs : List Ptr) : (hs.map Ev.res).filterMap Ev.res? = hs := by
  induction hs with
  | nil => rfl
  | cons h t ih => simp [Ev.res?, ih]

theorem filter_alloc_map (hs : List Ptr) : (hs.map Ev.res).filter Ev.isAlloc = [] := by
  induction hs with
  | nil => rfl
  | cons h t ih => simp [Ev.isAlloc, ih]

theorem filter_free_map (hs : List Ptr) : (hs.map Ev.res).filter Ev.isFree = [] := by
  induction hs with
  | nil => rfl
  | cons h t ih => simp [Ev.isFree, ih]

/-- heap bookkeeping -/
structure HeapOk (s : State) : Prop where
  live_iff : ∀ a, a ∈ s.live ↔ (s.mem.get a).isSome = true
  live_nodup : s.live.Nodup
  live_lt : ∀ a, a ∈ s.live → a < s.nextAddr
  balance : news s = deletes s + s.live.length
  no_badfree : Ev.badfree ∉ s.trace
  no_oob : Ev.oob ∉ s.trace

theorem HeapOk.lt_of_get {s : State} (H : HeapOk s) {a : Nat} {c : List Ptr} (h : s.mem.get a = some c) :
    a < s.nextAddr := H.live_lt a ((H.live_iff a).2 (by simp [h]))

theorem HeapOk.get_next {s : State} (H : HeapOk s) : s.mem.get s.nextAddr = none := by
  cases h : s.mem.get s.nextAddr with
  | none => rfl
  | some c => exact absurd (H.lt_of_get h) (Nat.lt_irrefl _)

theorem heapOk_alloc {s : State} (H : HeapOk s) (cap : Nat) : HeapOk (allocBlk s cap) := by
  have hn : s.nextAddr ∉ s.live := fun h => Nat.lt_irrefl _ (H.live_lt _ h)
  refine ⟨?_, ?_, ?_, ?_, ?_, ?_⟩ <;> simp only [allocBlk, news, deletes]
  · intro a
    simp only [List.mem_append, List.mem_singleton, Mem.get_set]
    by_cases h : a = s.nextAddr
    · simp [h]
    · simp [h, H.live_iff a]
  · rw [List.nodup_append]
    refine ⟨H.live_nodup, by simp, ?_⟩
    intro a ha b hb
    simp at hb; subst hb
    intro e; subst e; exact hn ha
  · intro a ha
    simp only [List.mem_append, List.mem_singleton] at ha
    rcases ha with ha | ha
    · exact Nat.lt_succ_of_lt (H.live_lt a ha)
    · omega
  · have := H.balance
    simp only [news, deletes] at this
    simp [List.filter_append, List.filter_cons, Ev.isAlloc, Ev.isFree]; omega
  · simp [H.no_badfree]
  · simp [H.no_oob]

theorem freeBlk_eq {s : State} {a : Nat} {c : List Ptr} (h : s.mem.get a = some c) :
    freeBlk s a = { s with mem := s.mem.del a, live := s.live.erase a, trace := s.trace ++ [Ev.free c.length] } := by
  simp [freeBlk, h]

theorem heapOk_free {s : State} (H : HeapOk s) {a : Nat} {c : List Ptr} (h : s.mem.get a = some c) :
    HeapOk (freeBlk s a) := by
  have ha : a ∈ s.live := (H.live_iff a).2 (by simp [h])
  rw [freeBlk_eq h]
  refine ⟨?_, ?_, ?_, ?_, ?_, ?_⟩ <;> simp only [news, deletes]
  · intro b
    rw [H.live_nodup.mem_erase_iff, Mem.get_del, H.live_iff b]
    by_cases e : b = a <;> simp [e]
  · exact H.live_nodup.erase a
  · intro b hb; exact H.live_lt b (List.mem_of_mem_erase hb)
  · have := H.balance
    simp only [news, deletes] at this
    have hl : 0 < s.live.length := List.length_pos_of_mem ha
    simp [List.filter_append, List.filter_cons, Ev.isAlloc, Ev.isFree, List.length_erase_of_mem ha]; omega
  · simp [H.no_badfree]
  · simp [H.no_oob]

theorem writeCell_eq {s : State} {a k : Nat} {c : List Ptr} (h : s.mem.get a = some c) (hk : k < c.length) (v : Ptr) :
    writeCell s a k v = { s with mem := s.mem.set a (c.set k v) } := by
  simp [writeCell, h, hk]

theorem copyInto_eq {s : State} {a : Nat} {c src : List Ptr} (h : s.mem.get a = some c) (hk : src.length ≤ c.length) :
    copyInto s a src = { s with mem := s.mem.set a (src ++ c.drop src.length) } := by
  simp [copyInto, h, hk]

/-- overwriting the cells of a live block keeps the bookkeeping -/
theorem heapOk_setCells {s : State} (H : HeapOk s) {a : Nat} {c : List Ptr} (h : s.mem.get a = some c) (c' : List Ptr) :
    HeapOk { s with mem := s.mem.set a c' } := by
  refine ⟨?_, H.live_nodup, H.live_lt, H.balance, H.no_badfree, H.no_oob⟩
  intro b
  simp only [Mem.get_set]
  by_cases e : b = a
  · subst e; simp [(H.live_iff b).2 (by simp [h])]
  · simp [e, H.live_iff b]

/-- changes that do not touch the heap fields and only add resumption events -/
theorem heapOk_of_eq {s s' : State} (H : HeapOk s) (hm : s'.mem = s.mem) (hl : s'.live = s.live)
    (hn : s'.nextAddr = s.nextAddr) (hs : List Ptr) (ht : s'.trace = s.trace ++ hs.map Ev.res) : HeapOk s' := by
  refine ⟨?_, ?_, ?_, ?_, ?_, ?_⟩
  · intro a; rw [hl, hm]; exact H.live_iff a
  · rw [hl]; exact H.live_nodup
  · intro a; rw [hl, hn]; exact H.live_lt a
  · have := H.balance
    simp only [news, deletes, ht, hl, List.filter_append, filter_alloc_map, filter_free_map, List.append_nil] at this ⊢
    exact this
  · rw [ht]; simp [H.no_badfree]
  · rw [ht]; simp [H.no_oob]

/-! ### ownership -/

structure ObjWf (s : State) (o : Obj) : Prop where
  inl_len : o.inl.length = 3
  inl_le : o.cf % 2 = 0 → o.cf / 2 ≤ 3
  ext_ok : o.cf % 2 = 1 → ∃ c, s.mem.get o.ext = some c ∧ c.length = o.cap ∧ o.cf / 2 ≤ o.cap ∧ 0 < o.cap

/-- ownership: every flagged object owns a live block, no two objects share one, every live block is owned -/
structure Own (s : State) : Prop where
  wf : ∀ i o, s.obj i = some o → ObjWf s o
  excl : ∀ i j oi oj, s.obj i = some oi → s.obj j = some oj → oi.cf % 2 = 1 → oj.cf % 2 = 1 →
      oi.ext = oj.ext → i = j
  owned : ∀ a c, s.mem.get a = some c → ∃ i o, s.obj i = some o ∧ o.cf % 2 = 1 ∧ o.ext = a

/-- one object changes from `o` to `o'`; memory changes only at the block(s) of that object -/
theorem own_step {s s' : State} {i : Nat} {o o' : Obj} (O : Own s) (hi : s.obj i = some o)
    (hobj : ∀ k, s'.obj k = if k = i then some o' else s.obj k)
    (hmem : ∀ a, (o.cf % 2 = 1 → a ≠ o.ext) → (o'.cf % 2 = 1 → a ≠ o'.ext) → s'.mem.get a = s.mem.get a)
    (hnew : ObjWf s' o')
    (hfresh : o'.cf % 2 = 1 → (o.cf % 2 = 1 ∧ o'.ext = o.ext) ∨ s.mem.get o'.ext = none)
    (hfreed : o.cf % 2 = 1 → (o'.cf % 2 = 1 ∧ o'.ext = o.ext) ∨ s'.mem.get o.ext = none) : Own s' := by
  -- a flagged object other than `i` keeps its block
  have keep : ∀ k ok, k ≠ i → s.obj k = some ok → ok.cf % 2 = 1 → s'.mem.get ok.ext = s.mem.get ok.ext := by
    intro k ok hk hok hf
    obtain ⟨c, hc, -⟩ := (O.wf k ok hok).ext_ok hf
    apply hmem
    · intro hof e; exact hk (O.excl k i ok o hok hi hf hof e)
    · intro hof' e
      rcases hfresh hof' with ⟨hof, e'⟩ | hn
      · exact hk (O.excl k i ok o hok hi hf hof (e.trans e'))
      · rw [← e, hc] at hn; cases hn
  refine ⟨?_, ?_, ?_⟩
  · intro k ok hk
    rw [hobj k] at hk
    by_cases e : k = i
    · simp only [e, if_true, Option.some.injEq] at hk; subst hk; exact hnew
    · simp only [e, if_false] at hk
      have w := O.wf k ok hk
      refine ⟨w.inl_len, w.inl_le, ?_⟩
      intro hf
      rw [keep k ok e hk hf]; exact w.ext_ok hf
  · intro k l ok ol hk hl hfk hfl e
    rw [hobj k] at hk; rw [hobj l] at hl
    -- helper: `i` (new) against an unchanged flagged object
    have clash : ∀ m om, m ≠ i → s.obj m = some om → om.cf % 2 = 1 → o'.cf % 2 = 1 → o'.ext = om.ext → False := by
      intro m om hm hom hfm hfo' e'
      obtain ⟨c, hc, -⟩ := (O.wf m om hom).ext_ok hfm
      rcases hfresh hfo' with ⟨hof, e''⟩ | hn
      · exact hm (O.excl m i om o hom hi hfm hof (e'.symm.trans e''))
      · rw [e', hc] at hn; cases hn
    by_cases ek : k = i <;> by_cases el : l = i
    · rw [ek, el]
    · simp only [ek, if_true, Option.some.injEq] at hk; subst hk
      simp only [el, if_false] at hl
      exact (clash l ol el hl hfl hfk e).elim
    · simp only [el, if_true, Option.some.injEq] at hl; subst hl
      simp only [ek, if_false] at hk
      exact (clash k ok ek hk hfk hfl e.symm).elim
    · simp only [ek, if_false] at hk; simp only [el, if_false] at hl
      exact O.excl k l ok ol hk hl hfk hfl e
  · intro a c hc
    by_cases h1 : o'.cf % 2 = 1 ∧ a = o'.ext
    · exact ⟨i, o', by rw [hobj i]; simp, h1.1, h1.2.symm⟩
    · by_cases h2 : o.cf % 2 = 1 ∧ a = o.ext
      · rcases hfreed h2.1 with ⟨hf', e'⟩ | hn
        · exact (h1 ⟨hf', h2.2.trans e'.symm⟩).elim
        · rw [← h2.2, hc] at hn; cases hn
      · have hg : s'.mem.get a = s.mem.get a := by
          apply hmem
          · intro hf e; exact h2 ⟨hf, e⟩
          · intro hf e; exact h1 ⟨hf, e⟩
        rw [hg] at hc
        obtain ⟨k, ok, hk, hfk, ek⟩ := O.owned a c hc
        have hki : k ≠ i := by
          intro e; subst e; rw [hi] at hk; cases hk; exact h2 ⟨hfk, ek.symm⟩
        exact ⟨k, ok, by rw [hobj k]; simp [hki, hk], hfk, ek⟩

end Cocls.SP
