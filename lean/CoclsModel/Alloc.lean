import CoclsModel.Generated.AllocSites
/-
Allocation-event model of "core programs" (C20).

A core program is a list of operations performed by ordinary code on one thread — creating / resolving / awaiting
(callback awaiter, blocking-thread awaiter) / destroying future-promise pairs, `promise::bind` (creating, invoking,
destroying the bound callable, any size of bound value), `try_lock` / release of a coroutine
mutex, `<<` / `pop` / `clear` on a suspend point, merging whole suspend points (`<<`, move-assignment, the result of a
resolution merged into a suspend point object), creating / stepping / destroying a synchronous generator, and
creating scripted coroutines (`async<T>`, heap or non-heap frame, detached or bound to a promise) whose scripts
await futures, resolve promises (dropping or awaiting the returned suspend point), lock / hand over mutexes, park,
`pause()` and step generators.  The model executes the program exactly like the library does on one thread
(awaiter chains are LIFO stacks walked by the resolver, suspend points carry the ready handles, ordinary code
installs the ready queue and runs the carried coroutines, code inside a coroutine pushes them to the queue, `co_await`
of a suspend point / final suspend are symmetric transfers) and *logs every dynamic allocation and release* the
library performs, by category:

* `frame`  — one per coroutine / generator created with a heap frame (none under the non-heap storage policy),
* `rgrowth` — the same allocation when the growing suspend point is the one a *resolution* builds (`resume_chain_lk`
             collects every released coroutine in one suspend point): more than `inlineCount` coroutine waiters on one
             future — the second listed finding (the statement promises allocation-free resolution for every number of waiters),
* `growth` — `new Ptr[count * growthFactor]` of `suspend_point::add` when a suspend point already holds
             `inlineCount` (or `capacity`) handles; released by `clear_internal` / `operator<<`,
* `rq`     — allocations of the thread-local `std::deque` ready queue of `coro_queue` (libstdc++: map + first node
             on the thread's first use, one 512-byte node per 64 enqueues, map re-allocation) — the listed finding,
* `other`  — never produced by the model,
* `thrown` — (token `Tok.thrown`) the exception object of a `throw` / the dependent exception of a `rethrow_exception`
             (`__cxa_allocate_exception` → `malloc`, not `operator new`).  The library throws in exactly one situation of a core
             program: user code reads (`co_await`, `wait()`) a future that was resolved *without a value* (by an exception, or
             dropped) — `future::value()` reports that to the reader by `rethrow_exception` / `throw await_canceled_exception()`.
             That object is the caller's (the report of an error to the code that asked), it is not an allocation "of their own"
             of the primitives; the token therefore names its receiver.  The model has no token for an exception that is thrown
             and swallowed inside the library: the current code has no such path (stepping an exhausted generator is answered by
             the `done()` pre-check of `next_awt::operator bool`, not by `no_more_values_exception`).

Everything that is not a log (`out`) or a ghost counter (`peak`, `pushes`, `pops`) is control state.  The ghost
fields are never consulted by the control flow.  Suspend points that are locals of library functions live in the
register `tmp` (the one under construction / being returned) and `pend` (capacity of the heap array of the one
being flushed by ordinary code), so that every function is `State → State`.
-/
namespace Cocls.Alloc

/-- `suspend_point<void>::inline_count`, extracted from the source -/
def inlineCount : Nat := Generated.inlineCount
/-- factor in `new Ptr[count * 2]`, extracted from the source -/
def growthFactor : Nat := Generated.growthFactor
/-- handles per node of `std::deque<std::coroutine_handle<>>` (libstdc++: 512-byte nodes) -/
def slots : Nat := 64
def nodeBytes : Nat := 512
def ptrBytes : Nat := 8
/-- initial size of the deque's map (libstdc++ `_S_initial_map_size`) -/
def initMap : Nat := 8
def nMx : Nat := 2
def nSp : Nat := 2
def maxId : Nat := 160

inductive Cat where
  | frame | growth | rgrowth | rq | other
  deriving DecidableEq, Repr, Inhabited

inductive Kind where
  | v | e | d
  deriving DecidableEq, Repr, Inhabited

inductive Act where
  | await (i : Nat)
  | res (i : Nat) (k : Kind)      -- resolve, drop the suspend point
  | resAw (i : Nat) (k : Kind)    -- resolve, `co_await` the suspend point
  | lock (m : Nat)
  | unlock (m : Nat)              -- release, drop the suspend point
  | unlockAw (m : Nat)            -- `co_await own.release()`
  | park
  | pause
  | gstep (g : Nat)               -- `if (G.next())`
  | gstepAw (g : Nat)             -- `co_await G.next()`
  | resumed (i : Nat)             -- (never written by a user; pushed by `await` when it suspends) `await_resume` of `co_await F_i`
  deriving DecidableEq, Repr, Inhabited

/-- what a coroutine reports when it executes an action -/
inductive Label where
  | did (a : Act)
  | stepped (a : Act) (r : Option Nat)   -- generator step: the value, or `none` = done
  | nogen (a : Act)                      -- the generator does not exist
  | fin                                  -- end of the script
  deriving DecidableEq, Repr, Inhabited

/-- one token of the output; `out` keeps them newest first -/
inductive Tok where
  | act (j : Nat) (l : Label)                -- coroutine `j` executed an action of its script
  | cb (i : Nat)                             -- the callback awaiter of future `i` fired
  | alloc (c : Cat) (n : Nat) (held : Nat)   -- allocation; `held` (ghost) = handles held by the growing suspend point
  | free (c : Cat) (n : Nat)                 -- release
  | thrown (who : Option Nat) (i : Nat)      -- an exception object was allocated and thrown TO user code (coroutine `who`, or
                                             -- ordinary code) that read future `i`, which holds no value
  deriving DecidableEq, Repr, Inhabited

inductive Waiter where
  | coro (j : Nat) | cb | sync
  deriving DecidableEq, Repr, Inhabited

inductive Outcome where
  | none | value (n : Nat) | exc | canceled
  deriving DecidableEq, Repr, Inhabited

structure Fut where
  existed : Bool := false     -- constructed at some point (its promise object exists)
  alive : Bool := false       -- constructed and not destroyed
  claimed : Bool := false     -- the promise has been claimed (resolved, bound to a coroutine)
  ready : Bool := false
  outcome : Outcome := .none
  chain : List Waiter := []   -- awaiter chain, head = most recently subscribed
  bnd : Option Bool := none   -- a callable made by `promise::bind` exists; `some true` = it still holds the promise
  deriving Repr, Inhabited

inductive CoSt where
  | unborn | active | parked | insp (s : Nat) | done
  deriving DecidableEq, Repr, Inhabited

structure Co where
  st : CoSt := .unborn
  heap : Bool := false
  bind : Option Nat := none
  script : List Act := []
  owns : Nat → Bool := fun _ => false
  deriving Inhabited

inductive Owner where
  | free | main | coro (j : Nat)
  deriving DecidableEq, Repr, Inhabited

structure Mx where
  owner : Owner := .free
  waiters : List Nat := []    -- FIFO
  deriving Repr, Inhabited

structure Sp where
  handles : List Nat := []
  ext : Option Nat := none    -- capacity of the heap array when in heap mode
  res : Bool := false         -- (category of the heap array) it was allocated while a resolution collected handles
  deriving Repr, Inhabited

structure Gen where
  exist : Bool := false
  heap : Bool := false
  next : Nat := 0
  n : Nat := 0
  done : Bool := false
  deriving Repr, Inhabited

/-- position model of libstdc++'s `std::deque` (push_back / pop_front only) -/
structure Rq where
  built : Bool := true
  mapSize : Nat := initMap
  sN : Nat := (initMap - 1) / 2    -- map index of the start node
  fN : Nat := (initMap - 1) / 2    -- map index of the finish node
  sO : Nat := 0                    -- offset of `start.cur` in its node
  fO : Nat := 0                    -- offset of `finish.cur` in its node
  items : List Nat := []
  deriving Repr, Inhabited

structure State where
  fresh : Bool
  futs : Nat → Fut := fun _ => {}
  cos : Nat → Co := fun _ => {}
  mxs : Nat → Mx := fun _ => {}
  sps : Nat → Sp := fun _ => {}
  gens : Nat → Gen := fun _ => {}
  rq : Rq := {}
  tmp : Sp := {}
  pend : Option Nat := none
  pendR : Bool := false
  moved : Bool := false
  out : List Tok := []
  -- ghost
  peak : Nat := 0        -- largest number of handles any suspend point has held
  rpeak : Nat := 0       -- largest number of coroutines one resolution has released (handles collected by `resume_chain_lk`)
  pushes : Nat := 0      -- enqueues on the ready queue so far
  pops : Nat := 0

/-- `fresh` = the program runs on a new thread (its ready queue is not constructed yet) -/
def init (fresh : Bool) : State := { fresh := fresh, rq := { built := !fresh } }

def upd {α : Type} (f : Nat → α) (i : Nat) (v : α) : Nat → α := fun k => if k = i then v else f k

/-! ### primitive state changes -/

def emit (s : State) (t : Tok) : State := { s with out := t :: s.out }

def setFut (s : State) (i : Nat) (f : Fut) : State := { s with futs := upd s.futs i f }
def setMx (s : State) (m : Nat) (x : Mx) : State := { s with mxs := upd s.mxs m x }
def setGen (s : State) (g : Nat) (x : Gen) : State := { s with gens := upd s.gens g x }
def setCo (s : State) (j : Nat) (c : Co) : State := { s with cos := upd s.cos j c }
def setSt (s : State) (j : Nat) (st : CoSt) : State := { s with cos := upd s.cos j { s.cos j with st := st } }
def setScript (s : State) (j : Nat) (sc : List Act) : State := { s with cos := upd s.cos j { s.cos j with script := sc } }
def setOwns (s : State) (j m : Nat) (b : Bool) : State :=
  { s with cos := upd s.cos j { s.cos j with owns := upd (s.cos j).owns m b } }
def setMoved (s : State) (b : Bool) : State := { s with moved := b }
def clearTmp (s : State) : State := { s with tmp := {} }

/-- a coroutine frame is allocated / released through global `operator new` / `delete` (heap storage policy only) -/
def allocFrame (s : State) (heap : Bool) : State := if heap then emit s (Tok.alloc .frame 1 0) else s
def freeFrame (s : State) (heap : Bool) : State := if heap then emit s (Tok.free .frame 1) else s

/-! ### suspend point -/

def Sp.count (sp : Sp) : Nat := sp.handles.length

def catOf (r : Bool) : Cat := if r then .rgrowth else .growth

/-- allocation events of `suspend_point::add` on `sp`, newest first; `r` = the add is made by a resolution collecting handles -/
def Sp.addToks (sp : Sp) (r : Bool) : List Tok :=
  match sp.ext with
  | some cap =>
      if sp.count = cap then [Tok.free (catOf sp.res) cap, Tok.alloc (catOf r) (sp.count * growthFactor) sp.count] else []
  | none =>
      if sp.count < inlineCount then [] else [Tok.alloc (catOf r) (sp.count * growthFactor) sp.count]

def Sp.addExt (sp : Sp) : Option Nat :=
  match sp.ext with
  | some cap => if sp.count = cap then some (sp.count * growthFactor) else some cap
  | none => if sp.count < inlineCount then none else some (sp.count * growthFactor)

def Sp.addRes (sp : Sp) (r : Bool) : Bool :=
  match sp.ext with
  | some cap => if sp.count = cap then r else sp.res
  | none => if sp.count < inlineCount then sp.res else r

def Sp.add (sp : Sp) (h : Nat) (r : Bool) : Sp := { handles := sp.handles ++ [h], ext := sp.addExt, res := sp.addRes r }

/-- `tmp << h` (hand-over of a mutex, start of a coroutine) -/
def addTmp (s : State) (h : Nat) : State :=
  { s with tmp := s.tmp.add h false, out := s.tmp.addToks false ++ s.out, peak := max s.peak (s.tmp.count + 1) }

/-- `ret << y->resume()` in `resume_chain_lk`: a resolution collects one more released coroutine -/
def addTmpR (s : State) (h : Nat) : State :=
  { s with tmp := s.tmp.add h true, out := s.tmp.addToks true ++ s.out, peak := max s.peak (s.tmp.count + 1),
           rpeak := max s.rpeak (s.tmp.count + 1) }

/-- `S_k << h` -/
def addSp (s : State) (k h : Nat) : State :=
  { s with sps := upd s.sps k ((s.sps k).add h false), out := (s.sps k).addToks false ++ s.out,
           peak := max s.peak ((s.sps k).count + 1) }

def freeExt (s : State) (r : Bool) : Option Nat → State
  | some cap => emit s (Tok.free (catOf r) cap)
  | none => s

/-- `clear_internal()` of the suspend point in `tmp` -/
def freeTmp (s : State) : State := clearTmp (freeExt s s.tmp.res s.tmp.ext)

/-- ordinary code starts flushing the suspend point in `tmp`: its handles are taken, its heap array stays until the end -/
def stashTmp (s : State) : State := { s with pend := s.tmp.ext, pendR := s.tmp.res, tmp := {} }

def freePend (s : State) : State := { freeExt s s.pendR s.pend with pend := none, pendR := false }

/-- the suspend point object `S_k` is moved into `tmp` -/
def loadSp (s : State) (k : Nat) : State := { s with tmp := s.sps k, sps := upd s.sps k {} }

/-- `S_k.pop()` -/
def popSp (s : State) (k : Nat) : State :=
  { s with sps := upd s.sps k { s.sps k with handles := (s.sps k).handles.dropLast } }

/-- `S_k << h` for every handle of a batch, in order -/
def addAllSp (s : State) (k : Nat) : List Nat → State
  | [] => s
  | h :: hs => addAllSp (addSp s k h) k hs

/-- `S_k << std::move(tmp)` (also move-assignment): every handle of the incoming suspend point is added one by one,
then its heap array (if any) is released -/
def mergeTmpInto (s : State) (k : Nat) : State := freeTmp (addAllSp s k s.tmp.handles)

/-- destructor of the suspend point object `S_k` (empty by now, but its heap array may still be there) -/
def killSp (s : State) (k : Nat) : State := { freeExt s (s.sps k).res (s.sps k).ext with sps := upd s.sps k {} }

/-! ### the thread's ready queue (`coro_queue::queue_impl::_queue`) -/

def Rq.needNode (q : Rq) : Bool := q.fO + 1 = slots
def Rq.needMap (q : Rq) : Bool := q.mapSize < q.fN + 2
def Rq.oldNum (q : Rq) : Nat := q.fN - q.sN + 1
def Rq.recenter (q : Rq) : Bool := 2 * (q.oldNum + 1) < q.mapSize
def Rq.newMapSize (q : Rq) : Nat := q.mapSize + max q.mapSize 1 + 2

/-- `_M_reserve_map_at_back()` -/
def Rq.reserve (q : Rq) : Rq :=
  if q.needMap then
    if q.recenter then
      { q with sN := (q.mapSize - (q.oldNum + 1)) / 2, fN := (q.mapSize - (q.oldNum + 1)) / 2 + q.oldNum - 1 }
    else
      { q with mapSize := q.newMapSize, sN := (q.newMapSize - (q.oldNum + 1)) / 2,
               fN := (q.newMapSize - (q.oldNum + 1)) / 2 + q.oldNum - 1 }
  else q

/-- newest first -/
def Rq.reserveToks (q : Rq) : List Tok :=
  if q.needMap && !q.recenter then
    [Tok.free .rq (q.mapSize * ptrBytes), Tok.alloc .rq (q.newMapSize * ptrBytes) 0]
  else []

def Rq.push (q : Rq) (h : Nat) : Rq :=
  if q.needNode then { q.reserve with fN := q.reserve.fN + 1, fO := 0, items := q.items ++ [h] }
  else { q with fO := q.fO + 1, items := q.items ++ [h] }

/-- newest first -/
def Rq.pushToks (q : Rq) : List Tok :=
  if q.needNode then Tok.alloc .rq nodeBytes 0 :: q.reserveToks else []

def Rq.pop (q : Rq) : Rq :=
  if q.sO + 1 = slots then { q with sN := q.sN + 1, sO := 0, items := q.items.tail }
  else { q with sO := q.sO + 1, items := q.items.tail }

def Rq.popToks (q : Rq) : List Tok :=
  if q.sO + 1 = slots then [Tok.free .rq nodeBytes] else []

/-- `_queue.push_back(h)` -/
def rqPush (s : State) (h : Nat) : State :=
  { s with rq := s.rq.push h, out := s.rq.pushToks ++ s.out, pushes := s.pushes + 1 }

/-- `_queue.pop_front()` -/
def rqPop (s : State) : State :=
  { s with rq := s.rq.pop, out := s.rq.popToks ++ s.out, pops := s.pops + 1 }

/-- first use of `queue_impl::instance` on the thread: the deque is constructed (map + one node) -/
def rqTouch (s : State) : State :=
  if s.rq.built then s
  else { s with rq := { s.rq with built := true },
                out := [Tok.alloc .rq nodeBytes 0, Tok.alloc .rq (initMap * ptrBytes) 0] ++ s.out }

/-- thread exit: the deque is destroyed (its nodes, then the map) -/
def rqDestroy (s : State) : State :=
  if s.rq.built then
    { s with rq := { s.rq with built := false },
             out := Tok.free .rq (s.rq.mapSize * ptrBytes) ::
                    (List.replicate (s.rq.fN - s.rq.sN + 1) (Tok.free .rq nodeBytes) ++ s.out) }
  else s

def rqExit (s : State) : State := if s.fresh then rqDestroy s else s

def pushAll (s : State) : List Nat → State
  | [] => s
  | h :: hs => pushAll (rqPush s h) hs

/-- a suspend point dropped by code running inside a coroutine: `suspend_now()` with an active queue -/
def dropActive (s : State) : State := freeTmp (pushAll s s.tmp.handles)

/-! ### futures -/

/-- `resume_chain_lk`: walk the awaiter chain, collect coroutine handles in `tmp`, fire callbacks -/
def walk (s : State) (i : Nat) : List Waiter → State
  | [] => s
  | .coro j :: ws => walk (addTmpR s j) i ws
  | .cb :: ws => walk (emit s (Tok.cb i)) i ws
  | .sync :: ws => walk s i ws

def outcomeOf (i : Nat) : Kind → Outcome
  | .v => .value (100 + i)
  | .e => .exc
  | .d => .canceled

/-- set the result and resolve: `tmp` := the returned suspend point -/
def settle (s : State) (i : Nat) (o : Outcome) : State :=
  walk (setFut (clearTmp s) i { s.futs i with claimed := true, ready := true, outcome := o, chain := [] })
       i (s.futs i).chain

/-- `promise::operator()`: nothing happens when the promise was already claimed -/
def resolve (s : State) (i : Nat) (k : Kind) : State :=
  if (s.futs i).claimed then clearTmp s else settle s i (outcomeOf i k)

/-- `co_await F_i` did not find the result: subscribe -/
def subscribe (s : State) (i : Nat) (w : Waiter) : State :=
  setFut s i { s.futs i with chain := w :: (s.futs i).chain }

/-- the future was resolved without a value: by an exception, or its promise was dropped -/
def Outcome.bad : Outcome → Bool
  | .exc => true
  | .canceled => true
  | _ => false

/-- `future::value()` called by user code `who` (`await_resume` of `co_await F_i`, `F_i.wait()`): when the future holds no
value it throws (`rethrow_exception` / `throw await_canceled_exception()`), which allocates the exception object -/
def throwTo (s : State) (who : Option Nat) (i : Nat) : State :=
  if (s.futs i).outcome.bad then emit s (Tok.thrown who i) else s

/-! ### mutex -/

def clearOwn (s : State) (m : Nat) : Option Nat → State
  | some j => setOwns s j m false
  | none => s

/-- `unlock`: the releasing party gives the mutex to the first waiter; `tmp` := the returned suspend point -/
def handOver (s : State) (m : Nat) (who : Option Nat) : State :=
  match (s.mxs m).waiters with
  | [] => clearOwn (setMx (clearTmp s) m { owner := .free, waiters := [] }) m who
  | w :: ws => addTmp (setOwns (clearOwn (setMx (clearTmp s) m { owner := .coro w, waiters := ws }) m who) w m true) w

/-! ### generators -/

def genStep (g : Gen) : Gen × Option Nat :=
  if g.done then (g, none)
  else if g.next < g.n then ({ g with next := g.next + 1 }, some g.next)
  else ({ g with done := true }, none)

/-- a whole range-for pass (`begin()`, `operator++` until `end()`): steps until the generator reports no more items -/
def genAll (g : Gen) : Gen := if g.done then g else { g with next := max g.next g.n, done := true }

/-- number of items such a pass sees -/
def genLeft (g : Gen) : Nat := if g.done then 0 else g.n - g.next

/-- a step of generator `g` made by coroutine `j` through action `a` -/
def coGenStep (s : State) (j g : Nat) (a : Act) : State :=
  if (s.gens g).exist then setGen (emit s (.act j (.stepped a (genStep (s.gens g)).2))) g (genStep (s.gens g)).1
  else emit s (.act j (.nogen a))

/-! ### one action of a running coroutine; result: the coroutine that runs next on this stack (`none` = return to the resumer) -/

/-- `co_await` of the suspend point in `tmp` by coroutine `j` -/
def awaitTmp (s : State) (j : Nat) : State × Option Nat :=
  match s.tmp.handles.getLast? with
  | none => (freeTmp s, some j)
  | some o => (freeTmp (rqPush (pushAll s s.tmp.handles.dropLast) j), some o)

def actStep (s : State) (j : Nat) : Act → State × Option Nat
  | .await i =>
      if (s.futs i).alive && !(s.futs i).ready then
        (subscribe (setScript (emit s (.act j (.did (.await i)))) j (.resumed i :: (s.cos j).script)) i (.coro j), none)
      else if (s.futs i).alive then (throwTo (emit s (.act j (.did (.await i)))) (some j) i, some j)
      else (emit s (.act j (.did (.await i))), some j)
  | .resumed i => (throwTo s (some j) i, some j)
  | .res i k =>
      if (s.futs i).existed then (dropActive (resolve (emit s (.act j (.did (.res i k)))) i k), some j)
      else (emit s (.act j (.did (.res i k))), some j)
  | .resAw i k =>
      if (s.futs i).existed then awaitTmp (resolve (emit s (.act j (.did (.resAw i k)))) i k) j
      else (emit s (.act j (.did (.resAw i k))), some j)
  | .lock m =>
      if (s.cos j).owns m then (emit s (.act j (.did (.lock m))), some j)
      else match (s.mxs m).owner with
        | .free => (setOwns (setMx (emit s (.act j (.did (.lock m)))) m { s.mxs m with owner := .coro j }) j m true, some j)
        | _ => (setMx (emit s (.act j (.did (.lock m)))) m { s.mxs m with waiters := (s.mxs m).waiters ++ [j] }, none)
  | .unlock m =>
      if (s.cos j).owns m then (dropActive (handOver (emit s (.act j (.did (.unlock m)))) m (some j)), some j)
      else (emit s (.act j (.did (.unlock m))), some j)
  | .unlockAw m =>
      if (s.cos j).owns m then awaitTmp (handOver (emit s (.act j (.did (.unlockAw m)))) m (some j)) j
      else (emit s (.act j (.did (.unlockAw m))), some j)
  | .park => (setSt (emit s (.act j (.did .park))) j .parked, none)
  | .pause =>
      match (rqPush (emit s (.act j (.did .pause))) j).rq.items with
      | h :: _ => (rqPop (rqPush (emit s (.act j (.did .pause))) j), some h)
      | [] => (rqPush (emit s (.act j (.did .pause))) j, some j)
  | .gstep g => (coGenStep s j g (.gstep g), some j)
  | .gstepAw g => (coGenStep s j g (.gstepAw g), some j)

/-- destructor of the `ownership` local `own[m]` at the end of the body -/
def relOwned (s : State) (j m : Nat) : State :=
  if (s.cos j).owns m then dropActive (handOver s m (some j)) else s

/-- end of the script: the `end` token, `co_return`, destruction of the locals `own[1]`, `own[0]` -/
def finishPre (s : State) (j : Nat) : State :=
  relOwned (relOwned (setSt (emit s (.act j .fin)) j .done) j 1) j 0

/-- `final_awaiter::await_suspend` after the frame is gone: `return sp.pop()`, the rest goes to the queue -/
def transferTmp (s : State) : State × Option Nat :=
  match s.tmp.handles.getLast? with
  | none => (freeTmp s, none)
  | some o => (freeTmp (pushAll s s.tmp.handles.dropLast), some o)

/-- the script is exhausted: `co_return`, destruction of the locals, `final_suspend` -/
def finish (s : State) (j : Nat) : State × Option Nat :=
  match (s.cos j).bind with
  | none => (freeFrame (finishPre s j) (s.cos j).heap, none)
  | some i => transferTmp (freeFrame (settle (finishPre s j) i (.value (1000 + j))) (s.cos j).heap)

/-- resume coroutine `j` and follow the symmetric transfers until control returns to the resumer -/
def runCo : Nat → State → Nat → State
  | 0, s, _ => s
  | fuel + 1, s, j =>
      match (s.cos j).script with
      | [] =>
          match finish s j with
          | (s', some k) => runCo fuel s' k
          | (s', none) => s'
      | a :: rest =>
          match actStep (setScript s j rest) j a with
          | (s', some k) => runCo fuel s' k
          | (s', none) => s'

/-- `flush_queue()` -/
def flushQ : Nat → State → State
  | 0, s => s
  | fuel + 1, s =>
      match s.rq.items with
      | [] => s
      | h :: _ => flushQ fuel (runCo fuel (rqPop s) h)

def resumeAll (fuel : Nat) (s : State) : List Nat → State
  | [] => s
  | h :: hs => resumeAll fuel (runCo fuel s h) hs

/-- the suspend point in `tmp` is dropped by ordinary code: `suspend_now()` without an active queue -/
def dropNormal (fuel : Nat) (s : State) : State :=
  match s.tmp.handles with
  | [] => freeTmp s
  | h :: hs => freePend (flushQ fuel (resumeAll fuel (rqTouch (stashTmp s)) (h :: hs)))

/-- `coro_queue::resume(h)` from ordinary code -/
def resumeNormal (fuel : Nat) (s : State) (h : Nat) : State := flushQ fuel (runCo fuel (rqTouch s) h)

/-! ### operations of ordinary code -/

inductive Op where
  | fut (i : Nat)
  | res (i : Nat) (k : Kind)
  | resX (i : Nat)                   -- promise destructor
  | cb (i : Nat)
  | bs (i : Nat)
  | bw (i : Nat)
  | del (i : Nat)
  | co (j : Nat) (heap : Bool) (bind : Option Nat) (script : List Act)
  | tl (m : Nat)
  | ul (m : Nat)
  | sa (k j : Nat)
  | sp (k : Nat)
  | sf (k : Nat)
  | sm (k k2 : Nat)                  -- `S_k << std::move(S_k2)` / `S_k = std::move(S_k2)`
  | rm (k i : Nat) (kd : Kind)       -- `S_k << P_i(..)`: the result of a resolution is merged into `S_k`
  | bd (i size : Nat)                -- `B_i = P_i.bind(value of `size` bytes)`: the promise moves into the callable
  | bi (i : Nat)                     -- `B_i()`: resolve with the bound value
  | bx (i : Nat)                     -- destroy `B_i` (drops the promise if it was never invoked)
  | gen (g : Nat) (heap : Bool) (n : Nat)
  | gs (g : Nat) (viaFuture : Bool)
  | gr (g : Nat)                     -- `for (v : G_g)`: a whole range-for pass over whatever is left
  | gd (g : Nat)
  | fin
  deriving Inhabited

def markActive (s : State) : List Nat → State
  | [] => s
  | h :: hs => markActive (setSt s h .active) hs

def opCo (fuel : Nat) (s : State) (j : Nat) (heap : Bool) (bind : Option Nat) (script : List Act) : State :=
  match bind with
  | none =>
      dropNormal fuel (addTmp (clearTmp (setCo (allocFrame s heap) j
        { st := .active, heap := heap, bind := none, script := script })) j)
  | some i =>
      if (s.futs i).claimed then
        freeFrame (setCo (allocFrame s heap) j { st := .done, heap := heap, bind := none, script := script }) heap
      else
        dropNormal fuel (addTmp (clearTmp (setFut (setCo (allocFrame s heap) j
          { st := .active, heap := heap, bind := some i, script := script }) i { s.futs i with claimed := true })) j)

def drainMx (fuel : Nat) (s : State) (m : Nat) : State :=
  if (s.mxs m).owner = .main then dropNormal fuel (handOver (setMoved s true) m none) else s

def drainFut (fuel : Nat) (s : State) (i : Nat) : State :=
  if (s.futs i).existed && !(s.futs i).claimed then dropNormal fuel (resolve (setMoved s true) i .d) else s

/-- `B_i()`: the bound callable resolves the future with the bound value (once) -/
def callBound (fuel : Nat) (s : State) (i : Nat) : State :=
  match (s.futs i).bnd with
  | none => s
  | some true => dropNormal fuel (settle (setFut s i { s.futs i with bnd := some false }) i (.value (100 + i)))
  | some false => dropNormal fuel (clearTmp s)

/-- the bound callable is destroyed: `~promise` resolves without a value if the callable was never invoked -/
def killBound (fuel : Nat) (s : State) (i : Nat) : State :=
  match (s.futs i).bnd with
  | none => s
  | some true => dropNormal fuel (settle (setFut s i { s.futs i with bnd := none }) i .canceled)
  | some false => setFut s i { s.futs i with bnd := none }

def drainBnd (fuel : Nat) (s : State) (i : Nat) : State :=
  if (s.futs i).bnd.isSome then killBound fuel (setMoved s true) i else s

def drainCo (fuel : Nat) (s : State) (j : Nat) : State :=
  if (s.cos j).st = .parked then resumeNormal fuel (setSt (setMoved s true) j .active) j else s

def flushSp (fuel : Nat) (s : State) (k : Nat) : State :=
  dropNormal fuel (markActive (loadSp s k) (s.sps k).handles)

def drainSp (fuel : Nat) (s : State) (k : Nat) : State :=
  if (s.sps k).handles.isEmpty then s else flushSp fuel (setMoved s true) k

def drainRound (fuel : Nat) (s : State) : State :=
  (List.range nSp).foldl (drainSp fuel)
    ((List.range maxId).foldl (drainCo fuel)
      ((List.range maxId).foldl (drainBnd fuel)
        ((List.range maxId).foldl (drainFut fuel)
          ((List.range nMx).foldl (drainMx fuel) (setMoved s false)))))

def drain : Nat → Nat → State → State
  | 0, _, s => s
  | r + 1, fuel, s => if (drainRound fuel s).moved then drain r fuel (drainRound fuel s) else drainRound fuel s

def killGen (s : State) (g : Nat) : State :=
  if (s.gens g).exist then freeFrame (setGen s g { (s.gens g) with exist := false }) (s.gens g).heap else s

def opFin (fuel : Nat) (s : State) : State :=
  rqExit (killSp (killSp ((List.range maxId).foldl killGen (drain fuel fuel s)) 1) 0)

def bindOk (s : State) : Option Nat → Bool
  | some i => (s.futs i).existed
  | none => true

/-- ordinary code resumes the body of generator `g` (it is not done): the thread's queue is installed for the activation -/
def genTouch (s : State) (g : Nat) : State := if (s.gens g).done then s else rqTouch s

/-- one operation of ordinary code -/
def step (fuel : Nat) (s : State) : Op → State
  | .fut i => if (s.futs i).existed then s else setFut s i { existed := true, alive := true }
  | .res i k => if (s.futs i).existed then dropNormal fuel (resolve s i k) else s
  | .resX i => if (s.futs i).existed then dropNormal fuel (resolve s i .d) else s
  | .cb i => if (s.futs i).alive && !(s.futs i).ready then subscribe s i .cb else s
  | .bs i => if (s.futs i).alive && !(s.futs i).ready then subscribe s i .sync else s
  -- `F_i.wait()` by ordinary code: `value()` throws when the future holds no value
  | .bw i => if (s.futs i).alive && (s.futs i).ready then throwTo s none i else s
  | .del i => if (s.futs i).alive && (s.futs i).ready then setFut s i { s.futs i with alive := false } else s
  | .co j heap bind script =>
      if (s.cos j).st = .unborn && bindOk s bind then opCo fuel s j heap bind script
      else s
  | .tl m =>
      if (s.mxs m).owner = .free then setMx s m { s.mxs m with owner := .main } else s
  | .ul m => if (s.mxs m).owner = .main then dropNormal fuel (handOver s m none) else s
  | .sa k j => if (s.cos j).st = .parked then addSp (setSt s j (.insp k)) k j else s
  | .sp k =>
      match (s.sps k).handles.getLast? with
      | none => s
      | some h => resumeNormal fuel (setSt (popSp s k) h .active) h
  | .sf k => flushSp fuel s k
  | .sm k k2 => if k = k2 then s else mergeTmpInto (loadSp s k2) k
  | .rm k i kd => if (s.futs i).existed then mergeTmpInto (resolve s i kd) k else s
  | .bd i _ =>
      if (s.futs i).existed && (s.futs i).bnd.isNone then
        setFut s i { s.futs i with bnd := some (!(s.futs i).claimed), claimed := true }
      else s
  | .bi i => callBound fuel s i
  | .bx i => killBound fuel s i
  | .gen g heap n =>
      if (s.gens g).exist then s
      else setGen (allocFrame s heap) g { exist := true, heap := heap, next := 0, n := n, done := false }
  -- ordinary code steps the generator: `next_sync` / `next_future` resume its body under an installed queue (`resume_in_queue`,
  -- /repo fix 191263e), i.e. the first such step on a thread that never used its ready queue constructs the deque; a generator
  -- that is done is not resumed (`no_more_values`)
  | .gs g _ => if (s.gens g).exist then setGen (genTouch s g) g (genStep (s.gens g)).1 else s
  | .gr g => if (s.gens g).exist then setGen (genTouch s g) g (genAll (s.gens g)) else s
  | .gd g => killGen s g
  | .fin => opFin fuel s

/-- number of coroutines that were started and did not finish -/
def leftOf (s : State) : Nat :=
  ((List.range maxId).filter (fun j => (s.cos j).st != .unborn && (s.cos j).st != .done)).length

/-- run a whole program -/
def run (fuel : Nat) (fresh : Bool) (prog : List Op) : State := prog.foldl (step fuel) (init fresh)

def isEv : Tok → Bool
  | .alloc .. => true
  | .free .. => true
  | .thrown .. => true
  | _ => false

/-- the allocation log, oldest first -/
def allocLog (s : State) : List Tok := (s.out.filter isEv).reverse

end Cocls.Alloc
