import CoclsModel.Scheduler
/-!
Invariant of the scheduler model and its preservation by every step, for every heap implementation `H` that meets
the standard's contract (`HeapSpec`).  Helper lemmas for `Props/C12.lean`.
-/
namespace Cocls.Sched

/-- `std::is_heap` w.r.t. `compare_item` on the time points: every element is ≥ its parent -/
def HeapT (ts : List Nat) : Prop := ∀ j, 0 < j → j < ts.length → ts.getD ((j - 1) / 2) 0 ≤ ts.getD j 0

def IsHeap (l : List Entry) : Prop := HeapT (l.map (·.tp))

/-- the contract of the std heap algorithms ([alg.heap.operations]) -/
structure HeapSpec (H : Heap) : Prop where
  push_perm : ∀ l e, IsHeap l → (H.push (l ++ [e])).Perm (l ++ [e])
  push_heap : ∀ l e, IsHeap l → IsHeap (H.push (l ++ [e]))
  pop_perm : ∀ x l, IsHeap (x :: l) → (H.popItem (x :: l)).Perm l
  pop_heap : ∀ x l, IsHeap (x :: l) → IsHeap (H.popItem (x :: l))

theorem isHeap_nil : IsHeap [] := by
  intro j _ h; simp at h

theorem heapT_top_le {ts : List Nat} (h : HeapT ts) : ∀ j, j < ts.length → ts.getD 0 0 ≤ ts.getD j 0 := by
  intro j
  induction j using Nat.strongRecOn with
  | _ j ih =>
    intro hj
    by_cases h0 : j = 0
    · subst h0; exact Nat.le_refl _
    · have hp : (j - 1) / 2 < j := by omega
      have := ih _ hp (by omega)
      have := h j (by omega) hj
      omega

theorem top_min {x : Entry} {l : List Entry} (h : IsHeap (x :: l)) : ∀ y ∈ l, x.tp ≤ y.tp := by
  intro y hy
  obtain ⟨i, hi, rfl⟩ := List.mem_iff_getElem.mp hy
  have := heapT_top_le h (i + 1) (by simp; omega)
  simpa [List.getD_eq_getElem?_getD, hi] using this

theorem isHeap_congr {l l' : List Entry} (e : l'.map (·.tp) = l.map (·.tp)) (h : IsHeap l) : IsHeap l' := by
  unfold IsHeap; rw [e]; exact h

/-- serial numbers of the sleeps still pending in the vector -/
def aliveSerials (h : List Entry) : List Nat := (h.filter (·.alive)).map (·.serial)

def got (r : Option Entry) (i : Nat) : Nat :=
  match r with
  | some e => if i = e.serial then 1 else 0
  | none => 0

@[simp] theorem aliveSerials_nil : aliveSerials [] = [] := rfl
theorem aliveSerials_cons (x : Entry) (xs : List Entry) :
    aliveSerials (x :: xs) = if x.alive then x.serial :: aliveSerials xs else aliveSerials xs := by
  unfold aliveSerials
  by_cases h : x.alive <;> simp [h]

theorem aliveSerials_perm {a b : List Entry} (h : a.Perm b) (i : Nat) :
    (aliveSerials a).count i = (aliveSerials b).count i :=
  ((h.filter _).map _).count_eq i

/-- what one lock region may do to the vector: `h'` is a heap again, nothing live appears, at most the returned
entry `r` disappears from the live ones -/
structure Took (h h' : List Entry) (r : Option Entry) : Prop where
  heap : IsHeap h'
  sub : ∀ y ∈ h', y.alive = true → y ∈ h
  sup : ∀ y ∈ h, y.alive = true → y ∈ h' ∨ r = some y
  cnt : ∀ i, (aliveSerials h').count i + got r i = (aliveSerials h).count i
  mem : ∀ e, r = some e → e ∈ h ∧ e.alive = true
  tps : ∀ y ∈ h', ∃ y0 ∈ h, y0.tp = y.tp

theorem Took.refl {h : List Entry} (hh : IsHeap h) : Took h h none :=
  ⟨hh, fun _ hy _ => hy, fun _ hy _ => Or.inl hy, fun _ => by simp [got], fun _ he => (by cases he),
   fun y hy => ⟨y, hy, rfl⟩⟩

theorem Took.trans {h h1 h2 : List Entry} {r : Option Entry} (a : Took h h1 none) (b : Took h1 h2 r) :
    Took h h2 r := by
  refine ⟨b.heap, ?_, ?_, ?_, ?_, ?_⟩
  · intro y hy ha; exact a.sub y (b.sub y hy ha) ha
  · intro y hy ha
    rcases a.sup y hy ha with h1' | h1'
    · exact b.sup y h1' ha
    · cases h1'
  · intro i; have := a.cnt i; have := b.cnt i; simp only [got] at *; omega
  · intro e he
    obtain ⟨h1', h2'⟩ := b.mem e he
    exact ⟨a.sub e h1' h2', h2'⟩
  · intro y hy
    obtain ⟨y1, hy1, e1⟩ := b.tps y hy
    obtain ⟨y0, hy0, e0⟩ := a.tps y1 hy1
    exact ⟨y0, hy0, e0.trans e1⟩

theorem took_pop {H : Heap} (hH : HeapSpec H) {x : Entry} {xs : List Entry} (hh : IsHeap (x :: xs)) :
    Took (x :: xs) (H.popItem (x :: xs)) (if x.alive then some x else none) := by
  have hp := hH.pop_perm x xs hh
  refine ⟨hH.pop_heap x xs hh, ?_, ?_, ?_, ?_, ?_⟩
  · intro y hy _; exact List.mem_cons_of_mem _ (hp.mem_iff.mp hy)
  · intro y hy ha
    rcases List.mem_cons.mp hy with rfl | hy
    · right; simp [ha]
    · left; exact hp.mem_iff.mpr hy
  · intro i
    rw [aliveSerials_perm hp i, aliveSerials_cons]
    by_cases ha : x.alive
    · by_cases hi : i = x.serial
      · subst hi; simp [ha, got]
      · have : ¬ x.serial = i := fun h => hi h.symm
        simp [ha, got, hi, this]
    · simp [ha, got]
  · intro e he
    by_cases ha : x.alive
    · simp [ha] at he; subst he; exact ⟨List.mem_cons_self, ha⟩
    · simp [ha] at he
  · intro y hy; exact ⟨y, List.mem_cons_of_mem _ (hp.mem_iff.mp hy), rfl⟩

theorem popLoop_spec {H : Heap} (hH : HeapSpec H) (c : Entry → Bool) :
    ∀ (n : Nat) (h : List Entry), h.length ≤ n → IsHeap h →
      Took h (popLoop H c n h).1 (popLoop H c n h).2 ∧
      (∀ e, (popLoop H c n h).2 = some e → c e = true ∧ ∀ y ∈ (popLoop H c n h).1, e.tp ≤ y.tp) ∧
      ((popLoop H c n h).2 = none → ∀ x ∈ (popLoop H c n h).1.head?, c x = false) := by
  intro n
  induction n with
  | zero =>
    intro h hn hh
    have : h = [] := List.length_eq_zero_iff.mp (by omega)
    subst this
    simp [popLoop, Took.refl hh]
  | succ n ih =>
    intro h hn hh
    cases h with
    | nil => simp [popLoop, Took.refl hh]
    | cons x xs =>
      have hp := hH.pop_perm x xs hh
      have tk := took_pop hH hh
      by_cases hc : c x = true
      · by_cases ha : x.alive = true
        · simp only [popLoop, hc, ha, if_true] at tk ⊢
          refine ⟨tk, ?_, by simp⟩
          intro e he
          simp at he; subst he
          exact ⟨hc, fun y hy => top_min hh y (hp.mem_iff.mp hy)⟩
        · simp only [popLoop, hc, ha, if_true] at tk ⊢
          have hlen : (H.popItem (x :: xs)).length ≤ n := by
            rw [hp.length_eq]; simp at hn; omega
          obtain ⟨t1, t2, t3⟩ := ih _ hlen tk.heap
          simp only [Bool.false_eq_true, if_false] at tk ⊢
          exact ⟨tk.trans t1, t2, t3⟩
      · simp only [popLoop, hc]
        refine ⟨Took.refl hh, by simp, ?_⟩
        intro _ y hy
        simp at hy; subst hy; simpa using hc


theorem takeFirst_facts (id : Nat) (l : List Entry) :
    ((takeFirst id l).1.map (·.tp) = l.map (·.tp)) ∧
    (∀ y ∈ (takeFirst id l).1, y.alive = true → y ∈ l) ∧
    (∀ y ∈ l, y.alive = true → y ∈ (takeFirst id l).1 ∨ (takeFirst id l).2 = some y) ∧
    (∀ i, (aliveSerials (takeFirst id l).1).count i + got (takeFirst id l).2 i = (aliveSerials l).count i) ∧
    (∀ e, (takeFirst id l).2 = some e → e ∈ l ∧ e.alive = true ∧ e.id = id) ∧
    ((takeFirst id l).2 = none → ∀ y ∈ l, y.alive = true → y.id ≠ id) ∧
    (∀ y ∈ (takeFirst id l).1, ∃ y0 ∈ l, y0.tp = y.tp) := by
  induction l with
  | nil => simp [takeFirst, got]
  | cons x xs ih =>
    obtain ⟨i1, i2, i3, i4, i5, i6, i7⟩ := ih
    by_cases hc : x.id = id ∧ x.alive = true
    · simp only [takeFirst, hc, and_self, if_true]
      refine ⟨by simp, ?_, ?_, ?_, ?_, by simp, ?_⟩
      · intro y hy ha
        rcases List.mem_cons.mp hy with rfl | hy
        · simp at ha
        · exact List.mem_cons_of_mem _ hy
      · intro y hy _
        rcases List.mem_cons.mp hy with rfl | hy
        · right; rfl
        · left; exact List.mem_cons_of_mem _ hy
      · intro i
        rw [aliveSerials_cons, aliveSerials_cons]
        by_cases hi : i = x.serial
        · subst hi; simp [hc.2, got]
        · have : ¬ x.serial = i := fun h => hi h.symm
          simp [hc.2, got, hi, this]
      · intro e he
        simp at he; subst he
        exact ⟨List.mem_cons_self, hc.2, hc.1⟩
      · intro y hy
        rcases List.mem_cons.mp hy with rfl | hy
        · exact ⟨x, List.mem_cons_self, rfl⟩
        · exact ⟨y, List.mem_cons_of_mem _ hy, rfl⟩
    · simp only [takeFirst, hc, if_false]
      refine ⟨by simp [i1], ?_, ?_, ?_, ?_, ?_, ?_⟩
      · intro y hy ha
        rcases List.mem_cons.mp hy with rfl | hy
        · exact List.mem_cons_self
        · exact List.mem_cons_of_mem _ (i2 y hy ha)
      · intro y hy ha
        rcases List.mem_cons.mp hy with rfl | hy
        · left; exact List.mem_cons_self
        · rcases i3 y hy ha with h | h
          · left; exact List.mem_cons_of_mem _ h
          · right; exact h
      · intro i
        have := i4 i
        rw [aliveSerials_cons, aliveSerials_cons]
        by_cases ha : x.alive = true <;> simp [ha, List.count_cons] <;> omega
      · intro e he
        obtain ⟨a, b, c⟩ := i5 e he
        exact ⟨List.mem_cons_of_mem _ a, b, c⟩
      · intro hn y hy ha
        rcases List.mem_cons.mp hy with rfl | hy
        · intro hid; exact hc ⟨hid, ha⟩
        · exact i6 hn y hy ha
      · intro y hy
        rcases List.mem_cons.mp hy with rfl | hy
        · exact ⟨y, List.mem_cons_self, rfl⟩
        · obtain ⟨y0, hy0, e0⟩ := i7 y hy
          exact ⟨y0, List.mem_cons_of_mem _ hy0, e0⟩

theorem took_takeFirst (id : Nat) {l : List Entry} (hh : IsHeap l) :
    Took l (takeFirst id l).1 (takeFirst id l).2 := by
  obtain ⟨i1, i2, i3, i4, i5, _, i7⟩ := takeFirst_facts id l
  exact ⟨isHeap_congr i1 hh, i2, i3, i4, fun e he => ⟨(i5 e he).1, (i5 e he).2.1⟩, i7⟩

/-- `remove(id)` as a whole -/
theorem removeLk_spec {H : Heap} (hH : HeapSpec H) (id : Nat) {h : List Entry} (hh : IsHeap h) :
    Took h (removeLk H h id).1 (removeLk H h id).2 ∧
    (∀ e, (removeLk H h id).2 = some e → e.id = id) ∧
    ((removeLk H h id).2 = none → ∀ y ∈ h, y.alive = true → y.id ≠ id) := by
  obtain ⟨t1, t2, _⟩ := popLoop_spec hH (hasId id) h.length h (Nat.le_refl _) hh
  unfold removeLk
  cases hr : popLoop H (hasId id) h.length h with
  | mk h1 r =>
    rw [hr] at t1 t2
    cases r with
    | some e =>
      refine ⟨t1, ?_, by simp⟩
      intro e' he'
      simp at he'; subst he'
      simpa [hasId] using (t2 e rfl).1
    | none =>
      simp only at t1 ⊢
      obtain ⟨_, _, _, _, i5, i6, _⟩ := takeFirst_facts id h1
      refine ⟨t1.trans (took_takeFirst id t1.heap), fun e he => (i5 e he).2.2, ?_⟩
      intro hn y hy ha
      rcases t1.sup y hy ha with h' | h'
      · exact i6 hn y h' ha
      · cases h'

/-- `get_expired_lk(now)` as a whole -/
theorem getExpiredLk_spec {H : Heap} (hH : HeapSpec H) (now : Nat) {h : List Entry} (hh : IsHeap h) :
    Took h (getExpiredLk H h now).1 (getExpiredLk H h now).2 ∧
    (∀ e, (getExpiredLk H h now).2 = some e → e.tp ≤ now ∧ ∀ y ∈ h, y.alive = true → e.tp ≤ y.tp) ∧
    ((getExpiredLk H h now).2 = none →
      ∀ y ∈ h, y.alive = true → ∃ t, topTime (getExpiredLk H h now).1 = some t ∧ now < t ∧ t ≤ y.tp) ∧
    (∀ t, (getExpiredLk H h now).2 = none → topTime (getExpiredLk H h now).1 = some t →
      ∃ y ∈ h, y.alive = true ∧ y.tp = t) := by
  obtain ⟨t1, t2, t3⟩ := popLoop_spec hH (dueOrDead now) h.length h (Nat.le_refl _) hh
  unfold getExpiredLk
  cases hr : popLoop H (dueOrDead now) h.length h with
  | mk h1 r =>
    rw [hr] at t1 t2 t3
    simp only at t1 t2 t3 ⊢
    refine ⟨t1, ?_, ?_, ?_⟩
    · intro e he
      obtain ⟨c1, c2⟩ := t2 e he
      have hal := (t1.mem e he).2
      refine ⟨by simpa [dueOrDead, hal] using c1, ?_⟩
      intro y hy ha
      rcases t1.sup y hy ha with h' | h'
      · exact c2 y h'
      · rw [he] at h'; cases h'; exact Nat.le_refl _
    · intro hn y hy ha
      have hy1 : y ∈ h1 := by
        rcases t1.sup y hy ha with h' | h'
        · exact h'
        · rw [hn] at h'; cases h'
      cases h1 with
      | nil => cases hy1
      | cons x xs =>
        have hx := t3 hn x (by simp)
        simp [dueOrDead] at hx
        refine ⟨x.tp, rfl, hx.1, ?_⟩
        rcases List.mem_cons.mp hy1 with rfl | hy1
        · exact Nat.le_refl _
        · exact top_min t1.heap y hy1
    · intro t hn ht
      cases h1 with
      | nil => cases ht
      | cons x xs =>
        have hx := t3 hn x (by simp)
        simp [dueOrDead] at hx
        simp [topTime] at ht
        exact ⟨x, t1.sub x List.mem_cons_self hx.2, hx.2, ht⟩

/-! ## the invariant -/

/-- a parked worker's deadline `d` is not later than the time point `t` (`none` = `time_point::max()`) -/
def waitOk (d : Option Nat) (t : Nat) : Prop :=
  match d with
  | some x => x ≤ t
  | none => False

structure Inv (s : State) : Prop where
  heap_ok : IsHeap s.heap
  /-- every sleep is either still pending (once) or has completed (once) -/
  once : ∀ i, (aliveSerials s.heap).count i + (s.log.map (·.serial)).count i = if i < s.nextSerial then 1 else 0
  not_early : ∀ d ∈ s.log, ∀ now, d.fate = Fate.expired now → d.tp ≤ now
  stamp_le : ∀ d ∈ s.log, d.stamp ≤ s.nextSerial
  /-- whatever expired was not later than anything that was pending at that moment and still is -/
  ord_heap : ∀ d ∈ s.log, d.isExpired = true → ∀ y ∈ s.heap, y.alive = true → y.serial < d.stamp → d.tp ≤ y.tp
  ord_log : s.log.Pairwise (fun x y => x.isExpired = true → y.isExpired = true → y.serial < x.stamp → x.tp ≤ y.tp)
  /-- a parked worker's deadline is not later than any entry of the vector -/
  waits_ok : ∀ p ∈ s.waits, ∀ y ∈ s.heap, waitOk p.2 y.tp
  gone : s.alive = false → s.heap = []

theorem inv_init : Inv init := by
  refine ⟨isHeap_nil, ?_, ?_, ?_, ?_, ?_, ?_, ?_⟩ <;> simp [init]

/-- the log extension of one lock region -/
def logExt (r : Option Entry) (f : Fate) (stamp : Nat) : List Done :=
  match r with
  | some e => [mkDone e f stamp]
  | none => []

theorem isExpired_mkDone {e : Entry} {f : Fate} {n : Nat} (h : (mkDone e f n).isExpired = true) :
    ∃ now, f = Fate.expired now := by
  cases f <;> simp [mkDone, Done.isExpired] at h ⊢

/-- every lock region that only takes entries out of the vector (`get_expired`, `remove`, `cancel`, a worker
iteration) preserves the invariant -/
theorem inv_took {s : State} (hi : Inv s) (hal : s.alive = true) {h' : List Entry} {r : Option Entry}
    (tk : Took s.heap h' r) (f : Fate)
    (hexp : ∀ e now, r = some e → f = Fate.expired now →
      e.tp ≤ now ∧ ∀ y ∈ s.heap, y.alive = true → e.tp ≤ y.tp)
    (ws : List (Nat × Option Nat))
    (hws : ∀ p ∈ ws, p ∈ s.waits ∨ ∀ y ∈ h', waitOk p.2 y.tp) :
    Inv { s with heap := h', waits := ws, log := s.log ++ logExt r f s.nextSerial } := by
  obtain ⟨h1, h2, h3, h4, h5, h6, h7, h8⟩ := hi
  refine ⟨tk.heap, ?_, ?_, ?_, ?_, ?_, ?_, ?_⟩ <;> dsimp only
  · intro i
    have a := tk.cnt i
    have b := h2 i
    cases r with
    | none => simp only [logExt, got, List.append_nil] at *; omega
    | some e =>
      simp only [logExt, got, mkDone, List.map_append, List.map_cons, List.map_nil, List.count_append,
        List.count_cons, List.count_nil, beq_iff_eq] at *
      by_cases hie : i = e.serial
      · rw [if_pos hie] at a; rw [if_pos hie.symm]; omega
      · rw [if_neg hie] at a; rw [if_neg (fun h => hie h.symm)]; omega
  · intro d hd now hf
    rcases List.mem_append.mp hd with hd | hd
    · exact h3 d hd now hf
    · cases r with
      | none => simp [logExt] at hd
      | some e =>
        simp [logExt] at hd; subst hd
        exact (hexp e now rfl hf).1
  · intro d hd
    rcases List.mem_append.mp hd with hd | hd
    · exact h4 d hd
    · cases r with
      | none => simp [logExt] at hd
      | some e => simp [logExt] at hd; subst hd; simp [mkDone]
  · intro d hd hx y hy ha hlt
    rcases List.mem_append.mp hd with hd | hd
    · exact h5 d hd hx y (tk.sub y hy ha) ha hlt
    · cases r with
      | none => simp [logExt] at hd
      | some e =>
        simp [logExt] at hd; subst hd
        obtain ⟨now, hf⟩ := isExpired_mkDone hx
        exact (hexp e now rfl hf).2 y (tk.sub y hy ha) ha
  · rw [List.pairwise_append]
    refine ⟨h6, ?_, ?_⟩
    · cases r <;> simp [logExt]
    · intro x hx y hy hxe _ hlt
      cases r with
      | none => simp [logExt] at hy
      | some e =>
        simp [logExt] at hy; subst hy
        obtain ⟨hm, ha⟩ := tk.mem e rfl
        exact h5 x hx hxe e hm ha hlt
  · intro p hp y hy
    rcases hws p hp with hw | hw
    · obtain ⟨y0, hy0, e0⟩ := tk.tps y hy
      rw [← e0]; exact h7 p hw y0 hy0
    · exact hw y hy
  · intro h; rw [hal] at h; cases h

theorem mem_filter_waits {ws : List (Nat × Option Nat)} {w : Nat} {p : Nat × Option Nat}
    (h : p ∈ ws.filter (fun p => p.1 ≠ w)) : p ∈ ws := (List.mem_filter.mp h).1

theorem waitOk_topTime {h : List Entry} (hh : IsHeap h) : ∀ y ∈ h, waitOk (topTime h) y.tp := by
  intro y hy
  cases h with
  | nil => cases hy
  | cons x xs =>
    simp only [topTime, waitOk]
    rcases List.mem_cons.mp hy with rfl | hy
    · exact Nat.le_refl _
    · exact top_min hh y hy

theorem inv_getExpired {H : Heap} (hH : HeapSpec H) {s : State} (hi : Inv s) (hal : s.alive = true) (now : Nat) :
    Inv (stepGetExpired H s now).1 := by
  obtain ⟨t1, t2, _, _⟩ := getExpiredLk_spec hH now hi.heap_ok
  unfold stepGetExpired
  cases hr : getExpiredLk H s.heap now with
  | mk h r =>
    rw [hr] at t1 t2
    have := inv_took hi hal t1 (Fate.expired now)
      (fun e now' he hf => by cases hf; exact t2 e he) s.waits (fun p hp => Or.inl hp)
    cases r with
    | some e => simpa [logExt] using this
    | none => simpa [logExt] using this

theorem inv_poll {H : Heap} (hH : HeapSpec H) {s : State} (hi : Inv s) (hal : s.alive = true) (w now : Nat) :
    Inv (stepPoll H s w now).1 := by
  obtain ⟨t1, t2, _, _⟩ := getExpiredLk_spec hH now hi.heap_ok
  unfold stepPoll
  cases hr : getExpiredLk H s.heap now with
  | mk h r =>
    rw [hr] at t1 t2
    cases r with
    | some e =>
      have := inv_took hi hal t1 (Fate.expired now)
        (fun e now' he hf => by cases hf; exact t2 e he) (s.waits.filter (fun p => p.1 ≠ w))
        (fun p hp => Or.inl (mem_filter_waits hp))
      simpa [logExt] using this
    | none =>
      have := inv_took hi hal t1 (Fate.expired now)
        (fun e now' he hf => by cases he) (s.waits.filter (fun p => p.1 ≠ w) ++ [(w, topTime h)])
        (fun p hp => by
          rcases List.mem_append.mp hp with hp | hp
          · exact Or.inl (mem_filter_waits hp)
          · simp at hp; subst hp; exact Or.inr (waitOk_topTime t1.heap))
      simpa [logExt] using this

theorem inv_remove {H : Heap} (hH : HeapSpec H) {s : State} (hi : Inv s) (hal : s.alive = true) (id : Nat) :
    Inv (stepRemove H s id).1 := by
  obtain ⟨t1, _, _⟩ := removeLk_spec hH id hi.heap_ok
  unfold stepRemove
  cases hr : removeLk H s.heap id with
  | mk h r =>
    rw [hr] at t1
    have := inv_took hi hal t1 Fate.removed (fun e now' he hf => by cases hf) s.waits (fun p hp => Or.inl hp)
    cases r with
    | some e => simpa [logExt] using this
    | none => simpa [logExt] using this

theorem inv_cancel {H : Heap} (hH : HeapSpec H) {s : State} (hi : Inv s) (hal : s.alive = true) (id exc : Nat) :
    Inv (stepCancel H s id exc).1 := by
  obtain ⟨t1, _, _⟩ := removeLk_spec hH id hi.heap_ok
  unfold stepCancel
  cases hr : removeLk H s.heap id with
  | mk h r =>
    rw [hr] at t1
    have := inv_took hi hal t1 (Fate.cancelled exc) (fun e now' he hf => by cases hf) s.waits (fun p hp => Or.inl hp)
    cases r with
    | some e => simpa [logExt] using this
    | none => simpa [logExt] using this

theorem inv_wake {s : State} (hi : Inv s) (w : Nat) : Inv (stepWake s w).1 := by
  obtain ⟨h1, h2, h3, h4, h5, h6, h7, h8⟩ := hi
  exact ⟨h1, h2, h3, h4, h5, h6, fun p hp => h7 p (mem_filter_waits hp), h8⟩

theorem aliveSerials_append (a b : List Entry) : aliveSerials (a ++ b) = aliveSerials a ++ aliveSerials b := by
  simp [aliveSerials]

theorem inv_schedule {H : Heap} (hH : HeapSpec H) {s : State} (hi : Inv s) (hal : s.alive = true) (tp id : Nat) :
    Inv (stepSchedule H s tp id).1 := by
  obtain ⟨h1, h2, h3, h4, h5, h6, h7, h8⟩ := hi
  have hp := hH.push_perm s.heap { serial := s.nextSerial, tp := tp, id := id, alive := true } h1
  have hmem : ∀ y ∈ H.push (s.heap ++ [{ serial := s.nextSerial, tp := tp, id := id, alive := true }]),
      y ∈ s.heap ∨ y = { serial := s.nextSerial, tp := tp, id := id, alive := true } := by
    intro y hy
    have := hp.mem_iff.mp hy
    simpa using this
  unfold stepSchedule
  refine ⟨hH.push_heap _ _ h1, ?_, h3, ?_, ?_, h6, ?_, ?_⟩ <;> dsimp only
  · intro i
    rw [aliveSerials_perm hp i, aliveSerials_append]
    have a := h2 i
    have b := h2 s.nextSerial
    simp only [Nat.lt_irrefl, if_false] at b
    simp only [aliveSerials, List.filter_cons, List.filter_nil, if_true, List.map_cons, List.map_nil,
      List.count_append, List.count_cons, List.count_nil, beq_iff_eq] at *
    by_cases hie : i = s.nextSerial
    · subst hie
      simp only [if_true, Nat.lt_succ_self]
      omega
    · rw [if_neg (fun h => hie h.symm)]
      split <;> split at a <;> omega
  · intro d hd; have := h4 d hd; omega
  · intro d hd hx y hy ha hlt
    rcases hmem y hy with hy | hy
    · exact h5 d hd hx y hy ha hlt
    · subst hy
      have := h4 d hd
      simp at hlt; omega
  · intro p hp' y hy
    cases hheap : s.heap with
    | nil => simp [hheap] at hp'
    | cons x xs =>
      simp only [hheap] at hp'
      by_cases hgt : x.tp > tp
      · simp [hgt] at hp'
      · simp only [hgt, decide_false, Bool.false_eq_true, if_false] at hp'
        rcases hmem y hy with hy | hy
        · exact h7 p hp' y hy
        · subst hy
          have := h7 p hp' x (by rw [hheap]; exact List.mem_cons_self)
          cases hd : p.2 with
          | none => simp [hd, waitOk] at this
          | some d => simp only [hd, waitOk] at this ⊢; omega
  · intro h; rw [hal] at h; cases h

theorem map_serial_mkDone (l : List Entry) (f : Fate) (n : Nat) :
    (l.map (fun e => mkDone e f n)).map (·.serial) = l.map (·.serial) := by
  simp [mkDone]

theorem inv_destroy {s : State} (hi : Inv s) : Inv (stepDestroy s).1 := by
  obtain ⟨h1, h2, h3, h4, h5, h6, h7, h8⟩ := hi
  unfold stepDestroy
  refine ⟨isHeap_nil, ?_, ?_, ?_, ?_, ?_, ?_, ?_⟩ <;> dsimp only
  · intro i
    have a := h2 i
    simp only [aliveSerials, List.map_append, map_serial_mkDone, List.count_append, List.filter_nil,
      List.map_nil, List.count_nil] at *
    omega
  · intro d hd now hf
    rcases List.mem_append.mp hd with hd | hd
    · exact h3 d hd now hf
    · simp at hd
      obtain ⟨e, _, rfl⟩ := hd
      simp [mkDone] at hf
  · intro d hd
    rcases List.mem_append.mp hd with hd | hd
    · exact h4 d hd
    · simp at hd
      obtain ⟨e, _, rfl⟩ := hd
      simp [mkDone]
  · intro d _ _ y hy; cases hy
  · rw [List.pairwise_append]
    refine ⟨h6, ?_, ?_⟩
    · rw [List.pairwise_map]
      exact List.pairwise_of_forall (fun _ _ hx => by simp [mkDone, Done.isExpired] at hx)
    · intro x _ y hy _ hye
      simp at hy
      obtain ⟨e, _, rfl⟩ := hy
      simp [mkDone, Done.isExpired] at hye
  · intro p hp; cases hp
  · intro _; rfl

theorem inv_step {H : Heap} (hH : HeapSpec H) {s : State} (hi : Inv s) (op : Op) : Inv (step H s op).1 := by
  unfold step
  by_cases hal : s.alive = true
  · simp only [hal, if_true]
    cases op with
    | schedule tp id => exact inv_schedule hH hi hal tp id
    | getExpired now => exact inv_getExpired hH hi hal now
    | remove id => exact inv_remove hH hi hal id
    | cancel id exc => exact inv_cancel hH hi hal id exc
    | destroy => exact inv_destroy hi
    | poll w now => exact inv_poll hH hi hal w now
    | wake w => exact inv_wake hi w
  · simp only [hal]; exact hi

theorem inv_run {H : Heap} (hH : HeapSpec H) (ops : List Op) : ∀ {s : State}, Inv s → Inv (run H s ops) := by
  induction ops with
  | nil => intro s h; exact h
  | cons op ops ih => intro s h; exact ih (inv_step hH h op)

end Cocls.Sched

namespace Cocls.Sched.Stop

structure Inv (s : St) : Prop where
  excl : (s.sp = SPc.holding ∨ s.sp = SPc.notified) → s.w ≠ WPc.locked
  /-- once the notification is out the worker is not parked (and does not hold `_mx`): it is at the loop top, has left,
  or is resolving a promise with `_mx` released (from where its next step is the loop condition) -/
  after : (s.sp = SPc.notified ∨ s.sp = SPc.done) → (s.w = WPc.idle ∨ s.w = WPc.exited ∨ s.w = WPc.resolving)
  flagged : s.sp ≠ SPc.start → s.flag = true
  nogap : s.w ≠ WPc.gap        -- the repaired code has no unlock between the stop check and the wait

theorem inv_step (s s' : St) (a : Act) (h : Inv s) (hs : step s a = some s') : Inv s' := by
  obtain ⟨w, sp, flag⟩ := s
  obtain ⟨h1, h2, h3, h4⟩ := h
  cases a <;> cases w <;> cases sp <;> cases flag <;>
    simp [step, workerStep, wakeIfWaiting] at hs h1 h2 h3 h4 <;>
    (subst hs; constructor <;> simp)

theorem inv_run (acts : List Act) : ∀ s, Inv s → Inv (run step s acts) := by
  induction acts with
  | nil => intro s h; exact h
  | cons a acts ih =>
    intro s h
    simp only [run, List.foldl_cons]
    cases hs : step s a with
    | none => simpa [run] using ih s h
    | some s' => simpa [run] using ih s' (inv_step s s' a h hs)

end Cocls.Sched.Stop
