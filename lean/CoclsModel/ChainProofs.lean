import CoclsModel.Chain
/-!
Invariant of the micro-step chain model (`Chain.lean`: promise / future / awaiter chain) and its preservation by every
agent step, for every configuration (any number of resolver calls, destructor agents — plain `~promise` and
`~promise_with_default` — and waiters of every kind) and every schedule.  Helper lemmas for `Props/C01.lean` and `Props/C02.lean`.

Structure: counting functions over the walker's remaining actions (`cntW`, `cntO`), the invariant `Inv` (small
independent clauses), one preservation lemma per pc case of `astep` (closed by `inv_tac` = `grind` over the clause
list), `runActs` treated as an iteration of single actions (`runActs_ind`), `inv_astep`, `inv_run`, then the
step-level facts the property theorems are assembled from (`astep_stable`, `astep_winner`, `astep_obs`, `not_stuck`)
and the trace-level counts (`ret_count`, `obs_count`).
-/
set_option linter.unusedSimpArgs false
namespace Cocls.Chain

section

/-! ## projections of `setPc` and record updates -/
@[simp] theorem setPc_pc (s : State) (t : Nat) (p : Pc) : (setPc s t p).pc = upd s.pc t p := rfl
@[simp] theorem setPc_owner (s : State) (t : Nat) (p : Pc) : (setPc s t p).owner = s.owner := rfl
@[simp] theorem setPc_slot (s : State) (t : Nat) (p : Pc) : (setPc s t p).slot = s.slot := rfl
@[simp] theorem setPc_payload (s : State) (t : Nat) (p : Pc) : (setPc s t p).payload = s.payload := rfl
@[simp] theorem setPc_flag (s : State) (t : Nat) (p : Pc) : (setPc s t p).flag = s.flag := rfl
@[simp] theorem setPc_wins (s : State) (t : Nat) (p : Pc) : (setPc s t p).wins = s.wins := rfl
@[simp] theorem setPc_winner (s : State) (t : Nat) (p : Pc) : (setPc s t p).winner = s.winner := rfl
@[simp] theorem setPc_subscribed (s : State) (t : Nat) (p : Pc) : (setPc s t p).subscribed = s.subscribed := rfl
@[simp] theorem setPc_woken (s : State) (t : Nat) (p : Pc) : (setPc s t p).woken = s.woken := rfl
@[simp] theorem setPc_observed (s : State) (t : Nat) (p : Pc) : (setPc s t p).observed = s.observed := rfl

theorem upd_apply {α} (f : Nat → α) (i j : Nat) (v : α) : upd f i v j = if j = i then v else f j := rfl

theorem upd_upd {α} (f : Nat → α) (i : Nat) (v w : α) : upd (upd f i v) i w = upd f i w := by
  funext j; simp only [upd]; split <;> rfl

theorem upd_self {α} (f : Nat → α) (i : Nat) (v : α) (h : f i = v) : upd f i v = f := by
  funext j; simp only [upd]; split
  · subst_vars; rfl
  · rfl

/-! ## counting the walker's remaining work -/

/-- number of pending wake-ups (`store` / `wake`) of `x` -/
def cntW (x : Nat) : List Act → Nat
  | [] => 0
  | Act.store y :: r => (if y = x then 1 else 0) + cntW x r
  | Act.wake y :: r => (if y = x then 1 else 0) + cntW x r
  | Act.obsAfter _ _ :: r => cntW x r

/-- number of pending result reads the walker performs on behalf of `x` (`wake` / `obsAfter`) -/
def cntO (x : Nat) : List Act → Nat
  | [] => 0
  | Act.store _ :: r => cntO x r
  | Act.wake y :: r => (if y = x then 1 else 0) + cntO x r
  | Act.obsAfter y _ :: r => (if y = x then 1 else 0) + cntO x r

@[simp] theorem cntW_nil (x) : cntW x [] = 0 := rfl
@[simp] theorem cntO_nil (x) : cntO x [] = 0 := rfl
@[simp] theorem cntW_store (x y r) : cntW x (Act.store y :: r) = (if y = x then 1 else 0) + cntW x r := rfl
@[simp] theorem cntW_wake (x y r) : cntW x (Act.wake y :: r) = (if y = x then 1 else 0) + cntW x r := rfl
@[simp] theorem cntW_obs (x y sn r) : cntW x (Act.obsAfter y sn :: r) = cntW x r := rfl
@[simp] theorem cntO_store (x y r) : cntO x (Act.store y :: r) = cntO x r := rfl
@[simp] theorem cntO_wake (x y r) : cntO x (Act.wake y :: r) = (if y = x then 1 else 0) + cntO x r := rfl
@[simp] theorem cntO_obs (x y sn r) : cntO x (Act.obsAfter y sn :: r) = (if y = x then 1 else 0) + cntO x r := rfl

theorem cntW_append (x a b) : cntW x (a ++ b) = cntW x a + cntW x b := by
  induction a with
  | nil => simp
  | cons h r ih => cases h <;> simp [ih] <;> omega

theorem cntO_append (x a b) : cntO x (a ++ b) = cntO x a + cntO x b := by
  induction a with
  | nil => simp
  | cons h r ih => cases h <;> simp [ih] <;> omega

theorem cntW_map_filter (x : Nat) (p : Nat → Bool) (f : Nat → Act)
    (hf : ∀ y r, cntW x (f y :: r) = (if y = x then 1 else 0) + cntW x r) (l : List Nat) :
    cntW x ((l.filter p).map f) = if p x then l.count x else 0 := by
  induction l with
  | nil => simp
  | cons h r ih =>
    rw [List.filter_cons]
    by_cases hp : p h = true
    · rw [if_pos hp, List.map_cons, hf, ih, List.count_cons]
      by_cases hx : h = x
      · subst hx; simp [hp]; omega
      · simp [hx]
    · rw [if_neg hp, ih, List.count_cons]
      by_cases hx : h = x
      · subst hx; simp [hp]
      · simp [hx]

theorem cntO_map_filter (x : Nat) (p : Nat → Bool) (f : Nat → Act) (g : Nat → Bool)
    (hf : ∀ y r, cntO x (f y :: r) = (if y = x ∧ g y then 1 else 0) + cntO x r) (l : List Nat) :
    cntO x ((l.filter p).map f) = if p x ∧ g x then l.count x else 0 := by
  induction l with
  | nil => simp
  | cons h r ih =>
    rw [List.filter_cons]
    by_cases hp : p h = true
    · rw [if_pos hp, List.map_cons, hf, ih, List.count_cons]
      by_cases hx : h = x
      · subst hx; simp [hp]; split <;> omega
      · simp [hx]
    · rw [if_neg hp, ih, List.count_cons]
      by_cases hx : h = x
      · subst hx; simp [hp]
      · simp [hx]

/-! ### the order in which an awaited suspend point resumes its handles is a permutation of the collected ones -/

theorem awaitOrder_perm (l : List Nat) : (awaitOrder l).Perm l := by
  unfold awaitOrder
  cases h : l.getLast? with
  | none =>
    have : l = [] := List.getLast?_eq_none_iff.mp h
    subst this; exact List.Perm.refl _
  | some x =>
    obtain ⟨ys, e⟩ := List.getLast?_eq_some_iff.mp h
    subst e
    show (x :: (ys ++ [x]).dropLast).Perm (ys ++ [x])
    rw [List.dropLast_concat]
    exact (List.perm_append_singleton x ys).symm

/-- `h1 … hk, y` awaited: `y` first, then `h1 … hk` -/
theorem awaitOrder_snoc (r : List Nat) (y : Nat) : awaitOrder (r ++ [y]) = y :: r := by
  unfold awaitOrder
  simp

theorem resumeOrder_perm (c : Cfg) (t : Nat) (l : List Nat) : (resumeOrder c t l).Perm l := by
  unfold resumeOrder
  split
  · exact awaitOrder_perm l
  · exact List.Perm.refl _

theorem resumeOrder_mem (c : Cfg) (t : Nat) (l : List Nat) (x : Nat) : x ∈ resumeOrder c t l ↔ x ∈ l :=
  (resumeOrder_perm c t l).mem_iff

theorem cntW_wake_perm (x : Nat) {l1 l2 : List Nat} (h : l1.Perm l2) :
    cntW x (l1.map Act.wake) = cntW x (l2.map Act.wake) := by
  induction h with
  | nil => rfl
  | cons a _ ih => simp [ih]
  | swap a b l => simp; omega
  | trans _ _ ih1 ih2 => exact ih1.trans ih2

theorem cntO_wake_perm (x : Nat) {l1 l2 : List Nat} (h : l1.Perm l2) :
    cntO x (l1.map Act.wake) = cntO x (l2.map Act.wake) := by
  induction h with
  | nil => rfl
  | cons a _ ih => simp [ih]
  | swap a b l => simp; omega
  | trans _ _ ih1 ih2 => exact ih1.trans ih2

theorem cntW_buildActs (c : Cfg) (t x : Nat) (l : List Nat) : cntW x (buildActs c t l) = l.count x := by
  unfold buildActs
  rw [cntW_append, cntW_wake_perm x (resumeOrder_perm c t _), cntW_map_filter, cntW_map_filter]
  · by_cases h1 : wkOf c x = WK.sync <;> by_cases h2 : wkOf c x = WK.cb <;> simp [h1, h2]
  · intro y r; rfl
  · intro y r; split <;> rfl

theorem cntO_buildActs (c : Cfg) (t x : Nat) (l : List Nat) :
    cntO x (buildActs c t l) = if wkOf c x = WK.sync then 0 else l.count x := by
  unfold buildActs
  rw [cntO_append, cntO_wake_perm x (resumeOrder_perm c t _),
    cntO_map_filter (g := fun y => wkOf c y ≠ WK.sync), cntO_map_filter (g := fun _ => true)]
  · by_cases h1 : wkOf c x = WK.sync <;> by_cases h2 : wkOf c x = WK.cb <;> simp [h1, h2]
  · intro y r; simp
  · intro y r; by_cases h1 : wkOf c y = WK.sync <;> simp [h1]

/-! ## the invariant -/

/-- class of an agent: 0 = resolver call, 1 = destructor (`~promise`), 2 = waiter,
3 = destructor of a `promise_with_default` -/
def Kind.cls : Kind → Nat
  | Kind.res _ => 0
  | Kind.dtor => 1
  | Kind.wait _ => 2
  | Kind.ddef _ => 3

/-- the payload an agent delivers if it wins -/
def winPayload (c : Cfg) (t : Nat) : Outcome :=
  match c.kind t with
  | Kind.res k => k.payload
  | Kind.ddef v => Outcome.val v
  | _ => Outcome.none

/-- `x` is a waiter agent of the configuration -/
def isW (c : Cfg) (x : Nat) : Bool := decide (x < c.n) && decide ((c.kind x).cls = 2)

/-- program counters agent `t` can be at, given its kind -/
def pcOK (c : Cfg) (t : Nat) : Pc → Prop
  | Pc.rClaim => (c.kind t).cls = 0
  | Pc.rFinLost => (c.kind t).cls = 0
  | Pc.rResolve dt => if dt = true then (c.kind t).cls = 1 else ((c.kind t).cls = 0 ∨ (c.kind t).cls = 3)
  | Pc.rRun dt _ => if dt = true then (c.kind t).cls = 1 else ((c.kind t).cls = 0 ∨ (c.kind t).cls = 3)
  | Pc.dArrive => (c.kind t).cls = 1 ∨ (c.kind t).cls = 3
  | Pc.dBlocked => (c.kind t).cls = 1 ∨ (c.kind t).cls = 3
  | Pc.dFin => (c.kind t).cls = 1 ∨ (c.kind t).cls = 3
  | Pc.dLoad => (c.kind t).cls = 3
  | Pc.wLoad => (c.kind t).cls = 2
  | Pc.wCas _ => (c.kind t).cls = 2
  | Pc.wRead => (c.kind t).cls = 2
  | Pc.wRead2 _ => (c.kind t).cls = 2
  | Pc.wFinParked => (c.kind t).cls = 2 ∧ wkOf c t ≠ WK.sync
  | Pc.wWait => (c.kind t).cls = 2 ∧ wkOf c t = WK.sync
  | Pc.wBlocked => (c.kind t).cls = 2 ∧ wkOf c t = WK.sync
  | Pc.done => True

def passed : Pc → Bool
  | Pc.rFinLost => true
  | Pc.rResolve _ => true
  | Pc.rRun _ _ => true
  | Pc.dFin => true
  | Pc.dLoad => true
  | _ => false

/-- the waiter itself still has to read the result -/
def selfP : Pc → Nat
  | Pc.wLoad => 1
  | Pc.wCas _ => 1
  | Pc.wWait => 1
  | Pc.wBlocked => 1
  | Pc.wRead => 1
  | Pc.wRead2 _ => 1
  | _ => 0

def actsOf : Pc → List Act
  | Pc.rRun _ a => a
  | _ => []

def isResolve : Pc → Bool
  | Pc.rResolve _ => true
  | _ => false

def isRun : Pc → Bool
  | Pc.rRun _ _ => true
  | _ => false

def afterWait : Pc → Bool
  | Pc.wRead => true
  | Pc.wRead2 _ => true
  | Pc.done => true
  | _ => false

def ActOK (c : Cfg) : Act → Prop
  | Act.store x => wkOf c x = WK.sync
  | Act.wake x => wkOf c x ≠ WK.sync
  | Act.obsAfter x seen => wkOf c x ≠ WK.sync ∧ seen = Seen.ready

def ActsOK (c : Cfg) : List Act → Prop
  | [] => True
  | a :: r => ActOK c a ∧ ActsOK c r

theorem actsOK_iff (c : Cfg) (l : List Act) : ActsOK c l ↔ ∀ a ∈ l, ActOK c a := by
  induction l with
  | nil => simp [ActsOK]
  | cons h r ih => simp [ActsOK, ih]

/-- The inductive invariant of the chain model.  Phases: nobody has claimed (`owner`, `wins = 0`) → the winner is at
`rResolve` (slot still a chain, payload still empty) → the winner walks (`rRun`, slot `ready`, payload final) → the
winner is `done`.  The counting clauses say where each subscribed waiter's pending release (`…W`) and each waiter
agent's pending result read (`…O`) currently sits: in the chain, in the walker's remaining actions, with the waiter
itself (`selfP`), or already performed (`woken` / `observed`) — always exactly one place. -/
structure Inv (c : Cfg) (s : State) : Prop where
  /-- owner pointer still set: nobody has won -/
  own_t : s.owner = true → s.wins = 0 ∧ s.winner = none
  /-- owner pointer taken: exactly one win, by a recorded winner -/
  own_f : s.owner = false → s.wins = 1 ∧ ∃ w, s.winner = some w
  /-- indices outside the configuration are not agents -/
  range : ∀ t, c.n ≤ t → s.pc t = Pc.done
  /-- an agent's pc fits its kind -/
  kindpc : ∀ t, pcOK c t (s.pc t)
  /-- whoever is past its claim / owner load (or is a finished resolving agent) has seen to it that the owner is taken -/
  claimed : ∀ t, passed (s.pc t) = true ∨ (t < c.n ∧ (c.kind t).cls ≠ 2 ∧ s.pc t = Pc.done) → s.owner = false
  /-- the winner is a resolving agent, resolving, walking or finished (`dFin`: a `promise_with_default` after its walk) -/
  winpc : ∀ w, s.winner = some w → w < c.n ∧ (c.kind w).cls ≠ 2
      ∧ (isResolve (s.pc w) = true ∨ isRun (s.pc w) = true ∨ s.pc w = Pc.done ∨ s.pc w = Pc.dFin)
  /-- only the winner is ever at `rResolve` / `rRun`: at most one active resolver, at most one walker -/
  active : ∀ t, isResolve (s.pc t) = true ∨ isRun (s.pc t) = true → s.winner = some t
  /-- before the exchange: nothing stored, nobody released, a winner (if any) is still at `rResolve` -/
  chain_phase : ∀ l, s.slot = Slot.chain l → s.payload = Outcome.none ∧ (∀ x, s.woken x = 0 ∧ s.flag x = false)
      ∧ ∀ w, s.winner = some w → isResolve (s.pc w) = true
  /-- after the exchange: the winner is past `rResolve` and the payload is the winner's -/
  ready_phase : s.slot = Slot.ready → ∃ w, s.winner = some w ∧ isResolve (s.pc w) = false ∧ s.payload = winPayload c w
  /-- the chain is exactly the set of subscribed waiters, without duplicates -/
  chainW : ∀ l, s.slot = Slot.chain l → ∀ x, l.count x = if s.subscribed x = true then 1 else 0
  /-- every waiter agent's result read is pending in exactly one place (chain phase) -/
  chainO : ∀ l, s.slot = Slot.chain l → ∀ x,
      s.observed x + selfP (s.pc x) + (if wkOf c x = WK.sync then 0 else l.count x) = if isW c x = true then 1 else 0
  /-- every subscribed waiter is either released once or has exactly one pending `store` / `wake` with the walker -/
  readyW : s.slot = Slot.ready → ∀ w, s.winner = some w → ∀ x,
      s.woken x + cntW x (actsOf (s.pc w)) = if s.subscribed x = true then 1 else 0
  /-- every waiter agent's result read is pending in exactly one place (ready phase) -/
  readyO : s.slot = Slot.ready → ∀ w, s.winner = some w → ∀ x,
      s.observed x + selfP (s.pc x) + cntO x (actsOf (s.pc w)) = if isW c x = true then 1 else 0
  /-- where a subscribed waiter can be -/
  sub : ∀ x, s.subscribed x = true → isW c x = true ∧
      (if wkOf c x = WK.sync then
          (s.pc x = Pc.wWait ∨ s.pc x = Pc.wBlocked ∨ (s.flag x = true ∧ afterWait (s.pc x) = true))
       else (s.pc x = Pc.wFinParked ∨ s.pc x = Pc.done))
  /-- parked pcs are reached only through a successful subscription -/
  parked : ∀ x, s.pc x = Pc.wWait ∨ s.pc x = Pc.wBlocked ∨ s.pc x = Pc.wFinParked → s.subscribed x = true
  /-- a blocking waiter's flag is set exactly when it has been released -/
  flag_iff : ∀ x, s.flag x = true ↔ (wkOf c x = WK.sync ∧ 1 ≤ s.woken x)
  /-- the walker's actions fit the waiters' kinds; a recorded `pending()` load saw `ready` -/
  actsok : ∀ t, ActsOK c (actsOf (s.pc t))
  /-- a waiter reads the result only when the slot is `ready` -/
  reader : ∀ t, (s.pc t = Pc.wRead → s.slot = Slot.ready) ∧ ∀ seen, s.pc t = Pc.wRead2 seen → seen = Seen.ready ∧ s.slot = Slot.ready

theorem inv_init (c : Cfg) : Inv c (init c) := by
  refine ⟨?_, ?_, ?_, ?_, ?_, ?_, ?_, ?_, ?_, ?_, ?_, ?_, ?_, ?_, ?_, ?_, ?_, ?_⟩ <;> simp only [init]
  · simp
  · simp
  · intro t ht; simp; omega
  · intro t; split
    · cases hk : c.kind t <;> simp [initPc, pcOK, Kind.cls, hk]
    · simp [pcOK]
  · intro t; split <;> cases c.kind t <;> simp [initPc, passed] <;> omega
  · simp
  · intro t; split <;> cases c.kind t <;> simp [initPc, isResolve, isRun]
  · simp
  · simp
  · simp
  · intro l hl x
    injection hl with hl; subst hl
    by_cases hx : x < c.n <;> cases hk : c.kind x <;> simp [hx, hk, initPc, selfP, isW, Kind.cls]
  · simp
  · simp
  · simp
  · intro x; split <;> cases c.kind x <;> simp [initPc]
  · simp
  · intro t; split <;> cases c.kind t <;> simp [initPc, actsOf, ActsOK]
  · intro t; split <;> cases c.kind t <;> simp [initPc]

end

section

theorem slot_cases (s : State) : s.slot = Slot.ready ∨ ∃ l, s.slot = Slot.chain l := by
  cases s.slot <;> simp

macro "inv_tac" h:ident : tactic => `(tactic| (
  obtain ⟨h1, h2, h3, h4, h5, h6, h7, h8, h9, h10, h11, h12, h13, h14, h15, h16, h17, h18⟩ := $h
  refine ⟨?_, ?_, ?_, ?_, ?_, ?_, ?_, ?_, ?_, ?_, ?_, ?_, ?_, ?_, ?_, ?_, ?_, ?_⟩ <;> simp only [setPc_pc, setPc_owner, setPc_slot, setPc_payload, setPc_flag, setPc_wins, setPc_winner, setPc_subscribed, setPc_woken, setPc_observed]
  all_goals grind [slot_cases, cntW, cntO, ActOK, ActsOK, Slot.seen, upd, pcOK, passed, isResolve, isRun, selfP, actsOf, afterWait, isW]))

variable (c : Cfg) (s : State) (t : Nat)

theorem inv_rClaim_win (h : Inv c s) (hpc : s.pc t = Pc.rClaim) (ho : s.owner = true) :
    Inv c { setPc s t (Pc.rResolve false) with owner := false, wins := s.wins + 1, winner := some t } := by
  inv_tac h

theorem inv_rClaim_lose (h : Inv c s) (hpc : s.pc t = Pc.rClaim) (ho : s.owner = false) :
    Inv c (setPc s t Pc.rFinLost) := by
  inv_tac h

theorem inv_rFinLost (h : Inv c s) (hpc : s.pc t = Pc.rFinLost) : Inv c (setPc s t Pc.done) := by
  inv_tac h

theorem inv_dArrive_win (h : Inv c s) (hpc : s.pc t = Pc.dArrive) (ho : s.owner = true) (hk : (c.kind t).cls = 1) :
    Inv c { setPc s t (Pc.rResolve true) with owner := false, wins := s.wins + 1, winner := some t } := by
  inv_tac h

theorem inv_dArrive_lose (h : Inv c s) (hpc : s.pc t = Pc.dArrive) (ho : s.owner = false) :
    Inv c (setPc s t Pc.dFin) := by
  inv_tac h

theorem inv_dArrive_dwin (h : Inv c s) (hpc : s.pc t = Pc.dArrive) (ho : s.owner = true) (hk : (c.kind t).cls = 3) :
    Inv c { setPc s t (Pc.rResolve false) with owner := false, wins := s.wins + 1, winner := some t } := by
  inv_tac h

theorem inv_dArrive_dlose (h : Inv c s) (hpc : s.pc t = Pc.dArrive) (ho : s.owner = false) (hk : (c.kind t).cls = 3) :
    Inv c (setPc s t Pc.dLoad) := by
  inv_tac h

theorem inv_dArrive_block (h : Inv c s) (hpc : s.pc t = Pc.dArrive) : Inv c (setPc s t Pc.dBlocked) := by
  inv_tac h

theorem inv_dBlocked_win (h : Inv c s) (hpc : s.pc t = Pc.dBlocked) (ho : s.owner = true) (hk : (c.kind t).cls = 1) :
    Inv c { setPc s t (Pc.rResolve true) with owner := false, wins := s.wins + 1, winner := some t } := by
  inv_tac h

theorem inv_dBlocked_lose (h : Inv c s) (hpc : s.pc t = Pc.dBlocked) (ho : s.owner = false) :
    Inv c (setPc s t Pc.dFin) := by
  inv_tac h

theorem inv_dBlocked_dwin (h : Inv c s) (hpc : s.pc t = Pc.dBlocked) (ho : s.owner = true) (hk : (c.kind t).cls = 3) :
    Inv c { setPc s t (Pc.rResolve false) with owner := false, wins := s.wins + 1, winner := some t } := by
  inv_tac h

theorem inv_dBlocked_dlose (h : Inv c s) (hpc : s.pc t = Pc.dBlocked) (ho : s.owner = false) (hk : (c.kind t).cls = 3) :
    Inv c (setPc s t Pc.dLoad) := by
  inv_tac h

/-- the base destructor after a lost claim: the owner pointer is null, nothing to resolve -/
theorem inv_dLoad (h : Inv c s) (hpc : s.pc t = Pc.dLoad) : Inv c (setPc s t Pc.dFin) := by
  inv_tac h

theorem owner_of_dLoad (h : Inv c s) (hpc : s.pc t = Pc.dLoad) : s.owner = false :=
  h.claimed t (Or.inl (by simp [hpc, passed]))

theorem inv_dFin (h : Inv c s) (hpc : s.pc t = Pc.dFin) : Inv c (setPc s t Pc.done) := by
  inv_tac h

end

section
variable (c : Cfg) (s : State) (t : Nat)

theorem inv_wLoad_ready (h : Inv c s) (hpc : s.pc t = Pc.wLoad) (hs : s.slot = Slot.ready) :
    Inv c (setPc s t Pc.wRead) := by
  inv_tac h

theorem inv_wLoad_chain (h : Inv c s) (hpc : s.pc t = Pc.wLoad) (e : Seen) :
    Inv c (setPc s t (Pc.wCas e)) := by
  inv_tac h

theorem inv_wCas_ready (h : Inv c s) (e : Seen) (hpc : s.pc t = Pc.wCas e) (hs : s.slot = Slot.ready) :
    Inv c (setPc s t Pc.wRead) := by
  inv_tac h

theorem inv_wCas_ok (exp : Seen) (l : List Nat) (h : Inv c s)
    (hpc : s.pc t = Pc.wCas exp) (hs : s.slot = Slot.chain l) :
    Inv c { setPc s t (if wkOf c t = WK.sync then Pc.wWait else Pc.wFinParked) with
                slot := Slot.chain (t :: l), subscribed := upd s.subscribed t true } := by
  inv_tac h

theorem inv_wCas_retry (h : Inv c s) (e e' : Seen) (hpc : s.pc t = Pc.wCas e) :
    Inv c (setPc s t (Pc.wCas e')) := by
  inv_tac h

theorem inv_wFinParked (h : Inv c s) (hpc : s.pc t = Pc.wFinParked) : Inv c (setPc s t Pc.done) := by
  inv_tac h

theorem inv_wWait_pass (h : Inv c s) (hpc : s.pc t = Pc.wWait) (hf : s.flag t = true) :
    Inv c (setPc s t Pc.wRead) := by
  inv_tac h

theorem inv_wWait_block (h : Inv c s) (hpc : s.pc t = Pc.wWait) : Inv c (setPc s t Pc.wBlocked) := by
  inv_tac h

theorem inv_wBlocked (h : Inv c s) (hpc : s.pc t = Pc.wBlocked) (hf : s.flag t = true) :
    Inv c (setPc s t Pc.wRead) := by
  inv_tac h

theorem inv_wRead_load (h : Inv c s) (hpc : s.pc t = Pc.wRead) :
    Inv c (setPc s t (Pc.wRead2 s.slot.seen)) := by
  have hs : s.slot = Slot.ready := (h.reader t).1 hpc
  rw [hs]; simp only [Slot.seen]
  inv_tac h

theorem inv_wRead_fin (h : Inv c s) (hpc : s.pc t = Pc.wRead) :
    Inv c { setPc s t Pc.done with observed := upd s.observed t (s.observed t + 1) } := by
  inv_tac h

theorem inv_wRead2 (h : Inv c s) (e : Seen) (hpc : s.pc t = Pc.wRead2 e) :
    Inv c { setPc s t Pc.done with observed := upd s.observed t (s.observed t + 1) } := by
  inv_tac h

end

section
variable (c : Cfg) (s : State) (t : Nat)

theorem actOK_buildActs (l : List Nat) : ∀ a ∈ buildActs c t l, ActOK c a := by
  intro a ha
  simp only [buildActs, List.mem_append, List.mem_map, resumeOrder_mem, List.mem_filter] at ha
  rcases ha with ⟨x, ⟨_, hx⟩, rfl⟩ | ⟨x, ⟨_, hx⟩, rfl⟩
  · by_cases h1 : wkOf c x = WK.sync <;> simp [h1, ActOK]
  · simp only [decide_not, Bool.not_eq_eq_eq_not, Bool.not_true, decide_eq_false_iff_not, not_or] at hx
    have := of_decide_eq_true hx
    simp [ActOK, this.1]

theorem inv_rResolve (h : Inv c s) (dt : Bool) (l : List Nat) (hpc : s.pc t = Pc.rResolve dt) (hs : s.slot = Slot.chain l) :
    Inv c { setPc s t (Pc.rRun dt (buildActs c t l)) with payload := winPayload c t, slot := Slot.ready } := by
  have hA := (actsOK_iff c _).2 (actOK_buildActs c t l)
  have hW := fun x => cntW_buildActs c t x l
  have hO := fun x => cntO_buildActs c t x l
  generalize buildActs c t l = acts at *
  inv_tac h

end
section
variable (c : Cfg) (s : State) (t : Nat)

theorem inv_run_store (h : Inv c s) (dt : Bool) (x : Nat) (rest : List Act) (hpc : s.pc t = Pc.rRun dt (Act.store x :: rest)) :
    Inv c (setPc { s with flag := upd s.flag x true, woken := upd s.woken x (s.woken x + 1) } t (Pc.rRun dt rest)) := by
  inv_tac h

theorem inv_run_wakeL (h : Inv c s) (dt : Bool) (x : Nat) (rest : List Act) (hpc : s.pc t = Pc.rRun dt (Act.wake x :: rest)) :
    Inv c (setPc { s with woken := upd s.woken x (s.woken x + 1) } t (Pc.rRun dt (Act.obsAfter x s.slot.seen :: rest))) := by
  inv_tac h

theorem inv_run_wakeN (h : Inv c s) (dt : Bool) (x : Nat) (rest : List Act) (hpc : s.pc t = Pc.rRun dt (Act.wake x :: rest)) :
    Inv c (setPc { s with woken := upd s.woken x (s.woken x + 1), observed := upd s.observed x (s.observed x + 1) } t (Pc.rRun dt rest)) := by
  inv_tac h

theorem inv_run_obs (h : Inv c s) (dt : Bool) (x : Nat) (sn : Seen) (rest : List Act) (hpc : s.pc t = Pc.rRun dt (Act.obsAfter x sn :: rest)) :
    Inv c (setPc { s with observed := upd s.observed x (s.observed x + 1) } t (Pc.rRun dt rest)) := by
  inv_tac h

theorem inv_run_fin (h : Inv c s) (dt : Bool) (hpc : s.pc t = Pc.rRun dt []) :
    Inv c (setPc s t Pc.done) := by
  inv_tac h

/-- `~promise_with_default` after its walk: the base destructor finds the owner pointer null -/
theorem inv_run_fin_ddef (h : Inv c s) (hpc : s.pc t = Pc.rRun false []) (hk : (c.kind t).cls = 3) :
    Inv c (setPc s t Pc.dFin) := by
  inv_tac h

theorem owner_of_active (h : Inv c s) (hpc : isResolve (s.pc t) = true ∨ isRun (s.pc t) = true) : s.owner = false := by
  cases ho : s.owner
  · rfl
  · have h1 := (h.own_t ho).2
    have h2 := h.active t hpc
    rw [h1] at h2; cases h2

end

section
variable (c : Cfg) (t : Nat)

/-- `runActs` as an iteration of single actions: anything preserved by each action is preserved by the whole step -/
theorem runActs_ind (P : State → List Act → Prop)
    (h_store : ∀ s x rest, P s (Act.store x :: rest) →
      P { s with flag := upd s.flag x true, woken := upd s.woken x (s.woken x + 1) } rest)
    (h_wakeL : ∀ s x rest, P s (Act.wake x :: rest) →
      P { s with woken := upd s.woken x (s.woken x + 1) } (Act.obsAfter x s.slot.seen :: rest))
    (h_wakeN : ∀ s x rest, P s (Act.wake x :: rest) →
      P { s with woken := upd s.woken x (s.woken x + 1), observed := upd s.observed x (s.observed x + 1) } rest)
    (h_obs : ∀ s x sn rest, P s (Act.obsAfter x sn :: rest) →
      P { s with observed := upd s.observed x (s.observed x + 1) } rest) :
    ∀ acts s, P s acts → P (runActs c t s acts).1 (runActs c t s acts).2.2.1 := by
  intro acts
  induction acts with
  | nil => intro s h; simpa [runActs] using h
  | cons a rest ih =>
    intro s h
    cases a with
    | store x => simp only [runActs]; exact h_store s x rest h
    | wake x =>
      simp only [runActs]
      split
      · exact h_wakeL s x rest h
      · exact ih _ (h_wakeN s x rest h)
    | obsAfter x sn => simp only [runActs]; exact ih _ (h_obs s x sn rest h)

theorem runActs_rest_nil (acts : List Act) : ∀ s, (runActs c t s acts).2.2.2 = false → (runActs c t s acts).2.2.1 = [] := by
  induction acts with
  | nil => intro s _; simp [runActs]
  | cons a rest ih =>
    intro s
    cases a with
    | store x => simp [runActs]
    | wake x =>
      simp only [runActs]
      split
      · simp
      · exact ih _
    | obsAfter x sn => simp only [runActs]; exact ih _

theorem setPc_setPc (s : State) (p q : Pc) : setPc (setPc s t p) t q = setPc s t q := by
  simp [setPc, upd_upd]

theorem setPc_self (s : State) (p : Pc) (h : s.pc t = p) : setPc s t p = s := by
  simp [setPc, upd_self _ _ _ h]

theorem finishRun_setPc (s : State) (p : Pc) (dt : Bool) (evs : List Ev) :
    (finishRun c (setPc s t p) t dt evs).1 = (finishRun c s t dt evs).1 := by
  unfold finishRun dtorLoad
  split
  · simp [setPc, upd_upd]
  · split
    · cases ho : s.owner <;> simp [setPc, upd_upd, ho]
    · simp [setPc, upd_upd]

theorem inv_finishRun (s : State) (dt : Bool) (evs : List Ev) (h : Inv c s) (hpc : s.pc t = Pc.rRun dt []) :
    Inv c (finishRun c s t dt evs).1 := by
  unfold finishRun
  split
  · exact inv_run_fin c s t h dt hpc
  · rename_i hdt
    have hdt' : dt = false := by simpa using hdt
    subst hdt'
    split
    · rename_i v hk
      have ho := owner_of_active c s t h (Or.inr (by simp [hpc, isRun]))
      simp only [dtorLoad, ho]
      exact inv_run_fin_ddef c s t h hpc (by simp [hk, Kind.cls])
    · exact inv_run_fin c s t h false hpc

theorem inv_stepRun (s : State) (dt : Bool) (acts : List Act) (h : Inv c s) (hpc : s.pc t = Pc.rRun dt acts) :
    Inv c (stepRun c s t dt acts).1 := by
  have key := runActs_ind c t (fun s acts => Inv c (setPc s t (Pc.rRun dt acts))) ?_ ?_ ?_ ?_ acts s
    (by rw [setPc_self _ _ _ hpc]; exact h)
  · unfold stepRun
    simp only
    split
    · exact key
    · rename_i hstop
      have hnil := runActs_rest_nil c t acts s (by simpa using hstop)
      rw [hnil] at key
      have := inv_finishRun c t _ dt (runActs c t s acts).2.1 key (by simp)
      rwa [finishRun_setPc] at this
  · intro s x rest hP
    have := inv_run_store c _ t hP dt x rest (by simp)
    simpa [setPc, upd_upd] using this
  · intro s x rest hP
    have := inv_run_wakeL c _ t hP dt x rest (by simp)
    simpa [setPc, upd_upd] using this
  · intro s x rest hP
    have := inv_run_wakeN c _ t hP dt x rest (by simp)
    simpa [setPc, upd_upd] using this
  · intro s x sn rest hP
    have := inv_run_obs c _ t hP dt x sn rest (by simp)
    simpa [setPc, upd_upd] using this

end
section
variable (c : Cfg) (t : Nat)

theorem chain_of_resolve (s : State) (h : Inv c s) (dt : Bool) (hpc : s.pc t = Pc.rResolve dt) :
    ∃ l, s.slot = Slot.chain l := by
  rcases slot_cases s with hs | hs
  · obtain ⟨w, hw, hr, _⟩ := h.ready_phase hs
    have := h.active t (by simp [hpc, isResolve])
    rw [this] at hw; injection hw with hw; subst hw
    simp [hpc, isResolve] at hr
  · exact hs

theorem resolve_payload (s : State) (h : Inv c s) (dt : Bool) (hpc : s.pc t = Pc.rResolve dt) :
    (if dt = true then s.payload else
        match c.kind t with
        | Kind.res k => k.payload
        | Kind.ddef v => Outcome.val v
        | _ => s.payload) = winPayload c t := by
  obtain ⟨l, hl⟩ := chain_of_resolve c t s h dt hpc
  have hp := (h.chain_phase l hl).1
  have hk := h.kindpc t
  rw [hpc] at hk
  simp only [pcOK] at hk
  unfold winPayload
  cases hkind : c.kind t <;> cases dt <;> simp_all [Kind.cls]

theorem cls_eq_three (k : Kind) (h : k.cls = 3) : ∃ v, k = Kind.ddef v := by
  cases k <;> simp_all [Kind.cls]

theorem inv_dtorEnter (s : State) (h : Inv c s) (hpc : s.pc t = Pc.dArrive ∨ s.pc t = Pc.dBlocked) :
    Inv c (dtorEnter c s t).1 := by
  have hk := h.kindpc t
  unfold dtorEnter
  split
  · rename_i v hkind
    have hk3 : (c.kind t).cls = 3 := by simp [hkind, Kind.cls]
    unfold ddefClaim
    split
    · rename_i ho
      rcases hpc with hpc | hpc
      · exact inv_dArrive_dwin c s t h hpc ho hk3
      · exact inv_dBlocked_dwin c s t h hpc ho hk3
    · rename_i ho
      rcases hpc with hpc | hpc
      · exact inv_dArrive_dlose c s t h hpc (by simpa using ho) hk3
      · exact inv_dBlocked_dlose c s t h hpc (by simpa using ho) hk3
  · rename_i hnd
    have hk1 : (c.kind t).cls = 1 := by
      rcases hpc with hpc | hpc <;> (rw [hpc] at hk; simp only [pcOK] at hk) <;> rcases hk with hk | hk
      · exact hk
      · obtain ⟨v, hv⟩ := cls_eq_three _ hk; exact absurd hv (hnd v)
      · exact hk
      · obtain ⟨v, hv⟩ := cls_eq_three _ hk; exact absurd hv (hnd v)
    unfold dtorLoad
    split
    · rename_i ho
      rcases hpc with hpc | hpc
      · exact inv_dArrive_win c s t h hpc ho hk1
      · exact inv_dBlocked_win c s t h hpc ho hk1
    · rename_i ho
      rcases hpc with hpc | hpc
      · exact inv_dArrive_lose c s t h hpc (by simpa using ho)
      · exact inv_dBlocked_lose c s t h hpc (by simpa using ho)

theorem inv_astep (s : State) (h : Inv c s) (hen : enabled c s t = true) : Inv c (astep c s t).1 := by
  unfold astep
  split
  · exact h
  · rename_i hpc
    split
    · rename_i ho; exact inv_rClaim_win c s t h hpc ho
    · rename_i ho; exact inv_rClaim_lose c s t h hpc (by simpa using ho)
  · rename_i hpc; exact inv_rFinLost c s t h hpc
  · rename_i dt hpc
    obtain ⟨l, hl⟩ := chain_of_resolve c t s h dt hpc
    have hp := resolve_payload c t s h dt hpc
    have key := inv_rResolve c s t h dt l hpc hl
    rw [← hp] at key
    simp only [hl, chainOf]
    exact key
  · rename_i dt acts hpc; exact inv_stepRun c t s dt acts h hpc
  · rename_i hpc
    split
    · exact inv_dtorEnter c t s h (Or.inl hpc)
    · exact inv_dArrive_block c s t h hpc
  · rename_i hpc; exact inv_dtorEnter c t s h (Or.inr hpc)
  · rename_i hpc
    simp only [dtorLoad, owner_of_dLoad c s t h hpc]
    exact inv_dLoad c s t h hpc
  · rename_i hpc; exact inv_dFin c s t h hpc
  · rename_i hpc
    split
    · rename_i hs; exact inv_wLoad_ready c s t h hpc hs
    · exact inv_wLoad_chain c s t h hpc _
  · rename_i e hpc
    split
    · rename_i hs; exact inv_wCas_ready c s t h e hpc hs
    · rename_i l hs
      split
      · exact inv_wCas_ok c s t e l h hpc hs
      · exact inv_wCas_retry c s t h e _ hpc
  · rename_i hpc; exact inv_wFinParked c s t h hpc
  · rename_i hpc
    split
    · rename_i hf; exact inv_wWait_pass c s t h hpc hf
    · exact inv_wWait_block c s t h hpc
  · rename_i hpc
    have hf : s.flag t = true := by simpa [enabled, hpc] using hen
    exact inv_wBlocked c s t h hpc hf
  · rename_i hpc
    unfold readStep
    split
    · exact inv_wRead_load c s t h hpc
    · exact inv_wRead_fin c s t h hpc
  · rename_i e hpc
    exact inv_wRead2 c s t h e hpc

theorem inv_run (s : State) (sched : List Nat) (h : Inv c s) : Inv c (run c s sched) := by
  induction sched generalizing s with
  | nil => exact h
  | cons t r ih =>
    simp only [run, List.foldl_cons]
    split
    · rename_i hen; exact ih _ (inv_astep c t s h hen)
    · exact ih _ h

/-- every state reached from the initial one by any schedule satisfies the invariant -/
theorem inv_reach (sched : List Nat) : Inv c (run c (init c) sched) := inv_run c _ sched (inv_init c)

end

section
variable (c : Cfg) (t : Nat)

/-- the walker's step changes only `flag`, `woken`, `observed` -/
theorem runActs_frame (acts : List Act) (s : State) :
    let r := (runActs c t s acts).1
    r.owner = s.owner ∧ r.slot = s.slot ∧ r.payload = s.payload ∧ r.pc = s.pc ∧ r.wins = s.wins
      ∧ r.winner = s.winner ∧ r.subscribed = s.subscribed := by
  have := runActs_ind c t (fun s' _ => s'.owner = s.owner ∧ s'.slot = s.slot ∧ s'.payload = s.payload ∧ s'.pc = s.pc
      ∧ s'.wins = s.wins ∧ s'.winner = s.winner ∧ s'.subscribed = s.subscribed)
    (fun _ _ _ h => h) (fun _ _ _ h => h) (fun _ _ _ h => h) (fun _ _ _ _ h => h) acts s (by simp)
  exact this

theorem obsOf_congr (s s' : State) (h : s'.payload = s.payload) (k : WK) (sn : Seen) : obsOf s' k sn = obsOf s k sn := by
  unfold obsOf; rw [h]

/-- result reads performed by one walker step: each is the read of a waiter the walker still had to serve, and
it returns the value of `obsOf` on the current payload with the slot seen `ready` -/
theorem runActs_obs (acts : List Act) : ∀ (s : State), ActsOK c acts → ∀ w o, Ev.obs w o ∈ (runActs c t s acts).2.1 →
    o = obsOf s (wkOf c w) Seen.ready ∧ 1 ≤ cntO w acts := by
  induction acts with
  | nil => intro s _ w o h; simp [runActs] at h
  | cons a rest ih =>
    intro s hok w o h
    obtain ⟨ha, hrest⟩ := hok
    cases a with
    | store x => simp [runActs] at h
    | wake x =>
      simp only [runActs] at h
      split at h
      · simp at h
      · simp only [List.mem_cons, Ev.obs.injEq] at h
        rcases h with ⟨rfl, rfl⟩ | h
        · simp
        · have := ih _ hrest w o h
          refine ⟨?_, by simp only [cntO_wake]; omega⟩
          rw [this.1]; exact obsOf_congr _ _ rfl _ _
    | obsAfter x sn =>
      simp only [runActs, List.mem_cons, Ev.obs.injEq] at h
      rcases h with ⟨rfl, rfl⟩ | h
      · simp only [ActOK] at ha
        simp [ha.2]
      · have := ih _ hrest w o h
        refine ⟨?_, by simp only [cntO_obs]; omega⟩
        rw [this.1]; exact obsOf_congr _ _ rfl _ _

end
section
variable (c : Cfg) (t : Nat)

/-- what the owner-pointer operations of the destructor agents (`~promise`'s load, `~promise_with_default`'s claim) do -/
structure OwnerOp (s : State) (t : Nat) (r : State × List Ev) : Prop where
  slot : r.1.slot = s.slot
  payload : r.1.payload = s.payload
  flag : r.1.flag = s.flag
  subscribed : r.1.subscribed = s.subscribed
  woken : r.1.woken = s.woken
  observed : r.1.observed = s.observed
  pc_other : ∀ t', t' ≠ t → r.1.pc t' = s.pc t'
  no_obs : ∀ w o, Ev.obs w o ∉ r.2
  no_ret : ∀ t' b, Ev.ret t' b ∉ r.2
  own : (r.1.owner = s.owner ∧ r.1.wins = s.wins ∧ r.1.winner = s.winner ∧ s.owner = false ∧ (r.1.pc t = Pc.dFin ∨ r.1.pc t = Pc.dLoad))
      ∨ (s.owner = true ∧ r.1.winner = some t ∧ isResolve (r.1.pc t) = true)

theorem ownerOp_dtorLoad (s : State) : OwnerOp s t (dtorLoad s t) := by
  unfold dtorLoad
  cases ho : s.owner
  · refine ⟨rfl, rfl, rfl, rfl, rfl, rfl, ?_, ?_, ?_, ?_⟩
    · intro t' h; simp [h]
    · simp
    · simp
    · simp [ho]
  · refine ⟨rfl, rfl, rfl, rfl, rfl, rfl, ?_, ?_, ?_, ?_⟩
    · intro t' h; simp [h]
    · simp
    · simp
    · simp [isResolve, ho]

theorem ownerOp_ddefClaim (s : State) : OwnerOp s t (ddefClaim s t) := by
  unfold ddefClaim
  cases ho : s.owner
  · refine ⟨rfl, rfl, rfl, rfl, rfl, rfl, ?_, ?_, ?_, ?_⟩
    · intro t' h; simp [h]
    · simp
    · simp
    · simp [ho]
  · refine ⟨rfl, rfl, rfl, rfl, rfl, rfl, ?_, ?_, ?_, ?_⟩
    · intro t' h; simp [h]
    · simp
    · simp
    · simp [isResolve, ho]

theorem ownerOp_dtorEnter (s : State) : OwnerOp s t (dtorEnter c s t) := by
  unfold dtorEnter
  split
  · exact ownerOp_ddefClaim t s
  · exact ownerOp_dtorLoad t s

/-- the two ways a walker's last step ends -/
theorem finishRun_spec (s : State) (dt : Bool) (evs : List Ev) :
    ((finishRun c s t dt evs).1 = setPc s t Pc.done
        ∧ (finishRun c s t dt evs).2 = evs ++ (if dt = true then [] else [Ev.ret t true]) ++ [Ev.fin t]
        ∧ (dt = true ∨ (c.kind t).cls ≠ 3))
    ∨ (dt = false ∧ (c.kind t).cls = 3 ∧ (finishRun c s t dt evs).1 = (dtorLoad s t).1
        ∧ (finishRun c s t dt evs).2 = evs ++ (dtorLoad s t).2) := by
  unfold finishRun
  cases dt
  · simp only [Bool.false_eq_true, if_false]
    split
    · rename_i v hk
      right; simp [hk, Kind.cls]
    · rename_i hk
      left
      refine ⟨rfl, by simp, Or.inr ?_⟩
      intro h3
      obtain ⟨v, hv⟩ := cls_eq_three _ h3
      exact hk v hv
  · left; simp

/-- the walker's step leaves slot, payload and the subscriptions alone -/
theorem stepRun_frame (s : State) (dt : Bool) (acts : List Act) :
    (stepRun c s t dt acts).1.slot = s.slot ∧ (stepRun c s t dt acts).1.payload = s.payload
      ∧ (stepRun c s t dt acts).1.subscribed = s.subscribed := by
  have h := runActs_frame c t acts s
  simp only at h
  unfold stepRun
  simp only
  split
  · simp [h]
  · rcases finishRun_spec c t (runActs c t s acts).1 dt (runActs c t s acts).2.1 with ⟨h1, _, _⟩ | ⟨_, _, h1, _⟩
    · rw [h1]; simp [h]
    · have ho := ownerOp_dtorLoad t (runActs c t s acts).1
      rw [h1, ho.slot, ho.payload, ho.subscribed]; simp [h]

/-- with the owner pointer already taken, the walker's step leaves owner, wins and winner alone -/
theorem stepRun_frame_owner (s : State) (dt : Bool) (acts : List Act) (ho : s.owner = false) :
    (stepRun c s t dt acts).1.owner = false ∧ (stepRun c s t dt acts).1.wins = s.wins
      ∧ (stepRun c s t dt acts).1.winner = s.winner := by
  have h := runActs_frame c t acts s
  simp only at h
  unfold stepRun
  simp only
  split
  · simp [h, ho]
  · rcases finishRun_spec c t (runActs c t s acts).1 dt (runActs c t s acts).2.1 with ⟨h1, _, _⟩ | ⟨_, _, h1, _⟩
    · rw [h1]; simp [h, ho]
    · have hO := ownerOp_dtorLoad t (runActs c t s acts).1
      rcases hO.own with ⟨a1, a2, a3, _⟩ | ⟨a1, _⟩
      · rw [h1, a1, a2, a3]; simp [h, ho]
      · rw [h.1, ho] at a1; cases a1

/-- once the slot is `ready`, no step of any agent changes the slot or the payload -/
theorem astep_stable (s : State) (h : Inv c s) (hs : s.slot = Slot.ready) :
    (astep c s t).1.slot = Slot.ready ∧ (astep c s t).1.payload = s.payload := by
  unfold astep
  split
  · exact ⟨hs, rfl⟩
  · split <;> simp [hs]
  · simp [hs]
  · rename_i dt hpc
    obtain ⟨l, hl⟩ := chain_of_resolve c t s h dt hpc
    rw [hs] at hl; cases hl
  · have := stepRun_frame c t s ‹_› ‹_›
    simp [this, hs]
  · split
    · have := ownerOp_dtorEnter c t s; simp [this.slot, this.payload, hs]
    · simp [hs]
  · have := ownerOp_dtorEnter c t s; simp [this.slot, this.payload, hs]
  · have := ownerOp_dtorLoad t s; simp [this.slot, this.payload, hs]
  · simp [hs]
  · split <;> simp [hs]
  · simp [hs]
  · simp [hs]
  · split <;> simp [hs]
  · simp [hs]
  · unfold readStep; split <;> simp [hs]
  · unfold readStep2; simp [hs]

/-- once there is a winner, no step of any agent changes it -/
theorem astep_winner (s : State) (h : Inv c s) (w : Nat) (hw : s.winner = some w) :
    (astep c s t).1.winner = some w ∧ (astep c s t).1.wins = s.wins := by
  have ho : s.owner = false := by
    cases hown : s.owner
    · rfl
    · have := (h.own_t hown).2; rw [this] at hw; cases hw
  have hop : ∀ r, OwnerOp s t r → r.1.winner = some w ∧ r.1.wins = s.wins := by
    intro r hr
    rcases hr.own with ⟨_, a2, a3, _⟩ | ⟨a1, _⟩
    · exact ⟨a3.trans hw, a2⟩
    · rw [ho] at a1; cases a1
  unfold astep
  split
  · exact ⟨hw, rfl⟩
  · simp [ho, hw]
  · simp [hw]
  · simp [hw]
  · have := stepRun_frame_owner c t s ‹_› ‹_› ho
    simp [this, hw]
  · split
    · exact hop _ (ownerOp_dtorEnter c t s)
    · simp [hw]
  · exact hop _ (ownerOp_dtorEnter c t s)
  · exact hop _ (ownerOp_dtorLoad t s)
  · simp [hw]
  · split <;> simp [hw]
  · split
    · simp [hw]
    · split <;> simp [hw]
  · simp [hw]
  · split <;> simp [hw]
  · simp [hw]
  · unfold readStep; split <;> simp [hw]
  · unfold readStep2; simp [hw]

end
section
variable (c : Cfg) (t : Nat)

theorem ready_of_run (s : State) (h : Inv c s) (dt : Bool) (acts : List Act) (hpc : s.pc t = Pc.rRun dt acts) :
    s.slot = Slot.ready ∧ s.winner = some t := by
  have hw := h.active t (by simp [hpc, isRun])
  refine ⟨?_, hw⟩
  rcases slot_cases s with hs | ⟨l, hl⟩
  · exact hs
  · have := (h.chain_phase l hl).2.2 t hw
    simp [hpc, isResolve] at this

/-- every result read emitted by a step: the slot is already `ready`, the reader is a waiter agent that had not
read before, and the value is `obsOf` of the current payload -/
theorem astep_obs (s : State) (h : Inv c s) (w : Nat) (o : Obs) (he : Ev.obs w o ∈ (astep c s t).2) :
    s.slot = Slot.ready ∧ o = obsOf s (wkOf c w) Seen.ready ∧ isW c w = true ∧ s.observed w = 0 := by
  unfold astep at he
  split at he
  · simp at he
  · split at he <;> simp at he
  · simp at he
  · simp at he
  · rename_i dt acts hpc
    obtain ⟨hs, hw⟩ := ready_of_run c t s h dt acts hpc
    have hok := h.actsok t
    rw [hpc] at hok
    simp only [actsOf] at hok
    have hin : Ev.obs w o ∈ (runActs c t s acts).2.1 := by
      unfold stepRun at he
      simp only at he
      split at he
      · exact he
      · rcases finishRun_spec c t (runActs c t s acts).1 dt (runActs c t s acts).2.1 with ⟨_, h2, _⟩ | ⟨_, _, _, h2⟩
        · rw [h2] at he
          simp only [List.mem_append, List.mem_cons, List.not_mem_nil, or_false] at he
          rcases he with (he | he) | he
          · exact he
          · split at he <;> simp at he
          · cases he
        · rw [h2] at he
          simp only [List.mem_append] at he
          rcases he with he | he
          · exact he
          · exact absurd he ((ownerOp_dtorLoad t _).no_obs w o)
    obtain ⟨ho, hc⟩ := runActs_obs c t acts s hok w o hin
    have hO := h.readyO hs t hw w
    rw [hpc] at hO
    simp only [actsOf] at hO
    refine ⟨hs, ho, ?_, ?_⟩
    · split at hO
      · assumption
      · omega
    · split at hO <;> omega
  · split at he
    · exact absurd he ((ownerOp_dtorEnter c t s).no_obs w o)
    · simp at he
  · exact absurd he ((ownerOp_dtorEnter c t s).no_obs w o)
  · exact absurd he ((ownerOp_dtorLoad t s).no_obs w o)
  · simp at he
  · split at he <;> simp at he
  · split at he
    · simp at he
    · split at he <;> simp at he
  · simp at he
  · split at he <;> simp at he
  · simp at he
  · rename_i hpc
    have hs := (h.reader t).1 hpc
    obtain ⟨w', hw', _, _⟩ := h.ready_phase hs
    have hO := h.readyO hs w' hw' t
    rw [hpc] at hO
    simp only [selfP] at hO
    unfold readStep at he
    split at he
    · simp at he
    · simp only [List.mem_cons, Ev.obs.injEq, List.not_mem_nil, or_false] at he
      rcases he with ⟨rfl, rfl⟩ | he
      · refine ⟨hs, rfl, ?_, ?_⟩
        · split at hO
          · assumption
          · omega
        · split at hO <;> omega
      · cases he
  · rename_i sn hpc
    obtain ⟨hsn, hs⟩ := (h.reader t).2 sn hpc
    obtain ⟨w', hw', _, _⟩ := h.ready_phase hs
    have hO := h.readyO hs w' hw' t
    rw [hpc] at hO
    simp only [selfP] at hO
    unfold readStep2 at he
    simp only [List.mem_cons, Ev.obs.injEq, List.not_mem_nil, or_false] at he
    rcases he with ⟨rfl, rfl⟩ | he
    · refine ⟨hs, by rw [hsn], ?_, ?_⟩
      · split at hO
        · assumption
        · omega
      · split at hO <;> omega
    · cases he

end

section

/-- `s` is reached from the initial state of configuration `c` by some schedule (any length, any order) -/
def Reachable (c : Cfg) (s : State) : Prop := ∃ sched : List Nat, s = run c (init c) sched

theorem Reachable.inv {c : Cfg} {s : State} (h : Reachable c s) : Inv c s := by
  obtain ⟨sched, rfl⟩ := h; exact inv_reach c sched

theorem reachable_run (c : Cfg) (sched : List Nat) : Reachable c (run c (init c) sched) := ⟨sched, rfl⟩

theorem run_append (c : Cfg) (s : State) (a b : List Nat) : run c s (a ++ b) = run c (run c s a) b := by
  simp [run, List.foldl_append]

theorem Reachable.run {c : Cfg} {s : State} (h : Reachable c s) (sched : List Nat) : Reachable c (run c s sched) := by
  obtain ⟨s0, rfl⟩ := h; exact ⟨s0 ++ sched, (run_append c _ _ _).symm⟩

theorem Reachable.step {c : Cfg} {s : State} (h : Reachable c s) (t : Nat) (hen : enabled c s t = true) :
    Reachable c (astep c s t).1 := by
  have := h.run [t]
  simpa [Chain.run, hen] using this

/-- a resolving party: a resolver call or the destructor (anything but a waiter) -/
def Kind.resolving : Kind → Bool
  | Kind.wait _ => false
  | _ => true

theorem resolving_iff (k : Kind) : k.resolving = true ↔ k.cls ≠ 2 := by cases k <;> simp [Kind.resolving, Kind.cls]

theorem isW_iff (c : Cfg) (x : Nat) : isW c x = true ↔ x < c.n ∧ ∃ k, c.kind x = Kind.wait k := by
  unfold isW; cases h : c.kind x <;> simp [Kind.cls]

theorem resolversDone_iff (c : Cfg) (s : State) :
    resolversDone c s = true ↔ ∀ i, i < c.n → (c.kind i).cls = 0 → s.pc i = Pc.done := by
  unfold resolversDone
  simp only [List.all_eq_true, List.mem_range]
  constructor
  · intro h i hi hk
    have := h i hi
    cases hkind : c.kind i <;> simp_all [Kind.cls]
  · intro h i hi
    have := h i hi
    cases hkind : c.kind i <;> simp_all [Kind.cls]

variable (c : Cfg)

theorem run_stable (s : State) (h : Inv c s) (hs : s.slot = Slot.ready) (sched : List Nat) :
    (run c s sched).slot = Slot.ready ∧ (run c s sched).payload = s.payload := by
  induction sched generalizing s with
  | nil => exact ⟨hs, rfl⟩
  | cons t r ih =>
    simp only [run, List.foldl_cons]
    split
    · rename_i hen
      have h1 := astep_stable c t s h hs
      have := ih _ (inv_astep c t s h hen) h1.1
      exact ⟨this.1, this.2.trans h1.2⟩
    · exact ih s h hs

theorem owner_false_of_done (s : State) (h : Inv c s) (t : Nat) (ht : t < c.n) (hk : (c.kind t).resolving = true)
    (hd : s.pc t = Pc.done) : s.owner = false :=
  h.claimed t (Or.inr ⟨ht, (resolving_iff _).1 hk, hd⟩)

/-- at quiescence (with a resolving party) the winner is done and the slot is ready -/
theorem quiescent_ready (s : State) (h : Inv c s) (t : Nat) (ht : t < c.n) (hk : (c.kind t).resolving = true)
    (hq : ∀ i, s.pc i = Pc.done) : s.wins = 1 ∧ s.slot = Slot.ready ∧ ∃ w, s.winner = some w := by
  have ho := owner_false_of_done c s h t ht hk (hq t)
  obtain ⟨hw, w, hwin⟩ := h.own_f ho
  refine ⟨hw, ?_, w, hwin⟩
  rcases slot_cases s with hs | ⟨l, hl⟩
  · exact hs
  · have := (h.chain_phase l hl).2.2 w hwin
    simp [hq w, isResolve] at this

end
section
variable (c : Cfg)

theorem cls_cases (k : Kind) : k.cls = 0 ∨ k.cls = 1 ∨ k.cls = 2 ∨ k.cls = 3 := by cases k <;> simp [Kind.cls]

theorem cntW_pos_iff (x : Nat) (acts : List Act) : 1 ≤ cntW x acts ↔ (Act.store x ∈ acts ∨ Act.wake x ∈ acts) := by
  induction acts with
  | nil => simp
  | cons a r ih =>
    cases a with
    | store y =>
      by_cases hy : y = x
      · subst hy; simp
      · have : ¬ x = y := fun e => hy e.symm
        simp [hy, ih, this]
    | wake y =>
      by_cases hy : y = x
      · subst hy; simp
      · have : ¬ x = y := fun e => hy e.symm
        simp [hy, ih, this]
    | obsAfter y sn => simp [ih]

/-- no deadlock: with a resolving party in the configuration, a state in which no agent is enabled is one in which
every agent has finished -/
theorem not_stuck (s : State) (h : Inv c s) (r : Nat) (hr : r < c.n) (hk : (c.kind r).resolving = true)
    (hstuck : ∀ t, enabled c s t = false) : ∀ t, s.pc t = Pc.done := by
  -- resolvers are never blocked
  have hres : ∀ i, (c.kind i).cls = 0 → s.pc i = Pc.done := by
    intro i hi
    have h1 := h.kindpc i
    have h2 := hstuck i
    unfold enabled at h2
    split at h2 <;> simp_all [pcOK]
  have hrd : resolversDone c s = true := (resolversDone_iff c s).2 (fun i _ hi => hres i hi)
  -- hence no destructor agent is blocked either
  have hdt : ∀ i, (c.kind i).cls ≠ 2 → s.pc i = Pc.done := by
    intro i hi
    have h1 := h.kindpc i
    have h2 := hstuck i
    unfold enabled at h2
    split at h2
    · assumption
    · rename_i hpc; rw [hpc] at h1; simp only [pcOK] at h1; exact absurd h1.1 hi
    · rw [hrd] at h2; cases h2
    · cases h2
  have hrdone : s.pc r = Pc.done := hdt r ((resolving_iff _).1 hk)
  have ho := owner_false_of_done c s h r hr hk hrdone
  obtain ⟨_, w, hwin⟩ := h.own_f ho
  obtain ⟨hwn, hwk, hwpc⟩ := h.winpc w hwin
  have hwdone : s.pc w = Pc.done := hdt w hwk
  have hs : s.slot = Slot.ready := by
    rcases slot_cases s with hs | ⟨l, hl⟩
    · exact hs
    · have := (h.chain_phase l hl).2.2 w hwin
      simp [hwdone, isResolve] at this
  intro t
  have h2 := hstuck t
  unfold enabled at h2
  split at h2
  · assumption
  · -- a blocked waiter whose flag is not set: impossible, the walker has finished
    rename_i hpc
    have hsub := h.parked t (Or.inr (Or.inl hpc))
    have hW := h.readyW hs w hwin t
    rw [hwdone] at hW
    simp only [actsOf, cntW_nil, hsub, if_true] at hW
    have hk := h.kindpc t
    rw [hpc] at hk
    simp only [pcOK] at hk
    have := (h.flag_iff t).2 ⟨hk.2, by omega⟩
    rw [this] at h2; cases h2
  · rename_i hpc
    rw [hrd] at h2; cases h2
  · cases h2

end

section
variable (c : Cfg) (t : Nat)

theorem runActs_no_ret (acts : List Act) : ∀ (s : State) t' b, Ev.ret t' b ∉ (runActs c t s acts).2.1 := by
  induction acts with
  | nil => intro s t' b; simp [runActs]
  | cons a rest ih =>
    intro s t' b
    cases a with
    | store x => simp [runActs]
    | wake x =>
      simp only [runActs]
      split
      · simp
      · simp only [List.mem_cons, reduceCtorEq, false_or]; exact ih _ _ _
    | obsAfter x sn =>
      simp only [runActs, List.mem_cons, reduceCtorEq, false_or]; exact ih _ _ _

theorem count_ret_cons_ret (t t' : Nat) (b b' : Bool) (l : List Ev) :
    (Ev.ret t b' :: l).count (Ev.ret t' b) = (if t' = t ∧ b = b' then 1 else 0) + l.count (Ev.ret t' b) := by
  rw [List.count_cons]
  by_cases h1 : t' = t <;> by_cases h2 : b = b' <;> simp [h1, h2]
  · omega
  · exact fun e => h2 e.symm
  · exact fun e => h1 e.symm
  · exact fun e => (h1 e.symm).elim

theorem astep_pc_other (s : State) (t' : Nat) (hne : t' ≠ t) : (astep c s t).1.pc t' = s.pc t' := by
  unfold astep
  split
  · rfl
  · split <;> simp [hne]
  · simp [hne]
  · simp [hne]
  · rename_i dt acts _
    have := (runActs_frame c t acts s).2.2.2.1
    unfold stepRun; simp only
    split
    · simp [hne, this]
    · rcases finishRun_spec c t (runActs c t s acts).1 dt (runActs c t s acts).2.1 with ⟨h1, _, _⟩ | ⟨_, _, h1, _⟩
      · rw [h1]; simp [hne, this]
      · rw [h1, (ownerOp_dtorLoad t _).pc_other t' hne, this]
  · split
    · exact (ownerOp_dtorEnter c t s).pc_other t' hne
    · simp [hne]
  · exact (ownerOp_dtorEnter c t s).pc_other t' hne
  · exact (ownerOp_dtorLoad t s).pc_other t' hne
  · simp [hne]
  · split <;> simp [hne]
  · split
    · simp [hne]
    · split <;> simp [hne]
  · simp [hne]
  · split <;> simp [hne]
  · simp [hne]
  · unfold readStep; split <;> simp [hne]
  · unfold readStep2; simp [hne]

theorem ownerOp_ret {s : State} {r : State × List Ev} (hr : OwnerOp s t r) (t' : Nat) (b : Bool) :
    r.2.count (Ev.ret t' b) = 0 ∧ r.1.pc t ≠ Pc.done := by
  refine ⟨List.count_eq_zero.2 (hr.no_ret t' b), ?_⟩
  rcases hr.own with ⟨_, _, _, _, a | a⟩ | ⟨_, _, a⟩
  · rw [a]; simp
  · rw [a]; simp
  · intro hd; rw [hd] at a; simp [isResolve] at a

/-- return events of one step: exactly one `ret t b`, emitted by a resolver call in the step in which it finishes,
with `b` = "this call is the winner" -/
theorem astep_ret (s : State) (h : Inv c s) (t' : Nat) (b : Bool) :
    (astep c s t).2.count (Ev.ret t' b) =
      if t' = t ∧ (c.kind t).cls = 0 ∧ s.pc t ≠ Pc.done ∧ (astep c s t).1.pc t = Pc.done ∧ b = decide (s.winner = some t)
      then 1 else 0 := by
  have hk := h.kindpc t
  unfold astep
  split
  · rename_i hpc; simp [hpc]
  · split <;> simp
  · rename_i hpc
    rw [hpc] at hk; simp only [pcOK] at hk
    have hw : s.winner ≠ some t := by
      intro hw; have := (h.winpc t hw).2.2; simp [hpc, isResolve, isRun] at this
    rw [count_ret_cons_ret]
    simp only [setPc_pc, upd_same, hk, hw, hpc]
    by_cases h1 : t' = t <;> by_cases h2 : b = false <;> simp [h1, h2]
  · simp
  · rename_i dt acts hpc
    rw [hpc] at hk; simp only [pcOK] at hk
    obtain ⟨_, hw⟩ := ready_of_run c t s h dt acts hpc
    have hnr := runActs_no_ret c t acts s t' b
    unfold stepRun; simp only
    split
    · simp [List.count_eq_zero.2 hnr]
    · rcases finishRun_spec c t (runActs c t s acts).1 dt (runActs c t s acts).2.1 with ⟨h1, h2, h3⟩ | ⟨h0, h3, h1, h2⟩
      · rw [h1, h2]
        cases dt
        · simp only [Bool.false_eq_true, if_false] at hk
          have hk0 : (c.kind t).cls = 0 := by
            rcases h3 with h3 | h3
            · cases h3
            · rcases hk with hk | hk
              · exact hk
              · exact absurd hk h3
          simp only [List.count_append, List.count_eq_zero.2 hnr, setPc_pc, upd_same, hk0, hw, hpc,
            Bool.false_eq_true, if_false]
          rw [count_ret_cons_ret]
          by_cases h1 : t' = t <;> by_cases h2 : b = true <;> simp [h1, h2]
        · simp only [if_true] at hk
          simp [List.count_append, List.count_eq_zero.2 hnr, hk]
      · rw [h2, List.count_append, List.count_eq_zero.2 hnr, (ownerOp_ret t (ownerOp_dtorLoad t _) t' b).1]
        simp [h3]
  · split
    · have hO := ownerOp_ret t (ownerOp_dtorEnter c t s) t' b
      rw [hO.1]; symm; apply if_neg; intro ⟨_, _, _, h4, _⟩; exact hO.2 h4
    · simp
  · have hO := ownerOp_ret t (ownerOp_dtorEnter c t s) t' b
    rw [hO.1]; symm; apply if_neg; intro ⟨_, _, _, h4, _⟩; exact hO.2 h4
  · have hO := ownerOp_ret t (ownerOp_dtorLoad t s) t' b
    rw [hO.1]; symm; apply if_neg; intro ⟨_, _, _, h4, _⟩; exact hO.2 h4
  · rename_i hpc; rw [hpc] at hk; simp only [pcOK] at hk
    have hk0 : (c.kind t).cls ≠ 0 := by omega
    simp [hk0]
  · split <;> simp
  · split
    · simp
    · split <;> simp
      · split <;> simp
  · rename_i hpc; rw [hpc] at hk; simp only [pcOK] at hk; simp [hk]
  · split <;> simp
  · simp
  · rename_i hpc; rw [hpc] at hk; simp only [pcOK] at hk
    unfold readStep; split <;> simp [hk]
  · rename_i hpc; rw [hpc] at hk; simp only [pcOK] at hk
    unfold readStep2; simp [hk]

end
section
variable (c : Cfg) (t : Nat)

theorem astep_winner_change (s : State) (h : Inv c s) :
    (astep c s t).1.winner = s.winner ∨
      (s.winner = none ∧ (astep c s t).1.winner = some t ∧ s.pc t ≠ Pc.done ∧ (astep c s t).1.pc t ≠ Pc.done) := by
  have hop : ∀ r, OwnerOp s t r → s.pc t ≠ Pc.done →
      r.1.winner = s.winner ∨ (s.winner = none ∧ r.1.winner = some t ∧ s.pc t ≠ Pc.done ∧ r.1.pc t ≠ Pc.done) := by
    intro r hr hnd
    rcases hr.own with ⟨_, _, a3, _⟩ | ⟨a1, a2, a3⟩
    · exact Or.inl a3
    · refine Or.inr ⟨(h.own_t a1).2, a2, hnd, ?_⟩
      intro hd; rw [hd] at a3; simp [isResolve] at a3
  unfold astep
  split
  · exact Or.inl rfl
  · rename_i hpc
    split
    · rename_i ho; simp [hpc, (h.own_t ho).2]
    · simp
  · simp
  · simp
  · rename_i dt acts hpc
    have ho := owner_of_active c s t h (Or.inr (by simp [hpc, isRun]))
    exact Or.inl (stepRun_frame_owner c t s dt acts ho).2.2
  · rename_i hpc
    split
    · exact hop _ (ownerOp_dtorEnter c t s) (by simp [hpc])
    · simp
  · rename_i hpc
    exact hop _ (ownerOp_dtorEnter c t s) (by simp [hpc])
  · rename_i hpc
    exact hop _ (ownerOp_dtorLoad t s) (by simp [hpc])
  · simp
  · split <;> simp
  · split
    · simp
    · split <;> simp
  · simp
  · split <;> simp
  · simp
  · unfold readStep; split <;> simp
  · unfold readStep2; simp

/-- `run`, also collecting the emitted events (the trace) -/
def runEvA (c : Cfg) (p : State × List Ev) (sched : List Nat) : State × List Ev :=
  sched.foldl (fun p t => if enabled c p.1 t then ((astep c p.1 t).1, p.2 ++ (astep c p.1 t).2) else p) p

def runEv (c : Cfg) (s : State) (sched : List Nat) : State × List Ev := runEvA c (s, []) sched

theorem runEvA_fst (p : State × List Ev) (sched : List Nat) : (runEvA c p sched).1 = run c p.1 sched := by
  induction sched generalizing p with
  | nil => rfl
  | cons t r ih =>
    simp only [runEvA, run, List.foldl_cons]
    split
    · exact ih _
    · exact ih _

theorem runEv_fst (s : State) (sched : List Nat) : (runEv c s sched).1 = run c s sched := runEvA_fst c _ _

/-- which `ret` events the trace contains -/
def RetInv (c : Cfg) (p : State × List Ev) : Prop :=
  ∀ t b, p.2.count (Ev.ret t b) =
    if t < c.n ∧ (c.kind t).cls = 0 ∧ p.1.pc t = Pc.done ∧ b = decide (p.1.winner = some t) then 1 else 0

theorem retInv_step (p : State × List Ev) (h : Inv c p.1) (hr : RetInv c p) :
    RetInv c ((astep c p.1 t).1, p.2 ++ (astep c p.1 t).2) := by
  intro t' b
  have h0 := hr t' b
  have h1 := astep_ret c t p.1 h t' b
  have h2 := astep_winner_change c t p.1 h
  simp only [List.count_append, h0, h1]
  by_cases ht : t' = t
  · subst ht
    by_cases hd : p.1.pc t' = Pc.done
    · have : astep c p.1 t' = (p.1, []) := by unfold astep; simp [hd]
      simp [this, hd]
    · have hlt : t' < c.n := by
        have := h.range t'
        by_cases hlt : t' < c.n
        · exact hlt
        · exact absurd (this (by omega)) hd
      rcases h2 with h2 | ⟨_, _, _, h2⟩
      · simp [hd, hlt, h2]
      · simp [hd, h2]
  · have h3 := astep_pc_other c t p.1 t' ht
    rw [h3]
    rcases h2 with h2 | ⟨hw, h2, h4, _⟩
    · simp [ht, h2]
    · have hne : ¬ t = t' := fun e => ht e.symm
      simp [ht, h2, hw, hne]

end
section
variable (c : Cfg)

theorem retInv_run (p : State × List Ev) (sched : List Nat) (h : Inv c p.1) (hr : RetInv c p) :
    RetInv c (runEvA c p sched) := by
  induction sched generalizing p with
  | nil => exact hr
  | cons t r ih =>
    simp only [runEvA, List.foldl_cons]
    split
    · rename_i hen
      exact ih _ (inv_astep c t p.1 h hen) (retInv_step c t p h hr)
    · exact ih _ h hr

theorem retInv_init : RetInv c (init c, []) := by
  intro t b
  rw [List.count_nil]
  symm
  apply if_neg
  intro ⟨ht, h1, h2, _⟩
  have h3 : (init c).pc t = initPc (c.kind t) := by simp [init, ht]
  change (init c).pc t = Pc.done at h2
  rw [h3] at h2
  revert h1 h2
  cases c.kind t <;> simp [initPc, Kind.cls]

/-- the `ret` events of the trace of any schedule from the initial state -/
theorem ret_count (sched : List Nat) (t : Nat) (b : Bool) :
    (runEv c (init c) sched).2.count (Ev.ret t b) =
      if t < c.n ∧ (c.kind t).cls = 0 ∧ (run c (init c) sched).pc t = Pc.done
          ∧ b = decide ((run c (init c) sched).winner = some t) then 1 else 0 := by
  have := retInv_run c (init c, []) sched (inv_init c) (retInv_init c) t b
  rw [← runEv_fst]
  exact this

end

section
variable (c : Cfg) (t : Nat)

/-- `e` is a result read of waiter `w` -/
def isObsOf (w : Nat) : Ev → Bool
  | Ev.obs w' _ => w' == w
  | _ => false

theorem runActs_obsCount (w : Nat) (acts : List Act) : ∀ s : State,
    (runActs c t s acts).2.1.countP (isObsOf w) + s.observed w = (runActs c t s acts).1.observed w := by
  induction acts with
  | nil => intro s; simp [runActs]
  | cons a rest ih =>
    intro s
    cases a with
    | store x => simp [runActs, isObsOf]
    | wake x =>
      simp only [runActs]
      split
      · simp [isObsOf]
      · rw [List.countP_cons, ← ih]
        simp only [isObsOf, upd_apply]
        by_cases hx : x = w
        · subst hx; simp; omega
        · have : ¬ w = x := fun e => hx e.symm
          simp [hx, this]
    | obsAfter x sn =>
      simp only [runActs]
      rw [List.countP_cons, ← ih]
      simp only [isObsOf, upd_apply]
      by_cases hx : x = w
      · subst hx; simp; omega
      · have : ¬ w = x := fun e => hx e.symm
        simp [hx, this]

theorem ownerOp_obsCount {s : State} {r : State × List Ev} (hr : OwnerOp s t r) (w : Nat) :
    r.2.countP (isObsOf w) = 0 := by
  rw [List.countP_eq_zero]
  intro e he
  cases e <;> simp [isObsOf]
  rename_i w' o
  intro hw
  exact absurd he (hr.no_obs w' o)

/-- the ghost counter `observed w` counts exactly the `obs w _` events -/
theorem astep_obsCount (s : State) (w : Nat) :
    (astep c s t).2.countP (isObsOf w) + s.observed w = (astep c s t).1.observed w := by
  unfold astep
  split
  · simp
  · split <;> simp [isObsOf]
  · simp [isObsOf]
  · simp [isObsOf]
  · rename_i dt acts _
    have := runActs_obsCount c t w acts s
    unfold stepRun; simp only
    split
    · simpa using this
    · rcases finishRun_spec c t (runActs c t s acts).1 dt (runActs c t s acts).2.1 with ⟨h1, h2, _⟩ | ⟨_, _, h1, h2⟩
      · rw [h1, h2]
        cases dt <;> simpa [isObsOf] using this
      · rw [h1, h2, (ownerOp_dtorLoad t _).observed, List.countP_append, ownerOp_obsCount t (ownerOp_dtorLoad t _) w]
        simpa using this
  · split
    · have hO := ownerOp_dtorEnter c t s
      rw [ownerOp_obsCount t hO w, hO.observed]; simp
    · simp [isObsOf]
  · have hO := ownerOp_dtorEnter c t s
    rw [ownerOp_obsCount t hO w, hO.observed]; simp
  · have hO := ownerOp_dtorLoad t s
    rw [ownerOp_obsCount t hO w, hO.observed]; simp
  · simp [isObsOf]
  · split <;> simp [isObsOf]
  · split
    · simp [isObsOf]
    · split <;> simp [isObsOf]
  · simp [isObsOf]
  · split <;> simp [isObsOf]
  · simp [isObsOf]
  · unfold readStep
    split
    · simp [isObsOf]
    · simp only [isObsOf, List.countP_cons, List.countP_nil, setPc_observed, upd_apply]
      by_cases hx : t = w
      · subst hx; simp; omega
      · have : ¬ w = t := fun e => hx e.symm
        simp [hx, this]
  · unfold readStep2
    simp only [isObsOf, List.countP_cons, List.countP_nil, setPc_observed, upd_apply]
    by_cases hx : t = w
    · subst hx; simp; omega
    · have : ¬ w = t := fun e => hx e.symm
      simp [hx, this]

theorem obsCount_run (p : State × List Ev) (sched : List Nat) (w : Nat) (h : p.2.countP (isObsOf w) = p.1.observed w) :
    (runEvA c p sched).2.countP (isObsOf w) = (runEvA c p sched).1.observed w := by
  induction sched generalizing p with
  | nil => exact h
  | cons t r ih =>
    simp only [runEvA, List.foldl_cons]
    split
    · apply ih
      have := astep_obsCount c t p.1 w
      simp only [List.countP_append]
      omega
    · exact ih _ h

/-- in the trace of any schedule, the number of result reads of waiter `w` is the ghost counter `observed w` -/
theorem obs_count (sched : List Nat) (w : Nat) :
    (runEv c (init c) sched).2.countP (isObsOf w) = (run c (init c) sched).observed w := by
  rw [← runEv_fst]
  exact obsCount_run c (init c, []) sched w (by simp [init])

end

section
variable (c : Cfg)

/-- well-formedness needed by the liveness statements only: the configuration contains a resolving party (at least one
resolver call or a destructor agent).  Nothing else is assumed about a configuration: any number of agents of any
kinds, in any order (even several destructor agents: in the model only the first one to load `_owner` resolves). -/
def WF (c : Cfg) : Prop := ∃ t, t < c.n ∧ (c.kind t).resolving = true

instance (c : Cfg) : Decidable (WF c) := inferInstanceAs (Decidable (∃ t, t < c.n ∧ (c.kind t).resolving = true))

/-- quiescence: every agent of the configuration has finished -/
def Quiescent (c : Cfg) (s : State) : Prop := ∀ t, t < c.n → s.pc t = Pc.done

instance (c : Cfg) (s : State) : Decidable (Quiescent c s) :=
  inferInstanceAs (Decidable (∀ t, t < c.n → s.pc t = Pc.done))

theorem Quiescent.all {c : Cfg} {s : State} (hq : Quiescent c s) (h : Inv c s) : ∀ t, s.pc t = Pc.done := by
  intro t
  by_cases ht : t < c.n
  · exact hq t ht
  · exact h.range t (by omega)

/-- `t` is a resolver call (`promise::operator()`) of the configuration -/
def isResCall (c : Cfg) (t : Nat) : Bool :=
  decide (t < c.n) && match c.kind t with
    | Kind.res _ => true
    | _ => false

theorem isResCall_iff (t : Nat) : isResCall c t = true ↔ t < c.n ∧ (c.kind t).cls = 0 := by
  unfold isResCall; cases c.kind t <;> simp [Kind.cls]

end

section
variable (c : Cfg)

theorem run_cons (s : State) (t : Nat) (r : List Nat) :
    run c s (t :: r) = run c (if enabled c s t then (astep c s t).1 else s) r := by
  simp [run, List.foldl_cons]

/-- every event of a trace was emitted by an enabled step from a state reached by a prefix of the schedule -/
theorem runEvA_mem (sched : List Nat) : ∀ (p : State × List Ev) (e : Ev), e ∈ (runEvA c p sched).2 →
    e ∈ p.2 ∨ ∃ pre t post, sched = pre ++ t :: post ∧ enabled c (run c p.1 pre) t = true
      ∧ e ∈ (astep c (run c p.1 pre) t).2 := by
  induction sched with
  | nil => intro p e h; exact Or.inl h
  | cons t r ih =>
    intro p e h
    simp only [runEvA, List.foldl_cons] at h
    by_cases hen : enabled c p.1 t = true
    · simp only [hen, if_true] at h
      rcases ih _ e h with h1 | ⟨pre, t', post, h1, h2, h3⟩
      · simp only [List.mem_append] at h1
        rcases h1 with h1 | h1
        · exact Or.inl h1
        · exact Or.inr ⟨[], t, r, rfl, hen, h1⟩
      · refine Or.inr ⟨t :: pre, t', post, by simp [h1], ?_, ?_⟩
        · rw [run_cons]; simpa [hen] using h2
        · rw [run_cons]; simpa [hen] using h3
    · simp only [hen] at h
      rcases ih _ e h with h1 | ⟨pre, t', post, h1, h2, h3⟩
      · exact Or.inl h1
      · refine Or.inr ⟨t :: pre, t', post, by simp [h1], ?_, ?_⟩
        · rw [run_cons]; simpa [hen] using h2
        · rw [run_cons]; simpa [hen] using h3

theorem runEv_mem (sched : List Nat) (e : Ev) (h : e ∈ (runEv c (init c) sched).2) :
    ∃ pre t post, sched = pre ++ t :: post ∧ enabled c (run c (init c) pre) t = true
      ∧ e ∈ (astep c (run c (init c) pre) t).2 := by
  rcases runEvA_mem c sched (init c, []) e h with h1 | h1
  · cases h1
  · exact h1

end

end Cocls.Chain
