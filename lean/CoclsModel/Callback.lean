/-
Micro-step model of the callback adapters of cocls (C18):

* `callback_await` / `callback_await_alloc` (callback_awaiter.h): a detached coroutine whose frame is the helper block; it
  constructs the awaitable, checks `ready()` (load), subscribes (CAS), and after the resolution calls the callback with
  the `await_result` and destroys its frame;
* `make_promise` (future.h): heap / storage `future_with_cb` whose awaiter slot is pre-loaded with its own node; the
  resume function calls the callback and deletes the object;
* `future_with_cb::operator<<` (future.h, `mkCb`): the same self-owning object attached to the future a source factory
  returns: the pre-loaded registration is taken out, the future is re-created from the factory's result (`result_of`) and
  the object subscribes to it like any awaiter (CAS); refused = already resolved: it resumes itself at once;
* `discard` (future.h): heap awaiter owning the future; subscribes in its constructor or runs its finaliser itself;
* `future_conv` (future_conv.h): member future + parked outer promise; the resume function reads the source (`*_fut`),
  runs the converter and resolves the outer promise (value, source exception, converter exception, dropped);
* `call_fn_future_awaiter` (future.h): member future, resume function calls a member function with the future;
* `call_fn_awaiter` (awaiter.h): a bare awaiter whose resume function calls a member function with the awaiter; it owns no
  future and has no registration function of its own — the user drives the subscription protocol of
  `co_awaiter::subscribe` by hand: `await_ready()` (load), `subscribe(&awt)` (CAS), and on "already resolved" completes
  it himself (`awt.resume()`); the node is a member object re-used for one operation after the other.

One awaited operation = one source future (slot + payload) + one shared promise (`owner`) + exactly one adapter.
Agents: agent 0 is the *registrar* (runs the registration, optionally invokes the promise itself afterwards:
"resolves later on the same thread"), the other agents are resolver calls (`promise::operator()(value|exception|drop)`)
or destructor agents (`~promise`, enabled once every invocation returned) on other threads.  `pre` = the awaited
operation resolves its promise inside the factory, i.e. before the registration ("already resolved at registration").

One agent step = the plain code up to and including the agent's next operation on one of the two *shared* atomics
(`slot` = `future::_awaiter`, `owner` = `promise::_owner`) — exactly the step of `harness/h_callback.cpp` under the baton
scheduler in `track_only` mode.  Whoever detaches the adapter's node from the slot (or is refused by it) holds the
*completion* and runs it: `nloads` further loads of the slot (`ready()` in `*_fut`, `pending()` inside `value()` of a
future without value), then callback / converter / release of the helper block.

Re-use: `future_conv` and `call_fn_future_awaiter` objects serve one operation after the other; the adapter's awaiter
node is the same every time, and its `_next` link (`nxt`) is the expected value of the next subscribing CAS.  `initWith`
starts an operation with the link the previous one left behind, `runOps` chains operations.

A callback of `callback_await` may throw (`cbThrows`): the helper coroutine remembers that the outcome has been
delivered, its catch branch does not call the callback again and the exception is ignored like any result of a detached
coroutine.  Starting the awaited operation may throw (`startThrew`): the `<<` adapters re-create their future resolved
with the exception (`future::result_of`), `callback_await` constructs the awaitable inside its try block and hands the
exception to the callback.  The callbacks of the other adapters are invoked from `noexcept` resume functions (a throw is
`std::terminate`: not a behaviour of the adapter, not modelled).

`astepAsIs` / `runAsIs` at the end keep the three behaviours the pinned code had instead (repaired in /repo by 963fa92,
42a8746, edcba93); `Props/C18.lean` has a witness run for each.

Ghost fields (never consulted by the control flow): `calls`, `saw`, `convIn`, `outerSets`, `allocs`, `frees`, `tok`,
`wins`, `winner`.
-/
namespace Cocls.Callback

inductive Outcome where
  | none                 -- resolved without value (drop / destruction of the promise)
  | val (v : Nat)
  | exc (c : Nat)
  deriving DecidableEq, Repr, Inhabited

/-- kind of a promise invocation -/
inductive RK where
  | value (v : Nat) | exc (c : Nat) | drop
  deriving DecidableEq, Repr, Inhabited

def RK.payload : RK → Outcome
  | RK.value v => Outcome.val v
  | RK.exc c => Outcome.exc c
  | RK.drop => Outcome.none

/-- what a callback sees when it reads the result (`await_result::get`, `future::value`) -/
inductive Obs where
  | val (v : Nat) | exc (c : Nat) | canceled
  deriving DecidableEq, Repr, Inhabited

def Outcome.obs : Outcome → Obs
  | Outcome.val v => Obs.val v
  | Outcome.exc c => Obs.exc c
  | Outcome.none => Obs.canceled

inductive Adapter where
  | cbAwait | mkProm | discard | conv | callFn | callAwt | mkCb
  deriving DecidableEq, Repr, Inhabited

/-- behaviour of the user's converter (`future_conv`): returns the converted value, throws, or (promise-taking shapes
only) returns without resolving the promise it was handed -/
inductive ConvB where
  | ret | throw (c : Nat) | leave
  deriving DecidableEq, Repr, Inhabited

/-- final state of the outer future of a converter -/
inductive OuterRes where
  | val (v : Nat)        -- the converted value
  | exc (c : Nat)        -- exception of the source or of the converter
  | canceledExc          -- source was dropped: `*_fut` threw await_canceled_exception, stored as exception
  | noValue              -- the converter left the promise unresolved: broken promise
  deriving DecidableEq, Repr, Inhabited

inductive Slot where
  | null | node | ready
  deriving DecidableEq, Repr, Inhabited

/-- who runs a completion, i.e. how the thread continues afterwards -/
inductive Who where
  | reg      -- the registrar, inline during the registration (refused subscribe / ready at `await_ready`)
  | res      -- a promise invocation (prints its `true` result afterwards)
  | dt       -- a destructor agent
  deriving DecidableEq, Repr, Inhabited

inductive Pc where
  | gStart                     -- registrar: allocate the helper, call the factory, first operation on the slot
  | gCas                       -- registrar (callback_await): `ready()` said no, now the subscribing CAS
  | gParked                    -- registrar: subscribed; returns from the registration
  | rArrive | rBlocked         -- resolver thread: waits until the promise exists
  | rFinLost                   -- lost the claim: returns false
  | rResolve (dt : Bool)       -- winner (or destructor): `set`, `resolve()` exchange
  | rRet (dt : Bool)           -- the exchange found no awaiter: return
  | dArrive | dBlocked | dFin  -- destructor agent
  | comp (k : Nat) (w : Who)   -- holds the completion: `k` loads of the slot, then callback/converter/free
  | done
  deriving DecidableEq, Repr, Inhabited

/-- the ghost completion token: exactly one party is responsible for running the completion -/
inductive Tok where
  | slot                 -- parked in the awaiter slot
  | agent (t : Nat)      -- held by an agent (registrar before its decision, or whoever detached / was refused)
  | used                 -- the completion ran
  deriving DecidableEq, Repr, Inhabited

inductive Win where
  | factory | agent (t : Nat)
  deriving DecidableEq, Repr, Inhabited

inductive Ev where
  | opLoadSlot (t : Nat) (s : Slot)
  | opCas (t : Nat) (ok : Bool) (s : Slot)
  | opXchgOwner (t : Nat) (had : Bool)
  | opLoadOwner (t : Nat) (had : Bool)
  | opXchgSlot (t : Nat) (s : Slot)
  | rBlock (t : Nat)
  | dBlock (t : Nat)
  | fin (t : Nat)
  | alloc
  | free
  | cb (o : Obs)
  | conv (i : Option Nat)
  | ret (t : Nat) (b : Bool)
  | callerCont           -- the code that called `callback_await` carries on (its full expression is over)
  | deadArg              -- the awaited operation was constructed from an argument that no longer exists
  deriving DecidableEq, Repr, Inhabited

structure Cfg where
  adapter : Adapter
  n : Nat                          -- number of agents; agent 0 = registrar
  rk : Nat → Option RK             -- agent i ≥ 1: `some k` = promise invocation, `none` = destructor agent
  pre : Option RK := none          -- the factory resolves the operation before it returns
  selfRes : Option RK := none      -- the registrar invokes the promise itself after registering
  cvb : ConvB := ConvB.ret
  cvf : Option Nat → Nat := fun i => match i with | some x => x + 1000 | none => 7000
  srcVoid : Bool := false          -- the source is a future<void>: the converter gets no argument
  convReads : Bool := true         -- the converter glue reads the source (`*_fut`); false = pinned void-source shapes
  cbThrows : Option Nat := none    -- (callback_await) the user's callback throws this exception once it has looked at its result
  startThrew : Bool := false       -- `pre` is the exception thrown by the start of the operation itself (factory / constructor of the awaitable)
  inCoro : Bool := false           -- the registration is made from inside a running coroutine (active `coro_queue`)
  argsByRef : Bool := false        -- NOT the code: `callback_await_coro` taking `Args && ...` (frame holds references)

structure State where
  owner : Bool
  slot : Slot
  payload : Outcome
  published : Bool := false
  pc : Nat → Pc
  outer : Option OuterRes := none
  nxt : Slot := Slot.null        -- `_next` of the adapter's awaiter node = expected value of its next subscribing CAS
  -- ghost: construction of the awaited operation (`Awt awt(args...)` in the helper's body / `_fut << fn`)
  tmpLive : Bool := true         -- the caller's full expression (and its temporary arguments) is still alive
  built : Bool := false          -- the awaited operation has been constructed
  builtLive : Bool := true       -- ... from argument storage that was alive at that moment
  -- ghost
  tok : Tok
  calls : Nat := 0
  saw : List Obs := []
  convIn : List (Option Nat) := []
  outerSets : Nat := 0
  allocs : Nat := 0
  frees : Nat := 0
  wins : Nat
  winner : Option Win

def upd {α} (f : Nat → α) (i : Nat) (v : α) : Nat → α := fun j => if j = i then v else f j

@[simp] theorem upd_same {α} (f : Nat → α) (i : Nat) (v : α) : upd f i v i = v := by simp [upd]
@[simp] theorem upd_other {α} (f : Nat → α) (i j : Nat) (v : α) (h : j ≠ i) : upd f i v j = f j := by
  simp [upd, h]

def initPc (c : Cfg) (i : Nat) : Pc :=
  if i = 0 then Pc.gStart
  else match c.rk i with
    | some _ => Pc.rArrive
    | none => Pc.dArrive

/-- initial state of one awaited operation; `nx` is the `_next` link the adapter's awaiter node carries over from the
previous operation on the same helper object (`future_conv`, `call_fn_future_awaiter` are re-armed with `<<`) -/
def initWith (c : Cfg) (nx : Slot) : State :=
  { owner := c.pre.isNone
    nxt := nx
    slot := if c.pre.isSome then Slot.ready else Slot.null
    payload := match c.pre with | some k => k.payload | none => Outcome.none
    pc := fun i => if i < c.n then initPc c i else Pc.done
    tok := Tok.agent 0
    wins := if c.pre.isSome then 1 else 0
    winner := if c.pre.isSome then some Win.factory else none }

/-- first operation on a helper object: the node's `_next` is null -/
def init (c : Cfg) : State := initWith c Slot.null

/-- does the adapter own a heap / storage block -/
def Adapter.allocates : Adapter → Bool
  | Adapter.cbAwait => true
  | Adapter.mkProm => true
  | Adapter.discard => true
  | Adapter.mkCb => true
  | _ => false

/-- does the completion read the result (`value()`), which costs a `pending()` load when there is no value -/
def readsValue (c : Cfg) : Bool :=
  match c.adapter with
  | Adapter.discard => false
  | Adapter.conv => c.convReads
  | _ => true

/-- operations on the slot a completion performs before its final plain segment -/
def nloads (c : Cfg) (p : Outcome) : Nat :=
  (if c.adapter = Adapter.conv ∧ c.convReads = true then 1 else 0) +
  (if readsValue c = true ∧ p = Outcome.none then 1 else 0)

/-- the payload agent `t` supplies when it wins the promise -/
def payloadOf (c : Cfg) (t : Nat) : Outcome :=
  if t = 0 then (match c.selfRes with | some k => k.payload | none => Outcome.none)
  else (match c.rk t with | some k => k.payload | none => Outcome.none)

/-- argument handed to the converter, if it is invoked at all -/
def convArg (c : Cfg) (p : Outcome) : Option (Option Nat) :=
  if c.convReads = false then some none
  else match p with
    | Outcome.val v => some (if c.srcVoid then none else some v)
    | _ => none

/-- what the outer future of a converter ends up with -/
def convRes (c : Cfg) (p : Outcome) : OuterRes :=
  match convArg c p with
  | some a =>
      (match c.cvb with
       | ConvB.ret => OuterRes.val (c.cvf a)
       | ConvB.throw e => OuterRes.exc e
       | ConvB.leave => OuterRes.noValue)
  | none =>
      (match p with
       | Outcome.exc e => OuterRes.exc e
       | _ => OuterRes.canceledExc)

def setPc (s : State) (t : Nat) (p : Pc) : State := { s with pc := upd s.pc t p }

/-- every promise invocation has returned and the promise exists: `~promise` may run -/
def dtorReady (c : Cfg) (s : State) : Bool :=
  s.published &&
  ((List.range c.n).all fun i =>
    if i = 0 then (c.selfRes.isNone || s.pc 0 == Pc.done)
    else match c.rk i with
      | some _ => s.pc i == Pc.done
      | none => true)

def enabled (c : Cfg) (s : State) (t : Nat) : Bool :=
  match s.pc t with
  | Pc.done => false
  | Pc.rBlocked => s.published
  | Pc.dBlocked => dtorReady c s
  | _ => true

/-- `promise::claim()`: exchange on the owner -/
def claimStep (s : State) (t : Nat) : State × List Ev :=
  if s.owner then
    ({ setPc s t (Pc.rResolve false) with owner := false, wins := s.wins + 1, winner := some (Win.agent t) },
     [Ev.opXchgOwner t true])
  else (setPc s t Pc.rFinLost, [Ev.opXchgOwner t false])

/-- `~promise`: load of the owner -/
def dtorStep (s : State) (t : Nat) : State × List Ev :=
  if s.owner then
    ({ setPc s t (Pc.rResolve true) with owner := false, wins := s.wins + 1, winner := some (Win.agent t) },
     [Ev.opLoadOwner t true])
  else (setPc s t Pc.dFin, [Ev.opLoadOwner t false])

/-- the registrar returns from the registration: either it invokes the promise itself or its thread ends -/
def contReg (c : Cfg) (s : State) : State × List Ev :=
  match c.selfRes with
  | some _ => claimStep s 0
  | none => (setPc s 0 Pc.done, [Ev.fin 0])

/-- what the callback of `callback_await_coro` is shown: the operation's result, once — whether or not it throws
(`cbThrows`): `delivered` is set before the call, so the `catch (...)` branch (which serves a failed operation) does not
call it again; the callback's own exception ends in `unhandled_exception` of the detached coroutine, which ignores it -/
def cbAwaitSees (_c : Cfg) (p : Outcome) : List Obs := [p.obs]

/-- what the user's callbacks are shown when the completion runs with result `p` -/
def sawOf (c : Cfg) (p : Outcome) : List Obs :=
  match c.adapter with
  | Adapter.cbAwait => cbAwaitSees c p
  | Adapter.mkProm => [p.obs]
  | Adapter.callFn => [p.obs]
  | Adapter.callAwt => [p.obs]
  | Adapter.mkCb => [p.obs]
  | _ => []

/-- the converter invocations of a completion (at most one) with their argument -/
def convInOf (c : Cfg) (p : Outcome) : List (Option Nat) :=
  if c.adapter = Adapter.conv then (convArg c p).toList else []

/-- the final plain segment of a completion: callback(s) / converter + resolution of the outer promise / release of the
helper block, in this order -/
def complete (c : Cfg) (s : State) : State × List Ev :=
  ({ s with calls := s.calls + 1, tok := Tok.used,
            saw := s.saw ++ sawOf c s.payload,
            convIn := s.convIn ++ convInOf c s.payload,
            outer := if c.adapter = Adapter.conv then some (convRes c s.payload) else s.outer,
            outerSets := s.outerSets + (if c.adapter = Adapter.conv then 1 else 0),
            frees := s.frees + (if c.adapter.allocates then 1 else 0) },
   (sawOf c s.payload).map Ev.cb ++ (convInOf c s.payload).map Ev.conv ++ (if c.adapter.allocates then [Ev.free] else []))

/-- a promise invocation / destructor returns (`ret` is the line the harness prints for an invocation's result) -/
def retStep (s : State) (t : Nat) (dt : Bool) : State × List Ev :=
  (setPc s t Pc.done, (if dt then [] else [Ev.ret t true]) ++ [Ev.fin t])

/-- where an agent stands once the completion it ran is over -/
def afterPc : Who → Pc
  | Who.reg => Pc.gParked
  | Who.res => Pc.rRet false
  | Who.dt => Pc.rRet true

/-- the agent that holds the completion runs it; after the final plain segment the thread simply carries on to its next
operation (the registrar returns from the registration, an invocation returns `true`) within the same step -/
def compStep (c : Cfg) (s : State) (t : Nat) (k : Nat) (w : Who) : State × List Ev :=
  match k with
  | k + 1 => (setPc s t (Pc.comp k w), [Ev.opLoadSlot t Slot.ready])
  | 0 =>
    let r := complete c s
    let s1 := setPc r.1 t (afterPc w)
    let r2 := match w with
      | Who.reg => contReg c s1
      | Who.res => retStep s1 t false
      | Who.dt => retStep s1 t true
    (r2.1, r.2 ++ r2.2)

/-- the subscribing CAS of the registrar (`subscribe_check_ready`): expected value = the node's `_next`.  Success links
the node in; a failure stores the observed head into `_next`; on seeing "ready" the node is unlinked again
(`_next = nullptr`) and the subscription is refused, otherwise the CAS is retried -/
def casStep (c : Cfg) (s : State) : State × List Ev :=
  if s.slot = s.nxt then
    ({ setPc s 0 Pc.gParked with slot := Slot.node, tok := Tok.slot }, [Ev.opCas 0 true s.slot])
  else if s.slot = Slot.ready then
    ({ setPc s 0 (Pc.comp (nloads c s.payload) Who.reg) with nxt := Slot.null }, [Ev.opCas 0 false Slot.ready])
  else ({ setPc s 0 Pc.gCas with nxt := s.slot }, [Ev.opCas 0 false s.slot])

/-- the helper coroutine of `callback_await` does not start inside the call when the calling thread has an active
coroutine queue: `detach()`'s suspend point only queues it, it starts once the caller suspended / finished -/
def deferred (c : Cfg) : Bool := c.inCoro && decide (c.adapter = Adapter.cbAwait)

/-- is the storage the awaited operation is constructed from alive at that moment?  `callback_await_coro` takes its
arguments by value: the coroutine frame (allocated in this very segment, released only after the completion) owns copies.
With references in the frame (`argsByRef`, not the code) it would be the caller's temporaries, which are gone when the
start was deferred.  The other adapters construct the operation inside the caller's full expression. -/
def argStorageLive (c : Cfg) (s : State) : Bool :=
  if c.adapter = Adapter.cbAwait then
    (if c.argsByRef then !deferred c else decide (s.frees < s.allocs + 1))
  else true

/-- the plain prefix of the registration: helper allocation, (deferred start: the caller carries on first,) construction
of the awaited operation = factory call (the promise becomes available) -/
def prep (c : Cfg) (s : State) : State :=
  { s with published := true, allocs := s.allocs + (if c.adapter.allocates then 1 else 0),
           -- a freshly allocated helper has a fresh awaiter node; the member-object adapters re-use theirs
           nxt := if c.adapter.allocates then Slot.null else s.nxt,
           tmpLive := !deferred c, built := true, builtLive := argStorageLive c s }

/-- plain events of the registrar's first segment, in program order -/
def prepEvs (c : Cfg) (s : State) : List Ev :=
  (if c.adapter.allocates then [Ev.alloc] else []) ++ (if deferred c then [Ev.callerCont] else [])
    ++ (if argStorageLive c s then [] else [Ev.deadArg])

/-- first step of the registrar: `prep`, then the first operation on a shared atomic.  `callback_await` asks `ready()`
first, and so does the hand-driven `call_fn_awaiter`; `make_promise` pre-loads the slot with its own node and touches
nothing shared; the others (`future_with_cb::operator<<` among them: the registration it took out of its own, not yet
shared slot is private) subscribe at once.

`callback_await` whose awaited operation throws at its start (`startThrew`; the operation is over, `slot = ready` and
`payload` = that exception stand for its outcome, no future exists): the awaitable is constructed inside the helper's try
block, so the catch branch runs the completion — callback with the exceptional state, then the frame is released — within
this same segment, without any operation on a shared atomic. -/
def startStep (c : Cfg) (s : State) : State × List Ev :=
  let evs := prepEvs c s
  match c.adapter with
  | Adapter.cbAwait =>
      (match s.slot with
       | Slot.ready =>
           if c.startThrew then
             let r := compStep c (setPc (prep c s) 0 (Pc.comp 0 Who.reg)) 0 0 Who.reg
             (r.1, evs ++ r.2)
           else (setPc (prep c s) 0 (Pc.comp (nloads c s.payload) Who.reg), evs ++ [Ev.opLoadSlot 0 Slot.ready])
       | sl => (setPc (prep c s) 0 Pc.gCas, evs ++ [Ev.opLoadSlot 0 sl]))
  | Adapter.callAwt =>
      (match s.slot with
       | Slot.ready => (setPc (prep c s) 0 (Pc.comp (nloads c s.payload) Who.reg), evs ++ [Ev.opLoadSlot 0 Slot.ready])
       | sl => (setPc (prep c s) 0 Pc.gCas, evs ++ [Ev.opLoadSlot 0 sl]))
  | Adapter.mkProm =>
      let r := contReg c (setPc { prep c s with slot := Slot.node, tok := Tok.slot } 0 Pc.gParked)
      (r.1, evs ++ r.2)
  | _ =>
      let r := casStep c (setPc (prep c s) 0 Pc.gCas)
      (r.1, evs ++ r.2)

/-- `future::set` + `resolve()`: the exchange on the slot -/
def resolveStep (c : Cfg) (s : State) (t : Nat) (dt : Bool) : State × List Ev :=
  let pay := if dt then s.payload else payloadOf c t
  match s.slot with
  | Slot.node =>
      ({ setPc s t (Pc.comp (nloads c pay) (if dt then Who.dt else Who.res)) with
          payload := pay, slot := Slot.ready, tok := Tok.agent t, nxt := Slot.null },   -- walker: `y->_next = nullptr`
       [Ev.opXchgSlot t Slot.node])
  | sl => ({ setPc s t (Pc.rRet dt) with payload := pay, slot := Slot.ready }, [Ev.opXchgSlot t sl])

/-- one micro-step of agent `t` -/
def astep (c : Cfg) (s : State) (t : Nat) : State × List Ev :=
  match s.pc t with
  | Pc.done => (s, [])
  | Pc.gStart => startStep c s
  | Pc.gCas => casStep c s
  | Pc.gParked => contReg c s
  | Pc.rArrive => if s.published then claimStep s t else (setPc s t Pc.rBlocked, [Ev.rBlock t])
  | Pc.rBlocked => claimStep s t
  | Pc.rFinLost => (setPc s t Pc.done, [Ev.ret t false, Ev.fin t])
  | Pc.rResolve dt => resolveStep c s t dt
  | Pc.rRet dt => retStep s t dt
  | Pc.dArrive => if dtorReady c s then dtorStep s t else (setPc s t Pc.dBlocked, [Ev.dBlock t])
  | Pc.dBlocked => dtorStep s t
  | Pc.dFin => (setPc s t Pc.done, [Ev.fin t])
  | Pc.comp k w => compStep c s t k w

/-- run a schedule of agent ids (an entry naming a disabled agent is a stutter here; the driver implements the
harness's fall-through rule on top) -/
def run (c : Cfg) (s : State) (sched : List Nat) : State :=
  sched.foldl (fun s t => if enabled c s t then (astep c s t).1 else s) s

def allDone (c : Cfg) (s : State) : Bool := (List.range c.n).all fun i => s.pc i == Pc.done

/-! ## The pinned code (AS-IS): the three behaviours repaired in /repo by `fix:` commits

`astepAsIs` is `astep` with the three segments below in place of the repaired ones; everything else is unchanged. -/

/-- AS-IS, before /repo 963fa92 "callback_await called the callback a second time when it threw": the callback was invoked
inside the try block that guards the `co_await`, so when it threw while holding a *value* the coroutine's `catch (...)` —
meant for a failed operation — called it again, with an exceptional state carrying the callback's own exception (a throw
from inside the catch block escapes into `unhandled_exception`, which ignores it) -/
def cbAwaitSeesAsIs (c : Cfg) (p : Outcome) : List Obs :=
  match c.cbThrows, p with
  | some e, Outcome.val v => [Obs.val v, Obs.exc e]
  | _, _ => [p.obs]

def sawOfAsIs (c : Cfg) (p : Outcome) : List Obs :=
  match c.adapter with
  | Adapter.cbAwait => cbAwaitSeesAsIs c p
  | _ => sawOf c p

/-- AS-IS (before 963fa92): the final plain segment of a completion -/
def completeAsIs (c : Cfg) (s : State) : State × List Ev :=
  ({ s with calls := s.calls + 1, tok := Tok.used,
            saw := s.saw ++ sawOfAsIs c s.payload,
            convIn := s.convIn ++ convInOf c s.payload,
            outer := if c.adapter = Adapter.conv then some (convRes c s.payload) else s.outer,
            outerSets := s.outerSets + (if c.adapter = Adapter.conv then 1 else 0),
            frees := s.frees + (if c.adapter.allocates then 1 else 0) },
   (sawOfAsIs c s.payload).map Ev.cb ++ (convInOf c s.payload).map Ev.conv ++ (if c.adapter.allocates then [Ev.free] else []))

def compStepAsIs (c : Cfg) (s : State) (t : Nat) (k : Nat) (w : Who) : State × List Ev :=
  match k with
  | k + 1 => (setPc s t (Pc.comp k w), [Ev.opLoadSlot t Slot.ready])
  | 0 =>
    let r := completeAsIs c s
    let s1 := setPc r.1 t (afterPc w)
    let r2 := match w with
      | Who.reg => contReg c s1
      | Who.res => retStep s1 t false
      | Who.dt => retStep s1 t true
    (r2.1, r.2 ++ r2.2)

/-- AS-IS, before /repo 42a8746 "callback_await lost the completion when starting the awaited operation threw": the
awaitable was constructed *outside* of the helper's try block.  The exception left the coroutine body, went to
`unhandled_exception` of a coroutine without future (dropped), the frame was released at the final suspend point and the
registration returned normally: the callback is never called and nobody holds the completion any more.  (With assertions
enabled the half-constructed `future` additionally tripped "Destroy of pending future" while the exception propagated.) -/
def startThrowsAsIs (c : Cfg) (s : State) : State × List Ev :=
  let r := contReg c (setPc { prep c s with frees := s.frees + 1 } 0 Pc.gParked)
  (r.1, prepEvs c s ++ [Ev.free] ++ r.2)

/-- AS-IS, before /repo edcba93 "future_with_cb::operator<< lost the callback": the operator only forwarded to
`future<T>::operator<<`, which destroys the future and constructs the factory's result over it — the registration the
constructor had pre-loaded (`_awaiter = this`) was overwritten and nothing subscribed again.  The registrar touches no
shared atomic and returns; whoever resolves the operation finds no awaiter: the callback is never called and the object
never released.  (With assertions enabled "Destroy of pending future" fired at the first use.) -/
def lshiftAsIs (c : Cfg) (s : State) : State × List Ev :=
  let r := contReg c (setPc (prep c s) 0 Pc.gParked)
  (r.1, prepEvs c s ++ r.2)

def startStepAsIs (c : Cfg) (s : State) : State × List Ev :=
  match c.adapter with
  | Adapter.cbAwait => if c.startThrew ∧ s.slot = Slot.ready then startThrowsAsIs c s else startStep c s
  | Adapter.mkCb => lshiftAsIs c s
  | _ => startStep c s

/-- one micro-step of agent `t` on the pinned code -/
def astepAsIs (c : Cfg) (s : State) (t : Nat) : State × List Ev :=
  match s.pc t with
  | Pc.gStart => startStepAsIs c s
  | Pc.comp k w => compStepAsIs c s t k w
  | _ => astep c s t

def runAsIs (c : Cfg) (s : State) (sched : List Nat) : State :=
  sched.foldl (fun s t => if enabled c s t then (astepAsIs c s t).1 else s) s

/-- one awaited operation on a helper object: its configuration and the schedule it runs under -/
structure OpRun where
  c : Cfg
  sched : List Nat

/-- successive operations on one helper object (`future_conv` / `call_fn_future_awaiter` re-armed with `<<`): each
operation has its own source future, promise, agents and ghost counters, and starts with the `_next` link the previous
operation left in the adapter's awaiter node; returns the final state of every operation -/
def runOps : Slot → List OpRun → List State
  | _, [] => []
  | nx, o :: rest => (run o.c (initWith o.c nx) o.sched) :: runOps (run o.c (initWith o.c nx) o.sched).nxt rest

/-! ## How the operation's value is stored in the source future and read back by the adapter

The machines above carry the operation's outcome as `payload` (`val v`).  Below that abstraction the adapter's
`future<T>` may have been constructed *in place* from a `future<T&>` returned by the source factory (`ReturnsFuture`
admits it): both share one layout, and the state tag decides how `future<T>::value()` reads the union. -/

inductive FState where
  | notValue | value | valueRef | exception
  deriving DecidableEq, Repr, Inhabited

inductive SrcFlavour where
  | byValue        -- the factory returns a `future<T>`
  | refPromise     -- a `future<T&>` resolved through its promise (`future::set_ref`)
  | refStatic      -- an already resolved `future<T&>::set_value(x)` (`__SetReferenceTag` constructor)
  deriving DecidableEq, Repr, Inhabited

/-- the state tag a source holding a value ends up with; `asIs` = the pinned `__SetReferenceTag` constructor, which
stored the address under `State::value` -/
def storedState (asIs : Bool) : SrcFlavour → FState
  | SrcFlavour.byValue => FState.value
  | SrcFlavour.refPromise => FState.valueRef
  | SrcFlavour.refStatic => if asIs then FState.value else FState.valueRef

/-- `future<T>::value()` on the adapter's future: `v` = the operation's value, `a` = the bits of the address of the cell a
reference source refers to.  `State::value` reads the union as an inline `T` (for a reference source those are the
pointer bits), `State::value_ref` dereferences the stored pointer. -/
def readBack (fl : SrcFlavour) (st : FState) (v a : Nat) : Option Nat :=
  match st with
  | FState.value => some (match fl with | SrcFlavour.byValue => v | _ => a)
  | FState.valueRef => some v
  | _ => none

end Cocls.Callback
