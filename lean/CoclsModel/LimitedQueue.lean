/-
Model of `cocls::limited_queue<T>` (queue.h), one step per lock region, promise resolutions that the
code performs *after* dropping the lock kept as separate in-flight steps (`Op.deliver k`), so the
theorems quantify over every interleaving of lock regions and out-of-lock resolutions of any number
of producers and consumers.

Items carry the (ghost) serial number of the push that brought them: `(pushId, value)`.

Throwing items.  `T` may refuse to be constructed from the arguments of `push` (`Op.pushthrow`), and a *hand-over* -
the construction of a `T` from another `T`, by move or copy - may throw.  A call is run under a fault plan `(g, n)`:
the hand-overs number `g … g+n-1` that this call performs throw (`throwsAt`; `n = 0`: none), each before anything is
moved (strong guarantee of the item's constructor; `std::deque::emplace_back` has no effect when the construction
throws).  The model counts the hand-overs exactly where the code performs them:

* `pop` (queue.h:299-332): #1 `promise(std::move(_queue.front()))` - the consumer's value is constructed from the head
  item *before* anything is removed; then, for the blocked producers from the oldest on, one hand-over each
  (`_queue.push(std::move(front.first))`, #2, #3, …) until one succeeds.
* `push` (queue.h:275-293): none when a consumer waits (`p(args…)` constructs in the future) or there is room
  (`_queue.emplace(args…)`); two when the producer blocks (`{T(args…), promise}`: temporary → pair → `_blocked`).
* `unblock_push` (queue.h:347-354): #1 `auto front = std::move(_blocked.front())`.
-/
namespace Cocls.LQ

/-- outcome of a future handed out by the queue -/
inductive Out where
  | val (pid : Nat) (v : Nat)   -- pop: the item of push `pid`
  | ok                          -- push accepted
  | exc (c : Nat)               -- failed by unblock_* with exception code c
  | canceled                    -- promise destroyed without value
  | itemerr                     -- push: the item threw when it was moved into the queue (it is withdrawn)
  deriving DecidableEq, Repr, Inhabited

/-- a resolution of one of the futures the queue handed out -/
inductive Ev where
  | pop (id : Nat) (o : Out)
  | push (id : Nat) (o : Out)
  deriving DecidableEq, Repr, Inhabited

structure State where
  limit : Nat
  items : List (Nat × Nat) := []      -- `_queue`, oldest first
  waiters : List Nat := []            -- `_awaiters` (pop ids), oldest first
  blocked : List (Nat × Nat) := []    -- `_blocked` (item, promise of push pid), oldest first
  nextPop : Nat := 0
  nextPush : Nat := 0
  inflight : List Ev := []            -- decided under the lock, not yet performed
  alive : Bool := true
  -- ghost
  assigned : List (Nat × (Nat × Nat)) := []   -- (pop id, item) in hand-over order
  withdrawn : List Nat := []                  -- push ids removed by unblock_push / a failed admission / destruction
  completed : List Ev := []                   -- resolutions performed so far, in order
  deriving Repr

inductive Op where
  | push (v : Nat)
  | pop
  | upop (c : Nat)
  | upush (c : Nat)
  | size
  | empty
  | destroy
  | deliver (k : Nat)     -- perform the k-th in-flight resolution
  -- throwing items
  | pushthrow                       -- `push` of an item that refuses to be constructed
  | pushmv (v : Nat) (g n : Nat)    -- `push v` under the fault plan (g, n)
  | popthrow (g n : Nat)            -- `pop` under the fault plan (g, n) (plain call or from a coroutine)
  | upushthrow (c : Nat) (g n : Nat)
  deriving Repr, DecidableEq

inductive Res where
  | push (id : Nat) (ready : Bool)
  | pop (id : Nat) (o : Option Out)
  | flag (b : Bool)
  | num (n : Nat)
  | unit
  | bad
  | threw                 -- the exception of the item left the call: no future
  deriving Repr, DecidableEq

def init (limit : Nat) : State := { limit := limit }

/-- fault plan `(g, n)`: does the `k`-th hand-over of the call throw? -/
def throwsAt (g n k : Nat) : Bool := decide (g ≤ k ∧ k < g + n)

/-- `limited_queue::push` lock region -/
def stepPush (s : State) (v : Nat) : State × Res :=
  let id := s.nextPush
  match s.waiters with
  | w :: ws =>
      ({ s with waiters := ws, nextPush := id + 1,
                inflight := s.inflight ++ [Ev.pop w (Out.val id v)],
                assigned := s.assigned ++ [(w, (id, v))],
                completed := s.completed ++ [Ev.push id Out.ok] }, Res.push id true)
  | [] =>
      if s.items.length ≥ s.limit then
        ({ s with blocked := s.blocked ++ [(id, v)], nextPush := id + 1 }, Res.push id false)
      else
        ({ s with items := s.items ++ [(id, v)], nextPush := id + 1,
                  completed := s.completed ++ [Ev.push id Out.ok] }, Res.push id true)

/-- `push` under a fault plan.  Only the blocking path hands the item over (twice: temporary → pair → `_blocked`,
queue.h:286); when either throws, the pair never reaches `_blocked` (`std::deque::emplace_back` has no effect), the
promise of the `future<void>` under construction dies with it, the `unique_lock` unlocks during unwinding and the
exception leaves `push`: no future, nothing changed. -/
def stepPushMv (s : State) (v g n : Nat) : State × Res :=
  if s.waiters.isEmpty && decide (s.items.length ≥ s.limit) && (throwsAt g n 1 || throwsAt g n 2) then (s, Res.threw)
  else stepPush s v

/-- `push` of an item whose constructor throws.
Nobody waiting: the constructor runs inside the lock region (`_queue.emplace`, queue.h:289, or `T(args…)` in the
initialiser of the blocked producer's future, queue.h:286) - nothing changes.
A consumer waiting (queue.h:277-282): its promise is moved out under the lock, the lock is dropped, `p(args…)`
constructs the item inside the future: the constructor throws after `promise::set_value` claimed the promise, which
resolves the future *without a value* (future.h:645-653) - the waiting pop completes as canceled, out of the lock,
hence in flight first.  Either way the exception reaches the caller and no item exists. -/
def stepPushThrow (s : State) : State × Res :=
  match s.waiters with
  | [] => (s, Res.threw)
  | w :: ws => ({ s with waiters := ws, inflight := s.inflight ++ [Ev.pop w Out.canceled] }, Res.threw)

/-- The admission loop of `pop` (queue.h:315-326): candidates from the oldest blocked producer on; `k` is the number of
the next hand-over of the call.  A candidate whose item throws on the way into the queue is failed (its item is
withdrawn), the first one that does not is admitted.  Returns (failed, admitted, rest). -/
def admitLoop (g n : Nat) : Nat → List (Nat × Nat) → List (Nat × Nat) × Option (Nat × Nat) × List (Nat × Nat)
  | _, [] => ([], none, [])
  | k, b :: bs =>
      if throwsAt g n k then
        ((b :: (admitLoop g n (k + 1) bs).1), (admitLoop g n (k + 1) bs).2.1, (admitLoop g n (k + 1) bs).2.2)
      else ([], some b, bs)

/-- `limited_queue::pop` lock region under the fault plan `(g, n)`.
Empty queue: the promise is parked, nothing is handed over.
Otherwise hand-over #1 constructs the consumer's value straight from `_queue.front()`; when it throws,
`promise::set_value` resolves the future under construction and rethrows, the exception leaves the initialiser of
`future<T>` and `pop()` itself *before* `_queue.pop()` is reached: no future (no pop serial), nothing changed.
Once the item is delivered nothing throws out of `pop` any more: the admission loop (`admitLoop`) fails the producers
whose item refuses the move - with the item's exception, out of the lock - and admits the next one. -/
def stepPopF (s : State) (g n : Nat) : State × Res :=
  let id := s.nextPop
  match s.items with
  | [] => ({ s with waiters := s.waiters ++ [id], nextPop := id + 1 }, Res.pop id none)
  | x :: xs =>
      if throwsAt g n 1 then (s, Res.threw)
      else
        ({ s with items := xs ++ (admitLoop g n 2 s.blocked).2.1.toList, blocked := (admitLoop g n 2 s.blocked).2.2,
                  nextPop := id + 1,
                  withdrawn := s.withdrawn ++ (admitLoop g n 2 s.blocked).1.map (·.1),
                  inflight := s.inflight ++ (admitLoop g n 2 s.blocked).1.map (fun b => Ev.push b.1 Out.itemerr)
                                ++ (admitLoop g n 2 s.blocked).2.1.toList.map (fun b => Ev.push b.1 Out.ok),
                  assigned := s.assigned ++ [(id, x)],
                  completed := s.completed ++ [Ev.pop id (Out.val x.1 x.2)] },
         Res.pop id (some (Out.val x.1 x.2)))

/-- `pop` of nothrow items -/
def stepPop (s : State) : State × Res := stepPopF s 0 0

def stepUpop (s : State) (c : Nat) : State × Res :=
  match s.waiters with
  | [] => (s, Res.flag false)
  | w :: ws => ({ s with waiters := ws, inflight := s.inflight ++ [Ev.pop w (Out.exc c)] }, Res.flag true)

def stepUpush (s : State) (c : Nat) : State × Res :=
  match s.blocked with
  | [] => (s, Res.flag false)
  | b :: bs => ({ s with blocked := bs, withdrawn := s.withdrawn ++ [b.1],
                         inflight := s.inflight ++ [Ev.push b.1 (Out.exc c)] }, Res.flag true)

/-- `unblock_push` under a fault plan: hand-over #1 moves the `{item, promise}` pair out of `_blocked.front()`
(queue.h:350) before `_blocked.pop()`; when it throws the exception leaves `unblock_push`, nothing changed. -/
def stepUpushF (s : State) (c g n : Nat) : State × Res :=
  if !s.blocked.isEmpty && throwsAt g n 1 then (s, Res.threw) else stepUpush s c

/-- destructor: every parked promise is dropped (resolved without value) -/
def stepDestroy (s : State) : State × Res :=
  ({ s with alive := false, waiters := [], blocked := [],
            withdrawn := s.withdrawn ++ s.blocked.map (·.1),
            completed := s.completed ++ s.blocked.map (fun b => Ev.push b.1 Out.canceled)
                          ++ s.waiters.map (fun w => Ev.pop w Out.canceled) }, Res.unit)

def stepDeliver (s : State) (k : Nat) : State × Res :=
  match s.inflight[k]? with
  | none => (s, Res.bad)
  | some e => ({ s with inflight := s.inflight.eraseIdx k, completed := s.completed ++ [e] }, Res.unit)

def stepLive (s : State) (op : Op) : State × Res :=
  match op with
  | Op.push v => stepPush s v
  | Op.pop => stepPop s
  | Op.upop c => stepUpop s c
  | Op.upush c => stepUpush s c
  | Op.size => (s, Res.num s.items.length)
  | Op.empty => (s, Res.flag s.items.isEmpty)
  | Op.destroy => stepDestroy s
  | Op.deliver k => stepDeliver s k
  | Op.pushthrow => stepPushThrow s
  | Op.pushmv v g n => stepPushMv s v g n
  | Op.popthrow g n => stepPopF s g n
  | Op.upushthrow c g n => stepUpushF s c g n

def step (s : State) (op : Op) : State × Res :=
  match op with
  | Op.deliver k => stepDeliver s k
  | _ => if s.alive then stepLive s op else (s, Res.bad)

def run (s : State) (ops : List Op) : State := ops.foldl (fun s op => (step s op).1) s

/-- the unrepaired code (pinned commit): enqueue first, then decide, and store a second copy -/
def stepPushAsIs (s : State) (v : Nat) : State × Res :=
  let id := s.nextPush
  match s.waiters with
  | w :: ws =>
      ({ s with waiters := ws, nextPush := id + 1,
                inflight := s.inflight ++ [Ev.pop w (Out.val id v)],
                assigned := s.assigned ++ [(w, (id, v))],
                completed := s.completed ++ [Ev.push id Out.ok] }, Res.push id true)
  | [] =>
      if s.items.length + 1 ≥ s.limit then
        ({ s with items := s.items ++ [(id, v)], blocked := s.blocked ++ [(id, v)], nextPush := id + 1 },
         Res.push id false)
      else
        ({ s with items := s.items ++ [(id, v)], nextPush := id + 1,
                  completed := s.completed ++ [Ev.push id Out.ok] }, Res.push id true)

def stepAsIs (s : State) (op : Op) : State × Res :=
  match op with
  | Op.push v => if s.alive then stepPushAsIs s v else (s, Res.bad)
  | _ => step s op

def runAsIs (s : State) (ops : List Op) : State := ops.foldl (fun s op => (stepAsIs s op).1) s

/-- `pop` as it was before fix 2877284: after the delivery (#1) and `_queue.pop()` the `{item, promise}` pair of the
oldest blocked producer was moved into a local (#2) and its item from there into the queue (#3), with nothing to stop
an exception: it left `pop()` while the consumer's `future<T>` was still under construction - the delivered item died
with it (nobody received it), the queue stayed one item short with producers still blocked; at #3 the local pair was
destroyed as well: the producer's push ended as canceled while its (moved-from) entry stayed in `_blocked`. -/
def stepPopAsIs (s : State) (g n : Nat) : State × Res :=
  match s.items, s.blocked with
  | _ :: xs, b :: _ =>
      if throwsAt g n 1 then (s, Res.threw)
      else if throwsAt g n 2 then ({ s with items := xs }, Res.threw)
      else if throwsAt g n 3 then
        ({ s with items := xs, completed := s.completed ++ [Ev.push b.1 Out.canceled] }, Res.threw)
      else stepPopF s 0 0
  | _, _ => stepPopF s g n

def stepAsIsPop (s : State) (op : Op) : State × Res :=
  match op with
  | Op.popthrow g n => if s.alive then stepPopAsIs s g n else (s, Res.bad)
  | _ => step s op

def runAsIsPop (s : State) (ops : List Op) : State := ops.foldl (fun s op => (stepAsIsPop s op).1) s

end Cocls.LQ
