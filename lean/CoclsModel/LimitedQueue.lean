/-
Model of `cocls::limited_queue<T>` (queue.h), one step per lock region, promise resolutions that the
code performs *after* dropping the lock kept as separate in-flight steps (`Op.deliver k`), so the
theorems quantify over every interleaving of lock regions and out-of-lock resolutions of any number
of producers and consumers.

Items carry the (ghost) serial number of the push that brought them: `(pushId, value)`.
-/
namespace Cocls.LQ

/-- outcome of a future handed out by the queue -/
inductive Out where
  | val (pid : Nat) (v : Nat)   -- pop: the item of push `pid`
  | ok                          -- push accepted
  | exc (c : Nat)               -- failed by unblock_* with exception code c
  | canceled                    -- promise destroyed without value
  deriving DecidableEq, Repr, Inhabited

/-- a resolution of one of the futures the queue handed out -/
inductive Ev where
  | pop (id : Nat) (o : Out)
  | push (id : Nat) (o : Out)
  deriving DecidableEq, Repr, Inhabited

structure State where
  limit : Nat
  items : List (Nat × Nat) := []      -- `_queue`, oldest first
  waiters : List Nat := []            -- `_awaiters` (pop ids), oldest first
  blocked : List (Nat × Nat) := []    -- `_blocked` (item, promise of push pid), oldest first
  nextPop : Nat := 0
  nextPush : Nat := 0
  inflight : List Ev := []            -- decided under the lock, not yet performed
  alive : Bool := true
  -- ghost
  assigned : List (Nat × (Nat × Nat)) := []   -- (pop id, item) in hand-over order
  withdrawn : List Nat := []                  -- push ids removed by unblock_push
  completed : List Ev := []                   -- resolutions performed so far, in order
  deriving Repr

inductive Op where
  | push (v : Nat)
  | pop
  | upop (c : Nat)
  | upush (c : Nat)
  | size
  | empty
  | destroy
  | deliver (k : Nat)     -- perform the k-th in-flight resolution
  deriving Repr, DecidableEq

inductive Res where
  | push (id : Nat) (ready : Bool)
  | pop (id : Nat) (o : Option Out)
  | flag (b : Bool)
  | num (n : Nat)
  | unit
  | bad
  deriving Repr, DecidableEq

def init (limit : Nat) : State := { limit := limit }

/-- `limited_queue::push` lock region -/
def stepPush (s : State) (v : Nat) : State × Res :=
  let id := s.nextPush
  match s.waiters with
  | w :: ws =>
      ({ s with waiters := ws, nextPush := id + 1,
                inflight := s.inflight ++ [Ev.pop w (Out.val id v)],
                assigned := s.assigned ++ [(w, (id, v))],
                completed := s.completed ++ [Ev.push id Out.ok] }, Res.push id true)
  | [] =>
      if s.items.length ≥ s.limit then
        ({ s with blocked := s.blocked ++ [(id, v)], nextPush := id + 1 }, Res.push id false)
      else
        ({ s with items := s.items ++ [(id, v)], nextPush := id + 1,
                  completed := s.completed ++ [Ev.push id Out.ok] }, Res.push id true)

/-- `limited_queue::pop` lock region -/
def stepPop (s : State) : State × Res :=
  let id := s.nextPop
  match s.items with
  | [] => ({ s with waiters := s.waiters ++ [id], nextPop := id + 1 }, Res.pop id none)
  | x :: xs =>
      match s.blocked with
      | [] =>
          ({ s with items := xs, nextPop := id + 1,
                    assigned := s.assigned ++ [(id, x)],
                    completed := s.completed ++ [Ev.pop id (Out.val x.1 x.2)] },
           Res.pop id (some (Out.val x.1 x.2)))
      | b :: bs =>
          ({ s with items := xs ++ [b], blocked := bs, nextPop := id + 1,
                    inflight := s.inflight ++ [Ev.push b.1 Out.ok],
                    assigned := s.assigned ++ [(id, x)],
                    completed := s.completed ++ [Ev.pop id (Out.val x.1 x.2)] },
           Res.pop id (some (Out.val x.1 x.2)))

def stepUpop (s : State) (c : Nat) : State × Res :=
  match s.waiters with
  | [] => (s, Res.flag false)
  | w :: ws => ({ s with waiters := ws, inflight := s.inflight ++ [Ev.pop w (Out.exc c)] }, Res.flag true)

def stepUpush (s : State) (c : Nat) : State × Res :=
  match s.blocked with
  | [] => (s, Res.flag false)
  | b :: bs => ({ s with blocked := bs, withdrawn := s.withdrawn ++ [b.1],
                         inflight := s.inflight ++ [Ev.push b.1 (Out.exc c)] }, Res.flag true)

/-- destructor: every parked promise is dropped (resolved without value) -/
def stepDestroy (s : State) : State × Res :=
  ({ s with alive := false, waiters := [], blocked := [],
            withdrawn := s.withdrawn ++ s.blocked.map (·.1),
            completed := s.completed ++ s.blocked.map (fun b => Ev.push b.1 Out.canceled)
                          ++ s.waiters.map (fun w => Ev.pop w Out.canceled) }, Res.unit)

def stepDeliver (s : State) (k : Nat) : State × Res :=
  match s.inflight[k]? with
  | none => (s, Res.bad)
  | some e => ({ s with inflight := s.inflight.eraseIdx k, completed := s.completed ++ [e] }, Res.unit)

def stepLive (s : State) (op : Op) : State × Res :=
  match op with
  | Op.push v => stepPush s v
  | Op.pop => stepPop s
  | Op.upop c => stepUpop s c
  | Op.upush c => stepUpush s c
  | Op.size => (s, Res.num s.items.length)
  | Op.empty => (s, Res.flag s.items.isEmpty)
  | Op.destroy => stepDestroy s
  | Op.deliver k => stepDeliver s k

def step (s : State) (op : Op) : State × Res :=
  match op with
  | Op.deliver k => stepDeliver s k
  | _ => if s.alive then stepLive s op else (s, Res.bad)

def run (s : State) (ops : List Op) : State := ops.foldl (fun s op => (step s op).1) s

/-- the unrepaired code (pinned commit): enqueue first, then decide, and store a second copy -/
def stepPushAsIs (s : State) (v : Nat) : State × Res :=
  let id := s.nextPush
  match s.waiters with
  | w :: ws =>
      ({ s with waiters := ws, nextPush := id + 1,
                inflight := s.inflight ++ [Ev.pop w (Out.val id v)],
                assigned := s.assigned ++ [(w, (id, v))],
                completed := s.completed ++ [Ev.push id Out.ok] }, Res.push id true)
  | [] =>
      if s.items.length + 1 ≥ s.limit then
        ({ s with items := s.items ++ [(id, v)], blocked := s.blocked ++ [(id, v)], nextPush := id + 1 },
         Res.push id false)
      else
        ({ s with items := s.items ++ [(id, v)], nextPush := id + 1,
                  completed := s.completed ++ [Ev.push id Out.ok] }, Res.push id true)

def stepAsIs (s : State) (op : Op) : State × Res :=
  match op with
  | Op.push v => if s.alive then stepPushAsIs s v else (s, Res.bad)
  | _ => step s op

def runAsIs (s : State) (ops : List Op) : State := ops.foldl (fun s op => (stepAsIs s op).1) s

end Cocls.LQ
