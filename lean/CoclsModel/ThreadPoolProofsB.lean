import CoclsModel.ThreadPoolInv
/-! Preservation of the thread-pool invariant: submissions and `stop()`. -/
namespace Cocls.Pool

set_option maxHeartbeats 4000000

theorem inv_newJob {c : Cfg} {s : State} {t : Nat} {kd : Kind} {bd : List Prim} {ac : List Act} {kl : Bool} {rest : List Act}
    (h : Inv c s) (hpc : s.pc t = Pc.idle ∨ ∃ r, s.pc t = Pc.peekDone Peek.resub r) :
    Inv c (newJob s t kd bd ac kl rest) := by
  have hfr : s.loc s.nextJob = Loc.fresh := (h.l_fresh _).2 (Nat.le_refl _)
  have hz := h.z_fresh s.nextJob (Nat.le_refl _)
  have hc0 := h.c_once s.nextJob
  have hnq : s.nextJob ∉ s.q := by
    have := h.l_q s.nextJob; grind
  have hdq : s.dq t = [] := by
    have := h.l_dqpc t; grind [Pc.inStop]
  have htm : s.tmp t = [] := by
    have := h.s_tmp_pc t; grind
  unfold newJob
  rcases hpc with hpc | ⟨r, hpc⟩ <;> inv_step h

theorem inv_submit {c : Cfg} {s : State} {t : Nat} {kd : Kind} {bd : List Prim} {kl : Bool} {rest : List Act}
    (h : Inv c s) (hpc : s.pc t = Pc.idle) : Inv c (stepSubmit s t kd bd kl rest).1 :=
  inv_newJob h (Or.inl hpc)

theorem inv_enqCS {c : Cfg} {s : State} {t k j : Nat} (h : Inv c s) (hpc : s.pc t = Pc.enqCS j)
    (hmx : s.mx = none) : Inv c (stepEnqCS s t k j).1 := by
  have hjn : j < s.nextJob := h.t_enq2 t j hpc
  have hl : s.loc j = Loc.rejected t := (h.l_rej t j).1 (Or.inr hpc)
  have hown := h.f_own2 t j hpc
  have hnq : j ∉ s.q := by
    have := h.l_q j; grind
  have hdq : s.dq t = [] := by
    have := h.l_dqpc t; grind [Pc.inStop]
  have htm : s.tmp t = [] := by
    have := h.s_tmp_pc t; grind
  have hnw : 0 < c.nw := h.wf_nw
  have hno : ∀ u, s.pc u ≠ Pc.wLoop ∧ s.pc u ≠ Pc.wCvEnter := by
    intro u; have := (h.m_own u).2; grind
  have huniq : ∀ j', s.pc t = Pc.enqCS j' → j' = j := by
    intro j' e; rw [hpc] at e; injection e with e1; exact e1.symm
  unfold stepEnqCS
  split
  · unfold setPc
    inv_step h
  · rename_i hx
    simp only [Bool.not_eq_true] at hx
    rcases notifyOne_cases { s with pc := upd s.pc t (Pc.afterEnq j true), loc := upd s.loc j Loc.queued, q := s.q ++ [j] } k with ⟨hw, he⟩ | ⟨w, hw, he⟩
    · rw [he]
      dsimp only at hw
      have hex : ∃ w, w < c.nw ∧ w ∉ s.waitq := ⟨0, hnw, by simp [hw]⟩
      inv_step h
    · rw [he]
      dsimp only at hw
      have hwnd := h.s_wqnd
      have hwe : ∀ x, x ∈ s.waitq.erase w ↔ x ≠ w ∧ x ∈ s.waitq := fun x => hwnd.mem_erase_iff
      have hwnd2 : (s.waitq.erase w).Nodup := hwnd.erase w
      have hwpc := h.s_wq_pc w hw
      have hww : w < c.nw := h.t_worker w (by rcases hwpc.1 with h1 | h1 <;> rw [h1] <;> rfl)
      have hex : ∃ w, w < c.nw ∧ w ∉ s.waitq.erase w := ⟨w, hww, by simp [hwe]⟩
      have hbase : s.q.length ≤ s.awake.length := h.a_len hx (by intro e; rw [e] at hw; cases hw)
      have hql : (s.q ++ [j]).length = s.q.length + 1 := by simp
      have hal : (w :: s.awake).length = s.awake.length + 1 := by simp
      have hwa : w ∉ s.awake := by
        intro hm; have := (h.a_mem hx w).1 hm; grind
      inv_step h

theorem inv_stopBegin {c : Cfg} {s : State} {t : Nat} {rest : List Act} {isD : Bool}
    (h : Inv c s) (hpc : s.pc t = Pc.idle) : Inv c (stepStopBegin s t rest isD).1 := by
  have hdq : s.dq t = [] := by
    have := h.l_dqpc t; grind [Pc.inStop]
  have htm : s.tmp t = [] := by
    have := h.s_tmp_pc t; grind
  unfold stepStopBegin
  inv_step h

theorem inv_stopCS {c : Cfg} {s : State} {t : Nat} {isD : Bool}
    (h : Inv c s) (hpc : s.pc t = Pc.stopCS isD) (hmx : s.mx = none) : Inv c (stepStopCS s t isD).1 := by
  have hno : ∀ u, s.pc u ≠ Pc.wLoop ∧ s.pc u ≠ Pc.wCvEnter := by
    intro u; have := (h.m_own u).2; grind
  have hdq : s.dq t = [] := by
    have := h.l_dqpc t; grind [Pc.inStop]
  have htm : s.tmp t = [] := by
    have := h.s_tmp_pc t; grind
  have hqc : ∀ j, s.q.contains j = true ↔ j ∈ s.q := fun j => List.contains_iff_mem
  have hwc : ∀ j, s.waitq.contains j = true ↔ j ∈ s.waitq := fun j => List.contains_iff_mem
  unfold stepStopCS
  inv_step h
  case j_all =>
    intro _ w hw
    cases hx : s.exit with
    | false => exact Or.inr (Or.inr ⟨t, by simp [h.j_thr hx w hw]⟩)
    | true =>
      rcases h.j_all hx w hw with h1 | h1 | ⟨u, hu⟩
      · by_cases hwt : w = t
        · subst hwt; rw [hpc] at h1; cases h1
        · left; simp [hwt, h1]
      · exact Or.inr (Or.inl h1)
      · have hut : u ≠ t := by intro e; subst e; rw [htm] at hu; cases hu
        exact Or.inr (Or.inr ⟨u, by simp [hut, hu]⟩)
  case l_swap =>
    intro u j
    have hq := h.l_q j
    have hs := h.l_swap u j
    have hst := h.l_swap t j
    by_cases hj : j ∈ s.q
    · have hl := hq.1 hj
      simp only [(hqc j).2 hj, ↓reduceIte]
      by_cases hut : u = t
      · subst hut; simp [hj]
      · simp only [hut, ↓reduceIte]
        constructor
        · intro hm; rw [hs.1 hm] at hl; cases hl
        · intro he; injection he with he; exact absurd he.symm hut
    · have hc : ¬ s.q.contains j = true := fun hc => hj ((hqc j).1 hc)
      simp only [hc]
      by_cases hut : u = t
      · subst hut
        simp only [↓reduceIte]
        constructor
        · intro hm; exact absurd hm hj
        · intro he; have := hst.2 he; rw [hdq] at this; cases this
      · simp only [hut, ↓reduceIte]; exact hs

theorem inv_destroySkip {c : Cfg} {s : State} {t : Nat} {rest : List Act} (h : Inv c s) :
    Inv c { s with todo := upd s.todo t rest } := by
  inv_step h

theorem inv_toAfterJob {c : Cfg} {s : State} {t : Nat} (h : Inv c s) (hpc : s.pc t = Pc.idle)
    (hret : s.ret t = Ret.dtorA) : Inv c (setPc s t Pc.wAfterJob) := by
  have htw : t < c.nw := h.t_ret t (by rw [hret]; decide)
  have hdq : s.dq t = [] := by
    have := h.l_dqpc t; grind [Pc.inStop]
  have htm : s.tmp t = [] := by
    have := h.s_tmp_pc t; grind
  have hdf : s.defer t = [] := by
    have := h.b_defpc t; grind
  unfold setPc
  inv_step h

theorem inv_stopJoin {c : Cfg} {s : State} {t : Nat} (h : Inv c s) (hpc : s.pc t = Pc.stopJoin) :
    Inv c (stepStopJoin s t).1 := by
  have hex : s.exit = true := by
    cases hx : s.exit with
    | true => rfl
    | false => have := (h.n_noexit hx t).1; rw [hpc] at this; cases this
  unfold stepStopJoin
  split
  · unfold setPc
    inv_step h
  · rename_i u rest htm
    have hmem : ∀ w, w ∈ s.tmp t ↔ w = u ∨ w ∈ rest := by intro w; simp [htm]
    split
    · rename_i hut
      subst hut
      inv_step h
    · split
      · rename_i hut hdone
        inv_step h
      · unfold setPc
        have hhd : (s.tmp t).head? = some u := by simp [htm]
        inv_step h

theorem inv_joinBlocked {c : Cfg} {s : State} {t : Nat} (h : Inv c s) (hpc : s.pc t = Pc.joinBlocked)
    (hen : enabled s t = true) : Inv c (stepJoinBlocked s t).1 := by
  have hex : s.exit = true := by
    cases hx : s.exit with
    | true => rfl
    | false => have := (h.n_noexit hx t).1; rw [hpc] at this; cases this
  unfold stepJoinBlocked
  split
  · unfold setPc
    inv_step h
  · rename_i u rest htm
    have hmem : ∀ w, w ∈ s.tmp t ↔ w = u ∨ w ∈ rest := by intro w; simp [htm]
    have hdone : s.pc u = Pc.done := by
      simp only [enabled, enabledPc, hpc, Pc.wantsLock, htm, Bool.false_and, Bool.false_eq_true, ↓reduceIte, beq_iff_eq] at hen
      exact hen
    inv_step h

end Cocls.Pool
