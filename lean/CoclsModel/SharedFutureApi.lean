/-
API-level model of `cocls::shared_future` (shared_future.h on top of future.h): whole member-function calls as atomic
steps of ONE thread, any number of handles and shared states, every access spelling of the public interface, the stored
value's state (intact / moved-from) as data.

This is the sequential complement of the micro-step model `SharedFuture.lean` (which has one state, one resolver and the
interleavings): here the history is an arbitrary list of calls
  default construction / the constructors and factories / copy / copy-assignment / destruction of handles,
  `init_if_needed()`, `get_promise()`, `operator<<` (late initialisation),
  the promise called with a value / an exception / `drop`, or destroyed,
  every OBSERVER spelling on any handle at any point of that life cycle (`Sp`): `ready()`, `value()`, `wait()`,
  `force_wait()`, `join()`, `sync()`, `force_sync()`, `co_await` in a coroutine, a callback awaiter, and through
  `operator Base&`: `ready()`, `pending()`, `initialized()`, `value()`, `wait()`, `join()`, `operator*`, `has_value()`,
  `operator bool`, `operator!`,
  and the one documented way of changing the stored value: the USER moving it out (`std::move(h.value())`, `take`).

`harness/h_shared_future_api.cpp` runs the same calls on the real headers with a move-sensitive value type and prints
the same line per call (`Drivers/C17.lean`, case kind `api`).

Totalisation (`Out.pre`, the contract of future.h): blocking spellings are only applied to a resolved state (a single
thread would block for ever); awaiting spellings need a promised state (`co_await` on a state that only went through
`init_if_needed()` asserts "Invalid future state"); `get_promise()` needs no state or a fresh one, `operator<<` a fresh
one; everything except `ready()` / `value()` needs a non-null handle (null dereference in the code).
-/
namespace Cocls.SharedFutureApi

inductive RK where
  | value (v : Nat) | exc (c : Nat) | drop | dtor
  deriving DecidableEq, Repr, Inhabited

/-- the stored result; `intact = false`: the value has been moved from -/
inductive Res where
  | none | val (v : Nat) (intact : Bool) | exc (c : Nat)
  deriving DecidableEq, Repr, Inhabited

def RK.res : RK → Res
  | RK.value v => Res.val v true
  | RK.exc c => Res.exc c
  | RK.drop => Res.none
  | RK.dtor => Res.none

/-- `_awaiter` of the shared future: `&awaiter::instance` (initialised, no promise yet), null / chain (pending),
`&awaiter::disabled` (resolved) -/
inductive Phase where
  | inst | pending | ready
  deriving DecidableEq, Repr, Inhabited

inductive WK where
  | coro | cb
  deriving DecidableEq, Repr, Inhabited

structure SState where
  phase : Phase
  res : Res := Res.none
  refs : Nat := 1                       -- strong count: handles + contexts of suspended awaiters + the tracer while pending
  waiting : List (Nat × WK) := []       -- suspended awaiters (each owns a copy of the handle)
  promised : Bool := false              -- an unused promise object exists
  -- ghost
  resolvedBy : Option RK := none        -- what the resolver (or the factory) stored
  taken : Bool := false                 -- the user moved the value out
  deriving DecidableEq, Repr, Inhabited

inductive Handle where
  | gone | null | at (k : Nat)
  deriving DecidableEq, Repr, Inhabited

inductive Obs where
  | val (v : Nat) | moved | exc (c : Nat) | canceled | notready
  deriving DecidableEq, Repr, Inhabited

def RK.obs : RK → Obs
  | RK.value v => Obs.val v
  | RK.exc c => Obs.exc c
  | RK.drop => Obs.canceled
  | RK.dtor => Obs.canceled

/-- what `future::value()` yields on a state -/
def look (ss : SState) : Obs :=
  match ss.res with
  | Res.val v true => Obs.val v
  | Res.val _ false => Obs.moved
  | Res.exc c => Obs.exc c
  | Res.none => if ss.phase = Phase.pending then Obs.notready else Obs.canceled

/-- `future_common::ready()` -/
def readyOf (ss : SState) : Bool := ss.phase == Phase.ready
/-- `future_common::pending()` -/
def pendingOf (ss : SState) : Bool := ss.phase == Phase.pending
/-- `future_common::initialized()` -/
def initOf (ss : SState) : Bool := ss.phase == Phase.inst
/-- `_state != not_value` (`has_value()`, `operator bool`) -/
def hasValue (ss : SState) : Bool := ss.res != Res.none

/-- observer spellings -/
inductive Sp where
  | ready | value                                        -- non-blocking, defined on a null handle too
  | cready | cpending | cinit | cvalue                   -- non-blocking through `operator Base&`
  | wait | fwait | join | sync | fsync                   -- blocking
  | cwait | cjoin | cderef | chasv | cbool | cnot        -- blocking through `operator Base&`
  | coro | cb                                            -- awaiting
  deriving DecidableEq, Repr, Inhabited

inductive SpClass where
  | poll | block | await
  deriving DecidableEq, Repr

def Sp.cls : Sp → SpClass
  | Sp.ready => SpClass.poll | Sp.value => SpClass.poll | Sp.cready => SpClass.poll | Sp.cpending => SpClass.poll
  | Sp.cinit => SpClass.poll | Sp.cvalue => SpClass.poll
  | Sp.coro => SpClass.await | Sp.cb => SpClass.await
  | _ => SpClass.block

inductive Mk where
  | pf | ff | sv (v : Nat) | se (c : Nat)
  deriving DecidableEq, Repr, Inhabited

inductive Op where
  | new | mk (m : Mk) | copy (i : Nat) | assign (i j : Nat) | drop (i : Nat)
  | init (i : Nat) | getp (i : Nat) | lshift (i : Nat)
  | resolve (k : Nat) (rk : RK)
  | see (sp : Sp) (i : Nat)
  | take (i : Nat)
  deriving DecidableEq, Repr, Inhabited

inductive Ev where
  | obs (w : Nat) (k : WK) (o : Obs) | freed (k : Nat)
  deriving DecidableEq, Repr, Inhabited

inductive Out where
  | h (i : Nat) | hs (i k : Nat) | ok | gone | pre | ret
  | b (k : Option Nat) (b : Bool)          -- a yes/no answer read from state `k` (none: null handle)
  | o (k : Option Nat) (o : Obs)           -- a value / exception read from state `k`
  | j (k : Nat) (o : Obs)                  -- `join()`: returns nothing, throws what `value()` throws
  | done (k : Nat)                         -- `sync()` / `force_sync()`
  | sub (k : Nat) (w : Nat)                -- awaiter `w` created on state `k`
  | took (k : Option Nat) (o : Obs)
  deriving DecidableEq, Repr, Inhabited

structure St where
  handles : List Handle := []
  states : List SState := []
  nextW : Nat := 0
  deriving DecidableEq, Repr, Inhabited

def modAt {α} : List α → Nat → (α → α) → List α
  | [], _, _ => []
  | x :: l, 0, f => f x :: l
  | x :: l, k + 1, f => x :: modAt l k f

def incRef (ss : SState) : SState := { ss with refs := ss.refs + 1 }
def decRef (ss : SState) : SState := { ss with refs := ss.refs - 1 }
def addWaiter (w : Nat) (k : WK) (ss : SState) : SState := { ss with refs := ss.refs + 1, waiting := (w, k) :: ss.waiting }

/-- `future::get_promise()` + `resolve_cb::charge`: the tracer takes its reference -/
def promiseS (ss : SState) : SState :=
  if ss.phase = Phase.inst then { ss with phase := Phase.pending, promised := true, refs := ss.refs + 1 } else ss

/-- the promise is used: the result is stored, the tracer and every suspended awaiter give their reference back -/
def resolveS (rk : RK) (ss : SState) : SState :=
  if ss.promised then
    { ss with promised := false, phase := Phase.ready, res := rk.res, resolvedBy := some rk,
              refs := ss.refs - 1 - ss.waiting.length, waiting := [] }
  else ss

/-- the user moves the stored value out -/
def takeS (ss : SState) : SState :=
  match ss.res with
  | Res.val v true => { ss with res := Res.val v false, taken := true }
  | _ => ss

def refsOf (l : List SState) (k : Nat) : Nat :=
  match l[k]? with
  | some ss => ss.refs
  | none => 0

/-- `~shared_ptr`: the last reference frees the state -/
def release (l : List SState) (k : Nat) : List SState × List Ev :=
  (modAt l k decRef, if refsOf l k = 1 then [Ev.freed k] else [])

def handleAt (s : St) (i : Nat) : Handle := s.handles.getD i Handle.gone

def freshState : SState := { phase := Phase.inst }

def mkState : Mk → SState
  | Mk.pf => { phase := Phase.pending, promised := true, refs := 2 }
  | Mk.ff => { phase := Phase.pending, promised := true, refs := 2 }
  | Mk.sv v => { phase := Phase.ready, res := Res.val v true, resolvedBy := some (RK.value v) }
  | Mk.se c => { phase := Phase.ready, res := Res.exc c, resolvedBy := some (RK.exc c) }

/-- what an observer spelling returns on state `k` in state `ss` (poll and block classes) -/
def seeOut (sp : Sp) (k : Nat) (ss : SState) : Out :=
  match sp with
  | Sp.ready => Out.b (some k) (readyOf ss)
  | Sp.cready => Out.b (some k) (readyOf ss)
  | Sp.cpending => Out.b (some k) (pendingOf ss)
  | Sp.cinit => Out.b (some k) (initOf ss)
  | Sp.value => Out.o (some k) (look ss)
  | Sp.cvalue => Out.o (some k) (look ss)
  | Sp.wait => Out.o (some k) (look ss)
  | Sp.fwait => Out.o (some k) (look ss)
  | Sp.cwait => Out.o (some k) (look ss)
  | Sp.cjoin => Out.o (some k) (look ss)
  | Sp.cderef => Out.o (some k) (look ss)
  | Sp.join => Out.j k (look ss)
  | Sp.sync => Out.done k
  | Sp.fsync => Out.done k
  | Sp.chasv => Out.b (some k) (hasValue ss)
  | Sp.cbool => Out.b (some k) (hasValue ss)
  | Sp.cnot => Out.b (some k) (!hasValue ss)
  | Sp.coro => Out.sub k 0
  | Sp.cb => Out.sub k 0

def Sp.wk : Sp → WK
  | Sp.cb => WK.cb
  | _ => WK.coro

def opSee (s : St) (sp : Sp) (i : Nat) : St × Out × List Ev :=
  match handleAt s i with
  | Handle.gone => (s, Out.gone, [])
  | Handle.null =>
      match sp with
      | Sp.ready => (s, Out.b none false, [])
      | Sp.value => (s, Out.o none Obs.notready, [])
      | _ => (s, Out.pre, [])
  | Handle.at k =>
      match s.states[k]? with
      | none => (s, Out.pre, [])
      | some ss =>
          match sp.cls with
          | SpClass.poll => (s, seeOut sp k ss, [])
          | SpClass.block => if ss.phase = Phase.ready then (s, seeOut sp k ss, []) else (s, Out.pre, [])
          | SpClass.await =>
              if ss.phase = Phase.inst then (s, Out.pre, [])
              else if ss.phase = Phase.ready then
                ({ s with nextW := s.nextW + 1 }, Out.sub k s.nextW, [Ev.obs s.nextW sp.wk (look ss)])
              else
                ({ s with nextW := s.nextW + 1, states := modAt s.states k (addWaiter s.nextW sp.wk) }, Out.sub k s.nextW, [])

def opTake (s : St) (i : Nat) : St × Out × List Ev :=
  match handleAt s i with
  | Handle.gone => (s, Out.gone, [])
  | Handle.null => (s, Out.took none Obs.notready, [])
  | Handle.at k =>
      match s.states[k]? with
      | none => (s, Out.pre, [])
      | some ss => ({ s with states := modAt s.states k takeS }, Out.took (some k) (look ss), [])

def opResolve (s : St) (k : Nat) (rk : RK) : St × Out × List Ev :=
  match s.states[k]? with
  | none => (s, Out.pre, [])
  | some ss =>
      if ss.promised then
        ({ s with states := modAt s.states k (resolveS rk) },
         (if rk = RK.dtor then Out.ok else Out.ret),
         ss.waiting.map (fun w => Ev.obs w.1 w.2 (look (resolveS rk ss))) ++
           (if (resolveS rk ss).refs = 0 then [Ev.freed k] else []))
      else (s, Out.pre, [])

def opGetp (s : St) (i : Nat) : St × Out × List Ev :=
  match handleAt s i with
  | Handle.gone => (s, Out.gone, [])
  | Handle.null =>
      ({ s with handles := s.handles.set i (Handle.at s.states.length), states := s.states ++ [promiseS freshState] }, Out.ok, [])
  | Handle.at k =>
      match s.states[k]? with
      | none => (s, Out.pre, [])
      | some ss =>
          if ss.phase = Phase.inst then ({ s with states := modAt s.states k promiseS }, Out.ok, []) else (s, Out.pre, [])

def opLshift (s : St) (i : Nat) : St × Out × List Ev :=
  match handleAt s i with
  | Handle.gone => (s, Out.gone, [])
  | Handle.null => (s, Out.pre, [])
  | Handle.at k =>
      match s.states[k]? with
      | none => (s, Out.pre, [])
      | some ss =>
          if ss.phase = Phase.inst then ({ s with states := modAt s.states k promiseS }, Out.ok, []) else (s, Out.pre, [])

def opAssign (s : St) (i j : Nat) : St × Out × List Ev :=
  match handleAt s i, handleAt s j with
  | Handle.gone, _ => (s, Out.gone, [])
  | _, Handle.gone => (s, Out.gone, [])
  | hi, hj =>
      if hi = hj then (s, Out.ok, [])
      else
        let st1 := match hj with
          | Handle.at k => modAt s.states k incRef
          | _ => s.states
        match hi with
        | Handle.at k =>
            ({ s with handles := s.handles.set i hj, states := (release st1 k).1 }, Out.ok, (release st1 k).2)
        | _ => ({ s with handles := s.handles.set i hj, states := st1 }, Out.ok, [])

/-- one call -/
def step (s : St) : Op → St × Out × List Ev
  | Op.new => ({ s with handles := s.handles ++ [Handle.null] }, Out.h s.handles.length, [])
  | Op.mk m =>
      ({ s with handles := s.handles ++ [Handle.at s.states.length], states := s.states ++ [mkState m] },
       Out.hs s.handles.length s.states.length, [])
  | Op.copy i =>
      match handleAt s i with
      | Handle.gone => (s, Out.gone, [])
      | Handle.null => ({ s with handles := s.handles ++ [Handle.null] }, Out.h s.handles.length, [])
      | Handle.at k =>
          ({ s with handles := s.handles ++ [Handle.at k], states := modAt s.states k incRef }, Out.h s.handles.length, [])
  | Op.assign i j => opAssign s i j
  | Op.drop i =>
      match handleAt s i with
      | Handle.gone => (s, Out.gone, [])
      | Handle.null => ({ s with handles := s.handles.set i Handle.gone }, Out.ok, [])
      | Handle.at k =>
          ({ s with handles := s.handles.set i Handle.gone, states := (release s.states k).1 }, Out.ok, (release s.states k).2)
  | Op.init i =>
      match handleAt s i with
      | Handle.gone => (s, Out.gone, [])
      | Handle.null =>
          ({ s with handles := s.handles.set i (Handle.at s.states.length), states := s.states ++ [freshState] }, Out.ok, [])
      | Handle.at _ => (s, Out.ok, [])
  | Op.getp i => opGetp s i
  | Op.lshift i => opLshift s i
  | Op.resolve k rk => opResolve s k rk
  | Op.see sp i => opSee s sp i
  | Op.take i => opTake s i

def run (s : St) (ops : List Op) : St := ops.foldl (fun s o => (step s o).1) s

def init : St := {}

/-- the end of the test: remaining promises are destroyed (their awaiters observe the cancellation), then every handle is
dropped: nothing stays alive -/
def endEvs (s : St) : List Ev :=
  let rec go : List SState → Nat → List Ev
    | [], _ => []
    | ss :: l, k =>
        (if ss.promised then ss.waiting.map (fun w => Ev.obs w.1 w.2 Obs.canceled) else []) ++
        (if ss.refs = 0 then [] else [Ev.freed k]) ++ go l (k + 1)
  go s.states 0

end Cocls.SharedFutureApi
