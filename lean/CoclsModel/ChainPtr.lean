import CoclsModel.Chain
/-!
Micro-step model of the promise / future / awaiter-chain core (future.h, awaiter.h), POINTER level.

Same agents, same step granularity (one step = the plain code up to and including the agent's next synchronising
operation) and same events as the list-level model `Chain.lean`; the difference is the representation of the awaiter
chain: here it is what the code has — the atomic slot `future_common::_awaiter` (`head : Ptr`), and one intrusive
`_next` field per waiter's awaiter node (`next : Nat → Ptr`), `Ptr = null | node w | ready` (`ready` = `&awaiter::disabled`).

* `awaiter::subscribe_check_ready` (`casStep`): the expected value of the CAS *is* the node's own `_next` field; a failed
  CAS stores the observed head into `_next` (part of the atomic operation); having observed `ready` the next plain
  segment clears `_next` and returns `false` (`Pc.wRead true`).
* `awaiter::resume_chain_set_ready` (`resolveStep`): `xchg head := ready`; the old head is the walker's local `chain`.
* `awaiter::resume_chain_lk` (`walk`): `while (chain) { y = chain; chain = y->_next; y->_next = nullptr; ret << y->resume(); }`
  — a blocking waiter's `resume()` is `flag.store(true)` (a synchronising operation, hence a step boundary: the blocked
  thread may pass its `flag.wait`, return, and its stack node DIES); a callback's `resume()` is the inline call (its
  closure may be destroyed by it); a coroutine's `resume()` only hands the handle to the suspend point `ret`, which is
  flushed — the coroutines resumed, in order — after the loop (`flush`).  `future::value()` of a future resolved without
  a value performs the `pending()` load of the slot: an operation, hence a boundary inside the callback / the resumed
  coroutine (`pend`).

Ghost fields (never consulted by control flow): `live` (the node of waiter `w` has not died yet), `log` (every plain
access to a node field, with a snapshot of the node's liveness and publication at the moment of the access), and the
ghosts of the list-level model (`wins`, `winner`, `subscribed`, `woken`, `observed`).

Not modelled (assumption of DESIGN §4.4, as at list level): `sync_awaiter::wakeup` calls `flag.notify_all()` after the releasing
`flag.store(true)`; it is assumed to use only the *address* of the atomic.  The `assert`s of `awaiter.h` are not accesses of the model.

`ChainPtrProofs.lean` proves that this model refines `Chain.lean` (`abs`, `sim_step`, `sim_run`) and that no access ever
touches a dead node.  The section `AsIs` at the end is the classic broken walker (resume before reading `_next`), used
only by a `decide` witness in `Props/C02.lean`.
-/
namespace Cocls.ChainPtr
open Cocls.Chain (Outcome RK WK Kind Seen Obs Ev Cfg upd wkOf)

/-- a pointer to an awaiter: `nullptr`, the node of waiter `w`, or `&awaiter::disabled` -/
abbrev Ptr := Seen

/-- plain (non-atomic) fields of an awaiter node: `_next`, and the resumption target (`_resume_fn` / `_handle_addr`) -/
inductive Field where
  | next | handle
  deriving DecidableEq, Repr, Inhabited

/-- one plain access to a field of the node of waiter `node`, by agent `agent`; `live` / `pub` are ghost snapshots taken
at the moment of the access: the node had not died yet / its CAS had already succeeded -/
structure Access where
  agent : Nat
  node : Nat
  field : Field
  write : Bool
  live : Bool
  pub : Bool
  deriving DecidableEq, Repr, Inhabited

inductive Pc where
  | rClaim
  | rFinLost
  | rResolve (dt : Bool)
  /-- the walker: local `chain` pointer, the handles collected in the suspend point, and (inside a callback / a resumed
  coroutine) the `pending()` load of `value()` that has been performed for waiter `x` and returned `seen` -/
  | rWalk (dt : Bool) (cur : Ptr) (ret : List Nat) (pend : Option (Nat × Seen))
  | dArrive | dBlocked | dFin
  | dLoad
  | wLoad
  /-- `subscribe_check_ready`: about to CAS with expected value `_next`; `first`: the plain segment before the first attempt
  also prepares the node (`set_handle` / `set_resume_fn` / construction of the `sync_awaiter`) -/
  | wCas (first : Bool)
  | wFinParked
  | wWait | wBlocked
  /-- read the result; `clr`: reached through the refused CAS — the segment starts with `_next = nullptr` -/
  | wRead (clr : Bool)
  | wRead2 (seen : Seen)
  | done
  deriving DecidableEq, Repr, Inhabited

structure State where
  owner : Bool := true
  head : Ptr := Seen.null
  next : Nat → Ptr := fun _ => Seen.null
  payload : Outcome := Outcome.none
  flag : Nat → Bool := fun _ => false
  pc : Nat → Pc
  -- ghost
  live : Nat → Bool := fun _ => true
  log : List Access := []
  wins : Nat := 0
  winner : Option Nat := none
  subscribed : Nat → Bool := fun _ => false
  woken : Nat → Nat := fun _ => 0
  observed : Nat → Nat := fun _ => 0

def initPc : Kind → Pc
  | Kind.res _ => Pc.rClaim
  | Kind.dtor => Pc.dArrive
  | Kind.wait _ => Pc.wLoad
  | Kind.ddef _ => Pc.dArrive

def init (c : Cfg) : State := { pc := fun i => if i < c.n then initPc (c.kind i) else Pc.done }

def resolversDone (c : Cfg) (s : State) : Bool :=
  (List.range c.n).all fun i =>
    match c.kind i with
    | Kind.res _ => s.pc i == Pc.done
    | _ => true

def enabled (c : Cfg) (s : State) (t : Nat) : Bool :=
  match s.pc t with
  | Pc.done => false
  | Pc.wBlocked => s.flag t
  | Pc.dBlocked => resolversDone c s
  | _ => true

def setPc (s : State) (t : Nat) (p : Pc) : State := { s with pc := upd s.pc t p }

/-- ghost: record a plain access of agent `t` to field `f` of node `y` -/
def acc (s : State) (t y : Nat) (f : Field) (w : Bool) : State :=
  { s with log := s.log ++ [{ agent := t, node := y, field := f, write := w, live := s.live y, pub := s.subscribed y }] }

/-- ghost: the node of waiter `x` dies -/
def die (s : State) (x : Nat) : State := { s with live := upd s.live x false }

/-- waiter `x` is resumed (coroutine) / invoked (callback): from now on its frame / closure — and the awaiter node inside
it — may be destroyed -/
def resumeOf (s : State) (x : Nat) : State :=
  { s with woken := upd s.woken x (s.woken x + 1), live := upd s.live x false }

/-- the result is read for waiter `x` -/
def observe (s : State) (x : Nat) : State := { s with observed := upd s.observed x (s.observed x + 1) }

/-- `future::value()` of a reader of kind `k` needs the extra `pending()` load: no value stored -/
def needsLoad (pay : Outcome) (k : WK) : Bool := k != WK.hasv && pay == Outcome.none

def obsOf (pay : Outcome) (k : WK) (seen : Seen) : Obs :=
  match k with
  | WK.hasv => Obs.hv (pay != Outcome.none)
  | _ =>
    match pay with
    | Outcome.val v => Obs.val v
    | Outcome.exc c => Obs.exc c
    | Outcome.none => if seen = Seen.ready then Obs.canceled else Obs.notready

/-! ## the walker -/

/-- what one step of the walker leaves behind: state, events, the walker's locals, and whether it stopped at an operation
(`false`: loop and flush completed) -/
structure WalkRes where
  s : State
  evs : List Ev
  cur : Ptr
  ret : List Nat
  pend : Option (Nat × Seen)
  stopped : Bool

/-- the suspend point returned by `resume_chain_lk` is flushed: the collected coroutines are resumed in order; each reads
the result inline (`await_resume`) -/
def flush (c : Cfg) (t : Nat) : State → List Nat → WalkRes
  | s, [] => ⟨s, [], Seen.null, [], none, false⟩
  | s, x :: rest =>
      if needsLoad s.payload (wkOf c x) then
        ⟨resumeOf s x, [Ev.opLoadSlot t s.head], Seen.null, rest, some (x, s.head), true⟩
      else
        let r := flush c t (observe (resumeOf s x) x) rest
        { r with evs := Ev.obs x (obsOf s.payload (wkOf c x) Seen.ready) :: r.evs }

/-- `ret << handle`.  `ret` lists the collected handles in the order in which they are going to be resumed: collection order
when the suspend point is dropped; when agent `t` awaits it (`Cfg.aw t`, `co_await promise(...)`), `suspend_point::await_suspend`
pops the *last* handle for the symmetric transfer and queues the others in order — kept up to date handle by handle: the
new handle goes to the front, the previous front to the end (`Chain.awaitOrder` of the collection order, `collect_foldl`) -/
def collect (c : Cfg) (t : Nat) (ret : List Nat) (y : Nat) : List Nat :=
  if c.aw t then
    match ret with
    | [] => [y]
    | h :: tl => y :: (tl ++ [h])
  else ret ++ [y]

/-- `y = chain; chain = chain->_next; y->_next = nullptr;` and the field reads of `y->resume()` — all before the
resumption itself -/
def unlink (s : State) (t y : Nat) : State :=
  { acc (acc (acc s t y Field.next false) t y Field.next true) t y Field.handle false with next := upd s.next y Seen.null }

/-- `resume_chain_lk` from the loop head, up to and including the next synchronising operation.  `fuel` bounds the number of
nodes visited (the recursion follows `_next` pointers); `pstep` supplies `c.n`, and `walk_sim` shows it is never exhausted. -/
def walk (c : Cfg) (t : Nat) : Nat → State → Ptr → List Nat → WalkRes
  | _, s, Seen.null, ret => flush c t s ret
  | _, s, Seen.ready, ret => flush c t s ret      -- unreachable (`ChainIs` never ends in `ready`)
  | 0, s, Seen.node y, ret => ⟨s, [], Seen.node y, ret, none, true⟩      -- out of fuel: unreachable
  | fuel + 1, s, Seen.node y, ret =>
      if wkOf c y = WK.sync then
        -- `sync_awaiter::wakeup`: `flag.store(true)` — the step ends here; `y` is not touched again
        ⟨{ unlink s t y with flag := upd s.flag y true, woken := upd s.woken y (s.woken y + 1) },
         [Ev.opStoreFlag t y], s.next y, ret, none, true⟩
      else if wkOf c y = WK.cb then
        -- the callback runs inline and reads the result
        if needsLoad s.payload (wkOf c y) then
          ⟨resumeOf (unlink s t y) y, [Ev.opLoadSlot t s.head], s.next y, ret, some (y, s.head), true⟩
        else
          let r := walk c t fuel (observe (resumeOf (unlink s t y) y) y) (s.next y) ret
          { r with evs := Ev.obs y (obsOf s.payload (wkOf c y) Seen.ready) :: r.evs }
      else
        -- a coroutine: `ret << handle`
        walk c t fuel (unlink s t y) (s.next y) (collect c t ret y)

/-- the rest of `value()` after its `pending()` load -/
def pendStep (c : Cfg) (s : State) : Option (Nat × Seen) → State × List Ev
  | none => (s, [])
  | some (x, seen) => (observe s x, [Ev.obs x (obsOf s.payload (wkOf c x) seen)])

/-- `~promise`: load `_owner`; if it is still set, resolve the future without a payload -/
def dtorLoad (s : State) (t : Nat) : State × List Ev :=
  if s.owner then
    ({ setPc s t (Pc.rResolve true) with owner := false, wins := s.wins + 1, winner := some t },
     [Ev.opLoadOwner t true])
  else (setPc s t Pc.dFin, [Ev.opLoadOwner t false])

def ddefClaim (s : State) (t : Nat) : State × List Ev :=
  if s.owner then
    ({ setPc s t (Pc.rResolve false) with owner := false, wins := s.wins + 1, winner := some t },
     [Ev.opXchgOwner t true])
  else (setPc s t Pc.dLoad, [Ev.opXchgOwner t false])

def dtorEnter (c : Cfg) (s : State) (t : Nat) : State × List Ev :=
  match c.kind t with
  | Kind.ddef _ => ddefClaim s t
  | _ => dtorLoad s t

def finishRun (c : Cfg) (s : State) (t : Nat) (dt : Bool) (evs : List Ev) : State × List Ev :=
  if dt then (setPc s t Pc.done, evs ++ [Ev.fin t])
  else
    match c.kind t with
    | Kind.ddef _ => ((dtorLoad s t).1, evs ++ (dtorLoad s t).2)
    | _ => (setPc s t Pc.done, evs ++ [Ev.ret t true, Ev.fin t])

def stepWalk (c : Cfg) (s : State) (t : Nat) (dt : Bool) (cur : Ptr) (ret : List Nat) (pend : Option (Nat × Seen)) :
    State × List Ev :=
  let p := pendStep c s pend
  let r := walk c t c.n p.1 cur ret
  if r.stopped then (setPc r.s t (Pc.rWalk dt r.cur r.ret r.pend), p.2 ++ r.evs)
  else finishRun c r.s t dt (p.2 ++ r.evs)

/-- `future::set` (plain write of the payload) and `resume_chain_set_ready`'s exchange -/
def resolveStep (c : Cfg) (s : State) (t : Nat) (dt : Bool) : State × List Ev :=
  let pay := if dt then s.payload else
    match c.kind t with
    | Kind.res k => k.payload
    | Kind.ddef v => Outcome.val v
    | _ => s.payload
  ({ setPc s t (Pc.rWalk dt s.head [] none) with payload := pay, head := Seen.ready }, [Ev.opXchgSlot t s.head])

/-! ## the waiters -/

/-- the plain segment before a CAS attempt: before the first one the resumption target is stored into the node, before a
retry the loop body tests `_next == &ready_state`; then the CAS reads its expected value from `_next` -/
def prepare (s : State) (t : Nat) (first : Bool) : State :=
  { s with log := s.log
      ++ [{ agent := t, node := t, field := if first then Field.handle else Field.next, write := first,
            live := s.live t, pub := s.subscribed t }]
      ++ [{ agent := t, node := t, field := Field.next, write := false, live := s.live t, pub := s.subscribed t }] }

/-- one attempt of `subscribe_check_ready`'s `compare_exchange_weak(_next, this)` -/
def casStep (c : Cfg) (s : State) (t : Nat) (first : Bool) : State × List Ev :=
  if s.head = s.next t then
    -- success: published; the subscriber does not touch the node any more
    ({ setPc (prepare s t first) t (if wkOf c t = WK.sync then Pc.wWait else Pc.wFinParked) with
         head := Seen.node t, subscribed := upd s.subscribed t true },
     [Ev.opCas t true s.head])
  else if s.head = Seen.ready then
    -- failure, observed `ready` (stored into `_next` by the CAS): the next segment clears `_next` and returns false
    ({ setPc (acc (prepare s t first) t t Field.next true) t (Pc.wRead true) with next := upd s.next t Seen.ready },
     [Ev.opCas t false Seen.ready])
  else
    -- failure: `_next := observed head`, retry
    ({ setPc (acc (prepare s t first) t t Field.next true) t (Pc.wCas false) with next := upd s.next t s.head },
     [Ev.opCas t false s.head])

/-- the refused path: the test `_next == &ready_state` succeeds, `_next = nullptr` -/
def clearNext (s : State) (t : Nat) : State :=
  { acc (acc s t t Field.next false) t t Field.next true with next := upd s.next t Seen.null }

def readStep (c : Cfg) (s : State) (t : Nat) : State × List Ev :=
  if needsLoad s.payload (wkOf c t) then (setPc s t (Pc.wRead2 s.head), [Ev.opLoadSlot t s.head])
  else (observe (setPc s t Pc.done) t, [Ev.obs t (obsOf s.payload (wkOf c t) Seen.ready), Ev.fin t])

def readStep2 (c : Cfg) (s : State) (t : Nat) (seen : Seen) : State × List Ev :=
  (observe (setPc s t Pc.done) t, [Ev.obs t (obsOf s.payload (wkOf c t) seen), Ev.fin t])

/-- one micro-step of agent `t` -/
def pstep (c : Cfg) (s : State) (t : Nat) : State × List Ev :=
  match s.pc t with
  | Pc.done => (s, [])
  | Pc.rClaim =>
      if s.owner then
        ({ setPc s t (Pc.rResolve false) with owner := false, wins := s.wins + 1, winner := some t },
         [Ev.opXchgOwner t true])
      else (setPc s t Pc.rFinLost, [Ev.opXchgOwner t false])
  | Pc.rFinLost => (setPc s t Pc.done, [Ev.ret t false, Ev.fin t])
  | Pc.rResolve dt => resolveStep c s t dt
  | Pc.rWalk dt cur ret pend => stepWalk c s t dt cur ret pend
  | Pc.dArrive =>
      if resolversDone c s then dtorEnter c s t
      else (setPc s t Pc.dBlocked, [Ev.dBlock t])
  | Pc.dBlocked => dtorEnter c s t
  | Pc.dLoad => dtorLoad s t
  | Pc.dFin => (setPc s t Pc.done, [Ev.fin t])
  | Pc.wLoad =>
      if s.head = Seen.ready then (setPc s t (Pc.wRead false), [Ev.opLoadSlot t Seen.ready])
      else (setPc s t (Pc.wCas true), [Ev.opLoadSlot t s.head])
  | Pc.wCas first => casStep c s t first
  | Pc.wFinParked => (setPc s t Pc.done, [Ev.fin t])
  | Pc.wWait =>
      -- passing `flag.wait`: `sync()` returns, the stack `sync_awaiter` goes out of scope
      if s.flag t then (die (setPc s t (Pc.wRead false)) t, [Ev.waitPass t])
      else (setPc s t Pc.wBlocked, [Ev.waitBlock t])
  | Pc.wBlocked => (die (setPc s t (Pc.wRead false)) t, [Ev.waitPass t])
  | Pc.wRead clr => readStep c (if clr then clearNext s t else s) t
  | Pc.wRead2 seen => readStep2 c s t seen

/-- run a schedule of agent ids (an entry naming a disabled agent is a stutter) -/
def prun (c : Cfg) (s : State) (sched : List Nat) : State :=
  sched.foldl (fun s t => if enabled c s t then (pstep c s t).1 else s) s

/-- `prun`, also collecting the emitted events -/
def prunEvA (c : Cfg) (p : State × List Ev) (sched : List Nat) : State × List Ev :=
  sched.foldl (fun p t => if enabled c p.1 t then ((pstep c p.1 t).1, p.2 ++ (pstep c p.1 t).2) else p) p

def prunEv (c : Cfg) (s : State) (sched : List Nat) : State × List Ev := prunEvA c (s, []) sched

/-! ## AS-IS negative variant: the classic broken walker

`auto y = chain; ret << y->resume(); chain = y->_next; y->_next = nullptr;` — the node is read and written *after* its
waiter was resumed.  The extra program position ("`y` resumed, advance still to do") is the field `post`; everything
else is the model above. -/
namespace AsIs

structure AState where
  s : State
  post : Option Nat := none

structure AWalkRes where
  s : State
  evs : List Ev
  cur : Ptr
  ret : List Nat
  pend : Option (Nat × Seen)
  post : Option Nat
  stopped : Bool

/-- `chain = y->_next; y->_next = nullptr;` executed after `y->resume()` -/
def advance (s : State) (t y : Nat) : State :=
  { acc (acc s t y Field.next false) t y Field.next true with next := upd s.next y Seen.null }

def walkBad (c : Cfg) (t : Nat) : Nat → State → Ptr → List Nat → AWalkRes
  | _, s, Seen.null, ret =>
      let r := flush c t s ret
      ⟨r.s, r.evs, r.cur, r.ret, r.pend, none, r.stopped⟩
  | _, s, Seen.ready, ret =>
      let r := flush c t s ret
      ⟨r.s, r.evs, r.cur, r.ret, r.pend, none, r.stopped⟩
  | 0, s, Seen.node y, ret => ⟨s, [], Seen.node y, ret, none, none, true⟩
  | fuel + 1, s, Seen.node y, ret =>
      if wkOf c y = WK.sync then
        ⟨{ acc s t y Field.handle false with flag := upd s.flag y true, woken := upd s.woken y (s.woken y + 1) },
         [Ev.opStoreFlag t y], Seen.node y, ret, none, some y, true⟩
      else if wkOf c y = WK.cb then
        if needsLoad s.payload (wkOf c y) then
          ⟨resumeOf (acc s t y Field.handle false) y, [Ev.opLoadSlot t s.head], Seen.node y, ret, some (y, s.head), some y, true⟩
        else
          let s1 := observe (resumeOf (acc s t y Field.handle false) y) y
          let r := walkBad c t fuel (advance s1 t y) (s1.next y) ret
          { r with evs := Ev.obs y (obsOf s.payload (wkOf c y) Seen.ready) :: r.evs }
      else
        walkBad c t fuel (advance (acc s t y Field.handle false) t y) (s.next y) (ret ++ [y])

def stepWalkBad (c : Cfg) (a : AState) (t : Nat) (dt : Bool) (cur : Ptr) (ret : List Nat) (pend : Option (Nat × Seen)) :
    AState × List Ev :=
  let p := pendStep c a.s pend
  -- the advance over the node resumed in the previous step
  let s1 := match a.post with
    | some y => advance p.1 t y
    | none => p.1
  let cur1 := match a.post with
    | some y => p.1.next y
    | none => cur
  let r := walkBad c t c.n s1 cur1 ret
  if r.stopped then (⟨setPc r.s t (Pc.rWalk dt r.cur r.ret r.pend), r.post⟩, p.2 ++ r.evs)
  else (⟨(finishRun c r.s t dt (p.2 ++ r.evs)).1, none⟩, (finishRun c r.s t dt (p.2 ++ r.evs)).2)

def pstepAsIs (c : Cfg) (a : AState) (t : Nat) : AState × List Ev :=
  match a.s.pc t with
  | Pc.rWalk dt cur ret pend => stepWalkBad c a t dt cur ret pend
  | _ => (⟨(pstep c a.s t).1, a.post⟩, (pstep c a.s t).2)

def prunAsIs (c : Cfg) (a : AState) (sched : List Nat) : AState :=
  sched.foldl (fun a t => if enabled c a.s t then (pstepAsIs c a t).1 else a) a

end AsIs

end Cocls.ChainPtr
