import CoclsModel.SharedFutureSteps2
/-! Preservation of the shared_future invariant, part 3: the resolver's exchange and the walk over the detached chain. -/
set_option linter.unusedSimpArgs false
namespace Cocls.SharedFuture
variable {c : Cfg} {s : State} {t : Nat}

theorem cntW_append (x : Nat) (a b : List WAct) : cntW x (a ++ b) = cntW x a + cntW x b := by
  induction a with
  | nil => simp [cntW]
  | cons y a ih => cases y <;> simp [cntW, ih] <;> omega

theorem cntO_append (x : Nat) (a b : List WAct) : cntO x (a ++ b) = cntO x a + cntO x b := by
  induction a with
  | nil => simp [cntO]
  | cons y a ih => cases y <;> simp [cntO, ih] <;> omega

theorem cntS_append (x : Nat) (a b : List WAct) : cntS x (a ++ b) = cntS x a + cntS x b := by
  induction a with
  | nil => simp [cntS]
  | cons y a ih => cases y <;> simp [cntS, ih] <;> omega

theorem cntRel_append (a b : List WAct) : cntRel (a ++ b) = cntRel a + cntRel b := by
  induction a with
  | nil => simp [cntRel]
  | cons y a ih => cases y <;> simp [cntRel, ih] <;> omega

theorem cntW_buildActs (ak : Nat → WK) (x : Nat) (l : List Node) : cntW x (buildActs ak l) = l.count (Node.aw x) := by
  unfold buildActs
  rw [cntW_append]
  induction l with
  | nil => simp [inWalk, coros, cntW]
  | cons y l ih =>
      cases y with
      | tracer => simp [inWalk, coros, cntW, List.count_cons, ih]
      | aw z =>
          simp only [inWalk, coros, List.count_cons]
          by_cases h1 : ak z = WK.sync
          · simp [h1, cntW]; omega
          · by_cases h2 : ak z = WK.cb
            · simp [h1, h2, cntW]; omega
            · simp [h1, h2, cntW]; omega

theorem cntO_buildActs (ak : Nat → WK) (x : Nat) (l : List Node) :
    cntO x (buildActs ak l) = if ak x = WK.sync then 0 else l.count (Node.aw x) := by
  unfold buildActs
  rw [cntO_append]
  induction l with
  | nil => simp [inWalk, coros, cntO]
  | cons y l ih =>
      cases y with
      | tracer => simp [inWalk, coros, cntO, List.count_cons, ih]
      | aw z =>
          simp only [inWalk, coros, List.count_cons]
          by_cases h1 : ak z = WK.sync
          · by_cases hx : z = x
            · subst hx; simp [h1, cntO] at ih ⊢; omega
            · simp [h1, cntO, hx]; split at ih <;> simp_all
          · by_cases h2 : ak z = WK.cb
            · by_cases hx : z = x
              · subst hx; simp [h1, h2, cntO] at ih ⊢; omega
              · simp [h1, h2, cntO, hx]; split at ih <;> simp_all
            · by_cases hx : z = x
              · subst hx; simp [h1, h2, cntO] at ih ⊢; omega
              · simp [h1, h2, cntO, hx]; split at ih <;> simp_all

theorem cntS_buildActs (ak : Nat → WK) (x : Nat) (l : List Node) :
    cntS x (buildActs ak l) = if ak x = WK.sync then l.count (Node.aw x) else 0 := by
  unfold buildActs
  rw [cntS_append]
  induction l with
  | nil => simp [inWalk, coros, cntS]
  | cons y l ih =>
      cases y with
      | tracer => simp [inWalk, coros, cntS, List.count_cons, ih]
      | aw z =>
          simp only [inWalk, coros, List.count_cons]
          by_cases h1 : ak z = WK.sync
          · by_cases hx : z = x
            · subst hx; simp [h1, cntS] at ih ⊢; omega
            · simp [h1, cntS, hx]; split at ih <;> simp_all
          · by_cases h2 : ak z = WK.cb
            · by_cases hx : z = x
              · subst hx; simp [h1, h2, cntS] at ih ⊢; omega
              · simp [h1, h2, cntS, hx]; split at ih <;> simp_all
            · by_cases hx : z = x
              · subst hx; simp [h1, h2, cntS] at ih ⊢; omega
              · simp [h1, h2, cntS, hx]; split at ih <;> simp_all

theorem cntRel_buildActs (ak : Nat → WK) (l : List Node) : cntRel (buildActs ak l) = l.count Node.tracer := by
  unfold buildActs
  rw [cntRel_append]
  induction l with
  | nil => simp [inWalk, coros, cntRel]
  | cons y l ih =>
      cases y with
      | tracer => simp [inWalk, coros, cntRel, List.count_cons]; omega
      | aw z =>
          simp only [inWalk, coros, List.count_cons]
          by_cases h1 : ak z = WK.sync
          · simp [h1, cntRel]; omega
          · by_cases h2 : ak z = WK.cb
            · simp [h1, h2, cntRel]; omega
            · simp [h1, h2, cntRel]; omega

theorem obsAfter_not_mem_buildActs (ak : Nat → WK) (x : Nat) (sn : Seen) (l : List Node) :
    WAct.obsAfter x sn ∉ buildActs ak l := by
  unfold buildActs
  induction l with
  | nil => simp [inWalk, coros]
  | cons y l ih =>
      cases y with
      | tracer => simpa [inWalk, coros] using ih
      | aw z =>
          simp only [inWalk, coros]
          by_cases h1 : ak z = WK.sync
          · simpa [h1] using ih
          · by_cases h2 : ak z = WK.cb
            · simpa [h1, h2] using ih
            · simpa [h1, h2] using ih

/-- the resolver thread is `rtid` -/
theorem res_tid (h : Inv c s) (hk : kindOf c t = Kind.res) : t = c.rtid := ((kind_res_iff c t).1 hk).2

theorem inv_r_resolve (h : Inv c s) (hpc : s.pc t = Pc.rResolve) : Inv c (resolveStep c s t).1 := by
  have hpk := h.pcok t
  rw [hpc] at hpk
  simp only [pcOK] at hpk
  have ht := res_tid h hpk.1
  have hpub := h.aResolve t hpc
  have hprom : c.mode.hasPromise = true := by
    cases hq : c.mode.hasPromise
    · have := (h.nopromise hq).1; simp [hpub] at this
    · rfl
  have hpend : s.slot ≠ Slot.ready := h.pending t hpk.1 hpk.2 (by simp [hpc, preResolve]) hprom
  have hal := h.alive hpend
  obtain ⟨hr, hf⟩ : 1 ≤ s.refs ∧ s.freed = 0 := by
    rcases hal with h1 | h1
    · exact alive_of_tracer h h1
    · cases hq : s.pc 0 with
      | cRun is => exact alive_of_held h (t := 0) (by have := (h.aCtor 0 is hq).1; omega)
      | _ => simp [hq, isCtor] at h1
  have hw0 : wacts c s = [] := by unfold wacts; rw [← ht, hpc]; rfl
  have hw : wacts c (resolveStep c s t).1 = buildActs s.akind (chainOf s.slot) := by
    unfold wacts resolveStep setPc; simp only; rw [← ht]; simp [actsOf]
  have b1 := cntW_buildActs s.akind
  have b2 := cntO_buildActs s.akind
  have b3 := cntS_buildActs s.akind
  have b4 := cntRel_buildActs s.akind
  have b5 := obsAfter_not_mem_buildActs s.akind
  have hfp : finalPayload c = c.rk.payload := by simp [finalPayload, hprom]
  have hch : chainOf Slot.ready = [] := rfl
  have hi : inflight (s.pc t) = 0 := by simp [hpc, inflight]
  have hi' : ∀ a, inflight (Pc.rRun a) = 0 := fun _ => rfl
  have e1 : ∀ x, cntW x [] = 0 := fun _ => rfl
  have e2 : ∀ x, cntO x [] = 0 := fun _ => rfl
  have e3 : ∀ x, cntS x [] = 0 := fun _ => rfl
  have e4 : cntRel [] = 0 := rfl
  have hk := kind_res_iff c
  simp only [resolveStep, setPc, touch] at hw ⊢
  inv_auto h

theorem walker_facts (h : Inv c s) (acts : List WAct) (hpc : s.pc t = Pc.rRun acts) :
    t = c.rtid ∧ kindOf c t = Kind.res ∧ t < c.n ∧ wacts c s = acts ∧ s.slot = Slot.ready := by
  have hpk := h.pcok t
  rw [hpc] at hpk
  simp only [pcOK] at hpk
  have ht := res_tid h hpk.1
  refine ⟨ht, hpk.1, hpk.2, ?_, (h.aRun t _ hpc).1⟩
  unfold wacts; rw [← ht, hpc]; rfl

theorem wacts_walker (s' : State) (rest : List WAct) (ht : t = c.rtid) (hpc : s'.pc = upd s.pc t (Pc.rRun rest)) :
    wacts c s' = rest := by
  unfold wacts; rw [hpc, ← ht]; simp [actsOf]

theorem inv_w_store (h : Inv c s) (x : Nat) (rest : List WAct) (hpc : s.pc t = Pc.rRun (WAct.store x :: rest)) :
    Inv c { setPc s t (Pc.rRun rest) with flag := upd s.flag x true, woken := upd s.woken x (s.woken x + 1) } := by
  obtain ⟨ht, hk, hn, hw0, hrd⟩ := walker_facts h _ hpc
  have hw : wacts c { setPc s t (Pc.rRun rest) with flag := upd s.flag x true, woken := upd s.woken x (s.woken x + 1) } = rest :=
    wacts_walker _ rest ht rfl
  have e1 : ∀ y, cntW y (WAct.store x :: rest) = (if x = y then 1 else 0) + cntW y rest := fun _ => rfl
  have e2 : ∀ y, cntO y (WAct.store x :: rest) = cntO y rest := fun _ => rfl
  have e3 : ∀ y, cntS y (WAct.store x :: rest) = (if x = y then 1 else 0) + cntS y rest := fun _ => rfl
  have e4 : cntRel (WAct.store x :: rest) = cntRel rest := rfl
  have e5 : ∀ y sn, WAct.obsAfter y sn ∈ WAct.store x :: rest ↔ WAct.obsAfter y sn ∈ rest := by simp
  have hkr := kind_res_iff c
  have hi : inflight (s.pc t) = 0 := by simp [hpc, inflight]
  have hi' : ∀ a, inflight (Pc.rRun a) = 0 := fun _ => rfl
  simp only [setPc] at hw ⊢
  inv_auto h

/-- a pending observation of `x` in the walker's list: `x`'s await context is alive and owns a handle -/
theorem pendingObs_facts (h : Inv c s) (x : Nat) (hx : 0 < cntO x (wacts c s)) :
    s.awaited x = true ∧ ownsCtx (s.akind x) = true ∧ s.observed x = 0 ∧ s.ctx x = true ∧ Holder.ctx x ∈ s.holders ∧
    1 ≤ s.refs ∧ s.freed = 0 := by
  have h1 := h.obsv x
  have h2 := h.wakeKind x hx
  have haw : s.awaited x = true := by
    cases hq : s.awaited x
    · simp [hq] at h1; omega
    · rfl
  have h3 := h.awKind x haw
  have hown : ownsCtx (s.akind x) = true := by
    cases hq : s.akind x <;> simp_all [ownsCtx]
  have hobs : s.observed x = 0 := by simp [haw] at h1; omega
  have hcx : s.ctx x = true := (h.ctxIff x).2 ⟨haw, hown, hobs⟩
  have hm : Holder.ctx x ∈ s.holders := by
    apply List.count_pos_iff.1; have := h.hCtx x; simp [hcx] at this; omega
  have := alive_of_mem h _ hm
  exact ⟨haw, hown, hobs, hcx, hm, this.1, this.2⟩

theorem inv_w_wake_load (h : Inv c s) (x : Nat) (rest : List WAct) (hpc : s.pc t = Pc.rRun (WAct.wake x :: rest)) :
    Inv c (setPc (touch { s with woken := upd s.woken x (s.woken x + 1) }) t (Pc.rRun (WAct.obsAfter x s.slot.seen :: rest))) := by
  obtain ⟨ht, hk, hn, hw0, hrd⟩ := walker_facts h _ hpc
  obtain ⟨haw, hown, hobs, hcx, hm, hr, hf⟩ := pendingObs_facts h x (by rw [hw0]; simp [cntO]; omega)
  have hsn : s.slot.seen = Seen.ready := by rw [hrd]; rfl
  rw [hsn]
  have hw : wacts c (setPc (touch { s with woken := upd s.woken x (s.woken x + 1) }) t (Pc.rRun (WAct.obsAfter x Seen.ready :: rest))) =
      WAct.obsAfter x Seen.ready :: rest := wacts_walker _ _ ht rfl
  have e1 : ∀ y, cntW y (WAct.wake x :: rest) = (if x = y then 1 else 0) + cntW y rest := fun _ => rfl
  have e2 : ∀ y, cntO y (WAct.wake x :: rest) = (if x = y then 1 else 0) + cntO y rest := fun _ => rfl
  have e3 : ∀ y, cntS y (WAct.wake x :: rest) = cntS y rest := fun _ => rfl
  have e4 : cntRel (WAct.wake x :: rest) = cntRel rest := rfl
  have e5 : ∀ y sn, WAct.obsAfter y sn ∈ WAct.wake x :: rest ↔ WAct.obsAfter y sn ∈ rest := by simp
  have f1 : ∀ y, cntW y (WAct.obsAfter x Seen.ready :: rest) = cntW y rest := fun _ => rfl
  have f2 : ∀ y, cntO y (WAct.obsAfter x Seen.ready :: rest) = (if x = y then 1 else 0) + cntO y rest := fun _ => rfl
  have f3 : ∀ y, cntS y (WAct.obsAfter x Seen.ready :: rest) = cntS y rest := fun _ => rfl
  have f4 : cntRel (WAct.obsAfter x Seen.ready :: rest) = cntRel rest := rfl
  have f5 : ∀ y sn, WAct.obsAfter y sn ∈ WAct.obsAfter x Seen.ready :: rest ↔ ((y = x ∧ sn = Seen.ready) ∨ WAct.obsAfter y sn ∈ rest) := by simp
  have hkr := kind_res_iff c
  have hi : inflight (s.pc t) = 0 := by simp [hpc, inflight]
  have hi' : ∀ a, inflight (Pc.rRun a) = 0 := fun _ => rfl
  simp only [setPc, touch] at hw ⊢
  inv_auto h

theorem inv_w_obs (h : Inv c s) (x : Nat) (sn : Seen) (a : WAct) (rest : List WAct) (hpc : s.pc t = Pc.rRun (a :: rest))
    (ha : a = WAct.wake x ∨ ∃ sn', a = WAct.obsAfter x sn') (w : Nat) (hwk : w = if a = WAct.wake x then s.woken x + 1 else s.woken x) :
    Inv c (setPc (obsStep { s with woken := upd s.woken x w } t x (s.akind x) sn).1 t (Pc.rRun rest)) := by
  obtain ⟨ht, hk, hn, hw0, hrd⟩ := walker_facts h _ hpc
  obtain ⟨haw, hown, hobs, hcx, hm, hr, hf⟩ := pendingObs_facts h x (by
    rw [hw0]; rcases ha with h1 | ⟨sn', h1⟩ <;> (subst h1; simp [cntO]; omega))
  rw [obsStep_fst_owns (s := { s with woken := upd s.woken x w }) x _ sn hown hf]
  have hw : wacts c (setPc { s with
        woken := upd s.woken x w
        observed := upd s.observed x (s.observed x + 1)
        ctx := upd s.ctx x false
        refs := s.refs - 1
        holders := s.holders.erase (Holder.ctx x)
        freed := if s.refs = 1 then 1 else 0 } t (Pc.rRun rest)) = rest := wacts_walker _ _ ht rfl
  have hkr := kind_res_iff c
  have hi : inflight (s.pc t) = 0 := by simp [hpc, inflight]
  have hi' : ∀ a, inflight (Pc.rRun a) = 0 := fun _ => rfl
  rcases ha with h1 | ⟨sn', h1⟩
  · subst h1
    simp only [if_true] at hwk
    subst hwk
    have e1 : ∀ y, cntW y (WAct.wake x :: rest) = (if x = y then 1 else 0) + cntW y rest := fun _ => rfl
    have e2 : ∀ y, cntO y (WAct.wake x :: rest) = (if x = y then 1 else 0) + cntO y rest := fun _ => rfl
    have e3 : ∀ y, cntS y (WAct.wake x :: rest) = cntS y rest := fun _ => rfl
    have e4 : cntRel (WAct.wake x :: rest) = cntRel rest := rfl
    have e5 : ∀ y sn, WAct.obsAfter y sn ∈ WAct.wake x :: rest ↔ WAct.obsAfter y sn ∈ rest := by simp
    simp only [setPc] at hw ⊢
    inv_auto h
  · subst h1
    have hne : ¬ (WAct.obsAfter x sn' = WAct.wake x) := by simp
    simp only [hne, if_false] at hwk
    subst hwk
    have e1 : ∀ y, cntW y (WAct.obsAfter x sn' :: rest) = cntW y rest := fun _ => rfl
    have e2 : ∀ y, cntO y (WAct.obsAfter x sn' :: rest) = (if x = y then 1 else 0) + cntO y rest := fun _ => rfl
    have e3 : ∀ y, cntS y (WAct.obsAfter x sn' :: rest) = cntS y rest := fun _ => rfl
    have e4 : cntRel (WAct.obsAfter x sn' :: rest) = cntRel rest := rfl
    have e5 : ∀ y sn, WAct.obsAfter y sn ∈ rest → WAct.obsAfter y sn ∈ WAct.obsAfter x sn' :: rest := by
      intro y sn hm; simp [hm]
    have hu : upd s.woken x (s.woken x) = s.woken := by funext y; simp [upd]; intro e; rw [e]
    simp only [setPc, hu] at hw ⊢
    inv_auto h

theorem inv_w_release (h : Inv c s) (rest : List WAct) (hpc : s.pc t = Pc.rRun (WAct.release :: rest)) :
    Inv c (setPc (dropRef { s with tracerRef := false } t Holder.tracer).1 t (Pc.rRun rest)) := by
  obtain ⟨ht, hk, hn, hw0, hrd⟩ := walker_facts h _ hpc
  have htr : s.tracerRef = true := by
    have := h.tracerCnt
    rw [hw0] at this
    cases hq : s.tracerRef
    · simp [hq, cntRel] at this
    · rfl
  obtain ⟨hr, hf⟩ := alive_of_tracer h htr
  have hm : Holder.tracer ∈ s.holders := by
    apply List.count_pos_iff.1; have := h.hTracer; simp [htr] at this; omega
  rw [dropRef_fst (s := { s with tracerRef := false }) Holder.tracer hf]
  have hw : wacts c (setPc { s with
      tracerRef := false
      refs := s.refs - 1
      holders := s.holders.erase Holder.tracer
      freed := if s.refs = 1 then 1 else 0 } t (Pc.rRun rest)) = rest := wacts_walker _ _ ht rfl
  have e1 : ∀ y, cntW y (WAct.release :: rest) = cntW y rest := fun _ => rfl
  have e2 : ∀ y, cntO y (WAct.release :: rest) = cntO y rest := fun _ => rfl
  have e3 : ∀ y, cntS y (WAct.release :: rest) = cntS y rest := fun _ => rfl
  have e4 : cntRel (WAct.release :: rest) = 1 + cntRel rest := rfl
  have e5 : ∀ y sn, WAct.obsAfter y sn ∈ WAct.release :: rest ↔ WAct.obsAfter y sn ∈ rest := by simp
  have hkr := kind_res_iff c
  have hi : inflight (s.pc t) = 0 := by simp [hpc, inflight]
  have hi' : ∀ a, inflight (Pc.rRun a) = 0 := fun _ => rfl
  simp only [setPc] at hw ⊢
  inv_auto h

theorem inv_w_fin (h : Inv c s) (hpc : s.pc t = Pc.rRun []) : Inv c (setPc s t Pc.done) := by
  obtain ⟨ht, hk, hn, hw0, hrd⟩ := walker_facts h _ hpc
  have hw : wacts c (setPc s t Pc.done) = [] := by
    unfold wacts setPc; simp only; rw [← ht]; simp [actsOf]
  have hkr := kind_res_iff c
  have hi : inflight (s.pc t) = 0 := by simp [hpc, inflight]
  have hh := h.resHeld t hk
  simp only [setPc] at hw ⊢
  inv_auto h

end Cocls.SharedFuture
