import CoclsModel.Async
/-
Micro-step model of threads racing `async<T>::start(promise)` on ONE shared promise, mixed with threads that invoke the
promise directly (`p(value)`, `p(exception)`, `p(drop)`) and one thread that destroys it (harness/h_async_t.cpp).

One agent step = the plain code of that thread up to and including its next atomic operation (that is where the baton
scheduler of the harness may switch threads); the last step of a thread is its tail (`ret`, `fin`).  The atomic operations:
`promise::claim()` = `_owner.exchange(nullptr)`; `future::resolve()` = `_awaiter.exchange(&disabled)`; for the `startw`
coroutine `co_await gate` = `load` (await_ready) and `compare_exchange` (subscribe); `~promise` = `_owner.load()`.

`async::start_promise` decides on the value *returned by the exchange*: a null result leaves the coroutine in the `async`
object.  `stepMut` is the seeded variant that tests the promise first (`if (!p) return nullptr;`) and then starts the
coroutine whatever `claim()` returned.
-/
namespace Cocls.AsyncRace
open Cocls.Async (Outcome upd)

inductive Kind where
  | start (v : Nat)      -- own coroutine `co_return v`
  | startw (v : Nat)     -- own coroutine `co_await gate; co_return v`
  | startx (c : Nat)     -- own coroutine `throw c`
  | value (v : Nat)
  | exc (c : Nat)
  | drop
  | dtor
  deriving DecidableEq, Repr, Inhabited

def Kind.isStart : Kind → Bool
  | Kind.start _ | Kind.startw _ | Kind.startx _ => true
  | _ => false

/-- what the agent stores into the future when it wins (`none` = resolved without value: canceled) -/
def Kind.payload : Kind → Option Outcome
  | Kind.start v | Kind.startw v | Kind.value v => some (Outcome.val v)
  | Kind.startx c | Kind.exc c => some (Outcome.exc c)
  | Kind.drop | Kind.dtor => none

inductive Pc where
  | init
  | checked              -- seeded variant only: `!p` was false
  | won                  -- claim() returned the future
  | gate1                -- startw: body entered, `gate.ready()` loaded
  | gate2                -- startw: subscribed to the gate, coroutine suspended
  | tail (r : Bool)      -- all atomic operations done, `ret r` / `fin` outstanding
  | blocked              -- dtor waiting for the other threads
  | dloaded (had : Bool) -- dtor: `_owner.load()` done
  | fin
  deriving DecidableEq, Repr, Inhabited

inductive Ev where
  | xchgOwner (a : Nat) (had : Bool)
  | loadOwner (a : Nat) (had : Bool)
  | xchgSlot (a : Nat)
  | loadGate (a : Nat)
  | casGate (a : Nat)
  | waitBlock (a : Nat)
  | body (a : Nat)
  | bodyend (a : Nat)
  | argd (a : Nat)
  | ret (a : Nat) (r : Bool)
  | fin (a : Nat)
  deriving DecidableEq, Repr

structure Cfg where
  n : Nat
  kind : Nat → Kind

structure State where
  owner : Bool := true                     -- `promise::_owner != nullptr`
  pc : Nat → Pc := fun _ => Pc.init
  fut : Option (Option Outcome) := none    -- `none` pending, `some x` resolved with `x`
  suspended : Nat → Bool := fun _ => false -- startw coroutine parked on the gate
  -- ghost
  claimed : Nat → Option Bool := fun _ => none   -- what `claim()` gave this agent
  bodyStarts : Nat → Nat := fun _ => 0
  argDtors : Nat → Nat := fun _ => 0
  detached : Nat → Bool := fun _ => false  -- coroutine started with `_future == nullptr` (seeded variant only)
  resolves : Nat := 0                      -- number of `resolve()` calls on the shared future

def othersDone (c : Cfg) (s : State) : Bool :=
  (List.range c.n).all fun i => c.kind i == Kind.dtor || s.pc i == Pc.fin

def enabled (c : Cfg) (s : State) (a : Nat) : Bool :=
  a < c.n && s.pc a != Pc.fin && (s.pc a != Pc.blocked || othersDone c s)

def setPc (s : State) (a : Nat) (p : Pc) : State := { s with pc := upd s.pc a p }

/-- `promise::claim()`: one atomic exchange -/
def claim (s : State) (a : Nat) : State × List Ev :=
  ({ s with owner := false, claimed := upd s.claimed a (some s.owner),
            pc := upd s.pc a (if s.owner then Pc.won else Pc.tail false) }, [Ev.xchgOwner a s.owner])

/-- set + `resolve()` by agent `a` -/
def resolveWith (s : State) (a : Nat) (x : Option Outcome) : State :=
  { s with fut := some x, resolves := s.resolves + 1, pc := upd s.pc a (Pc.tail true) }

def dtorLoad (s : State) (a : Nat) : State × List Ev :=
  (setPc s a (Pc.dloaded s.owner), [Ev.loadOwner a s.owner])

def step (c : Cfg) (s : State) (a : Nat) : State × List Ev :=
  if !enabled c s a then (s, []) else
  match c.kind a, s.pc a with
  | Kind.dtor, Pc.init => if othersDone c s then dtorLoad s a else (setPc s a Pc.blocked, [Ev.waitBlock a])
  | Kind.dtor, Pc.blocked => dtorLoad s a
  | Kind.dtor, Pc.dloaded true =>
      -- `m->resolve()`; the promise object is gone afterwards (modelled by clearing `owner`)
      ({ s with fut := some none, resolves := s.resolves + 1, owner := false, pc := upd s.pc a (Pc.dloaded false) },
       [Ev.xchgSlot a])
  | Kind.dtor, _ => (setPc s a Pc.fin, [Ev.fin a])
  | _, Pc.init => claim s a
  | Kind.startw _, Pc.won =>
      ({ s with bodyStarts := upd s.bodyStarts a (s.bodyStarts a + 1), pc := upd s.pc a Pc.gate1 }, [Ev.body a, Ev.loadGate a])
  | Kind.startw _, Pc.gate1 => (setPc s a Pc.gate2, [Ev.casGate a])
  | Kind.startw _, Pc.gate2 =>
      ({ s with suspended := upd s.suspended a true, pc := upd s.pc a Pc.fin }, [Ev.ret a true, Ev.fin a])
  | k, Pc.won =>
      if k.isStart then
        -- suspend point discarded: the coroutine runs to its end on this thread and resolves the future
        ({ resolveWith s a k.payload with bodyStarts := upd s.bodyStarts a (s.bodyStarts a + 1) },
         [Ev.body a, Ev.bodyend a, Ev.xchgSlot a])
      else (resolveWith s a k.payload, [Ev.xchgSlot a])
  | k, Pc.tail r =>
      if k.isStart && r then
        ({ s with argDtors := upd s.argDtors a (s.argDtors a + 1), pc := upd s.pc a Pc.fin }, [Ev.argd a, Ev.ret a r, Ev.fin a])
      else (setPc s a Pc.fin, [Ev.ret a r, Ev.fin a])
  | _, _ => (setPc s a Pc.fin, [Ev.fin a])

def run (c : Cfg) (s : State) (sched : List Nat) : State := sched.foldl (fun s a => (step c s a).1) s

/-! ### the seeded variant: check-then-claim, coroutine started whatever `claim()` returned -/

def stepMut (c : Cfg) (s : State) (a : Nat) : State × List Ev :=
  if !enabled c s a then (s, []) else
  if (c.kind a).isStart then
    match s.pc a with
    | Pc.init => if s.owner then (setPc s a Pc.checked, [Ev.loadOwner a true])
                 else ({ s with claimed := upd s.claimed a (some false), pc := upd s.pc a (Pc.tail false) }, [Ev.loadOwner a false])
    | Pc.checked =>
        ({ s with owner := false, claimed := upd s.claimed a (some true), detached := upd s.detached a (!s.owner),
                  pc := upd s.pc a Pc.won }, [Ev.xchgOwner a s.owner])
    | Pc.won =>
        match c.kind a with
        | Kind.startw _ => step c s a
        | k =>
          if s.detached a then
            ({ s with bodyStarts := upd s.bodyStarts a (s.bodyStarts a + 1), argDtors := upd s.argDtors a (s.argDtors a + 1),
                      pc := upd s.pc a Pc.fin }, [Ev.body a, Ev.bodyend a, Ev.argd a, Ev.ret a true, Ev.fin a])
          else ({ resolveWith s a k.payload with bodyStarts := upd s.bodyStarts a (s.bodyStarts a + 1) },
                [Ev.body a, Ev.bodyend a, Ev.xchgSlot a])
    | _ => step c s a
  else step c s a

def runMut (c : Cfg) (s : State) (sched : List Nat) : State := sched.foldl (fun s a => (stepMut c s a).1) s

end Cocls.AsyncRace
