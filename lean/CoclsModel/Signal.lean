/-
Model of `cocls::signal<T>` (signal.h) on top of the awaiter chain (awaiter.h:65-107).

Real state (signal.h:38-52 and the `shared_ptr` that owns it):
* `handles`  — strong references (`signal` / `collector` objects); the shared state exists iff `handles ≠ 0`
* `chain`    — `_chain`, the awaiter chain of the waiting listeners; head = last subscriber (`awaiter::subscribe`
               pushes at the head, `resume_chain` detaches the whole chain with one exchange and walks it)
* `cur`      — `_cur_val`: null, pointing at the owned copy `_value_storage`, or at the caller's lvalue
* `stored`   — `_value_storage` (`none` = disengaged: initially, and after a by-value call whose value construction threw —
               `optional::emplace` destroys the old value before it constructs the new one, `stepEmitFail`; `cur` may then
               still be `owned`: a stale pointer, `readNow` = `Out.dead`)
* `rel`      — coroutine listeners whose handle sits in a `suspend_point` returned by a collector call (or by the
               state destructor) and that have not been resumed yet.  *Flushing* the suspend point = `resume l` for
               each of them.  A callback listener (`connect`) is never here: its `resume()` runs inside the walk.
* listeners  — ids `0 .. next-1`; `isCb l` (connected callback, heap `Awt`) or coroutine with a `script`: what it
               does after the 1st, 2nd … value (`re` = re-await the emitter at once, `gate` = do something else, i.e.
               suspend elsewhere until `wake l`, then re-await; `exit` = leave); an exhausted script means "re-await
               for ever".  `left c` = how many more times callback `c` answers `true`.

One `Op` = one call of the public API (or one resumption of one released coroutine), so an operation list is an
arbitrary history of arrivals, departures, collector calls of each flavour — including by-value calls whose value
construction throws (`emitFail`: validating constructor in the in-place overload, throwing copy of a const lvalue through
the same overload, throwing move in the rvalue overload) —, flushes in any order / at any later time, and handle creation /
destruction.

The chain walk of a collector call / of the state destructor is written twice: in closed form (`stepEmit`, `stepDrop`:
filters over the detached chain — what the proofs use) and awaiter by awaiter as the code does it (`stepEmitLoop`,
`stepDropLoop` — what the driver executes); `SignalProofs.stepEmit_eq_loop` / `stepDrop_eq_loop` prove them equal on
duplicate-free chains.  Threads: a subscription takes effect at its publishing CAS and a collector call at its exchange, so a
multi-threaded run is the operation list ordered by those points; what the subscribing thread does *after* its CAS is the
subject of the small `Pub` model at the end of this file.

Every listener's emitter / callback awaiter holds a *weak* pointer: `conn l` says whether it denotes the shared state or
nothing (default constructed emitter, emitter taken from / `connect` called on a moved-from `signal`, emitter assigned from
such an emitter).  `emitter::operator=` (`assign`) copies only that weak pointer; it is modelled for an emitter nobody is
suspended on (the listener is busy elsewhere) — assigning to an emitter a coroutine is suspended on is outside the model
(`Res.bad`).  A second live signal is not modelled: "another state" is observably the same as "no state" for this signal.

Ghost state (never consulted by the control flow): `got l` (what listener `l` observed, in order), `emitted`,
`expect l` (for a coroutine: the values emitted / cancellations issued while it was waiting — the specification
of what it has to observe), `subAt l`, `budget c`, `pure l` (has only ever re-awaited).
-/
namespace Cocls.Signal

inductive Act where
  | re | gate | exit
  deriving DecidableEq, Repr, Inhabited

/-- what a listener observes: a value, `await_canceled_exception`, or (callbacks) its own release -/
inductive Out where
  | val (v : Nat)
  | canceled
  | free
  | dead             -- a reference to the owned copy after a failed `emplace` destroyed it (only outside the `Flushed` contract)
  deriving DecidableEq, Repr, Inhabited

/-- `_cur_val` when it is not null -/
inductive Ptr where
  | owned            -- `&*_value_storage`
  | ext (v : Nat)    -- address of the caller's lvalue (holding `v`)
  deriving DecidableEq, Repr, Inhabited

def upd {α : Type} (f : Nat → α) (i : Nat) (a : α) : Nat → α := fun j => if j = i then a else f j

@[simp] theorem upd_same {α : Type} (f : Nat → α) (i : Nat) (a : α) : upd f i a i = a := by simp [upd]
theorem upd_other {α : Type} (f : Nat → α) {i j : Nat} (a : α) (h : j ≠ i) : upd f i a j = f j := by simp [upd, h]

structure State where
  handles : Nat := 1
  chain : List Nat := []
  cur : Option Ptr := none
  stored : Option Nat := none
  rel : List Nat := []
  gated : List Nat := []
  next : Nat := 0
  isCb : Nat → Bool := fun _ => false
  script : Nat → List Act := fun _ => []
  left : Nat → Nat := fun _ => 0
  conn : Nat → Bool := fun _ => false   -- the weak pointer held by listener `l`'s emitter / callback awaiter: the shared state, or nothing
  -- ghost
  got : Nat → List Out := fun _ => []
  emitted : List Nat := []
  expect : Nat → List Out := fun _ => []
  subAt : Nat → Nat := fun _ => 0
  budget : Nat → Nat := fun _ => 0
  pure : Nat → Bool := fun _ => false

inductive Op where
  | listen (sc : List Act)            -- start a coroutine listener: `co_await emitter`
  | listen0 (sc : List Act)           -- the same on a default-constructed (never connected) emitter
  | connect (n : Nat)                 -- `signal::connect(fn)`, fn answers `true` n times, then `false`
  | connectL (n : Nat)                -- `connect(fn)` with `fn` an *lvalue* callable which the caller destroys (or reuses) as soon as
                                      -- `connect` has returned: the connection owns a copy (`std::decay_t<Fn> _fn`), same step as `connect`
  | connect0 (n : Nat)                -- `connect(fn)` on a moved-from `signal` object (no state): `initial_reg` finds nothing to lock
  | assign (l : Nat) (b : Bool)       -- `emitter::operator=` on the emitter of listener `l` while `l` is busy elsewhere: it now
                                      -- denotes the shared state (`true`: copy of a connected emitter) or nothing (`false`)
  | emit (byRef : Bool) (v : Nat)     -- collector call: by value / rvalue / emplace (`false`) or lvalue reference (`true`)
  | emitFail                          -- collector call by value (in-place arguments, rvalue, const lvalue) whose value construction
                                      -- throws inside `_value_storage.emplace(...)`: the exception propagates to the caller
  | resume (l : Nat)                  -- the suspend point holding `l` is flushed as far as `l`: `l` is resumed
  | wake (l : Nat)                    -- the gated listener `l` finishes its other business and re-awaits
  | addHandle                         -- copy a `signal` / `collector`
  | dropHandle                        -- destroy one
  deriving DecidableEq, Repr

inductive Res where
  | id (l : Nat)
  | num (n : Nat)       -- number of coroutine handles in the returned suspend point
  | last (b : Bool)     -- dropHandle: was it the last one
  | unit
  | threw               -- emitFail: the exception of the value's constructor reached the caller
  | bad                 -- outside the precondition
  deriving DecidableEq, Repr

def init : State := {}

/-- the value `_cur_val` points at -/
def deref (s : State) : Option Nat :=
  match s.cur with
  | none => none
  | some Ptr.owned => s.stored
  | some (Ptr.ext v) => some v

/-- `emitter::await_resume` (signal.h:204-217): lock the weak pointer, read through `_cur_val`, else throw.
`_cur_val` still pointing at `_value_storage` after a failed `emplace` has reset it (`stepEmitFail`) yields a reference to a
destroyed object: `Out.dead`. -/
def readNow (s : State) : Out :=
  if s.handles = 0 then Out.canceled
  else match deref s with
    | none => if s.cur = some Ptr.owned then Out.dead else Out.canceled
    | some v => Out.val v

/-- `co_await emitter` by coroutine `l` (signal.h:192-201): subscribe if the state is alive, otherwise
`await_suspend` returns false and `await_resume` throws at once -/
def reawait (s : State) (l : Nat) : State :=
  if s.handles = 0 then
    { s with got := upd s.got l (s.got l ++ [Out.canceled]), expect := upd s.expect l (s.expect l ++ [Out.canceled]) }
  else { s with chain := l :: s.chain }


/-- `await_suspend` returns false, `await_resume` throws `await_canceled_exception` at once -/
def cancelNow (s : State) (l : Nat) : State :=
  { s with got := upd s.got l (s.got l ++ [Out.canceled]), expect := upd s.expect l (s.expect l ++ [Out.canceled]) }

/-- `co_await emitter` in general: `_wk_state.lock()` fails when the emitter denotes no state (default constructed,
assigned from such an emitter, obtained from a moved-from signal) or when the state is gone -/
def await (s : State) (l : Nat) : State :=
  if s.conn l = true then reawait s l else cancelNow s l

/-- registers a new listener id with its static data -/
def fresh (s : State) (cb : Bool) (sc : List Act) (n : Nat) (pr : Bool) (cn : Bool) : State :=
  { s with next := s.next + 1,
           isCb := upd s.isCb s.next cb, script := upd s.script s.next sc, left := upd s.left s.next n,
           conn := upd s.conn s.next cn,
           got := upd s.got s.next [], expect := upd s.expect s.next [],
           subAt := upd s.subAt s.next s.emitted.length, budget := upd s.budget s.next n,
           pure := upd s.pure s.next pr }

def stepListen (s : State) (sc : List Act) : State × Res :=
  (reawait (fresh s false sc 0 true true) s.next, Res.id s.next)

/-- an emitter without state: `await_suspend` returns false, `await_resume` throws -/
def stepListen0 (s : State) (sc : List Act) : State × Res :=
  (cancelNow (fresh s false sc 0 false false) s.next, Res.id s.next)

/-- `connect` needs a `signal` object, hence a live state (signal.h:261-312, `initial_reg`) -/
def stepConnect (s : State) (n : Nat) : State × Res :=
  if s.handles = 0 then (s, Res.bad)
  else ({ fresh s true [] n false true with chain := s.next :: s.chain }, Res.id s.next)

/-- `connect` on a `signal` object without state (moved-from): `initial_reg` cannot lock the weak pointer and calls
`resume()`, which deletes the awaiter (signal.h:298-305, 276-280): the callback is released at once and never called -/
def stepConnect0 (s : State) (n : Nat) : State × Res :=
  ({ fresh s true [] n false false with got := upd (fresh s true [] n false false).got s.next [Out.free] }, Res.id s.next)

/-- `emitter::operator=` (signal.h:179-184): only the weak pointer is copied; the awaiter part (`_next`, the handle) is
not.  Precondition: no coroutine is suspended on the assigned-to emitter (`l` is busy elsewhere); the emitter holds no
strong reference, so neither the state it denoted before nor the one it denotes now is affected. -/
def stepAssign (s : State) (l : Nat) (b : Bool) : State × Res :=
  if l ∈ s.gated then ({ s with conn := upd s.conn l b }, Res.unit) else (s, Res.bad)

/-- the callbacks / the coroutines of a detached chain -/
def cbsOf (s : State) : List Nat := s.chain.filter (fun l => s.isCb l)
def corosOf (s : State) : List Nat := s.chain.filter (fun l => !s.isCb l)

/-- what callback `c` observes when it is called with `v`: the value, and its release if it answers false -/
def cbOuts (s : State) (c : Nat) (v : Nat) : List Out :=
  if 0 < s.left c then [Out.val v] else [Out.val v, Out.free]

/-- `collector::operator()` (signal.h:96-139): store / point to the value, detach the chain and walk it
(awaiter.h:78-107).  Walking: a coroutine's handle goes into the returned suspend point; a callback's `resume()`
(signal.h:275-296) runs at once: it reads the value, calls `fn`, and re-subscribes to the (new) chain or deletes itself. -/
def stepEmit (s : State) (byRef : Bool) (v : Nat) : State × Res :=
  if s.handles = 0 then (s, Res.bad)
  else
    ({ s with cur := some (if byRef then Ptr.ext v else Ptr.owned),
              stored := if byRef then s.stored else some v,
              chain := ((cbsOf s).filter (fun c => 0 < s.left c)).reverse,
              rel := s.rel ++ corosOf s,
              left := fun c => if c ∈ cbsOf s then s.left c - 1 else s.left c,
              got := fun c => if c ∈ cbsOf s then s.got c ++ cbOuts s c v else s.got c,
              emitted := s.emitted ++ [v],
              expect := fun l => if l ∈ s.chain then s.expect l ++ [Out.val v] else s.expect l },
     Res.num (corosOf s).length)

/-- A by-value collector call whose value cannot be constructed (signal.h:96-100 in-place arguments — also the route of a
const lvalue —, 114-118 rvalue): the only statement that runs is `_value_storage.emplace(...)`.  `std::optional::emplace`
destroys the held value FIRST and then constructs; the constructor throws, so the optional is left disengaged, and the
exception leaves `operator()` before `_cur_val` is assigned and before `notify_awaiters()` detaches the chain.  Hence:
nobody is released, nobody is called, nobody leaves the chain, nothing is emitted — and `_cur_val` keeps its old value: null,
the address of the caller's lvalue of the previous by-reference call, or the address of `_value_storage`, which now holds no
object (`readNow` = `Out.dead`; nobody reads it under `Flushed`: `c15_failed_emit_stale_pointer_unread`).
The lvalue-reference overload (signal.h:136-139) constructs nothing and cannot fail. -/
def stepEmitFail (s : State) : State × Res :=
  if s.handles = 0 then (s, Res.bad)
  else ({ s with stored := none }, Res.threw)

/-- what a resumed coroutine does with a value, according to its script -/
def afterValue (s : State) (l : Nat) : State :=
  match s.script l with
  | [] => await s l
  | Act.re :: rest => await { s with script := upd s.script l rest } l
  | Act.gate :: rest => { s with script := upd s.script l rest, gated := l :: s.gated, pure := upd s.pure l false }
  | Act.exit :: rest => { s with script := upd s.script l rest, pure := upd s.pure l false }

/-- resumption of a released coroutine: `await_resume`, then its script -/
def stepResume (s : State) (l : Nat) : State × Res :=
  if l ∈ s.rel then
    match readNow s with
    | Out.val v => (afterValue { s with rel := s.rel.erase l, got := upd s.got l (s.got l ++ [Out.val v]) } l, Res.unit)
    -- `await_resume` returns the (dangling) reference like any other: the coroutine goes on with its script
    | Out.dead => (afterValue { s with rel := s.rel.erase l, got := upd s.got l (s.got l ++ [Out.dead]) } l, Res.unit)
    | o => ({ s with rel := s.rel.erase l, got := upd s.got l (s.got l ++ [o]) }, Res.unit)
  else (s, Res.bad)

def stepWake (s : State) (l : Nat) : State × Res :=
  if l ∈ s.gated then (await { s with gated := s.gated.erase l } l, Res.unit)
  else (s, Res.bad)

def stepAdd (s : State) : State × Res :=
  if s.handles = 0 then (s, Res.bad) else ({ s with handles := s.handles + 1 }, Res.unit)

/-- destroying a handle; the last one runs `~state` (signal.h:47-50): `_cur_val = nullptr`, then the chain is
released: coroutines go into a suspend point (discarded at once by the destructor), a callback finds the weak
pointer expired and deletes itself -/
def stepDrop (s : State) : State × Res :=
  if s.handles = 0 then (s, Res.bad)
  else if s.handles = 1 then
    ({ s with handles := 0, cur := none, stored := none, chain := [],
              rel := s.rel ++ corosOf s,
              got := fun c => if c ∈ cbsOf s then s.got c ++ [Out.free] else s.got c,
              expect := fun l => if l ∈ s.chain then s.expect l ++ [Out.canceled] else s.expect l },
     Res.last true)
  else ({ s with handles := s.handles - 1 }, Res.last false)

def step (s : State) (op : Op) : State × Res :=
  match op with
  | Op.listen sc => stepListen s sc
  | Op.listen0 sc => stepListen0 s sc
  | Op.connect n => stepConnect s n
  | Op.connectL n => stepConnect s n
  | Op.connect0 n => stepConnect0 s n
  | Op.assign l b => stepAssign s l b
  | Op.emit r v => stepEmit s r v
  | Op.emitFail => stepEmitFail s
  | Op.resume l => stepResume s l
  | Op.wake l => stepWake s l
  | Op.addHandle => stepAdd s
  | Op.dropHandle => stepDrop s

def run (s : State) (ops : List Op) : State := ops.foldl (fun s op => (step s op).1) s

/-! ### The unrepaired `signal::connect` (pinned commit, before `/repo` commit d8a7c3e)

`connect(Fn &&fn)` stored the callable in a member declared `Fn _fn`.  For an lvalue argument `Fn` is deduced as a reference
type: the heap-allocated awaiter only referred to the caller's object.  `connect` returns nothing the caller could use to learn
when the connection ends, so the caller's object goes away sooner or later — in `Op.connectL` right after `connect` returned. -/

/-- `connect(lvalue)` as the pinned commit had it (before `/repo` commit d8a7c3e "fix: signal::connect kept a reference to an
lvalue callback instead of owning it"): the awaiter is subscribed like any callback, but the only instance of the callable is
the caller's, and its destruction — the release of the callback, `Out.free` — has happened while the awaiter is still waiting
in the chain.  Whatever a later collector call does with it is a call on a destroyed object; the model lets the walk go on as
for a live callback (only what is needed to exhibit the consequence is modelled). -/
def stepConnectLAsIs (s : State) (n : Nat) : State × Res :=
  if s.handles = 0 then (s, Res.bad)
  else ({ (stepConnect s n).1 with got := upd (stepConnect s n).1.got s.next [Out.free] }, Res.id s.next)

/-- the step function before `/repo` commit d8a7c3e: `connect` of an lvalue callable keeps a reference; everything else as `step` -/
def stepAsIs (s : State) (op : Op) : State × Res :=
  match op with
  | Op.connectL n => stepConnectLAsIs s n
  | _ => step s op

def runAsIs (s : State) (ops : List Op) : State := ops.foldl (fun s op => (stepAsIs s op).1) s

/-- The documented contract (signal.h:86-93, 131-133, 156-160): the suspend point returned by a collector call is
flushed — discarded in a normal thread or `co_await`ed in a coroutine — before the next collector call (and before
the state is destroyed): no released listener is still un-resumed when the value changes. -/
def needsFlush (s : State) : Op → Bool
  | Op.emit _ _ => true
  | Op.emitFail => true
  | Op.dropHandle => s.handles == 1
  | _ => false

def Flushed (s : State) : List Op → Prop
  | [] => True
  | op :: ops => (needsFlush s op = true → s.rel = []) ∧ Flushed (step s op).1 ops

/-! ### The walks as the code performs them (awaiter by awaiter)

`stepEmit` / `stepDrop` above use the closed form of the loop `resume_chain_lk` (awaiter.h:98-107); these are the loops
themselves.  `SignalProofs.stepEmit_eq_loop` / `stepDrop_eq_loop` prove them equal on every duplicate-free chain
(which the invariant guarantees for every reachable state). -/

/-- one iteration over awaiter `y` during a collector call with value `v`: a coroutine's handle is appended to the
suspend point; a callback's `resume()` runs at once (signal.h:275-296): it reads the value, calls `fn`, and pushes itself
onto the (new) chain or deletes itself -/
def walkOne (v : Nat) (s : State) (y : Nat) : State :=
  if s.isCb y then
    if 0 < s.left y then
      { s with got := upd s.got y (s.got y ++ [Out.val v]), left := upd s.left y (s.left y - 1), chain := y :: s.chain }
    else
      { s with got := upd s.got y (s.got y ++ [Out.val v, Out.free]), left := upd s.left y (s.left y - 1) }
  else { s with rel := s.rel ++ [y] }

def stepEmitLoop (s : State) (byRef : Bool) (v : Nat) : State × Res :=
  if s.handles = 0 then (s, Res.bad)
  else
    (s.chain.foldl (walkOne v)
      { s with cur := some (if byRef then Ptr.ext v else Ptr.owned),
               stored := if byRef then s.stored else some v,
               chain := [],
               emitted := s.emitted ++ [v],
               expect := fun l => if l ∈ s.chain then s.expect l ++ [Out.val v] else s.expect l },
     Res.num (corosOf s).length)

/-- one iteration of the walk run by `~state` (signal.h:47-50): the weak pointer is expired, so a callback deletes
itself; a coroutine's handle goes into the destructor's suspend point -/
def walkDead (s : State) (y : Nat) : State :=
  if s.isCb y then { s with got := upd s.got y (s.got y ++ [Out.free]) }
  else { s with rel := s.rel ++ [y] }

def stepDropLoop (s : State) : State × Res :=
  if s.handles = 0 then (s, Res.bad)
  else if s.handles = 1 then
    (s.chain.foldl walkDead
      { s with handles := 0, cur := none, stored := none, chain := [],
               expect := fun l => if l ∈ s.chain then s.expect l ++ [Out.canceled] else s.expect l },
     Res.last true)
  else ({ s with handles := s.handles - 1 }, Res.last false)

end Cocls.Signal

/-!
### Publication discipline of `awaiter::subscribe` (awaiter.h:65-72)

Micro-step view for one question only: does the subscribing thread touch the awaiter after the CAS that publishes it?
Listeners here are the worst case for that question: one-shot (a `connect`ed callback that answers false, a coroutine
that finishes after the value), i.e. the awaiter is destroyed by the thread that releases the chain.  The pinned code
evaluated `assert(_next != this)` *after* the CAS (`Op.post`); the repaired code checks on the failed-CAS path only, where
the awaiter is still private, so its schedules contain no `post`.
-/
namespace Cocls.Signal.Pub

inductive Op where
  | cas (l : Nat)       -- the publishing compare-exchange of listener `l` (its thread may be pre-empted right after it)
  | post (l : Nat)      -- pinned code only: the trailing `assert(_next != this)` of the same call, evaluated later
  | release             -- another thread: collector call / state destructor: exchange, walk, every awaiter's owner goes away
  deriving DecidableEq, Repr

structure State where
  chain : List Nat := []
  freed : List Nat := []
  uaf : Bool := false        -- a destroyed awaiter was read

def step (s : State) : Op → State
  | Op.cas l => { s with chain := l :: s.chain }
  | Op.post l => { s with uaf := s.uaf || s.freed.contains l }
  | Op.release => { s with chain := [], freed := s.freed ++ s.chain }

def run (ops : List Op) : State := ops.foldl step {}

end Cocls.Signal.Pub
