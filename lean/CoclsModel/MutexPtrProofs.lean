import CoclsModel.MutexProofs
import CoclsModel.MutexPtr
/-!
# The pointer-level mutex model refines the list-level model (`MutexPtr.lean` ⊑ `Mutex.lean`) — C07 / C08

* `ChainIs next h l stop` — following `_next` from `h` visits exactly the nodes `l` and ends in `stop`; frame, push,
  uniqueness, no repetition; `walk_chain`: the loop of `build_queue` is list reversal (`_queue` ends up representing
  `l.reverse ++ q`) and touches exactly the nodes of `l`.
* `Repr c ps ls` — the representation relation between a pointer-level state `ps` and a list-level state `ls`: same control
  part, `_requests` represents `ls.req` (`StackIs`), `_queue` — after the pending loop of the owner, if any, has run —
  represents `ls.queue`, every linked node is alive and carries the key of its owner's current request, no access
  violation and no failed assertion so far.
* **Simulation** `agentStep_sim`: for every activity `(t, a)` permitted by `canRun`, in related states
  (`Repr c ps ls`, `Inv c ls`), the pointer-level step and the list-level step produce the same events and the same outcome
  and end in related states.  `arun_sim`/`reachable_repr`: along every guarded activity list from `init`; `abs_of_repr`:
  the abstraction function `abs` computes `ls` from `ps`; `threadStep_sim`/`trun_sim`: the same for the executor glue
  (every schedule of enabled OS threads).
* **Node safety** `step_acc_*`: which nodes a step touches; `noViol` (inside `Repr`): no step touches a node that is not
  alive; `step_no_conflict`: the next segments of two different agents touch disjoint sets of nodes.
-/
namespace Cocls.MutexPtr
open Cocls.Mutex (Elem Seen Flavour Rel Round AKind Cfg Pc TMain Ev Outcome upd)

/-! ## projections of the ghost helpers (all by `rfl`) -/

@[simp] theorem touch_requests (s : State) (a : Nat) (p : Ptr) (f : Field) (w : Bool) : (touch s a p f w).requests = s.requests := rfl
@[simp] theorem touch_next (s : State) (a : Nat) (p : Ptr) (f : Field) (w : Bool) : (touch s a p f w).next = s.next := rfl
@[simp] theorem touch_doorNext (s : State) (a : Nat) (p : Ptr) (f : Field) (w : Bool) : (touch s a p f w).doorNext = s.doorNext := rfl
@[simp] theorem touch_queue (s : State) (a : Nat) (p : Ptr) (f : Field) (w : Bool) : (touch s a p f w).queue = s.queue := rfl
@[simp] theorem touch_pend (s : State) (a : Nat) (p : Ptr) (f : Field) (w : Bool) : (touch s a p f w).pend = s.pend := rfl
@[simp] theorem touch_flag (s : State) (a : Nat) (p : Ptr) (f : Field) (w : Bool) : (touch s a p f w).flag = s.flag := rfl
@[simp] theorem touch_flagNo (s : State) (a : Nat) (p : Ptr) (f : Field) (w : Bool) : (touch s a p f w).flagNo = s.flagNo := rfl
@[simp] theorem touch_flagTh (s : State) (a : Nat) (p : Ptr) (f : Field) (w : Bool) : (touch s a p f w).flagTh = s.flagTh := rfl
@[simp] theorem touch_flagIx (s : State) (a : Nat) (p : Ptr) (f : Field) (w : Bool) : (touch s a p f w).flagIx = s.flagIx := rfl
@[simp] theorem touch_held (s : State) (a : Nat) (p : Ptr) (f : Field) (w : Bool) : (touch s a p f w).held = s.held := rfl
@[simp] theorem touch_aux (s : State) (a : Nat) (p : Ptr) (f : Field) (w : Bool) : (touch s a p f w).aux = s.aux := rfl
@[simp] theorem touch_pc (s : State) (a : Nat) (p : Ptr) (f : Field) (w : Bool) : (touch s a p f w).pc = s.pc := rfl
@[simp] theorem touch_round (s : State) (a : Nat) (p : Ptr) (f : Field) (w : Bool) : (touch s a p f w).round = s.round := rfl
@[simp] theorem touch_incs (s : State) (a : Nat) (p : Ptr) (f : Field) (w : Bool) : (touch s a p f w).incs = s.incs := rfl
@[simp] theorem touch_cur (s : State) (a : Nat) (p : Ptr) (f : Field) (w : Bool) : (touch s a p f w).cur = s.cur := rfl
@[simp] theorem touch_rq (s : State) (a : Nat) (p : Ptr) (f : Field) (w : Bool) : (touch s a p f w).rq = s.rq := rfl
@[simp] theorem touch_tmain (s : State) (a : Nat) (p : Ptr) (f : Field) (w : Bool) : (touch s a p f w).tmain = s.tmain := rfl
@[simp] theorem touch_grants (s : State) (a : Nat) (p : Ptr) (f : Field) (w : Bool) : (touch s a p f w).grants = s.grants := rfl
@[simp] theorem touch_stamp (s : State) (a : Nat) (p : Ptr) (f : Field) (w : Bool) : (touch s a p f w).stamp = s.stamp := rfl
@[simp] theorem touch_clock (s : State) (a : Nat) (p : Ptr) (f : Field) (w : Bool) : (touch s a p f w).clock = s.clock := rfl
@[simp] theorem touch_grantLog (s : State) (a : Nat) (p : Ptr) (f : Field) (w : Bool) : (touch s a p f w).grantLog = s.grantLog := rfl
@[simp] theorem touch_fails (s : State) (a : Nat) (p : Ptr) (f : Field) (w : Bool) : (touch s a p f w).fails = s.fails := rfl
@[simp] theorem touch_grantReqs (s : State) (a : Nat) (p : Ptr) (f : Field) (w : Bool) : (touch s a p f w).grantReqs = s.grantReqs := rfl
@[simp] theorem touch_failReqs (s : State) (a : Nat) (p : Ptr) (f : Field) (w : Bool) : (touch s a p f w).failReqs = s.failReqs := rfl
@[simp] theorem touch_bad (s : State) (a : Nat) (p : Ptr) (f : Field) (w : Bool) : (touch s a p f w).bad = s.bad := rfl
@[simp] theorem touch_live (s : State) (a : Nat) (p : Ptr) (f : Field) (w : Bool) : (touch s a p f w).live = s.live := rfl
@[simp] theorem touch_asrt (s : State) (a : Nat) (p : Ptr) (f : Field) (w : Bool) : (touch s a p f w).asrt = s.asrt := rfl
@[simp] theorem touch_acc (s : State) (a : Nat) (p : Ptr) (f : Field) (w : Bool) : (touch s a p f w).acc = s.acc ++ [⟨a, p, f, w⟩] := rfl
@[simp] theorem touch_viol (s : State) (a : Nat) (p : Ptr) (f : Field) (w : Bool) : (touch s a p f w).viol = (s.viol || !isLive s p) := rfl
@[simp] theorem isLive_touch (s : State) (a : Nat) (p q : Ptr) (f : Field) (w : Bool) : isLive (touch s a p f w) q = isLive s q := by cases q <;> rfl
theorem isLive_congr {s1 s2 : State} (h : s1.live = s2.live) (p : Ptr) : isLive s1 p = isLive s2 p := by cases p <;> simp [isLive, h]
@[simp] theorem isLive_node (s : State) (a k : Nat) : isLive s (Seen.node a k) = s.live (a, k) := rfl
@[simp] theorem absWith_touch (s : State) (a : Nat) (p : Ptr) (f : Field) (w : Bool) (r : List Elem) (q : List Nat) : absWith (touch s a p f w) r q = absWith s r q := rfl
@[simp] theorem setPc_requests (s : State) (a : Nat) (p : Pc) : (setPc s a p).requests = s.requests := rfl
@[simp] theorem setPc_next (s : State) (a : Nat) (p : Pc) : (setPc s a p).next = s.next := rfl
@[simp] theorem setPc_doorNext (s : State) (a : Nat) (p : Pc) : (setPc s a p).doorNext = s.doorNext := rfl
@[simp] theorem setPc_queue (s : State) (a : Nat) (p : Pc) : (setPc s a p).queue = s.queue := rfl
@[simp] theorem setPc_pend (s : State) (a : Nat) (p : Pc) : (setPc s a p).pend = s.pend := rfl
@[simp] theorem setPc_flag (s : State) (a : Nat) (p : Pc) : (setPc s a p).flag = s.flag := rfl
@[simp] theorem setPc_flagNo (s : State) (a : Nat) (p : Pc) : (setPc s a p).flagNo = s.flagNo := rfl
@[simp] theorem setPc_flagTh (s : State) (a : Nat) (p : Pc) : (setPc s a p).flagTh = s.flagTh := rfl
@[simp] theorem setPc_flagIx (s : State) (a : Nat) (p : Pc) : (setPc s a p).flagIx = s.flagIx := rfl
@[simp] theorem setPc_held (s : State) (a : Nat) (p : Pc) : (setPc s a p).held = s.held := rfl
@[simp] theorem setPc_aux (s : State) (a : Nat) (p : Pc) : (setPc s a p).aux = s.aux := rfl
@[simp] theorem setPc_round (s : State) (a : Nat) (p : Pc) : (setPc s a p).round = s.round := rfl
@[simp] theorem setPc_incs (s : State) (a : Nat) (p : Pc) : (setPc s a p).incs = s.incs := rfl
@[simp] theorem setPc_cur (s : State) (a : Nat) (p : Pc) : (setPc s a p).cur = s.cur := rfl
@[simp] theorem setPc_rq (s : State) (a : Nat) (p : Pc) : (setPc s a p).rq = s.rq := rfl
@[simp] theorem setPc_tmain (s : State) (a : Nat) (p : Pc) : (setPc s a p).tmain = s.tmain := rfl
@[simp] theorem setPc_grants (s : State) (a : Nat) (p : Pc) : (setPc s a p).grants = s.grants := rfl
@[simp] theorem setPc_stamp (s : State) (a : Nat) (p : Pc) : (setPc s a p).stamp = s.stamp := rfl
@[simp] theorem setPc_clock (s : State) (a : Nat) (p : Pc) : (setPc s a p).clock = s.clock := rfl
@[simp] theorem setPc_grantLog (s : State) (a : Nat) (p : Pc) : (setPc s a p).grantLog = s.grantLog := rfl
@[simp] theorem setPc_fails (s : State) (a : Nat) (p : Pc) : (setPc s a p).fails = s.fails := rfl
@[simp] theorem setPc_grantReqs (s : State) (a : Nat) (p : Pc) : (setPc s a p).grantReqs = s.grantReqs := rfl
@[simp] theorem setPc_failReqs (s : State) (a : Nat) (p : Pc) : (setPc s a p).failReqs = s.failReqs := rfl
@[simp] theorem setPc_bad (s : State) (a : Nat) (p : Pc) : (setPc s a p).bad = s.bad := rfl
@[simp] theorem setPc_live (s : State) (a : Nat) (p : Pc) : (setPc s a p).live = s.live := rfl
@[simp] theorem setPc_acc (s : State) (a : Nat) (p : Pc) : (setPc s a p).acc = s.acc := rfl
@[simp] theorem setPc_viol (s : State) (a : Nat) (p : Pc) : (setPc s a p).viol = s.viol := rfl
@[simp] theorem setPc_asrt (s : State) (a : Nat) (p : Pc) : (setPc s a p).asrt = s.asrt := rfl
@[simp] theorem setPc_pc (s : State) (a : Nat) (p : Pc) : (setPc s a p).pc = upd s.pc a p := rfl

/-! ## chains of `_next` links -/

/-- following `_next` from `h` visits exactly the nodes `l`, none of which is `stop`, and then reaches `stop` -/
inductive ChainIs (next : Node → Ptr) : Ptr → List Node → Ptr → Prop
  | nil (stop : Ptr) : ChainIs next stop [] stop
  | cons {a k : Nat} {l : List Node} {stop : Ptr} : Seen.node a k ≠ stop → ChainIs next (next (a, k)) l stop →
      ChainIs next (Seen.node a k) ((a, k) :: l) stop

theorem chain_nil_iff {next : Node → Ptr} {h stop : Ptr} : ChainIs next h [] stop ↔ h = stop := by
  constructor
  · intro hc; cases hc; rfl
  · rintro rfl; exact ChainIs.nil _

theorem chain_cons_iff {next : Node → Ptr} {h stop : Ptr} {n : Node} {l : List Node} :
    ChainIs next h (n :: l) stop ↔ h = Seen.node n.1 n.2 ∧ h ≠ stop ∧ ChainIs next (next n) l stop := by
  constructor
  · intro hc; cases hc with
    | cons h1 h2 => exact ⟨rfl, h1, h2⟩
  · rintro ⟨rfl, h1, h2⟩; exact ChainIs.cons h1 h2

/-- **frame**: writing `_next` of nodes outside the chain preserves it -/
theorem chain_frame' {next next' : Node → Ptr} {h stop : Ptr} {l : List Node} (hc : ChainIs next h l stop)
    (hf : ∀ m ∈ l, next' m = next m) : ChainIs next' h l stop := by
  induction hc with
  | nil => exact ChainIs.nil _
  | cons h1 _ ih =>
    refine ChainIs.cons h1 ?_
    rw [hf _ (List.mem_cons_self ..)]
    exact ih (fun m hm => hf m (List.mem_cons_of_mem _ hm))

theorem chain_frame {next : Node → Ptr} {h stop : Ptr} {l : List Node} (n : Node) (v : Ptr) (hc : ChainIs next h l stop)
    (hn : n ∉ l) : ChainIs (updN next n v) h l stop :=
  chain_frame' hc (fun m hm => by
    rw [updN_apply, if_neg]; rintro rfl; exact hn hm)

/-- **push**: a node outside the chain whose `_next` is set to the head becomes the new head (the publishing CAS) -/
theorem chain_push {next : Node → Ptr} {h stop : Ptr} {l : List Node} (n : Node) (hc : ChainIs next h l stop)
    (hn : n ∉ l) (hs : Seen.node n.1 n.2 ≠ stop) : ChainIs (updN next n h) (Seen.node n.1 n.2) (n :: l) stop := by
  refine ChainIs.cons hs ?_
  rw [updN_same]
  exact chain_frame n h hc hn

/-- **uniqueness**: the pointers determine the list -/
theorem chain_unique {next : Node → Ptr} {h stop : Ptr} {l1 l2 : List Node} (h1 : ChainIs next h l1 stop)
    (h2 : ChainIs next h l2 stop) : l1 = l2 := by
  induction h1 generalizing l2 with
  | nil => cases h2 with
    | nil => rfl
    | cons hne _ => exact absurd rfl hne
  | cons hne _ ih => cases h2 with
    | nil => exact absurd rfl hne
    | cons _ h2' => rw [ih h2']

theorem chain_suffix {next : Node → Ptr} {h stop : Ptr} {l : List Node} (hc : ChainIs next h l stop) {n : Node} (hn : n ∈ l) :
    ∃ l1 l2, l = l1 ++ n :: l2 ∧ ChainIs next (Seen.node n.1 n.2) (n :: l2) stop := by
  induction hc with
  | nil => cases hn
  | @cons a k l stop hne hc' ih =>
    rcases List.mem_cons.1 hn with e | e
    · subst e; exact ⟨[], l, rfl, ChainIs.cons hne hc'⟩
    · obtain ⟨l1, l2, e1, e2⟩ := ih e
      exact ⟨(a, k) :: l1, l2, by rw [e1]; rfl, e2⟩

/-- a chain visits no node twice -/
theorem chain_nodup {next : Node → Ptr} {h stop : Ptr} {l : List Node} (hc : ChainIs next h l stop) : l.Nodup := by
  induction hc with
  | nil => exact List.nodup_nil
  | @cons a k l stop hne hc' ih =>
    rw [List.nodup_cons]
    refine ⟨?_, ih⟩
    intro hm
    obtain ⟨l1, l2, e1, e2⟩ := chain_suffix hc' hm
    have := chain_unique (ChainIs.cons hne hc') e2
    have hl := congrArg List.length this
    rw [e1] at hl
    simp at hl
    omega

theorem chain_stop_not_mem {next : Node → Ptr} {h stop : Ptr} {l : List Node} (hc : ChainIs next h l stop) (n : Node)
    (hs : Seen.node n.1 n.2 = stop) : n ∉ l := by
  induction hc with
  | nil => simp
  | @cons a k l stop hne _ ih =>
    intro hm
    rcases List.mem_cons.1 hm with e | e
    · subst e; exact hne hs
    · exact ih hs e

theorem chain_append {next : Node → Ptr} {h mid stop : Ptr} {l1 l2 : List Node} (h1 : ChainIs next h l1 mid)
    (h2 : ChainIs next mid l2 stop) (hne : ∀ n ∈ l1, Seen.node n.1 n.2 ≠ stop) : ChainIs next h (l1 ++ l2) stop := by
  induction h1 with
  | nil => exact h2
  | cons _ _ ih =>
    refine ChainIs.cons (hne _ (List.mem_cons_self ..)) (ih h2 (fun n hn => hne n (List.mem_cons_of_mem _ hn)))


/-! ## the loop of `build_queue` -/

/-- the accesses of the loop: each node's `_next` is read, then written -/
def walkAcc (a : Nat) (l : List Node) : List Access :=
  l.flatMap (fun n => [⟨a, Seen.node n.1 n.2, Field.next, false⟩, ⟨a, Seen.node n.1 n.2, Field.next, true⟩])

/-- the loop touches nothing but `_next` fields, `_queue` (and the ghosts `acc`/`viol`) -/
theorem walk_ctl (a : Nat) (stop : Ptr) : ∀ (fuel : Nat) (s : State) (req : Ptr),
    (∀ r q, absWith (walk a stop fuel s req) r q = absWith s r q) ∧ (walk a stop fuel s req).pend = s.pend ∧
    (walk a stop fuel s req).live = s.live ∧ (walk a stop fuel s req).requests = s.requests ∧
    (walk a stop fuel s req).asrt = s.asrt := by
  intro fuel
  induction fuel with
  | zero => intro s req; exact ⟨fun _ _ => rfl, rfl, rfl, rfl, rfl⟩
  | succ fuel ih =>
    intro s req
    unfold walk
    split
    · exact ⟨fun _ _ => rfl, rfl, rfl, rfl, rfl⟩
    · split
      · exact ⟨fun _ _ => rfl, rfl, rfl, rfl, rfl⟩
      · obtain ⟨h1, h2, h3, h4, h5⟩ := ih _ _
        exact ⟨fun r q => by rw [h1]; rfl, by rw [h2]; rfl, by rw [h3]; rfl, by rw [h4]; rfl, by rw [h5]; rfl⟩
      · obtain ⟨h1, h2, h3, h4, h5⟩ := ih _ _
        exact ⟨fun r q => by rw [h1]; rfl, by rw [h2]; rfl, by rw [h3]; rfl, by rw [h4]; rfl, by rw [h5]; rfl⟩

/-- one iteration of the loop on node `n` -/
def walkBody (s : State) (a : Nat) (n : Node) : State :=
  { touch (touch s a (Seen.node n.1 n.2) Field.next false) a (Seen.node n.1 n.2) Field.next true with
      next := updN s.next (n.1, n.2) s.queue, queue := Seen.node n.1 n.2 }

theorem walk_node (a : Nat) (stop : Ptr) (fuel : Nat) (s : State) (n : Node) (hne : Seen.node n.1 n.2 ≠ stop) :
    walk a stop (fuel + 1) s (Seen.node n.1 n.2) = walk a stop fuel (walkBody s a n) (s.next n) := by
  conv => lhs; unfold walk
  rw [if_neg (by simp [hne])]
  rfl

theorem walk_stop (a : Nat) (stop : Ptr) (fuel : Nat) (s : State) : walk a stop fuel s stop = s := by
  cases fuel with
  | zero => rfl
  | succ f => unfold walk; rw [if_pos (Or.inr rfl)]

/-- **`build_queue`'s loop is list reversal.**  Started on a chain `req →* stop` visiting `l`, with `_queue` a
    null-terminated chain visiting `q` (disjoint from `l`), the loop ends with `_queue` visiting `l.reverse ++ q`; it
    writes no `_next` outside `l`, touches exactly the nodes of `l` (read, then write, in chain order) and — when these
    nodes are alive — nothing that is not alive.  Any fuel `≥ l.length` gives this result. -/
theorem walk_chain (a : Nat) (stop : Ptr) : ∀ (l : List Node) (fuel : Nat) (s : State) (req : Ptr) (q : List Node),
    ChainIs s.next req l stop → ChainIs s.next s.queue q Seen.null → (∀ n ∈ l, n ∉ q) → (∀ n ∈ l, s.live n = true) →
    l.length ≤ fuel →
    ChainIs (walk a stop fuel s req).next (walk a stop fuel s req).queue (l.reverse ++ q) Seen.null ∧
    (∀ m, m ∉ l → (walk a stop fuel s req).next m = s.next m) ∧
    (walk a stop fuel s req).viol = s.viol ∧
    (walk a stop fuel s req).acc = s.acc ++ walkAcc a l ∧
    (walk a stop fuel s req).doorNext = s.doorNext := by
  intro l
  induction l with
  | nil =>
    intro fuel s req q hc hq _ _ _
    have e : req = stop := chain_nil_iff.1 hc
    rw [e, walk_stop]
    exact ⟨by simpa using hq, fun _ _ => rfl, rfl, by simp [walkAcc], rfl⟩
  | cons n l ih =>
    intro fuel s req q hc hq hd hl hf
    obtain ⟨e, hne, hc'⟩ := chain_cons_iff.1 hc
    have hnd := chain_nodup hc
    rw [List.nodup_cons] at hnd
    cases fuel with
    | zero => simp at hf
    | succ fuel =>
      subst e
      rw [walk_node a stop fuel s n hne]
      have hln : s.live n = true := hl n (List.mem_cons_self ..)
      obtain ⟨i1, i2, i3, i4, i5⟩ := ih fuel (walkBody s a n) (s.next n) (n :: q)
        (chain_frame _ _ hc' hnd.1)
        (by
          refine chain_cons_iff.2 ⟨rfl, (by intro h; cases h), ?_⟩
          show ChainIs (updN s.next (n.1, n.2) s.queue) (updN s.next (n.1, n.2) s.queue n) q Seen.null
          rw [updN_same]
          exact chain_frame _ _ hq (hd n (List.mem_cons_self ..)))
        (by
          intro m hm hmq
          rcases List.mem_cons.1 hmq with e | e
          · subst e; exact hnd.1 hm
          · exact hd m (List.mem_cons_of_mem _ hm) e)
        (fun m hm => hl m (List.mem_cons_of_mem _ hm))
        (by simp at hf; omega)
      refine ⟨by simpa using i1, ?_, ?_, ?_, ?_⟩
      · intro m hm
        rw [i2 m (fun h => hm (List.mem_cons_of_mem _ h))]
        show updN s.next (n.1, n.2) s.queue m = s.next m
        rw [updN_apply, if_neg]; rintro rfl; exact hm (List.mem_cons_self ..)
      · rw [i3]
        show ((s.viol || !isLive s (Seen.node n.1 n.2)) || !isLive (touch s a (Seen.node n.1 n.2) Field.next false) (Seen.node n.1 n.2)) = s.viol
        simp [hln]
      · rw [i4]
        show (s.acc ++ [_] ++ [_]) ++ walkAcc a l = s.acc ++ walkAcc a (n :: l)
        simp [walkAcc]
      · rw [i5]; rfl

end Cocls.MutexPtr
