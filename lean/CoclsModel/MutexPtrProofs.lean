import CoclsModel.MutexProofs
import CoclsModel.MutexPtr
/-!
# The pointer-level mutex model refines the list-level model (`MutexPtr.lean` ⊑ `Mutex.lean`) — C07 / C08

* `ChainIs next h l stop` — following `_next` from `h` visits exactly the nodes `l`, none of which is `stop`, and then reaches
  `stop`; `chain_frame` (writing `_next` of a node outside the chain), `chain_push` (the publishing CAS), `chain_unique`,
  `chain_nodup`; `walk_chain`: the loop of `build_queue` is list reversal (`_queue` ends up representing `l.reverse ++ q`),
  writes nothing outside `l` and touches exactly the nodes of `l`.  `StackIs`: `_requests` as the list-level stack.
* `Repr c ps ls` — the representation relation between a pointer-level state `ps` and a list-level state `ls`: same control
  part, `_requests` represents `ls.req`, `_queue` — after the pending loop of the owner, if any (`PendIs`), has run — represents
  `ls.queue`, every linked node is alive and carries the key of its owner's current request, a loop is pending only for the
  owner right after its exchange (and `_queue` is null then), no access violation and no failed assertion so far.
* **Simulation.** `agentStep_sim` (one lemma per pc: `sim_top`, `sim_sub`, `sim_build`, `sim_crit`, `sim_unlockStart`,
  `sim_handOver`, `sim_relBuild`, … ; `reprL_flush`: the pending loop does not change what the pointers represent): in
  related states with the list-level invariant, the pointer-level activity `(t, a)` and the list-level activity `(t, a)`
  produce the same events and outcome and end in related states — for every pc, no restriction to `canRun`.
  `arun_sim`/`repr_run`: along every guarded activity list from `init` (`c.n ≤ wf`: `lists_length_le`, no chain is longer than
  the number of contenders); `abs_of_repr`/`abs_agentStep`: the abstraction function `abs` computes `ls` from `ps`, so
  `abs (pstep ps a) = lstep (abs ps) a`; `threadStep_sim`/`trun_sim`/`trun_init_sim`: the same for the executor glue (every
  schedule of enabled OS threads).
* **Node safety.** `agentStep_acc`: which nodes an activity touches (its own unpublished node inside `subscribe`, or — as the
  owner — nodes of agents in the list-level queue); `agentStep_acc_pc`: at which pcs it touches anything; `handover_step`: the
  accesses of the hand-over in order; `step_no_conflict`: the next segments of two different agents touch disjoint sets of
  nodes; `noViol`/`noAsrt` (inside `Repr`, `step_no_viol`): no access to a node that is not alive, no failed assertion;
  `linked_live`, `Links`/`links_unique`/`links_of_repr`: the lists the pointers denote are determined by the pointers, and
  all their nodes are alive.
-/
namespace Cocls.MutexPtr
open Cocls.Mutex (Elem Seen Flavour Rel Round AKind Cfg Pc TMain Ev Outcome upd nodesL nodesOf seenOf Inv Listed Owner
  Waiting canRun TInv LInv WakeOk RunsAs)

/-! ## projections of the ghost helpers (all by `rfl`) -/

@[simp] theorem touch_requests (s : State) (a : Nat) (p : Ptr) (f : Field) (w : Bool) : (touch s a p f w).requests = s.requests := rfl
@[simp] theorem touch_next (s : State) (a : Nat) (p : Ptr) (f : Field) (w : Bool) : (touch s a p f w).next = s.next := rfl
@[simp] theorem touch_doorNext (s : State) (a : Nat) (p : Ptr) (f : Field) (w : Bool) : (touch s a p f w).doorNext = s.doorNext := rfl
@[simp] theorem touch_queue (s : State) (a : Nat) (p : Ptr) (f : Field) (w : Bool) : (touch s a p f w).queue = s.queue := rfl
@[simp] theorem touch_pend (s : State) (a : Nat) (p : Ptr) (f : Field) (w : Bool) : (touch s a p f w).pend = s.pend := rfl
@[simp] theorem touch_flag (s : State) (a : Nat) (p : Ptr) (f : Field) (w : Bool) : (touch s a p f w).flag = s.flag := rfl
@[simp] theorem touch_flagNo (s : State) (a : Nat) (p : Ptr) (f : Field) (w : Bool) : (touch s a p f w).flagNo = s.flagNo := rfl
@[simp] theorem touch_flagTh (s : State) (a : Nat) (p : Ptr) (f : Field) (w : Bool) : (touch s a p f w).flagTh = s.flagTh := rfl
@[simp] theorem touch_flagIx (s : State) (a : Nat) (p : Ptr) (f : Field) (w : Bool) : (touch s a p f w).flagIx = s.flagIx := rfl
@[simp] theorem touch_held (s : State) (a : Nat) (p : Ptr) (f : Field) (w : Bool) : (touch s a p f w).held = s.held := rfl
@[simp] theorem touch_aux (s : State) (a : Nat) (p : Ptr) (f : Field) (w : Bool) : (touch s a p f w).aux = s.aux := rfl
@[simp] theorem touch_pc (s : State) (a : Nat) (p : Ptr) (f : Field) (w : Bool) : (touch s a p f w).pc = s.pc := rfl
@[simp] theorem touch_round (s : State) (a : Nat) (p : Ptr) (f : Field) (w : Bool) : (touch s a p f w).round = s.round := rfl
@[simp] theorem touch_incs (s : State) (a : Nat) (p : Ptr) (f : Field) (w : Bool) : (touch s a p f w).incs = s.incs := rfl
@[simp] theorem touch_cur (s : State) (a : Nat) (p : Ptr) (f : Field) (w : Bool) : (touch s a p f w).cur = s.cur := rfl
@[simp] theorem touch_rq (s : State) (a : Nat) (p : Ptr) (f : Field) (w : Bool) : (touch s a p f w).rq = s.rq := rfl
@[simp] theorem touch_tmain (s : State) (a : Nat) (p : Ptr) (f : Field) (w : Bool) : (touch s a p f w).tmain = s.tmain := rfl
@[simp] theorem touch_grants (s : State) (a : Nat) (p : Ptr) (f : Field) (w : Bool) : (touch s a p f w).grants = s.grants := rfl
@[simp] theorem touch_stamp (s : State) (a : Nat) (p : Ptr) (f : Field) (w : Bool) : (touch s a p f w).stamp = s.stamp := rfl
@[simp] theorem touch_clock (s : State) (a : Nat) (p : Ptr) (f : Field) (w : Bool) : (touch s a p f w).clock = s.clock := rfl
@[simp] theorem touch_grantLog (s : State) (a : Nat) (p : Ptr) (f : Field) (w : Bool) : (touch s a p f w).grantLog = s.grantLog := rfl
@[simp] theorem touch_fails (s : State) (a : Nat) (p : Ptr) (f : Field) (w : Bool) : (touch s a p f w).fails = s.fails := rfl
@[simp] theorem touch_grantReqs (s : State) (a : Nat) (p : Ptr) (f : Field) (w : Bool) : (touch s a p f w).grantReqs = s.grantReqs := rfl
@[simp] theorem touch_failReqs (s : State) (a : Nat) (p : Ptr) (f : Field) (w : Bool) : (touch s a p f w).failReqs = s.failReqs := rfl
@[simp] theorem touch_bad (s : State) (a : Nat) (p : Ptr) (f : Field) (w : Bool) : (touch s a p f w).bad = s.bad := rfl
@[simp] theorem touch_live (s : State) (a : Nat) (p : Ptr) (f : Field) (w : Bool) : (touch s a p f w).live = s.live := rfl
@[simp] theorem touch_asrt (s : State) (a : Nat) (p : Ptr) (f : Field) (w : Bool) : (touch s a p f w).asrt = s.asrt := rfl
@[simp] theorem touch_acc (s : State) (a : Nat) (p : Ptr) (f : Field) (w : Bool) : (touch s a p f w).acc = s.acc ++ [⟨a, p, f, w⟩] := rfl
@[simp] theorem touch_viol (s : State) (a : Nat) (p : Ptr) (f : Field) (w : Bool) : (touch s a p f w).viol = (s.viol || !isLive s p) := rfl
@[simp] theorem isLive_touch (s : State) (a : Nat) (p q : Ptr) (f : Field) (w : Bool) : isLive (touch s a p f w) q = isLive s q := by cases q <;> rfl
theorem isLive_congr {s1 s2 : State} (h : s1.live = s2.live) (p : Ptr) : isLive s1 p = isLive s2 p := by cases p <;> simp [isLive, h]
@[simp] theorem isLive_node (s : State) (a k : Nat) : isLive s (Seen.node a k) = s.live (a, k) := rfl
@[simp] theorem absWith_touch (s : State) (a : Nat) (p : Ptr) (f : Field) (w : Bool) (r : List Elem) (q : List Nat) : absWith (touch s a p f w) r q = absWith s r q := rfl
@[simp] theorem setPc_requests (s : State) (a : Nat) (p : Pc) : (setPc s a p).requests = s.requests := rfl
@[simp] theorem setPc_next (s : State) (a : Nat) (p : Pc) : (setPc s a p).next = s.next := rfl
@[simp] theorem setPc_doorNext (s : State) (a : Nat) (p : Pc) : (setPc s a p).doorNext = s.doorNext := rfl
@[simp] theorem setPc_queue (s : State) (a : Nat) (p : Pc) : (setPc s a p).queue = s.queue := rfl
@[simp] theorem setPc_pend (s : State) (a : Nat) (p : Pc) : (setPc s a p).pend = s.pend := rfl
@[simp] theorem setPc_flag (s : State) (a : Nat) (p : Pc) : (setPc s a p).flag = s.flag := rfl
@[simp] theorem setPc_flagNo (s : State) (a : Nat) (p : Pc) : (setPc s a p).flagNo = s.flagNo := rfl
@[simp] theorem setPc_flagTh (s : State) (a : Nat) (p : Pc) : (setPc s a p).flagTh = s.flagTh := rfl
@[simp] theorem setPc_flagIx (s : State) (a : Nat) (p : Pc) : (setPc s a p).flagIx = s.flagIx := rfl
@[simp] theorem setPc_held (s : State) (a : Nat) (p : Pc) : (setPc s a p).held = s.held := rfl
@[simp] theorem setPc_aux (s : State) (a : Nat) (p : Pc) : (setPc s a p).aux = s.aux := rfl
@[simp] theorem setPc_round (s : State) (a : Nat) (p : Pc) : (setPc s a p).round = s.round := rfl
@[simp] theorem setPc_incs (s : State) (a : Nat) (p : Pc) : (setPc s a p).incs = s.incs := rfl
@[simp] theorem setPc_cur (s : State) (a : Nat) (p : Pc) : (setPc s a p).cur = s.cur := rfl
@[simp] theorem setPc_rq (s : State) (a : Nat) (p : Pc) : (setPc s a p).rq = s.rq := rfl
@[simp] theorem setPc_tmain (s : State) (a : Nat) (p : Pc) : (setPc s a p).tmain = s.tmain := rfl
@[simp] theorem setPc_grants (s : State) (a : Nat) (p : Pc) : (setPc s a p).grants = s.grants := rfl
@[simp] theorem setPc_stamp (s : State) (a : Nat) (p : Pc) : (setPc s a p).stamp = s.stamp := rfl
@[simp] theorem setPc_clock (s : State) (a : Nat) (p : Pc) : (setPc s a p).clock = s.clock := rfl
@[simp] theorem setPc_grantLog (s : State) (a : Nat) (p : Pc) : (setPc s a p).grantLog = s.grantLog := rfl
@[simp] theorem setPc_fails (s : State) (a : Nat) (p : Pc) : (setPc s a p).fails = s.fails := rfl
@[simp] theorem setPc_grantReqs (s : State) (a : Nat) (p : Pc) : (setPc s a p).grantReqs = s.grantReqs := rfl
@[simp] theorem setPc_failReqs (s : State) (a : Nat) (p : Pc) : (setPc s a p).failReqs = s.failReqs := rfl
@[simp] theorem setPc_bad (s : State) (a : Nat) (p : Pc) : (setPc s a p).bad = s.bad := rfl
@[simp] theorem setPc_live (s : State) (a : Nat) (p : Pc) : (setPc s a p).live = s.live := rfl
@[simp] theorem setPc_acc (s : State) (a : Nat) (p : Pc) : (setPc s a p).acc = s.acc := rfl
@[simp] theorem setPc_viol (s : State) (a : Nat) (p : Pc) : (setPc s a p).viol = s.viol := rfl
@[simp] theorem setPc_asrt (s : State) (a : Nat) (p : Pc) : (setPc s a p).asrt = s.asrt := rfl
@[simp] theorem setPc_pc (s : State) (a : Nat) (p : Pc) : (setPc s a p).pc = upd s.pc a p := rfl

/-! ## chains of `_next` links -/

/-- following `_next` from `h` visits exactly the nodes `l`, none of which is `stop`, and then reaches `stop` -/
inductive ChainIs (next : Node → Ptr) : Ptr → List Node → Ptr → Prop
  | nil (stop : Ptr) : ChainIs next stop [] stop
  | cons {a k : Nat} {l : List Node} {stop : Ptr} : Seen.node a k ≠ stop → ChainIs next (next (a, k)) l stop →
      ChainIs next (Seen.node a k) ((a, k) :: l) stop

theorem chain_nil_iff {next : Node → Ptr} {h stop : Ptr} : ChainIs next h [] stop ↔ h = stop := by
  constructor
  · intro hc; cases hc; rfl
  · rintro rfl; exact ChainIs.nil _

theorem chain_cons_iff {next : Node → Ptr} {h stop : Ptr} {n : Node} {l : List Node} :
    ChainIs next h (n :: l) stop ↔ h = Seen.node n.1 n.2 ∧ h ≠ stop ∧ ChainIs next (next n) l stop := by
  constructor
  · intro hc; cases hc with
    | cons h1 h2 => exact ⟨rfl, h1, h2⟩
  · rintro ⟨rfl, h1, h2⟩; exact ChainIs.cons h1 h2

/-- **frame**: writing `_next` of nodes outside the chain preserves it -/
theorem chain_frame' {next next' : Node → Ptr} {h stop : Ptr} {l : List Node} (hc : ChainIs next h l stop)
    (hf : ∀ m ∈ l, next' m = next m) : ChainIs next' h l stop := by
  induction hc with
  | nil => exact ChainIs.nil _
  | cons h1 _ ih =>
    refine ChainIs.cons h1 ?_
    rw [hf _ (List.mem_cons_self ..)]
    exact ih (fun m hm => hf m (List.mem_cons_of_mem _ hm))

theorem chain_frame {next : Node → Ptr} {h stop : Ptr} {l : List Node} (n : Node) (v : Ptr) (hc : ChainIs next h l stop)
    (hn : n ∉ l) : ChainIs (updN next n v) h l stop :=
  chain_frame' hc (fun m hm => by
    rw [updN_apply, if_neg]; rintro rfl; exact hn hm)

/-- **push**: a node outside the chain whose `_next` is set to the head becomes the new head (the publishing CAS) -/
theorem chain_push {next : Node → Ptr} {h stop : Ptr} {l : List Node} (n : Node) (hc : ChainIs next h l stop)
    (hn : n ∉ l) (hs : Seen.node n.1 n.2 ≠ stop) : ChainIs (updN next n h) (Seen.node n.1 n.2) (n :: l) stop := by
  refine ChainIs.cons hs ?_
  rw [updN_same]
  exact chain_frame n h hc hn

/-- **uniqueness**: the pointers determine the list -/
theorem chain_unique {next : Node → Ptr} {h stop : Ptr} {l1 l2 : List Node} (h1 : ChainIs next h l1 stop)
    (h2 : ChainIs next h l2 stop) : l1 = l2 := by
  induction h1 generalizing l2 with
  | nil => cases h2 with
    | nil => rfl
    | cons hne _ => exact absurd rfl hne
  | cons hne _ ih => cases h2 with
    | nil => exact absurd rfl hne
    | cons _ h2' => rw [ih h2']

theorem chain_suffix {next : Node → Ptr} {h stop : Ptr} {l : List Node} (hc : ChainIs next h l stop) {n : Node} (hn : n ∈ l) :
    ∃ l1 l2, l = l1 ++ n :: l2 ∧ ChainIs next (Seen.node n.1 n.2) (n :: l2) stop := by
  induction hc with
  | nil => cases hn
  | @cons a k l stop hne hc' ih =>
    rcases List.mem_cons.1 hn with e | e
    · subst e; exact ⟨[], l, rfl, ChainIs.cons hne hc'⟩
    · obtain ⟨l1, l2, e1, e2⟩ := ih e
      exact ⟨(a, k) :: l1, l2, by rw [e1]; rfl, e2⟩

/-- a chain visits no node twice -/
theorem chain_nodup {next : Node → Ptr} {h stop : Ptr} {l : List Node} (hc : ChainIs next h l stop) : l.Nodup := by
  induction hc with
  | nil => exact List.nodup_nil
  | @cons a k l stop hne hc' ih =>
    rw [List.nodup_cons]
    refine ⟨?_, ih⟩
    intro hm
    obtain ⟨l1, l2, e1, e2⟩ := chain_suffix hc' hm
    have := chain_unique (ChainIs.cons hne hc') e2
    have hl := congrArg List.length this
    rw [e1] at hl
    simp at hl
    omega

theorem chain_stop_not_mem {next : Node → Ptr} {h stop : Ptr} {l : List Node} (hc : ChainIs next h l stop) (n : Node)
    (hs : Seen.node n.1 n.2 = stop) : n ∉ l := by
  induction hc with
  | nil => simp
  | @cons a k l stop hne _ ih =>
    intro hm
    rcases List.mem_cons.1 hm with e | e
    · subst e; exact hne hs
    · exact ih hs e

theorem chain_append {next : Node → Ptr} {h mid stop : Ptr} {l1 l2 : List Node} (h1 : ChainIs next h l1 mid)
    (h2 : ChainIs next mid l2 stop) (hne : ∀ n ∈ l1, Seen.node n.1 n.2 ≠ stop) : ChainIs next h (l1 ++ l2) stop := by
  induction h1 with
  | nil => exact h2
  | cons _ _ ih =>
    refine ChainIs.cons (hne _ (List.mem_cons_self ..)) (ih h2 (fun n hn => hne n (List.mem_cons_of_mem _ hn)))


/-! ## the loop of `build_queue` -/

/-- the accesses of the loop: each node's `_next` is read, then written -/
def walkAcc (a : Nat) (l : List Node) : List Access :=
  l.flatMap (fun n => [⟨a, Seen.node n.1 n.2, Field.next, false⟩, ⟨a, Seen.node n.1 n.2, Field.next, true⟩])

/-- the loop touches nothing but `_next` fields, `_queue` (and the ghosts `acc`/`viol`) -/
theorem walk_ctl (a : Nat) (stop : Ptr) : ∀ (fuel : Nat) (s : State) (req : Ptr),
    (∀ r q, absWith (walk a stop fuel s req) r q = absWith s r q) ∧ (walk a stop fuel s req).pend = s.pend ∧
    (walk a stop fuel s req).live = s.live ∧ (walk a stop fuel s req).requests = s.requests ∧
    (walk a stop fuel s req).asrt = s.asrt := by
  intro fuel
  induction fuel with
  | zero => intro s req; exact ⟨fun _ _ => rfl, rfl, rfl, rfl, rfl⟩
  | succ fuel ih =>
    intro s req
    unfold walk
    split
    · exact ⟨fun _ _ => rfl, rfl, rfl, rfl, rfl⟩
    · split
      · exact ⟨fun _ _ => rfl, rfl, rfl, rfl, rfl⟩
      · obtain ⟨h1, h2, h3, h4, h5⟩ := ih _ _
        exact ⟨fun r q => by rw [h1]; rfl, by rw [h2]; rfl, by rw [h3]; rfl, by rw [h4]; rfl, by rw [h5]; rfl⟩
      · obtain ⟨h1, h2, h3, h4, h5⟩ := ih _ _
        exact ⟨fun r q => by rw [h1]; rfl, by rw [h2]; rfl, by rw [h3]; rfl, by rw [h4]; rfl, by rw [h5]; rfl⟩

/-- one iteration of the loop on node `n` -/
def walkBody (s : State) (a : Nat) (n : Node) : State :=
  { touch (touch s a (Seen.node n.1 n.2) Field.next false) a (Seen.node n.1 n.2) Field.next true with
      next := updN s.next (n.1, n.2) s.queue, queue := Seen.node n.1 n.2 }

theorem walk_node (a : Nat) (stop : Ptr) (fuel : Nat) (s : State) (n : Node) (hne : Seen.node n.1 n.2 ≠ stop) :
    walk a stop (fuel + 1) s (Seen.node n.1 n.2) = walk a stop fuel (walkBody s a n) (s.next n) := by
  conv => lhs; unfold walk
  rw [if_neg (by simp [hne])]
  rfl

theorem walk_stop (a : Nat) (stop : Ptr) (fuel : Nat) (s : State) : walk a stop fuel s stop = s := by
  cases fuel with
  | zero => rfl
  | succ f => unfold walk; rw [if_pos (Or.inr rfl)]

/-- **`build_queue`'s loop is list reversal.**  Started on a chain `req →* stop` visiting `l`, with `_queue` a
    null-terminated chain visiting `q` (disjoint from `l`), the loop ends with `_queue` visiting `l.reverse ++ q`; it
    writes no `_next` outside `l`, touches exactly the nodes of `l` (read, then write, in chain order) and — when these
    nodes are alive — nothing that is not alive.  Any fuel `≥ l.length` gives this result. -/
theorem walk_chain (a : Nat) (stop : Ptr) : ∀ (l : List Node) (fuel : Nat) (s : State) (req : Ptr) (q : List Node),
    ChainIs s.next req l stop → ChainIs s.next s.queue q Seen.null → (∀ n ∈ l, n ∉ q) → (∀ n ∈ l, s.live n = true) →
    l.length ≤ fuel →
    ChainIs (walk a stop fuel s req).next (walk a stop fuel s req).queue (l.reverse ++ q) Seen.null ∧
    (∀ m, m ∉ l → (walk a stop fuel s req).next m = s.next m) ∧
    (walk a stop fuel s req).viol = s.viol ∧
    (walk a stop fuel s req).acc = s.acc ++ walkAcc a l ∧
    (walk a stop fuel s req).doorNext = s.doorNext := by
  intro l
  induction l with
  | nil =>
    intro fuel s req q hc hq _ _ _
    have e : req = stop := chain_nil_iff.1 hc
    rw [e, walk_stop]
    exact ⟨by simpa using hq, fun _ _ => rfl, rfl, by simp [walkAcc], rfl⟩
  | cons n l ih =>
    intro fuel s req q hc hq hd hl hf
    obtain ⟨e, hne, hc'⟩ := chain_cons_iff.1 hc
    have hnd := chain_nodup hc
    rw [List.nodup_cons] at hnd
    cases fuel with
    | zero => simp at hf
    | succ fuel =>
      subst e
      rw [walk_node a stop fuel s n hne]
      have hln : s.live n = true := hl n (List.mem_cons_self ..)
      obtain ⟨i1, i2, i3, i4, i5⟩ := ih fuel (walkBody s a n) (s.next n) (n :: q)
        (chain_frame _ _ hc' hnd.1)
        (by
          refine chain_cons_iff.2 ⟨rfl, (by intro h; cases h), ?_⟩
          show ChainIs (updN s.next (n.1, n.2) s.queue) (updN s.next (n.1, n.2) s.queue n) q Seen.null
          rw [updN_same]
          exact chain_frame _ _ hq (hd n (List.mem_cons_self ..)))
        (by
          intro m hm hmq
          rcases List.mem_cons.1 hmq with e | e
          · subst e; exact hnd.1 hm
          · exact hd m (List.mem_cons_of_mem _ hm) e)
        (fun m hm => hl m (List.mem_cons_of_mem _ hm))
        (by simp at hf; omega)
      refine ⟨by simpa using i1, ?_, ?_, ?_, ?_⟩
      · intro m hm
        rw [i2 m (fun h => hm (List.mem_cons_of_mem _ h))]
        show updN s.next (n.1, n.2) s.queue m = s.next m
        rw [updN_apply, if_neg]; rintro rfl; exact hm (List.mem_cons_self ..)
      · rw [i3]
        show ((s.viol || !isLive s (Seen.node n.1 n.2)) || !isLive (touch s a (Seen.node n.1 n.2) Field.next false) (Seen.node n.1 n.2)) = s.viol
        simp [hln]
      · rw [i4]
        show (s.acc ++ [_] ++ [_]) ++ walkAcc a l = s.acc ++ walkAcc a (n :: l)
        simp [walkAcc]
      · rw [i5]; rfl

/-- **`walk_reverse`** (the pointer statement alone): the loop of `build_queue`, started on a chain representing `l` with
    `_queue` representing `q`, ends with `_queue` representing `l.reverse ++ q` -/
theorem walk_reverse (a : Nat) (stop : Ptr) (l : List Node) (fuel : Nat) (s : State) (req : Ptr) (q : List Node)
    (hl : ChainIs s.next req l stop) (hq : ChainIs s.next s.queue q Seen.null) (hd : ∀ n ∈ l, n ∉ q)
    (hlive : ∀ n ∈ l, s.live n = true) (hf : l.length ≤ fuel) :
    ChainIs (walk a stop fuel s req).next (walk a stop fuel s req).queue (l.reverse ++ q) Seen.null :=
  (walk_chain a stop l fuel s req q hl hq hd hlive hf).1

/-! ## `_requests` as a stack -/

/-- `_requests = p` represents the list-level stack `req`: `[]` = null, `[door]` = the doorman, a node is followed by
    what its `_next` represents (so the bottom node of a stack without doorman has `_next = null`) -/
def StackIs (next : Node → Ptr) : Ptr → List Elem → Prop
  | p, [] => p = Seen.null
  | p, Elem.door :: r => p = Seen.door ∧ r = []
  | p, Elem.node a k :: r => p = Seen.node a k ∧ StackIs next (next (a, k)) r

/-- the request nodes of a stack -/
def nodesN : List Elem → List Node
  | [] => []
  | Elem.door :: _ => []
  | Elem.node a k :: r => (a, k) :: nodesN r

@[simp] theorem nodesN_nil : nodesN [] = [] := rfl
@[simp] theorem nodesN_door (r) : nodesN (Elem.door :: r) = [] := rfl
@[simp] theorem nodesN_node (a k r) : nodesN (Elem.node a k :: r) = (a, k) :: nodesN r := rfl

theorem nodesOf_eq_map (r : List Elem) : nodesOf r = (nodesN r).map (·.1) := by
  induction r with
  | nil => rfl
  | cons e r ih => cases e <;> simp [nodesOf, ih]

theorem nodesN_nodesL (xs : List Node) (tl : List Elem) : nodesN (nodesL xs ++ tl) = xs ++ nodesN tl := by
  induction xs with
  | nil => rfl
  | cons x xs ih => simp [nodesL]; exact ih

theorem stackIs_seen {next : Node → Ptr} {p : Ptr} {r : List Elem} (h : StackIs next p r) : seenOf r = p := by
  cases r with
  | nil => exact h.symm
  | cons e r => cases e with
    | door => exact h.1.symm
    | node a k => exact h.1.symm

theorem stackIs_nil_iff {next : Node → Ptr} {p : Ptr} {r : List Elem} (h : StackIs next p r) : p = Seen.null ↔ r = [] := by
  cases r with
  | nil => have : p = Seen.null := h; simp [this]
  | cons e r => cases e with
    | door => simp [h.1]
    | node a k => simp [h.1]

theorem stackIs_door_iff {next : Node → Ptr} {p : Ptr} {r : List Elem} (h : StackIs next p r) :
    p = Seen.door ↔ r = [Elem.door] := by
  cases r with
  | nil => have : p = Seen.null := h; simp [this]
  | cons e r => cases e with
    | door => simp [h.1, h.2]
    | node a k => simp [h.1]

theorem stackIs_frame' {next next' : Node → Ptr} {p : Ptr} {r : List Elem} (h : StackIs next p r)
    (hf : ∀ m ∈ nodesN r, next' m = next m) : StackIs next' p r := by
  induction r generalizing p with
  | nil => exact h
  | cons e r ih => cases e with
    | door => exact h
    | node a k =>
      refine ⟨h.1, ?_⟩
      rw [hf (a, k) (by simp)]
      exact ih h.2 (fun m hm => hf m (by simp [hm]))

theorem stackIs_frame {next : Node → Ptr} {p : Ptr} {r : List Elem} (n : Node) (v : Ptr) (h : StackIs next p r)
    (hn : n ∉ nodesN r) : StackIs (updN next n v) p r :=
  stackIs_frame' h (fun m hm => by rw [updN_apply, if_neg]; rintro rfl; exact hn hm)

/-- a stack ending in the doorman is a chain to the doorman -/
theorem stackIs_door {next : Node → Ptr} {p : Ptr} (xs : List Node) :
    StackIs next p (nodesL xs ++ [Elem.door]) ↔ ChainIs next p xs Seen.door := by
  induction xs generalizing p with
  | nil => simp [StackIs, nodesL, chain_nil_iff]
  | cons x xs ih =>
    simp only [nodesL, List.map_cons, List.cons_append, StackIs]
    rw [chain_cons_iff]
    constructor
    · rintro ⟨e, h⟩
      refine ⟨e, ?_, (ih).1 h⟩
      rw [e]; intro h'; cases h'
    · rintro ⟨e, _, h⟩; exact ⟨e, (ih).2 h⟩

/-- a stack ending in the node of the found-null acquirer is a chain to that node, whose `_next` is null -/
theorem stackIs_nodeEnd {next : Node → Ptr} {p : Ptr} (xs : List Node) (o : Node) (ho : o ∉ xs) :
    StackIs next p (nodesL xs ++ [Elem.node o.1 o.2]) ↔ (ChainIs next p xs (Seen.node o.1 o.2) ∧ next o = Seen.null) := by
  induction xs generalizing p with
  | nil =>
    simp only [nodesL, List.map_nil, List.nil_append, StackIs, chain_nil_iff]
  | cons x xs ih =>
    simp only [nodesL, List.map_cons, List.cons_append, StackIs]
    rw [chain_cons_iff]
    have hx : x ≠ o := fun e => ho (by simp [e])
    have ho' : o ∉ xs := fun h => ho (by simp [h])
    constructor
    · rintro ⟨e, h⟩
      have := (ih ho').1 h
      refine ⟨⟨e, ?_, this.1⟩, this.2⟩
      rw [e]; intro h; injection h with h1 h2; exact hx (Prod.ext h1 h2)
    · rintro ⟨⟨e, _, h⟩, h2⟩; exact ⟨e, (ih ho').2 ⟨h, h2⟩⟩

/-! ## the representation relation -/

/-- the loop a `build_queue` still has to run (between its exchange and the caller's next segment) moves exactly `det` -/
def PendIs (ps : State) (det : List Node) : Prop :=
  (∀ o h st, ps.pend o = some (h, st) → ChainIs ps.next h det st) ∧ ((∀ o, ps.pend o = none) → det = [])

/-- the pointer fields of `ps` represent the list-level stack `req` and queue `q` -/
structure ReprL (c : Cfg) (ps : State) (req : List Elem) (q : List Nat) : Prop where
  /-- `_requests` represents the stack -/
  stack : StackIs ps.next ps.requests req
  /-- the detached chain `det` of a pending loop (reversed) followed by the chain `q0` of `_queue` is the list-level queue;
      all these nodes are alive and carry the key of their owner's current request -/
  que : ∃ det q0, PendIs ps det ∧ ChainIs ps.next ps.queue q0 Seen.null ∧ q = (det.reverse ++ q0).map (·.1) ∧
          (∀ n ∈ det ++ q0, ps.live n = true ∧ n.2 = keyOf c ps n.1)
  /-- so are the nodes of the stack -/
  stk : ∀ n ∈ nodesN req, ps.live n = true ∧ n.2 = keyOf c ps n.1
  /-- a loop is pending only for the owner right after its exchange; `_queue` is null then (the assertion of `build_queue`) -/
  pendOwn : ∀ o h st, ps.pend o = some (h, st) → ps.queue = Seen.null ∧
      ((ps.pc o = Pc.crit ∧ st = Seen.node o (keyOf c ps o)) ∨ (ps.pc o = Pc.relHand ∧ st = Seen.door))
  /-- no access so far touched a node that was not alive, dereferenced null or the doorman -/
  noViol : ps.viol = false
  /-- no assertion of mutex.h failed so far -/
  noAsrt : ps.asrt = false
  /-- the doorman's `_next` was never written -/
  doorN : ps.doorNext = Seen.null

/-- **the representation relation**: `ls` has the control part of `ps`, and `ps` represents its stack and queue -/
def Repr (c : Cfg) (ps : State) (ls : Mutex.State) : Prop :=
  ls = absWith ps ls.req ls.queue ∧ ReprL c ps ls.req ls.queue

theorem keyOf_abs (c : Cfg) (s : State) (r : List Elem) (q : List Nat) (a : Nat) :
    Mutex.keyOf c (absWith s r q) a = keyOf c s a := rfl
theorem flOf_abs (c : Cfg) (s : State) (r : List Elem) (q : List Nat) (a : Nat) :
    Mutex.flOf c (absWith s r q) a = flOf c s a := rfl
theorem relOf_abs (c : Cfg) (s : State) (r : List Elem) (q : List Nat) (a : Nat) :
    Mutex.relOf c (absWith s r q) a = relOf c s a := rfl
theorem objOf_abs (c : Cfg) (s : State) (r : List Elem) (q : List Nat) (a : Nat) :
    Mutex.objOf c (absWith s r q) a = objOf c s a := rfl
theorem curRound_abs (c : Cfg) (s : State) (r : List Elem) (q : List Nat) (a : Nat) :
    Mutex.curRound c (absWith s r q) a = curRound c s a := rfl

theorem keyOf_congr {c : Cfg} {s s' : State} (h : s'.round = s.round) (a : Nat) : keyOf c s' a = keyOf c s a := by
  simp [keyOf, flOf, curRound, h]

/-! ## facts from the list-level invariant -/

theorem inv_nodup {c : Cfg} {s : Mutex.State} (h : Inv c s) : (s.queue ++ nodesOf s.req).Nodup := by
  rw [List.nodup_iff_count]
  intro x
  have := h.cnt x
  rw [List.count_append]
  split at this <;> omega

theorem inv_listed_of_mem {c : Cfg} {s : Mutex.State} (h : Inv c s) {x : Nat} (hx : x ∈ s.queue ∨ x ∈ nodesOf s.req) :
    Listed s x := by
  have hc := h.cnt x
  have : 0 < s.queue.count x + (nodesOf s.req).count x := by
    rcases hx with h1 | h1
    · have := List.count_pos_iff.2 h1; omega
    · have := List.count_pos_iff.2 h1; omega
  split at hc
  · assumption
  · omega

theorem listed_iff {s : Mutex.State} {x : Nat} :
    Listed s x ↔ (s.pc x = Pc.parked ∨ ((s.pc x = Pc.waitFlag ∨ s.pc x = Pc.blocked) ∧ s.flag x = false) ∨ s.pc x = Pc.build) := by
  unfold Listed
  generalize s.pc x = p
  cases p <;> simp [Mutex.isWaiting]

/-- an agent whose pc says that it has no published ungranted request has no node in the stack or the queue -/
theorem inv_not_mem {c : Cfg} {s : Mutex.State} (h : Inv c s) {x : Nat} (hx : ¬ Listed s x) :
    x ∉ s.queue ∧ x ∉ nodesOf s.req :=
  ⟨fun hm => hx (inv_listed_of_mem h (Or.inl hm)), fun hm => hx (inv_listed_of_mem h (Or.inr hm))⟩

theorem chain_null_nil {next : Node → Ptr} {l : List Node} (h : ChainIs next Seen.null l Seen.null) : l = [] := by
  cases h; rfl

theorem chain_queue_cases {next : Node → Ptr} {p : Ptr} {l : List Node} (h : ChainIs next p l Seen.null) :
    (p = Seen.null ∧ l = []) ∨ (∃ b k l', p = Seen.node b k ∧ l = (b, k) :: l' ∧ ChainIs next (next (b, k)) l' Seen.null) := by
  cases h with
  | nil => exact Or.inl ⟨rfl, rfl⟩
  | cons _ h' => exact Or.inr ⟨_, _, _, rfl, rfl, h'⟩

theorem mem_map_fst {l : List Node} {n : Node} (h : n ∈ l) : n.1 ∈ l.map (·.1) := List.mem_map.2 ⟨n, h, rfl⟩

/-- a step that changes only control fields (and retires nodes that are not linked) preserves the representation -/
theorem reprL_ctl {c : Cfg} {ps ps' : State} {req : List Elem} {q : List Nat} (hR : ReprL c ps req q)
    (h1 : ps'.requests = ps.requests) (h2 : ps'.next = ps.next) (h3 : ps'.queue = ps.queue) (h4 : ps'.pend = ps.pend)
    (h5 : ps'.viol = ps.viol) (h6 : ps'.asrt = ps.asrt) (h7 : ps'.doorNext = ps.doorNext)
    (hlive : ∀ n, ps.live n = true → (n.1 ∈ q ∨ n.1 ∈ nodesOf req) → ps'.live n = true)
    (hpc : ∀ o, ps.pend o ≠ none → ps'.pc o = ps.pc o)
    (hkey : ∀ o, (ps.pend o ≠ none ∨ o ∈ q ∨ o ∈ nodesOf req) → keyOf c ps' o = keyOf c ps o) : ReprL c ps' req q := by
  obtain ⟨det, q0, hP, hQ, hq, hL⟩ := hR.que
  refine ⟨by rw [h1, h2]; exact hR.stack, ⟨det, q0, ?_, by rw [h2, h3]; exact hQ, hq, ?_⟩, ?_, ?_, by rw [h5]; exact hR.noViol,
    by rw [h6]; exact hR.noAsrt, by rw [h7]; exact hR.doorN⟩
  · unfold PendIs; rw [h4, h2]; exact hP
  · intro n hn
    have hm : n.1 ∈ q := by
      rw [hq]; apply mem_map_fst
      simp only [List.mem_append, List.mem_reverse] at hn ⊢; exact hn
    exact ⟨hlive n (hL n hn).1 (Or.inl hm), by rw [hkey _ (Or.inr (Or.inl hm))]; exact (hL n hn).2⟩
  · intro n hn
    have hm : n.1 ∈ nodesOf req := by rw [nodesOf_eq_map]; exact mem_map_fst hn
    exact ⟨hlive n (hR.stk n hn).1 (Or.inr hm), by rw [hkey _ (Or.inr (Or.inr hm))]; exact (hR.stk n hn).2⟩
  · intro o h st ho
    rw [h4] at ho
    have hne : ps.pend o ≠ none := by rw [ho]; simp
    rw [h3, hpc o hne, hkey o (Or.inl hne)]
    exact hR.pendOwn o h st ho

theorem keyOf_round {c : Cfg} {s s' : State} {o : Nat} (h : s'.round o = s.round o) : keyOf c s' o = keyOf c s o := by
  simp [keyOf, flOf, curRound, h]

/-- `reprL_ctl` for a step of agent `a` (nothing pending): the round of `a` may change when `a` has no linked node -/
theorem reprL_ctl' {c : Cfg} {ps ps' : State} {req : List Elem} {q : List Nat} (a : Nat) (hR : ReprL c ps req q)
    (h1 : ps'.requests = ps.requests) (h2 : ps'.next = ps.next) (h3 : ps'.queue = ps.queue) (h4 : ps'.pend = ps.pend)
    (h5 : ps'.viol = ps.viol) (h6 : ps'.asrt = ps.asrt) (h7 : ps'.doorNext = ps.doorNext)
    (hlive : ∀ n, ps.live n = true → (n.1 ∈ q ∨ n.1 ∈ nodesOf req) → ps'.live n = true)
    (hpc : ∀ o, o ≠ a → ps'.pc o = ps.pc o) (hround : ∀ o, o ≠ a → ps'.round o = ps.round o)
    (hra : ps'.round a = ps.round a ∨ (a ∉ q ∧ a ∉ nodesOf req))
    (hpa : ps.pend a = none) : ReprL c ps' req q := by
  have hoa : ∀ o, ps.pend o ≠ none → o ≠ a := fun o h e => h (e ▸ hpa)
  refine reprL_ctl hR h1 h2 h3 h4 h5 h6 h7 hlive (fun o ho => hpc o (hoa o ho)) (fun o ho => ?_)
  by_cases hx : o = a
  · subst hx
    rcases hra with e | ⟨e1, e2⟩
    · exact keyOf_round e
    · rcases ho with ho | ho | ho
      · exact absurd hpa ho
      · exact absurd ho e1
      · exact absurd ho e2
  · exact keyOf_round (hround o hx)

/-- only the owner has a pending loop -/
theorem pend_owner {c : Cfg} {ps : State} {req : List Elem} {q : List Nat} (hR : ReprL c ps req q) {o : Nat}
    (ho : ps.pend o ≠ none) : Owner (absWith ps req q) o := by
  cases hp : ps.pend o with
  | none => exact absurd hp ho
  | some x =>
    obtain ⟨h, st⟩ := x
    rcases (hR.pendOwn o h st hp).2 with ⟨e, _⟩ | ⟨e, _⟩ <;> simp [Owner, absWith, e, Mutex.isOwner]

theorem pend_none_of_owner {c : Cfg} {ps : State} {req : List Elem} {q : List Nat} (hR : ReprL c ps req q)
    (hI : Inv c (absWith ps req q)) {a : Nat} (ha : Owner (absWith ps req q) a) (hpa : ps.pend a = none) :
    ∀ o, ps.pend o = none := by
  intro o
  cases hp : ps.pend o with
  | none => rfl
  | some x =>
    have := hI.excl o a (pend_owner hR (by rw [hp]; simp)) ha
    subst this; rw [hpa] at hp; cases hp

/-- without a pending loop, `_queue` alone represents the queue -/
theorem que_of_no_pend {c : Cfg} {ps : State} {req : List Elem} {q : List Nat} (hR : ReprL c ps req q)
    (hn : ∀ o, ps.pend o = none) :
    ∃ q0, ChainIs ps.next ps.queue q0 Seen.null ∧ q = q0.map (·.1) ∧ ∀ n ∈ q0, ps.live n = true ∧ n.2 = keyOf c ps n.1 := by
  obtain ⟨det, q0, hP, hQ, hq, hL⟩ := hR.que
  have := hP.2 hn
  subst this
  exact ⟨q0, hQ, by simpa using hq, fun n hn => hL n (by simpa using hn)⟩

/-- the nodes of the queue part and of the stack are different nodes (their owners are different agents) -/
theorem disj_of_inv {c : Cfg} {ps : State} {req : List Elem} {q : List Nat} (hI : Inv c (absWith ps req q))
    {n : Node} (h1 : n.1 ∈ q) (h2 : n ∈ nodesN req) : False := by
  have hnd := inv_nodup hI
  have h2' : n.1 ∈ nodesOf req := by rw [nodesOf_eq_map]; exact mem_map_fst h2
  exact (List.nodup_append.1 hnd).2.2 _ h1 _ h2' rfl

/-- **the pending loop does not change what the pointers represent** (and afterwards nothing is pending for `a`) -/
theorem reprL_flush {c : Cfg} {ps : State} {req : List Elem} {q : List Nat} (wf a : Nat) (hR : ReprL c ps req q)
    (hI : Inv c (absWith ps req q)) (hwf : q.length ≤ wf) :
    ReprL c (flush wf ps a) req q ∧ (∀ r' q', absWith (flush wf ps a) r' q' = absWith ps r' q') ∧
    (flush wf ps a).pend a = none ∧ (flush wf ps a).live = ps.live ∧
    ∃ l, (flush wf ps a).acc = ps.acc ++ walkAcc a l ∧ (∀ n ∈ l, n.1 ∈ q) ∧ (ps.pend a = none → l = []) := by
  cases hp : ps.pend a with
  | none =>
    have : flush wf ps a = ps := by unfold flush; rw [hp]
    rw [this]
    exact ⟨hR, fun _ _ => rfl, hp, rfl, [], by simp [walkAcc], by simp, fun _ => rfl⟩
  | some x =>
    obtain ⟨h, st⟩ := x
    have hfl : flush wf ps a = walk a st wf
        { ps with pend := upd ps.pend a none, asrt := ps.asrt || decide (ps.queue ≠ Seen.null) } h := by
      unfold flush; rw [hp]
    obtain ⟨det, q0, hP, hQ, hq, hL⟩ := hR.que
    have hqn := (hR.pendOwn a h st hp).1
    have hq0 : q0 = [] := by rw [hqn] at hQ; exact chain_null_nil hQ
    subst hq0
    have hdet := hP.1 a h st hp
    have hothers : ∀ o, o ≠ a → ps.pend o = none := by
      intro o hoa
      cases hpo : ps.pend o with
      | none => rfl
      | some y =>
        exact absurd (hI.excl o a (pend_owner hR (by rw [hpo]; simp)) (pend_owner hR (by rw [hp]; simp))) hoa
    have hlen : det.length ≤ wf := by
      have : q.length = det.length := by rw [hq]; simp
      omega
    obtain ⟨w1, w2, w3, w4, w5⟩ := walk_chain a st det wf
      { ps with pend := upd ps.pend a none, asrt := ps.asrt || decide (ps.queue ≠ Seen.null) } h []
      hdet (by show ChainIs ps.next ps.queue [] Seen.null; rw [hqn]; exact ChainIs.nil _) (by simp)
      (fun n hn => (hL n (by simp [hn])).1) hlen
    obtain ⟨c1, c2, c3, c4, c5⟩ := walk_ctl a st wf
      { ps with pend := upd ps.pend a none, asrt := ps.asrt || decide (ps.queue ≠ Seen.null) } h
    rw [← hfl] at w1 w2 w3 w4 w5 c1 c2 c3 c4 c5
    have hnone : ∀ o, (flush wf ps a).pend o = none := by
      intro o
      rw [c2]
      show upd ps.pend a none o = none
      by_cases hoa : o = a
      · subst hoa; simp
      · rw [Mutex.upd_other _ _ _ _ hoa]; exact hothers o hoa
    have hkey : ∀ o, keyOf c (flush wf ps a) o = keyOf c ps o := by
      intro o
      have := congrArg (fun s => Mutex.keyOf c s o) (c1 [] [])
      exact this
    have hmemq : ∀ n ∈ det, n.1 ∈ q := by
      intro n hn; rw [hq]; apply mem_map_fst; simp [hn]
    refine ⟨⟨?_, ⟨[], det.reverse, ⟨fun o h' st' ho => (by rw [hnone o] at ho; cases ho), fun _ => rfl⟩, by simpa using w1,
      by simpa using hq, ?_⟩, ?_, ?_, by rw [w3]; exact hR.noViol, ?_, by rw [w5]; exact hR.doorN⟩, fun r' q' => by rw [c1]; rfl,
      hnone a, by rw [c3], det, by rw [w4], hmemq, fun h => by cases h⟩
    · rw [c4]
      refine stackIs_frame' hR.stack ?_
      intro m hm
      rw [w2 m]
      intro hmd
      exact disj_of_inv hI (hmemq m hmd) hm
    · intro n hn
      rw [c3, hkey]
      exact hL n (by simpa using hn)
    · intro n hn
      rw [c3, hkey]
      exact hR.stk n hn
    · intro o h' st' ho; rw [hnone o] at ho; cases ho
    · rw [c5]
      show (ps.asrt || decide (ps.queue ≠ Seen.null)) = false
      rw [hR.noAsrt, hqn]; rfl

/-! ## projections of the abstraction (all by `rfl`) -/
@[simp] theorem absWith_req (s : State) (r : List Elem) (q : List Nat) : (absWith s r q).req = r := rfl
@[simp] theorem absWith_queue (s : State) (r : List Elem) (q : List Nat) : (absWith s r q).queue = q := rfl
@[simp] theorem absWith_flag (s : State) (r : List Elem) (q : List Nat) : (absWith s r q).flag = s.flag := rfl
@[simp] theorem absWith_flagNo (s : State) (r : List Elem) (q : List Nat) : (absWith s r q).flagNo = s.flagNo := rfl
@[simp] theorem absWith_flagTh (s : State) (r : List Elem) (q : List Nat) : (absWith s r q).flagTh = s.flagTh := rfl
@[simp] theorem absWith_flagIx (s : State) (r : List Elem) (q : List Nat) : (absWith s r q).flagIx = s.flagIx := rfl
@[simp] theorem absWith_held (s : State) (r : List Elem) (q : List Nat) : (absWith s r q).held = s.held := rfl
@[simp] theorem absWith_aux (s : State) (r : List Elem) (q : List Nat) : (absWith s r q).aux = s.aux := rfl
@[simp] theorem absWith_pc (s : State) (r : List Elem) (q : List Nat) : (absWith s r q).pc = s.pc := rfl
@[simp] theorem absWith_round (s : State) (r : List Elem) (q : List Nat) : (absWith s r q).round = s.round := rfl
@[simp] theorem absWith_incs (s : State) (r : List Elem) (q : List Nat) : (absWith s r q).incs = s.incs := rfl
@[simp] theorem absWith_cur (s : State) (r : List Elem) (q : List Nat) : (absWith s r q).cur = s.cur := rfl
@[simp] theorem absWith_rq (s : State) (r : List Elem) (q : List Nat) : (absWith s r q).rq = s.rq := rfl
@[simp] theorem absWith_tmain (s : State) (r : List Elem) (q : List Nat) : (absWith s r q).tmain = s.tmain := rfl
@[simp] theorem absWith_grants (s : State) (r : List Elem) (q : List Nat) : (absWith s r q).grants = s.grants := rfl
@[simp] theorem absWith_stamp (s : State) (r : List Elem) (q : List Nat) : (absWith s r q).stamp = s.stamp := rfl
@[simp] theorem absWith_clock (s : State) (r : List Elem) (q : List Nat) : (absWith s r q).clock = s.clock := rfl
@[simp] theorem absWith_grantLog (s : State) (r : List Elem) (q : List Nat) : (absWith s r q).grantLog = s.grantLog := rfl
@[simp] theorem absWith_fails (s : State) (r : List Elem) (q : List Nat) : (absWith s r q).fails = s.fails := rfl
@[simp] theorem absWith_grantReqs (s : State) (r : List Elem) (q : List Nat) : (absWith s r q).grantReqs = s.grantReqs := rfl
@[simp] theorem absWith_failReqs (s : State) (r : List Elem) (q : List Nat) : (absWith s r q).failReqs = s.failReqs := rfl
@[simp] theorem absWith_bad (s : State) (r : List Elem) (q : List Nat) : (absWith s r q).bad = s.bad := rfl

/-! ## projections of `create`, `subWrite`, `popHead` -/
theorem create_requests (s : State) (a : Nat) (n : Node) : (create s a n).requests = s.requests := by unfold create; split <;> rfl
theorem create_next (s : State) (a : Nat) (n : Node) : (create s a n).next = s.next := by unfold create; split <;> rfl
theorem create_doorNext (s : State) (a : Nat) (n : Node) : (create s a n).doorNext = s.doorNext := by unfold create; split <;> rfl
theorem create_queue (s : State) (a : Nat) (n : Node) : (create s a n).queue = s.queue := by unfold create; split <;> rfl
theorem create_pend (s : State) (a : Nat) (n : Node) : (create s a n).pend = s.pend := by unfold create; split <;> rfl
theorem create_pc (s : State) (a : Nat) (n : Node) : (create s a n).pc = s.pc := by unfold create; split <;> rfl
theorem create_round (s : State) (a : Nat) (n : Node) : (create s a n).round = s.round := by unfold create; split <;> rfl
theorem create_asrt (s : State) (a : Nat) (n : Node) : (create s a n).asrt = s.asrt := by unfold create; split <;> rfl
theorem absWith_create (s : State) (a : Nat) (n : Node) (r : List Elem) (q : List Nat) :
    absWith (create s a n) r q = absWith s r q := by unfold create; split <;> rfl
theorem create_live_self (s : State) (a : Nat) (n : Node) : (create s a n).live n = true := by
  unfold create; split
  · assumption
  · simp [touch]
theorem create_live_mono (s : State) (a : Nat) (n m : Node) (h : s.live m = true) : (create s a n).live m = true := by
  unfold create; split
  · exact h
  · show updN s.live n true m = true
    rw [updN_apply]; split <;> simp [h]
theorem create_live_other (s : State) (a : Nat) (n m : Node) (h : m ≠ n) : (create s a n).live m = s.live m := by
  unfold create; split
  · rfl
  · show updN s.live n true m = s.live m
    rw [updN_apply, if_neg h]
theorem create_viol (s : State) (a : Nat) (n : Node) : (create s a n).viol = s.viol := by
  unfold create; split
  · rfl
  · simp [touch, isLive]
/-- the accesses of `create`: nothing, or the set-up write of the new awaiter -/
theorem create_acc (s : State) (a : Nat) (n : Node) :
    (create s a n).acc = s.acc ∨ (create s a n).acc = s.acc ++ [⟨a, Seen.node n.1 n.2, Field.body, true⟩] := by
  unfold create; split
  · exact Or.inl rfl
  · exact Or.inr rfl
theorem keyOf_create (c : Cfg) (s : State) (a : Nat) (n : Node) (o : Nat) : keyOf c (create s a n) o = keyOf c s o :=
  keyOf_round (by rw [create_round])

theorem subWrite_requests (c : Cfg) (s : State) (a : Nat) (p : Seen) : (subWrite c s a p).requests = s.requests :=
  create_requests s a (a, keyOf c s a)
theorem subWrite_doorNext (c : Cfg) (s : State) (a : Nat) (p : Seen) : (subWrite c s a p).doorNext = s.doorNext :=
  create_doorNext s a (a, keyOf c s a)
theorem subWrite_queue (c : Cfg) (s : State) (a : Nat) (p : Seen) : (subWrite c s a p).queue = s.queue :=
  create_queue s a (a, keyOf c s a)
theorem subWrite_pend (c : Cfg) (s : State) (a : Nat) (p : Seen) : (subWrite c s a p).pend = s.pend :=
  create_pend s a (a, keyOf c s a)
theorem subWrite_pc (c : Cfg) (s : State) (a : Nat) (p : Seen) : (subWrite c s a p).pc = s.pc :=
  create_pc s a (a, keyOf c s a)
theorem subWrite_round (c : Cfg) (s : State) (a : Nat) (p : Seen) : (subWrite c s a p).round = s.round :=
  create_round s a (a, keyOf c s a)
theorem subWrite_asrt (c : Cfg) (s : State) (a : Nat) (p : Seen) : (subWrite c s a p).asrt = s.asrt :=
  create_asrt s a (a, keyOf c s a)
@[simp] theorem subWrite_next (c : Cfg) (s : State) (a : Nat) (p : Seen) :
    (subWrite c s a p).next = updN s.next (a, keyOf c s a) p := rfl
theorem absWith_subWrite (c : Cfg) (s : State) (a : Nat) (p : Seen) (r : List Elem) (q : List Nat) :
    absWith (subWrite c s a p) r q = absWith s r q := by
  show absWith (create s a (a, keyOf c s a)) r q = absWith s r q
  exact absWith_create ..
theorem subWrite_live (c : Cfg) (s : State) (a : Nat) (p : Seen) : (subWrite c s a p).live = (create s a (a, keyOf c s a)).live := rfl
theorem subWrite_viol (c : Cfg) (s : State) (a : Nat) (p : Seen) : (subWrite c s a p).viol = s.viol := by
  show ((create s a (a, keyOf c s a)).viol || !isLive (create s a (a, keyOf c s a)) (Seen.node a (keyOf c s a))) = s.viol
  rw [create_viol, isLive_node, create_live_self]; simp
theorem keyOf_subWrite (c : Cfg) (s : State) (a : Nat) (p : Seen) (o : Nat) : keyOf c (subWrite c s a p) o = keyOf c s o :=
  keyOf_round (by rw [subWrite_round])

@[simp] theorem popHead_requests (s : State) (a b k : Nat) : (popHead s a b k).requests = s.requests := rfl
@[simp] theorem popHead_doorNext (s : State) (a b k : Nat) : (popHead s a b k).doorNext = s.doorNext := rfl
@[simp] theorem popHead_pend (s : State) (a b k : Nat) : (popHead s a b k).pend = s.pend := rfl
@[simp] theorem popHead_flag (s : State) (a b k : Nat) : (popHead s a b k).flag = s.flag := rfl
@[simp] theorem popHead_flagNo (s : State) (a b k : Nat) : (popHead s a b k).flagNo = s.flagNo := rfl
@[simp] theorem popHead_flagTh (s : State) (a b k : Nat) : (popHead s a b k).flagTh = s.flagTh := rfl
@[simp] theorem popHead_flagIx (s : State) (a b k : Nat) : (popHead s a b k).flagIx = s.flagIx := rfl
@[simp] theorem popHead_held (s : State) (a b k : Nat) : (popHead s a b k).held = s.held := rfl
@[simp] theorem popHead_aux (s : State) (a b k : Nat) : (popHead s a b k).aux = s.aux := rfl
@[simp] theorem popHead_pc (s : State) (a b k : Nat) : (popHead s a b k).pc = s.pc := rfl
@[simp] theorem popHead_round (s : State) (a b k : Nat) : (popHead s a b k).round = s.round := rfl
@[simp] theorem popHead_incs (s : State) (a b k : Nat) : (popHead s a b k).incs = s.incs := rfl
@[simp] theorem popHead_cur (s : State) (a b k : Nat) : (popHead s a b k).cur = s.cur := rfl
@[simp] theorem popHead_rq (s : State) (a b k : Nat) : (popHead s a b k).rq = s.rq := rfl
@[simp] theorem popHead_tmain (s : State) (a b k : Nat) : (popHead s a b k).tmain = s.tmain := rfl
@[simp] theorem popHead_stamp (s : State) (a b k : Nat) : (popHead s a b k).stamp = s.stamp := rfl
@[simp] theorem popHead_clock (s : State) (a b k : Nat) : (popHead s a b k).clock = s.clock := rfl
@[simp] theorem popHead_grantLog (s : State) (a b k : Nat) : (popHead s a b k).grantLog = s.grantLog := rfl
@[simp] theorem popHead_fails (s : State) (a b k : Nat) : (popHead s a b k).fails = s.fails := rfl
@[simp] theorem popHead_failReqs (s : State) (a b k : Nat) : (popHead s a b k).failReqs = s.failReqs := rfl
@[simp] theorem popHead_bad (s : State) (a b k : Nat) : (popHead s a b k).bad = s.bad := rfl
@[simp] theorem popHead_asrt (s : State) (a b k : Nat) : (popHead s a b k).asrt = s.asrt := rfl
@[simp] theorem popHead_live (s : State) (a b k : Nat) : (popHead s a b k).live = s.live := rfl
@[simp] theorem popHead_queue (s : State) (a b k : Nat) : (popHead s a b k).queue = s.next (b, k) := rfl
@[simp] theorem popHead_next (s : State) (a b k : Nat) : (popHead s a b k).next = updN s.next (b, k) Seen.null := rfl
@[simp] theorem popHead_grants (s : State) (a b k : Nat) : (popHead s a b k).grants = upd s.grants b (s.grants b + 1) := rfl
@[simp] theorem popHead_grantReqs (s : State) (a b k : Nat) : (popHead s a b k).grantReqs = s.grantReqs ++ [(b, s.round b)] := rfl
theorem popHead_viol (s : State) (a b k : Nat) (h : s.live (b, k) = true) : (popHead s a b k).viol = s.viol := by
  show (s.viol || !isLive s (Seen.node b k)) = s.viol
  simp [h]
theorem popHead_acc (s : State) (a b k : Nat) : (popHead s a b k).acc = s.acc ++
    [⟨a, Seen.node b k, Field.next, false⟩, ⟨a, Seen.node b k, Field.next, true⟩, ⟨a, Seen.node b k, Field.body, false⟩] := rfl
theorem keyOf_popHead (c : Cfg) (s : State) (a b k : Nat) (o : Nat) : keyOf c (popHead s a b k) o = keyOf c s o :=
  keyOf_round rfl


/-! ## simulation, step by step -/

/-- what the simulation of one step has to establish: same events and outcome, the list-level result has the control
    part of the pointer-level result, and the pointer-level result represents its stack and queue -/
def SimStep (c : Cfg) (pr : State × List Ev × Outcome) (lr : Mutex.State × List Ev × Outcome) : Prop :=
  pr.2 = lr.2 ∧ lr.1 = absWith pr.1 lr.1.req lr.1.queue ∧ ReprL c pr.1 lr.1.req lr.1.queue

variable {c : Cfg} {ps : State} {req : List Elem} {q : List Nat} {t a : Nat}

theorem not_listed_of_pc {s : Mutex.State} {x : Nat}
    (h : s.pc x ≠ Pc.parked ∧ s.pc x ≠ Pc.waitFlag ∧ s.pc x ≠ Pc.blocked ∧ s.pc x ≠ Pc.build) : ¬ Listed s x := by
  rw [listed_iff]; rintro (e | ⟨e | e, _⟩ | e) <;> simp_all

theorem upd_ne {α} (f : Nat → α) {i j : Nat} (v : α) (h : j ≠ i) : upd f i v j = f j := Mutex.upd_other f i j v h

/-- the stack may change (`req'`), the queue part is framed -/
theorem reprL_frame {ps' : State} {req' : List Elem} (hR : ReprL c ps req q)
    (hstack : StackIs ps'.next ps'.requests req')
    (hstk : ∀ n ∈ nodesN req', ps'.live n = true ∧ n.2 = keyOf c ps' n.1)
    (hnext : ∀ n : Node, n.1 ∈ q → ps'.next n = ps.next n)
    (h3 : ps'.queue = ps.queue) (h4 : ps'.pend = ps.pend)
    (h5 : ps'.viol = ps.viol) (h6 : ps'.asrt = ps.asrt) (h7 : ps'.doorNext = ps.doorNext)
    (hlive : ∀ n : Node, ps.live n = true → n.1 ∈ q → ps'.live n = true)
    (hpc : ∀ o, ps.pend o ≠ none → ps'.pc o = ps.pc o)
    (hkey : ∀ o, (ps.pend o ≠ none ∨ o ∈ q) → keyOf c ps' o = keyOf c ps o) : ReprL c ps' req' q := by
  obtain ⟨det, q0, hP, hQ, hq, hL⟩ := hR.que
  have hmem : ∀ n ∈ det ++ q0, n.1 ∈ q := by
    intro n hn
    rw [hq]; apply mem_map_fst
    simp only [List.mem_append, List.mem_reverse] at hn ⊢; exact hn
  refine ⟨hstack, ⟨det, q0, ?_, ?_, hq, ?_⟩, hstk, ?_, by rw [h5]; exact hR.noViol,
    by rw [h6]; exact hR.noAsrt, by rw [h7]; exact hR.doorN⟩
  · refine ⟨?_, fun hn => hP.2 (by rw [← h4]; exact hn)⟩
    intro o h st ho
    rw [h4] at ho
    exact chain_frame' (hP.1 o h st ho) (fun m hm => hnext m (hmem m (by simp [hm])))
  · rw [h3]
    exact chain_frame' hQ (fun m hm => hnext m (hmem m (by simp [hm])))
  · intro n hn
    exact ⟨hlive n (hL n hn).1 (hmem n hn), by rw [hkey _ (Or.inr (hmem n hn))]; exact (hL n hn).2⟩
  · intro o h st ho
    rw [h4] at ho
    have hne : ps.pend o ≠ none := by rw [ho]; simp
    rw [h3, hpc o hne, hkey o (Or.inl hne)]
    exact hR.pendOwn o h st ho

/-- a step of `a` that changes only control fields of `a` (not its round) -/
macro "ctl_case" hR:ident hpa:ident : tactic => `(tactic|
  (refine ⟨rfl, rfl, ?_⟩
   exact reprL_ctl' _ $hR rfl rfl rfl rfl rfl rfl rfl (fun n h _ => h)
     (fun o ho => by simp [setPc, upd_ne _ _ ho]) (fun o _ => rfl) (Or.inl rfl) $hpa))

/-- … that also advances the round of `a`, which has no linked node -/
macro "ctl_case_round" hR:ident hpa:ident hnm:ident : tactic => `(tactic|
  (refine ⟨rfl, rfl, ?_⟩
   exact reprL_ctl' _ $hR rfl rfl rfl rfl rfl rfl rfl (fun n h _ => h)
     (fun o ho => by simp [setPc, upd_ne _ _ ho]) (fun o ho => by simp [setPc, upd_ne _ _ ho]) (Or.inr $hnm) $hpa))

theorem sim_tryFail (hR : ReprL c ps req q) (hI : Inv c (absWith ps req q)) (hpa : ps.pend a = none)
    (hpc : ps.pc a = Pc.tryFail) : SimStep c (stepCore c ps t a) (Mutex.agentStep c (absWith ps req q) t a) := by
  have hnm := inv_not_mem hI (not_listed_of_pc (x := a) (by simp [hpc]))
  unfold stepCore Mutex.agentStep
  simp only [absWith_pc, hpc]
  ctl_case_round hR hpa hnm

theorem sim_relDone (hR : ReprL c ps req q) (hI : Inv c (absWith ps req q)) (hpa : ps.pend a = none)
    (hpc : ps.pc a = Pc.relDone) : SimStep c (stepCore c ps t a) (Mutex.agentStep c (absWith ps req q) t a) := by
  have hnm := inv_not_mem hI (not_listed_of_pc (x := a) (by simp [hpc]))
  unfold stepCore Mutex.agentStep
  simp only [absWith_pc, hpc, relOf_abs]
  by_cases hg : relOf c ps a = some Rel.g
  · simp only [hg]; ctl_case_round hR hpa hnm
  · split
    · rename_i h; exact absurd h hg
    · split
      · rename_i h; exact absurd h hg
      · ctl_case_round hR hpa hnm

theorem sim_subInit (hR : ReprL c ps req q) (hpa : ps.pend a = none)
    (hpc : ps.pc a = Pc.subInit) : SimStep c (stepCore c ps t a) (Mutex.agentStep c (absWith ps req q) t a) := by
  unfold stepCore Mutex.agentStep
  simp only [absWith_pc, hpc, flOf_abs]
  by_cases hg : flOf c ps a = some Flavour.cb
  · simp only [hg]; ctl_case hR hpa
  · split
    · rename_i h; exact absurd h hg
    · split
      · rename_i h; exact absurd h hg
      · ctl_case hR hpa

theorem sim_waitFlag (hR : ReprL c ps req q) (hpa : ps.pend a = none)
    (hpc : ps.pc a = Pc.waitFlag) : SimStep c (stepCore c ps t a) (Mutex.agentStep c (absWith ps req q) t a) := by
  unfold stepCore Mutex.agentStep
  simp only [absWith_pc, hpc, flOf_abs, absWith_flag]
  by_cases h1 : flOf c ps a = some Flavour.cb <;> by_cases h2 : ps.flag a = true <;> simp only [h1, h2, if_true, if_false] <;>
    ctl_case hR hpa

theorem sim_blocked (hR : ReprL c ps req q) (hpa : ps.pend a = none)
    (hpc : ps.pc a = Pc.blocked) : SimStep c (stepCore c ps t a) (Mutex.agentStep c (absWith ps req q) t a) := by
  unfold stepCore Mutex.agentStep
  simp only [absWith_pc, hpc, flOf_abs]
  by_cases h1 : flOf c ps a = some Flavour.cb <;> simp only [h1, if_true, if_false] <;> ctl_case hR hpa

theorem stepCore_afterCs_g (c : Cfg) (s : State) (t x : Nat) (hA : s.pc x = Pc.afterCs) (hg : relOf c s x = some Rel.g) :
    stepCore c s t x = ({ setPc { s with incs := s.incs - 1 } x Pc.asg with aux := upd s.aux x true },
                        [Ev.auxCas t x true], Outcome.op) := by
  unfold stepCore
  simp only [hA, hg]

theorem stepCore_afterCs_ng (c : Cfg) (s : State) (t x : Nat) (hA : s.pc x = Pc.afterCs) (hg : relOf c s x ≠ some Rel.g) :
    stepCore c s t x = unlockStart c { s with incs := s.incs - 1 } t x := by
  unfold stepCore
  simp only [hA]

theorem stepCore_asg (c : Cfg) (s : State) (t x : Nat) (hS : s.pc x = Pc.asg) :
    stepCore c s t x = unlockStart c s t x := by
  unfold stepCore; simp only [hS]

theorem stepCore_relHand (c : Cfg) (s : State) (t x : Nat) (hR : s.pc x = Pc.relHand) :
    stepCore c s t x = handOver c s t x := by
  unfold stepCore; simp only [hR]

theorem sim_afterCs_g (hR : ReprL c ps req q) (hpa : ps.pend a = none)
    (hpc : ps.pc a = Pc.afterCs) (hg : relOf c ps a = some Rel.g) :
    SimStep c (stepCore c ps t a) (Mutex.agentStep c (absWith ps req q) t a) := by
  rw [stepCore_afterCs_g c ps t a hpc hg, Mutex.agentStep_afterCs_g c (absWith ps req q) t a hpc hg]
  ctl_case hR hpa

/-- `ready()` succeeded: `[]`/null becomes `[door]`/doorman -/
theorem sim_top (hR : ReprL c ps req q) (hpa : ps.pend a = none)
    (hpc : ps.pc a = Pc.top) : SimStep c (stepCore c ps t a) (Mutex.agentStep c (absWith ps req q) t a) := by
  unfold stepCore Mutex.agentStep
  simp only [absWith_pc, hpc, curRound_abs]
  cases hr : curRound c ps a with
  | none => simp only []; ctl_case hR hpa
  | some r =>
    simp only [absWith_req]
    cases hq : req with
    | nil =>
      have hn : ps.requests = Seen.null := (stackIs_nil_iff hR.stack).2 hq
      simp only [hn, if_true]
      refine ⟨rfl, rfl, ?_⟩
      refine reprL_frame hR ⟨rfl, rfl⟩ (by simp) (fun _ _ => rfl) rfl rfl rfl rfl rfl (fun n h _ => h) (fun o ho => ?_)
        (fun o _ => keyOf_round rfl)
      have hoa : o ≠ a := fun e => ho (e ▸ hpa)
      simp [setPc, upd_ne _ _ hoa]
    | cons e r' =>
      have hn : ps.requests ≠ Seen.null := fun h => by
        have := (stackIs_nil_iff hR.stack).1 h; rw [hq] at this; cases this
      have hs : seenOf (e :: r') = ps.requests := by rw [← hq]; exact stackIs_seen hR.stack
      simp only [hn, if_false, hs]
      subst hq
      ctl_case hR hpa


/-! ### `subscribe` -/

/-- the plain part of a `subscribe` iteration writes only the requester's own, unlinked node -/
theorem reprL_subWrite (hR : ReprL c ps req q) (hnm : a ∉ q ∧ a ∉ nodesOf req) (prev : Seen) :
    ReprL c (subWrite c ps a prev) req q := by
  have hn : (a, keyOf c ps a) ∉ nodesN req := fun h => hnm.2 (by rw [nodesOf_eq_map]; exact mem_map_fst h)
  refine reprL_frame hR ?_ ?_ ?_ (subWrite_queue ..) (subWrite_pend ..) (subWrite_viol ..) (subWrite_asrt ..)
    (subWrite_doorNext ..) ?_ ?_ ?_
  · rw [subWrite_next, subWrite_requests]; exact stackIs_frame _ _ hR.stack hn
  · intro n hn'
    rw [subWrite_live, keyOf_subWrite]
    exact ⟨create_live_mono _ _ _ _ (hR.stk n hn').1, (hR.stk n hn').2⟩
  · intro n hq
    rw [subWrite_next, updN_apply, if_neg]
    rintro rfl; exact hnm.1 hq
  · intro n h _; rw [subWrite_live]; exact create_live_mono _ _ _ _ h
  · intro o _; rw [subWrite_pc]
  · intro o _; exact keyOf_subWrite ..

/-- the publishing CAS: success pushes the node (whose `_next` holds the expected value), failure changes nothing -/
theorem sim_subCas {prev : Seen} (hR : ReprL c ps req q) (hpa : ps.pend a = none) (hpc : ps.pc a = Pc.sub prev)
    (hnx : ps.next (a, keyOf c ps a) = prev) (hlv : ps.live (a, keyOf c ps a) = true) :
    SimStep c (subCas c ps t a prev) (Mutex.agentStep c (absWith ps req q) t a) := by
  have hs : seenOf req = ps.requests := stackIs_seen hR.stack
  unfold subCas Mutex.agentStep
  simp only [absWith_pc, hpc, absWith_req, keyOf_abs, flOf_abs, hs, absWith_clock, absWith_stamp, absWith_cur]
  by_cases h : ps.requests = prev
  · simp only [h, if_true]
    refine ⟨rfl, rfl, ?_⟩
    refine reprL_frame hR ⟨rfl, ?_⟩ ?_ (fun _ _ => rfl) rfl rfl rfl rfl rfl (fun n h _ => h) (fun o ho => ?_)
      (fun o _ => keyOf_round rfl)
    · show StackIs ps.next (ps.next (a, keyOf c ps a)) req
      rw [hnx, ← h]; exact hR.stack
    · intro n hn
      rcases List.mem_cons.1 hn with e | e
      · rw [e]; exact ⟨hlv, rfl⟩
      · exact hR.stk n e
    · have hoa : o ≠ a := fun e => ho (e ▸ hpa)
      simp [setPc, upd_ne _ _ hoa]
  · simp only [h, if_false]
    ctl_case hR hpa

theorem sim_sub {prev : Seen} (hR : ReprL c ps req q) (hI : Inv c (absWith ps req q)) (hpa : ps.pend a = none)
    (hpc : ps.pc a = Pc.sub prev) : SimStep c (stepCore c ps t a) (Mutex.agentStep c (absWith ps req q) t a) := by
  have hnm := inv_not_mem hI (not_listed_of_pc (x := a) (by simp [hpc]))
  have e : stepCore c ps t a = subCas c (subWrite c ps a prev) t a prev := by
    unfold stepCore; simp only [hpc]; rfl
  rw [e, ← absWith_subWrite c ps a prev req q]
  refine sim_subCas (reprL_subWrite hR hnm prev) (by rw [subWrite_pend]; exact hpa) (by rw [subWrite_pc]; exact hpc) ?_ ?_
  · rw [keyOf_subWrite, subWrite_next, updN_same]
  · rw [keyOf_subWrite, subWrite_live]; exact create_live_self ..

/-! ### the granted requester continues (`crit`, `critS`): its awaiter is retired -/

theorem sim_crit (hR : ReprL c ps req q) (hI : Inv c (absWith ps req q)) (hpa : ps.pend a = none)
    (hpc : ps.pc a = Pc.crit ∨ ps.pc a = Pc.critS) :
    SimStep c (stepCore c ps t a) (Mutex.agentStep c (absWith ps req q) t a) := by
  have hnm := inv_not_mem hI (not_listed_of_pc (x := a) (by rcases hpc with e | e <;> simp [e]))
  have hlive : ∀ n : Node, ps.live n = true → (n.1 ∈ q ∨ n.1 ∈ nodesOf req) → retire c ps a n = true := by
    intro n h hm
    unfold retire
    rw [updN_apply, if_neg]
    · exact h
    · rintro rfl
      rcases hm with hm | hm
      · exact hnm.1 hm
      · exact hnm.2 hm
  unfold stepCore Mutex.agentStep
  rcases hpc with hpc | hpc <;> simp only [absWith_pc, hpc] <;>
  · refine ⟨rfl, rfl, ?_⟩
    exact reprL_ctl' _ hR rfl rfl rfl rfl rfl rfl rfl hlive
      (fun o ho => by simp [setPc, upd_ne _ _ ho]) (fun o _ => rfl) (Or.inl rfl) hpa


/-! ### `build_queue`: the exchange -/

/-- the exchange detaches the whole stack: the chain `xs` from the old top to the stop marker becomes the pending loop's
    work, the list-level queue becomes `xs` reversed -/
theorem reprL_xchg {ps' : State} {xs : List Node} {st : Ptr} {q' : List Nat} (hR : ReprL c ps req q)
    (hnone : ∀ o, ps.pend o = none) (hq : q = [])
    (hch : ChainIs ps.next ps.requests xs st) (hlv : ∀ n ∈ xs, ps.live n = true ∧ n.2 = keyOf c ps n.1)
    (hq' : q' = xs.reverse.map (·.1))
    (h1 : ps'.requests = Seen.door) (h2 : ps'.next = ps.next) (h3 : ps'.queue = ps.queue)
    (h4 : ps'.pend = upd ps.pend a (some (ps.requests, st)))
    (h5 : ps'.viol = ps.viol) (h6 : ps'.asrt = ps.asrt) (h7 : ps'.doorNext = ps.doorNext) (h8 : ps'.live = ps.live)
    (h9 : ps'.round = ps.round)
    (hst : (ps'.pc a = Pc.crit ∧ st = Seen.node a (keyOf c ps a)) ∨ (ps'.pc a = Pc.relHand ∧ st = Seen.door)) :
    ReprL c ps' [Elem.door] q' := by
  obtain ⟨q0, hQ, hqq, _⟩ := que_of_no_pend hR hnone
  have hq0 : q0 = [] := by
    rw [hq] at hqq; cases q0 with
    | nil => rfl
    | cons x l => simp at hqq
  subst hq0
  have hqn : ps.queue = Seen.null := chain_nil_iff.1 hQ
  have hkey : ∀ o, keyOf c ps' o = keyOf c ps o := fun o => keyOf_round (by rw [h9])
  have hpend : ∀ o h st', ps'.pend o = some (h, st') → o = a ∧ h = ps.requests ∧ st' = st := by
    intro o h st' ho
    rw [h4] at ho
    by_cases hoa : o = a
    · subst hoa
      rw [Mutex.upd_same] at ho
      injection ho with ho; injection ho with e1 e2
      exact ⟨rfl, e1.symm, e2.symm⟩
    · rw [upd_ne _ _ hoa, hnone o] at ho; cases ho
  refine ⟨⟨h1, rfl⟩, ⟨xs, [], ⟨?_, ?_⟩, ?_, by rw [hq']; simp, ?_⟩, by simp, ?_, by rw [h5]; exact hR.noViol,
    by rw [h6]; exact hR.noAsrt, by rw [h7]; exact hR.doorN⟩
  · intro o h st' ho
    obtain ⟨_, e1, e2⟩ := hpend o h st' ho
    rw [e1, e2, h2]; exact hch
  · intro hn
    have := hn a
    rw [h4, Mutex.upd_same] at this; cases this
  · rw [h3, hqn]; exact ChainIs.nil _
  · intro n hn
    rw [h8, hkey]
    exact hlv n (by simpa using hn)
  · intro o h st' ho
    obtain ⟨e0, _, e2⟩ := hpend o h st' ho
    subst e0
    rw [h3, hkey, e2]
    exact ⟨hqn, hst⟩

theorem filter_ne_of_not_mem (l : List Nat) (a : Nat) (h : a ∉ l) :
    (l ++ [a]).filter (fun x => decide (x ≠ a)) = l := by
  rw [List.filter_append]
  have : l.filter (fun x => decide (x ≠ a)) = l := List.filter_eq_self.2 (fun x hx => by
    simp only [decide_eq_true_eq]; rintro rfl; exact h hx)
  rw [this]; simp

/-- `build_queue(self)` of the requester that found the mutex free -/
theorem sim_build (hR : ReprL c ps req q) (hI : Inv c (absWith ps req q)) (hpa : ps.pend a = none)
    (hpc : ps.pc a = Pc.build) : SimStep c (stepCore c ps t a) (Mutex.agentStep c (absWith ps req q) t a) := by
  have hown : Owner (absWith ps req q) a := by simp [Owner, hpc, Mutex.isOwner]
  have hnone := pend_none_of_owner hR hI hown hpa
  obtain ⟨_, hq⟩ := hI.bld a hpc
  obtain ⟨xs, k, hxs⟩ := (Mutex.nodeEnd_iff a _).1 (hI.bldEnd a hpc)
  simp only [absWith_req, absWith_queue] at hq hxs
  have hk : k = keyOf c ps a := (hR.stk (a, k) (by rw [hxs, nodesN_nodesL]; simp)).2
  subst hk
  have hnd := inv_nodup hI
  simp only [absWith_req, absWith_queue, hxs, Mutex.nodesOf_nodesL, hq, List.nil_append] at hnd
  have ha : a ∉ xs.map (·.1) := by
    intro h
    have := (List.nodup_append.1 hnd).2.2 a h a (by simp [nodesOf])
    exact this rfl
  have haxs : (a, keyOf c ps a) ∉ xs := fun h => ha (mem_map_fst h)
  have hst := hR.stack
  rw [hxs] at hst
  have hch := ((stackIs_nodeEnd xs (a, keyOf c ps a) haxs).1 hst).1
  have hs : seenOf req = ps.requests := stackIs_seen hR.stack
  unfold stepCore Mutex.agentStep
  simp only [absWith_pc, hpc, absWith_req, absWith_queue, hs]
  refine ⟨rfl, rfl, ?_⟩
  refine reprL_xchg (a := a) hR hnone hq hch (fun n hn => hR.stk n (by rw [hxs, nodesN_nodesL]; simp [hn])) ?_
    rfl rfl rfl rfl rfl rfl rfl rfl rfl (Or.inl ⟨by simp [setPc], rfl⟩)
  show ((nodesOf req).filter (fun x => decide (x ≠ a))).reverse ++ q = _
  rw [hxs, Mutex.nodesOf_nodesL, hq]
  simp only [nodesOf, List.append_nil]
  rw [filter_ne_of_not_mem _ _ ha, List.map_reverse]

/-- `build_queue(doorman)` of the releasing owner whose fast path failed -/
theorem sim_relBuild (hR : ReprL c ps req q) (hI : Inv c (absWith ps req q)) (hpa : ps.pend a = none)
    (hpc : ps.pc a = Pc.relBuild) : SimStep c (stepCore c ps t a) (Mutex.agentStep c (absWith ps req q) t a) := by
  have hown : Owner (absWith ps req q) a := by simp [Owner, hpc, Mutex.isOwner]
  have hnone := pend_none_of_owner hR hI hown hpa
  obtain ⟨hq, _⟩ := hI.relB a hpc
  obtain ⟨xs, hxs⟩ := (Mutex.doorEnd_iff _).1 (hI.door a hown (by simp [hpc]))
  simp only [absWith_req, absWith_queue] at hq hxs
  have hst := hR.stack
  rw [hxs] at hst
  have hch := (stackIs_door xs).1 hst
  have hs : seenOf req = ps.requests := stackIs_seen hR.stack
  unfold stepCore Mutex.agentStep
  simp only [absWith_pc, hpc, absWith_req, absWith_queue, hs]
  refine ⟨rfl, rfl, ?_⟩
  refine reprL_xchg (a := a) hR hnone hq hch (fun n hn => hR.stk n (by rw [hxs, nodesN_nodesL]; simp [hn])) ?_
    rfl rfl rfl rfl rfl rfl rfl rfl rfl (Or.inr ⟨by simp [setPc], rfl⟩)
  show (nodesOf req).reverse ++ q = _
  rw [hxs, Mutex.nodesOf_nodesL, hq]
  simp [nodesOf, List.map_reverse]


/-! ### `unlock`: the hand-over -/

/-- the control part of `Mutex.handOver` after the head `b` of the queue has been taken off -/
def lgrant (c : Cfg) (s : Mutex.State) (t a b : Nat) : Mutex.State × List Ev × Outcome :=
  match Mutex.flOf c s b with
  | some Flavour.co =>
      match c.kind a with
      | AKind.sync =>
          ({ Mutex.setPc (Mutex.setPc s b Pc.crit) a Pc.relDone with cur := upd s.cur t (some b) }, [], Outcome.continue_)
      | AKind.coro =>
          match Mutex.relOf c s a with
          | some Rel.a =>
              ({ Mutex.setPc (Mutex.setPc s b Pc.crit) a Pc.relDone with
                   rq := upd s.rq t (s.rq t ++ [a]), cur := upd s.cur t (some b) },
               [], Outcome.suspended)
          | _ =>
              ({ Mutex.setPc (Mutex.setPc s b Pc.crit) a Pc.relDone with rq := upd s.rq t (s.rq t ++ [b]) }, [],
               Outcome.continue_)
  | some Flavour.cb =>
      ({ Mutex.setPc s a Pc.relDone with flag := upd s.flag b true, held := upd s.held (Mutex.objOf c s b) true,
                                         bad := s.bad || s.held (Mutex.objOf c s b) }, [], Outcome.continue_)
  | _ =>
      ({ Mutex.setPc s a Pc.relDone with flag := upd s.flag b true }, [Ev.store t a (s.flagTh b) (s.flagIx b)], Outcome.op)

theorem handOver_cons (c : Cfg) (s : Mutex.State) (t a b : Nat) (rest : List Nat) (hq : s.queue = b :: rest) :
    Mutex.handOver c s t a =
      lgrant c { s with queue := rest, grants := upd s.grants b (s.grants b + 1),
                        grantReqs := s.grantReqs ++ [(b, s.round b)] } t a b := by
  unfold Mutex.handOver lgrant
  simp only [hq]
  rfl

/-- `fn(first)` is control only -/
theorem sim_grantTo {b : Nat} (hR : ReprL c ps req q) (hnone : ∀ o, ps.pend o = none) :
    SimStep c (grantTo c ps t a b) (lgrant c (absWith ps req q) t a b) := by
  have hctl : ∀ ps' : State, ps'.requests = ps.requests → ps'.next = ps.next → ps'.queue = ps.queue → ps'.pend = ps.pend →
      ps'.viol = ps.viol → ps'.asrt = ps.asrt → ps'.doorNext = ps.doorNext → ps'.live = ps.live → ps'.round = ps.round →
      ReprL c ps' req q := by
    intro ps' h1 h2 h3 h4 h5 h6 h7 h8 h9
    exact reprL_ctl hR h1 h2 h3 h4 h5 h6 h7 (fun n h _ => by rw [h8]; exact h) (fun o ho => absurd (hnone o) ho)
      (fun o _ => keyOf_round (by rw [h9]))
  unfold grantTo lgrant
  simp only [flOf_abs, relOf_abs, objOf_abs]
  cases hfl : flOf c ps b with
  | none => exact ⟨rfl, rfl, hctl _ rfl rfl rfl rfl rfl rfl rfl rfl rfl⟩
  | some f =>
    cases f with
    | lock => exact ⟨rfl, rfl, hctl _ rfl rfl rfl rfl rfl rfl rfl rfl rfl⟩
    | try_ => exact ⟨rfl, rfl, hctl _ rfl rfl rfl rfl rfl rfl rfl rfl rfl⟩
    | cb => exact ⟨rfl, rfl, hctl _ rfl rfl rfl rfl rfl rfl rfl rfl rfl⟩
    | co =>
      simp only []
      cases hk : c.kind a with
      | sync => exact ⟨rfl, rfl, hctl _ rfl rfl rfl rfl rfl rfl rfl rfl rfl⟩
      | coro =>
        simp only []
        by_cases hr : relOf c ps a = some Rel.a
        · simp only [hr]
          exact ⟨rfl, rfl, hctl _ rfl rfl rfl rfl rfl rfl rfl rfl rfl⟩
        · split
          · rename_i h; exact absurd h hr
          · split
            · rename_i h; exact absurd h hr
            · exact ⟨rfl, rfl, hctl _ rfl rfl rfl rfl rfl rfl rfl rfl rfl⟩

/-- taking the head off `_queue`: `_queue = first->_next; first->_next = nullptr` -/
theorem reprL_pop {b k : Nat} (hR : ReprL c ps req q) (hnone : ∀ o, ps.pend o = none)
    (hnd : (q ++ nodesOf req).Nodup) (hqu : ps.queue = Seen.node b k) :
    ∃ rest, q = b :: rest ∧ ReprL c (popHead ps a b k) req rest := by
  obtain ⟨q0, hQ, hqq, hL⟩ := que_of_no_pend hR hnone
  have hnd0 := chain_nodup hQ
  rcases chain_queue_cases hQ with ⟨e, _⟩ | ⟨b', k', l', e, hl, hc'⟩
  · rw [hqu] at e; cases e
  · rw [hqu] at e
    injection e with e1 e2
    subst e1 e2 hl
    rw [List.nodup_cons] at hnd0
    refine ⟨l'.map (·.1), by rw [hqq]; rfl, ?_⟩
    have hbq : b ∈ q := by rw [hqq]; simp
    have hbs : (b, k) ∉ nodesN req := by
      intro h
      have : b ∈ nodesOf req := by rw [nodesOf_eq_map]; exact mem_map_fst h
      exact (List.nodup_append.1 hnd).2.2 b hbq b this rfl
    refine ⟨?_, ⟨[], l', ⟨fun o h st ho => ?_, fun _ => rfl⟩, ?_, by simp, ?_⟩, ?_, ?_, ?_, hR.noAsrt, hR.doorN⟩
    · rw [popHead_next, popHead_requests]; exact stackIs_frame _ _ hR.stack hbs
    · rw [popHead_pend, hnone o] at ho; cases ho
    · rw [popHead_next, popHead_queue]; exact chain_frame _ _ hc' hnd0.1
    · intro n hn
      rw [popHead_live, keyOf_popHead]
      exact hL n (by simp at hn; simp [hn])
    · intro n hn
      rw [popHead_live, keyOf_popHead]
      exact hR.stk n hn
    · intro o h st ho
      rw [popHead_pend, hnone o] at ho; cases ho
    · rw [popHead_viol _ _ _ _ (hL (b, k) (by simp)).1]; exact hR.noViol

theorem sim_handOver (hR : ReprL c ps req q) (hnone : ∀ o, ps.pend o = none) (hnd : (q ++ nodesOf req).Nodup)
    (hq : q ≠ []) : SimStep c (handOver c ps t a) (Mutex.handOver c (absWith ps req q) t a) := by
  obtain ⟨q0, hQ, hqq, _⟩ := que_of_no_pend hR hnone
  rcases chain_queue_cases hQ with ⟨_, e⟩ | ⟨b, k, l', e, _, _⟩
  · rw [e] at hqq; exact absurd hqq hq
  · obtain ⟨rest, hqr, hR1⟩ := reprL_pop (a := a) hR hnone hnd e
    have e1 : handOver c ps t a = grantTo c (popHead ps a b k) t a b := by
      unfold handOver; rw [e]
    rw [e1, handOver_cons c (absWith ps req q) t a b rest hqr]
    exact sim_grantTo hR1 (fun o => by rw [popHead_pend]; exact hnone o)


/-! ### `unlock`: entry, fast path, slow path -/

theorem unlockGo_node (c : Cfg) (s : State) (t a b k : Nat) (h : s.queue = Seen.node b k) :
    unlockGo c s t a = handOver c s t a := by
  unfold unlockGo; rw [h]

/-- the state after the entry of `unlock` (ownership object disarmed, entry assertion evaluated) -/
def unlockEntry (c : Cfg) (s : State) (a : Nat) : State :=
  { s with held := upd s.held (objOf c s a) false, asrt := s.asrt || decide (s.requests = Seen.null) }

theorem unlockStart_held (c : Cfg) (s : State) (t a : Nat) (h : s.held (objOf c s a) = true) :
    unlockStart c s t a = unlockGo c (unlockEntry c s a) t a := by
  unfold unlockStart; rw [if_neg (by simp [h])]; rfl

theorem unlockGo_null (c : Cfg) (s : State) (t a : Nat) (h : s.queue = Seen.null) :
    unlockGo c s t a =
      if s.requests = Seen.door then
        ({ setPc s a Pc.relDone with requests := Seen.null }, [Ev.cas t a true Seen.door Seen.null], Outcome.op)
      else (setPc s a Pc.relBuild, [Ev.cas t a false s.requests Seen.null], Outcome.op) := by
  unfold unlockGo; rw [h]

theorem lunlockStart_nil (c : Cfg) (s : Mutex.State) (t x : Nat) (hh : s.held (Mutex.objOf c s x) = true)
    (hq : s.queue = []) :
    Mutex.unlockStart c s t x =
      if s.req = [Elem.door] then
        ({ Mutex.setPc { s with held := upd s.held (Mutex.objOf c s x) false } x Pc.relDone with req := [] },
         [Ev.cas t x true Seen.door Seen.null], Outcome.op)
      else (Mutex.setPc { s with held := upd s.held (Mutex.objOf c s x) false } x Pc.relBuild,
            [Ev.cas t x false (seenOf s.req) Seen.null], Outcome.op) := by
  unfold Mutex.unlockStart
  rw [if_neg (by simp [hh])]
  simp only [hq]

theorem sim_unlockStart (hR : ReprL c ps req q) (hheld : ps.held (objOf c ps a) = true) (hdoor : Mutex.doorEnd req)
    (hnone : ∀ o, ps.pend o = none) (hnd : (q ++ nodesOf req).Nodup) :
    SimStep c (unlockStart c ps t a) (Mutex.unlockStart c (absWith ps req q) t a) := by
  have hne : req ≠ [] := Mutex.doorEnd_ne_nil hdoor
  have hn : ps.requests ≠ Seen.null := fun h => hne ((stackIs_nil_iff hR.stack).1 h)
  have hs : seenOf req = ps.requests := stackIs_seen hR.stack
  rw [unlockStart_held c ps t a hheld]
  have hR1 : ReprL c (unlockEntry c ps a) req q :=
    reprL_ctl hR rfl rfl rfl rfl rfl (by show (ps.asrt || decide (ps.requests = Seen.null)) = ps.asrt; simp [hn]) rfl
      (fun n h _ => h) (fun o ho => absurd (hnone o) ho) (fun o _ => keyOf_round rfl)
  obtain ⟨q0, hQ, hqq, _⟩ := que_of_no_pend hR hnone
  rcases chain_queue_cases hQ with ⟨e1, e2⟩ | ⟨b, k, l', e, hl, _⟩
  · -- `_queue` empty: the fast path CAS
    have hq : q = [] := by rw [hqq, e2]; rfl
    subst hq
    rw [unlockGo_null c (unlockEntry c ps a) t a e1, lunlockStart_nil c (absWith ps req []) t a hheld rfl]
    by_cases hd : ps.requests = Seen.door
    · have hrd : req = [Elem.door] := (stackIs_door_iff hR.stack).1 hd
      rw [if_pos (show (unlockEntry c ps a).requests = Seen.door from hd),
        if_pos (show (absWith ps req []).req = [Elem.door] from hrd)]
      refine ⟨rfl, rfl, ?_⟩
      refine reprL_frame hR1 (show _ = Seen.null from rfl) (by simp) (fun _ _ => rfl) rfl rfl rfl rfl rfl (fun n h _ => h)
        (fun o ho => absurd (hnone o) ho) (fun o _ => keyOf_round rfl)
    · have hrd : req ≠ [Elem.door] := fun h => hd ((stackIs_door_iff hR.stack).2 h)
      rw [if_neg (show ¬ (unlockEntry c ps a).requests = Seen.door from hd),
        if_neg (show ¬ (absWith ps req []).req = [Elem.door] from hrd)]
      refine ⟨by show (_, _) = (_, _); rw [show seenOf (absWith ps req []).req = (unlockEntry c ps a).requests from hs], rfl, ?_⟩
      exact reprL_ctl hR1 rfl rfl rfl rfl rfl rfl rfl (fun n h _ => h) (fun o ho => absurd (hnone o) ho)
        (fun o _ => keyOf_round rfl)
  · -- `_queue` not empty: the hand-over
    have hq : q = b :: l'.map (·.1) := by rw [hqq, hl]; rfl
    rw [unlockGo_node c (unlockEntry c ps a) t a b k e, Mutex.unlockStart_cons c (absWith ps req q) t a b (l'.map (fun x : Node => x.1)) hheld hq]
    exact sim_handOver hR1 hnone hnd (by rw [hq]; simp)

/-! ### all cases together -/

/-- **Simulation of the body of a step** (nothing pending for `a`), whatever the pc of `a`. -/
theorem stepCore_sim (hR : ReprL c ps req q) (hI : Inv c (absWith ps req q)) (hpa : ps.pend a = none) :
    SimStep c (stepCore c ps t a) (Mutex.agentStep c (absWith ps req q) t a) := by
  have hnd := inv_nodup hI
  simp only [absWith_queue, absWith_req] at hnd
  cases hpc : ps.pc a with
  | done =>
    unfold stepCore Mutex.agentStep
    simp only [absWith_pc, hpc]
    exact ⟨rfl, rfl, hR⟩
  | parked =>
    unfold stepCore Mutex.agentStep
    simp only [absWith_pc, hpc]
    exact ⟨rfl, rfl, hR⟩
  | top => exact sim_top hR hpa hpc
  | tryFail => exact sim_tryFail hR hI hpa hpc
  | subInit => exact sim_subInit hR hpa hpc
  | sub prev => exact sim_sub hR hI hpa hpc
  | build => exact sim_build hR hI hpa hpc
  | waitFlag => exact sim_waitFlag hR hpa hpc
  | blocked => exact sim_blocked hR hpa hpc
  | crit => exact sim_crit hR hI hpa (Or.inl hpc)
  | critS => exact sim_crit hR hI hpa (Or.inr hpc)
  | relBuild => exact sim_relBuild hR hI hpa hpc
  | relDone => exact sim_relDone hR hI hpa hpc
  | afterCs =>
    by_cases hg : relOf c ps a = some Rel.g
    · exact sim_afterCs_g hR hpa hpc hg
    · have hown : Owner (absWith ps req q) a := by simp [Owner, hpc, Mutex.isOwner]
      have hnone := pend_none_of_owner hR hI hown hpa
      rw [stepCore_afterCs_ng c ps t a hpc hg, Mutex.agentStep_afterCs_ng c (absWith ps req q) t a hpc hg]
      have hR' : ReprL c { ps with incs := ps.incs - 1 } req q :=
        ⟨hR.stack, hR.que, hR.stk, hR.pendOwn, hR.noViol, hR.noAsrt, hR.doorN⟩
      exact sim_unlockStart hR' (hI.unlock_facts (Or.inl hpc)).1 (hI.door a hown (by simp [hpc])) hnone hnd
  | asg =>
    have hown : Owner (absWith ps req q) a := by simp [Owner, hpc, Mutex.isOwner]
    have hnone := pend_none_of_owner hR hI hown hpa
    rw [stepCore_asg c ps t a hpc, Mutex.agentStep_asg c (absWith ps req q) t a hpc]
    exact sim_unlockStart hR (hI.unlock_facts (Or.inr hpc)).1 (hI.door a hown (by simp [hpc])) hnone hnd
  | relHand =>
    have hown : Owner (absWith ps req q) a := by simp [Owner, hpc, Mutex.isOwner]
    have hnone := pend_none_of_owner hR hI hown hpa
    rw [stepCore_relHand c ps t a hpc, Mutex.agentStep_relHand c (absWith ps req q) t a hpc]
    exact sim_handOver hR hnone hnd (hI.relH a hpc)


/-- **Simulation of one activity.**  If the pointer state `ps` represents `(req, q)`, the list-level state with these lists
    and the control part of `ps` satisfies the list-level invariant, and the loop fuel is at least the length of the queue,
    then the pointer-level activity `(t, a)` and the list-level activity `(t, a)` produce the same events and outcome, the
    same control part, and the new pointer state represents exactly the new list-level stack and queue. -/
theorem agentStep_simL (wf : Nat) (hR : ReprL c ps req q) (hI : Inv c (absWith ps req q)) (hwf : q.length ≤ wf) :
    SimStep c (agentStep c wf ps t a) (Mutex.agentStep c (absWith ps req q) t a) := by
  have hR0 : ReprL c { ps with acc := [] } req q :=
    ⟨hR.stack, hR.que, hR.stk, hR.pendOwn, hR.noViol, hR.noAsrt, hR.doorN⟩
  obtain ⟨hR1, hab, hpa, _, _⟩ := reprL_flush (c := c) wf a hR0 hI hwf
  have e : absWith ps req q = absWith (flush wf { ps with acc := [] } a) req q := (hab req q).symm
  show SimStep c (stepCore c (flush wf { ps with acc := [] } a) t a) _
  rw [e]
  exact stepCore_sim hR1 (by rw [← e]; exact hI) hpa

/-- the same in terms of `Repr` -/
theorem agentStep_sim {ls : Mutex.State} (wf : Nat) (hR : Repr c ps ls) (hI : Inv c ls) (hwf : ls.queue.length ≤ wf)
    (t a : Nat) :
    (agentStep c wf ps t a).2 = (Mutex.agentStep c ls t a).2 ∧
    Repr c (agentStep c wf ps t a).1 (Mutex.agentStep c ls t a).1 := by
  obtain ⟨e, hL⟩ := hR
  have h := agentStep_simL (t := t) (a := a) wf hL (by rw [← e]; exact hI) hwf
  rw [← e] at h
  exact ⟨h.1, h.2.1, h.2.2⟩

theorem repr_init (c : Cfg) : Repr c (init c) (Mutex.init c) := by
  refine ⟨rfl, ⟨rfl, ⟨[], [], ⟨fun o h st ho => (by cases ho), fun _ => rfl⟩, ChainIs.nil _, rfl, (by simp)⟩,
    (by simp [Mutex.init]), fun o h st ho => (by cases ho), rfl, rfl, rfl⟩⟩

/-! ## no chain is longer than the number of contenders -/

theorem pc_done_of_ge {s : Mutex.State} (hs : Mutex.Reachable c s) : ∀ x, c.n ≤ x → s.pc x = Pc.done := by
  obtain ⟨l, hg, hc⟩ := hs
  have hpc : s.pc = (Mutex.arun c (Mutex.init c) l).pc := show (Mutex.core s).pc = (Mutex.core (Mutex.arun c (Mutex.init c) l)).pc from congrArg Mutex.State.pc hc
  rw [hpc]
  have key : ∀ (l : List (Nat × Nat)) (s0 : Mutex.State), Inv c s0 → (∀ x, c.n ≤ x → s0.pc x = Pc.done) →
      Mutex.Guarded c s0 l → ∀ x, c.n ≤ x → (Mutex.arun c s0 l).pc x = Pc.done := by
    intro l
    induction l with
    | nil => intro s0 _ h0 _; exact h0
    | cons p l ih =>
      intro s0 hI h0 hg
      refine ih _ (Mutex.inv_step hI p.1 hg.1) ?_ hg.2
      intro x hx
      have hxp : x ≠ p.2 := by
        rintro rfl
        have := hg.1
        simp [canRun, h0 _ hx] at this
      rw [(hI.step_frame p.1 p.2).pc x hxp]
      split
      · rename_i hgr
        exfalso
        have hgr1 := hgr.1
        unfold Mutex.grantee at hgr1
        split at hgr1
        · have hm : x ∈ s0.queue := List.mem_of_mem_head? hgr1
          have hl := inv_listed_of_mem hI (Or.inl hm)
          rw [listed_iff] at hl
          simp [h0 _ hx] at hl
        · cases hgr1
      · exact h0 _ hx
  exact key l _ (Mutex.inv_init c) (fun x hx => by simp [Mutex.init]; omega) hg

theorem nodup_length_le : ∀ (n : Nat) (l : List Nat), l.Nodup → (∀ x ∈ l, x < n) → l.length ≤ n := by
  intro n
  induction n with
  | zero =>
    intro l _ h
    cases l with
    | nil => simp
    | cons x l => exact absurd (h x (by simp)) (by omega)
  | succ n ih =>
    intro l hnd h
    have h1 := ih (l.filter (fun x => decide (x ≠ n))) (hnd.sublist List.filter_sublist) (by
      intro x hx
      rw [List.mem_filter] at hx
      have := h x hx.1
      have hne : x ≠ n := by simpa using hx.2
      omega)
    have h2 : l.length = (l.filter (fun x => decide (x ≠ n))).length + l.count n := by
      rw [List.length_eq_countP_add_countP (fun x => decide (x ≠ n)), List.countP_eq_length_filter]
      congr 1
      rw [List.count, List.countP_congr]
      intro x _
      simp
    have h3 : l.count n ≤ 1 := List.nodup_iff_count.1 hnd n
    omega

/-- the queue and the stack together hold at most one node per contender -/
theorem lists_length_le {s : Mutex.State} (hs : Mutex.Reachable c s) : (s.queue ++ nodesOf s.req).length ≤ c.n := by
  have hI := Mutex.inv_reachable hs
  refine nodup_length_le c.n _ (inv_nodup hI) ?_
  intro x hx
  have hl := inv_listed_of_mem hI (List.mem_append.1 hx)
  apply Classical.byContradiction
  intro hge
  have := pc_done_of_ge hs x (by omega)
  rw [listed_iff] at hl
  simp [this] at hl

theorem queue_length_le {s : Mutex.State} (hs : Mutex.Reachable c s) : s.queue.length ≤ c.n := by
  have := lists_length_le hs
  rw [List.length_append] at this
  omega

/-! ## simulation along runs of agent activities -/

/-- **Simulation along every guarded run.**  From related states (the list-level one reachable), the pointer-level run and
    the list-level run of the same activity list end in related states. -/
theorem arun_sim (wf : Nat) (hwf : c.n ≤ wf) : ∀ (l : List (Nat × Nat)) (ps : State) (ls : Mutex.State),
    Mutex.Reachable c ls → Repr c ps ls → Mutex.Guarded c ls l → Repr c (arun c wf ps l) (Mutex.arun c ls l) := by
  intro l
  induction l with
  | nil => intro ps ls _ hR _; exact hR
  | cons p l ih =>
    intro ps ls hs hR hg
    have h := agentStep_sim wf hR (Mutex.inv_reachable hs) (by have := queue_length_le hs; omega) p.1 p.2
    exact ih _ _ (Mutex.reachable_step hs p.1 hg.1) h.2 hg.2

/-- every state of the pointer-level machine reached from `init` by a guarded activity list is related to the list-level
    state reached by the same list -/
theorem repr_run (wf : Nat) (hwf : c.n ≤ wf) (l : List (Nat × Nat)) (hg : Mutex.Guarded c (Mutex.init c) l) :
    Repr c (arun c wf (init c) l) (Mutex.arun c (Mutex.init c) l) :=
  arun_sim wf hwf l _ _ (Mutex.reachable_init c) (repr_init c) hg

/-! ## the abstraction function computes the related list-level state -/

theorem follow_stack {next : Node → Ptr} : ∀ (r : List Elem) (p : Ptr) (fuel : Nat), StackIs next p r →
    (nodesN r).length ≤ fuel →
    (follow next fuel p).1.map (fun n => Elem.node n.1 n.2) ++ (if (follow next fuel p).2 = Seen.door then [Elem.door] else []) = r := by
  intro r
  induction r with
  | nil =>
    intro p fuel h _
    have : p = Seen.null := h
    subst this
    cases fuel <;> simp [follow]
  | cons e r ih =>
    intro p fuel h hf
    cases e with
    | door =>
      obtain ⟨e1, e2⟩ := h
      subst e1 e2
      cases fuel <;> simp [follow]
    | node x k =>
      obtain ⟨e1, h2⟩ := h
      subst e1
      cases fuel with
      | zero => simp at hf
      | succ f =>
        have := ih (next (x, k)) f h2 (by simp at hf; omega)
        simp only [follow, List.map_cons, List.cons_append]
        exact congrArg (fun z => Elem.node x k :: z) this

theorem follow_chain {next : Node → Ptr} {p stop : Ptr} {l : List Node} (h : ChainIs next p l stop)
    (hs : ∀ a k, stop ≠ Seen.node a k) : ∀ fuel, l.length ≤ fuel → (follow next fuel p).1 = l := by
  induction h with
  | nil stop =>
    intro fuel _
    cases fuel with
    | zero => rfl
    | succ f => cases stop <;> first | rfl | exact absurd rfl (hs _ _)
  | cons _ _ ih =>
    intro fuel hf
    cases fuel with
    | zero => simp at hf
    | succ f => simp only [follow]; rw [ih hs f (by simp at hf; omega)]

theorem follow_chain_null {next : Node → Ptr} {p : Ptr} {l : List Node} (h : ChainIs next p l Seen.null) :
    ∀ fuel, l.length ≤ fuel → (follow next fuel p).1 = l :=
  follow_chain h (fun _ _ h => by cases h)

theorem followTo_chain {next : Node → Ptr} {p stop : Ptr} {l : List Node} (h : ChainIs next p l stop) :
    ∀ fuel, l.length ≤ fuel → followTo next stop fuel p = l := by
  induction h with
  | nil => intro fuel _; cases fuel <;> simp [followTo]
  | cons hne _ ih =>
    intro fuel hf
    cases fuel with
    | zero => simp at hf
    | succ f => simp only [followTo, if_neg hne]; rw [ih f (by simp at hf; omega)]

theorem filterMap_range_single {α} (f : Nat → Option α) (o : Nat) (v : α) (ho : f o = some v)
    (hu : ∀ o', o' ≠ o → f o' = none) : ∀ n, (List.range n).filterMap f = if o < n then [v] else [] := by
  intro n
  induction n with
  | zero => simp
  | succ n ih =>
    rw [List.range_succ, List.filterMap_append, ih]
    by_cases h1 : o < n
    · have : f n = none := hu n (by omega)
      simp [h1, this, show o < n + 1 by omega]
    · by_cases h2 : o = n
      · subst h2; simp [ho]
      · have : f n = none := hu n (fun e => h2 e.symm)
        simp [h1, this, show ¬ o < n + 1 by omega]

theorem filterMap_range_none {α} (f : Nat → Option α) (hu : ∀ o, f o = none) (n : Nat) : (List.range n).filterMap f = [] := by
  induction n with
  | zero => rfl
  | succ n ih => rw [List.range_succ, List.filterMap_append, ih]; simp [hu n]

/-- **`abs` computes the list-level state**: a pointer state related to a reachable list-level state abstracts to it -/
theorem abs_of_repr {ls : Mutex.State} (hs : Mutex.Reachable c ls) (hR : Repr c ps ls) : abs c ps = ls := by
  obtain ⟨e, hL⟩ := hR
  have hI := Mutex.inv_reachable hs
  have hlen := lists_length_le hs
  rw [List.length_append] at hlen
  have hreq : absReq (c.n + 1) ps = ls.req := by
    unfold absReq
    refine follow_stack _ _ _ hL.stack ?_
    have : (nodesN ls.req).length = (nodesOf ls.req).length := by rw [nodesOf_eq_map]; simp
    omega
  obtain ⟨det, q0, hP, hQ, hq, _⟩ := hL.que
  have hlq : det.length + q0.length = ls.queue.length := by rw [hq]; simp
  have hq0 : (follow ps.next (c.n + 1) ps.queue).1 = q0 := follow_chain_null hQ _ (by omega)
  have hdet : absDet (c.n + 1) ps c.n = det := by
    unfold absDet
    by_cases hn : ∀ o, ps.pend o = none
    · rw [filterMap_range_none _ hn, hP.2 hn]; rfl
    · have hex : ∃ o, ps.pend o ≠ none := Classical.byContradiction (fun h => hn (fun o =>
        Classical.byContradiction (fun h' => h ⟨o, h'⟩)))
      obtain ⟨o, ho⟩ := hex
      cases hp : ps.pend o with
      | none => exact absurd hp ho
      | some x =>
        obtain ⟨h, st⟩ := x
        have hown : Owner ls o := by rw [e]; exact pend_owner hL ho
        have hu : ∀ o', o' ≠ o → ps.pend o' = none := by
          intro o' hne
          cases hp' : ps.pend o' with
          | none => rfl
          | some y =>
            have : Owner ls o' := by rw [e]; exact pend_owner hL (by rw [hp']; simp)
            exact absurd (hI.excl o' o this hown) hne
        have hon : o < c.n := by
          apply Classical.byContradiction
          intro hge
          have := pc_done_of_ge hs o (by omega)
          simp [Owner, this, Mutex.isOwner] at hown
        rw [filterMap_range_single _ o (h, st) hp hu, if_pos hon]
        simp only [List.flatMap_cons, List.flatMap_nil, List.append_nil]
        exact followTo_chain (hP.1 o h st hp) _ (by omega)
  have hque : absQueue (c.n + 1) ps c.n = ls.queue := by
    unfold absQueue; rw [hdet, hq0, hq]
  unfold abs
  rw [hreq, hque]
  exact e.symm

/-- **`abs (pstep ps a) = lstep (abs ps) a`**: in a pointer state related to a reachable list-level state, every activity
    permitted by `canRun` commutes with the abstraction function, and both levels emit the same events and outcome. -/
theorem abs_agentStep {ls : Mutex.State} (wf : Nat) (hwf : c.n ≤ wf) (hs : Mutex.Reachable c ls) (hR : Repr c ps ls)
    (hcan : canRun ls a = true) :
    abs c (agentStep c wf ps t a).1 = (Mutex.agentStep c (abs c ps) t a).1 ∧
    (agentStep c wf ps t a).2 = (Mutex.agentStep c (abs c ps) t a).2 := by
  rw [abs_of_repr hs hR]
  have h := agentStep_sim wf hR (Mutex.inv_reachable hs) (by have := queue_length_le hs; omega) t a
  exact ⟨abs_of_repr (Mutex.reachable_step hs t hcan) h.2, h.1⟩

/-! ## simulation of the executor glue (`threadStep`): every schedule of OS threads -/

/-- agents outside the configuration never run -/
def PcDone (c : Cfg) (s : Mutex.State) : Prop := ∀ x, c.n ≤ x → s.pc x = Pc.done

theorem pcDone_arun : ∀ (l : List (Nat × Nat)) (s0 : Mutex.State), Inv c s0 → PcDone c s0 →
    Mutex.Guarded c s0 l → PcDone c (Mutex.arun c s0 l) := by
  intro l
  induction l with
  | nil => intro s0 _ h0 _; exact h0
  | cons p l ih =>
    intro s0 hI h0 hg
    refine ih _ (Mutex.inv_step hI p.1 hg.1) ?_ hg.2
    intro x hx
    have hxp : x ≠ p.2 := by
      rintro rfl
      have := hg.1
      simp [canRun, h0 _ hx] at this
    rw [(hI.step_frame p.1 p.2).pc x hxp]
    split
    · rename_i hgr
      exfalso
      have hgr1 := hgr.1
      unfold Mutex.grantee at hgr1
      split at hgr1
      · have hm : x ∈ s0.queue := List.mem_of_mem_head? hgr1
        have hl := inv_listed_of_mem hI (Or.inl hm)
        rw [listed_iff] at hl
        simp [h0 _ hx] at hl
      · cases hgr1
    · exact h0 _ hx

theorem queue_length_le_of {s : Mutex.State} (hI : Inv c s) (hD : PcDone c s) : s.queue.length ≤ c.n := by
  have : (s.queue ++ nodesOf s.req).length ≤ c.n := by
    refine nodup_length_le c.n _ (inv_nodup hI) ?_
    intro x hx
    have hl := inv_listed_of_mem hI (List.mem_append.1 hx)
    apply Classical.byContradiction
    intro hge
    have := hD x (by omega)
    rw [listed_iff] at hl
    simp [this] at hl
  rw [List.length_append] at this
  omega

/-- the executor's bookkeeping is not part of what the pointers represent -/
theorem repr_set_cur {ls : Mutex.State} (hR : Repr c ps ls) (cu : Nat → Option Nat) :
    Repr c { ps with cur := cu } { ls with cur := cu } := by
  obtain ⟨e, hL⟩ := hR
  refine ⟨?_, ⟨hL.stack, hL.que, hL.stk, hL.pendOwn, hL.noViol, hL.noAsrt, hL.doorN⟩⟩
  show ({ ls with cur := cu } : Mutex.State) = { absWith ps ls.req ls.queue with cur := cu }
  rw [← e]

theorem repr_glue {ls : Mutex.State} (hR : Repr c ps ls) (cu : Nat → Option Nat) (r : Nat → List Nat) (tm : Nat → TMain) :
    Repr c { ps with cur := cu, rq := r, tmain := tm } { ls with cur := cu, rq := r, tmain := tm } := by
  obtain ⟨e, hL⟩ := hR
  refine ⟨?_, ⟨hL.stack, hL.que, hL.stk, hL.pendOwn, hL.noViol, hL.noAsrt, hL.doorN⟩⟩
  show ({ ls with cur := cu, rq := r, tmain := tm } : Mutex.State) =
    { absWith ps ls.req ls.queue with cur := cu, rq := r, tmain := tm }
  rw [← e]

theorem repr_cur {ls : Mutex.State} (hR : Repr c ps ls) : ps.cur = ls.cur ∧ ps.rq = ls.rq ∧ ps.tmain = ls.tmain := by
  obtain ⟨e, _⟩ := hR
  rw [e]; exact ⟨rfl, rfl, rfl⟩

/-- **`threadStep` refines `Mutex.threadStep`**: what an OS thread does between two scheduling points, at pointer level and
    at list level, produces the same events and ends in related states. -/
theorem threadStep_sim (hwf : c.WFT) (wf : Nat) (hn : c.n ≤ wf) : ∀ (fuel : Nat) (ls : Mutex.State) (t : Nat) (ps : State),
    Inv c ls → PcDone c ls → TInv c ls → LInv c ls → WakeOk ls t → Repr c ps ls →
    (threadStep c wf fuel ps t).2 = (Mutex.threadStep c fuel ls t).2 ∧
    Repr c (threadStep c wf fuel ps t).1 (Mutex.threadStep c fuel ls t).1 := by
  intro fuel
  induction fuel with
  | zero => intro ls t ps _ _ _ _ _ hR; exact ⟨rfl, hR⟩
  | succ fuel ih =>
    intro ls t ps hI hD hT hL hW hR
    obtain ⟨hcu, hrq, htm⟩ := repr_cur hR
    rw [threadStep, Mutex.threadStep, hcu, hrq, htm]
    cases hcur : ls.cur t with
    | some b =>
      dsimp only
      have hkb := hT.curK t b hcur
      have hrun : RunsAs c ls t b := Or.inr ⟨hkb, hcur⟩
      have hw : ls.pc b = Pc.blocked → ls.flag b = true := by
        intro h; have := hI.kindW' hwf (Or.inr h); rw [hkb] at this; cases this
      obtain ⟨l0, hl0, he, hI1, hT1⟩ := Mutex.sim_act hwf.1 hI hT hrun hw
      have hD1 : PcDone c (Mutex.agentStep c ls t b).1 := by rw [he]; exact pcDone_arun l0 ls hI hD hl0
      have hE := Mutex.agentStep_exec hwf.1 ls t b
      have hP := Mutex.agentStep_place c ls t b
      have hL1 : LInv c (Mutex.agentStep c ls t b).1 :=
        Mutex.linv_agentStep hwf hI hL hrun (hL.live t (Or.inl (by rw [hcur]; simp)))
      have hnb : (Mutex.agentStep c ls t b).1.tmain t = TMain.syncBody → (Mutex.agentStep c ls t b).1.pc t ≠ Pc.blocked := by
        intro htm hpc
        rw [hE.tmain] at htm
        have hbt : t ≠ b := by
          rintro rfl; have := hT.syncK t htm; rw [hkb] at this; cases this
        rw [(hI.step_frame t b).pc t hbt] at hpc
        split at hpc
        · cases hpc
        · have := (hT.blk t htm hpc).1; rw [hcur] at this; cases this
      obtain ⟨hev, hR1⟩ := agentStep_sim wf hR hI (by have := queue_length_le_of hI hD; omega) t b
      have hev1 : (agentStep c wf ps t b).2.1 = (Mutex.agentStep c ls t b).2.1 := congrArg Prod.fst hev
      have hev2 : (agentStep c wf ps t b).2.2 = (Mutex.agentStep c ls t b).2.2 := congrArg Prod.snd hev
      rw [hev1, hev2]
      generalize (agentStep c wf ps t b).fst = ps1 at *
      generalize hs1 : (Mutex.agentStep c ls t b).fst = ls1 at *
      generalize (Mutex.agentStep c ls t b).2.fst = e1
      generalize (Mutex.agentStep c ls t b).2.snd = o at *
      have hW1 : WakeOk ls1 t := fun _ _ htm hpc => absurd hpc (hnb htm)
      obtain ⟨hcu1, _, _⟩ := repr_cur hR1
      have hfin : (canRun ls1 b = false ∨ b ∈ ls1.rq t) →
          (threadStep c wf fuel (if ps1.cur t = some b then { ps1 with cur := upd ps1.cur t none } else ps1) t).2 =
            (Mutex.threadStep c fuel (if ls1.cur t = some b then { ls1 with cur := upd ls1.cur t none } else ls1) t).2 ∧
          Repr c (threadStep c wf fuel (if ps1.cur t = some b then { ps1 with cur := upd ps1.cur t none } else ps1) t).1
            (Mutex.threadStep c fuel (if ls1.cur t = some b then { ls1 with cur := upd ls1.cur t none } else ls1) t).1 := by
        intro hnr
        rw [hcu1]
        split
        · rename_i hc1
          exact ih _ t _ (Mutex.inv_core_congr (s1 := ls1) rfl hI1) hD1 (Mutex.tinv_clear_cur hT1 t)
            (Mutex.linv_clear_cur hL1 hc1 hnr) (fun _ _ htm hpc => absurd hpc (hnb htm)) (repr_set_cur hR1 _)
        · exact ih _ t _ hI1 hD1 hT1 hL1 hW1 hR1
      cases o <;> dsimp only
      · exact ⟨rfl, hR1⟩
      · exact ⟨rfl, hR1⟩
      · have h := hfin (Or.inl (by simp [canRun, (hP.fin rfl).1]))
        exact ⟨by rw [h.1], h.2⟩
      · have h := hfin (by
          rcases hP.susp rfl with h | h
          · exact Or.inl (by simp [canRun, h])
          · exact Or.inr h)
        exact ⟨by rw [h.1], h.2⟩
      · have h := ih _ t _ hI1 hD1 hT1 hL1 hW1 hR1
        exact ⟨by rw [h.1], h.2⟩
    | none =>
      dsimp only
      cases hrql : ls.rq t with
      | cons b rest =>
        dsimp only
        exact ih _ t _ (Mutex.inv_core_congr (s1 := ls) rfl hI) hD (Mutex.tinv_pop hT hrql) (Mutex.linv_pop hL hcur hrql)
          (fun h => by simp at h) (repr_glue hR _ _ _)
      | nil =>
        dsimp only
        cases html : ls.tmain t with
        | finished => exact ⟨rfl, hR⟩
        | coroStart =>
          dsimp only
          exact ih _ t _ (Mutex.inv_core_congr (s1 := ls) rfl hI) hD (Mutex.tinv_start hT html)
            (Mutex.linv_start hL hcur html) (fun h => by simp at h) (repr_glue hR _ _ _)
        | coroFlush => exact ⟨rfl, repr_glue hR _ _ _⟩
        | syncBody =>
          dsimp only
          have hkt := hT.syncK t html
          have hrun : RunsAs c ls t t := Or.inl ⟨hkt, rfl, hcur, hrql⟩
          obtain ⟨l0, hl0, he, hI1, hT1⟩ := Mutex.sim_act hwf.1 hI hT hrun (hW hcur hrql html)
          have hD1 : PcDone c (Mutex.agentStep c ls t t).1 := by rw [he]; exact pcDone_arun l0 ls hI hD hl0
          have hbo := Mutex.agentStep_blocked_outcome c ls t t
          have hL1 : LInv c (Mutex.agentStep c ls t t).1 := Mutex.linv_agentStep hwf hI hL hrun (by rw [html]; simp)
          obtain ⟨hev, hR1⟩ := agentStep_sim wf hR hI (by have := queue_length_le_of hI hD; omega) t t
          have hev1 : (agentStep c wf ps t t).2.1 = (Mutex.agentStep c ls t t).2.1 := congrArg Prod.fst hev
          have hev2 : (agentStep c wf ps t t).2.2 = (Mutex.agentStep c ls t t).2.2 := congrArg Prod.snd hev
          rw [hev1, hev2]
          generalize (agentStep c wf ps t t).fst = ps1 at *
          generalize hs1 : (Mutex.agentStep c ls t t).fst = ls1 at *
          generalize (Mutex.agentStep c ls t t).2.fst = e1
          generalize ho : (Mutex.agentStep c ls t t).2.snd = o at *
          cases o <;> dsimp only
          · exact ⟨rfl, hR1⟩
          · exact ⟨rfl, hR1⟩
          · obtain ⟨h1, h2, h3⟩ := repr_cur hR1
            rw [h1, h2, h3]
            exact ⟨rfl, repr_glue hR1 _ _ _⟩
          · have h := ih _ t _ hI1 hD1 hT1 hL1 (fun _ _ _ hpc => by have := hbo hpc; cases this) hR1
            exact ⟨by rw [h.1], h.2⟩
          · have h := ih _ t _ hI1 hD1 hT1 hL1 (fun _ _ _ hpc => by have := hbo hpc; cases this) hR1
            exact ⟨by rw [h.1], h.2⟩


theorem enabled_repr {ls : Mutex.State} (hR : Repr c ps ls) (t : Nat) : enabled ps t = Mutex.enabled ls t := by
  obtain ⟨e, _⟩ := hR
  rw [e]; rfl

/-- **Simulation along every schedule of OS threads.**  Running the pointer-level machine and the list-level machine under
    the same schedule of enabled threads (the harness' baton scheduler) keeps them related; in particular the pointer state
    after any schedule represents exactly the list-level stack and queue after that schedule. -/
theorem trun_sim (hwf : c.WFT) (wf : Nat) (hn : c.n ≤ wf) (fuel : Nat) : ∀ (ts : List Nat) (ls : Mutex.State) (ps : State),
    Mutex.Reachable c ls → TInv c ls → LInv c ls → Repr c ps ls → Mutex.TGuarded c fuel ls ts →
    Repr c (trun c wf fuel ps ts) (Mutex.trun c fuel ls ts) ∧ Mutex.Reachable c (Mutex.trun c fuel ls ts) ∧
    TInv c (Mutex.trun c fuel ls ts) ∧ LInv c (Mutex.trun c fuel ls ts) := by
  intro ts
  induction ts with
  | nil => intro ls ps hs hT hL hR _; exact ⟨hR, hs, hT, hL⟩
  | cons t ts ih =>
    intro ls ps hs hT hL hR hg
    obtain ⟨h1, h2, h3⟩ := Mutex.threadStep_reachable hwf hs hT hL fuel t hg.1
    have h := threadStep_sim hwf wf hn fuel ls t ps (Mutex.inv_reachable hs) (pc_done_of_ge hs) hT hL
      (Mutex.wakeOk_of_enabled hg.1) hR
    exact ih _ _ h1 h2 h3 h.2 hg.2

/-- … from the initial states, together with the events of the next thread step -/
theorem trun_init_sim (hwf : c.WFT) (wf : Nat) (hn : c.n ≤ wf) (fuel : Nat) (ts : List Nat)
    (hg : Mutex.TGuarded c fuel (Mutex.init c) ts) :
    Repr c (trun c wf fuel (init c) ts) (Mutex.trun c fuel (Mutex.init c) ts) ∧
    ∀ t, Mutex.enabled (Mutex.trun c fuel (Mutex.init c) ts) t = true →
      (threadStep c wf fuel (trun c wf fuel (init c) ts) t).2 =
        (Mutex.threadStep c fuel (Mutex.trun c fuel (Mutex.init c) ts) t).2 := by
  obtain ⟨hR, hs, hT, hL⟩ := trun_sim hwf wf hn fuel ts _ _ (Mutex.reachable_init c) (Mutex.tinv_init c)
    (Mutex.linv_init c) (repr_init c) hg
  refine ⟨hR, fun t he => ?_⟩
  exact (threadStep_sim hwf wf hn fuel _ t _ (Mutex.inv_reachable hs) (pc_done_of_ge hs) hT hL
    (Mutex.wakeOk_of_enabled he) hR).1

/-! ## node safety: which nodes a step touches -/

theorem grantTo_acc (c : Cfg) (s : State) (t a b : Nat) : (grantTo c s t a b).1.acc = s.acc := by
  unfold grantTo
  split
  · split
    · rfl
    · split <;> rfl
  · rfl
  · rfl

/-- the hand-over touches the head node of `_queue` (read `_next`, clear `_next`, read the node to resume it) and nothing else -/
theorem handOver_acc (c : Cfg) (s : State) (t a : Nat) :
    (handOver c s t a).1.acc = s.acc ∨ ∃ b k, s.queue = Seen.node b k ∧ (handOver c s t a).1.acc = s.acc ++
      [⟨a, Seen.node b k, Field.next, false⟩, ⟨a, Seen.node b k, Field.next, true⟩, ⟨a, Seen.node b k, Field.body, false⟩] := by
  unfold handOver
  split
  · exact Or.inl rfl
  · exact Or.inl rfl
  · rename_i b k hq
    exact Or.inr ⟨b, k, hq, by rw [grantTo_acc, popHead_acc]⟩

theorem unlockGo_acc (c : Cfg) (s : State) (t a : Nat) :
    (unlockGo c s t a).1.acc = s.acc ∨ ∃ b k, s.queue = Seen.node b k ∧ (unlockGo c s t a).1.acc = s.acc ++
      [⟨a, Seen.node b k, Field.next, false⟩, ⟨a, Seen.node b k, Field.next, true⟩, ⟨a, Seen.node b k, Field.body, false⟩] := by
  unfold unlockGo
  split
  · split <;> exact Or.inl rfl
  · exact handOver_acc c s t a

theorem unlockStart_acc (c : Cfg) (s : State) (t a : Nat) :
    (unlockStart c s t a).1.acc = s.acc ∨ ∃ b k, s.queue = Seen.node b k ∧ (unlockStart c s t a).1.acc = s.acc ++
      [⟨a, Seen.node b k, Field.next, false⟩, ⟨a, Seen.node b k, Field.next, true⟩, ⟨a, Seen.node b k, Field.body, false⟩] := by
  unfold unlockStart
  split
  · exact Or.inl rfl
  · exact unlockGo_acc c _ t a

theorem subCas_acc (c : Cfg) (s : State) (t a : Nat) (p : Seen) : (subCas c s t a p).1.acc = s.acc := by
  unfold subCas; split <;> rfl

/-- `subscribe` touches the requester's own node only (set-up in the first iteration, `_next` in every iteration), before
    the CAS; nothing after it -/
theorem stepSub_acc (c : Cfg) (s : State) (t a : Nat) (p : Seen) :
    ∀ x ∈ (stepSub c s t a p).1.acc, x ∈ s.acc ∨ (x.agent = a ∧ x.node = Seen.node a (keyOf c s a)) := by
  intro x hx
  unfold stepSub at hx
  rw [subCas_acc] at hx
  have : (subWrite c s a p).acc = (create s a (a, keyOf c s a)).acc ++ [⟨a, Seen.node a (keyOf c s a), Field.next, true⟩] := rfl
  rw [this, List.mem_append] at hx
  rcases hx with hx | hx
  · rcases create_acc s a (a, keyOf c s a) with e | e
    · rw [e] at hx; exact Or.inl hx
    · rw [e, List.mem_append] at hx
      rcases hx with hx | hx
      · exact Or.inl hx
      · simp at hx; subst hx; exact Or.inr ⟨rfl, rfl⟩
  · simp at hx; subst hx; exact Or.inr ⟨rfl, rfl⟩

/-- the body of a step touches: at `sub` the agent's own node; at the pcs inside `unlock` the head node of `_queue`;
    nothing at any other pc -/
theorem stepCore_acc (c : Cfg) (s : State) (t a : Nat) :
    ∀ x ∈ (stepCore c s t a).1.acc, x ∈ s.acc ∨
      ((∃ p, s.pc a = Pc.sub p) ∧ x.agent = a ∧ x.node = Seen.node a (keyOf c s a)) ∨
      ((s.pc a = Pc.afterCs ∨ s.pc a = Pc.asg ∨ s.pc a = Pc.relHand) ∧ x.agent = a ∧ x.node = s.queue ∧
        ∃ b k, s.queue = Seen.node b k) := by
  intro x hx
  have hpop : ∀ (s' : State) (r : State × List Ev × Outcome), s'.acc = s.acc → s'.queue = s.queue →
      (r.1.acc = s'.acc ∨ ∃ b k, s'.queue = Seen.node b k ∧ r.1.acc = s'.acc ++
        [⟨a, Seen.node b k, Field.next, false⟩, ⟨a, Seen.node b k, Field.next, true⟩, ⟨a, Seen.node b k, Field.body, false⟩]) →
      x ∈ r.1.acc → x ∈ s.acc ∨ (x.agent = a ∧ x.node = s.queue ∧ ∃ b k, s.queue = Seen.node b k) := by
    intro s' r h1 h2 h hx
    rcases h with e | ⟨b, k, hq, e⟩
    · rw [e, h1] at hx; exact Or.inl hx
    · rw [e, h1, List.mem_append] at hx
      rw [h2] at hq
      rcases hx with hx | hx
      · exact Or.inl hx
      · right
        simp at hx
        rcases hx with rfl | rfl | rfl <;> exact ⟨rfl, hq.symm, b, k, hq⟩
  cases hpc : s.pc a with
  | sub prev =>
    have e : stepCore c s t a = stepSub c s t a prev := by unfold stepCore; simp only [hpc]
    rw [e] at hx
    rcases stepSub_acc c s t a prev x hx with h | h
    · exact Or.inl h
    · exact Or.inr (Or.inl ⟨⟨prev, rfl⟩, h⟩)
  | afterCs =>
    by_cases hg : relOf c s a = some Rel.g
    · rw [stepCore_afterCs_g c s t a hpc hg] at hx; exact Or.inl hx
    · rw [stepCore_afterCs_ng c s t a hpc hg] at hx
      rcases hpop { s with incs := s.incs - 1 } _ rfl rfl (unlockStart_acc c _ t a) hx with h | h
      · exact Or.inl h
      · exact Or.inr (Or.inr ⟨Or.inl rfl, h⟩)
  | asg =>
    rw [stepCore_asg c s t a hpc] at hx
    rcases hpop _ _ rfl rfl (unlockStart_acc c _ t a) hx with h | h
    · exact Or.inl h
    · exact Or.inr (Or.inr ⟨Or.inr (Or.inl rfl), h⟩)
  | relHand =>
    rw [stepCore_relHand c s t a hpc] at hx
    rcases hpop _ _ rfl rfl (handOver_acc c _ t a) hx with h | h
    · exact Or.inl h
    · exact Or.inr (Or.inr ⟨Or.inr (Or.inr rfl), h⟩)
  | done => unfold stepCore at hx; simp only [hpc] at hx; exact Or.inl hx
  | parked => unfold stepCore at hx; simp only [hpc] at hx; exact Or.inl hx
  | top =>
    unfold stepCore at hx; simp only [hpc] at hx
    split at hx
    · exact Or.inl hx
    · split at hx <;> exact Or.inl hx
  | tryFail => unfold stepCore at hx; simp only [hpc] at hx; exact Or.inl hx
  | subInit => unfold stepCore at hx; simp only [hpc] at hx; split at hx <;> exact Or.inl hx
  | build => unfold stepCore at hx; simp only [hpc] at hx; exact Or.inl hx
  | waitFlag =>
    unfold stepCore at hx; simp only [hpc] at hx
    split at hx <;> split at hx <;> exact Or.inl hx
  | blocked => unfold stepCore at hx; simp only [hpc] at hx; split at hx <;> exact Or.inl hx
  | crit => unfold stepCore at hx; simp only [hpc] at hx; exact Or.inl hx
  | critS => unfold stepCore at hx; simp only [hpc] at hx; exact Or.inl hx
  | relBuild => unfold stepCore at hx; simp only [hpc] at hx; exact Or.inl hx
  | relDone => unfold stepCore at hx; simp only [hpc] at hx; split at hx <;> exact Or.inl hx


theorem mem_walkAcc {a : Nat} {l : List Node} {x : Access} (h : x ∈ walkAcc a l) :
    x.agent = a ∧ ∃ n ∈ l, x.node = Seen.node n.1 n.2 := by
  unfold walkAcc at h
  rw [List.mem_flatMap] at h
  obtain ⟨n, hn, hx⟩ := h
  simp at hx
  rcases hx with rfl | rfl <;> exact ⟨rfl, n, hn, rfl⟩

/-- **Which nodes an activity touches.**  In a pointer state related to a list-level state satisfying the invariant, every
    node-field access of the activity `(t, a)` is made by `a` and touches

    * `a`'s own request node while `a` is inside `subscribe` (pc `sub`: before its publishing CAS succeeded), or
    * the node of an agent in the list-level queue (a granted-next / waiting requester) while `a` owns the mutex (the loop of
      `build_queue` and the hand-over of `unlock`).

    In particular a requester never touches its node after the publishing CAS (pcs `parked`, `waitFlag`, `blocked`, `build`,
    `crit` without pending loop have no accesses), and the former owner never touches a node after handing it over (pc
    `relDone` has none). -/
theorem agentStep_acc {ls : Mutex.State} (wf : Nat) (hR : Repr c ps ls) (hI : Inv c ls) (hwf : ls.queue.length ≤ wf)
    (t a : Nat) : ∀ x ∈ (agentStep c wf ps t a).1.acc, x.agent = a ∧
      (((∃ p, ls.pc a = Pc.sub p) ∧ x.node = Seen.node a (keyOf c ps a)) ∨
       (Owner ls a ∧ ∃ n : Node, x.node = Seen.node n.1 n.2 ∧ n.1 ∈ ls.queue)) := by
  obtain ⟨e, hL⟩ := hR
  intro x hx
  have hI' : Inv c (absWith ps ls.req ls.queue) := by rw [← e]; exact hI
  have hR0 : ReprL c { ps with acc := [] } ls.req ls.queue :=
    ⟨hL.stack, hL.que, hL.stk, hL.pendOwn, hL.noViol, hL.noAsrt, hL.doorN⟩
  obtain ⟨hR1, hab, hpa, _, l, hacc, hlq, hl0⟩ := reprL_flush (c := c) wf a hR0 hI' hwf
  have hpc1 : (flush wf { ps with acc := [] } a).pc = ls.pc := by
    have := congrArg Mutex.State.pc (hab ls.req ls.queue)
    rw [e]; exact this
  have hkey1 : keyOf c (flush wf { ps with acc := [] } a) a = keyOf c ps a :=
    congrArg (fun s => Mutex.keyOf c s a) (hab ls.req ls.queue)
  have hown_pend : ps.pend a ≠ none → Owner ls a := fun h => by rw [e]; exact pend_owner hL h
  rcases stepCore_acc c _ t a x hx with h | ⟨⟨p, hp⟩, h1, h2⟩ | ⟨hp, h1, h2, b, k, hq⟩
  · rw [hacc] at h
    simp only [List.nil_append] at h
    obtain ⟨h1, n, hn, h2⟩ := mem_walkAcc h
    refine ⟨h1, Or.inr ⟨hown_pend (fun hnone => ?_), n, h2, hlq n hn⟩⟩
    rw [hl0 hnone] at hn; cases hn
  · rw [hpc1] at hp
    exact ⟨h1, Or.inl ⟨⟨p, hp⟩, by rw [h2, hkey1]⟩⟩
  · rw [hpc1] at hp
    have hown : Owner ls a := by rcases hp with h | h | h <;> simp [Owner, h, Mutex.isOwner]
    have hI1 : Inv c (absWith (flush wf { ps with acc := [] } a) ls.req ls.queue) := by rw [hab]; exact hI'
    have hown1 : Owner (absWith (flush wf { ps with acc := [] } a) ls.req ls.queue) a := by
      rw [hab]; show Owner (absWith ps ls.req ls.queue) a; rw [← e]; exact hown
    have hnone := pend_none_of_owner hR1 hI1 hown1 hpa
    obtain ⟨q0, hQ, hqq, _⟩ := que_of_no_pend hR1 hnone
    refine ⟨h1, Or.inr ⟨hown, (b, k), by rw [h2, hq], ?_⟩⟩
    rcases chain_queue_cases hQ with ⟨h0, _⟩ | ⟨b', k', l', h0, hl, _⟩
    · rw [hq] at h0; cases h0
    · rw [hq] at h0
      injection h0 with e1 e2
      subst e1 e2
      rw [hqq, hl]; simp


/-- **No two agents' next segments touch the same node.**  For different agents `a ≠ b` (on any threads), the node accesses
    of `a`'s next activity and of `b`'s next activity are on different nodes — so no plain field of a request node is ever
    accessed by two enabled segments (race freedom on `_next` / the awaiter body at interleaving level), which is what makes
    treating a segment as atomic a reduction. -/
theorem step_no_conflict {ls : Mutex.State} (wf : Nat) (hR : Repr c ps ls) (hI : Inv c ls) (hwf : ls.queue.length ≤ wf)
    {a b : Nat} (hab : a ≠ b) (t t' : Nat) :
    ∀ x ∈ (agentStep c wf ps t a).1.acc, ∀ y ∈ (agentStep c wf ps t' b).1.acc, x.node ≠ y.node := by
  intro x hx y hy hxy
  obtain ⟨_, hxa⟩ := agentStep_acc wf hR hI hwf t a x hx
  obtain ⟨_, hyb⟩ := agentStep_acc wf hR hI hwf t' b y hy
  have hsub : ∀ (u v : Nat) (p : Seen) (n : Node), ls.pc u = Pc.sub p → Seen.node u v = Seen.node n.1 n.2 → n.1 ∈ ls.queue → False := by
    intro u v p n hp he hn
    injection he with e1 _
    have hl := inv_listed_of_mem hI (Or.inl (e1 ▸ hn))
    rw [listed_iff] at hl
    simp [hp] at hl
  rcases hxa with ⟨⟨p, hp⟩, ex⟩ | ⟨hoa, n, ex, hn⟩ <;> rcases hyb with ⟨⟨p', hp'⟩, ey⟩ | ⟨hob, m, ey, hm⟩
  · rw [ex, ey] at hxy; injection hxy with e1 _; exact hab e1
  · rw [ex, ey] at hxy; exact hsub _ _ p m hp hxy hm
  · rw [ex, ey] at hxy; exact hsub _ _ p' n hp' hxy.symm hn
  · exact hab (hI.excl a b hoa hob)

/-- **Every linked node is alive**: the nodes of the stack, of the chain a pending `build_queue` loop has to move and of
    `_queue` — whatever lists the pointers determine (`chain_unique`) — are alive.  (The owner's accesses go to such nodes,
    `agentStep_acc`; a requester's accesses go to its own node, alive from the set-up at the start of that very segment.) -/
theorem linked_live {ls : Mutex.State} (hR : Repr c ps ls) :
    (∀ n ∈ nodesN ls.req, ps.live n = true) ∧
    ∀ det q0, PendIs ps det → ChainIs ps.next ps.queue q0 Seen.null → ∀ n ∈ det ++ q0, ps.live n = true := by
  obtain ⟨_, hL⟩ := hR
  refine ⟨fun n hn => (hL.stk n hn).1, ?_⟩
  obtain ⟨det, q0, hP, hQ, _, hL'⟩ := hL.que
  intro det' q0' hP' hQ' n hm
  have e2 : q0' = q0 := chain_unique hQ' hQ
  have e1 : det' = det := by
    by_cases hnone : ∀ o, ps.pend o = none
    · rw [hP.2 hnone, hP'.2 hnone]
    · have hex : ∃ o, ps.pend o ≠ none := Classical.byContradiction (fun h => hnone (fun o =>
        Classical.byContradiction (fun h' => h ⟨o, h'⟩)))
      obtain ⟨o, ho⟩ := hex
      cases hp : ps.pend o with
      | none => exact absurd hp ho
      | some x => exact chain_unique (hP'.1 o x.1 x.2 hp) (hP.1 o x.1 x.2 hp)
  subst e1 e2
  exact (hL' n hm).1

/-- **No activity touches a node that is not alive**, dereferences null or the doorman, or fails an assertion of mutex.h:
    the ghost flags stay clear across every activity from related states. -/
theorem step_no_viol {ls : Mutex.State} (wf : Nat) (hR : Repr c ps ls) (hI : Inv c ls) (hwf : ls.queue.length ≤ wf)
    (t a : Nat) : (agentStep c wf ps t a).1.viol = false ∧ (agentStep c wf ps t a).1.asrt = false ∧
      (agentStep c wf ps t a).1.doorNext = Seen.null :=
  have h := (agentStep_sim wf hR hI hwf t a).2.2
  ⟨h.noViol, h.noAsrt, h.doorN⟩

/-! ## the lists the pointers denote -/

def Ptr.isEnd : Ptr → Prop
  | Seen.node _ _ => False
  | _ => True

/-- the walk from `h` over nodes to the first non-node pointer is determined by the pointers -/
theorem chain_unique_end {next : Node → Ptr} {h s1 s2 : Ptr} {l1 l2 : List Node} (h1 : ChainIs next h l1 s1)
    (h2 : ChainIs next h l2 s2) (e1 : Ptr.isEnd s1) (e2 : Ptr.isEnd s2) : l1 = l2 ∧ s1 = s2 := by
  induction h1 generalizing l2 with
  | nil => cases h2 with
    | nil => exact ⟨rfl, rfl⟩
    | cons _ _ => exact absurd e1 (by simp [Ptr.isEnd])
  | cons _ _ ih => cases h2 with
    | nil => exact absurd e2 (by simp [Ptr.isEnd])
    | cons _ h2' =>
      obtain ⟨r1, r2⟩ := ih h2' e1
      exact ⟨by rw [r1], r2⟩

theorem stackIs_chain {next : Node → Ptr} : ∀ (r : List Elem) (p : Ptr), StackIs next p r →
    ∃ bottom, (bottom = Seen.null ∨ bottom = Seen.door) ∧ ChainIs next p (nodesN r) bottom := by
  intro r
  induction r with
  | nil => intro p h; exact ⟨Seen.null, Or.inl rfl, by rw [show p = Seen.null from h]; exact ChainIs.nil _⟩
  | cons e r ih =>
    intro p h
    cases e with
    | door => exact ⟨Seen.door, Or.inr rfl, by rw [h.1]; exact ChainIs.nil _⟩
    | node x k =>
      obtain ⟨b, hb, hc⟩ := ih _ h.2
      refine ⟨b, hb, ?_⟩
      rw [h.1]
      exact ChainIs.cons (by rcases hb with e | e <;> rw [e] <;> intro h' <;> cases h') hc

/-- the lists determined by the pointer fields: `det` — what a pending `build_queue` loop still has to move, `q0` — the
    chain of `_queue`, `stk` — the chain of `_requests` down to `bottom` (null or the doorman) -/
structure Links (ps : State) (det q0 stk : List Node) (bottom : Ptr) : Prop where
  pend : PendIs ps det
  que : ChainIs ps.next ps.queue q0 Seen.null
  stack : ChainIs ps.next ps.requests stk bottom
  bot : bottom = Seen.null ∨ bottom = Seen.door

theorem links_unique {d1 q1 s1 d2 q2 s2 : List Node} {b1 b2 : Ptr} (h1 : Links ps d1 q1 s1 b1) (h2 : Links ps d2 q2 s2 b2) :
    d1 = d2 ∧ q1 = q2 ∧ s1 = s2 ∧ b1 = b2 := by
  have hend : ∀ b, (b = Seen.null ∨ b = Seen.door) → Ptr.isEnd b := by
    rintro b (e | e) <;> rw [e] <;> trivial
  obtain ⟨e3, e4⟩ := chain_unique_end h1.stack h2.stack (hend _ h1.bot) (hend _ h2.bot)
  refine ⟨?_, chain_unique h1.que h2.que, e3, e4⟩
  by_cases hnone : ∀ o, ps.pend o = none
  · rw [h1.pend.2 hnone, h2.pend.2 hnone]
  · have hex : ∃ o, ps.pend o ≠ none := Classical.byContradiction (fun h => hnone (fun o =>
      Classical.byContradiction (fun h' => h ⟨o, h'⟩)))
    obtain ⟨o, ho⟩ := hex
    cases hp : ps.pend o with
    | none => exact absurd hp ho
    | some x => exact chain_unique (h1.pend.1 o x.1 x.2 hp) (h2.pend.1 o x.1 x.2 hp)

/-- in a state related to a list-level state, the pointers denote its queue and stack, and all linked nodes are alive -/
theorem links_of_repr {ls : Mutex.State} (hR : Repr c ps ls) :
    ∃ det q0 bottom, Links ps det q0 (nodesN ls.req) bottom ∧ ls.queue = (det.reverse ++ q0).map (·.1) ∧
      ∀ n ∈ det ++ q0 ++ nodesN ls.req, ps.live n = true ∧ n.2 = keyOf c ps n.1 := by
  obtain ⟨_, hL⟩ := hR
  obtain ⟨det, q0, hP, hQ, hq, hlv⟩ := hL.que
  obtain ⟨b, hb, hc⟩ := stackIs_chain _ _ hL.stack
  refine ⟨det, q0, b, ⟨hP, hQ, hc, hb⟩, hq, ?_⟩
  intro n hn
  rcases List.mem_append.1 hn with h | h
  · exact hlv n h
  · exact hL.stk n h

/-! ## the hand-over in detail -/

theorem grantTo_ptr (c : Cfg) (s : State) (t a b : Nat) :
    (grantTo c s t a b).1.next = s.next ∧ (grantTo c s t a b).1.live = s.live ∧ (grantTo c s t a b).1.queue = s.queue ∧
    (grantTo c s t a b).1.pc a = Pc.relDone := by
  unfold grantTo
  split
  · split
    · exact ⟨rfl, rfl, rfl, by simp [setPc]⟩
    · split <;> exact ⟨rfl, rfl, rfl, by simp [setPc]⟩
  · exact ⟨rfl, rfl, rfl, by simp [setPc]⟩
  · exact ⟨rfl, rfl, rfl, by simp [setPc]⟩

/-- the three accesses of the hand-over on the head node: read `_next`, clear `_next`, read the node to resume it -/
def popAcc (a b k : Nat) : List Access :=
  [⟨a, Seen.node b k, Field.next, false⟩, ⟨a, Seen.node b k, Field.next, true⟩, ⟨a, Seen.node b k, Field.body, false⟩]

theorem handOver_node (c : Cfg) (s : State) (t a b k : Nat) (hq : s.queue = Seen.node b k) :
    (handOver c s t a).1.acc = s.acc ++ popAcc a b k ∧ (handOver c s t a).1.next (b, k) = Seen.null ∧
    (handOver c s t a).1.live = s.live ∧ (handOver c s t a).1.pc a = Pc.relDone := by
  have e : handOver c s t a = grantTo c (popHead s a b k) t a b := by unfold handOver; rw [hq]
  obtain ⟨h1, h2, _, h4⟩ := grantTo_ptr c (popHead s a b k) t a b
  rw [e, grantTo_acc, h1, h2]
  exact ⟨popHead_acc .., by simp, rfl, h4⟩

theorem unlockStart_node (c : Cfg) (s : State) (t a b k : Nat) (hh : s.held (objOf c s a) = true)
    (hq : s.queue = Seen.node b k) :
    (unlockStart c s t a).1.acc = s.acc ++ popAcc a b k ∧ (unlockStart c s t a).1.next (b, k) = Seen.null ∧
    (unlockStart c s t a).1.live = s.live ∧ (unlockStart c s t a).1.pc a = Pc.relDone := by
  rw [unlockStart_held c s t a hh, unlockGo_node c (unlockEntry c s a) t a b k hq]
  exact handOver_node c (unlockEntry c s a) t a b k hq

/-- **`unlock` unlinks the new owner before resuming it, and the step is the last one that touches its node.**  When the
    activity of `x` hands the lock over to `b` (`grantee c ls x = some b`): the accesses of that activity end with
    `read head->_next; write head->_next (= nullptr); read head (resume)` on the node `(b, k)` of `b`, in this order; all
    earlier accesses of the activity are those of the `build_queue` loop; afterwards `_next` of that node is null, the node
    is still alive (it dies when `b` itself continues), and `x` is at `relDone`. -/
theorem handover_step {ls : Mutex.State} (wf : Nat) (hR : Repr c ps ls) (hI : Inv c ls) (hwf : ls.queue.length ≤ wf)
    (t x b : Nat) (hg : Mutex.grantee c ls x = some b) :
    ∃ (k : Nat) (l : List Node), (agentStep c wf ps t x).1.acc = walkAcc x l ++ popAcc x b k ∧
      (agentStep c wf ps t x).1.next (b, k) = Seen.null ∧ (agentStep c wf ps t x).1.live (b, k) = true ∧
      k = keyOf c ps b ∧ (agentStep c wf ps t x).1.pc x = Pc.relDone := by
  obtain ⟨e, hL⟩ := hR
  have hI' : Inv c (absWith ps ls.req ls.queue) := by rw [← e]; exact hI
  have hR0 : ReprL c { ps with acc := [] } ls.req ls.queue :=
    ⟨hL.stack, hL.que, hL.stk, hL.pendOwn, hL.noViol, hL.noAsrt, hL.doorN⟩
  obtain ⟨hR1, hab, hpa, hlv, l, hacc, _, _⟩ := reprL_flush (c := c) wf x hR0 hI' hwf
  generalize hps1 : flush wf { ps with acc := [] } x = ps1 at *
  have hls : ls = absWith ps1 ls.req ls.queue := by rw [hab]; exact e
  have hpc1 : ps1.pc = ls.pc := (congrArg Mutex.State.pc hls).symm
  -- `x` is inside `unlock` and the queue is not empty
  unfold Mutex.grantee at hg
  split at hg
  case isFalse => cases hg
  rename_i hun
  have hxpc : ls.pc x = Pc.afterCs ∨ ls.pc x = Pc.asg ∨ ls.pc x = Pc.relHand := by
    rcases hun with ⟨h, _⟩ | ⟨h, _⟩ | h
    · exact Or.inl h
    · exact Or.inr (Or.inl h)
    · exact Or.inr (Or.inr h)
  have hown : Owner ls x := by rcases hxpc with h | h | h <;> simp [Owner, h, Mutex.isOwner]
  have hI1 : Inv c (absWith ps1 ls.req ls.queue) := by rw [← hls]; exact hI
  have hnone := pend_none_of_owner hR1 hI1 (by rw [← hls]; exact hown) hpa
  obtain ⟨q0, hQ, hqq, hlq⟩ := que_of_no_pend hR1 hnone
  rcases chain_queue_cases hQ with ⟨_, h0⟩ | ⟨b', k, l', hq1, hl', _⟩
  · rw [hqq, h0] at hg; cases hg
  have hb : b' = b := by rw [hqq, hl'] at hg; simpa using hg
  subst hb
  have hkey : k = keyOf c ps b' := by
    have h1 : k = keyOf c ps1 b' := (hlq (b', k) (by rw [hl']; simp)).2
    rw [h1]
    exact congrArg (fun s => Mutex.keyOf c s b') (hab ls.req ls.queue)
  have hlive : ps1.live (b', k) = true := (hlq (b', k) (by rw [hl']; simp)).1
  have hacc1 : ps1.acc = walkAcc x l := by rw [hacc]; rfl
  refine ⟨k, l, ?_⟩
  show (stepCore c (flush wf { ps with acc := [] } x) t x).1.acc = _ ∧ (stepCore c (flush wf { ps with acc := [] } x) t x).1.next _ = _ ∧
    (stepCore c (flush wf { ps with acc := [] } x) t x).1.live _ = _ ∧ _ ∧ (stepCore c (flush wf { ps with acc := [] } x) t x).1.pc x = _
  rw [hps1]
  rcases hun with ⟨h, hng, hheld⟩ | ⟨h, hheld⟩ | h
  · rw [stepCore_afterCs_ng c ps1 t x (by rw [hpc1]; exact h) (by rw [hls] at hng; exact hng)]
    obtain ⟨a1, a2, a3, a4⟩ := unlockStart_node c { ps1 with incs := ps1.incs - 1 } t x b' k
      (by rw [hls] at hheld; exact hheld) hq1
    exact ⟨by rw [a1]; show ps1.acc ++ _ = _; rw [hacc1], a2, by rw [a3]; exact hlive, hkey, a4⟩
  · rw [stepCore_asg c ps1 t x (by rw [hpc1]; exact h)]
    obtain ⟨a1, a2, a3, a4⟩ := unlockStart_node c ps1 t x b' k (by rw [hls] at hheld; exact hheld) hq1
    exact ⟨by rw [a1, hacc1], a2, by rw [a3]; exact hlive, hkey, a4⟩
  · rw [stepCore_relHand c ps1 t x (by rw [hpc1]; exact h)]
    obtain ⟨a1, a2, a3, a4⟩ := handOver_node c ps1 t x b' k hq1
    exact ⟨by rw [a1, hacc1], a2, by rw [a3]; exact hlive, hkey, a4⟩

/-- an activity has node accesses only at these pcs -/
theorem agentStep_acc_pc {ls : Mutex.State} (wf : Nat) (hR : Repr c ps ls) (hI : Inv c ls) (hwf : ls.queue.length ≤ wf)
    (t a : Nat) (hne : (agentStep c wf ps t a).1.acc ≠ []) :
    (∃ p, ls.pc a = Pc.sub p) ∨ ls.pc a = Pc.afterCs ∨ ls.pc a = Pc.asg ∨ ls.pc a = Pc.relHand ∨ ls.pc a = Pc.crit := by
  obtain ⟨e, hL⟩ := hR
  have hI' : Inv c (absWith ps ls.req ls.queue) := by rw [← e]; exact hI
  have hR0 : ReprL c { ps with acc := [] } ls.req ls.queue :=
    ⟨hL.stack, hL.que, hL.stk, hL.pendOwn, hL.noViol, hL.noAsrt, hL.doorN⟩
  obtain ⟨_, hab, _, _, l, hacc, _, hl0⟩ := reprL_flush (c := c) wf a hR0 hI' hwf
  have hpc1 : (flush wf { ps with acc := [] } a).pc = ls.pc := by
    have := congrArg Mutex.State.pc (hab ls.req ls.queue)
    rw [e]; exact this
  obtain ⟨x, hx⟩ := List.exists_mem_of_ne_nil _ hne
  rcases stepCore_acc c _ t a x hx with h | ⟨⟨p, hp⟩, _⟩ | ⟨hp, _⟩
  · rw [hacc] at h
    simp only [List.nil_append] at h
    have hpn : ps.pend a ≠ none := by
      intro hn; rw [hl0 hn] at h; simp [walkAcc] at h
    cases hp : ps.pend a with
    | none => exact absurd hp hpn
    | some y =>
      rcases (hL.pendOwn a y.1 y.2 hp).2 with ⟨h1, _⟩ | ⟨h1, _⟩
      · right; right; right; right; rw [e]; exact h1
      · right; right; right; left; rw [e]; exact h1
  · rw [hpc1] at hp; exact Or.inl ⟨p, hp⟩
  · rw [hpc1] at hp
    rcases hp with h | h | h
    · exact Or.inr (Or.inl h)
    · exact Or.inr (Or.inr (Or.inl h))
    · exact Or.inr (Or.inr (Or.inr (Or.inl h)))

end Cocls.MutexPtr
