import CoclsModel.Queue
/-!
Invariant of the `queue<T>` model and its preservation by every step, and the simulation of the
`queue<void>` model by the `queue<T>` model (helper lemmas for `Props/C09.lean`).
-/
namespace Cocls.Q

def outItem : Out → Option Item
  | Out.val it => some it
  | _ => none

def excOf (e : Ev) : Option (Pop × Nat) :=
  match e.out with
  | Out.exc c => some (e.pop, c)
  | _ => none

/-- the items handed to pops, in hand-over (= lock) order -/
def vals (l : List Ev) : List Item := l.filterMap (fun e => outItem e.out)
/-- the pops an event list talks about -/
def popIds (l : List Ev) : List Nat := l.map (·.pop.id)
def excs (l : List Ev) : List (Pop × Nat) := l.filterMap excOf

@[simp] theorem vals_nil : vals [] = [] := rfl
@[simp] theorem popIds_nil : popIds [] = [] := rfl
@[simp] theorem excs_nil : excs [] = [] := rfl
@[simp] theorem vals_append (a b : List Ev) : vals (a ++ b) = vals a ++ vals b := by simp [vals]
@[simp] theorem popIds_append (a b : List Ev) : popIds (a ++ b) = popIds a ++ popIds b := by simp [popIds]
@[simp] theorem excs_append (a b : List Ev) : excs (a ++ b) = excs a ++ excs b := by simp [excs]
@[simp] theorem vals_val (w it) : vals [⟨w, Out.val it⟩] = [it] := rfl
@[simp] theorem vals_exc (w c) : vals [⟨w, Out.exc c⟩] = [] := rfl
@[simp] theorem excs_val (w it) : excs [⟨w, Out.val it⟩] = [] := rfl
@[simp] theorem excs_exc (w c) : excs [⟨w, Out.exc c⟩] = [(w, c)] := rfl
@[simp] theorem popIds_single (w o) : popIds [⟨w, o⟩] = [w.id] := rfl

theorem vals_canceled (l : List Pop) : vals (l.map (fun w => ⟨w, Out.canceled⟩)) = [] := by
  induction l with
  | nil => rfl
  | cons x xs ih => simp [vals, outItem]

theorem excs_canceled (l : List Pop) : excs (l.map (fun w => ⟨w, Out.canceled⟩)) = [] := by
  induction l with
  | nil => rfl
  | cons x xs ih => simp [excs, excOf]

theorem popIds_canceled (l : List Pop) : popIds (l.map (fun w => ⟨w, Out.canceled⟩)) = l.map (·.id) := by
  simp [popIds]

structure Inv (s : State) : Prop where
  /-- the anchor's invariant: item queue and waiting-consumer queue are never both non-empty -/
  never_both : s.waiters ≠ [] → s.items = []
  /-- FIFO refinement: items handed out (in hand-over order) followed by the queue = everything pushed, in push order -/
  fifo : vals s.served ++ s.items = s.pushed
  push_ids : s.pushed.map (·.id) = List.range s.nextPush
  /-- pops are served in arrival order: served pops followed by parked pops = all pops, in arrival order -/
  pops_fifo : popIds s.served ++ s.waiters.map (·.id) = List.range s.nextPop
  /-- every decision is in flight or performed, exactly once -/
  account : ∀ e, s.inflight.count e + s.completed.count e = s.served.count e
  /-- a pop is canceled only by the destructor or by a push whose item construction threw -/
  cancel_dead : ∀ e ∈ s.served, e.out = Out.canceled → s.alive = false ∨ e.pop ∈ s.throws
  dead_no_waiters : s.alive = false → s.waiters = []
  no_ok : ∀ e ∈ s.served, e.out ≠ Out.ok
  exc_unblock : excs s.served = s.unblocks

theorem inv_init : Inv init := by
  refine ⟨?_, ?_, ?_, ?_, ?_, ?_, ?_, ?_, ?_⟩ <;> simp [init]

theorem inv_initCfg (cap wcap : Option Nat) : Inv (initCfg cap wcap) := by
  refine ⟨?_, ?_, ?_, ?_, ?_, ?_, ?_, ?_, ?_⟩ <;> simp [initCfg]

macro "csimp" : tactic => `(tactic| simp only [List.count_append, List.count_cons, List.count_nil, beq_iff_eq,
    List.append_nil, List.nil_append])

theorem inv_push (s : State) (p v : Nat) (ha : s.alive = true) (h : Inv s) : Inv (stepPush s p v).1 := by
  obtain ⟨h1, h2, h3, h4, h5, h6, h7, h8, h9⟩ := h
  unfold stepPush
  cases hw : s.waiters with
  | nil =>
    simp only [hw] at h1 h4 ⊢
    refine ⟨?_, ?_, ?_, ?_, h5, h6, ?_, h8, h9⟩ <;> dsimp only
    · simp
    · rw [← List.append_assoc, h2]
    · rw [List.map_append, h3, List.range_succ]; rfl
    · simpa using h4
    · intro _; rfl
  | cons w ws =>
    have hi : s.items = [] := h1 (by simp [hw])
    simp only [hw, hi] at h2 h4 ⊢
    refine ⟨?_, ?_, ?_, ?_, ?_, ?_, ?_, ?_, ?_⟩ <;> dsimp only
    · intro _; rfl
    · simp only [vals_append, vals_val, List.append_nil] at h2 ⊢
      rw [h2]
    · rw [List.map_append, h3, List.range_succ]; rfl
    · rw [← h4]; simp
    · intro e; have := h5 e; csimp; omega
    · intro e he hc
      simp only [List.mem_append, List.mem_singleton] at he
      rcases he with he | he
      · exact h6 e he hc
      · subst he; simp at hc
    · intro hd; rw [ha] at hd; simp at hd
    · intro e he
      simp only [List.mem_append, List.mem_singleton] at he
      rcases he with he | he
      · exact h8 e he
      · subst he; simp
    · simp only [excs_append, excs_val, List.append_nil]; exact h9

theorem inv_pop (s : State) (c : Nat) (ha : s.alive = true) (h : Inv s) : Inv (stepPop s c).1 := by
  obtain ⟨h1, h2, h3, h4, h5, h6, h7, h8, h9⟩ := h
  unfold stepPop
  cases hi : s.items with
  | nil =>
    simp only [hi] at h2 ⊢
    refine ⟨?_, ?_, h3, ?_, h5, h6, ?_, h8, h9⟩ <;> dsimp only
    · intro _; rfl
    · exact h2
    · rw [List.map_append, ← List.append_assoc, h4, List.range_succ]; rfl
    · intro hd; rw [ha] at hd; simp at hd
  | cons x xs =>
    have hw : s.waiters = [] := by
      by_cases hw : s.waiters = []
      · exact hw
      · have := h1 hw; simp [hi] at this
    simp only [hi, hw] at h2 h4 ⊢
    refine ⟨?_, ?_, h3, ?_, ?_, ?_, ?_, ?_, ?_⟩ <;> dsimp only
    · intro hne; simp at hne
    · simp only [vals_append, vals_val]; rw [← h2]; simp
    · simp only [List.map_nil, List.append_nil, popIds_append, popIds_single] at h4 ⊢
      rw [h4, List.range_succ]
    · intro e; have := h5 e; csimp; omega
    · intro e he hc
      simp only [List.mem_append, List.mem_singleton] at he
      rcases he with he | he
      · exact h6 e he hc
      · subst he; simp at hc
    · intro _; rfl
    · intro e he
      simp only [List.mem_append, List.mem_singleton] at he
      rcases he with he | he
      · exact h8 e he
      · subst he; simp
    · simp only [excs_append, excs_val, List.append_nil]; exact h9

theorem inv_upop (s : State) (c : Nat) (ha : s.alive = true) (h : Inv s) : Inv (stepUpop s c).1 := by
  obtain ⟨h1, h2, h3, h4, h5, h6, h7, h8, h9⟩ := h
  unfold stepUpop
  cases hw : s.waiters with
  | nil => exact ⟨h1, h2, h3, h4, h5, h6, h7, h8, h9⟩
  | cons w ws =>
    have hi : s.items = [] := h1 (by simp [hw])
    simp only [hw] at h4 ⊢
    refine ⟨?_, ?_, h3, ?_, ?_, ?_, ?_, ?_, ?_⟩ <;> dsimp only
    · intro _; exact hi
    · simp only [vals_append, vals_exc, List.append_nil]; exact h2
    · rw [← h4]; simp
    · intro e; have := h5 e; csimp; omega
    · intro e he hc
      simp only [List.mem_append, List.mem_singleton] at he
      rcases he with he | he
      · exact h6 e he hc
      · subst he; simp at hc
    · intro hd; rw [ha] at hd; simp at hd
    · intro e he
      simp only [List.mem_append, List.mem_singleton] at he
      rcases he with he | he
      · exact h8 e he
      · subst he; simp
    · simp only [excs_append, excs_exc]; rw [h9]

theorem inv_destroy (s : State) (h : Inv s) : Inv (stepDestroy s).1 := by
  obtain ⟨h1, h2, h3, h4, h5, h6, h7, h8, h9⟩ := h
  unfold stepDestroy
  refine ⟨?_, ?_, h3, ?_, ?_, ?_, ?_, ?_, ?_⟩ <;> dsimp only
  · intro hne; simp at hne
  · simp only [vals_append, vals_canceled, List.append_nil]; exact h2
  · simp only [popIds_append, popIds_canceled, List.map_nil, List.append_nil]; exact h4
  · intro e; have := h5 e; csimp; omega
  · intro _ _ _; exact Or.inl rfl
  · intro _; rfl
  · intro e he
    simp only [List.mem_append, List.mem_map] at he
    rcases he with he | ⟨w, _, rfl⟩
    · exact h8 e he
    · simp
  · simp only [excs_append, excs_canceled, List.append_nil]; exact h9

theorem count_eraseIdx {α} [BEq α] [LawfulBEq α] (l : List α) (k : Nat) (e : α) (a : α) (h : l[k]? = some e) :
    l.count a = (l.eraseIdx k).count a + [e].count a := by
  induction l generalizing k with
  | nil => simp at h
  | cons x xs ih =>
    cases k with
    | zero =>
      simp at h; subst h
      simp only [List.eraseIdx_cons_zero, List.count_cons, List.count_nil]
      omega
    | succ k =>
      simp at h
      have := ih k h
      simp only [List.eraseIdx_cons_succ, List.count_cons, List.count_nil] at this ⊢
      omega

theorem inv_deliver (s : State) (k : Nat) (h : Inv s) : Inv (stepDeliver s k).1 := by
  obtain ⟨h1, h2, h3, h4, h5, h6, h7, h8, h9⟩ := h
  unfold stepDeliver
  cases hk : s.inflight[k]? with
  | none => exact ⟨h1, h2, h3, h4, h5, h6, h7, h8, h9⟩
  | some e =>
    refine ⟨h1, h2, h3, h4, ?_, h6, h7, h8, h9⟩
    intro a; have := h5 a
    have hc := count_eraseIdx s.inflight k e a hk
    dsimp only
    simp only [List.count_append] at *
    omega

theorem inv_pushthrow (s : State) (ha : s.alive = true) (h : Inv s) : Inv (stepPushThrow s).1 := by
  obtain ⟨h1, h2, h3, h4, h5, h6, h7, h8, h9⟩ := h
  unfold stepPushThrow
  cases hw : s.waiters with
  | nil => exact ⟨h1, h2, h3, h4, h5, h6, h7, h8, h9⟩
  | cons w ws =>
    have hi : s.items = [] := h1 (by simp [hw])
    simp only [hw] at h4 ⊢
    refine ⟨?_, ?_, h3, ?_, ?_, ?_, ?_, ?_, ?_⟩ <;> dsimp only
    · intro _; exact hi
    · have : vals [(⟨w, Out.canceled⟩ : Ev)] = [] := rfl
      simp only [vals_append, this, List.append_nil]; exact h2
    · rw [← h4]; simp
    · intro e; have := h5 e; csimp; omega
    · intro e he hc
      simp only [List.mem_append, List.mem_singleton] at he ⊢
      rcases he with he | he
      · rcases h6 e he hc with h | h
        · exact Or.inl h
        · exact Or.inr (Or.inl h)
      · subst he; exact Or.inr (Or.inr rfl)
    · intro hd; rw [ha] at hd; simp at hd
    · intro e he
      simp only [List.mem_append, List.mem_singleton] at he
      rcases he with he | he
      · exact h8 e he
      · subst he; simp
    · have : excs [(⟨w, Out.canceled⟩ : Ev)] = [] := rfl
      simp only [excs_append, this, List.append_nil]; exact h9

theorem inv_pushC (s : State) (p v : Nat) (ha : s.alive = true) (h : Inv s) : Inv (stepPushC s p v).1 := by
  unfold stepPushC; split
  · exact h
  · exact inv_push s p v ha h

theorem inv_pushThrowC (s : State) (ha : s.alive = true) (h : Inv s) : Inv (stepPushThrowC s).1 := by
  unfold stepPushThrowC; split
  · exact h
  · exact inv_pushthrow s ha h

theorem inv_popC (s : State) (c : Nat) (ha : s.alive = true) (h : Inv s) : Inv (stepPopC s c).1 := by
  unfold stepPopC; split
  · exact h
  · exact inv_pop s c ha h

theorem inv_popThrowC (s : State) (c : Nat) (ha : s.alive = true) (h : Inv s) : Inv (stepPopThrowC s c).1 := by
  unfold stepPopThrowC
  split
  · exact inv_popC s c ha h
  · obtain ⟨h1, h2, h3, h4, h5, h6, h7, h8, h9⟩ := h
    exact ⟨h1, h2, h3, h4, h5, h6, h7, h8, h9⟩

theorem inv_step (s : State) (op : Op) (h : Inv s) : Inv (step s op).1 := by
  unfold step
  cases op <;> simp only <;> (try split) <;> (try unfold stepLive) <;> (try simp only) <;>
    first
    | exact h
    | exact inv_pushC s _ _ (by assumption) h
    | exact inv_pushThrowC s (by assumption) h
    | exact inv_popC s _ (by assumption) h
    | exact inv_popThrowC s _ (by assumption) h
    | exact inv_pushthrow s (by assumption) h
    | exact inv_push s _ _ (by assumption) h
    | exact inv_pop s _ (by assumption) h
    | exact inv_upop s _ (by assumption) h
    | exact inv_destroy s h
    | exact inv_deliver s _ h

theorem inv_run (s : State) (ops : List Op) (h : Inv s) : Inv (run s ops) := by
  induction ops generalizing s with
  | nil => exact h
  | cons op ops ih => exact ih (step s op).1 (inv_step s op h)

/-- every reachable state: any configuration of the backing stores (`std_queue` / bounded such as `single_item_queue`),
any operation list from the empty queue -/
def Reachable (s : State) : Prop := ∃ cap wcap ops, s = run (initCfg cap wcap) ops

theorem reachable_inv {s : State} (h : Reachable s) : Inv s := by
  obtain ⟨cap, wcap, ops, rfl⟩ := h
  exact inv_run (initCfg cap wcap) ops (inv_initCfg cap wcap)

theorem cfg_step (s : State) (op : Op) : (step s op).1.cap = s.cap ∧ (step s op).1.wcap = s.wcap := by
  have hpush : ∀ p v, (stepPushC s p v).1.cap = s.cap ∧ (stepPushC s p v).1.wcap = s.wcap := by
    intro p v; unfold stepPushC stepPush; split <;> (try split) <;> exact ⟨rfl, rfl⟩
  have hthrow : (stepPushThrowC s).1.cap = s.cap ∧ (stepPushThrowC s).1.wcap = s.wcap := by
    unfold stepPushThrowC stepPushThrow; split <;> (try split) <;> exact ⟨rfl, rfl⟩
  have hpop : ∀ c, (stepPopC s c).1.cap = s.cap ∧ (stepPopC s c).1.wcap = s.wcap := by
    intro c; unfold stepPopC stepPop; split <;> (try split) <;> exact ⟨rfl, rfl⟩
  have hpopt : ∀ c, (stepPopThrowC s c).1.cap = s.cap ∧ (stepPopThrowC s c).1.wcap = s.wcap := by
    intro c; unfold stepPopThrowC; split
    · exact hpop c
    · exact ⟨rfl, rfl⟩
  have hupop : ∀ c, (stepUpop s c).1.cap = s.cap ∧ (stepUpop s c).1.wcap = s.wcap := by
    intro c; unfold stepUpop; split <;> exact ⟨rfl, rfl⟩
  have hdel : ∀ k, (stepDeliver s k).1.cap = s.cap ∧ (stepDeliver s k).1.wcap = s.wcap := by
    intro k; unfold stepDeliver; split <;> exact ⟨rfl, rfl⟩
  unfold step
  cases op <;> simp only <;> (try split) <;> (try unfold stepLive) <;> (try simp only) <;>
    first
    | exact ⟨rfl, rfl⟩
    | exact ⟨trivial, trivial⟩
    | exact hpush _ _
    | exact hthrow
    | exact hpop _
    | exact hpopt _
    | exact hupop _
    | exact hdel _

theorem cfg_run (s : State) (ops : List Op) : (run s ops).cap = s.cap ∧ (run s ops).wcap = s.wcap := by
  induction ops generalizing s with
  | nil => exact ⟨rfl, rfl⟩
  | cons op ops ih =>
    have h1 := ih (step s op).1
    have h2 := cfg_step s op
    exact ⟨h1.1.trans h2.1, h1.2.trans h2.2⟩

theorem perm_of_inv {s : State} (h : Inv s) : (s.inflight ++ s.completed).Perm s.served := by
  rw [List.perm_iff_count]
  intro e
  rw [List.count_append]
  exact h.account e

theorem mem_served_of_resolved {s : State} (h : Inv s) {e : Ev} (he : e ∈ s.inflight ++ s.completed) :
    e ∈ s.served := (perm_of_inv h).mem_iff.mp he

/-- the bounded backing stores are never over-filled (their `emplace` would have thrown) -/
structure CapInv (s : State) : Prop where
  items_le : ∀ n, s.cap = some n → s.items.length ≤ n
  waiters_le : ∀ n, s.wcap = some n → s.waiters.length ≤ n

theorem capinv_init (cap wcap : Option Nat) : CapInv (initCfg cap wcap) := by
  constructor <;> intro n _ <;> simp [initCfg]

theorem capinv_pushC (s : State) (p v : Nat) (h : CapInv s) : CapInv (stepPushC s p v).1 := by
  unfold stepPushC
  split
  · exact h
  · rename_i hc
    unfold stepPush
    cases hw : s.waiters with
    | nil =>
      constructor
      · intro n hn
        have h1 := h.items_le n hn
        have hf : itemsFull s = decide (n ≤ s.items.length) := by unfold itemsFull; rw [hn]
        rw [hw, hf] at hc
        simp at hc ⊢; omega
      · intro n hn; have := h.waiters_le n hn; simp [hw] at this ⊢
    | cons w ws =>
      constructor
      · intro n hn; exact h.items_le n hn
      · intro n hn; have := h.waiters_le n hn; simp [hw] at this ⊢; omega

theorem capinv_pushThrowC (s : State) (h : CapInv s) : CapInv (stepPushThrowC s).1 := by
  unfold stepPushThrowC
  split
  · exact h
  · unfold stepPushThrow
    cases hw : s.waiters with
    | nil => exact h
    | cons w ws =>
      constructor
      · intro n hn; exact h.items_le n hn
      · intro n hn; have := h.waiters_le n hn; simp [hw] at this ⊢; omega

theorem capinv_popC (s : State) (c : Nat) (h : CapInv s) : CapInv (stepPopC s c).1 := by
  unfold stepPopC
  split
  · exact h
  · rename_i hc
    unfold stepPop
    cases hi : s.items with
    | nil =>
      constructor
      · intro n hn; have := h.items_le n hn; simp [hi] at this ⊢
      · intro n hn
        have h1 := h.waiters_le n hn
        have hf : waitersFull s = decide (n ≤ s.waiters.length) := by unfold waitersFull; rw [hn]
        rw [hi, hf] at hc
        simp at hc ⊢; omega
    | cons x xs =>
      constructor
      · intro n hn; have := h.items_le n hn; simp [hi] at this ⊢; omega
      · intro n hn; exact h.waiters_le n hn

theorem capinv_popThrowC (s : State) (c : Nat) (h : CapInv s) : CapInv (stepPopThrowC s c).1 := by
  unfold stepPopThrowC
  split
  · exact capinv_popC s c h
  · exact ⟨h.items_le, h.waiters_le⟩

theorem capinv_upop (s : State) (c : Nat) (h : CapInv s) : CapInv (stepUpop s c).1 := by
  unfold stepUpop
  cases hw : s.waiters with
  | nil => exact h
  | cons w ws =>
    constructor
    · intro n hn; exact h.items_le n hn
    · intro n hn; have := h.waiters_le n hn; simp [hw] at this ⊢; omega

theorem capinv_destroy (s : State) (h : CapInv s) : CapInv (stepDestroy s).1 := by
  unfold stepDestroy
  constructor
  · intro n hn; exact h.items_le n hn
  · intro n hn; simp

theorem capinv_deliver (s : State) (k : Nat) (h : CapInv s) : CapInv (stepDeliver s k).1 := by
  unfold stepDeliver
  split
  · exact h
  · exact ⟨h.items_le, h.waiters_le⟩

theorem capinv_step (s : State) (op : Op) (h : CapInv s) : CapInv (step s op).1 := by
  unfold step
  cases op <;> simp only <;> (try split) <;> (try unfold stepLive) <;> (try simp only) <;>
    first
    | exact h
    | exact capinv_pushC s _ _ h
    | exact capinv_pushThrowC s h
    | exact capinv_popC s _ h
    | exact capinv_popThrowC s _ h
    | exact capinv_upop s _ h
    | exact capinv_destroy s h
    | exact capinv_deliver s _ h

theorem capinv_run (s : State) (ops : List Op) (h : CapInv s) : CapInv (run s ops) := by
  induction ops generalizing s with
  | nil => exact h
  | cons op ops ih => exact ih (step s op).1 (capinv_step s op h)

theorem reachable_capinv {s : State} (h : Reachable s) : CapInv s := by
  obtain ⟨cap, wcap, ops, rfl⟩ := h
  exact capinv_run _ ops (capinv_init cap wcap)

/-- an item whose hand-over threw is an item that was pushed -/
def RInv (s : State) : Prop := ∀ it ∈ s.rethrown, it ∈ s.pushed

theorem mem_pushed_of_mem_items {s : State} (h : Inv s) {x : Item} (hx : x ∈ s.items) : x ∈ s.pushed := by
  rw [← h.fifo]; exact List.mem_append_right _ hx

theorem rinv_step (s : State) (op : Op) (hi : Inv s) (h : RInv s) : RInv (step s op).1 := by
  have keep : ∀ t : State, t.rethrown = s.rethrown → (∀ it ∈ s.pushed, it ∈ t.pushed) → RInv t := by
    intro t h1 h2 it hit; rw [h1] at hit; exact h2 it (h it hit)
  have hpush : ∀ p v, RInv (stepPushC s p v).1 := by
    intro p v; unfold stepPushC stepPush
    split
    · exact h
    · split
      · exact keep _ rfl (fun it hit => List.mem_append_left _ hit)
      · exact keep _ rfl (fun it hit => List.mem_append_left _ hit)
  have hthrow : RInv (stepPushThrowC s).1 := by
    unfold stepPushThrowC stepPushThrow
    split
    · exact h
    · split
      · exact h
      · exact keep _ rfl (fun it hit => hit)
  have hpop : ∀ c, RInv (stepPopC s c).1 := by
    intro c; unfold stepPopC stepPop
    split
    · exact h
    · split
      · exact keep _ rfl (fun it hit => hit)
      · exact keep _ rfl (fun it hit => hit)
  have hpopt : ∀ c, RInv (stepPopThrowC s c).1 := by
    intro c; unfold stepPopThrowC
    cases hit : s.items with
    | nil => simp only; exact hpop c
    | cons x xs =>
      simp only
      intro it hmem
      simp only [List.mem_append, List.mem_singleton] at hmem
      rcases hmem with hm | hm
      · exact h it hm
      · subst hm; exact mem_pushed_of_mem_items hi (by rw [hit]; exact List.mem_cons_self)
  have hupop : ∀ c, RInv (stepUpop s c).1 := by
    intro c; unfold stepUpop; split
    · exact h
    · exact keep _ rfl (fun it hit => hit)
  have hdes : RInv (stepDestroy s).1 := by
    unfold stepDestroy; exact keep _ rfl (fun it hit => hit)
  have hdel : ∀ k, RInv (stepDeliver s k).1 := by
    intro k; unfold stepDeliver; split
    · exact h
    · exact keep _ rfl (fun it hit => hit)
  unfold step
  cases op <;> simp only <;> (try split) <;> (try unfold stepLive) <;> (try simp only) <;>
    first
    | exact h
    | exact hpush _ _
    | exact hthrow
    | exact hpop _
    | exact hpopt _
    | exact hupop _
    | exact hdes
    | exact hdel _

theorem reachable_rinv {s : State} (h : Reachable s) : RInv s := by
  obtain ⟨cap, wcap, ops, rfl⟩ := h
  suffices ∀ (s : State), Inv s → RInv s → RInv (run s ops) from
    this _ (inv_initCfg cap wcap) (by intro it hit; simp [initCfg] at hit)
  induction ops with
  | nil => intro s _ h; exact h
  | cons op ops ih => intro s hi h; exact ih (step s op).1 (inv_step s op hi) (rinv_step s op hi h)

theorem nodup_pushed {s : State} (h : Inv s) : s.pushed.Nodup := by
  have : (s.pushed.map (·.id)).Nodup := by rw [h.push_ids]; exact List.nodup_range
  exact List.Pairwise.of_map (·.id) (fun a b hab heq => hab (by rw [heq])) this

end Cocls.Q

/-! ## `queue<void>` is simulated by `queue<T>` -/
namespace Cocls.VQ
open Cocls.Q

/-- forget which item a pop received: `queue<void>` hands out anonymous counts -/
def forgetOut : Out → Out
  | Out.val _ => Out.ok
  | o => o
def forget (e : Ev) : Ev := ⟨e.pop, forgetOut e.out⟩
def forgetRes : Res → Res
  | Res.pop id (some o) => Res.pop id (some (forgetOut o))
  | r => r

/-- the `queue<void>` state that a `queue<T>` state looks like when the items are reduced to their number -/
def abs (s : Q.State) : VQ.State :=
  { wcap := s.wcap, sz := s.items.length, waiters := s.waiters, inflight := s.inflight.map forget, nextPop := s.nextPop,
    nPush := s.nextPush, alive := s.alive, served := s.served.map forget,
    completed := s.completed.map forget, unblocks := s.unblocks }

theorem init_abs : abs Q.init = VQ.init := rfl

theorem initCfg_abs (wcap : Option Nat) : abs (Q.initCfg none wcap) = VQ.initCfg wcap := rfl

theorem eraseIdx_map {α β} (f : α → β) (l : List α) (k : Nat) : (l.map f).eraseIdx k = (l.eraseIdx k).map f := by
  induction l generalizing k with
  | nil => rfl
  | cons x xs ih =>
    cases k with
    | zero => rfl
    | succ k => simp [ih]

theorem push_abs (s : Q.State) (p v : Nat) :
    VQ.stepPush (abs s) = (abs (Q.stepPush s p v).1, forgetRes (Q.stepPush s p v).2) := by
  unfold VQ.stepPush Q.stepPush
  cases hw : s.waiters with
  | nil => simp [abs, hw, forgetRes]
  | cons w ws => simp [abs, hw, forgetRes, forget, forgetOut]

theorem pushthrow_abs (s : Q.State) :
    VQ.stepPushThrow (abs s) = (abs (Q.stepPushThrow s).1, forgetRes (Q.stepPushThrow s).2) := by
  unfold VQ.stepPushThrow Q.stepPushThrow
  cases hw : s.waiters with
  | nil => simp [abs, hw, forgetRes]
  | cons w ws => simp [abs, hw, forgetRes, forget, forgetOut]

theorem pop_abs (s : Q.State) (c : Nat) :
    VQ.stepPop (abs s) c = (abs (Q.stepPop s c).1, forgetRes (Q.stepPop s c).2) := by
  unfold VQ.stepPop Q.stepPop
  cases hi : s.items with
  | nil => simp [abs, hi, forgetRes]
  | cons x xs =>
    have : Nat.max 1 (xs.length + 1) - 1 = xs.length := by
      have : Nat.max 1 (xs.length + 1) = xs.length + 1 := Nat.max_eq_right (by omega)
      omega
    simp [abs, hi, forgetRes, forget, forgetOut]

theorem upop_abs (s : Q.State) (c : Nat) :
    VQ.stepUpop (abs s) c = (abs (Q.stepUpop s c).1, forgetRes (Q.stepUpop s c).2) := by
  unfold VQ.stepUpop Q.stepUpop
  cases hw : s.waiters with
  | nil => simp [abs, hw, forgetRes]
  | cons w ws => simp [abs, hw, forgetRes, forget, forgetOut]

theorem destroy_abs (s : Q.State) :
    VQ.stepDestroy (abs s) = (abs (Q.stepDestroy s).1, forgetRes (Q.stepDestroy s).2) := by
  unfold VQ.stepDestroy Q.stepDestroy
  simp [abs, forgetRes, forget, forgetOut, Function.comp_def]

theorem deliver_abs (s : Q.State) (k : Nat) :
    VQ.stepDeliver (abs s) k = (abs (Q.stepDeliver s k).1, forgetRes (Q.stepDeliver s k).2) := by
  unfold VQ.stepDeliver Q.stepDeliver
  cases hk : s.inflight[k]? with
  | none => simp [abs, hk, forgetRes]
  | some e => simp [abs, hk, forgetRes, eraseIdx_map]

theorem empty_abs (s : Q.State) : ((abs s).sz == 0) = s.items.isEmpty := by
  unfold abs; cases s.items <;> simp

/-- `queue<void>` is `queue<T>` with the items reduced to their number: every step commutes with `abs` -/
theorem pushC_none (s : Q.State) (p v : Nat) (hc : s.cap = none) : Q.stepPushC s p v = Q.stepPush s p v := by
  simp [Q.stepPushC, Q.itemsFull, hc]

theorem pushThrowC_none (s : Q.State) (hc : s.cap = none) : Q.stepPushThrowC s = Q.stepPushThrow s := by
  simp [Q.stepPushThrowC, Q.itemsFull, hc]

theorem popC_abs (s : Q.State) (c : Nat) :
    VQ.stepPopC (abs s) c = (abs (Q.stepPopC s c).1, forgetRes (Q.stepPopC s c).2) := by
  have e1 : ((abs s).sz == 0) = s.items.isEmpty := empty_abs s
  have e2 : VQ.waitersFull (abs s) = Q.waitersFull s := rfl
  unfold VQ.stepPopC Q.stepPopC
  rw [e1, e2]
  split
  · rfl
  · exact pop_abs s c

/-- (`queue<void>` cannot have a bounded item store: `single_item_queue<void>` does not exist - hence `cap = none`) -/
theorem popThrowC_abs (s : Q.State) (c : Nat) :
    VQ.stepPopThrowC (abs s) c = (abs (Q.stepPopThrowC s c).1, forgetRes (Q.stepPopThrowC s c).2) := by
  unfold VQ.stepPopThrowC Q.stepPopThrowC
  cases hi : s.items with
  | nil =>
    have : (abs s).sz = 0 := by simp [abs, hi]
    simp only [this, if_true]
    have := popC_abs s c
    simpa [hi] using this
  | cons x xs =>
    have : (abs s).sz ≠ 0 := by simp [abs, hi]
    simp only [this, if_false]
    simp [abs, hi, forgetRes]

theorem step_abs (s : Q.State) (op : Op) (hc : s.cap = none) :
    VQ.step (abs s) op = (abs (Q.step s op).1, forgetRes (Q.step s op).2) := by
  have e : (abs s).alive = s.alive := rfl
  unfold VQ.step Q.step
  cases op with
  | deliver k => exact deliver_abs s k
  | push p v =>
    simp only [e]; split
    · simp only [VQ.stepLive, Q.stepLive, pushC_none s p v hc]; exact push_abs s p v
    · rfl
  | pushthrow =>
    simp only [e]; split
    · simp only [VQ.stepLive, Q.stepLive, pushThrowC_none s hc]; exact pushthrow_abs s
    · rfl
  | pop c =>
    simp only [e]; split
    · exact popC_abs s c
    · rfl
  | popthrow c =>
    simp only [e]; split
    · exact popThrowC_abs s c
    · rfl
  | upop c =>
    simp only [e]; split
    · exact upop_abs s c
    · rfl
  | size =>
    simp only [e]; split
    · rfl
    · rfl
  | empty =>
    simp only [e]; split
    · simp only [VQ.stepLive, Q.stepLive, empty_abs, forgetRes]
    · rfl
  | destroy =>
    simp only [e]; split
    · exact destroy_abs s
    · rfl

theorem run_abs (s : Q.State) (ops : List Op) (hc : s.cap = none) : VQ.run (abs s) ops = abs (Q.run s ops) := by
  induction ops generalizing s with
  | nil => rfl
  | cons op ops ih =>
    simp only [VQ.run, Q.run, List.foldl_cons] at ih ⊢
    rw [step_abs s op hc]; exact ih _ ((Q.cfg_step s op).1.trans hc)

def Reachable (t : VQ.State) : Prop := ∃ wcap ops, t = VQ.run (VQ.initCfg wcap) ops

theorem run_init_abs (wcap : Option Nat) (ops : List Op) :
    VQ.run (VQ.initCfg wcap) ops = abs (Q.run (Q.initCfg none wcap) ops) := by
  rw [← initCfg_abs]; exact run_abs _ ops rfl

theorem reachable_abs {t : VQ.State} (h : Reachable t) : ∃ s, Q.Reachable s ∧ t = abs s := by
  obtain ⟨wcap, ops, rfl⟩ := h
  exact ⟨Q.run (Q.initCfg none wcap) ops, ⟨none, wcap, ops, rfl⟩, run_init_abs wcap ops⟩

theorem length_filter_ok (l : List Ev) (hno : ∀ e ∈ l, e.out ≠ Out.ok) :
    ((l.map forget).filter (fun e => e.out == Out.ok)).length = (vals l).length := by
  induction l with
  | nil => rfl
  | cons x xs ih =>
    have ih' := ih (fun e he => hno e (List.mem_cons_of_mem _ he))
    have hx := hno x List.mem_cons_self
    cases ho : x.out with
    | val it => simp [forget, forgetOut, ho, vals, outItem] at ih' ⊢; exact ih'
    | ok => exact absurd ho hx
    | exc c => simp [forget, forgetOut, ho, vals, outItem] at ih' ⊢; exact ih'
    | canceled => simp [forget, forgetOut, ho, vals, outItem] at ih' ⊢; exact ih'

end Cocls.VQ
